/-
  Proofs/WaitNSem14.lean — `TI` across the caller's own steps outside the two loops (first poll, dequeue
  loop, free / relock / return, and threads that are not inside nsync_wait_n), the dispatch over the program
  counter, and the induction: `inv_of_run`.
-/
import NsyncVerif.Proofs.WaitNSem13

set_option linter.unusedSimpArgs false
set_option linter.unusedVariables false

namespace WaitN

/-- after the step the thread is outside the two loops, or has no record yet -/
theorem ti_out {s' : State} {b : SemId → Bool} {t : Tid}
    (h : inPhase (s'.pc t) = false ∨ ((s'.fr t).recs = [] ∧ inSleep (s'.pc t) = false)) : TI s' b t := by
  rcases h with h | ⟨h1, h2⟩
  · exact ti_of_notPhase h
  · exact ti_of_nil h1 h2

theorem spinAcq_out {s s' : State} {t : Tid} {c : Nat} {st : SpinSt} {mk : SpinSt → PC} {done : PC} {e : Ev}
    (hmk : ∀ x, inPhase (mk x) = false) (hdone : inPhase done = false) (hpc : inPhase (s.pc t) = false)
    (h : spinAcq s t c st mk done e = .ok s') : inPhase (s'.pc t) = false := by
  rcases (spinAcq_pc h).2.2.2 with ⟨x, hx⟩ | hx | hx
  · rw [hx]; exact hmk x
  · rw [hx]; exact hdone
  · rw [hx]; exact hpc

theorem rtDone_poll_out {s s' : State} {t : Tid} {i : Nat} {time : Deadline} (hrecs : (s.fr t).recs = [])
    (hpos : 0 < (s.fr t).count) (h : rtDone s t .poll i time = .ok s') :
    inPhase (s'.pc t) = false ∨ ((s'.fr t).recs = [] ∧ inSleep (s'.pc t) = false) := by
  simp only [rtDone] at h
  split at h
  · cases h; left; simp [inPhase, inSleep]
  · cases h; right
    refine ⟨by simpa using hrecs, ?_⟩
    simp only [setPc_pc, if_true, pollNext]
    exact inSleep_pollFrom _ hpos _ _

theorem rtDone_deq_out {s s' : State} {t : Tid} {i : Nat} {time : Deadline} (h : rtDone s t .deq i time = .ok s') :
    inPhase (s'.pc t) = false := by
  simp only [rtDone] at h
  cases h; simp [inPhase, inSleep]

theorem deqDone_out {s s' : State} {t : Tid} {j : Nat} {res : Bool} (h : deqDone s t j res = .ok s') :
    inPhase (s'.pc t) = false := by
  unfold deqDone at h
  dsimp only at h
  split at h <;> (cases h; simp)

section own
variable {s s' : State} {b : SemId → Bool} {t : Tid} {e : Ev}
  (hr : Reachable s) (sb : SB s) (hs : stepThr s t e = .ok s') (ti : TI s b t)
include hr sb hs ti

theorem ti_stepIdle (hpc : s.pc t = .idle) (h : stepIdle s t e = .ok s') : TI s' (binStep b (.thr t e)) t := by
  have Ko : stepOpen s t e = .ok s' → TI s' (binStep b (.thr t e)) t := fun h => ti_keeps hr sb hs (keeps_stepOpen h) ti
  unfold stepIdle at h
  split_ok h
  all_goals first
    | exact Ko h
    | (cases h; apply ti_of_notPhase; simp [hpc, inPhase, inSleep]; done)
    | skip
  rename_i mu dl objs nested hc
  cases h
  refine ti_of_nil (by simp [Frame.new, Frame.empty]) ?_
  simp only [setPc_pc, setPc_fr, setFr_fr, if_true, pollNext]
  apply inSleep_pollFrom
  simp only [Frame.new, Frame.count]
  exact List.length_pos_iff.2 hc.2.2.1

theorem ti_stepSg {c : Nat} {bc : Bool} {st : SgSt} (hpc : s.pc t = .sg c bc st) (h : stepSg s t c bc st e = .ok s') :
    TI s' (binStep b (.thr t e)) t := by
  have Kd : dflt s t e = .ok s' → TI s' (binStep b (.thr t e)) t := fun h => ti_keeps hr sb hs (keeps_dflt h) ti
  unfold stepSg at h
  split_ok h
  all_goals first
    | exact Kd h
    | exact ti_of_notPhase (spinAcq_out (fun _ => rfl) rfl (hpc ▸ rfl) h)
    | (cases h; apply ti_of_notPhase; simp [inPhase, inSleep]; done)
    | (cases h; apply ti_of_notPhase; simp [hpc, inPhase, inSleep]; done)
    | (cases h; apply ti_of_notPhase; simp [inPhase, inSleep]; split <;> rfl)

theorem ti_stepAlloc (hpc : s.pc t = .wAlloc) (h : stepAlloc s t e = .ok s') : TI s' (binStep b (.thr t e)) t := by
  have hl : LInv .wAlloc (s.fr t) := hpc ▸ linv_of_reachable hr t
  have Kd : dflt s t e = .ok s' → TI s' (binStep b (.thr t e)) t := fun h => ti_keeps hr sb hs (keeps_dflt h) ti
  unfold stepAlloc at h
  split_ok h
  all_goals first
    | exact Kd h
    | skip
  cases h
  refine ti_of_nil (by simpa using hl.1.recs) ?_
  simp only [setPc_pc, if_true]
  rw [enqNext_zero (by simpa [Frame.count] using hl.1.pos)]
  rfl

theorem ti_stepCtrRT_poll {i : Nat} {l : Bool} (hpc : s.pc t = .wCtrRT .poll i l) (h : stepCtrRT s t .poll i l e = .ok s') :
    TI s' (binStep b (.thr t e)) t := by
  have hl : LInv (.wCtrRT .poll i l) (s.fr t) := hpc ▸ linv_of_reachable hr t
  have Kd : dflt s t e = .ok s' → TI s' (binStep b (.thr t e)) t := fun h => ti_keeps hr sb hs (keeps_dflt h) ti
  unfold stepCtrRT at h
  split_ok h
  all_goals first
    | exact Kd h
    | (cases h; apply ti_of_notPhase; simp [inPhase, inSleep]; done)
    | exact ti_out (rtDone_poll_out hl.1.recs hl.1.pos h)

theorem ti_stepND_poll {i : Nat} {st : NDst} (hpc : s.pc t = .wND .poll i st) (h : stepND s t .poll i st e = .ok s') :
    TI s' (binStep b (.thr t e)) t := by
  have hl : LInv (.wND .poll i st) (s.fr t) := hpc ▸ linv_of_reachable hr t
  have Kd : dflt s t e = .ok s' → TI s' (binStep b (.thr t e)) t := fun h => ti_keeps hr sb hs (keeps_dflt h) ti
  have Ko : stepOpen s t e = .ok s' → TI s' (binStep b (.thr t e)) t := fun h => ti_keeps hr sb hs (keeps_stepOpen h) ti
  unfold stepND at h
  split_ok h
  all_goals first
    | exact Kd h
    | exact Ko h
    | (cases h; apply ti_of_notPhase; simp [inPhase, inSleep]; done)
    | exact ti_out (rtDone_poll_out hl.1.recs hl.1.pos h)

theorem ti_stepND_deq {i : Nat} {st : NDst} (hpc : s.pc t = .wND .deq i st) (h : stepND s t .deq i st e = .ok s') :
    TI s' (binStep b (.thr t e)) t := by
  have Kd : dflt s t e = .ok s' → TI s' (binStep b (.thr t e)) t := fun h => ti_keeps hr sb hs (keeps_dflt h) ti
  have Ko : stepOpen s t e = .ok s' → TI s' (binStep b (.thr t e)) t := fun h => ti_keeps hr sb hs (keeps_stepOpen h) ti
  unfold stepND at h
  split_ok h
  all_goals first
    | exact Kd h
    | exact Ko h
    | exact ti_of_notPhase (rtDone_deq_out h)
    | (cases h; apply ti_of_notPhase; simp [inPhase, inSleep]; done)

theorem ti_stepDeqCv {j : Nat} {st : CvDeqSt} (hpc : s.pc t = .wDeqCv j st) (h : stepDeqCv s t j st e = .ok s') :
    TI s' (binStep b (.thr t e)) t := by
  have Kd : dflt s t e = .ok s' → TI s' (binStep b (.thr t e)) t := fun h => ti_keeps hr sb hs (keeps_dflt h) ti
  unfold stepDeqCv at h
  split_ok h
  all_goals first
    | exact Kd h
    | exact ti_of_notPhase (spinAcq_out (fun _ => rfl) rfl (hpc ▸ rfl) h)
    | exact ti_of_notPhase (deqDone_out h)
    | (cases h; apply ti_of_notPhase; simp [inPhase, inSleep]; done)
    | (cases h; apply ti_of_notPhase; simp [hpc, inPhase, inSleep]; done)

theorem ti_stepDeq {j : Nat} {st : DeqSt} (hpc : s.pc t = .wDeq j st) (h : stepDeq s t j st e = .ok s') :
    TI s' (binStep b (.thr t e)) t := by
  have Kd : dflt s t e = .ok s' → TI s' (binStep b (.thr t e)) t := fun h => ti_keeps hr sb hs (keeps_dflt h) ti
  unfold stepDeq at h
  split_ok h
  all_goals first
    | exact Kd h
    | exact ti_of_notPhase (deqDone_out h)
    | (cases h; apply ti_of_notPhase; simp [inPhase, inSleep]; done)

theorem ti_stepFree (hpc : s.pc t = .wFree) (h : stepFree s t e = .ok s') : TI s' (binStep b (.thr t e)) t := by
  have Kd : dflt s t e = .ok s' → TI s' (binStep b (.thr t e)) t := fun h => ti_keeps hr sb hs (keeps_dflt h) ti
  unfold stepFree at h
  split_ok h
  all_goals first
    | exact Kd h
    | (cases h; apply ti_of_notPhase; simp; done)
    | (cases h; apply ti_of_notPhase; simp [inPhase, inSleep]; done)

theorem ti_stepRelock (hpc : s.pc t = .wRelock) (h : stepRelock s t e = .ok s') : TI s' (binStep b (.thr t e)) t := by
  have Kd : dflt s t e = .ok s' → TI s' (binStep b (.thr t e)) t := fun h => ti_keeps hr sb hs (keeps_dflt h) ti
  unfold stepRelock at h
  split_ok h
  all_goals first
    | exact Kd h
    | (cases h; apply ti_of_notPhase; simp [inPhase, inSleep]; done)

theorem ti_stepRet {r : Nat} (hpc : s.pc t = .wRet r) (h : stepRet s t r e = .ok s') : TI s' (binStep b (.thr t e)) t := by
  have Kd : dflt s t e = .ok s' → TI s' (binStep b (.thr t e)) t := fun h => ti_keeps hr sb hs (keeps_dflt h) ti
  unfold stepRet at h
  split_ok h
  all_goals first
    | exact Kd h
    | (cases h; apply ti_of_notPhase; simp [inPhase, inSleep]; done)

/-- the caller's own step -/
theorem ti_own : TI s' (binStep b (.thr t e)) t := by
  have h := hs
  have hl := linv_of_reachable hr t
  unfold stepThr at h
  split at h <;> rename_i hpc
  · exact ti_stepIdle hr sb hs ti hpc h
  · simp at h
  · exact ti_stepSg hr sb hs ti hpc h
  · rename_i u i l
    cases u with
    | poll => exact ti_stepCtrRT_poll hr sb hs ti hpc h
    | loop => exact ti_stepCtrRT_loop hr sb hs ti hpc h
    | deq => rw [hpc] at hl; exact hl.elim
  · rename_i u i st
    cases u with
    | poll => exact ti_stepND_poll hr sb hs ti hpc h
    | loop => exact ti_stepND_loop hr sb hs ti hpc h
    | deq => exact ti_stepND_deq hr sb hs ti hpc h
  · exact ti_stepEnqCv hr sb hs ti hpc h
  · exact ti_stepEnq hr sb hs ti hpc h
  · exact ti_stepDeqCv hr sb hs ti hpc h
  · exact ti_stepDeq hr sb hs ti hpc h
  · exact ti_stepAlloc hr sb hs ti hpc h
  · exact ti_stepInit hr sb hs ti hpc h
  · exact ti_stepUnlockMu hr sb hs ti hpc h
  · exact ti_stepCvRT hr sb hs ti hpc h
  · exact ti_stepPdEnter hr sb hs ti hpc h
  · exact ti_stepPdWait hr sb hs ti hpc h
  · exact ti_stepFree hr sb hs ti hpc h
  · exact ti_stepRelock hr sb hs ti hpc h
  · exact ti_stepRet hr sb hs ti hpc h

end own

/-- the invariants hold after every accepted event sequence -/
theorem inv_of_run (evs : List Event) (s : State) (h : run init evs = .ok s) :
    SB s ∧ ∀ t, TI s (binSem evs) t := by
  refine reachB_induction (P := fun s b => SB s ∧ ∀ t, TI s b t) ?_ ?_ evs s h
  · exact ⟨sb_init, fun t => ti_of_notPhase (by simp [init, inPhase, inSleep])⟩
  · intro s b ev s' hr ⟨sb, ti⟩ hs
    cases ev with
    | thr u e =>
      simp only [step] at hs
      refine ⟨sb_step sb hs, fun t => ?_⟩
      by_cases htu : t = u
      · subst htu; exact ti_own hr sb hs (ti t)
      · exact ti_other hr sb hs htu (ti t)
    | tick ns =>
      simp only [step] at hs
      split at hs
      · rename_i hle
        cases hs
        exact ⟨⟨sb.b1, sb.b3⟩, fun t => ti_tick hr hle (ti t)⟩
      · simp at hs

end WaitN
