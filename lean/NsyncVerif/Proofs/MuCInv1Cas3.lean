import NsyncVerif.Proofs.MuCInv1Cas2
/-
  MuC, first invariant group: the grab CAS of unlock_slow and the CAS steps of mu_wait.c.
-/
namespace NsyncVerif.MuC

theorem inv1_stepCas3 {s s' : State} {t : Tid} {o : Ord} {loc : Loc} {exp new obs : Nat} {ok : Bool} (h : Inv1 s)
    (hp : match s.pc t with
      | .usCasGrab _ _ | .mwEnqCas _ _ | .mwRelCas _ _ _ | .mtCasAcq _ _ | .mtCasWW _ _ | .mtRmCas _ _ _ => True
      | _ => False)
    (hs : stepCas s t o loc exp new obs ok = .ok s') : Inv1 s' := by
  unfold stepCas at hs
  split at hs
  all_goals try (rename_i heq; rw [heq] at hp; exact False.elim hp)
  all_goals try (rename_i hne; split at hp <;> first | exact False.elim hp | (exfalso; simp_all; done))
  · -- usCasGrab
    rename_i r old heq
    have hok0 := h.pcok t; rw [heq] at hok0
    obtain ⟨hrok, hhas, hunc⟩ := hok0
    have hsh : shareOf s t = some r.mode := by rw [h.share_eq (by rw [heq]; simp), heq]; rfl
    have hheld := h.held_none (t := t) (by rw [heq]; simp)
    rcases casWordE_ok hs with ⟨hw, -, hs⟩ | ⟨-, -, rfl⟩
    · have hsc0 : Scan.ok { late := old.cond, tc := old.cond, done := [], passed := [], todo := [], wake := [], wt := none,
                            sww := false, saf := true } := fun h => h
      obtain ⟨hf, p, hpc, hsc⟩ := afterPickup_frame hs hsc0
      have hpt : ScanPc r old.cond (s'.pc t) := by rw [hpc]; simpa using hsc
      have hself : shareOf s' t = if old.cond then some .W else none := by
        rw [shareOf_self (by rw [hf.held]; simpa using hheld), hpt.share]
      have hoth : ∀ u, u ≠ t → shareOf s' u = shareOf s u := by
        intro u hu; exact shareOf_other (by rw [hf.held]; simp) (by rw [hpc]; simp [setFn, hu])
      refine Inv1.scan_step (late := old.cond) t h (by rw [heq]; simp) hrok (by rw [hf.held]; simp)
        (by intro u hu; rw [hpc]; simp [setFn, hu]) hpt ?_
      cases hc : old.cond with
      | false =>
        rw [hc] at hself
        refine h.lock.release (l := r.mode) hsh ?_ ?_ ?_ ?_ hself hoth
        · rw [hf.word]; simp [hc, hw, grabWord]
          cases hm : r.mode with
          | W => simp [subWord]
          | R =>
            simp [subWord]
            rw [hm] at hsh
            have hmem := (h.lock.rown t).2 hsh
            cases hwl : s.word.wlock with
            | false => rw [← hw, hwl]
            | true => rw [h.lock.noReaders (h.lock.excl hwl)] at hmem; cases hmem
        · rw [hf.word]; simp [hc, hw, grabWord]
        · rw [hf.wOwner]; simp [hc]; cases r.mode <;> rfl
        · rw [hf.rOwners]; simp [hc]; cases r.mode <;> rfl
      | true =>
        rw [hc] at hself
        cases hm : r.mode with
        | W =>
          rw [hm] at hsh
          have hown := (h.lock.wown t).2 hsh
          have hwl : s.word.wlock = true := by rw [h.lock.wl, hown]; rfl
          refine h.lock.same ?_ ?_ ?_ ?_ ?_
          · rw [hf.word]; simp [hc, hw, grabWord]; rw [← hw, hwl]
          · rw [hf.word]; simp [hc, hw, grabWord, hm, subWord]
          · rw [hf.wOwner]; simp [hc, hown]
          · rw [hf.rOwners]; simp [hc, hm]
          · intro u
            by_cases hu : u = t
            · subst hu; rw [hself, hsh]; simp
            · exact hoth u hu
        | R =>
          rw [hm] at hsh
          have hr1 : s.word.readers = 1 := by
            rw [hw]
            simp [uncontended] at hunc
            simp [hm, hasShare] at hhas
            omega
          refine h.lock.upgrade hsh hr1 ?_ ?_ ?_ ?_ hself hoth
          · rw [hf.word]; simp [hc, grabWord]
          · rw [hf.word]; simp [hc, grabWord, hm, subWord]; rw [← hw, hr1]
          · rw [hf.wOwner]; simp [hc]
          · rw [hf.rOwners]; simp [hc, hm]
    · inv1_local t h heq
  · -- mwEnqCas
    rename_i c old heq
    split at hs
    · cases hs
    · rename_i k hk
      rcases casWord_ok hs with ⟨hw, -, rfl⟩ | ⟨-, -, rfl⟩
      · split
        · refine Inv1.local t h (by simp [enqLast, hw, mwEnqWord]) (by simp [enqLast, hw, mwEnqWord]) (by simp) (by simp) (by simp)
            (by intro u hu; simp [setFn, hu]) (by rw [heq]; simp) ?_ (by rw [heq]; simp [pcShare])
          have hok := h.pcok t; rw [heq] at hok; simpa [PC.ok, MW.ok] using hok
        · refine Inv1.local t h (by simp [enqFirst, hw, mwEnqWord]) (by simp [enqFirst, hw, mwEnqWord]) (by simp) (by simp) (by simp)
            (by intro u hu; simp [setFn, hu]) (by rw [heq]; simp) ?_ (by rw [heq]; simp [pcShare])
          have hok := h.pcok t; rw [heq] at hok; simpa [PC.ok, MW.ok] using hok
      · inv1_local t h heq
  · -- mwRelCas
    rename_i c old add0 heq
    have hok0 := h.pcok t; rw [heq] at hok0
    rcases casWord_ok hs with ⟨hw, -, rfl⟩ | ⟨-, -, rfl⟩
    · cases ha : add0 with
      | true =>
        simp only [if_true]
        refine Inv1.local t h (by simp [hw]) (by simp [hw]) (by simp) (by simp) (by simp)
          (by intro u hu; simp [setFn, hu]) (by rw [heq]; simp) ?_ (by rw [heq]; simp [pcShare, Ret.mode])
        simp [PC.ok, Ret.ok, MW.inner, MW.ok] at hok0 ⊢
        obtain ⟨⟨a1, a2, a3, a4, a5⟩, a6⟩ := hok0
        exact ⟨a1, a3, a6⟩
      | false =>
        simp only [Bool.false_eq_true, if_false]
        refine Inv1.step t h (by simp) (by intro u hu; simp [setFn, hu]) (by rw [heq]; simp) ?_ ?_
        · simp [PC.ok, MW.ok] at hok0 ⊢
          obtain ⟨⟨a1, a2, a3, a4, a5⟩, a6⟩ := hok0
          exact ⟨a1, a3, a6⟩
        · refine h.lock.release (l := c.l) (by sh_old t h heq) (by simp [hw]) (by simp [hw])
            (by cases c.l <;> rfl) (by cases c.l <;> rfl) ?_ (by sh_oth)
          have hheld := h.held_none (t := t) (by rw [heq]; simp)
          simp [shareOf, tshare, hheld, pcShare]
    · inv1_local t h heq
  · -- mtCasAcq
    rename_i c old heq
    have hok0 := h.pcok t; rw [heq] at hok0
    rcases casWord_ok hs with ⟨hw, -, rfl⟩ | ⟨-, -, rfl⟩
    · inv1_step t h heq
      refine h.lock.acquireW (by sh_old t h heq) (by rw [hw]; exact hok0.2.2.2.1) (by rw [hw]; exact hok0.2.2.2.2)
        (by simp [mtAcqWord]) (by simp [mtAcqWord]; exact hok0.2.2.2.2) (by simp) (by simp) (by sh_new t h heq) (by sh_oth)
    · inv1_local t h heq
  · -- mtCasWW
    rename_i c old heq
    rcases casWord_ok hs with ⟨hw, -, rfl⟩ | ⟨-, -, rfl⟩
    · refine Inv1.local t h (by simp [hw]) (by simp [hw]) (by simp) (by simp) (by simp)
        (by intro u hu; simp [setFn, hu]) (by rw [heq]; simp) ?_ (by rw [heq]; simp [pcShare])
      have hok := h.pcok t; rw [heq] at hok; simpa [PC.ok] using hok
    · inv1_local t h heq
  · -- mtRmCas
    rename_i c old rc heq
    ld_case t h heq hs

end NsyncVerif.MuC
