/-
  Layer `Note`, invariant family G (no use after free), second part: the invariant `InvLive`, the
  notes a program counter may dereference (`PC.uses`), and the fact that — in a state in which
  `InvLive` holds — none of them, and none of their children, is a freed note.
-/
import NsyncVerif.Proofs.NoteFixG

set_option linter.unusedSimpArgs false

namespace Note

/-- `nsync_note_free (n)` has left its last WAIT_FOR_NO_CHILDREN (`n`). -/
def FPos.afterWait : FPos → Bool
  | .unlockPCall | .unlockPRet | .unlockCall | .unlockRet | .free | .ret => true
  | _ => false

/-- `nsync_note_free (n)` has released `n->note_mu` for the last time. -/
def FPos.released : FPos → Bool
  | .unlockRet | .free | .ret => true
  | _ => false

structure InvLive (s : State) : Prop where
  /-- a note on a children list is not freed, nor is the owner of the list -/
  child : ∀ p c, c ∈ (s.notes p).children → (s.notes c).freed = false ∧ (s.notes p).freed = false
  /-- a note whose mutex is held is not freed -/
  held : ∀ k t, (s.notes k).lockHolder = some t → (s.notes k).freed = false
  /-- after its last WAIT_FOR_NO_CHILDREN the note being freed has neither parent nor children -/
  done : ∀ t pos n par c nx, s.pc t = .fr pos n par c nx → pos.afterWait = true →
    (s.notes n).parent = none ∧ (s.notes n).children = []
  /-- … and once its mutex is released for the last time nobody holds it -/
  quiet : ∀ t pos n par c nx, s.pc t = .fr pos n par c nx → pos.released = true →
    (s.notes n).lockHolder = none

theorem InvLive.init : InvLive Note.init := by
  refine ⟨?_, ?_, ?_, ?_⟩ <;> simp [Note.init, NoteRec.blank]

/-! ### The notes a program counter may dereference -/

def DK.par : DK → List NoteId
  | .newSelf (some p) _ => [p]
  | _ => []

def NK.par : NK → List NoteId
  | .ofDeadline dk => dk.par
  | .ofApi => []

/-- Positions of `notify` at which the local `parent` may still be dereferenced. -/
def NPos.usesPar : NPos → Bool
  | .tryCall | .tryRet | .sUnlockCall | .sUnlockRet | .sLockPCall | .sLockPRet | .sLockNCall
  | .sLockNRet | .unlockPCall => true
  | _ => false

def FPos.usesPar : FPos → Bool
  | .tryCall | .tryRet | .sUnlockCall | .sUnlockRet | .sLockPCall | .sLockPRet | .sLockNCall
  | .sLockNRet | .lockChild | .lockChildRet | .unlockChild | .unlockChildRet | .waitCall
  | .waitRet _ | .unlockPCall => true
  | _ => false

def FPos.usesChild : FPos → Bool
  | .lockChild | .lockChildRet | .unlockChild => true
  | _ => false

def CPos.usesChild : CPos → List NoteId
  | .lockChild c | .lockChildRet c | .unlockChild c => [c]
  | _ => []

/-- The notes the thread may dereference directly at its next step. -/
def PC.uses : PC → List NoteId
  | .dl _ n _ dk => n :: dk.par
  | .nfy pos n par nk => n :: (nk.par ++ (bif pos.usesPar then par.toList else []))
  | .chd pos stk top => pos.usesChild ++ (stk.map Frame.note ++ (top.par.toList ++ top.n :: top.k.par))
  | .newP _ n p _ => [n, p]
  | .retExpiry n => [n]
  | .fr .ret _ _ _ _ => []
  | .fr pos n par c _ =>
    n :: ((bif pos.usesChild then [c] else []) ++ (bif pos.usesPar then par.toList else []))
  | .wt0 _ n _ => [n]
  | .wt _ n _ _ => [n]
  | _ => []

/-! ### None of them is freed -/

theorem arg_live {s : State} (hr : Reachable s) {t : Tid} {n : NoteId}
    (h : (s.pc t).arg = some n) (hf : (s.pc t).freedIt = false) : (s.notes n).freed = false := by
  have hU := hr.invU
  cases hfr : (s.notes n).freed with
  | false => rfl
  | true =>
    have := hU.freedK t n hfr ((hU.users t n).mpr h)
    rw [hf] at this; cases this

theorem creating_live {s : State} (hr : Reachable s) {t : Tid} {n : NoteId}
    (h : (s.pc t).creating = some n) : (s.notes n).freed = false := by
  cases hfr : (s.notes n).freed with
  | false => rfl
  | true =>
    have h1 := hr.invFP n (hr.invU.freedA n hfr)
    rw [(hr.inv6.1.creating t n h).2] at h1; cases h1

theorem held_live {s : State} (hr : Reachable s) (hG : InvLive s) {t : Tid} {k : NoteId}
    (h : k ∈ (s.pc t).held) : (s.notes k).freed = false :=
  hG.held k t ((hr.inv6.2.2.2.2.2.iff k t).mpr h)

theorem linked_live {s : State} (hr : Reachable s) (hG : InvLive s) {t : Tid} {n p : NoteId}
    (h : (s.pc t).linked = some (n, p)) : (s.notes p).freed = false :=
  (hG.child p n (hr.invT.p2c p n (hr.invForest.linked t n p h))).2

/-- The note of a `nsync_note_notified_deadline_` / `notify` activation: the argument of the
    call, or the note being created. -/
theorem dk_self_live {s : State} (hr : Reachable s) {t : Tid} {n : NoteId} {dk : DK}
    (harg : (s.pc t).arg = dk.arg n) (hcr : (s.pc t).creating = bif dk.isNew then some n else none)
    (hf : (s.pc t).freedIt = false) : (s.notes n).freed = false := by
  cases dk with
  | newSelf par dl => exact creating_live hr (t := t) (by rw [hcr]; rfl)
  | _ => exact arg_live hr (t := t) (by rw [harg]; rfl) hf

theorem dk_par_live {s : State} (hr : Reachable s) {t : Tid} {n : NoteId} {dk : DK}
    (harg : (s.pc t).arg = dk.arg n) (hf : (s.pc t).freedIt = false) :
    ∀ k ∈ dk.par, (s.notes k).freed = false := by
  intro k hk
  cases dk with
  | newSelf par dl =>
    cases par with
    | none => simp [DK.par] at hk
    | some p =>
      simp only [DK.par, List.mem_singleton] at hk
      subst hk
      exact arg_live hr (t := t) (by rw [harg]; rfl) hf
  | _ => simp [DK.par] at hk

theorem uses_live {s : State} (hr : Reachable s) (hG : InvLive s) (t : Tid) :
    ∀ k ∈ (s.pc t).uses, (s.notes k).freed = false := by
  intro k hk
  have hF := hr.invForest
  have hL := hr.inv6.2.2.2.2.1
  cases hpc : s.pc t with
  | dl pos n nt dk =>
    rw [hpc] at hk
    simp only [PC.uses, List.mem_cons] at hk
    rcases hk with rfl | hk
    · exact dk_self_live hr (t := t) (dk := dk) (by rw [hpc]; rfl) (by rw [hpc]; rfl)
        (by rw [hpc]; rfl)
    · exact dk_par_live hr (t := t) (n := n) (dk := dk) (by rw [hpc]; rfl) (by rw [hpc]; rfl) k hk
  | nfy pos n par nk =>
    rw [hpc] at hk
    simp only [PC.uses, List.mem_cons, List.mem_append] at hk
    rcases hk with rfl | hk | hk
    · cases nk with
      | ofApi => exact arg_live hr (t := t) (by rw [hpc]; rfl) (by rw [hpc]; rfl)
      | ofDeadline dk =>
        exact dk_self_live hr (t := t) (dk := dk) (by rw [hpc]; rfl) (by rw [hpc]; rfl)
          (by rw [hpc]; rfl)
    · cases nk with
      | ofApi => simp [NK.par] at hk
      | ofDeadline dk =>
        exact dk_par_live hr (t := t) (n := n) (dk := dk) (by rw [hpc]; rfl) (by rw [hpc]; rfl)
          k hk
    · cases par with
      | none => cases pos <;> simp [NPos.usesPar] at hk
      | some p =>
        cases pos <;> simp [NPos.usesPar] at hk <;> subst hk
        all_goals first
          | exact linked_live hr hG (t := t) (n := n) (by rw [hpc]; rfl)
          | exact held_live hr hG (t := t) (by rw [hpc]; simp [PC.held])
  | chd pos stk top =>
    rw [hpc] at hk
    have hc := hL.claim_of hpc
    simp only [PC.uses, List.mem_cons, List.mem_append] at hk
    -- the note of the outermost activation
    have htop : (s.notes top.n).freed = false := by
      cases hk' : top.k with
      | ofApi => exact arg_live hr (t := t) (by rw [hpc]; simp [PC.arg, hk', NK.arg]) (by rw [hpc]; rfl)
      | ofDeadline dk =>
        exact dk_self_live hr (t := t) (dk := dk) (by rw [hpc]; simp [PC.arg, hk', NK.arg])
          (by rw [hpc]; simp [hk']) (by rw [hpc]; rfl)
    rcases hk with hk | hk | hk | rfl | hk
    · -- the child the loop is working on
      cases stk with
      | nil => exact absurd hpc (hL.chd_ne_nil t _ _)
      | cons f rest =>
        cases pos <;> simp [CPos.usesChild] at hk <;> subst hk
        · exact (hG.child _ _ (hF.chc t _ _ _ _ _ hpc rfl)).1
        · exact (hG.child _ _ (hF.chc t _ _ _ _ _ hpc rfl)).1
        · exact held_live hr hG (t := t) (by rw [hpc]; simp [PC.held])
    · -- a note of the activation stack
      obtain ⟨g, hg, rfl⟩ := List.mem_map.mp hk
      cases stk with
      | nil => cases hg
      | cons f rest =>
        rcases List.mem_cons.mp hg with rfl | hg
        · -- the innermost note: the outermost one, or a child of the enclosing activation's note
          cases rest with
          | nil =>
            have : g.note = top.n := by simpa using hc.2.2.1
            rw [this]; exact htop
          | cons g' gs =>
            have := hF.chain t _ _ _ hpc
            simp only [List.map_cons, ChainCur] at this
            exact (hG.child _ _ this.1).1
        · exact held_live hr hG (t := t) (by
            rw [hpc]; exact held_chd_tail (by simp; exact ⟨g, hg, rfl⟩))
    · cases hp : top.par with
      | none => rw [hp] at hk; cases hk
      | some p =>
        rw [hp] at hk
        simp only [Option.toList, List.mem_singleton] at hk
        subst hk
        cases stk with
        | nil => exact absurd hpc (hL.chd_ne_nil t _ _)
        | cons f rest =>
          exact linked_live hr hG (t := t) (n := top.n) (by rw [hpc]; simp [PC.linked, hp])
    · exact htop
    · cases hk' : top.k with
      | ofApi => rw [hk'] at hk; simp [NK.par] at hk
      | ofDeadline dk =>
        rw [hk'] at hk
        exact dk_par_live hr (t := t) (n := top.n) (dk := dk)
          (by rw [hpc]; simp [PC.arg, hk', NK.arg]) (by rw [hpc]; rfl) k hk
  | newP pos n p dl =>
    rw [hpc] at hk
    simp only [PC.uses, List.mem_cons, List.not_mem_nil, or_false] at hk
    rcases hk with rfl | rfl
    · exact creating_live hr (t := t) (by rw [hpc]; rfl)
    · exact arg_live hr (t := t) (by rw [hpc]; rfl) (by rw [hpc]; rfl)
  | retExpiry n =>
    rw [hpc] at hk
    simp only [PC.uses, List.mem_singleton] at hk
    subst hk
    exact arg_live hr (t := t) (by rw [hpc]; rfl) (by rw [hpc]; rfl)
  | wt0 pos n wdl =>
    rw [hpc] at hk
    simp only [PC.uses, List.mem_singleton] at hk
    subst hk
    exact arg_live hr (t := t) (by rw [hpc]; rfl) (by rw [hpc]; rfl)
  | wt pos n wdl r =>
    rw [hpc] at hk
    simp only [PC.uses, List.mem_singleton] at hk
    subst hk
    exact arg_live hr (t := t) (by rw [hpc]; rfl) (by rw [hpc]; rfl)
  | fr pos n par c nx =>
    rw [hpc] at hk
    by_cases hret : pos = .ret
    · subst hret; simp [PC.uses] at hk
    · have hk' : k = n ∨ (pos.usesChild = true ∧ k = c) ∨ (pos.usesPar = true ∧ par = some k) := by
        cases pos <;> simp [PC.uses, FPos.usesChild, FPos.usesPar] at hk hret ⊢ <;>
          (try cases par) <;> simp_all
      rcases hk' with rfl | ⟨h1, rfl⟩ | ⟨h1, rfl⟩
      · exact arg_live hr (t := t) (by rw [hpc]; rfl) (by
          rw [hpc]; cases pos <;> first | rfl | exact absurd rfl hret)
      · cases pos <;> simp [FPos.usesChild] at h1
        · exact (hG.child _ _ (hF.frc t _ _ _ _ _ hpc rfl)).1
        · exact (hG.child _ _ (hF.frc t _ _ _ _ _ hpc rfl)).1
        · exact held_live hr hG (t := t) (by rw [hpc]; simp [PC.held])
      · cases pos <;> simp [FPos.usesPar] at h1
        all_goals first
          | exact linked_live hr hG (t := t) (n := n) (by rw [hpc]; rfl)
          | exact held_live hr hG (t := t) (by rw [hpc]; simp [PC.held])
  | _ => rw [hpc] at hk; simp [PC.uses] at hk

end Note
