/-
  Layer `Note`, invariant family F (the current forest), third part: I1 of the repair of F7 — the
  local `parent` of a top-level `disconnecting` section on `n` is `n->parent` as long as the thread
  has not executed the end of its own `note_notify_child (n, parent)` / its own disconnection in
  `nsync_note_free` ("the last disconnector unlinks") — and the invariant itself.
-/
import NsyncVerif.Proofs.NoteRelF5

set_option linter.unusedSimpArgs false

namespace Note

/-! ### I1: the local `parent` of a top-level section is the note's parent -/

@[simp] theorem linked_afterDeadlinePc (n : NoteId) (nt : Dl) (k : DK) :
    (afterDeadlinePc n nt k).linked = none := by
  cases k <;> simp only [afterDeadlinePc] <;> (try split) <;> (try split) <;> rfl

@[simp] theorem linked_afterNotifyPc (n : NoteId) (k : NK) : (afterNotifyPc n k).linked = none := by
  cases k with
  | ofApi => rfl
  | ofDeadline dk => exact linked_afterDeadlinePc n (some 0) dk

theorem linked_childReturnPc (f : Frame) (rest : List Frame) (top : Top) :
    (childReturnPc f rest top).linked =
      if rest = [] then none else top.par.map (fun p => (top.n, p)) := by
  unfold childReturnPc
  cases rest with
  | cons g gs => simp [PC.linked]
  | nil => cases h : top.par <;> simp [PC.linked, NPos.linkedB, h]

@[simp] theorem linked_childLoopStartPc (cs : List NoteId) (f : Frame) (rest : List Frame)
    (top : Top) : (childLoopStartPc cs f rest top).linked = top.par.map (fun p => (top.n, p)) := by
  cases cs <;> rfl

@[simp] theorem linked_childWakeNextPc (s : State) (f : Frame) (rest : List Frame) (top : Top) :
    (childWakeNextPc s f rest top).linked = top.par.map (fun p => (top.n, p)) := by
  unfold childWakeNextPc
  split
  · rfl
  · exact linked_childLoopStartPc _ f rest top

@[simp] theorem linked_freeLoopStartPc (cs : List NoteId) (n : NoteId) (par : Option NoteId) :
    (freeLoopStartPc cs n par).linked = par.map (fun p => (n, p)) := by
  cases cs <;> cases par <;> rfl

/-- The acting thread is `linked` after its step only if it was before, or if it has just entered
    its section. -/
theorem step_linked_actor {s s' : State} {e : Event} (hs : step s e = .ok s') (a : Tid)
    (ha : e.actor = some a) {n p : NoteId} (h : (s'.pc a).linked = some (n, p)) :
    (s.pc a).linked = some (n, p) ∨ (s.pc a).sec = none := by
  cases e
  all_goals step_cases hs
  all_goals simp only [Event.actor, Option.some.injEq, reduceCtorEq] at ha
  all_goals (try subst ha)
  all_goals (try (left; exact h))
  all_goals (try (nrel_pc_simp h))
  all_goals (try (simp only [linked_afterDeadlinePc, linked_afterNotifyPc, linked_childReturnPc,
    linked_childLoopStartPc, linked_childWakeNextPc, linked_freeLoopStartPc] at h))
  all_goals (try (simp [linked_nfy, linked_fr, linked_chd, NPos.linkedB, FPos.linkedB] at h; done))
  all_goals (try (right; rw [‹s.pc _ = _›]; rfl))
  all_goals (try (
    left; rw [‹s.pc _ = _›]; simpa [linked_nfy, linked_fr, linked_chd, NPos.linkedB, FPos.linkedB] using h; done))
  all_goals (repeat' split at h)
  all_goals (try (simp [linked_nfy, linked_fr, linked_chd, NPos.linkedB, FPos.linkedB] at h; done))
  all_goals (try (right; rw [‹s.pc _ = _›]; rfl))
  all_goals (try (
    left; rw [‹s.pc _ = _›]; simpa [linked_nfy, linked_fr, linked_chd, NPos.linkedB, FPos.linkedB] using h; done))


/-- In an activation stack with more than one activation the innermost note is not the note of
    the outermost one. -/
theorem LClaim.head_ne_top {s : State} (hL : InvL s) {pos : CPos} {f g : Frame} {gs : List Frame}
    {top : Top} (hc : LClaim s (.chd pos (f :: g :: gs) top)) : f.note ≠ top.n := by
  have hlast : ∃ l, l ∈ g :: gs ∧ l.note = top.n := by
    have h3 := hc.2.2.1
    simp only [List.getLast?_cons_cons] at h3
    cases hl : (g :: gs).getLast? with
    | none => rw [hl] at h3; cases h3
    | some l =>
      rw [hl] at h3
      exact ⟨l, List.mem_of_getLast? hl, by simpa using h3⟩
  obtain ⟨l, hl, hln⟩ := hlast
  have := ChainStk.above_head hL hc.2.1 l hl
  rw [hln] at this
  exact fun e => this.2 e.symm

theorem childReturn_parent_top {s s1 : State} (hL : InvL s) {t : Tid} {pos : CPos} {f : Frame}
    {rest : List Frame} {top : Top} {n p : NoteId}
    (hc : LClaim s (.chd pos (f :: rest) top))
    (h0 : (PC.chd pos (f :: rest) top).linked = some (n, p))
    (h : (childReturnPc f rest top).linked = some (n, p))
    (hp : ∀ j, (s1.notes j).parent = (s.notes j).parent) :
    ((childReturn s1 t f rest top).notes n).parent = (s.notes n).parent := by
  simp only [linked_chd, linked_childReturnPc] at h0 h
  cases rest with
  | nil => simp at h
  | cons g gs =>
    have hne := LClaim.head_ne_top hL hc
    cases hq : top.par with
    | none => simp [hq] at h0
    | some q =>
      simp only [hq, Option.map_some, Option.some.injEq, Prod.mk.injEq] at h0
      obtain ⟨rfl, rfl⟩ := h0
      simp [Ne.symm hne, hp]

/-- A step of a thread that is `linked` on `n` before and after leaves `n->parent` alone: the
    activations it ends meanwhile are inner ones (on notes strictly below `n`), and the children it
    adopts in `nsync_note_free (n)` are not `n`. -/
theorem step_unlink_self {s s' : State} {e : Event} (hL : InvL s) (hs : step s e = .ok s')
    (a : Tid) (ha : e.actor = some a) {n p : NoteId} (h0 : (s.pc a).linked = some (n, p))
    (h : (s'.pc a).linked = some (n, p)) : (s'.notes n).parent = (s.notes n).parent := by
  have hc := hL.claim a
  cases e
  all_goals step_cases hs
  all_goals simp only [Event.actor, Option.some.injEq, reduceCtorEq] at ha
  all_goals (try subst ha)
  all_goals (try rfl)
  all_goals (try (rw [‹s.pc _ = _›] at h0 hc))
  all_goals (try (simp [PC.linked] at h0; done))
  all_goals (try (simp; done))
  all_goals (try (nrel_pc_simp h))
  all_goals (try (exact childReturn_parent_top hL hc h0 h (by simp)))
  all_goals (repeat' split)
  all_goals (try (simp; done))
  all_goals (try (exact childReturn_parent_top hL hc h0 h (by simp)))
  -- nsync_note_free adopts / drops a child: not the note being freed
  all_goals (try (
    simp only [linked_fr, FPos.linkedB, cond_true, Option.map_some, Option.some.injEq,
      Prod.mk.injEq] at h0
    obtain ⟨rfl, rfl⟩ := h0
    have hne := (hc.2.2 rfl).2
    simp [hne]
    done))
  -- the disconnection in nsync_note_free: not `linked` afterwards
  all_goals (try (simp [linked_fr, FPos.linkedB] at h; done))

/-- The note whose activation a thread inside `note_notify_child` is about to end is counted for
    that thread (top-level section, or inner activation). -/
theorem chd_head_counted {s : State} (hL : InvL s) {t : Tid} {pos : CPos} {f : Frame}
    {rest : List Frame} {top : Top} (hpc : s.pc t = .chd pos (f :: rest) top) :
    1 ≤ cntOf (s.pc t) f.note := by
  have hc := hL.claim_of hpc
  cases rest with
  | nil =>
    have hft : f.note = top.n := by simpa using hc.2.2.1
    exact cntOf_sec (par := top.par) (by rw [hpc, hft]; rfl)
  | cons g gs => exact cntOf_inner (by rw [hpc]; simp)

theorem InvForest.step_linked {s s' : State} {e : Event} (hA : InvA s) (hS : InvS s)
    (hL : InvL s) (hU : InvU s) (hR : InvR s) (hF : InvForest s) (hs : step s e = .ok s')
    (t : Tid) (n p : NoteId) (h : (s'.pc t).linked = some (n, p)) :
    (s'.notes n).parent = some p := by
  -- a thread that was `linked` already, and did not act
  have old : e.actor ≠ some t → (s.pc t).linked = some (n, p) →
      (s'.notes n).parent = some p := by
    intro ha h0
    have hpar := hF.linked t n p h0
    have hsec := linked_sec h0
    have hprot := hF.sec_protects hsec
    rcases step_forest hS hL hs with hf | ⟨a, c0, p0, dl, ha', hpc, _, _, hf⟩ |
      ⟨a, n0, p0, c0, nx, ha', hpc, hd, hf⟩ | ⟨a, n0, c0, nx, ha', hpc, hd, hf⟩ |
      ⟨a, c0, p0, ha', hun, hd, hf⟩
    · rw [(hf n).2]; exact hpar
    · rw [(hf n).2]
      split
      · next hn =>
        -- `n` is being created by `a`
        exfalso
        subst hn
        have hcr : (s.pc a).creating = some n := by rw [hpc]; simp
        rcases sec_arg_or_earlyNew hsec with h1 | h1
        · have := hR.pub t n ((hU.users t n).mpr h1)
          rw [(hA.creating a n hcr).2] at this; cases this
        · have : t = a := hA.unique t a n (earlyNew_creating h1) hcr
          subst this
          exact ha ha'
      · exact hpar
    · rw [(hf n).2]
      split
      · next hn => subst hn; omega
      · exact hpar
    · rw [(hf n).2]
      split
      · next hn => subst hn; omega
      · exact hpar
    · rw [(hf n).2]
      split
      · next hn =>
        exfalso
        subst hn
        have hta : t ≠ a := fun e' => ha (e' ▸ ha')
        rcases hun with ⟨pos, f, rest, top, hpc, _, hfc, _⟩ | ⟨kept, c', nx, hpc⟩
        · -- the last disconnector: but `t` is counted too
          have h1 := hd (by rw [hpc]; rfl)
          have h2 := chd_head_counted hL hpc
          rw [hfc] at h2
          have h3 := cntOf_sec hsec
          have := hF.cnt_two hta n
          omega
        · -- nsync_note_free (n): no other thread is inside a call on `n`
          have hsole := hU.sole a n (by rw [hpc]; rfl)
          rcases sec_arg_or_earlyNew hsec with h1 | h1
          · have := (hU.users t n).mpr h1
            rw [hsole] at this
            exact hta (List.mem_singleton.mp this)
          · have hp1 := hR.pub a n (by rw [hsole]; simp)
            rw [(hA.creating t n (earlyNew_creating h1)).2] at hp1; cases hp1
      · exact hpar
  by_cases ha : e.actor = some t
  · rcases step_linked_actor hs t ha h with h0 | h0
    · rw [step_unlink_self hL hs t ha h0 h]; exact hF.linked t n p h0
    · -- the thread has just entered its section
      have hsec' := linked_sec h
      rcases step_sec hs t ha (hL.chd_ne_nil t) with ⟨h1, _⟩ |
        ⟨m, par1, _, h2, _, _, h3, _, hf, _⟩ | ⟨m, par1, h1, _⟩ | ⟨k, _, h1, _⟩ |
        ⟨c, h1, _⟩ | ⟨c, h1, _⟩
      · rw [h1, h0] at hsec'; cases hsec'
      · rw [h2] at hsec'
        simp only [Option.some.injEq, Prod.mk.injEq] at hsec'
        obtain ⟨rfl, rfl⟩ := hsec'
        rw [(hf m).2]; exact h3
      · rw [h0] at h1; cases h1
      · rw [h1, h0] at hsec'; cases hsec'
      · rw [h1, h0] at hsec'; cases hsec'
      · rw [h1, h0] at hsec'; cases hsec'
  · exact old ha (by rw [step_pc_other hs t ha] at h; exact h)

/-! ### The invariant -/

theorem step_invForest {s s' : State} {e : Event} (hr : Reachable s) (hF : InvForest s)
    (hs : step s e = .ok s') : InvForest s' := by
  obtain ⟨hA, _, hS, _, hL, hK⟩ := hr.inv6
  have hU := hr.invU
  have hR := hr.invR
  exact
    { c2p := (hF.step_c2p hS hL hs).1
      nodup := (hF.step_c2p hS hL hs).2
      early := hF.step_earlyNew hA hS hL hs
      frc := hF.step_frc hS hL hK hs
      chc := hF.step_chc hS hL hK hs
      chain := hF.step_chain hS hL hK hs
      cnt := hF.step_cnt hr.inv6.2.1 hS hL hs
      stale := hF.step_stale hA hS hL hU hR hs
      linked := hF.step_linked hA hS hL hU hR hs }

theorem Reachable.invForest {s : State} (h : Reachable s) : InvForest s :=
  Reachable.induction (P := InvForest) InvForest.init (fun _ _ _ hr hi hs => step_invForest hr hi hs) s h



end Note
