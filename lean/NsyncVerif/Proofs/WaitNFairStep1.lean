/-
  Proofs/WaitNFairStep1.lean — WaitN layer, liveness: `Prog` for the helper functions of the acceptor and for the
  step functions of the enqueue / dequeue code.
-/
import NsyncVerif.Proofs.WaitNFairRank

set_option linter.unusedSimpArgs false
set_option linter.unusedVariables false

namespace WaitN

theorem Prog.stutter {s s' : State} {t : Tid} {e : Ev} (hpc : s'.pc t = s.pc t) (hpo : s'.post t = s.post t)
    (hfr : frSame (s.fr t) (s'.fr t)) : Prog s s' t e :=
  .inr (.inr ⟨by rw [hfr], by rw [hfr], .inl ⟨hpc, hpo, hfr⟩⟩)

theorem Prog.dec {s s' : State} {t : Tid} {e : Ev} (ho : (s'.fr t).objs = (s.fr t).objs)
    (hd : (s'.fr t).dl = (s.fr t).dl) (h : rk s' t < rk s t) : Prog s s' t e :=
  .inr (.inr ⟨ho, hd, .inr (.inl h)⟩)

theorem dflt_keeps {s s' : State} {t : Tid} {e : Ev} (h : dflt s t e = .ok s') :
    s'.pc = s.pc ∧ s'.fr = s.fr ∧ s'.post = s.post := by
  unfold dflt at h
  split_ok h <;> (cases h; simp)

theorem prog_dflt {s s' : State} {t : Tid} {e : Ev} (h : dflt s t e = .ok s') : Prog s s' t e := by
  obtain ⟨h1, h2, h3⟩ := dflt_keeps h
  exact Prog.stutter (by rw [h1]) (by rw [h3]) (by rw [h2]; exact frSame_refl _)

theorem lt_count_of_objs {f : Frame} {i : Nat} {o : ObjId} (h : f.objs[i]? = some o) : i < f.count := by
  unfold Frame.count
  by_cases hi : i < f.objs.length
  · exact hi
  · rw [List.getElem?_eq_none (by omega)] at h; cases h

theorem Prog.decle {s s' : State} {t : Tid} {e : Ev} {X : Nat} (hb : X ≤ rk s t) (ho : (s'.fr t).objs = (s.fr t).objs)
    (hd : (s'.fr t).dl = (s.fr t).dl) (h : rk s' t < X) : Prog s s' t e :=
  Prog.dec ho hd (Nat.lt_of_lt_of_le h hb)

theorem count_eq {f f' : Frame} (h : f'.objs = f.objs) : f'.count = f.count := by simp [Frame.count, h]

/-- a `ready_time` call returns -/
theorem prog_rtDone {s s' : State} {t : Tid} {u : Use} {i : Nat} {time : Deadline} {e : Ev} (hi : i < (s.fr t).count)
    (hb : base u (s.fr t).count i + 1 ≤ rk s t)
    (h : rtDone s t u i time = .ok s') : Prog s s' t e := by
  unfold rtDone at h
  split at h
  · split at h <;> cases h
    · refine Prog.decle hb (by simp) (by simp) ?_
      simp [rk, rank, base, offA]; omega
    · refine Prog.decle hb (by simp) (by simp) ?_
      have := rank_pollNext (s.fr t) (i + 1) (s.post t)
      simp only [rk, base, setPc_pc, if_pos, setPc_fr, setPc_post] at this ⊢
      omega
  · cases h
    generalize hf : (if dlePast time = true then _ else _ : Frame) = f'
    have hobjs : f'.objs = (s.fr t).objs := by rw [← hf]; split <;> (try split) <;> rfl
    have hdl : f'.dl = (s.fr t).dl := by rw [← hf]; split <;> (try split) <;> rfl
    refine Prog.decle hb (by simpa using hobjs) (by simpa using hdl) ?_
    have hcount := count_eq hobjs
    have := rank_loopNext f' (i + 1) f'.count (s.post t)
    simp only [rk, setPc_pc, if_pos, setPc_fr, setPc_post, setFr_fr, setFr_post, base]
    rw [hcount] at this ⊢
    omega
  · cases h
    refine Prog.decle hb (by simp) (by simp) ?_
    simp only [rk, base, setPc_pc, if_pos, setPc_fr, setPc_post, rank, deqR]
    omega

/-- `Prog` reads the pre-state only through the thread's own program counter, frame and pending post -/
theorem Prog.congr {s0 s s' : State} {t : Tid} {e : Ev} (hpc : s0.pc t = s.pc t) (hfr : s0.fr t = s.fr t)
    (hpo : s0.post t = s.post t) (h : Prog s0 s' t e) : Prog s s' t e := by
  unfold Prog rk at *
  rw [hpc, hfr, hpo] at h
  exact h

theorem unbindSem_pc (s : State) (t : Tid) : (unbindSem s t).pc = s.pc := by unfold unbindSem; split <;> rfl
theorem unbindSem_post (s : State) (t : Tid) : (unbindSem s t).post = s.post := by unfold unbindSem; split <;> rfl
theorem unbindSem_objs (s : State) (t u : Tid) : ((unbindSem s t).fr u).objs = (s.fr u).objs := by
  unfold unbindSem; split <;> (simp; split <;> simp_all)
theorem unbindSem_dl (s : State) (t u : Tid) : ((unbindSem s t).fr u).dl = (s.fr u).dl := by
  unfold unbindSem; split <;> (simp; split <;> simp_all)

/-- a `dequeue` call returns -/
theorem prog_deqDone {s s' : State} {t : Tid} {j : Nat} {res : Bool} {e : Ev} (hj : j < (s.fr t).count)
    (hb : 3 + ((s.fr t).count - j) * 32 + 1 ≤ rk s t)
    (h : deqDone s t j res = .ok s') : Prog s s' t e := by
  unfold deqDone at h
  dsimp only at h
  split at h <;> cases h
  · refine Prog.decle hb (by simp) (by simp) ?_
    simp only [rk, setPc_pc, if_pos, setPc_fr, setPc_post, setFr_fr, setFr_post]
    generalize hf : ({ s.fr t with ready := _, deqRes := _, deqUnl := _ } : Frame) = f'
    have hobjs : f'.objs = (s.fr t).objs := by rw [← hf]
    have := rank_deqNext f' (j + 1) f'.count (s.post t)
    rw [count_eq hobjs] at this ⊢
    omega
  · refine Prog.decle hb ?_ ?_ ?_
    · simp [unbindSem_objs]
    · simp [unbindSem_dl]
    · simp only [rk, setPc_pc, if_pos, setPc_fr, setPc_post, unbindSem_post, setFr_post]
      have := fun f n => rank_finNext f n (s.post t)
      exact Nat.lt_of_le_of_lt (this _ _) (by omega)

/-- an `enqueue` call returns -/
theorem prog_afterEnq {s s' : State} {t : Tid} {i : Nat} {res : Bool} {e : Ev}
    (hb : offU (s.fr t).count + ((s.fr t).count - i) * 32 + 1 ≤ rk s t)
    (h : afterEnq s t (i + 1) res = .ok s') : Prog s s' t e := by
  unfold afterEnq at h
  cases h
  generalize hf : (if res = true then _ else _ : Frame) = f'
  have hobjs : f'.objs = (s.fr t).objs := by rw [← hf]; split <;> rfl
  have hdl : f'.dl = (s.fr t).dl := by rw [← hf]; split <;> rfl
  refine Prog.decle hb (by simpa using hobjs) (by simpa using hdl) ?_
  simp only [rk, setPc_pc, if_pos, setPc_fr, setPc_post, setFr_fr, setFr_post]
  have := rank_enqNext f' i res (s.post t)
  rw [count_eq hobjs] at this ⊢
  exact this

theorem setPc_pc_self (s : State) (t : Tid) (p : PC) : (s.setPc t p).pc t = p := by simp

theorem spinAcq_cases {s s' : State} {t : Tid} {c : Nat} {st : SpinSt} {mk : SpinSt → PC} {done : PC} {e : Ev}
    (h : spinAcq s t c st mk done e = .ok s') :
    s'.fr = s.fr ∧ s'.post = s.post ∧ (s'.pc = s.pc ∨ (∃ x, s'.pc t = mk x) ∨ s'.pc t = done) := by
  unfold spinAcq at h
  split_ok h
  all_goals first
    | exact ⟨(dflt_keeps h).2.1, (dflt_keeps h).2.2, .inl (dflt_keeps h).1⟩
    | (cases h; exact ⟨rfl, rfl, .inr (.inl ⟨_, setPc_pc_self _ _ _⟩)⟩)
    | (cases h; exact ⟨rfl, rfl, .inr (.inr (setPc_pc_self _ _ _))⟩)

/-- the test-and-set loop of a caller (`mk` = the program points of the loop, `done` = the next one) -/
theorem prog_spinAcq {s s' : State} {t : Tid} {c : Nat} {st : SpinSt} {mk : SpinSt → PC} {done : PC} {e : Ev}
    (hpc : s.pc t = mk st) (hsp : ∀ x, isSpin (mk x) = true)
    (hlw : ∀ x y f, lockWaitOf (mk x) f = lockWaitOf (mk y) f)
    (hrk : ∀ x y n po, rank (mk x) n po = rank (mk y) n po)
    (hdone : ∀ x n po, rank done n po < rank (mk x) n po)
    (h : spinAcq s t c st mk done e = .ok s') : Prog s s' t e := by
  obtain ⟨h1, h2, h3⟩ := spinAcq_cases h
  refine .inr (.inr ⟨by rw [h1], by rw [h1], ?_⟩)
  rcases h3 with h3 | ⟨x, h3⟩ | h3
  · exact .inl ⟨by rw [h3], by rw [h2], by rw [h1]; exact frSame_refl _⟩
  · refine .inr (.inr (.inl ⟨by rw [hpc]; exact hsp _, by rw [h3]; exact hsp _, ?_, ?_⟩))
    · simp only [rk, h1, h2, h3, hpc]; exact hrk _ _ _ _
    · rw [h1, h3, hpc]; exact hlw _ _ _
  · refine .inr (.inl ?_)
    simp only [rk, h1, h2, h3, hpc]; exact hdone _ _ _

theorem bindSem_keeps {s s' : State} {owner : Tid} {j : SemId} (h : bindSem s owner j = some s') :
    s'.pc = s.pc ∧ s'.post = s.post ∧ ∀ u, (s'.fr u).objs = (s.fr u).objs ∧ (s'.fr u).dl = (s.fr u).dl := by
  unfold bindSem at h
  split at h
  · split at h <;> cases h
    exact ⟨rfl, rfl, fun _ => ⟨rfl, rfl⟩⟩
  · split at h <;> cases h
    refine ⟨rfl, rfl, fun u => ?_⟩
    simp; split <;> simp_all

theorem postSem_keeps {s s' : State} {r : Rid} {j : SemId} (h : postSem s r j = some s') :
    s'.pc = s.pc ∧ s'.post = s.post ∧ ∀ u, (s'.fr u).objs = (s.fr u).objs ∧ (s'.fr u).dl = (s.fr u).dl := by
  unfold postSem at h
  split at h
  · exact bindSem_keeps h
  · cases h; exact ⟨rfl, rfl, fun _ => ⟨rfl, rfl⟩⟩

theorem keeps_of_dflt {s s' : State} {t : Tid} {e : Ev} (h : dflt s t e = .ok s') :
    s'.pc = s.pc ∧ ∀ u, (s'.fr u).objs = (s.fr u).objs ∧ (s'.fr u).dl = (s.fr u).dl := by
  obtain ⟨h1, h2, _⟩ := dflt_keeps h; exact ⟨h1, fun u => by rw [h2]; exact ⟨rfl, rfl⟩⟩

theorem keeps_of_postSem {s s1 : State} {r : Rid} {j : SemId} {t : Tid} {n : Nat} (hp : postSem s r j = some s1) :
    ((s1.setSem j n).setPost t none).pc = s.pc ∧
      ∀ u, ((((s1.setSem j n).setPost t none).fr u).objs = (s.fr u).objs ∧ (((s1.setSem j n).setPost t none).fr u).dl = (s.fr u).dl) := by
  obtain ⟨h1, _, h3⟩ := postSem_keeps hp; exact ⟨by simpa using h1, fun u => by simpa using h3 u⟩

theorem proto_keeps2 {s s' : State} {t : Tid} {e : Ev} (h : proto s t e = .ok s') :
    s'.pc = s.pc ∧ ∀ u, (s'.fr u).objs = (s.fr u).objs ∧ (s'.fr u).dl = (s.fr u).dl := by
  unfold proto at h
  split_ok h
  all_goals first
    | exact keeps_of_dflt h
    | (cases h; exact ⟨rfl, fun _ => ⟨rfl, rfl⟩⟩)
    | (cases h; exact keeps_of_postSem ‹postSem _ _ _ = some _›)

theorem stepOpen_keeps2 {s s' : State} {t : Tid} {e : Ev} (h : stepOpen s t e = .ok s') :
    s'.pc = s.pc ∧ ∀ u, (s'.fr u).objs = (s.fr u).objs ∧ (s'.fr u).dl = (s.fr u).dl := by
  unfold stepOpen at h
  split_ok h
  all_goals first
    | exact proto_keeps2 h
    | exact keeps_of_dflt h
    | (cases h; exact ⟨rfl, fun _ => ⟨rfl, rfl⟩⟩)

end WaitN
