/-
"The C string in the buffer": definition, uniqueness, and what `specMem` contains in the three
regimes (fits / truncated / nothing written).
-/
import NsyncVerif.Model.Emit
import NsyncVerif.Proofs.Emit

namespace NsyncVerif
namespace Emit

/-- `mem` (the caller's buffer, index 0 = `buf[0]`) holds the NUL-terminated C string `s`:
bytes `s` (none of them NUL) at 0 … |s|-1 and a NUL at |s|.  For `i < s.length`,
`s[i]?` is `some s[i]`. -/
def IsCStr (mem : Int → Option UInt8) (s : List UInt8) : Prop :=
  (∀ c ∈ s, c ≠ 0) ∧ (∀ i : Nat, i < s.length → mem (i : Int) = s[i]?) ∧
  mem (s.length : Int) = some 0

/-- The C string held by a buffer is unique, so "the C string in the buffer" is well defined. -/
theorem IsCStr_unique {mem : Int → Option UInt8} {s t : List UInt8}
    (hs : IsCStr mem s) (ht : IsCStr mem t) : s = t := by
  have key : ∀ {s t : List UInt8}, IsCStr mem s → IsCStr mem t → ¬ s.length < t.length := by
    intro s t hs ht hlt
    have h1 := hs.2.2
    have h2 := ht.2.1 s.length hlt
    rw [h1] at h2
    have hmem : t[s.length]'hlt ∈ t := List.getElem_mem hlt
    have hne := ht.1 _ hmem
    rw [List.getElem?_eq_getElem hlt] at h2
    exact hne (Option.some.inj h2).symm
  have hlen : s.length = t.length := by
    have := key hs ht; have := key ht hs; omega
  apply List.ext_getElem?
  intro i
  by_cases hi : i < s.length
  · rw [← hs.2.1 i hi, ← ht.2.1 i (by omega)]
  · rw [List.getElem?_eq_none (by omega), List.getElem?_eq_none (by omega)]

/-- A C string of length `< n` inside the buffer gives the "NUL-terminated within buf[0..n-1]"
statement of the property. -/
theorem IsCStr_terminated {mem : Int → Option UInt8} {s : List UInt8} {n : Int}
    (hs : IsCStr mem s) (hlen : (s.length : Int) < n) :
    ∃ k, 0 ≤ k ∧ k < n ∧ mem k = some 0 ∧
      ∀ j, 0 ≤ j → j < k → ∃ v, mem j = some v ∧ v ≠ 0 := by
  refine ⟨s.length, by omega, hlen, hs.2.2, ?_⟩
  intro j hj0 hjk
  have hlt : j.toNat < s.length := by omega
  refine ⟨s[j.toNat], ?_, hs.1 _ (List.getElem_mem hlt)⟩
  have := hs.2.1 j.toNat hlt
  rw [List.getElem?_eq_getElem hlt] at this
  rw [← this]; congr 1; omega

/-- The stream and its NUL fit: the buffer holds exactly the stream. -/
theorem specMem_fits {mem : Int → Option UInt8} {n : Int} {cs : List UInt8}
    (hmem : ∀ j, mem j = specMem n (cs ++ [0]) j)
    (hcs : ∀ c ∈ cs, c ≠ 0) (hfit : (cs.length : Int) + 1 ≤ n) : IsCStr mem cs := by
  have hl : (((cs ++ [0]).length : Nat) : Int) ≤ n := by
    simp only [List.length_append, List.length_cons, List.length_nil]; omega
  refine ⟨hcs, ?_, ?_⟩
  · intro i hi
    rw [hmem]; unfold specMem
    have h1 : 0 ≤ (i : Int) ∧ (i : Int) < n := by omega
    simp only [h1, and_self, if_true, hl, Int.toNat_natCast]
    exact List.getElem?_append_left hi
  · rw [hmem]; unfold specMem
    have h1 : 0 ≤ (cs.length : Int) ∧ (cs.length : Int) < n := by omega
    simp only [h1, and_self, if_true, hl, Int.toNat_natCast]
    simp

/-- The result of truncation, for every n ≥ 1: the first n-4 stream bytes (none if n ≤ 4), then
min(3, n-1) dots. -/
def truncated (n : Int) (cs : List UInt8) : List UInt8 :=
  cs.take (n - 4).toNat ++ List.replicate (min 3 (n - 1)).toNat 46

theorem truncated_length {n : Int} {cs : List UInt8} (hn : 1 ≤ n)
    (hover : n < (cs.length : Int) + 1) : ((truncated n cs).length : Int) = n - 1 := by
  unfold truncated
  simp only [List.length_append, List.length_take, List.length_replicate]
  omega

/-- The stream and its NUL do not fit (n ≥ 1): the buffer holds `truncated n cs`. -/
theorem specMem_truncated {mem : Int → Option UInt8} {n : Int} {cs : List UInt8}
    (hmem : ∀ j, mem j = specMem n (cs ++ [0]) j)
    (hcs : ∀ c ∈ cs, c ≠ 0) (hn : 1 ≤ n) (hover : n < (cs.length : Int) + 1) :
    IsCStr mem (truncated n cs) := by
  have hlen := truncated_length hn hover
  have hl : ¬ (((cs ++ [0]).length : Nat) : Int) ≤ n := by
    simp only [List.length_append, List.length_cons, List.length_nil]; omega
  refine ⟨?_, ?_, ?_⟩
  · intro c hc
    unfold truncated at hc
    rcases List.mem_append.1 hc with h | h
    · exact hcs c (List.mem_of_mem_take h)
    · have := (List.mem_replicate.1 h).2; subst this; decide
  · intro i hi
    rw [hmem]; unfold specMem
    have h1 : 0 ≤ (i : Int) ∧ (i : Int) < n := by omega
    have h2 : ¬ (i : Int) = n - 1 := by omega
    simp only [h1, and_self, if_true, hl, if_false, h2, Int.toNat_natCast]
    unfold truncated
    have htl : (cs.take (n - 4).toNat).length = (n - 4).toNat := by
      simp only [List.length_take]; omega
    by_cases h3 : n - 4 ≤ (i : Int)
    · simp only [h3, if_true]
      rw [List.getElem?_append_right (by omega), List.getElem?_replicate]
      have : i - (cs.take (n - 4).toNat).length < (min 3 (n - 1)).toNat := by omega
      rw [if_pos this]
    · simp only [h3, if_false]
      have hia : i < (n - 4).toNat := by omega
      have e : (cs.take (n - 4).toNat ++ List.replicate (min 3 (n - 1)).toNat 46)[i]? = cs[i]? := by
        rw [List.getElem?_append_left (by omega)]
        exact List.getElem?_take_of_lt hia
      rw [e]
      exact List.getElem?_append_left (by omega)
  · rw [hmem, hlen]; unfold specMem
    have h1 : 0 ≤ n - 1 ∧ n - 1 < n := by omega
    simp only [h1, and_self, if_true, hl, if_false]

theorem truncated_ge4 {n : Int} (cs : List UInt8) (hn : 4 ≤ n) :
    truncated n cs = cs.take (n - 4).toNat ++ [46, 46, 46] := by
  unfold truncated
  have : (min 3 (n - 1)).toNat = 3 := by omega
  rw [this]; rfl

theorem truncated_small {n : Int} (cs : List UInt8) (h1 : 1 ≤ n) (h3 : n ≤ 4) :
    truncated n cs = List.replicate (n - 1).toNat 46 := by
  unfold truncated
  have h0 : (n - 4).toNat = 0 := by omega
  have : (min 3 (n - 1)).toNat = (n - 1).toNat := by omega
  rw [h0, this]; simp

end Emit
end NsyncVerif
