/-
  Proofs/WaitNSem5.lean — `BindEff`: what one step does to the lazy binding call ↔ semaphore
  (`Frame.sem`, `State.semUser`): a binding is created by the first semaphore event that names the semaphore
  (the caller's pd_enter or a waker's V), is never changed, and is dropped by the caller's nsync_waiter_free_.
-/
import NsyncVerif.Proofs.WaitNSem4

set_option linter.unusedSimpArgs false
set_option linter.unusedVariables false

namespace WaitN

def BindEff (s s' : State) (u : Tid) : Prop :=
  (∀ t j, (s.fr t).sem = some j → (s'.fr t).sem = some j ∨ (t = u ∧ inSleep (s'.pc u) = false))
  ∧ (∀ t j, (s'.fr t).sem = some j → (s.fr t).sem = some j ∨ (s.semUser j = none ∧ s'.semUser j = some t))
  ∧ (∀ j, s'.semUser j = s.semUser j ∨ (s.semUser j = none ∧ ∃ t, s'.semUser j = some t ∧ (s'.fr t).sem = some j)
        ∨ (s'.semUser j = none ∧ (s.fr u).sem = some j ∧ (s'.fr u).sem = none))
  ∧ (∀ j, s'.pc u = .wPdWait j → s.pc u = .wPdWait j ∨ (s'.fr u).sem = some j)

theorem BindEff.of_same {s s' : State} {u : Tid} (hf : ∀ t, (s'.fr t).sem = (s.fr t).sem) (hu : s'.semUser = s.semUser)
    (hp : ∀ j, s'.pc u = .wPdWait j → s.pc u = .wPdWait j) : BindEff s s' u :=
  ⟨fun t j h => .inl (by rw [hf]; exact h), fun t j h => .inl (by rw [← hf]; exact h), fun j => .inl (by rw [hu]),
   fun j h => .inl (hp j h)⟩

theorem BindEff.refl (s : State) (u : Tid) : BindEff s s u := BindEff.of_same (fun _ => rfl) rfl (fun _ h => h)

/-- the state before the step may be replaced by one with the same frames, users and program counters -/
theorem BindEff.pre {s1 s s' : State} {u : Tid} (h : BindEff s1 s' u) (hf : s1.fr = s.fr) (hu : s1.semUser = s.semUser)
    (hpc : s1.pc = s.pc) : BindEff s s' u := by
  unfold BindEff at *
  rw [hf, hu, hpc] at h
  exact h

/-- … and the state after it by one with the same frames and users, when the new program counter is not the P -/
theorem BindEff.post {s s1 s' : State} {u : Tid} (h : BindEff s s1 u) (hf : s'.fr = s1.fr) (hu : s'.semUser = s1.semUser)
    (hpc : ∀ j, s'.pc u ≠ .wPdWait j) (hsl : inSleep (s1.pc u) = false → inSleep (s'.pc u) = false) : BindEff s s' u := by
  unfold BindEff at *
  rw [hf, hu]
  refine ⟨fun t j hj => ?_, h.2.1, h.2.2.1, fun j hj => absurd hj (hpc j)⟩
  rcases h.1 t j hj with h1 | ⟨h1, h2⟩
  · exact .inl h1
  · exact .inr ⟨h1, hsl h2⟩

/-! ### the helper functions -/

theorem bind_bindSem {s s' : State} {o : Tid} {j : SemId} (u : Tid) (h : bindSem s o j = some s') :
    BindEff s s' u ∧ (s'.fr o).sem = some j ∧ s'.pc = s.pc := by
  unfold bindSem at h
  split at h
  · rename_i j' hj
    split at h
    · rename_i he; subst he; cases h; exact ⟨BindEff.refl _ _, hj, rfl⟩
    · cases h
  · rename_i hn
    split at h
    · cases h
    · rename_i hnu
      cases h
      refine ⟨⟨fun t j0 hj0 => .inl ?_, fun t j0 hj0 => ?_, fun j0 => ?_, fun j0 hj0 => .inl hj0⟩, by simp, rfl⟩
      · simp only [setSemUser_fr, setFr_fr]
        split
        · rename_i ht; subst ht; rw [hn] at hj0; cases hj0
        · exact hj0
      · simp only [setSemUser_fr, setFr_fr] at hj0
        split at hj0
        · rename_i ht; subst ht
          simp only at hj0; cases hj0
          exact .inr ⟨hnu, by simp⟩
        · exact .inl hj0
      · simp only [setSemUser_semUser]
        split
        · rename_i hjj; subst hjj
          exact .inr (.inl ⟨hnu, o, rfl, by simp⟩)
        · exact .inl rfl

theorem bind_postSem {s s' : State} {r : Rid} {j : SemId} (u : Tid) (h : postSem s r j = some s') :
    BindEff s s' u ∧ s'.pc = s.pc := by
  unfold postSem at h
  split at h
  · have := bind_bindSem u h; exact ⟨this.1, this.2.2⟩
  · cases h; exact ⟨BindEff.refl _ _, rfl⟩

theorem bind_dflt {s s' : State} {u : Tid} {e : Ev} (h : dflt s u e = .ok s') : BindEff s s' u := by
  unfold dflt at h
  split_ok h <;> (cases h; exact BindEff.refl _ _)

/-- closes `∀ t, (s'.fr t).sem = (s.fr t).sem` for an explicit s' -/
macro "frsem_tac" : tactic =>
  `(tactic| (intro x; simp only [setPc_fr, setFr_fr, setObj_fr, setRec_fr, setSem_fr, setPost_fr, setMc_fr, setSemUser_fr, kill_fr,
                ownerRemove_fr] <;> (try split) <;> (try subst_vars) <;> rfl))

theorem bind_rtDone {s s' : State} {t : Tid} {u : Use} {i : Nat} {time : Deadline} (h : rtDone s t u i time = .ok s') :
    BindEff s s' t := by
  unfold rtDone at h
  split_ok h
  all_goals (cases h; refine BindEff.of_same (by frsem_tac) rfl ?_; intro j hj; simp at hj)

theorem bind_afterEnq {s s' : State} {t : Tid} {i : Nat} {res : Bool} (h : afterEnq s t i res = .ok s') :
    BindEff s s' t := by
  unfold afterEnq at h
  cases h
  refine BindEff.of_same ?_ rfl ?_
  · intro x; simp only [setPc_fr, setFr_fr]; split
    · rename_i hx; subst hx; split <;> rfl
    · rfl
  · intro j hj; simp at hj

theorem bind_unbindSem (s : State) (t : Tid) :
    (∀ x j, (s.fr x).sem = some j → ((unbindSem s t).fr x).sem = some j ∨ x = t)
    ∧ (∀ x j, ((unbindSem s t).fr x).sem = some j → (s.fr x).sem = some j)
    ∧ (∀ j, (unbindSem s t).semUser j = s.semUser j ∨ ((unbindSem s t).semUser j = none ∧ (s.fr t).sem = some j))
    ∧ ((unbindSem s t).fr t).sem = none ∧ (unbindSem s t).pc = s.pc := by
  unfold unbindSem
  split
  · rename_i j hj
    refine ⟨fun x j0 h0 => ?_, fun x j0 h0 => ?_, fun j0 => ?_, by simp, rfl⟩
    · by_cases hx : x = t
      · exact .inr hx
      · left; simp [hx]; exact h0
    · by_cases hx : x = t
      · subst hx; simp at h0
      · simpa [hx] using h0
    · simp only [setSemUser_semUser]
      split
      · rename_i hjj; subst hjj; exact .inr ⟨rfl, hj⟩
      · exact .inl rfl
  · rename_i hn
    refine ⟨fun x j0 h0 => ?_, fun x j0 h0 => ?_, fun j0 => .inl rfl, by simp [hn], rfl⟩
    · by_cases hx : x = t
      · exact .inr hx
      · left; simp [hx]; exact h0
    · by_cases hx : x = t
      · subst hx; simp [hn] at h0
      · simpa [hx] using h0

theorem bind_deqDone {s s' : State} {t : Tid} {j : Nat} {res : Bool} (h : deqDone s t j res = .ok s') :
    BindEff s s' t := by
  unfold deqDone at h
  dsimp only at h
  split at h
  · cases h
    refine BindEff.of_same (by frsem_tac) rfl ?_
    intro j hj; simp at hj
  · cases h
    have hu := bind_unbindSem (s.setFr t
      { s.fr t with ready := if (!res ∧ (s.fr t).ready = (s.fr t).count) then j else (s.fr t).ready,
                    deqRes := (s.fr t).deqRes ++ [res],
                    deqUnl := (s.fr t).deqUnl ++ [match (s.fr t).recs[j]? with | some r => (s.rcd r).unl | none => .none] }) t
    refine ⟨fun x j0 h0 => ?_, fun x j0 h0 => .inl ?_, fun j0 => ?_, fun j0 h0 => ?_⟩
    · by_cases hx : x = t
      · exact .inr ⟨hx, by simp⟩
      · rcases hu.1 x j0 (by simpa [hx] using h0) with h1 | h1
        · exact .inl h1
        · exact absurd h1 hx
    · have := hu.2.1 x j0 h0
      by_cases hx : x = t
      · subst hx; simpa using this
      · simpa [hx] using this
    · rcases hu.2.2.1 j0 with h1 | ⟨h1, h2⟩
      · exact .inl h1
      · exact .inr (.inr ⟨h1, by simpa using h2, hu.2.2.2.1⟩)
    · simp at h0

theorem bind_spinAcq {s s' : State} {t : Tid} {c : Nat} {st : SpinSt} {mk : SpinSt → PC} {done : PC} {e : Ev}
    (hmk : ∀ x j, mk x ≠ .wPdWait j) (hdone : ∀ j, done ≠ .wPdWait j)
    (h : spinAcq s t c st mk done e = .ok s') : BindEff s s' t := by
  unfold spinAcq at h
  split_ok h
  all_goals first
    | exact bind_dflt h
    | (cases h; refine BindEff.of_same (by frsem_tac) rfl ?_; intro j hj; simp at hj
       first | exact absurd hj (hmk _ _) | exact absurd hj (hdone _))

end WaitN
