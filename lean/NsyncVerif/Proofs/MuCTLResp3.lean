import NsyncVerif.Proofs.MuCTLResp2
/-
  MuC, `RKeep`: CAS steps and condition evaluations.
-/
namespace NsyncVerif.MuC

theorem rkeep_casA {s s' : State} {t : Tid} {o : Ord} {loc : Loc} {exp new obs : Nat} {ok : Bool} (h1 : Inv1 s)
    (hp : (s.pc t).casA = true) (h : stepCas s t o loc exp new obs ok = .ok s') : RKeep s s' t := by
  have hoth := stepCas_other h
  have hok := h1.pcok t
  have hheld : s.pc t ≠ .idle → s.held t = none := fun a => h1.held_none a
  walk_cas h StepTL.rk => rk_tl

theorem rkeep_casB {s s' : State} {t : Tid} {o : Ord} {loc : Loc} {exp new obs : Nat} {ok : Bool} (h1 : Inv1 s)
    (hp : (s.pc t).casA = false) (h : stepCas s t o loc exp new obs ok = .ok s') : RKeep s s' t := by
  have hoth := stepCas_other h
  have hok := h1.pcok t
  have hheld : s.pc t ≠ .idle → s.held t = none := fun a => h1.held_none a
  walk_cas h StepTL.rk => rk_tl

theorem rkeep_cas {s s' : State} {t : Tid} {o : Ord} {loc : Loc} {exp new obs : Nat} {ok : Bool} (h1 : Inv1 s)
    (h : stepCas s t o loc exp new obs ok = .ok s') : RKeep s s' t := by
  cases hp : (s.pc t).casA
  · exact rkeep_casB h1 hp h
  · exact rkeep_casA h1 hp h

theorem rkeep_cond {s s' : State} {t : Tid} {fn : CFn} {k : Nat} {res : Bool} (h1 : Inv1 s)
    (h : stepCond s t fn k res = .ok s') : RKeep s s' t := by
  have hoth := stepCond_other h
  have hok := h1.pcok t
  have hheld : s.pc t ≠ .idle → s.held t = none := fun a => h1.held_none a
  walk_cond h StepTL.rk => rk_tl

end NsyncVerif.MuC
