import NsyncVerif.Proofs.MuCFairExec
import NsyncVerif.Proofs.MuCInv1Api
/-
  MuC, fair termination (C06): a finite accepted trace followed by idling for ever (`traceExec`) or by a loop
  repeated for ever (`lassoExec`), as an `Exec`, and criteria for `WeakFair` / `HoldersRelease` / `FiniteArrivals` /
  `FiniteRcFails` / `FiniteEnvPosts` of an execution whose tail is idle.  Port of Proofs/MuQFairTrace.lean (model MuQ).

  Differences from MuQ:
  * in MuC an idle thread can also emit `dataW` / `dataR` (client data accesses inside a critical section), so
    `idle_step_call` has a three-way conclusion; `idle_step_frame` says that the two others change neither pc nor
    `held`.  `holdersRelease_of_recurrent` is proved through `held_until_call`.
  * `acceptsF` / `asleepSemB` are named so because `NsyncVerif.MuC.accepts` (Props/C05Mu.lean, the same definition)
    and `NsyncVerif.MuC.asleepB` (Props/C06.lean, decides `Asleep`, not `AsleepOnSem`) exist already and the root
    module imports everything.
-/
namespace NsyncVerif.MuC

theorem run_append_ok {cfg : Cfg} : ∀ (a b : List Event) (s s' : State), run cfg s (a ++ b) = .ok s' →
    ∃ s1, run cfg s a = .ok s1 ∧ run cfg s1 b = .ok s' := by
  intro a
  induction a with
  | nil => intro b s s' h; exact ⟨s, rfl, h⟩
  | cons e es ih =>
    intro b s s' h
    simp only [List.cons_append, run] at h ⊢
    cases hs : step cfg s e with
    | ok s1 => rw [hs] at h; exact ih b s1 s' h
    | error m => rw [hs] at h; cases h

/-- The state after the first `i` events (the initial state if the trace is not accepted). -/
def stateAt (cfg : Cfg) (evs : List Event) (i : Nat) : State :=
  match run cfg init (evs.take i) with
  | .ok s => s
  | .error _ => init

theorem stateAt_ok {cfg : Cfg} {evs : List Event} {sf : State} (h : run cfg init evs = .ok sf) (i : Nat) :
    run cfg init (evs.take i) = .ok (stateAt cfg evs i) := by
  have : run cfg init (evs.take i ++ evs.drop i) = .ok sf := by rw [List.take_append_drop]; exact h
  obtain ⟨s1, h1, _⟩ := run_append_ok _ _ _ _ this
  simp only [stateAt, h1]

theorem stateAt_ge {cfg : Cfg} {evs : List Event} {sf : State} (h : run cfg init evs = .ok sf) {i : Nat}
    (hi : evs.length ≤ i) : stateAt cfg evs i = sf := by
  simp only [stateAt, List.take_of_length_le hi, h]

/-- A finite accepted trace, then nothing for ever. -/
def traceExec (cfg : Cfg) (evs : List Event) (sf : State) (h : run cfg init evs = .ok sf) : Exec cfg init :=
  { ρ := stateAt cfg evs
    σ := fun i => evs[i]?
    start := by simp [stateAt, run]
    next := by
      intro i
      cases he : evs[i]? with
      | none =>
        have hi : evs.length ≤ i := by simpa using he
        show stateAt cfg evs (i + 1) = stateAt cfg evs i
        rw [stateAt_ge h hi, stateAt_ge h (by omega)]
      | some e =>
        show step cfg (stateAt cfg evs i) e = .ok (stateAt cfg evs (i + 1))
        have h1 := stateAt_ok h (i + 1)
        rw [List.take_add_one, he, Option.toList, run_append, stateAt_ok h i] at h1
        exact h1 }

theorem traceExec_tail {cfg : Cfg} {evs : List Event} {sf : State} (h : run cfg init evs = .ok sf) {j : Nat}
    (hj : evs.length ≤ j) : (traceExec cfg evs sf h).ρ j = sf ∧ (traceExec cfg evs sf h).σ j = none :=
  ⟨stateAt_ge h hj, by show evs[j]? = none; simpa using hj⟩

/-- Threads that do not occur in a trace are where they were (`run_other`, Proofs/MuCOther2.lean, in the argument
    order of MuQ). -/
theorem run_untouched {cfg : Cfg} {t : Tid} (evs : List Event) (s s' : State)
    (hne : ∀ e ∈ evs, e.tid ≠ some t) (h : run cfg s evs = .ok s') : s'.pc t = s.pc t ∧ s'.held t = s.held t :=
  run_other t evs s s' hne h

/-- From `idle` a thread can only call, or access the client data. -/
theorem idle_step_call {cfg : Cfg} {s s' : State} {e : Event} {t : Tid} (h : step cfg s e = .ok s')
    (he : e.tid = some t) (hp : s.pc t = .idle) :
    (∃ a, e = .call t a) ∨ (∃ x v, e = .dataW t x v) ∨ (∃ x v, e = .dataR t x v) := by
  cases e <;> simp only [Event.tid, Option.some.injEq, reduceCtorEq] at he
  all_goals subst he
  case call t a => exact Or.inl ⟨a, rfl⟩
  case dataW t x v => exact Or.inr (Or.inl ⟨x, v, rfl⟩)
  case dataR t x v => exact Or.inr (Or.inr ⟨x, v, rfl⟩)
  all_goals (simp [step, stepRet, stepLd, stepSt, stepCas, stepCond, hp] at h)

/-- A step of an idle thread that is not a call changes neither its pc nor its `held`. -/
theorem idle_step_frame {cfg : Cfg} {s s' : State} {e : Event} {t : Tid} (h : step cfg s e = .ok s')
    (he : e.tid = some t) (hp : s.pc t = .idle) (hc : ∀ a, e ≠ .call t a) :
    s'.pc t = s.pc t ∧ s'.held t = s.held t := by
  rcases idle_step_call h he hp with ⟨a, rfl⟩ | ⟨x, v, rfl⟩ | ⟨x, v, rfl⟩
  · exact absurd rfl (hc a)
  · simp only [step] at h
    split at h
    · cases h; exact ⟨rfl, rfl⟩
    · cases h
  · simp only [step] at h
    split at h
    · cases h; exact ⟨rfl, rfl⟩
    · cases h

variable {cfg : Cfg} {s0 : State}

theorem weakFair_of_quiescent (x : Exec cfg s0) (N : Nat) (hN : ∀ j, N ≤ j → ∀ t, (x.ρ j).pc t = .idle) :
    WeakFair x := by
  intro t i h
  exact absurd (hN (max i N) (by omega) t) (h (max i N) (by omega)).1

theorem weakFair_of_final (x : Exec cfg s0) (N : Nat)
    (hN : ∀ j, N ≤ j → ∀ t, (x.ρ j).pc t = .idle ∨ AsleepOnSem (x.ρ j) t) : WeakFair x := by
  intro t i h
  rcases hN (max i N) (by omega) t with h1 | h1
  · exact absurd h1 (h (max i N) (by omega)).1
  · exact absurd h1 (h (max i N) (by omega)).2

/-- A holder keeps what it holds as long as it makes no call. -/
theorem held_until_call (x : Exec cfg s0) (hr : Reachable cfg s0) {t : Tid} {i : Nat}
    (hheld : (x.ρ i).held t ≠ none) : ∀ d, (∀ j a, i ≤ j → j < i + d → x.σ j ≠ some (.call t a)) →
    (x.ρ (i + d)).held t = (x.ρ i).held t := by
  intro d
  induction d with
  | zero => intro _; rfl
  | succ d ih =>
    intro h
    have a := ih (fun j a h1 h2 => h j a h1 (by omega))
    rw [← a]
    show (x.ρ (i + d + 1)).held t = (x.ρ (i + d)).held t
    cases hs : x.σ (i + d) with
    | none => rw [x.next_none hs]
    | some e =>
      have hst := x.next_some hs
      by_cases ht : e.tid = some t
      · have hidle : (x.ρ (i + d)).pc t = .idle :=
          (reachable_inv1 (x.reach hr (i + d))).hidle t (by rw [a]; exact hheld)
        exact (idle_step_frame hst ht hidle (fun ap hap => h (i + d) ap (by omega) (by omega) (by rw [hs, hap]))).2
      · exact (step_other hst t ht).2

/-- If every thread is again and again seen holding nothing, every holder calls (unlock / runlock / … ). -/
theorem holdersRelease_of_recurrent (x : Exec cfg s0) (hr : Reachable cfg s0)
    (hN : ∀ i t, ∃ j, i ≤ j ∧ (x.ρ j).held t = none) : HoldersRelease x := by
  intro t i hheld
  obtain ⟨j0, hj0, hnone⟩ := hN i t
  obtain ⟨d, rfl⟩ : ∃ d, j0 = i + d := ⟨j0 - i, by omega⟩
  apply Classical.byContradiction; intro hn
  have := held_until_call x hr hheld d (fun j a h1 _ hs => hn ⟨j, a, h1, hs⟩)
  rw [hnone] at this
  exact hheld this.symm

theorem holdersRelease_of_quiescent (x : Exec cfg s0) (hr : Reachable cfg s0) (N : Nat)
    (hN : ∀ j, N ≤ j → ∀ t, (x.ρ j).held t = none) : HoldersRelease x :=
  holdersRelease_of_recurrent x hr (fun i t => ⟨max i N, by omega, hN (max i N) (by omega) t⟩)

theorem finite_of_tail (x : Exec cfg s0) (N : Nat) (hN : ∀ j, N ≤ j → x.σ j = none) :
    FiniteArrivals x ∧ FiniteRcFails x ∧ FiniteEnvPosts x :=
  ⟨⟨N, fun j e hj he => by rw [hN j hj] at he; cases he⟩, ⟨N, fun j e hj he => by rw [hN j hj] at he; cases he⟩,
   ⟨N, fun j e hj he => by rw [hN j hj] at he; cases he⟩⟩

/-- The hypotheses that hold trivially on an execution whose tail is idle: nobody moves, everybody is idle or asleep
    and nobody holds anything from time `N` on. -/
theorem fairHyps_of_idle_tail (x : Exec cfg s0) (hr : Reachable cfg s0) (N : Nat)
    (hσ : ∀ j, N ≤ j → x.σ j = none)
    (hpc : ∀ j, N ≤ j → ∀ t, (x.ρ j).pc t = .idle ∨ AsleepOnSem (x.ρ j) t)
    (hheld : ∀ j, N ≤ j → ∀ t, (x.ρ j).held t = none) :
    WeakFair x ∧ HoldersRelease x ∧ FiniteArrivals x ∧ FiniteRcFails x ∧ FiniteEnvPosts x :=
  ⟨weakFair_of_final x N hpc, holdersRelease_of_quiescent x hr N hheld, finite_of_tail x N hσ⟩

/-! ### a lasso: a finite accepted trace, then a loop for ever -/

/-- The state after `evs` from `s` (`s` itself if the events are not accepted). -/
def stateFrom (cfg : Cfg) (s : State) (evs : List Event) : State :=
  match run cfg s evs with
  | .ok s' => s'
  | .error _ => s

theorem stateFrom_ok {cfg : Cfg} {s sf : State} {evs : List Event} (h : run cfg s evs = .ok sf) (i : Nat) :
    run cfg s (evs.take i) = .ok (stateFrom cfg s (evs.take i)) := by
  have : run cfg s (evs.take i ++ evs.drop i) = .ok sf := by rw [List.take_append_drop]; exact h
  obtain ⟨s1, h1, _⟩ := run_append_ok _ _ _ _ this
  simp only [stateFrom, h1]

theorem stateFrom_step {cfg : Cfg} {s sf : State} {evs : List Event} (h : run cfg s evs = .ok sf) {i : Nat}
    (hi : i < evs.length) :
    step cfg (stateFrom cfg s (evs.take i)) evs[i] = .ok (stateFrom cfg s (evs.take (i + 1))) := by
  have he : evs[i]? = some evs[i] := List.getElem?_eq_getElem hi
  have e : evs.take (i + 1) = evs.take i ++ [evs[i]] := by rw [List.take_add_one, he]; rfl
  have h1 := stateFrom_ok h (i + 1)
  rw [e, run_append, stateFrom_ok h i] at h1
  rw [e]; exact h1

/-- A lasso: `evs`, then `loop` repeated for ever, where `loop` takes the state `sf` reached by `evs`
    back to `sf`. -/
def lassoExec (cfg : Cfg) (evs loop : List Event) (sf : State)
    (h : run cfg init evs = .ok sf) (hl : run cfg sf loop = .ok sf) (hp : 0 < loop.length) :
    Exec cfg init :=
  { ρ := fun i => if i < evs.length then stateAt cfg evs i
                  else stateFrom cfg sf (loop.take ((i - evs.length) % loop.length))
    σ := fun i => if i < evs.length then evs[i]? else loop[(i - evs.length) % loop.length]?
    start := by
      by_cases h0 : 0 < evs.length
      · simp [h0, stateAt, run]
      · have : evs = [] := by cases evs <;> simp_all
        subst this; simp [run] at h; subst h; simp [stateFrom, run]
    next := by
      intro i
      have hsf0 : stateFrom cfg sf (loop.take 0) = sf := by simp [stateFrom, run]
      by_cases hi : i < evs.length
      · have he : evs[i]? = some evs[i] := List.getElem?_eq_getElem hi
        simp only [hi, if_true, he]
        have hs : step cfg (stateAt cfg evs i) evs[i] = .ok (stateAt cfg evs (i + 1)) := by
          have h1 := stateAt_ok h (i + 1)
          rw [List.take_add_one, he, Option.toList, run_append, stateAt_ok h i] at h1
          exact h1
        by_cases hi' : i + 1 < evs.length
        · simp only [hi', if_true]; exact hs
        · have : i + 1 - evs.length = 0 := by omega
          simp only [hi', if_false, this, Nat.zero_mod, hsf0]
          rw [← stateAt_ge h (show evs.length ≤ i + 1 by omega)]; exact hs
      · have hi' : ¬ i + 1 < evs.length := by omega
        simp only [hi, hi', if_false]
        have hr : (i - evs.length) % loop.length < loop.length := Nat.mod_lt _ hp
        have he : loop[(i - evs.length) % loop.length]? = some loop[(i - evs.length) % loop.length] :=
          List.getElem?_eq_getElem hr
        simp only [he]
        have hs := stateFrom_step hl hr
        have hsucc : i + 1 - evs.length = (i - evs.length) + 1 := by omega
        by_cases hwrap : (i - evs.length) % loop.length + 1 = loop.length
        · have : (i + 1 - evs.length) % loop.length = 0 := by
            rw [hsucc, Nat.add_mod]
            have : (i - evs.length) % loop.length = loop.length - 1 := by omega
            rw [this]
            by_cases h1 : loop.length = 1
            · rw [h1]
            · rw [Nat.mod_eq_of_lt (show 1 < loop.length by omega)]
              rw [show loop.length - 1 + 1 = loop.length by omega, Nat.mod_self]
          rw [this, hsf0]
          rw [hwrap, List.take_of_length_le (Nat.le_refl _)] at hs
          have : stateFrom cfg sf loop = sf := by simp [stateFrom, hl]
          rw [this] at hs; exact hs
        · have : (i + 1 - evs.length) % loop.length = (i - evs.length) % loop.length + 1 := by
            rw [hsucc, Nat.add_mod]
            by_cases h1 : loop.length = 1
            · omega
            · rw [Nat.mod_eq_of_lt (show 1 < loop.length by omega)]
              exact Nat.mod_eq_of_lt (by omega)
          rw [this]; exact hs }

theorem lassoExec_tail {cfg : Cfg} {evs loop : List Event} {sf : State}
    (h : run cfg init evs = .ok sf) (hl : run cfg sf loop = .ok sf) (hp : 0 < loop.length) {j : Nat}
    (hj : evs.length ≤ j) :
    (lassoExec cfg evs loop sf h hl hp).ρ j = stateFrom cfg sf (loop.take ((j - evs.length) % loop.length)) ∧
    (lassoExec cfg evs loop sf h hl hp).σ j = loop[(j - evs.length) % loop.length]? := by
  have : ¬ j < evs.length := by omega
  simp [lassoExec, this]

/-! ### decidable checks on a finite trace -/

/-- The trace is accepted from `init`.  (Same definition as `accepts` of Props/C05Mu.lean.) -/
def acceptsF (cfg : Cfg) (evs : List Event) : Bool :=
  match run cfg init evs with
  | .ok _ => true
  | .error _ => false

/-- `f` of the state after the trace; `false` if the trace is rejected.  (Same meaning as `stateAfter` of Props/C06.lean.) -/
def checkAfter (cfg : Cfg) (evs : List Event) (f : State → Bool) : Bool :=
  match run cfg init evs with
  | .ok s => f s
  | .error _ => false

theorem run_of_accepts {cfg : Cfg} {evs : List Event} (h : acceptsF cfg evs = true) :
    run cfg init evs = .ok (stateAt cfg evs evs.length) := by
  simp only [acceptsF] at h
  split at h
  · rename_i s hs
    rw [stateAt_ge hs (Nat.le_refl evs.length)]; exact hs
  · cases h

theorem checkAfter_run {cfg : Cfg} {evs : List Event} {s : State} {f : State → Bool}
    (hr : run cfg init evs = .ok s) (h : checkAfter cfg evs f = true) : f s = true := by
  simpa only [checkAfter, hr] using h

theorem checkAfter_eq {cfg : Cfg} {evs : List Event} {s : State} (hr : run cfg init evs = .ok s) (f : State → Bool) :
    checkAfter cfg evs f = f s := by
  simp only [checkAfter, hr]

/-- `AsleepOnSem`, decidably. -/
def asleepSemB (s : State) (t : Tid) : Bool :=
  match s.pc t with
  | .lsPRet c => (match c.w with | some k => (s.wr k).sem == 0 | none => false)
  | .mwPdRet c dl =>
    (match c.w with
     | some k => (s.wr k).sem == 0 && (match dl with | none => true | some d => decide (s.now < d))
     | none => false)
  | _ => false

theorem asleepSemB_iff (s : State) (t : Tid) : asleepSemB s t = true ↔ AsleepOnSem s t := by
  constructor
  · intro h
    unfold asleepSemB at h
    split at h
    · rename_i c hpc
      split at h
      · rename_i k hk; exact Or.inl ⟨c, k, hpc, hk, by simpa using h⟩
      · cases h
    · rename_i c dl hpc
      split at h
      · rename_i k hk
        simp only [Bool.and_eq_true, beq_iff_eq] at h
        refine Or.inr ⟨c, k, dl, hpc, hk, h.1, fun d hd => ?_⟩
        subst hd; simpa using h.2
      · cases h
    · cases h
  · rintro (⟨c, k, hpc, hk, hs⟩ | ⟨c, k, dl, hpc, hk, hs, hd⟩)
    · simp [asleepSemB, hpc, hk, hs]
    · cases dl with
      | none => simp [asleepSemB, hpc, hk, hs]
      | some d => simp [asleepSemB, hpc, hk, hs, hd d rfl]

end NsyncVerif.MuC
