/-
  Proofs/WaitNSem8.lean — `TI s b t` is preserved by every step that leaves t's program counter and frame
  (up to the lazily bound semaphore) alone: all steps of other threads, and t's own steps in foreign code
  (`dflt`) or as a note waker (`stepOpen` inside the lazy notification).
  This is where the accounting happens: a waker's store that clears one of t's records leaves the pending
  post (`InFlight`); its V turns the pending post into a token (`Tok`, both flavours) and binds the
  semaphore; nobody but t's own P consumes a token of t's semaphore.
-/
import NsyncVerif.Proofs.WaitNSem7

set_option linter.unusedSimpArgs false
set_option linter.unusedVariables false

namespace WaitN

theorem inCall_of_inPhase {p : PC} (h : inPhase p = true) : inCall p = true := by
  cases p <;> simp [inPhase, inSleep, inCall] at h ⊢

theorem ndSees_mono {s s' : State} {n : Nat} {st : NDst} (he : (s'.obj (.note n)).expiry = (s.obj (.note n)).expiry)
    (hn : s.now ≤ s'.now) (h : ndSees s n st) : ndSees s' n st := by
  cases st <;> simp only [ndSees] at h ⊢
  · rcases h with h | h
    · exact .inl h
    · right; rw [he]; exact expiredB_mono hn h
  · rcases h with h | h
    · exact .inl h
    · right; rw [he]; exact expiredB_mono hn h
  · rw [he]; exact expiredB_mono hn h

theorem seen_keep {s s' : State} {p : PC} {f f' : Frame} {i : Nat} (hmin : f'.min = f.min) (hobjs : f'.objs = f.objs)
    (he : ∀ n, .note n ∈ f.objs → (s'.obj (.note n)).expiry = (s.obj (.note n)).expiry) (hn : s.now ≤ s'.now)
    (h : Seen s p f i) : Seen s' p f' i := by
  unfold Seen at h ⊢
  rw [hmin]
  rcases h with h | h
  · exact .inl h
  · right
    cases p with
    | wND u k st =>
      cases u with
      | loop =>
        show k < i ∨ (k = i ∧ ∀ n, f'.objs[k]? = some (.note n) → ndSees s' n st)
        rcases (show k < i ∨ (k = i ∧ ∀ n, f.objs[k]? = some (.note n) → ndSees s n st) from h) with h | ⟨h1, h2⟩
        · exact .inl h
        · refine .inr ⟨h1, fun n hn' => ?_⟩
          rw [hobjs] at hn'
          exact ndSees_mono (he n (List.mem_of_getElem? hn')) hn (h2 n hn')
      | _ => exact h
    | wCtrRT u k l => cases u <;> exact h
    | _ => exact h

theorem sdat_keep {s s' : State} {p : PC} {f f' : Frame} (hmin : f'.min = f.min) (hobjs : f'.objs = f.objs)
    (hdl : f'.dl = f.dl)
    (he : ∀ n, .note n ∈ f.objs → (s'.obj (.note n)).expiry = (s.obj (.note n)).expiry)
    (h : SDat s p f) : SDat s' p f' := by
  intro k hk hm
  have hk' : scanned p f = some k := by
    have : scanned p f' = scanned p f := by unfold scanned Frame.count; rw [hobjs]
    rw [← this]; exact hk
  rw [hmin] at hm ⊢
  obtain ⟨h1, h2⟩ := h k hk' hm
  refine ⟨by rw [hdl]; exact h1, fun i n hi hn => ?_⟩
  rw [hobjs] at hn
  rw [he n (List.mem_of_getElem? hn)]
  exact h2 i n hi hn

/-- The workhorse.  A step of thread u (u = t allowed) that keeps the records and objects of t's frame; the
    caller says how the program point of t moved:
    `hwr`  every index whose enqueue counts as decided afterwards did so before, or its object is ready;
    `hsl`  if t is in the do-while afterwards, the enqueue of each of its records was decided before;
    `hos`  for a cleared record of a ready object: the scan position after the step still "sees" it, or t was in
           the do-while before and `Seen` carries over;
    `hpd`  the step is not t's own P returning;
    `hsd`  the deadline bookkeeping afterwards. -/
theorem ti_move {s s' : State} {b : SemId → Bool} {u t : Tid} {e : Ev} (hr : Reachable s) (sb : SB s)
    (hs : stepThr s u e = .ok s') (ti : TI s b t) (hph : inPhase (s.pc t) = true)
    (frecs : (s'.fr t).recs = (s.fr t).recs) (fobjs : (s'.fr t).objs = (s.fr t).objs)
    (hpd : ∀ j, s.pc t = .wPdWait j → s'.pc t = .wPdWait j)
    (hwr : ∀ i r, (s.fr t).recs[i]? = some r → wrAt (s'.pc t) i → (s'.rcd r).waiting = false →
            wrAt (s.pc t) i ∨ sReady s' (s'.fr t) i)
    (hsl : inSleep (s'.pc t) = true → ∀ i r, (s.fr t).recs[i]? = some r → wrAt (s.pc t) i)
    (hos : inSleep (s'.pc t) = true → ∀ i r, (s.fr t).recs[i]? = some r → (s'.rcd r).waiting = false →
            sReady s' (s'.fr t) i →
            Seen s' (s'.pc t) (s'.fr t) i
            ∨ (inSleep (s.pc t) = true ∧ (Seen s (s.pc t) (s.fr t) i → Seen s' (s'.pc t) (s'.fr t) i)))
    (hsd : SDat s' (s'.pc t) (s'.fr t)) : TI s' (binStep b (.thr u e)) t := by
  have A := sema_stepThr hs
  have C := clr_stepThr hs
  obtain ⟨keep, _, _, _⟩ := bind_stepThr hs
  have M := mono_stepThr hs
  have O := others_stepThr hs
  have own := own_of_reachable hr
  have kn := known_of_reachable hr
  have hl := linv_of_reachable hr
  have htf := tf_of_reachable hr t
  have q := (qinv_of_reachable hr).qi
  have nd := recsNodup_of_reachable hr t
  have hc : inCall (s.pc t) = true := inCall_of_inPhase hph
  obtain ⟨hfrees, hfreed⟩ := phase_facts hph (hl t)
  have hkn := kn t hc
  -- a record of t cleared in this step: by a waker, who now owes the V; and its object is ready
  have clear : ∀ i r, (s.fr t).recs[i]? = some r → (s.rcd r).waiting = true → (s'.rcd r).waiting = false →
      wrAt (s.pc t) i → s'.post u = some r ∧ sReady s' (s'.fr t) i := by
    intro i r hri hw hw' hwr
    have hmem : r ∈ (s.fr t).recs := List.mem_of_getElem? hri
    have hidx := own.idx t i r hc hfrees hri
    rcases C r hw hw' with ⟨hp, hsg | hwk⟩ | ⟨j, hpcu, hrj⟩ | hdead
    · obtain ⟨c, bc, l, hpu, hpn, hhd⟩ := hsg
      refine ⟨hp, ?_⟩
      have hwk : wk (s.pc u) = some (c, l) := by rw [hpu]; rfl
      have hm : r ∈ pend (s.post u) l := by
        rw [hpn]
        cases l with
        | nil => simp at hhd
        | cons a tl => simp at hhd; subst hhd; simp [pend]
      have hobj := ((q.q4 u c l hwk).2.2 r hm).2.1
      unfold sReady; rw [fobjs, hidx, hobj]
      exact ⟨r, by rw [frecs]; exact hri, hw'⟩
    · refine ⟨hp, ?_⟩
      unfold sReady; rw [fobjs, hidx]
      cases ho : (s.rcd r).obj with
      | cv c => rw [ho] at hwk; simp [wakeable] at hwk
      | note n => rw [ho] at hwk; simp only [wakeable] at hwk; exact .inl hwk
      | ctr c =>
        rw [ho] at hwk hidx; simp only [wakeable, decide_eq_true_eq] at hwk
        refine ⟨hwk, ?_⟩
        have hfl := waited_of_phase hph htf i c (lt_count_of_get hidx) hidx
        exact M.flag _ rfl (hkn _ (List.mem_of_getElem? hidx)) hfl
    · exfalso
      have hcu : inCall (s.pc u) = true := by
        rcases hpcu with h | ⟨b', h⟩ | ⟨b', h⟩ <;> rw [h] <;> rfl
      have hfu : (s.fr u).frees = 0 := by
        have := hl u
        rcases hpcu with h | ⟨b', h⟩ | ⟨b', h⟩ <;> rw [h] at this <;> exact this.1.frees
      have hut : u = t := owner_unique own hcu hfu (List.mem_of_getElem? hrj) hc hfrees hmem
      subst hut
      have hij : i = j := idx_unique nd hri hrj
      subst hij
      rcases hpcu with h | ⟨b', h⟩ | ⟨b', h⟩ <;> rw [h] at hwr <;> simp [wrAt, inSleep] at hwr
    · rw [(own.own t r hc hfrees hmem).1] at hdead; cases hdead
  have wr' : ∀ i r, (s.fr t).recs[i]? = some r → wrAt (s'.pc t) i → (s'.rcd r).waiting = false →
      sReady s' (s'.fr t) i := by
    intro i r hri hwr' hw'
    rcases hwr i r hri hwr' hw' with hwr0 | hdone
    · cases hws : (s.rcd r).waiting with
      | false => exact sReady_keep fobjs hkn M (by rw [frecs]; exact hri) hw' (ti.wr i r hri hwr0 hws)
      | true => exact (clear i r hri hws hw' hwr0).2
    · exact hdone
  refine ⟨?_, ?_, hsd⟩
  · intro i r hri' hwr' hw'
    exact wr' i r (by rw [← frecs]; exact hri') hwr' hw'
  · intro hsl' i r hri' hw'
    have hri : (s.fr t).recs[i]? = some r := by rw [← frecs]; exact hri'
    have hmem : r ∈ (s.fr t).recs := List.mem_of_getElem? hri
    have hwr0 := hsl hsl' i r hri
    cases hws : (s.rcd r).waiting with
    | true =>
      exact .inr (.inl ⟨u, r, (clear i r hri hws hw' hwr0).1, by rw [frecs]; exact hmem⟩)
    | false =>
      rcases hos hsl' i r hri hw' (wr' i r hri (wrAt_of_inSleep hsl' i) hw') with hseen | ⟨hsl0, htr⟩
      · exact .inr (.inr hseen)
      rcases ti.os hsl0 i r hri hws with ⟨j, hj, hpos, hb⟩ | ⟨v, r', hpv, hr'⟩ | hseen
      · -- the token stays: only t's own P consumes it
        left
        have hj' : (s'.fr t).sem = some j := by
          rcases keep t j hj with h1 | ⟨h1, h2⟩
          · exact h1
          · subst h1; rw [hsl'] at h2; cases h2
        have hnp : isPret e j = false := by
          cases hp : isPret e j with
          | false => rfl
          | true =>
            exfalso
            rcases A.pret j hp with h1 | ⟨h1, h2⟩
            · rw [sb.b1 t j hj] at h1; cases h1
            · have hut : u = t := by
                have := sb.b1 u j (sb.b3 u j h1)
                rw [sb.b1 t j hj] at this; cases this; rfl
              subst hut
              exact h2 j (hpd j h1)
        refine ⟨j, hj', ?_, ?_⟩
        · have : ¬ s'.sem j < s.sem j := fun hlt => by rw [A.dec j hlt] at hnp; cases hnp
          omega
        · simp only [binStep, hnp, hb]; simp
      · -- the pending post stays, or it is the V: token
        by_cases hpv' : s'.post v = some r'
        · exact .inr (.inl ⟨v, r', hpv', by rw [frecs]; exact hr'⟩)
        · have hvu : v = u := by
            by_cases hvu : v = u
            · exact hvu
            · rw [(O v hvu).2.2.1] at hpv'; exact absurd hpv hpv'
          subst hvu
          obtain ⟨j, hv, hpos, hbind⟩ := A.vpost r' hpv hpv'
          have ho := own.own t r' hc hfrees hr'
          left
          refine ⟨j, ?_, hpos, ?_⟩
          · have := hbind ho.1 (by rw [ho.2]; exact hfreed)
            rw [ho.2] at this; exact this
          · simp [binStep, hv]
      · exact .inr (.inr (htr hseen))

theorem ti_keeps {s s' : State} {b : SemId → Bool} {u t : Tid} {e : Ev} (hr : Reachable s) (sb : SB s)
    (hs : stepThr s u e = .ok s') (hk : Keeps s s' t) (ti : TI s b t) : TI s' (binStep b (.thr u e)) t := by
  obtain ⟨hpc, hfs⟩ := hk
  obtain ⟨frecs, fobjs, fmin, fdl, ffreed, ffrees⟩ := frSame_all hfs
  by_cases hph : inPhase (s.pc t) = true
  rotate_left
  · exact ti_of_notPhase (by rw [hpc]; simpa using hph)
  have M := mono_stepThr hs
  have hkn := known_of_reachable hr t (inCall_of_inPhase hph)
  have hexp : ∀ n, .note n ∈ (s.fr t).objs → (s'.obj (.note n)).expiry = (s.obj (.note n)).expiry :=
    fun n hn => M.expiry _ (hkn _ hn)
  refine ti_move hr sb hs ti hph frecs fobjs (fun j hj => by rw [hpc]; exact hj) ?_ ?_ ?_ ?_
  · intro i r _ hwr _; rw [hpc] at hwr; exact .inl hwr
  · intro hsl i r _; rw [hpc] at hsl; exact wrAt_of_inSleep hsl i
  · intro hsl i r _ _ _
    rw [hpc] at hsl ⊢
    exact .inr ⟨hsl, fun h => seen_keep fmin fobjs hexp M.now h⟩
  · rw [hpc]; exact sdat_keep fmin fobjs fdl hexp ti.sd

/-- steps of other threads -/
theorem ti_other {s s' : State} {b : SemId → Bool} {u t : Tid} {e : Ev} (hr : Reachable s) (sb : SB s)
    (hs : stepThr s u e = .ok s') (hne : t ≠ u) (ti : TI s b t) : TI s' (binStep b (.thr u e)) t := by
  obtain ⟨h1, _, _, h4⟩ := others_stepThr hs t hne
  exact ti_keeps hr sb hs ⟨h1, h4⟩ ti

/-- the clock -/
theorem ti_tick {s : State} {b : SemId → Bool} {t : Tid} {ns : Nat} (hr : Reachable s) (hle : s.now ≤ ns) (ti : TI s b t) :
    TI { s with now := ns } b t := by
  have kn := known_of_reachable hr
  refine ⟨fun i r hri hwr hw => ?_, fun hsl i r hri hw => ?_, ?_⟩
  · have hc := inCall_of_inPhase (inPhase_of_wrAt hwr)
    have m : Mono s { s with now := ns } t :=
      ⟨fun _ h => h, fun _ _ => rfl, fun _ _ _ h => h, fun _ _ h _ => h, hle, fun _ h1 h2 => by rw [h1] at h2; cases h2⟩
    exact sReady_keep rfl (kn t hc) m hri hw (ti.wr i r hri hwr hw)
  · rcases ti.os hsl i r hri hw with h | h | h
    · exact .inl h
    · exact .inr (.inl h)
    · exact .inr (.inr (seen_keep (s := s) rfl rfl (fun _ _ => rfl) hle h))
  · exact sdat_keep (s := s) rfl rfl rfl (fun _ _ => rfl) ti.sd

end WaitN
