/-
  Proofs/WaitNQUpd2.lean — `QI` under updates of records: enqueue, pop, post, owner removal,
  dequeue mark, record birth and death.
-/
import NsyncVerif.Proofs.WaitNQUpd

set_option linter.unusedSimpArgs false
set_option linter.unusedVariables false

namespace WaitN

/-- updates of a record that keep live / obj / waiting / deqd (ghost `unl` only) -/
theorem qi_recGhost {s : State} (h : QI s) (f : Rid → Rec)
    (hl : ∀ r, (f r).live = (s.rcd r).live) (ho : ∀ r, (f r).obj = (s.rcd r).obj)
    (hw : ∀ r, (f r).waiting = (s.rcd r).waiting) (hd : ∀ r, (f r).deqd = (s.rcd r).deqd) :
    QI { s with rcd := f } := by
  constructor
  · intro o r hr; simp only [hl, ho, hw, hd]; exact h.q1 o r hr
  · exact h.q2
  · intro r h1 h2; simp only [hl, ho, hw] at h1 h2 ⊢; exact h.q3 r h1 h2
  · intro u c l hwk
    obtain ⟨a, b, c'⟩ := h.q4 u c l hwk
    exact ⟨a, b, fun r hr => by simp only [hl, ho, hw, hd]; exact c' r hr⟩
  · exact h.q4d
  · intro u r hpo; simp only [hl, ho, hw, hd]; exact h.q5 u r hpo
  · exact h.q6
  · exact h.q7
  · exact h.q8
  · exact h.q9
  · exact h.q10
  · exact h.q11

/-- enqueue: the owner appends its fresh record to the queue and marks it waiting -/
theorem qi_append {s : State} {o : ObjId} {r : Rid} (h : QI s)
    (hlive : (s.rcd r).live = true) (hobj : (s.rcd r).obj = o) (hw : (s.rcd r).waiting = false)
    (hd : (s.rcd r).deqd = false) {t : Tid} (hlk : (s.obj o).lock = some t) (hpt : s.post t = none)
    (hdle : ∀ n, o = .note n → dlePast (s.obj o).expiry = false) (hk : (s.obj o).known = true) :
    QI ((s.setObj o { s.obj o with queue := (s.obj o).queue ++ [r] }).setRec r { s.rcd r with waiting := true }) := by
  have hlock : (s.obj o).lock ≠ none := by rw [hlk]; simp
  have hnq : ∀ o', r ∉ (s.obj o').queue := fun o' hm => by have := (h.q1 o' r hm).2.2.1; rw [hw] at this; cases this
  have hnp : ∀ u c l, wk (s.pc u) = some (c, l) → r ∉ pend (s.post u) l := fun u c l hwk hm => by
    have := ((h.q4 u c l hwk).2.2 r hm).2.2.1; rw [hw] at this; cases this
  constructor
  · intro o' r' hr'
    simp only [setRec_obj, setObj_obj, setRec_rcd, setObj_rcd] at hr' ⊢
    by_cases ho : o' = o
    · subst ho
      simp only [if_true, List.mem_append, List.mem_singleton] at hr'
      rcases hr' with hr' | hr'
      · have := h.q1 _ r' hr'
        by_cases hrr : r' = r
        · subst hrr; exact absurd hr' (hnq _)
        · simpa [hrr] using this
      · subst hr'; simp [hlive, hobj, hd]
    · simp only [ho, if_false] at hr'
      have := h.q1 o' r' hr'
      by_cases hrr : r' = r
      · subst hrr; exact absurd hr' (hnq _)
      · simpa [hrr] using this
  · intro o'
    simp only [setRec_obj, setObj_obj]
    by_cases ho : o' = o
    · subst ho; simp only [if_true]
      exact List.nodup_append.2 ⟨h.q2 _, by simp, by intro a ha b hb; simp at hb; subst hb; intro hab; subst hab; exact hnq _ ha⟩
    · simp only [ho, if_false]; exact h.q2 o'
  · intro r' h1 h2
    simp only [setRec_rcd, setRec_obj, setObj_obj, setObj_rcd, setRec_pc, setObj_pc, setRec_post, setObj_post] at h1 h2 ⊢
    by_cases hrr : r' = r
    · subst hrr; left; simp [hobj]
    · simp only [hrr, if_false] at h1 h2 ⊢
      rcases h.q3 r' h1 h2 with h3 | h3
      · left
        by_cases ho : (s.rcd r').obj = o
        · rw [if_pos ho]; simp only [List.mem_append]; left; rw [← ho]; exact h3
        · rw [if_neg ho]; exact h3
      · exact .inr h3
  · intro u c l hwk
    simp only [setRec_pc, setObj_pc, setRec_post, setObj_post, setRec_rcd, setRec_obj, setObj_obj, setObj_rcd] at hwk ⊢
    obtain ⟨a1, a2, a3⟩ := h.q4 u c l hwk
    refine ⟨a1, a2, fun r' hr' => ?_⟩
    have hrr : r' ≠ r := fun hh => by subst hh; exact hnp u c l hwk hr'
    obtain ⟨b1, b2, b3, b4, b5⟩ := a3 r' hr'
    simp only [hrr, if_false]
    refine ⟨b1, b2, b3, b4, fun o' => ?_⟩
    by_cases ho : o' = o
    · subst ho; simp only [if_true, List.mem_append, List.mem_singleton]
      intro hm; rcases hm with hm | hm
      · exact b5 _ hm
      · exact hrr hm
    · simp only [ho, if_false]; exact b5 o'
  · intro u u' c l c' l' hne h1 h2; exact h.q4d u u' c l c' l' hne h1 h2
  · intro u r' hpo
    simp only [setRec_post, setObj_post, setRec_pc, setObj_pc, setRec_rcd, setRec_obj, setObj_obj, setObj_rcd] at hpo ⊢
    rcases h.q5 u r' hpo with h1 | ⟨a1, a2, a3, a4, a5⟩
    · exact .inl h1
    · right
      by_cases hrr : r' = r
      · subst hrr
        exfalso
        rw [hobj, hlk] at a4
        cases a4
        rw [hpt] at hpo; cases hpo
      · simp only [hrr, if_false]
        refine ⟨a1, a2, a3, ?_, a5⟩
        split
        · rename_i ho; rw [← ho]; exact a4
        · exact a4
  · exact h.q6
  · intro o' hcv
    simp only [setRec_obj, setObj_obj]
    by_cases ho : o' = o
    · subst ho; simp only [if_true]; intro _ _; exact hlock
    · simp only [ho, if_false]; exact h.q7 o' hcv
  · intro n
    simp only [setRec_obj, setObj_obj]
    by_cases ho : ObjId.note n = o
    · simp only [ho, if_true]; intro hd'; have := hdle n ho.symm; rw [this] at hd'; cases hd'
    · simp only [ho, if_false]; exact h.q8 n
  · intro o'
    simp only [setRec_obj, setObj_obj]
    by_cases ho : o' = o
    · subst ho; simp only [if_true]; intro hkn; rw [hk] at hkn; cases hkn
    · simp only [ho, if_false]; exact h.q9 o'
  · intro c
    simp only [setRec_obj, setObj_obj]
    split
    · rename_i ho; rw [← ho]; exact h.q10 c
    · exact h.q10 c
  · exact h.q11

/-- the owner removes its record from the queue (or finds it already gone) and clears `waiting` -/
theorem qi_ownerRemove {s : State} {o : ObjId} {r : Rid} (h : QI s)
    (hin : r ∈ (s.obj o).queue ∨ (s.rcd r).waiting = false) : QI (ownerRemove s o r) := by
  have hnp : ∀ u c l, wk (s.pc u) = some (c, l) → r ∉ pend (s.post u) l := by
    intro u c l hwk hm
    obtain ⟨_, _, b3, _, b5⟩ := (h.q4 u c l hwk).2.2 r hm
    rcases hin with h1 | h1
    · exact b5 o h1
    · rw [h1] at b3; cases b3
  have hmem : ∀ {x : Rid}, x ∈ (s.obj o).queue.erase r → x ∈ (s.obj o).queue := fun hx => List.mem_of_mem_erase hx
  constructor
  · intro o' r' hr'
    simp only [ownerRemove_obj, ownerRemove_rcd] at hr' ⊢
    by_cases ho : o' = o
    · subst ho
      simp only [if_true] at hr'
      have hne : r' ≠ r := fun hh => by subst hh; exact (List.Nodup.mem_erase_iff (h.q2 _)).1 hr' |>.1 rfl
      simp only [hne, if_false]; exact h.q1 _ r' (hmem hr')
    · simp only [ho, if_false] at hr'
      have := h.q1 o' r' hr'
      by_cases hrr : r' = r
      · subst hrr
        exfalso
        rcases hin with h1 | h1
        · have e1 := (h.q1 o _ h1).2.1; rw [this.2.1] at e1; exact ho e1
        · rw [h1] at this; cases this.2.2.1
      · simpa [hrr] using this
  · intro o'
    simp only [ownerRemove_obj]
    split
    · exact (h.q2 o).erase r
    · exact h.q2 o'
  · intro r' h1 h2
    simp only [ownerRemove_rcd, ownerRemove_obj, ownerRemove_pc, ownerRemove_post] at h1 h2 ⊢
    by_cases hrr : r' = r
    · subst hrr; simp at h2
    · simp only [hrr, if_false] at h1 h2 ⊢
      rcases h.q3 r' h1 h2 with h3 | h3
      · left; split
        · rename_i ho; rw [ho] at h3; exact (List.mem_erase_of_ne hrr).2 h3
        · exact h3
      · exact .inr h3
  · intro u c l hwk
    simp only [ownerRemove_pc, ownerRemove_post, ownerRemove_rcd, ownerRemove_obj] at hwk ⊢
    obtain ⟨a1, a2, a3⟩ := h.q4 u c l hwk
    refine ⟨a1, a2, fun r' hr' => ?_⟩
    have hrr : r' ≠ r := fun hh => by subst hh; exact hnp u c l hwk hr'
    obtain ⟨b1, b2, b3, b4, b5⟩ := a3 r' hr'
    simp only [hrr, if_false]
    refine ⟨b1, b2, b3, b4, fun o' => ?_⟩
    split
    · intro hm; exact b5 o (hmem hm)
    · exact b5 o'
  · intro u u' c l c' l' hne h1 h2; exact h.q4d u u' c l c' l' hne h1 h2
  · intro u r' hpo
    simp only [ownerRemove_post, ownerRemove_pc, ownerRemove_rcd, ownerRemove_obj] at hpo ⊢
    rcases h.q5 u r' hpo with h1 | ⟨a1, a2, a3, a4, a5⟩
    · exact .inl h1
    · right
      by_cases hrr : r' = r
      · subst hrr; simp only [if_true]
        refine ⟨a1, a2, a3, ?_, trivial⟩
        split
        · rename_i ho; rw [ho] at a4; exact a4
        · exact a4
      · simp only [hrr, if_false]
        refine ⟨a1, a2, a3, ?_, a5⟩
        split
        · rename_i ho; rw [ho] at a4; exact a4
        · exact a4
  · exact h.q6
  · intro o' hcv
    simp only [ownerRemove_obj]
    split
    · rename_i ho; subst ho
      intro hw hq
      exact h.q7 _ hcv (by cases o' <;> simpa [wakeable] using hw) (fun h0 => hq (by simp [h0]))
    · exact h.q7 o' hcv
  · intro n
    simp only [ownerRemove_obj]
    split
    · rename_i ho; intro hd; have := h.q8 n (by rw [ho]; exact hd); rw [ho] at this; simp [this]
    · exact h.q8 n
  · intro o'
    simp only [ownerRemove_obj]
    split
    · rename_i ho; subst ho; intro hk; have := h.q9 _ hk; exact ⟨by simp [this.1], this.2⟩
    · exact h.q9 o'
  · intro c
    simp only [ownerRemove_obj]
    split
    · rename_i ho; rw [← ho]; exact h.q10 c
    · exact h.q10 c
  · exact h.q11

end WaitN
