/-
  Layer `Note`, invariant family G (no use after free), for the repaired code
  (/verif/fixes/F4F7/note_fix.diff):

    * a note on a children list is not freed, and neither is the owner of the list;
    * a note whose mutex is held is not freed;
    * once `nsync_note_free (n)` has left its last WAIT_FOR_NO_CHILDREN, `n` has no parent and no
      children any more, and once it has released `n->note_mu` nobody holds or acquires it.

  This file: how a mutex is acquired, `freeing` implies `published`, and the definitions.
-/
import NsyncVerif.Proofs.NoteFixJ

set_option linter.unusedSimpArgs false

namespace Note

/-- A thread acquires the mutex of `k` only at the end of a `nsync_mu_lock (k)` /
    WAIT_FOR_NO_CHILDREN (k) it is in (`wants`), or by a successful `nsync_mu_trylock`. -/
theorem step_acquire {s s' : State} {e : Event} (hs : step s e = .ok s') (k : NoteId) (a : Tid)
    (h' : (s'.notes k).lockHolder = some a) (h : (s.notes k).lockHolder ≠ some a) :
    e.actor = some a ∧
    ((s.pc a).wants = some k ∨ (∃ n nk, s.pc a = .nfy .tryRet n (some k) nk) ∨
      (∃ n c nx, s.pc a = .fr .tryRet n (some k) c nx)) := by
  cases e
  all_goals step_cases hs
  all_goals (try (exact absurd h' h))
  all_goals (try (exact absurd (by simpa using h') h))
  all_goals (repeat' split at h')
  all_goals (try (exact absurd (by simpa using h') h))
  all_goals (try (have hk := ‹¬ (_ : Bool) = true›; simp only [Bool.not_eq_true] at hk; subst hk))
  all_goals (try (have hk := ‹(_ : Bool) = true›; subst hk))
  all_goals (try (
    simp only [setPc_notes, acquire_f_lockHolder, incDisc_f_lockHolder, enterChild_notes,
      freeLoopStart_f_lockHolder, childReturn_f_lockHolder, childScanStart_f_lockHolder,
      eraseChild_f_lockHolder, link_f_lockHolder, setAdopted_f_lockHolder,
      clearParent_f_lockHolder, unlink_f_lockHolder, decDisc_f_lockHolder,
      release_f_lockHolder] at h'
    split at h'
    · next hk =>
      first
        | (cases h'; done)
        | (subst hk
           obtain rfl := Option.some.inj h'
           exact absurd ‹(s.notes _).lockHolder = some _› h)
        | (subst hk
           obtain rfl := Option.some.inj h'
           refine ⟨rfl, ?_⟩
           rw [‹s.pc _ = _›]
           first
             | (left; rfl)
             | (right; left; exact ⟨_, _, rfl⟩)
             | (right; right; exact ⟨_, _, _, rfl⟩))
    · exact absurd h' h))
  -- malloc
  all_goals (
    simp only [setPc_notes, allocNote_f] at h'
    split at h'
    · simp [NoteRec.blank] at h'
    · exact absurd h' h)

/-- `nsync_note_free` is called on notes that `nsync_note_new` has returned. -/
def InvFP (s : State) : Prop := ∀ n, s.freeing n = true → s.published n = true

theorem step_invFP {s s' : State} {e : Event} (hP : InvFP s) (hs : step s e = .ok s') :
    InvFP s' := by
  intro n hn
  have hst := step_stable hs
  by_cases h0 : s.freeing n = true
  · exact hst.published n (hP n h0)
  · cases e
    all_goals step_cases hs
    all_goals (try (exact absurd hn h0))
    all_goals (try (exact absurd (by simpa using hn) h0))
    all_goals (repeat' split at hn)
    all_goals (try (exact absurd (by simpa using hn) h0))
    -- the call of nsync_note_free: the note is live
    all_goals (
      have hl := (by assumption : s.Live _)
      simp only [setPc_freeing, markFreeing_freeing, addUser_freeing, upd_apply] at hn
      split at hn
      · next hk => subst hk; simpa using hl.2.1
      · exact absurd hn h0)

theorem Reachable.invFP {s : State} (h : Reachable s) : InvFP s :=
  Reachable.induction (P := InvFP) (fun n hn => by simp [Note.init] at hn)
    (fun _ _ _ _ hP hs => step_invFP hP hs) s h

end Note
