import NsyncVerif.Proofs.MuCInv4Api
/-
  MuC (I_queue) in every reachable state.
-/
namespace NsyncVerif.MuC

theorem inv4_stepCas {s s' : State} {t : Tid} {o : Ord} {loc : Loc} {exp new obs : Nat} {ok : Bool}
    (h1 : Inv1 s) (h3 : Inv3 s) (h : Inv4 s)
    (hs : stepCas s t o loc exp new obs ok = .ok s') : Inv4 s' := by
  cases hpc : s.pc t <;>
    first
    | exact inv4_stepCasA h1 h3 h (by rw [hpc]; trivial) hs
    | exact inv4_stepCasB h (by rw [hpc]; trivial) hs
    | exact inv4_stepCasC h3 h (by rw [hpc]; trivial) hs
    | (simp [stepCas, hpc] at hs)

theorem inv4_stepCall {s s' : State} {t : Tid} {a : Api} (h : Inv4 s)
    (hs : stepCall s t a = .ok s') : Inv4 s' := by
  unfold stepCall at hs
  split at hs
  · rename_i heq
    cases a <;> dsimp only at hs
    all_goals (repeat' split at hs)
    all_goals first
      | (cases hs; done)
      | (cases hs; inv4_local t h heq)
  · cases hs

theorem inv4_stepRet {s s' : State} {t : Tid} {a : Api} {res : Res} (h : Inv4 s)
    (hs : stepRet s t a res = .ok s') : Inv4 s' := by
  unfold stepRet at hs
  split at hs
  all_goals first
    | (cases hs; done)
    | (rename_i heq
       repeat' split at hs
       all_goals first
         | (cases hs; done)
         | (cases hs; inv4_local t h heq))
    | skip
  -- mwRet: the waiter record is returned to the pool
  rename_i c cit cnd dl note o' heq
  repeat' split at hs
  all_goals first
    | (cases hs; done)
    | skip
  all_goals
    (cases hs
     cases hcw : c.w with
     | none =>
       refine Inv4.local t h (by simp [dropW, setHeld]) (by intro x; simp [dropW, setHeld]) (by intro u hu; simp [dropW, setHeld, setFn, hu])
         ?_ ?_ ?_ ?_ ?_ ?_ <;> simp [dropW, setHeld, heq, PC.ws, PC.unl, PC.scan?, PC.wakeL, PC.limbo, PC.finOf]
     | some k =>
       have hk : (s.wr k).owner = some t := h.own t k (by rw [heq]; simp [PC.ws, hcw])
       refine Inv4.local t h (by simp [dropW, setHeld]) ?_ (by intro u hu; simp [dropW, setHeld, setFn, hu])
         ?_ ?_ ?_ ?_ ?_ ?_
       · intro x
         simp only [setHeld, dropW, setPc_wr, setFn]
         constructor
         · by_cases hx : x = k
           · subst hx; right; exact ⟨hk, by simp [PC.ws]⟩
           · left; simp [hx]
         · split <;> simp_all
       all_goals simp [dropW, setHeld, heq, PC.ws, PC.unl, PC.scan?, PC.wakeL, PC.limbo, PC.finOf])

theorem inv4_stepCond {s s' : State} {t : Tid} {fn : CFn} {k : Nat} {res : Bool} (h1 : Inv1 s) (h : Inv4 s)
    (hs : stepCond s t fn k res = .ok s') : Inv4 s' := by
  unfold stepCond at hs
  dsimp only at hs
  split at hs
  · rename_i c heq
    repeat' split at hs
    all_goals first
      | (cases hs; done)
      | (cases hs; inv4_local t h heq)
  · rename_i r sc heq
    have hok1 := h1.pcok t; rw [heq] at hok1
    repeat' split at hs
    all_goals first
      | (cases hs; done)
      | skip
    obtain ⟨hf, p, hpc, hsc⟩ := afterEval_frame hs hok1.2.1
    obtain ⟨hlo, hperm⟩ := afterEval_lists hs
    have hfq := afterEval_finq hs
    have hpt : ScanPc r sc.late (s'.pc t) := by rw [hpc]; simpa using hsc
    refine Inv4.scan_step t h (fun x => ⟨(hlo x).1, (hlo x).2.1⟩) (by intro u hu; rw [hpc]; simp [setFn, hu]) ?_
      ?_ ?_ (scanPc_limbo hpt) hfq
    · refine hperm.trans ?_
      simp [allOf, heq, PC.priv, PC.scan?, PC.wakeL]
    · intro u hu
      cases e : (s.pc u).unl with
      | false => rfl
      | true => exact absurd (h.uniq u t e (by rw [heq]; rfl)) hu
    · intro k hk; rw [scanPc_ws hpt] at hk; rw [heq]; exact hk
  · cases hs

theorem inv4_step {cfg : Cfg} {s s' : State} {e : Event} (h1 : Inv1 s) (h3 : Inv3 s) (h : Inv4 s)
    (hs : step cfg s e = .ok s') : Inv4 s' := by
  cases e with
  | call t a => exact inv4_stepCall h hs
  | ret t a res => exact inv4_stepRet h hs
  | ld t o loc obs => exact inv4_stepLd h3 h hs
  | st t o loc new obs => exact inv4_stepSt h3 h hs
  | cas t o loc exp new obs ok => exact inv4_stepCas h1 h3 h hs
  | cond t fn k res => exact inv4_stepCond h1 h hs
  | semPEnter t k =>
    simp only [step] at hs
    split at hs
    · rename_i heq; ld_case4 t h heq hs
    · cases hs
  | semPRet t k =>
    simp only [step] at hs
    split at hs
    · rename_i heq; ld_case4 t h heq hs
    · cases hs
  | semPdEnter t k dl =>
    simp only [step] at hs
    split at hs
    · rename_i heq; ld_case4 t h heq hs
    · cases hs
  | semPdRet t k timedout =>
    simp only [step] at hs
    split at hs
    · rename_i heq; ld_case4 t h heq hs
    · cases hs
  | semV t k =>
    simp only [step] at hs
    split at hs
    · rename_i r k' rest heq
      split at hs
      · cases hs
      · cases hs
        rw [afterFin_eq]
        refine Inv4.local t h (by simp) (by intro x; constructor <;> (try left) <;> (simp [semPost, setFn]; split <;> simp_all))
          (by intro u hu; simp [setFn, hu]) ?_ ?_ ?_ ?_ ?_ ?_ <;> simp only [semPost_pc, setPc_pc, setFn_same, heq]
        · intro x hx; cases hr : rest <;> rw [hr] at hx <;> cases r <;> simp_all [finPc, Ret.pc, PC.ws, Ret.ws]
        · intro hx; cases hr : rest <;> rw [hr] at hx <;> cases r <;> simp_all [finPc, Ret.pc, PC.unl]
        · cases rest <;> cases r <;> simp [finPc, Ret.pc, PC.scan?]
        · cases rest <;> cases r <;> simp [finPc, Ret.pc, PC.wakeL]
        · cases rest <;> cases r <;> simp [finPc, Ret.pc, PC.limbo]
        · intro f hx; cases hr : rest <;> rw [hr] at hx <;> cases r <;> simp_all [finPc, Ret.pc, PC.finOf]
    · cases hs
  | envV k =>
    simp only [step] at hs; cases hs
    exact h.env (by simp) (by intro x; simp [semPost, setFn]; split <;> simp_all) (by simp)
  | envSem k n =>
    simp only [step] at hs
    split at hs
    · cases hs; exact h.env rfl (by intro x; simp [setFn]; split <;> simp_all) rfl
    · cases hs
  | dataW t x v =>
    simp only [step] at hs
    split at hs
    · cases hs; exact h.env rfl (fun _ => ⟨rfl, rfl⟩) rfl
    · cases hs
  | dataR t x v =>
    simp only [step] at hs
    split at hs
    · cases hs; exact h
    · cases hs
  | tick n =>
    simp only [step] at hs
    split at hs
    · cases hs; exact h.env rfl (fun _ => ⟨rfl, rfl⟩) rfl
    · cases hs
  | noteSeen t =>
    simp only [step] at hs
    split at hs
    · rename_i heq; ld_case4 t h heq hs
    · cases hs
  | noteNotify t =>
    simp only [step] at hs
    split at hs
    · rename_i heq; ld_case4 t h heq hs
    · rename_i heq; ld_case4 t h heq hs
    · cases hs

theorem inv4_init : Inv4 init := by
  refine ⟨?_, ?_, ?_, ?_, ?_, ?_, ?_, ?_⟩
  · intro t k hk; simp [init, PC.ws] at hk
  · intro t u ht; simp [init, PC.unl] at ht
  · intro t; simp [allOf, init, PC.priv, PC.scan?, PC.wakeL]
  · intro k hk; simp [Queued, init, PC.scan?] at hk
  · intro t k hk; simp [init, PC.wakeL] at hk
  · intro t k hk; simp [init, PC.limbo] at hk
  · intro t f hf; simp [init, PC.finOf] at hf
  · intro t u k hk; simp [init, PC.wakeL] at hk

theorem reachable_inv134 {cfg : Cfg} {s : State} (h : Reachable cfg s) : Inv1 s ∧ Inv3 s ∧ Inv4 s :=
  reachable_induction (P := fun s => Inv1 s ∧ Inv3 s ∧ Inv4 s) ⟨inv1_init, inv3_init, inv4_init⟩
    (fun _ _ _ _ hp hs => ⟨inv1_step hp.1 hs, inv3_step hp.1 hp.2.1 hs, inv4_step hp.1 hp.2.1 hp.2.2 hs⟩) s h

theorem reachable_inv4 {cfg : Cfg} {s : State} (h : Reachable cfg s) : Inv4 s := (reachable_inv134 h).2.2

end NsyncVerif.MuC
