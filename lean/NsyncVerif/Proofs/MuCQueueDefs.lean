import NsyncVerif.Proofs.MuCSpinApi
/-
  MuC: the notions the statements about the waiter queue, the same_condition rings and the hint bits
  MU_CONDITION / MU_ALL_FALSE are written in.
-/
namespace NsyncVerif.MuC

/-- The locals of a thread between the grab CAS of unlock_slow and the end of its scan: it has
    swapped (part of) the waiter queue into `waiters` (`done`) and `new_waiters` (`passed ++ todo`). -/
def PC.scan? : PC → Option Scan
  | .usRelLd _ sc | .usRelCas _ sc _ | .usEval _ sc | .usRcLd _ sc _ | .usRcCas _ sc _ _ | .usReLd _ sc | .usReCas _ sc _ => some sc
  | _ => none

def Scan.lists (sc : Scan) : List Wid := sc.done ++ sc.passed ++ sc.todo

/-- Some unlocker is in the middle of its scan. -/
def MidScan (s : State) : Prop := ∃ u sc, (s.pc u).scan? = some sc

/-- Waiter record `k` is on the waiter queue of the mutex: on mu->waiters, or on one of the lists an
    unlocker has swapped into its locals. -/
def Queued (s : State) (k : Wid) : Prop :=
  k ∈ s.queue ∨ ∃ u sc, (s.pc u).scan? = some sc ∧ k ∈ sc.lists

/-- What a condition denotes: function, variable, value (two conditions with the same `sem` have the
    same truth value on all data). -/
def Cond.sem (c : Cond) : CFn × Nat × Int := (c.fn, c.var, c.val)

theorem evalCond_sem {c c' : Cond} (h : c.sem = c'.sem) (data : Nat → Int) : evalCond data c = evalCond data c' := by
  simp only [Cond.sem, Prod.mk.injEq] at h
  obtain ⟨h1, h2, h3⟩ := h
  simp [evalCond, h1, h2, h3]

/-- The same_condition groups of a list, as the model represents them: maximal stretches linked by `lnk`. -/
def groupsOf (wr : Wid → WRec) : List Wid → List (List Wid)
  | [] => []
  | k :: rest =>
    match groupsOf wr rest with
    | [] => [[k]]
    | g :: gs => if (wr k).lnk then (k :: g) :: gs else [k] :: g :: gs

/-- Adjacent waiters `a`, `b` (in this order) belong to the same maximal run of WAIT_CONDITION_EQ-equal
    conditions. -/
def runsOf (wr : Wid → WRec) : List Wid → List (List Wid)
  | [] => []
  | k :: rest =>
    match rest, runsOf wr rest with
    | n :: _, g :: gs => if condEq (wr k).cond (wr n).cond then (k :: g) :: gs else [k] :: g :: gs
    | _, _ => [[k]]

/-- Every thread is idle holding nothing, or blocked in a semaphore P whose count is 0. -/
def Asleep (s : State) (t : Tid) : Prop :=
  (∃ c k, s.pc t = .lsPRet c ∧ c.w = some k ∧ (s.wr k).sem = 0) ∨
  (∃ c k, s.pc t = .mwPdRet c none ∧ c.w = some k ∧ (s.wr k).sem = 0)

def Quiescent (s : State) : Prop := ∀ t, (s.pc t = .idle ∧ s.held t = none) ∨ Asleep s t

/-- Every write section that ended with nsync_mu_unlock_without_wakeup left false the conditions of
    the waiters queued at that moment (ghost `nwViol`, set by the acceptor at the call). -/
def WithoutWakeupContract (s : State) : Prop := s.nwViol = false

end NsyncVerif.MuC
