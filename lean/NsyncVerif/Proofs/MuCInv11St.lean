import NsyncVerif.Proofs.MuCInv11Cas
/-
  MuC, Inv11: enqueue steps and stores.
-/
namespace NsyncVerif.MuC

/-- `t` queues record `k` (no other thread waits on `k`). -/
theorem Inv11.enq_step {s s' : State} (t : Tid) (k : Wid) (h : Inv11 s)
    (hQ : ∀ x, Queued s' x → x = k ∨ Queued s x)
    (hown : ∀ u, u ≠ t → (s.pc u).waitRec ≠ some k)
    (hcnd : ∀ x, x ≠ k → (s'.wr x).cond = (s.wr x).cond)
    (hd : s'.data = s.data) (hnv : s'.nwViol = false → s.nwViol = false)
    (hpc : ∀ u, u ≠ t → s'.pc u = s.pc u) (hheld : ∀ u, s'.held u = s.held u)
    (hdes : s'.word.desig = true → s.word.desig = true)
    (hmt : ∀ u, (s'.pc u).mtOld = none)
    (hnt : ¬ StrongResp s t)
    (hresp : shareOf s' t ≠ none ∨ ((s'.wr k).cond = none ∧ ¬ RespT s t)) : Inv11 s' := by
  have hstr : ∀ u, u ≠ t → StrongResp s u → StrongResp s' u := by
    intro u hu a
    rcases a with a | a | ⟨k', a1, a2, a3⟩
    · left; rw [hpc u hu]; exact a
    · right; left; rw [hpc u hu]; exact a
    · right; right
      refine ⟨k', by rw [hpc u hu]; exact a1, by rw [hpc u hu]; exact a2, ?_⟩
      intro e
      rcases hQ k' e with e' | e'
      · subst e'; exact hown u hu a1
      · exact a3 e'
  refine ⟨?_, ?_, ?_⟩
  · intro hd'
    obtain ⟨w, hw⟩ := h.hd (hdes hd')
    by_cases e : w = t
    · subst e; exact absurd hw hnt
    · exact ⟨w, hstr w e hw⟩
  · intro u old ho; rw [hmt u] at ho; cases ho
  · intro hnv' hneed
    rcases hresp with a | ⟨a, b⟩
    · exact ⟨t, Or.inl a⟩
    · obtain ⟨x, c, hx, hc, he⟩ := hneed
      have hxk : x ≠ k := by intro e; subst e; rw [a] at hc; cases hc
      have hx0 : Queued s x := by
        rcases hQ x hx with e | e
        · exact absurd e hxk
        · exact e
      obtain ⟨w, hw⟩ := h.nm (hnv hnv') ⟨x, c, hx0, by rw [← hcnd x hxk]; exact hc, by rw [← hd]; exact he⟩
      by_cases e : w = t
      · subst e; exact absurd hw b
      · refine ⟨w, ?_⟩
        rcases hw with c1 | c1 | c1
        · left; simpa [shareOf, hpc w e, hheld w] using c1
        · exact Or.inr (Or.inl (hstr w e c1))
        · right; right; rw [hpc w e]; exact c1

theorem not_waitRec_of_owner {s : State} (h4 : Inv4 s) {t : Tid} {k : Wid} (ho : (s.wr k).owner = some t ∨ (s.wr k).owner = none)
    (u : Tid) (hu : u ≠ t) : (s.pc u).waitRec ≠ some k := by
  intro e
  have := h4.own u k (waitRec_mem_ws e)
  rcases ho with a | a <;> rw [a] at this <;> cases this
  exact hu rfl

theorem inv11_stepCasC {s s' : State} {t : Tid} {o : Ord} {loc : Loc} {exp new obs : Nat} {ok : Bool}
    (h1 : Inv1 s) (h3 : Inv3 s) (h4 : Inv4 s) (h : Inv11 s)
    (hp : match s.pc t with
      | .mwEnqCas _ _ => True
      | _ => False)
    (hs : stepCas s t o loc exp new obs ok = .ok s') : Inv11 s' := by
  unfold stepCas at hs
  split at hs
  all_goals try (rename_i heq; rw [heq] at hp; exact False.elim hp)
  all_goals try (rename_i hne; split at hp <;> first | exact False.elim hp | (exfalso; simp_all; done))
  rename_i c old heq
  split at hs
  · cases hs
  · rename_i k hcw
    have hok3 := h3.ok3 t; rw [heq] at hok3
    have hheld : s.held t = none := h1.held_none (by rw [heq]; simp)
    rcases casWord_ok hs with ⟨hw, -, rfl⟩ | ⟨-, -, rfl⟩
    · have hnm := no_mtOld_of_nospin h3 (by rw [hw]; exact hok3)
      refine Inv11.enq_step t k h ?_ (not_waitRec_of_owner h4 (Or.inl (h4.own t k (by rw [heq]; simp [PC.ws, hcw])))) ?_
        (by split <;> simp [enqLast, enqFirst]) (by split <;> simp [enqLast, enqFirst])
        (by intro u hu; split <;> simp [enqLast, enqFirst, setFn, hu]) (by intro u; split <;> simp [enqLast, enqFirst])
        (by intro a; rw [hw]; split at a <;> simpa [enqLast, enqFirst, mwEnqWord] using a) ?_ (by not_strong heq)
        (Or.inl (by unfold shareOf tshare; split <;> simp [pcShare]))
      · intro x hx
        rcases hx with hx | ⟨u, sc, h1', h2⟩
        · have : x = k ∨ x ∈ s.queue := by
            split at hx <;> simp [enqLast, enqFirst] at hx
            · rcases hx with e | e
              · exact Or.inr e
              · exact Or.inl e
            · exact hx
          rcases this with e | e
          · exact Or.inl e
          · exact Or.inr (Or.inl e)
        · right; right; refine ⟨u, sc, ?_, h2⟩
          by_cases hu : u = t
          · subst hu; split at h1' <;> simp [enqLast, enqFirst, PC.scan?] at h1'
          · split at h1' <;> simpa [enqLast, enqFirst, setFn, hu] using h1'
      · intro x _
        split <;> simp [enqLast, enqFirst, cond_of_merge]
      · intro u
        by_cases hu : u = t
        · subst hu; split <;> simp [enqLast, enqFirst, PC.mtOld]
        · have := hnm u
          split <;> simpa [enqLast, enqFirst, setFn, hu] using this
    · inv11_local t h1 h heq

theorem mtRelWord_desig (a : Option Mode) (old : Word) : (mtRelWord a old).desig = old.desig := by
  unfold mtRelWord; (repeat' split) <;> rfl

theorem inv11_stepSt {s s' : State} {t : Tid} {o : Ord} {loc : Loc} {new obs : Nat}
    (h1 : Inv1 s) (h3 : Inv3 s) (h4 : Inv4 s) (h : Inv11 s)
    (hs : stepSt s t o loc new obs = .ok s') : Inv11 s' := by
  unfold stepSt at hs
  split at hs
  · -- lsSt
    rename_i c heq
    have hsp := h3.others_no_spin (t := t) (by rw [heq]; rfl)
    have hheld : s.held t = none := h1.held_none (by rw [heq]; simp)
    have hnr : ¬ RespT s t := by
      rintro (a | a | a)
      · simp [shareOf, tshare, hheld, heq, pcShare] at a
      · revert a; not_strong heq
      · rw [heq] at a; simp [PC.timedOut] at a
    dsimp only at hs
    repeat' split at hs
    all_goals first
      | (cases hs; done)
      | skip
    all_goals
      (first
       | (rename_i k _ _ _ _ _ k' hcw hkk hwait _
          simp only [Decidable.not_not, Bool.not_eq_true] at hkk hwait
          subst hkk
          have hown := not_waitRec_of_owner h4 (Or.inl (h4.own t k (by rw [heq]; simp [PC.ws, SL.ws, hcw]))))
       | (rename_i k _ _ _ _ _ hcw hown' hwait _
          simp only [Decidable.not_not, Bool.not_eq_true] at hown' hwait
          have hown := not_waitRec_of_owner (t := t) h4 (Or.inr hown'))
       cases hs
       refine Inv11.enq_step t k h ?_ hown ?_ (by simp [enqLast, enqFirst]) (by simp [enqLast, enqFirst])
         (by intro u hu; simp [enqLast, enqFirst, setFn, hu]) (by intro u; simp [enqLast, enqFirst])
         (by intro a; simpa [enqLast, enqFirst] using a) ?_ (by not_strong heq) (Or.inr ⟨?_, hnr⟩)
       · intro x hx
         rcases hx with hx | ⟨u, sc, h1', h2⟩
         · have : x = k ∨ x ∈ s.queue := by
             simp [enqLast, enqFirst] at hx
             first
             | (rcases hx with e | e
                · exact Or.inr e
                · exact Or.inl e)
             | exact hx
           rcases this with e | e
           · exact Or.inl e
           · exact Or.inr (Or.inl e)
         · right; right; refine ⟨u, sc, ?_, h2⟩
           by_cases hu : u = t
           · subst hu; simp [PC.scan?] at h1'
           · simpa [enqLast, enqFirst, setFn, hu] using h1'
       · intro x hx
         simp [enqLast, enqFirst, cond_of_merge, setFn, hx]
       · intro u
         by_cases hu : u = t
         · subst hu; simp [enqLast, enqFirst, PC.mtOld]
         · have : (s.pc u).mtOld = none := by
             cases ho : (s.pc u).mtOld with
             | none => rfl
             | some o' => have := spin_of_mtOld ho; rw [hsp u hu] at this; cases this
           simpa [enqLast, enqFirst, setFn, hu] using this
       · simp [enqLast, enqFirst, cond_of_merge, setFn])
  · rename_i heq; ld_case11 t h1 h heq hs
  · -- mwStW: the record is on no list
    rename_i c heq
    have hok := h1.pcok t; rw [heq] at hok
    dsimp only at hs
    repeat' split at hs
    all_goals first
      | (cases hs; done)
      | skip
    all_goals
      (first
       | (rename_i k _ _ _ _ _ k' hcw hkk hwait
          simp only [Decidable.not_not, Bool.not_eq_true] at hkk hwait
          subst hkk)
       | (rename_i k _ _ _ _ _ hcw hown hwait
          simp only [Decidable.not_not, Bool.not_eq_true] at hown hwait)
       cases hs
       have hnq : ∀ x, Queued s x → x ≠ k := fun x hx e => by have := h4.wait x hx; rw [e, hwait] at this; cases this
       refine Inv11.localPc t h ?_ ?_ (by simp) (by simp) (by intro u hu; simp [setFn, hu]) (by intro u; simp) (by simp) ?_ ?_
       · intro x
         exact (queued_same (t := t) (by simp) (by intro u hu; simp [setFn, hu]) (by simp [heq, PC.scan?]) x).1
       · intro x hx
         have hx0 := (queued_same (s := s) (t := t) (by simp) (by intro u hu; simp [setFn, hu]) (by simp [heq, PC.scan?]) x).1 hx
         simp [setFn, hnq x hx0]
       · intro o' ho; simp [PC.mtOld] at ho
       · rw [heq]; simp [PC.rKeep, PC.srKeep, PC.unl, PC.woken, PC.waitRec, PC.hlRec, PC.timedOut, pcShare])
  · rename_i heq; ld_case11 t h1 h heq hs
  · -- mtStRel
    rename_i c old ok heq
    have hok := h1.pcok t; rw [heq] at hok
    dsimp only at hs
    repeat' split at hs
    all_goals first
      | (cases hs; done)
      | skip
    all_goals
      (cases hs
       refine Inv11.local t h ?_ (by intro x _; simp) (by simp) (by simp) (by intro u hu; simp [setFn, hu]) (by intro u _; simp)
         (by intro a; right; exact ⟨t, old, by rw [heq]; rfl, by simpa [mtRelWord_desig] using a⟩)
         (by intro o' ho; simp [PC.mtOld] at ho) (Or.inl (by pc11 heq)) ?_
       · intro k
         exact (queued_same (t := t) (by simp) (by intro u hu; simp [setFn, hu]) (by simp [heq, PC.scan?]) k).1
       · intro _ _; right
         first
         | (left; unfold shareOf tshare; split <;> simp [pcShare]; done)
         | (right; left; simp_all [PC.timedOut, PC.ok, MW.ok]))
  · cases hs

end NsyncVerif.MuC
