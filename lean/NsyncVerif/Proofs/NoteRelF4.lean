/-
  Layer `Note`, invariant family F (the current forest): the converse of `InvT` — a note on
  `p->children` has `parent == p` — with what it rests on: children lists without duplicates, the
  privacy of a note being created, the children loops and the activation stack of
  `note_notify_child` walking the current forest (protected by the mutexes), the `disconnecting`
  counters counting EXACTLY the threads that have incremented them and not yet decremented them
  (top-level sections of `notify` / `nsync_note_free`, and — since the repair of F7 — the inner
  activations of `note_notify_child`), and the local `parent` of a top-level section being the
  note's CURRENT parent until that thread itself has seen the note disconnected (I1 of
  /verif/fixes/F4F7/NOTES.md: "the last disconnector unlinks" — no stale `parent` any more).
-/
import NsyncVerif.Proofs.NoteRelF3

set_option linter.unusedSimpArgs false

namespace Note

/-- Consecutive notes of the list are child and parent in the current forest. -/
def ChainCur (s : State) : List NoteId → Prop
  | [] => True
  | [_] => True
  | x :: y :: l => x ∈ (s.notes y).children ∧ ChainCur s (y :: l)

/-- The thread is inside a `disconnecting` section on `n`. -/
def inSecB (pc : PC) (n : NoteId) : Bool :=
  match pc.sec with
  | some (m, _) => m == n
  | none => false

/-- How many times the thread is counted in `n->disconnecting`. -/
def cntOf (pc : PC) (n : NoteId) : Nat :=
  (if inSecB pc n then 1 else 0) + pc.inner.count n

/-- Positions of `notify (n)` inside the section and before `note_notify_child (n, parent)` has
    returned. -/
def NPos.linkedB : NPos → Bool
  | .tryCall | .tryRet | .sUnlockCall | .sUnlockRet | .sLockPCall | .sLockPRet | .sLockNCall
  | .sLockNRet => true
  | _ => false

/-- Positions of `nsync_note_free (n)` inside the section and before its own disconnection of
    `n`. -/
def FPos.linkedB : FPos → Bool
  | .tryCall | .tryRet | .sUnlockCall | .sUnlockRet | .sLockPCall | .sLockPRet | .sLockNCall
  | .sLockNRet | .lockChild | .lockChildRet | .unlockChild | .unlockChildRet | .waitCall
  | .waitRet _ => true
  | _ => false

/-- The thread is inside a top-level section on `n` with a non-NULL local `parent`, and has not
    yet executed the end of its own `note_notify_child (n, parent)` / its own disconnection of `n`
    in `nsync_note_free`. -/
def PC.linked : PC → Option (NoteId × NoteId)
  | .nfy pos n (some p) _ => bif pos.linkedB then some (n, p) else none
  | .chd _ _ top => top.par.map (fun p => (top.n, p))
  | .fr pos n (some p) _ _ => bif pos.linkedB then some (n, p) else none
  | _ => none

theorem linked_nfy (pos : NPos) (n : NoteId) (par : Option NoteId) (k : NK) :
    (PC.nfy pos n par k).linked = bif pos.linkedB then par.map (fun p => (n, p)) else none := by
  cases par <;> cases pos <;> rfl

theorem linked_fr (pos : FPos) (n : NoteId) (par : Option NoteId) (c : NoteId)
    (nx : Option NoteId) :
    (PC.fr pos n par c nx).linked = bif pos.linkedB then par.map (fun p => (n, p)) else none := by
  cases par <;> cases pos <;> rfl

theorem linked_chd (pos : CPos) (stk : List Frame) (top : Top) :
    (PC.chd pos stk top).linked = top.par.map (fun p => (top.n, p)) := rfl

theorem linked_sec {pc : PC} {n p : NoteId} (h : pc.linked = some (n, p)) :
    pc.sec = some (n, some p) := by
  cases pc with
  | nfy pos m par k =>
    cases par with
    | none => simp [PC.linked] at h
    | some q =>
      cases pos <;> simp [PC.linked, NPos.linkedB] at h <;> obtain ⟨rfl, rfl⟩ := h <;> rfl
  | chd pos stk top =>
    cases hp : top.par with
    | none => simp [PC.linked, hp] at h
    | some q =>
      simp only [PC.linked, hp, Option.map_some, Option.some.injEq, Prod.mk.injEq] at h
      obtain ⟨rfl, rfl⟩ := h
      simp [hp]
  | fr pos m par c nx =>
    cases par with
    | none => simp [PC.linked] at h
    | some q =>
      cases pos <;> simp [PC.linked, FPos.linkedB] at h <;> obtain ⟨rfl, rfl⟩ := h <;> rfl
  | _ => simp [PC.linked] at h

structure InvForest (s : State) : Prop where
  /-- the converse of `InvT` -/
  c2p : ∀ p c, c ∈ (s.notes p).children → (s.notes c).parent = some p
  nodup : ∀ p, (s.notes p).children.Nodup
  /-- a note being created is on no children list before `nsync_note_new` links it -/
  early : ∀ t c, (s.pc t).earlyNew = some c → ∀ q, c ∉ (s.notes q).children
  /-- the child selected by the loop of `nsync_note_free (n)` is a child of `n` -/
  frc : ∀ t pos n par c nx, s.pc t = .fr pos n par c nx → pos.inLoop = true →
    c ∈ (s.notes n).children
  /-- the child selected by the loop of `note_notify_child (f, …)` is a child of `f` -/
  chc : ∀ t pos f rest top c, s.pc t = .chd pos (f :: rest) top → pos.child = some c →
    c ∈ (s.notes f.note).children
  /-- every activation of `note_notify_child` but the outermost works on a child of the note of
      the enclosing activation -/
  chain : ∀ t pos stk top, s.pc t = .chd pos stk top → ChainCur s (stk.map Frame.note)
  /-- `n->disconnecting` is the number of increments not yet undone: one per top-level section
      on `n`, one per inner activation of `note_notify_child` on `n` (`L` lists the threads that
      are inside a call) -/
  cnt : ∃ L : List Tid, L.Nodup ∧ (∀ t, s.pc t ≠ .idle → t ∈ L) ∧
    ∀ n, (s.notes n).disconnecting = (L.map (fun t => cntOf (s.pc t) n)).sum
  /-- the local `parent` of a section on `n` is `n->parent`, unless `n` has been disconnected -/
  stale : ∀ t n par, (s.pc t).sec = some (n, par) →
    (s.notes n).parent = par ∨ (s.notes n).parent = none
  /-- I1 ("the last disconnector unlinks"): … and `n` has not been disconnected as long as the
      thread has not executed the end of its own `note_notify_child (n, parent)` / its own
      disconnection in `nsync_note_free` -/
  linked : ∀ t n p, (s.pc t).linked = some (n, p) → (s.notes n).parent = some p

theorem InvForest.init : InvForest Note.init := by
  refine ⟨?_, ?_, ?_, ?_, ?_, ?_, ⟨[], ?_⟩, ?_, ?_⟩ <;>
    simp [Note.init, NoteRec.blank, PC.linked]

/-! ### Counting -/

theorem sum_map_congr {l : List Tid} {f f' : Tid → Nat} (h : ∀ t ∈ l, f' t = f t) :
    (l.map f').sum = (l.map f).sum := by
  induction l with
  | nil => rfl
  | cons x xs ih =>
    simp only [List.map_cons, List.sum_cons]
    rw [h x List.mem_cons_self, ih (fun t ht => h t (List.mem_cons_of_mem _ ht))]

/-- Changing the summand of one thread. -/
theorem sum_map_update {l : List Tid} {f f' : Tid → Nat} {a : Tid} (hn : l.Nodup) (ha : a ∈ l)
    (h : ∀ t, t ≠ a → f' t = f t) : (l.map f').sum + f a = (l.map f).sum + f' a := by
  induction l with
  | nil => cases ha
  | cons x xs ih =>
    obtain ⟨hx, hxs⟩ := List.nodup_cons.mp hn
    simp only [List.map_cons, List.sum_cons]
    by_cases hxa : x = a
    · subst hxa
      have : (xs.map f').sum = (xs.map f).sum :=
        sum_map_congr (fun t ht => h t (fun e => hx (e ▸ ht)))
      omega
    · have hmem : a ∈ xs := by
        rcases List.mem_cons.mp ha with h1 | h1
        · exact absurd h1.symm hxa
        · exact h1
      have := ih hxs hmem
      rw [h x hxa]
      omega

theorem le_sum_map {l : List Tid} {f : Tid → Nat} {a : Tid} (ha : a ∈ l) :
    f a ≤ (l.map f).sum := by
  induction l with
  | nil => cases ha
  | cons x xs ih =>
    simp only [List.map_cons, List.sum_cons]
    rcases List.mem_cons.mp ha with h | h
    · subst h; omega
    · have := ih h; omega

theorem le_sum_map_two {l : List Tid} {f : Tid → Nat} {a b : Tid} (hn : l.Nodup) (ha : a ∈ l)
    (hb : b ∈ l) (hab : a ≠ b) : f a + f b ≤ (l.map f).sum := by
  induction l with
  | nil => cases ha
  | cons x xs ih =>
    obtain ⟨hx, hxs⟩ := List.nodup_cons.mp hn
    simp only [List.map_cons, List.sum_cons]
    rcases List.mem_cons.mp ha with h | h
    · subst h
      rcases List.mem_cons.mp hb with h' | h'
      · exact absurd h'.symm hab
      · have := le_sum_map (f := f) h'; omega
    · rcases List.mem_cons.mp hb with h' | h'
      · subst h'
        have := le_sum_map (f := f) h; omega
      · have := ih hxs h h'; omega

theorem exists_of_sum_map_pos {l : List Tid} {f : Tid → Nat} (h : (l.map f).sum ≠ 0) :
    ∃ t ∈ l, f t ≠ 0 := by
  induction l with
  | nil => simp at h
  | cons x xs ih =>
    simp only [List.map_cons, List.sum_cons] at h
    by_cases hx : f x = 0
    · obtain ⟨t, ht, hft⟩ := ih (by omega)
      exact ⟨t, List.mem_cons_of_mem _ ht, hft⟩
    · exact ⟨x, List.mem_cons_self, hx⟩

@[simp] theorem cntOf_idle (n : NoteId) : cntOf .idle n = 0 := rfl

/-- A thread that is counted is inside a call. -/
theorem not_idle_of_cntOf {pc : PC} {n : NoteId} (h : cntOf pc n ≠ 0) : pc ≠ .idle := by
  intro e; subst e; exact h rfl

/-- Every thread counted in `n->disconnecting` contributes to it. -/
theorem InvForest.cnt_le {s : State} (hF : InvForest s) (t : Tid) (n : NoteId) :
    cntOf (s.pc t) n ≤ (s.notes n).disconnecting := by
  obtain ⟨L, _, hL, hsum⟩ := hF.cnt
  by_cases h : cntOf (s.pc t) n = 0
  · omega
  · rw [hsum n]
    exact le_sum_map (f := fun t => cntOf (s.pc t) n) (hL t (not_idle_of_cntOf h))

/-- Two different counted threads. -/
theorem InvForest.cnt_two {s : State} (hF : InvForest s) {t u : Tid} (htu : t ≠ u) (n : NoteId) :
    cntOf (s.pc t) n + cntOf (s.pc u) n ≤ (s.notes n).disconnecting := by
  obtain ⟨L, hnd, hL, hsum⟩ := hF.cnt
  by_cases h1 : cntOf (s.pc t) n = 0
  · have := hF.cnt_le u n; omega
  · by_cases h2 : cntOf (s.pc u) n = 0
    · have := hF.cnt_le t n; omega
    · rw [hsum n]
      exact le_sum_map_two (f := fun t => cntOf (s.pc t) n) hnd (hL t (not_idle_of_cntOf h1))
        (hL u (not_idle_of_cntOf h2)) htu

/-- A non-zero `n->disconnecting` has a thread behind it. -/
theorem InvForest.cnt_pos {s : State} (hF : InvForest s) {n : NoteId}
    (h : (s.notes n).disconnecting ≠ 0) : ∃ t, cntOf (s.pc t) n ≠ 0 := by
  obtain ⟨L, _, _, hsum⟩ := hF.cnt
  rw [hsum n] at h
  obtain ⟨t, _, ht⟩ := exists_of_sum_map_pos h
  exact ⟨t, ht⟩

theorem cntOf_sec {pc : PC} {n : NoteId} {par : Option NoteId} (h : pc.sec = some (n, par)) :
    1 ≤ cntOf pc n := by
  unfold cntOf inSecB
  rw [h]; simp

theorem cntOf_inner {pc : PC} {n : NoteId} (h : n ∈ pc.inner) : 1 ≤ cntOf pc n := by
  unfold cntOf
  have := List.count_pos_iff.mpr h
  omega

/-! ### Who may shrink a children list -/

theorem held_chd_tail {pos : CPos} {stk : List Frame} {top : Top} {y : NoteId}
    (h : y ∈ stk.tail.map Frame.note) : y ∈ (PC.chd pos stk top).held := by
  have h2 : y ∈ stk.map Frame.note := by
    cases stk with
    | nil => simp at h
    | cons f rest => simp only [List.tail_cons] at h; simp [h]
  cases pos with
  | waitRet b =>
    cases b
    · simp only [PC.held, List.mem_append]; left
      simpa using h
    · simp only [PC.held, List.mem_append]; exact Or.inl h2
  | unlockChild c => simp only [PC.held, List.mem_cons, List.mem_append]; exact Or.inr (Or.inl h2)
  | _ => simp only [PC.held, List.mem_append]; exact Or.inl h2

theorem held_unlinks {pc : PC} {c p : NoteId} (h : pc.unlinks c p) : p ∈ pc.held := by
  rcases h with ⟨pos, f, rest, top, rfl, hpos, _, hfp⟩ | ⟨kept, c', nx, rfl⟩
  · have : p ∈ rest.map Frame.note ++ top.par.toList := by
      cases rest with
      | nil => simp only [frameParent] at hfp; simp [hfp]
      | cons g gs =>
        simp only [frameParent, Option.some.injEq] at hfp
        simp [hfp]
    rcases hpos with rfl | ⟨kept, rfl⟩
    · simp only [PC.held, List.map_cons, List.cons_append, List.mem_cons]; exact Or.inr this
    · cases kept
      · simpa [PC.held] using this
      · simp only [PC.held, List.map_cons, List.cons_append, List.mem_cons]; exact Or.inr this
  · cases kept <;> simp [PC.held]

/-- A note leaves a children list only by a step of a thread that holds the list owner's
    mutex. -/
theorem forest_shrink_lock {s s' : State} {e : Event} (hS : InvS s) (hL : InvL s)
    (hs : step s e = .ok s') {n c : NoteId} (h : c ∈ (s.notes n).children)
    (h' : c ∉ (s'.notes n).children) : ∃ a, e.actor = some a ∧ n ∈ (s.pc a).held := by
  rcases step_forest hS hL hs with hf | ⟨a, c0, p0, dl, ha, hpc, _, _, hf⟩ |
    ⟨a, n0, p0, c0, nx, ha, hpc, _, hf⟩ | ⟨a, n0, c0, nx, ha, hpc, _, hf⟩ |
    ⟨a, c0, p0, ha, hun, _, hf⟩
  · rw [(hf n).1] at h'; exact absurd h h'
  · rw [(hf n).1] at h'
    split at h'
    · exact absurd (List.mem_append_left _ h) h'
    · exact absurd h h'
  · rw [(hf n).1] at h'
    split at h'
    · exact absurd (List.mem_append_left _ h) h'
    · split at h'
      · next hn => subst hn; exact ⟨a, ha, by rw [hpc]; simp [PC.held]⟩
      · exact absurd h h'
  · rw [(hf n).1] at h'
    split at h'
    · next hn => subst hn; exact ⟨a, ha, by rw [hpc]; simp [PC.held]⟩
    · exact absurd h h'
  · rw [(hf n).1] at h'
    split at h'
    · next hn => subst hn; exact ⟨a, ha, held_unlinks hun⟩
    · exact absurd h h'

theorem ChainCur.tail {s : State} {x : NoteId} {l : List NoteId} (h : ChainCur s (x :: l)) :
    ChainCur s l := by
  cases l with
  | nil => trivial
  | cons y ys => exact h.2

theorem ChainCur.mono {s s' : State} {l : List NoteId}
    (hm : ∀ x y, x ∈ l → y ∈ l.tail → x ∈ (s.notes y).children → x ∈ (s'.notes y).children)
    (h : ChainCur s l) : ChainCur s' l := by
  induction l with
  | nil => trivial
  | cons x xs ih =>
    cases xs with
    | nil => trivial
    | cons y ys =>
      refine ⟨hm x y (by simp) (by simp) h.1, ih (fun a b ha hb => hm a b ?_ ?_) h.2⟩
      · exact List.mem_cons_of_mem _ ha
      · simp only [List.tail_cons] at hb ⊢
        exact List.mem_cons_of_mem _ hb

/-! ### Preservation -/

/-- The local `parent` of the thread that is about to disconnect `c` from `p` is `c->parent`,
    unless `c` has been disconnected already. -/
theorem InvForest.unlinks_parent {s : State} (hL : InvL s) (hF : InvForest s) {t : Tid} {c p : NoteId}
    (h : (s.pc t).unlinks c p) :
    (s.notes c).parent = some p ∨ (s.notes c).parent = none := by
  rcases h with ⟨pos, f, rest, top, hpc, _, hfc, hfp⟩ | ⟨kept, c', nx, hpc⟩
  · cases rest with
    | nil =>
      simp only [frameParent] at hfp
      have hc := hL.claim_of hpc
      have hft : f.note = top.n := by simpa using hc.2.2.1
      have := hF.stale t top.n top.par (by rw [hpc]; rfl)
      rw [← hft, hfc, hfp] at this; exact this
    | cons g gs =>
      simp only [frameParent, Option.some.injEq] at hfp
      have := hF.chain t _ _ _ hpc
      simp only [List.map_cons, ChainCur] at this
      left; rw [← hfc, ← hfp]; exact hF.c2p _ _ this.1
  · exact hF.stale t c (some p) (by rw [hpc]; rfl)

theorem InvForest.step_c2p {s s' : State} {e : Event} (hS : InvS s) (hL : InvL s) (hF : InvForest s)
    (hs : step s e = .ok s') :
    (∀ p c, c ∈ (s'.notes p).children → (s'.notes c).parent = some p) ∧
    (∀ p, (s'.notes p).children.Nodup) := by
  rcases step_forest hS hL hs with hf | ⟨a, c0, p0, dl, ha, hpc, _, _, hf⟩ |
    ⟨a, n0, p0, c0, nx, ha, hpc, _, hf⟩ | ⟨a, n0, c0, nx, ha, hpc, _, hf⟩ |
    ⟨a, c0, p0, ha, hun, _, hf⟩
  · exact ⟨fun p c hc => by rw [(hf c).2]; rw [(hf p).1] at hc; exact hF.c2p p c hc,
      fun p => by rw [(hf p).1]; exact hF.nodup p⟩
  · -- nsync_note_new links `c0` under `p0`
    have hnew : ∀ q, c0 ∉ (s.notes q).children := hF.early a c0 (by rw [hpc]; rfl)
    constructor
    · intro p c hc
      rw [(hf p).1] at hc
      rw [(hf c).2]
      by_cases hcc : c = c0
      · subst hcc
        rw [if_pos rfl]
        split at hc
        · next hp => rw [hp]
        · exact absurd hc (hnew p)
      · rw [if_neg hcc]
        split at hc
        · rcases List.mem_append.mp hc with h | h
          · exact hF.c2p p c h
          · exact absurd (List.mem_singleton.mp h) hcc
        · exact hF.c2p p c hc
    · intro p
      rw [(hf p).1]
      split
      · next hp =>
        subst hp
        refine List.nodup_append.mpr ⟨hF.nodup p, (by simp), ?_⟩
        intro x hx y hy
        rw [List.mem_singleton.mp hy]
        exact fun h => hnew p (h ▸ hx)
      · exact hF.nodup p
  · -- nsync_note_free moves `c0` from `n0` to `p0`
    have hc := hL.claim_of hpc
    have hne : p0 ≠ n0 := (hc.2.1 p0 rfl).2
    have hc0 : c0 ∈ (s.notes n0).children := hF.frc a _ _ _ _ _ hpc rfl
    have hpar : (s.notes c0).parent = some n0 := hF.c2p n0 c0 hc0
    have hnot : c0 ∉ (s.notes p0).children := by
      intro h
      have := hF.c2p p0 c0 h
      rw [hpar] at this
      exact hne (Option.some.inj this).symm
    constructor
    · intro p c hcm
      rw [(hf p).1] at hcm
      rw [(hf c).2]
      by_cases hcc : c = c0
      · subst hcc
        rw [if_pos rfl]
        split at hcm
        · next hp => rw [hp]
        · split at hcm
          · exact absurd hcm (by
              rw [(List.Nodup.mem_erase_iff (hF.nodup _))]; simp)
          · have := hF.c2p p c hcm
            rw [hpar] at this
            next h1 h2 => exact absurd (Option.some.inj this).symm h2
      · rw [if_neg hcc]
        split at hcm
        · rcases List.mem_append.mp hcm with h | h
          · exact hF.c2p p c h
          · exact absurd (List.mem_singleton.mp h) hcc
        · split at hcm
          · exact hF.c2p p c (List.mem_of_mem_erase hcm)
          · exact hF.c2p p c hcm
    · intro p
      rw [(hf p).1]
      split
      · next hp =>
        subst hp
        refine List.nodup_append.mpr ⟨hF.nodup p, (by simp), ?_⟩
        intro x hx y hy
        rw [List.mem_singleton.mp hy]
        exact fun h => hnot (h ▸ hx)
      · split
        · exact (hF.nodup p).erase c0
        · exact hF.nodup p
  · -- nsync_note_free of a root drops `c0`
    have hc0 : c0 ∈ (s.notes n0).children := hF.frc a _ _ _ _ _ hpc rfl
    have hpar : (s.notes c0).parent = some n0 := hF.c2p n0 c0 hc0
    constructor
    · intro p c hcm
      rw [(hf p).1] at hcm
      rw [(hf c).2]
      by_cases hcc : c = c0
      · subst hcc
        exfalso
        split at hcm
        · exact absurd hcm (by rw [(List.Nodup.mem_erase_iff (hF.nodup _))]; simp)
        · have := hF.c2p p c hcm
          rw [hpar] at this
          next h2 => exact h2 (Option.some.inj this).symm
      · rw [if_neg hcc]
        split at hcm
        · exact hF.c2p p c (List.mem_of_mem_erase hcm)
        · exact hF.c2p p c hcm
    · intro p
      rw [(hf p).1]
      split
      · exact (hF.nodup p).erase c0
      · exact hF.nodup p
  · -- a note is disconnected from its parent
    have hpar := hF.unlinks_parent hL hun
    constructor
    · intro p c hcm
      rw [(hf p).1] at hcm
      rw [(hf c).2]
      by_cases hcc : c = c0
      · subst hcc
        exfalso
        split at hcm
        · exact absurd hcm (by rw [(List.Nodup.mem_erase_iff (hF.nodup _))]; simp)
        · have := hF.c2p p c hcm
          next h2 =>
          rcases hpar with h | h
          · rw [h] at this; exact h2 (Option.some.inj this).symm
          · rw [h] at this; cases this
      · rw [if_neg hcc]
        split at hcm
        · exact hF.c2p p c (List.mem_of_mem_erase hcm)
        · exact hF.c2p p c hcm
    · intro p
      rw [(hf p).1]
      split
      · exact (hF.nodup p).erase c0
      · exact hF.nodup p

theorem InvForest.step_earlyNew {s s' : State} {e : Event} (hA : InvA s) (hS : InvS s) (hL : InvL s)
    (hF : InvForest s) (hs : step s e = .ok s') (t : Tid) (c : NoteId)
    (h : (s'.pc t).earlyNew = some c) (q : NoteId) : c ∉ (s'.notes q).children := by
  intro hm
  -- how `c` would have got onto the list of `q`
  have hnew : c ∉ (s.notes q).children →
      (∃ a dl, e.actor = some a ∧ s.pc a = .newP .ld c q dl ∧
        s'.pc a = .newP .unlockCall c q dl) ∨
      (∃ a n nx, s.pc a = .fr .lockChildRet n (some q) c nx) := by
    intro h0
    rcases step_forest hS hL hs with hf | ⟨a, c0, p0, dl, ha, hpc, _, hpc', hf⟩ |
      ⟨a, n0, p0, c0, nx, ha, hpc, _, hf⟩ | ⟨a, n0, c0, nx, ha, hpc, _, hf⟩ |
      ⟨a, c0, p0, ha, hun, _, hf⟩
    · rw [(hf q).1] at hm; exact absurd hm h0
    · rw [(hf q).1] at hm
      split at hm
      · next hq =>
        subst hq
        rcases List.mem_append.mp hm with h1 | h1
        · exact absurd h1 h0
        · rw [List.mem_singleton.mp h1]; left; exact ⟨a, dl, ha, hpc, hpc'⟩
      · exact absurd hm h0
    · rw [(hf q).1] at hm
      split at hm
      · next hq =>
        subst hq
        rcases List.mem_append.mp hm with h1 | h1
        · exact absurd h1 h0
        · rw [List.mem_singleton.mp h1]; right; exact ⟨a, n0, nx, hpc⟩
      · split at hm
        · exact absurd (List.mem_of_mem_erase hm) h0
        · exact absurd hm h0
    · rw [(hf q).1] at hm
      split at hm
      · exact absurd (List.mem_of_mem_erase hm) h0
      · exact absurd hm h0
    · rw [(hf q).1] at hm
      split at hm
      · exact absurd (List.mem_of_mem_erase hm) h0
      · exact absurd hm h0
  -- the note was already being created (early), or is allocated by this very step
  have hcase : (s.pc t).earlyNew = some c ∨ (s.notes c).allocated = false := by
    by_cases ha : e.actor = some t
    · exact Note.step_earlyNew hs t ha h
    · rw [step_pc_other hs t ha] at h; exact Or.inl h
  rcases hcase with h0 | h0
  · have hno := hF.early t c h0
    rcases hnew (hno q) with ⟨a, dl, ha, hpc, hpc'⟩ | ⟨a, n, nx, hpc⟩
    · -- only the creator links the note, and then it is no longer early
      have : t = a := hA.unique t a c (earlyNew_creating h0) (by rw [hpc]; simp)
      subst this
      rw [hpc'] at h; simp [NewPos.early] at h
    · exact hno n (hF.frc a _ _ _ _ _ hpc rfl)
  · -- a note that is not allocated is on no list
    have hno : ∀ q, c ∉ (s.notes q).children := by
      intro q hq
      have := (hS.children q c hq).1
      rw [hS.unalloc c h0] at this; cases this
    rcases hnew (hno q) with ⟨a, dl, ha, hpc, hpc'⟩ | ⟨a, n, nx, hpc⟩
    · have := (hA.creating a c (by rw [hpc]; simp)).1
      rw [h0] at this; cases this
    · exact hno n (hF.frc a _ _ _ _ _ hpc rfl)

theorem InvForest.step_frc {s s' : State} {e : Event} (hS : InvS s) (hL : InvL s) (hK : LockInv s)
    (hF : InvForest s) (hs : step s e = .ok s') (t : Tid) (pos : FPos) (n : NoteId)
    (par : Option NoteId) (c : NoteId) (nx : Option NoteId)
    (h : s'.pc t = .fr pos n par c nx) (hp : pos.inLoop = true) :
    c ∈ (s'.notes n).children := by
  by_cases ha : e.actor = some t
  · rcases step_to_frLoop hs t ha h hp with h1 | ⟨pos0, hp0, hpc, hch⟩
    · exact h1
    · rw [hch]; exact hF.frc t _ _ _ _ _ hpc hp0
  · rw [step_pc_other hs t ha] at h
    have h0 := hF.frc t _ _ _ _ _ h hp
    cases hd : decide (c ∈ (s'.notes n).children) with
    | true => exact of_decide_eq_true hd
    | false =>
      obtain ⟨a, ha', hheld⟩ := forest_shrink_lock hS hL hs h0 (of_decide_eq_false hd)
      have : a = t := held_excl hK hheld (by
        rw [h]; cases pos <;> simp at hp <;> simp [PC.held])
      subst this; exact absurd ha' ha

theorem InvForest.step_chc {s s' : State} {e : Event} (hS : InvS s) (hL : InvL s) (hK : LockInv s)
    (hF : InvForest s) (hs : step s e = .ok s') (t : Tid) (pos : CPos) (f : Frame)
    (rest : List Frame) (top : Top) (c : NoteId)
    (h : s'.pc t = .chd pos (f :: rest) top) (hp : pos.child = some c) :
    c ∈ (s'.notes f.note).children := by
  by_cases ha : e.actor = some t
  · rcases step_to_chChild hs t ha h hp with h1 | ⟨pos0, hp0, hpc, hch⟩
    · exact h1
    · rw [hch]; exact hF.chc t _ _ _ _ _ hpc hp0
  · rw [step_pc_other hs t ha] at h
    have h0 := hF.chc t _ _ _ _ _ h hp
    cases hd : decide (c ∈ (s'.notes f.note).children) with
    | true => exact of_decide_eq_true hd
    | false =>
      obtain ⟨a, ha', hheld⟩ := forest_shrink_lock hS hL hs h0 (of_decide_eq_false hd)
      have : a = t := held_excl hK hheld (by
        rw [h]; cases pos <;> simp at hp <;> simp [PC.held])
      subst this; exact absurd ha' ha

/-- A step of a thread inside `note_notify_child` that does not end an activation (the activation
    stack does not shrink) leaves the forest alone. -/
theorem forest_same_of_chd {s s' : State} {e : Event}
    (hs : step s e = .ok s') {a : Tid} (ha : e.actor = some a) {pos pos' : CPos}
    {stk stk' : List Frame} {top top' : Top} (hpc : s.pc a = .chd pos stk top)
    (hpc' : s'.pc a = .chd pos' stk' top') (hlen : stk.length ≤ stk'.length) :
    ForestSame s s' := by
  replace hpc := hpc.symm
  cases e
  all_goals step_cases hs
  all_goals simp only [Event.actor, Option.some.injEq, reduceCtorEq] at ha
  all_goals (try subst ha)
  all_goals (try (rw [‹s.pc _ = _›] at hpc; cases hpc; done))
  all_goals (try (intro j; exact ⟨rfl, rfl⟩))
  all_goals (try (intro j; constructor <;> simp; done))
  all_goals (repeat' split)
  all_goals (try (intro j; constructor <;> simp; done))
  -- the end of an activation: the stack shrinks
  all_goals (
    exfalso
    rw [‹s.pc _ = _›] at hpc
    cases hpc
    simp only [childReturn_pc, upd_same, childReturnPc] at hpc'
    split at hpc'
    · cases hpc'; simp at hlen; omega
    · split at hpc' <;> cases hpc')

theorem InvForest.step_chain {s s' : State} {e : Event} (hS : InvS s) (hL : InvL s) (hK : LockInv s)
    (hF : InvForest s) (hs : step s e = .ok s') (t : Tid) (pos' : CPos) (stk' : List Frame)
    (top' : Top) (h : s'.pc t = .chd pos' stk' top') : ChainCur s' (stk'.map Frame.note) := by
  by_cases ha : e.actor = some t
  · rcases step_stack hs t ha h with ⟨pos, stk, hpc, hmap⟩ | ⟨c, stk, hpc, hmap⟩ |
      ⟨pos, f, hpc⟩ | hmap
    · -- same stack
      have hf := forest_same_of_chd hs ha hpc h (by
        have := congrArg List.length hmap; simp at this; omega)
      rw [hmap]
      exact ChainCur.mono (fun x y _ _ hx => by rw [(hf y).1]; exact hx) (hF.chain t _ _ _ hpc)
    · -- a child is pushed
      have hf := forest_same_of_chd hs ha hpc h (by
        have := congrArg List.length hmap; simp at this; omega)
      rw [hmap]
      have hch := hF.chain t _ _ _ hpc
      refine ChainCur.mono (fun x y _ _ hx => by rw [(hf y).1]; exact hx) ?_
      cases stk with
      | nil => trivial
      | cons g gs => exact ⟨hF.chc t _ _ _ _ _ hpc rfl, hch⟩
    · -- the innermost activation returns
      have hch := (hF.chain t _ _ _ hpc)
      simp only [List.map_cons] at hch
      have hc := hL.claim_of hpc
      refine ChainCur.mono ?_ hch.tail
      intro x y hxm hy hx
      rcases step_forest hS hL hs with hf | ⟨a', _, _, _, ha', hpc', _⟩ |
        ⟨a', _, _, _, _, ha', hpc', _⟩ | ⟨a', _, _, _, ha', hpc', _⟩ |
        ⟨a', c0, p0, ha', hun, _, hf⟩
      · rw [(hf y).1]; exact hx
      · obtain rfl := Option.some.inj (ha'.symm.trans ha); rw [hpc] at hpc'; cases hpc'
      · obtain rfl := Option.some.inj (ha'.symm.trans ha); rw [hpc] at hpc'; cases hpc'
      · obtain rfl := Option.some.inj (ha'.symm.trans ha); rw [hpc] at hpc'; cases hpc'
      · obtain rfl := Option.some.inj (ha'.symm.trans ha)
        rw [(hf y).1]
        split
        · -- the note disconnected is the one of the activation that returns, strictly below `x`
          rcases hun with ⟨pos0, f0, rest0, top0, h1, _, hfc, _⟩ | ⟨kept, c', nx, h1⟩
          · rw [hpc] at h1; cases h1
            have hlt := LClaim.above_head hL hc x (List.mem_append_left _ hxm)
            rw [hfc] at hlt
            exact (List.mem_erase_of_ne hlt.2).mpr hx
          · rw [hpc] at h1; cases h1
        · exact hx
    · rw [hmap]; trivial
  · rw [step_pc_other hs t ha] at h
    refine ChainCur.mono ?_ (hF.chain t _ _ _ h)
    intro x y _ hy hx
    cases hd : decide (x ∈ (s'.notes y).children) with
    | true => exact of_decide_eq_true hd
    | false =>
      obtain ⟨a, ha', hheld⟩ := forest_shrink_lock hS hL hs hx (of_decide_eq_false hd)
      have : a = t := held_excl hK hheld (by
        rw [h]; exact held_chd_tail (by simpa using hy))
      subst this; exact absurd ha' ha

end Note
