/-
  Layer `CvFix`: a pooled `waiter` that is in the cv queue belongs to a cv wait in progress — its
  owner is inside the wait loop of nsync_cv_wait_with_deadline (between the enqueue and the loop
  exit), working on exactly this record.  (For the bare records of nsync_wait_n the corresponding
  fact is `InvG` / `alive`.)  Used by C16: an observer that walks the queue under the spinlock
  reads records whose owners have not left.
-/
import NsyncVerif.Proofs.CvFixObs

namespace NsyncVerif.CvFix

structure InvH (s : State) : Prop where
  own : ∀ r, r.isMucv = true → (s.recs r).stat = .queued →
    waitLive (s.thr (s.recs r).owner) = true ∧ (s.thr (s.recs r).owner).r = r

theorem invH_init : InvH init := by
  constructor; simp [init]

/-- General assembly: one acting thread `t`. -/
theorem invH_step {s s' : State} {t : Tid} (hh : InvH s)
    (hoth : ∀ u, u ≠ t → s'.thr u = s.thr u)
    (hq : ∀ r, r.isMucv = true → (s'.recs r).stat = .queued →
      ((s.recs r).stat = .queued ∧ (s'.recs r).owner = (s.recs r).owner) ∨
      ((s'.recs r).owner = t ∧ waitLive (s'.thr t) = true ∧ (s'.thr t).r = r))
    (ht : waitLive (s.thr t) = true → (s.recs (s.thr t).r).stat = .queued →
      (s'.recs (s.thr t).r).stat = .queued → waitLive (s'.thr t) = true ∧ (s'.thr t).r = (s.thr t).r) :
    InvH s' := by
  constructor
  intro r hm hst
  rcases hq r hm hst with ⟨h1, h2⟩ | ⟨h1, h2, h3⟩
  · obtain ⟨a, b⟩ := hh.own r hm h1
    rw [h2]
    by_cases ho : (s.recs r).owner = t
    · rw [ho] at a b ⊢
      have := ht a (by rw [b]; exact h1) (by rw [b]; exact hst)
      rw [b] at this; exact this
    · rw [hoth _ ho]; exact ⟨a, b⟩
  · rw [h1]; exact ⟨h2, h3⟩

/-- Queued records keep status and owner. -/
theorem invH_keep {s s' : State} {t : Tid} (hh : InvH s)
    (hoth : ∀ u, u ≠ t → s'.thr u = s.thr u)
    (hrec : ∀ r, r.isMucv = true → (s'.recs r).stat = .queued →
      (s.recs r).stat = .queued ∧ (s'.recs r).owner = (s.recs r).owner)
    (ht : waitLive (s.thr t) = true → (s.recs (s.thr t).r).stat = .queued →
      (s'.recs (s.thr t).r).stat = .queued → waitLive (s'.thr t) = true ∧ (s'.thr t).r = (s.thr t).r) :
    InvH s' :=
  invH_step hh hoth (fun r hm hst => .inl (hrec r hm hst)) ht

/-- Local transitions keep a thread inside its wait, on the same record. -/
theorem ltr_live {s : State} {t : Tid} {e : Event} {x' : Thr} (h : LTr s t e x')
    (hl : waitLive (s.thr t) = true) : waitLive x' = true ∧ x'.r = (s.thr t).r := by
  cases h with
  | spinLd site obs hl' ho =>
    rcases hl' with ⟨_, hl'⟩ | ⟨_, hl'⟩ <;> split <;> simp_all [waitLive]
  | spinLdN obs hl' ho => simp [waitLive, hl'] at hl
  | sigLd site obs hl' hs ho => simp [waitLive, hl'] at hl
  | casFail exp new obs hl' ho hne => simp_all [waitLive]
  | wHeadStay r obs hl' hr ho hz =>
    split
    · by_cases hn : (s.thr t).note = true <;> simp [hn, waitLive]
    · simp [waitLive]
  | wChk y r obs hy hl' hr ho hso => split <;> simp [waitLive, settle_r hy]
  | wTail y r obs hy hl' hr ho => simp [waitLive, settle_r hy]
  | wChk2 r obs hl' hr ho => split <;> simp [waitLive]
  | wwLd obs f rest hl' hlist => simp [waitLive, hl'] at hl
  | wwRelLd site obs hl' => rcases hl' with ⟨_, hl'⟩ | ⟨_, hl'⟩ <;> simp [waitLive, hl'] at hl
  | wwRelCasOk exp new obs hl' => simp [waitLive, hl'] at hl
  | ready r obs hl' hr ho => simp [waitLive, hl'] at hl
  | deqLd0 r hl' hr ho => simp [waitLive, hl'] at hl
  | deqLdGone r obs hl' hr hw hq => simp [waitLive, hl'] at hl
  | deqSpinStay r obs hl' hr hw => simp [waitLive, hl'] at hl
  | retWait res hl' hr => rcases hl' with hl' | hl' <;> simp [waitLive, hl'] at hl
  | noteSeen hl' => rcases hl' with hl' | hl' | hl' <;> simp [waitLive, hl']
  | dbgLd obs hl' ho => simp [waitLive, hl'] at hl
  | _ => simp_all [waitLive]


set_option maxHeartbeats 1000000 in
theorem invH_tr {cfg : Config} {s s' : State} {e : Event} (ha : InvA s) (hh : InvH s) (h : Tr cfg s e s') :
    InvH s' := by
  cases h with
  | same e h => exact hh
  | tick ns h => exact ⟨hh.own⟩
  | semOther e sem' h => exact ⟨hh.own⟩
  | loc h =>
    rename_i t x'
    refine invH_keep (t := t) hh (fun u hu => by simp [hu]) (fun r _ hst => ⟨hst, rfl⟩) ?_
    intro hl _ _
    simpa using ltr_live h hl
  | acq t exp new obs o n hl hexp hw he ho hn hnew =>
    obtain ⟨f1, f2, f3, f4, f5, f6⟩ := acq_facts ha hl hexp hw he ho hn hnew
    subst f1
    unfold afterAcquire
    split
    · rename_i hc; simp only at hc
      obtain ⟨hst, hown, hmu⟩ := (ha.thr t).prep (by simp [waitPrep, hl, hc])
      refine invH_step (t := t) hh (fun u hu => by simp [hu]) ?_ ?_
      · intro r hm hq
        by_cases hr : r = (s.thr t).r
        · subst hr; right; simp [hown, waitLive]
        · left; simpa [hr] using hq
      · intro h; simp [waitLive, hl, hc] at h
    · rename_i hc; simp only at hc
      refine invH_keep (t := t) hh (fun u hu => by simp [hu]) (fun r _ hst => ⟨hst, rfl⟩) ?_
      intro _ _ _; simp [waitLive]
    · rename_i hc; simp only at hc
      refine invH_keep (t := t) hh (fun u hu => by simp [hu]) (fun r _ hst => ⟨hst, rfl⟩) ?_
      intro h; simp [waitLive, hl, hc] at h
    · rename_i hc; simp only at hc
      refine invH_keep (t := t) hh (fun u hu => by simp [hu]) (fun r _ hst => ⟨hst, rfl⟩) ?_
      intro h; simp [waitLive, hl, hc] at h
    · rename_i hc; simp only at hc
      dsimp only
      generalize (if (s.thr t).bcast = true then s.queue else sigSelect s.recs s.queue) = sel
      refine invH_keep (t := t) hh (fun u hu => by simp [hu]) ?_ ?_
      · intro r _ hst
        by_cases hr : r ∈ sel
        · simp [hr] at hst
        · simp [hr] at hst ⊢; exact hst
      · intro h; simp [waitLive, hl, hc] at h
  | relWait t new obs n hl hh' hnew hn hsp =>
    refine invH_keep (t := t) hh (fun u hu => by simp [hu]) ?_ ?_
    · intro r _ hst
      by_cases hr : r = (s.thr t).r
      · subst hr; simpa using hst
      · simpa [hr] using hst
    · intro _ _ _; simp [waitLive]
  | relWait2 t new obs n hl hh' hnew hn hsp =>
    refine invH_keep (t := t) hh (fun u hu => by simp [hu]) (fun r _ hst => ⟨hst, rfl⟩) ?_
    intro _ _ _; simp [waitLive]
  | relSig t site new obs n hl hs hh' hnew hn hsp =>
    refine invH_keep (t := t) hh (fun u hu => by simp [hu]) (fun r _ hst => ⟨hst, rfl⟩) ?_
    intro h; simp [waitLive, hl] at h
  | relEnq t new obs n hl hh' hnew hn hsp =>
    refine invH_keep (t := t) hh (fun u hu => by simp [hu]) ?_ ?_
    · intro r _ hst
      by_cases hr : r = (s.thr t).r
      · subst hr; simpa using hst
      · simpa [hr] using hst
    · intro h; simp [waitLive, hl] at h
  | relDeq t new obs n hl hh' hnew hn hsp =>
    refine invH_keep (t := t) hh (fun u hu => by simp [hu]) ?_ ?_
    · intro r _ hst
      by_cases hr : r = (s.thr t).r
      · subst hr; exfalso; simp at hst; cases h0 : (s.recs (s.thr t).r).stat <;> simp [h0] at hst
      · simpa [hr] using hst
    · intro h; simp [waitLive, hl] at h
  | relDeqW t new obs n hl hh' hnew hn hsp =>
    refine invH_keep (t := t) hh (fun u hu => by simp [hu]) (fun r _ hst => ⟨hst, rfl⟩) ?_
    intro h; simp [waitLive, hl] at h
  | relDbg t new obs n hl hh' hnew hn hsp =>
    refine invH_keep (t := t) hh (fun u hu => by simp [hu]) (fun r _ hst => ⟨hst, rfl⟩) ?_
    intro h; simp [waitLive, hl] at h
  | wHeadExit t r y hy hl hr hw =>
    subst hy
    refine invH_keep (t := t) hh (fun u hu => by simp [hu]) ?_ ?_
    · intro q _ hst
      by_cases hq : q = r
      · subst hq; simp at hst
      · simpa [hq] using hst
    · intro _ _ h; rw [← hr] at h; simp at h
  | wCmpEq t r obs hl hr ho he =>
    refine invH_keep (t := t) hh (fun u hu => by simp [hu]) ?_ ?_
    · intro q _ hst
      by_cases hq : q = r
      · subst hq; simp at hst
      · simpa [hq] using hst
    · intro _ _ h; rw [← hr] at h; simp at h
  | deqLdQueued t r obs hl hr hw hq' =>
    refine invH_keep (t := t) hh (fun u hu => by simp [hu]) ?_ ?_
    · intro q _ hst
      by_cases hq : q = r
      · subst hq; simp at hst
      · simpa [hq] using hst
    · intro h; simp [waitLive, hl] at h
  | deqSpinExit t r hl hr hw =>
    refine invH_keep (t := t) hh (fun u hu => by simp [hu]) ?_ ?_
    · intro q _ hst
      by_cases hq : q = r
      · subst hq; exfalso; simp at hst; cases h0 : (s.recs q).stat <;> simp [h0] at hst
      · simpa [hq] using hst
    · intro h; simp [waitLive, hl] at h
  | wSt1 t r obs hl hm hst' =>
    refine invH_keep (t := t) hh (fun u hu => by simp [hu]) ?_ ?_
    · intro q _ hst
      by_cases hq : q = r
      · subst hq; simp at hst
      · simpa [hq] using hst
    · intro h; simp [waitLive, hl] at h
  | wClr t r obs hl hr =>
    refine invH_keep (t := t) hh (fun u hu => by simp [hu]) ?_ ?_
    · intro q _ hst
      by_cases hq : q = r
      · subst hq; simpa using hst
      · simpa [hq] using hst
    · intro _ _ _; simp [waitLive]
  | wake t r obs hl hr =>
    refine invH_keep (t := t) hh (fun u hu => by simp [hu]) ?_ ?_
    · intro q _ hst
      by_cases hq : q = r
      · subst hq
        simp at hst ⊢
        cases h0 : (s.recs q).stat <;> simp [h0] at hst ⊢
      · simpa [hq] using hst
    · intro h; simp [waitLive, hl] at h
  | enqSt t r obs hl hm hst' ho he =>
    refine invH_keep (t := t) hh (fun u hu => by simp [hu]) ?_ ?_
    · intro q hmq hst
      by_cases hq : q = r
      · subst hq; rw [hm] at hmq; cases hmq
      · simpa [hq] using hst
    · intro h; simp [waitLive, hl] at h
  | deqSt t r obs hl hr =>
    refine invH_keep (t := t) hh (fun u hu => by simp [hu]) ?_ ?_
    · intro q _ hst
      by_cases hq : q = r
      · subst hq; simpa using hst
      · simpa [hq] using hst
    · intro h; simp [waitLive, hl] at h
  | wRmCasOk t r exp new obs hl hr hn ho he =>
    refine invH_keep (t := t) hh (fun u hu => by simp [hu]) ?_ ?_
    · intro q _ hst
      by_cases hq : q = r
      · subst hq; simpa using hst
      · simpa [hq] using hst
    · intro _ _ _; simp [waitLive]
  | sRcCasOk t site r exp new obs hl hr hn ho he =>
    refine invH_keep (t := t) hh (fun u hu => by simp [hu]) ?_ ?_
    · intro q _ hst
      by_cases hq : q = r
      · subst hq; simpa using hst
      · simpa [hq] using hst
    · intro h; simp [waitLive, hl] at h
  | muMode t obs lt hl hlt =>
    refine invH_keep (t := t) hh (fun u hu => by simp [hu]) ?_ ?_
    · intro q _ hst
      by_cases hq : q = (s.thr t).r
      · subst hq; simpa using hst
      · simpa [hq] using hst
    · intro h; simp [waitLive, hl] at h
  | wwCasOk t exp new obs f rest hl hlist =>
    generalize transferSet s.recs (firstCantAcquire (s.recs f).lt exp) (s.thr t).list = xs
    refine invH_keep (t := t) hh (fun u hu => by simp [hu]) ?_ ?_
    · intro q _ hst
      by_cases hq : q ∈ xs
      · simp [hq] at hst
      · simp [hq] at hst ⊢; exact hst
    · intro h; simp [waitLive, hl] at h
  | semVWake t k r q hl hc =>
    refine invH_keep (t := t) hh (fun u hu => by simp [hu]) ?_ ?_
    · intro q' _ hst
      by_cases hq : q' = r
      · subst hq; simpa using hst
      · simpa [hq] using hst
    · intro h; simp [waitLive, hl] at h
  | semPdRetOkW t k hl =>
    refine invH_keep (t := t) hh (fun u hu => by simp [hu]) (fun r _ hst => ⟨hst, rfl⟩) ?_
    intro _ _ _; simp [waitLive]
  | semPdRetOkC t k hl =>
    refine invH_keep (t := t) hh (fun u hu => by simp [hu]) (fun r _ hst => ⟨hst, rfl⟩) ?_
    intro _ _ _; simp [waitLive]
  | wInit t r hl hm hst' =>
    refine invH_keep (t := t) hh (fun u _ => rfl) ?_ (fun h _ _ => ⟨h, rfl⟩)
    intro q _ hst
    by_cases hq : q = r
    · subst hq; simpa using hst
    · simpa [hq] using hst
  | nwInit t r hl hm hst' =>
    refine invH_keep (t := t) hh (fun u _ => rfl) ?_ (fun h _ _ => ⟨h, rfl⟩)
    intro q hmq hst
    by_cases hq : q = r
    · subst hq; rw [hm] at hmq; cases hmq
    · simpa [hq] using hst
  | fStW t r new hl hf =>
    refine invH_keep (t := t) hh (fun u _ => rfl) ?_ (fun h _ _ => ⟨h, rfl⟩)
    intro q _ hst
    by_cases hq : q = r
    · subst hq; simpa using hst
    · simpa [hq] using hst
  | fCasOk t r exp new obs hl hf hn ho he =>
    refine invH_keep (t := t) hh (fun u _ => rfl) ?_ (fun h _ _ => ⟨h, rfl⟩)
    intro q _ hst
    by_cases hq : q = r
    · subst hq; simpa using hst
    · simpa [hq] using hst

theorem invH_reachable {cfg : Config} {s : State} (h : Reachable cfg s) : InvH s := by
  have : Inv s ∧ InvH s := by
    refine reachable_induct (P := fun s => Inv s ∧ InvH s) ⟨⟨invA_init, invB_init⟩, invH_init⟩ ?_ s h
    intro s e s' hi htr
    have hb := invB_tr hi.1.a hi.1.b htr
    exact ⟨⟨invA_tr hi.1.a htr hb.nobad, hb⟩, invH_tr hi.1.a hi.2 htr⟩
  exact this.2

end NsyncVerif.CvFix
