/-
  Proofs/WaitNQStep4.lean — `QI ∧ CF` across counter_ready_time, cv_ready_time and the statements of wait.c
  between the waitable calls.
-/
import NsyncVerif.Proofs.WaitNQStep3

set_option linter.unusedSimpArgs false
set_option linter.unusedVariables false

namespace WaitN

/-- only frame fields that `CF` does not read change, the program counter moves to a plain point -/
theorem qcf_frame_plain {s : State} {t : Tid} {f' : Frame} {p' : PC} (c : QCtx s t) (hnop : opn (s.pc t) = false)
    (hc : inCall (s.pc t) = true) (h0 : dqIdx (s.pc t) (s.fr t) = 0)
    (hr : f'.recs = (s.fr t).recs) (hfrees : f'.frees = (s.fr t).frees)
    (hpl : Plain p' f') (hw1 : wk p' = none) (hd0 : dqIdx p' f' = 0) :
    QI ((s.setFr t f').setPc t p') ∧ CF ((s.setFr t f').setPc t p') t := by
  have hpost := post_none_of_pc c.qi hnop
  have hmc := mc_none_of_pc c.qi hnop
  have hw0 := wk_none_of_opn hnop
  refine ⟨qi_setPc (qi_setFr c.qi) hw0 hw1 hpost hmc,
          cf_plain (by simpa using hpl) ?_⟩
  intro _ hf0 k r hk
  simp only [setPc_fr, setFr_fr, if_true, setPc_pc, setPc_rcd, setFr_rcd] at hf0 hk ⊢
  rw [hr] at hk; rw [hfrees] at hf0
  rw [hd0, noneDeqd_of_cf c.cf hc hf0 h0 k r hk]; simp

theorem qcf_stepCtrRT {s s' : State} {t : Tid} {u : Use} {i : Nat} {l : Bool} {e : Ev} (c : QCtx s t)
    (hpc : s.pc t = .wCtrRT u i l) (h : stepCtrRT s t u i l e = .ok s') : QI s' ∧ CF s' t := by
  have hl : LInv (.wCtrRT u i l) (s.fr t) := hpc ▸ c.linv t
  have hc : inCall (s.pc t) = true := by rw [hpc]; rfl
  have hnop : opn (s.pc t) = false := by rw [hpc]; rfl
  have hpost := post_none_of_pc c.qi hnop
  have hmc := mc_none_of_pc c.qi hnop
  have hw0 := wk_none_of_opn hnop
  have hlen := len_of_linv (c.linv t) hc (by rw [hpc]; rfl)
  have h0 : dqIdx (s.pc t) (s.fr t) = 0 := by rw [hpc]; cases u <;> rfl
  unfold stepCtrRT at h
  split at h
  · dsimp only at h
    split at h
    · split at h
      · cases h
        refine ⟨qi_setPc (qi_setWaited c.qi) hw0 rfl hpost hmc,
                cf_plain (plain_of_pc (p := .wCtrRT u i true) (by simp) ⟨rfl, rfl, rfl, rfl⟩) ?_⟩
        intro _ hf0 k r hk
        simp only [setPc_fr, setObj_fr, setPc_pc, if_true, setPc_rcd, setObj_rcd] at hf0 hk ⊢
        have : dqIdx (PC.wCtrRT u i true) (s.fr t) = 0 := by cases u <;> rfl
        rw [this, noneDeqd_of_cf c.cf hc hf0 h0 k r hk]; simp
      · simp at h
    · split at h
      · refine qcf_rtDone c ?_ hc hnop h0 hlen.1 hlen.2 ?_ h
        · intro hu; subst hu; exact hl.elim
        · intro hu; subst hu; exact hl.1.recs
      · simp at h
    · exact qcf_dflt c h
  · simp at h

theorem qcf_stepCvRT {s s' : State} {t : Tid} {j : Nat} {e : Ev} (c : QCtx s t)
    (hpc : s.pc t = .wCvRT j) (h : stepCvRT s t j e = .ok s') : QI s' ∧ CF s' t := by
  have hc : inCall (s.pc t) = true := by rw [hpc]; rfl
  have hnop : opn (s.pc t) = false := by rw [hpc]; rfl
  have hpost := post_none_of_pc c.qi hnop
  have hmc := mc_none_of_pc c.qi hnop
  have hw0 := wk_none_of_opn hnop
  have hlen := len_of_linv (c.linv t) hc (by rw [hpc]; rfl)
  unfold stepCvRT at h
  split at h
  · split at h
    · exact qcf_rtDone c (by simp) hc hnop (by rw [hpc]; rfl) hlen.1 hlen.2 (fun hx => by cases hx) h
    · simp at h
  · exact qcf_dflt c h

theorem qcf_stepAlloc {s s' : State} {t : Tid} {e : Ev} (c : QCtx s t)
    (hpc : s.pc t = .wAlloc) (h : stepAlloc s t e = .ok s') : QI s' ∧ CF s' t := by
  have hl : LInv .wAlloc (s.fr t) := hpc ▸ c.linv t
  have hc : inCall (s.pc t) = true := by rw [hpc]; rfl
  have hnop : opn (s.pc t) = false := by rw [hpc]; rfl
  have hpost := post_none_of_pc c.qi hnop
  have hmc := mc_none_of_pc c.qi hnop
  have hw0 := wk_none_of_opn hnop
  unfold stepAlloc at h
  split_ok h
  all_goals first
    | exact qcf_dflt c h
    | (cases h
       refine qcf_frame_plain c hnop hc (by rw [hpc]; rfl) rfl rfl (plain_enqNext _ _ _)
         (wk_none_of_inCall (inCall_enqNext _ _ _)) (dqIdx_enqNext _ _ _ ?_)
       simp [hl.1.recs])

theorem qcf_stepUnlockMu {s s' : State} {t : Tid} {e : Ev} (c : QCtx s t)
    (hpc : s.pc t = .wUnlock) (h : stepUnlockMu s t e = .ok s') : QI s' ∧ CF s' t := by
  have hl : LInv .wUnlock (s.fr t) := hpc ▸ c.linv t
  have hc : inCall (s.pc t) = true := by rw [hpc]; rfl
  have hnop : opn (s.pc t) = false := by rw [hpc]; rfl
  have hpost := post_none_of_pc c.qi hnop
  have hmc := mc_none_of_pc c.qi hnop
  have hw0 := wk_none_of_opn hnop
  unfold stepUnlockMu at h
  split_ok h
  all_goals first
    | exact qcf_dflt c h
    | (cases h
       refine qcf_frame_plain c hnop hc (by rw [hpc]; rfl) rfl rfl (plain_loopNext _ _)
         (wk_none_of_inCall (inCall_loopNext _ _)) (dqIdx_loopNext _ _ ?_)
       exact hl.1.len)

theorem qcf_stepPdEnter {s s' : State} {t : Tid} {e : Ev} (c : QCtx s t)
    (hpc : s.pc t = .wPdEnter) (h : stepPdEnter s t e = .ok s') : QI s' ∧ CF s' t := by
  have hc : inCall (s.pc t) = true := by rw [hpc]; rfl
  have hnop : opn (s.pc t) = false := by rw [hpc]; rfl
  have hpost := post_none_of_pc c.qi hnop
  have hmc := mc_none_of_pc c.qi hnop
  have hw0 := wk_none_of_opn hnop
  unfold stepPdEnter at h
  split_ok h
  all_goals first
    | exact qcf_dflt c h
    | (rename_i s1 hb
       cases h
       have k := keeps_bindSem (t := t) hb
       have hsh : s1.obj = s.obj ∧ s1.rcd = s.rcd := by
         unfold bindSem at hb; split_ok hb; all_goals (cases hb; try exact ⟨rfl, rfl⟩)
       have hq1 := qi_bindSem c.qi hb
       have hpo : s1.post = s.post ∧ s1.mc = s.mc := by
         unfold bindSem at hb; split_ok hb; all_goals (cases hb; try exact ⟨rfl, rfl⟩)
       refine ⟨qi_setPc hq1 (by rw [k.1]; exact hw0) rfl
                 (by rw [hpo.1]; exact hpost) (by rw [hpo.2]; exact hmc), ?_⟩
       have hcf1 : CF s1 t := cf_congr c.cf k.1 k.2 hsh.1 hsh.2
       rename_i jj _ _ _
       have : CF (s1.setPc t (.wPdWait jj)) t := by
         refine cf_plain (plain_of_pc (p := .wPdWait jj) (by simp) ⟨rfl, rfl, rfl, rfl⟩) ?_
         intro _ hf0 k' r hk
         simp only [setPc_fr, setPc_pc, if_true, setPc_rcd] at hf0 hk ⊢
         have := hcf1.dq (by rw [k.1]; exact hc) hf0 k' r hk
         rw [k.1, hpc] at this
         exact this
       exact this)

theorem qcf_stepPdWait {s s' : State} {t : Tid} {j : SemId} {e : Ev} (c : QCtx s t)
    (hpc : s.pc t = .wPdWait j) (h : stepPdWait s t j e = .ok s') : QI s' ∧ CF s' t := by
  have hl : LInv (.wPdWait j) (s.fr t) := hpc ▸ c.linv t
  have hc : inCall (s.pc t) = true := by rw [hpc]; rfl
  have hnop : opn (s.pc t) = false := by rw [hpc]; rfl
  have hpost := post_none_of_pc c.qi hnop
  have hmc := mc_none_of_pc c.qi hnop
  have hw0 := wk_none_of_opn hnop
  have h0 : dqIdx (s.pc t) (s.fr t) = 0 := by rw [hpc]; rfl
  unfold stepPdWait at h
  dsimp only at h
  split at h
  · split at h
    · split at h
      · split at h
        · cases h
          refine qcf_frame_plain c hnop hc h0 rfl rfl (plain_deqNext _ _)
            (wk_none_of_inCall (inCall_deqNext _ _)) (dqIdx_deqNext (Nat.zero_le _) ?_)
          exact hl.1.len
        · simp at h
      · split at h
        · simp at h
        · cases h
          have hnd := noneDeqd_of_cf c.cf hc hl.1.frees h0
          exact qcf_startScan (s := s.setSem _ _) (qi_setSem c.qi) hnd hw0
            hpost hmc hl.1.len
    · simp at h
  all_goals first
    | exact qcf_dflt c h
    | simp at h

theorem qcf_stepRelock {s s' : State} {t : Tid} {e : Ev} (c : QCtx s t)
    (hpc : s.pc t = .wRelock) (h : stepRelock s t e = .ok s') : QI s' ∧ CF s' t := by
  have hc : inCall (s.pc t) = true := by rw [hpc]; rfl
  have hnop : opn (s.pc t) = false := by rw [hpc]; rfl
  have hpost := post_none_of_pc c.qi hnop
  have hmc := mc_none_of_pc c.qi hnop
  have hw0 := wk_none_of_opn hnop
  unfold stepRelock at h
  split_ok h
  all_goals first
    | exact qcf_dflt c h
    | (cases h
       refine ⟨qi_setPc (qi_setFr c.qi) hw0 rfl hpost
                 hmc,
               cf_plain (plain_of_pc (p := .wRet (s.fr t).ready) (by simp) ⟨rfl, rfl, rfl, rfl⟩) ?_⟩
       intro _ hf0 k r hk
       simp only [setPc_fr, setFr_fr, setPc_pc, if_true, setPc_rcd, setFr_rcd] at hf0 hk ⊢
       have := c.cf.dq hc hf0 k r hk
       rw [hpc] at this
       exact this)

end WaitN
