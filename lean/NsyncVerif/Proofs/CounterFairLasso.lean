/-
  Proofs/CounterFairLasso.lean — Counter layer: lassos (a finite accepted trace, then a loop repeated
  for ever) as executions; used by the necessity witnesses of `Props/C10Fair.lean`.
-/
import NsyncVerif.Proofs.CounterFairTrace

namespace Counter

theorem run_append (a b : List Event) (s : State) :
    run s (a ++ b) = match run s a with | .ok s1 => run s1 b | .error m => .error m := by
  induction a generalizing s with
  | nil => rfl
  | cons e es ih =>
    simp only [List.cons_append, run]
    cases hs : step s e with
    | ok s1 => simp only [ih]
    | error m => rfl

/-- The state after `evs` from `s` (`s` itself if the events are not accepted). -/
def stateFrom (s : State) (evs : List Event) : State :=
  match run s evs with
  | .ok s' => s'
  | .error _ => s

theorem stateFrom_ok {s sf : State} {evs : List Event} (h : run s evs = .ok sf) (i : Nat) :
    run s (evs.take i) = .ok (stateFrom s (evs.take i)) := by
  have : run s (evs.take i ++ evs.drop i) = .ok sf := by rw [List.take_append_drop]; exact h
  obtain ⟨s1, h1, _⟩ := run_append_ok _ _ _ _ this
  simp only [stateFrom, h1]

theorem stateFrom_step {s sf : State} {evs : List Event} (h : run s evs = .ok sf) {i : Nat}
    (hi : i < evs.length) :
    step (stateFrom s (evs.take i)) evs[i] = .ok (stateFrom s (evs.take (i + 1))) := by
  have he : evs[i]? = some evs[i] := List.getElem?_eq_getElem hi
  have e : evs.take (i + 1) = evs.take i ++ [evs[i]] := by rw [List.take_add_one, he]; rfl
  have h1 := stateFrom_ok h (i + 1)
  rw [e] at h1 ⊢
  exact run_append_one (stateFrom_ok h i) h1

/-- A lasso: `evs`, then `loop` repeated for ever, where `loop` takes the state `sf` reached by `evs`
    back to `sf`. -/
def lassoExec (evs loop : List Event) (sf : State)
    (h : run init evs = .ok sf) (hl : run sf loop = .ok sf) (hp : 0 < loop.length) : Exec init :=
  { ρ := fun i => if i < evs.length then stateAt evs i
                  else stateFrom sf (loop.take ((i - evs.length) % loop.length))
    σ := fun i => if i < evs.length then evs[i]? else loop[(i - evs.length) % loop.length]?
    start := by
      by_cases h0 : 0 < evs.length
      · simp [h0, stateAt, run]
      · have : evs = [] := by cases evs <;> simp_all
        subst this; simp [run] at h; subst h; simp [stateFrom, run]
    next := by
      intro i
      have hsf0 : stateFrom sf (loop.take 0) = sf := by simp [stateFrom, run]
      by_cases hi : i < evs.length
      · have he : evs[i]? = some evs[i] := List.getElem?_eq_getElem hi
        simp only [hi, if_true, he]
        have hs : step (stateAt evs i) evs[i] = .ok (stateAt evs (i + 1)) := by
          have h1 := stateAt_ok h (i + 1)
          rw [List.take_add_one, he, Option.toList] at h1
          exact run_append_one (stateAt_ok h i) h1
        by_cases hi' : i + 1 < evs.length
        · simp only [hi', if_true]; exact hs
        · have : i + 1 - evs.length = 0 := by omega
          simp only [hi', if_false, this, Nat.zero_mod, hsf0]
          rw [← stateAt_ge h (show evs.length ≤ i + 1 by omega)]; exact hs
      · have hi' : ¬ i + 1 < evs.length := by omega
        simp only [hi, hi', if_false]
        have hr : (i - evs.length) % loop.length < loop.length := Nat.mod_lt _ hp
        have he : loop[(i - evs.length) % loop.length]? = some loop[(i - evs.length) % loop.length] :=
          List.getElem?_eq_getElem hr
        simp only [he]
        have hs := stateFrom_step hl hr
        have hsucc : i + 1 - evs.length = (i - evs.length) + 1 := by omega
        by_cases hwrap : (i - evs.length) % loop.length + 1 = loop.length
        · have : (i + 1 - evs.length) % loop.length = 0 := by
            rw [hsucc, Nat.add_mod]
            have : (i - evs.length) % loop.length = loop.length - 1 := by omega
            rw [this]
            by_cases h1 : loop.length = 1
            · rw [h1]
            · rw [Nat.mod_eq_of_lt (show 1 < loop.length by omega)]
              rw [show loop.length - 1 + 1 = loop.length by omega, Nat.mod_self]
          rw [this, hsf0]
          rw [hwrap, List.take_of_length_le (Nat.le_refl _)] at hs
          have : stateFrom sf loop = sf := by simp [stateFrom, hl]
          rw [this] at hs; exact hs
        · have : (i + 1 - evs.length) % loop.length = (i - evs.length) % loop.length + 1 := by
            rw [hsucc, Nat.add_mod]
            by_cases h1 : loop.length = 1
            · omega
            · rw [Nat.mod_eq_of_lt (show 1 < loop.length by omega)]
              exact Nat.mod_eq_of_lt (by omega)
          rw [this]; exact hs }

theorem lassoExec_tail {evs loop : List Event} {sf : State}
    (h : run init evs = .ok sf) (hl : run sf loop = .ok sf) (hp : 0 < loop.length) {j : Nat}
    (hj : evs.length ≤ j) :
    (lassoExec evs loop sf h hl hp).ρ j = stateFrom sf (loop.take ((j - evs.length) % loop.length)) ∧
    (lassoExec evs loop sf h hl hp).σ j = loop[(j - evs.length) % loop.length]? := by
  have : ¬ j < evs.length := by omega
  simp [lassoExec, this]

theorem lasso_pos {evs loop : List Event} {sf : State}
    (h : run init evs = .ok sf) (hl : run sf loop = .ok sf) (hp : 0 < loop.length) (m : Nat) {r : Nat}
    (hr : r < loop.length) :
    (lassoExec evs loop sf h hl hp).ρ (evs.length + loop.length * m + r) = stateFrom sf (loop.take r) ∧
    (lassoExec evs loop sf h hl hp).σ (evs.length + loop.length * m + r) = loop[r]? := by
  have h1 := lassoExec_tail h hl hp (j := evs.length + loop.length * m + r) (by omega)
  have h2 : (evs.length + loop.length * m + r - evs.length) % loop.length = r := by
    rw [show evs.length + loop.length * m + r - evs.length = loop.length * m + r by omega,
      Nat.mul_add_mod, Nat.mod_eq_of_lt hr]
  rw [h2] at h1; exact h1

theorem stateFrom_nil (s : State) : stateFrom s (([] : List Event)) = s := by simp [stateFrom, run]

/-- weak fairness of a lasso: every thread, at some position of the loop, is idle, is blocked, or
    moves -/
theorem lasso_weakFair {evs loop : List Event} {sf : State}
    (h : run init evs = .ok sf) (hl : run sf loop = .ok sf) (hp : 0 < loop.length)
    (hc : ∀ t, ∃ r, r < loop.length ∧ ((stateFrom sf (loop.take r)).pc t = .idle
        ∨ Blocked (stateFrom sf (loop.take r)) t
        ∨ (stateFrom sf (loop.take ((r + 1) % loop.length))).pc t ≠ (stateFrom sf (loop.take r)).pc t)) :
    WeakFair (lassoExec evs loop sf h hl hp) := by
  intro t i hyp
  obtain ⟨r, hr, hcase⟩ := hc t
  have hge : i ≤ evs.length + loop.length * i + r := by
    have : i ≤ loop.length * i := Nat.le_mul_of_pos_left i hp
    omega
  have hρ := (lasso_pos h hl hp i hr).1
  rcases hcase with h1 | h1 | h1
  · exact absurd (by rw [hρ]; exact h1) (hyp _ hge).1
  · exact absurd (by rw [hρ]; exact h1) (hyp _ hge).2
  · refine ⟨evs.length + loop.length * i + r, hge, ?_⟩
    unfold Moves
    rw [hρ]
    by_cases hw : r + 1 < loop.length
    · rw [Nat.mod_eq_of_lt hw] at h1
      rw [show evs.length + loop.length * i + r + 1 = evs.length + loop.length * i + (r + 1) by omega,
        (lasso_pos h hl hp i hw).1]
      exact h1
    · have : r + 1 = loop.length := by omega
      rw [this, Nat.mod_self] at h1
      rw [show evs.length + loop.length * i + r + 1 = evs.length + loop.length * (i + 1) + 0 by
        rw [Nat.mul_add]; omega, (lasso_pos h hl hp (i + 1) hp).1]
      exact h1

theorem idle_of_bound {evs : List Event} {s sf : State} (hr : Reachable s) (h : run s evs = .ok sf) (B : Nat)
    (hb : evs.all (fun e => match e.tidOf with | some u => decide (u < B) | none => true) = true)
    {t : Tid} (ht : ¬ t < B) : sf.pc t = s.pc t := by
  have hne : ∀ e ∈ evs, e.tidOf ≠ some t := by
    intro e he htid
    simp only [List.all_eq_true] at hb
    have := hb e he
    rw [htid] at this
    exact ht (by simpa using this)
  exact run_untouched evs s sf hr hne h

/-- in a lasso, a thread that occurs neither in the stem nor in the loop is idle at every loop position -/
theorem lasso_idle {evs loop : List Event} {sf : State} (h : run init evs = .ok sf)
    (hl : run sf loop = .ok sf) (B : Nat)
    (hb1 : evs.all (fun e => match e.tidOf with | some u => decide (u < B) | none => true) = true)
    (hb2 : loop.all (fun e => match e.tidOf with | some u => decide (u < B) | none => true) = true)
    {t : Tid} (ht : ¬ t < B) (r : Nat) : (stateFrom sf (loop.take r)).pc t = .idle := by
  have h1 : sf.pc t = .idle := idle_of_bound reachable_init h B hb1 ht
  have h2 := idle_of_bound (s := sf) ⟨evs, h⟩ (stateFrom_ok hl r) B (by
    simp only [List.all_eq_true] at hb2 ⊢
    exact fun e he => hb2 e (List.mem_of_mem_take he)) ht
  rw [h2, h1]

end Counter
