import NsyncVerif.Proofs.MuCInv6
/-
  MuC, ring invariant: the plain code of the scan of unlock_slow (`pickup`, `scanRun`, `afterPickup`,
  `afterEval`) preserves the chains of mu->waiters and of the unlocker's private lists.
-/
namespace NsyncVerif.MuC

/-- The chains as the scanning thread sees them (locals `sc`). -/
structure ChainsS (s : State) (sc : Scan) : Prop where
  cq : Chain s.wr s.queue
  cd : Chain s.wr sc.done
  cp : Chain s.wr (sc.passed ++ sc.todo)
  nd : (s.queue ++ (sc.done ++ (sc.passed ++ sc.todo))).Nodup
  off : ∀ x, (s.wr x).lnk = true → x ∈ s.queue ++ (sc.done ++ (sc.passed ++ sc.todo))
  ce : CeSound s.wr

/-- … and at the program point where the plain code stops. -/
def ChainsAt (s' : State) (t : Tid) : Prop :=
  Chain s'.wr s'.queue ∧
  (∀ sc', (s'.pc t).scan? = some sc' → Chain s'.wr sc'.done ∧ Chain s'.wr (sc'.passed ++ sc'.todo)) ∧
  (∀ x, (s'.wr x).lnk = true → x ∈ s'.queue ++ (s'.pc t).priv)

theorem ChainsS.congr {s : State} {sc sc1 : Scan} (h : ChainsS s sc) (hd : sc1.done = sc.done)
    (hp : sc1.passed ++ sc1.todo = sc.passed ++ sc.todo) : ChainsS s sc1 :=
  ⟨h.cq, by rw [hd]; exact h.cd, by rw [hp]; exact h.cp, by rw [hd, hp]; exact h.nd, by rw [hd, hp]; exact h.off, h.ce⟩

theorem ChainsS.congr_state {s s2 : State} {sc : Scan} (h : ChainsS s sc) (hw : s2.wr = s.wr) (hq : s2.queue = s.queue) :
    ChainsS s2 sc :=
  ⟨by rw [hw, hq]; exact h.cq, by rw [hw]; exact h.cd, by rw [hw]; exact h.cp, by rw [hq]; exact h.nd,
   by rw [hw, hq]; exact h.off, by rw [hw]; exact h.ce⟩

theorem ChainsS.congr_wr {s s2 : State} {sc : Scan} (h : ChainsS s sc)
    (hw : ∀ x, (s2.wr x).lnk = (s.wr x).lnk ∧ (s2.wr x).cond = (s.wr x).cond) (hq : s2.queue = s.queue) : ChainsS s2 sc := by
  have hcg : ∀ l, Chain s.wr l → Chain s2.wr l := fun l hl => chain_congr (fun x _ => (hw x).2) (fun x _ => (hw x).1) hl
  exact ⟨by rw [hq]; exact hcg _ h.cq, hcg _ h.cd, hcg _ h.cp, by rw [hq]; exact h.nd,
    by intro x hx; rw [(hw x).1] at hx; rw [hq]; exact h.off x hx, CeSound.of_cond (fun x => (hw x).2) h.ce⟩

theorem chainsAt_stop {s : State} {sc : Scan} (h : ChainsS s sc) (t : Tid) (p : PC) (hp : p.scan? = some sc) :
    ChainsAt (setPc s t p) t := by
  refine ⟨h.cq, ?_, ?_⟩
  · intro sc' hs
    simp only [setPc_pc, setFn_same, hp, Option.some.injEq] at hs
    subst hs; exact ⟨h.cd, h.cp⟩
  · intro x hx
    have := h.off x hx
    simp only [setPc_pc, setFn_same, PC.priv, hp, Scan.lists, setPc_queue]
    simpa [List.append_assoc] using this

theorem pickup_chains {s : State} {sc : Scan} (h : ChainsS s sc) :
    (∀ s1, pickup s sc = (s1, none) → Chain s1.wr s1.queue ∧ ∀ x, (s1.wr x).lnk = true → x ∈ s1.queue) ∧
    (∀ s1 sc2, pickup s sc = (s1, some sc2) → ChainsS s1 sc2) := by
  have h1 := List.nodup_append.mp h.nd
  have hndl : (sc.done ++ (sc.passed ++ sc.todo)).Nodup := h1.2.1
  have hdisj : ∀ a, a ∈ s.queue → ∀ b, b ∈ sc.done ++ (sc.passed ++ sc.todo) → a ≠ b := h1.2.2
  have K1 : Chain (mergeLinks s sc.done.getLast? (sc.passed ++ sc.todo).head?).wr (sc.done ++ (sc.passed ++ sc.todo)) :=
    chain_append_merge hndl h.cd h.cp h.ce
  have K2 : Chain (mergeLinks s sc.done.getLast? (sc.passed ++ sc.todo).head?).wr s.queue := by
    refine chain_mergeLinks_other ?_ h.cq
    intro a ha e
    exact hdisj a e a (List.mem_append_left _ (List.mem_of_getLast? ha)) rfl
  have K3 : ∀ x, ((mergeLinks s sc.done.getLast? (sc.passed ++ sc.todo).head?).wr x).lnk = true →
      x ∈ s.queue ++ (sc.done ++ (sc.passed ++ sc.todo)) := by
    intro x hx
    by_cases hxp : sc.done.getLast? = some x
    · exact List.mem_append_right _ (List.mem_append_left _ (List.mem_of_getLast? hxp))
    · rw [mergeLinks_wr_other _ _ _ x hxp] at hx; exact h.off x hx
  constructor
  · intro s1 hs
    unfold pickup at hs
    dsimp only at hs
    split at hs
    · rename_i hq
      simp only [Prod.mk.injEq, and_true] at hs
      subst hs
      refine ⟨K1, ?_⟩
      intro x hx
      have := K3 x hx
      rw [hq] at this
      simpa using this
    · simp at hs
  · intro s1 sc2 hs
    unfold pickup at hs
    dsimp only at hs
    split at hs
    · simp at hs
    · rename_i p q hq
      simp only [Prod.mk.injEq, Option.some.injEq] at hs
      obtain ⟨rfl, rfl⟩ := hs
      refine ⟨by simp [Chain], K1, ?_, ?_, ?_, ?_⟩
      · simp only [List.nil_append]; rw [← hq]; exact K2
      · simp only [List.nil_append]
        rw [← hq]
        exact (List.Perm.nodup_iff List.perm_append_comm).1 h.nd
      · intro x hx
        have := K3 x hx
        simp only [List.nil_append]
        rw [← hq]
        simp only [List.mem_append] at this ⊢
        rcases this with a | a | a | a
        · exact Or.inr a
        · exact Or.inl (Or.inl a)
        · exact Or.inl (Or.inr (Or.inl a))
        · exact Or.inl (Or.inr (Or.inr a))
      · exact CeSound.of_cond (mergeLinks_cond _ _ _) h.ce

/-- `toFin` after a `pickup` that found nothing new. -/
theorem chainsAt_fin {s1 : State} (t : Tid) (r : Ret) (sc : Scan) (h : Chain s1.wr s1.queue)
    (hoff : ∀ x, (s1.wr x).lnk = true → x ∈ s1.queue) : ChainsAt (toFin s1 t r sc) t := by
  refine ⟨h, ?_, ?_⟩
  · intro sc' hs; simp [toFin, PC.scan?] at hs
  · intro x hx
    simp only [toFin, setPc_pc, setFn_same, PC.priv, PC.scan?, List.append_nil, setPc_queue]
    exact hoff x hx

theorem chainsAt_remove {s : State} {sc sc' : Scan} {k : Wid} (h : ChainsS s sc) (t : Tid) (r : Ret)
    (hd : sc'.done = sc.done) (hp : sc'.passed ++ k :: sc'.todo = sc.passed ++ sc.todo) :
    ChainsAt (setPc (removeLinks s sc'.passed.getLast? k sc'.todo.head?) t (.usRcLd r sc' k)) t := by
  obtain ⟨a, b, c, d, _⟩ := chains_remove (q := s.queue) (d := sc.done) (l1 := sc'.passed) (l2 := sc'.todo) (k := k)
    h.cq h.cd (by rw [hp]; exact h.cp) (by rw [hp]; exact h.nd) (by rw [hp]; exact h.off) h.ce
  refine ⟨by simpa using a, ?_, ?_⟩
  · intro sc2 hs
    simp only [setPc_pc, setFn_same, PC.scan?, Option.some.injEq] at hs
    subst hs
    exact ⟨by rw [hd]; simpa using b, by simpa using c⟩
  · intro x hx
    have := d x (by simpa using hx)
    simp only [setPc_pc, setFn_same, PC.priv, PC.scan?, Scan.lists, setPc_queue, removeLinks_queue, hd]
    simpa [List.append_assoc] using this

theorem scanRun_chains : ∀ (n : Nat) (s : State) (t : Tid) (r : Ret) (sc : Scan) (s' : State),
    scanRun n s t r sc = .ok s' → ChainsS s sc → ChainsAt s' t := by
  intro n
  induction n with
  | zero => intro s t r sc s' h; simp [scanRun] at h
  | succ n ih =>
    intro s t r sc s' h hc
    unfold scanRun at h
    have hsp := scanGo_lists s.wr sc.todo sc
    split at h
    · cases h
    · rename_i k sc' heq
      rw [heq] at hsp
      simp only [Except.ok.injEq] at h; subst h
      obtain ⟨h1, _, h3, _, _⟩ := hsp
      exact chainsAt_stop (hc.congr h1 h3) t _ rfl
    · rename_i k sc' heq
      rw [heq] at hsp
      simp only [Except.ok.injEq] at h; subst h
      obtain ⟨h1, h2, _⟩ := hsp
      exact chainsAt_remove hc t r h1 h2
    · rename_i sc' heq
      rw [heq] at hsp
      obtain ⟨h1, _, h3⟩ := hsp
      have hc' : ChainsS s sc' := hc.congr h1 h3
      split at h
      · simp only [Except.ok.injEq] at h; subst h
        exact chainsAt_stop hc' t _ rfl
      · obtain ⟨pn, ps⟩ := pickup_chains hc'
        split at h
        · rename_i s1 hp
          simp only [Except.ok.injEq] at h; subst h
          obtain ⟨a, b⟩ := pn s1 hp
          exact chainsAt_fin t r sc' a b
        · rename_i s1 sc2 hp
          have hc2 := ps s1 sc2 hp
          split at h
          · simp only [Except.ok.injEq] at h; subst h
            exact chainsAt_stop hc2 t _ rfl
          · exact ih _ t r sc2 s' h hc2

theorem afterPickup_chains {s : State} {sc0 : Scan} {t : Tid} {r : Ret} {s' : State}
    (h : afterPickup (pickup s sc0) t r sc0 = .ok s') (hc : ChainsS s sc0) : ChainsAt s' t := by
  obtain ⟨pn, ps⟩ := pickup_chains hc
  unfold afterPickup at h
  split at h
  · rename_i s1 hp
    simp only [Except.ok.injEq] at h; subst h
    obtain ⟨a, b⟩ := pn s1 hp
    exact chainsAt_fin t r sc0 a b
  · rename_i s1 sc2 hp
    have hc2 := ps s1 sc2 hp
    split at h
    · simp only [Except.ok.injEq] at h; subst h
      exact chainsAt_stop hc2 t _ rfl
    · exact scanRun_chains _ _ t r sc2 s' h hc2

theorem afterEval_chains {s : State} {sc : Scan} {t : Tid} {r : Ret} {res : Bool} {s' : State}
    (h : afterEval s t r sc res = .ok s') (hc : ChainsS s sc) : ChainsAt s' t := by
  unfold afterEval at h
  split at h
  · cases h
  · rename_i k rest hk
    split at h
    · refine scanRun_chains 3 s t r _ s' h (hc.congr rfl ?_)
      simp only [skipPast_append, hk]
    · by_cases hw : sc.wt = none ∨ (s.wr k).lType = .R
      · simp only [wakeOrPass, hw, if_true, Except.ok.injEq] at h
        subst h
        exact chainsAt_remove (sc' := { sc with todo := rest, wake := sc.wake ++ [k], wt := some (s.wr k).lType }) hc t r rfl (by simp [hk])
      · simp only [wakeOrPass, hw, if_false] at h
        refine scanRun_chains 3 s t r _ s' h (hc.congr rfl ?_)
        simp [hk]

/-! ### from / to the invariant -/

theorem Inv6.chainsS {s : State} (h : Inv6 s) (h4 : Inv4 s) {t : Tid} {sc : Scan} (hsc : (s.pc t).scan? = some sc) :
    ChainsS s sc := by
  have hnd := h4.nd t
  simp only [allOf, PC.priv, hsc, Scan.lists] at hnd
  refine ⟨h.cq, (h.cs t sc hsc).1, (h.cs t sc hsc).2, ?_, ?_, h.ce⟩
  · have := (List.nodup_append.mp hnd).1
    simpa [List.append_assoc] using this
  · intro x hx
    rcases h.off x hx with e | ⟨u, sc', h1, h2⟩
    · exact List.mem_append_left _ e
    · have := h4.uniq u t (unl_of_scan h1) (unl_of_scan hsc)
      subst this
      rw [hsc] at h1; cases h1
      simp only [Scan.lists] at h2
      apply List.mem_append_right
      simpa [List.append_assoc] using h2

/-- No unlocker is scanning: the scan about to start has empty locals. -/
theorem Inv6.chainsS0 {s : State} (h : Inv6 s) (h4 : Inv4 s) (hno : ∀ u, (s.pc u).unl = false) {sc0 : Scan}
    (hd : sc0.done = []) (hp : sc0.passed = []) (ht : sc0.todo = []) : ChainsS s sc0 := by
  have hnd := h4.nd 0
  simp only [allOf, List.append_assoc] at hnd
  refine ⟨h.cq, by rw [hd]; simp [Chain], by rw [hp, ht]; simp [Chain], ?_, ?_, h.ce⟩
  · rw [hd, hp, ht]; simpa using (List.nodup_append.mp hnd).1
  · intro x hx
    rcases h.off x hx with e | ⟨u, sc', h1, _⟩
    · exact List.mem_append_left _ e
    · have := unl_of_scan h1; rw [hno u] at this; cases this

/-- A step of `t` that ends in the plain code of the scan. -/
theorem Inv6.of_chainsAt {s s' : State} (t : Tid) (h : Inv6 s) (hat : ChainsAt s' t)
    (hcond : ∀ x, (s'.wr x).cond = (s.wr x).cond) (hca : s'.cargs = s.cargs)
    (hpc : ∀ u, u ≠ t → s'.pc u = s.pc u) (hoth : ∀ u, u ≠ t → (s.pc u).unl = false)
    (hmw : (s'.pc t).mw = (s.pc t).mw) : Inv6 s' := by
  obtain ⟨a, b, c⟩ := hat
  refine ⟨a, ?_, ?_, ?_, ?_⟩
  · intro u sc hu
    by_cases e : u = t
    · subst e; exact b sc hu
    · rw [hpc u e] at hu
      have := unl_of_scan hu; rw [hoth u e] at this; cases this
  · intro k hk
    have := c k hk
    simp only [List.mem_append] at this
    rcases this with e | e
    · exact Or.inl e
    · obtain ⟨sc, h1, h2⟩ := mem_priv_iff.1 e
      exact Or.inr ⟨t, sc, h1, h2⟩
  · intro k; rw [hcond, hca]; exact h.cwr k
  · intro u c' hc
    rw [hca]
    by_cases e : u = t
    · subst e; rw [hmw] at hc; exact h.cmw u c' hc
    · rw [hpc u e] at hc; exact h.cmw u c' hc

end NsyncVerif.MuC
