/-
  Futex layer (C12): the abstract counting semaphore and the simulation `abs s = ⟨word, now⟩`.
-/
import NsyncVerif.Proofs.FutexInv

namespace NsyncVerif.Futex

/-! ### The abstract counting semaphore (specification used by the layers above) -/

structure AState where
  count : Nat
  now : Nat
  deriving DecidableEq, Repr

def AState.init : AState := ⟨0, 0⟩

inductive ALabel where
  | tau                    -- stutter
  | post                   -- V: count+1            (at the successful CAS of V)
  | take                   -- P success: count-1    (at the successful CAS of P / P_with_deadline)
  | timeout (d : Nat)      -- P_with_deadline gives up: count unchanged, d ≤ now
  | tick (ns : Nat)        -- clock advances
  deriving DecidableEq, Repr

inductive AStep : AState → ALabel → AState → Prop where
  | tau (a : AState) : AStep a .tau a
  | post (c n : Nat) : AStep ⟨c, n⟩ .post ⟨c + 1, n⟩
  | take (c n : Nat) : AStep ⟨c + 1, n⟩ .take ⟨c, n⟩          -- only enabled when count > 0
  | timeout (c n d : Nat) : d ≤ n → AStep ⟨c, n⟩ (.timeout d) ⟨c, n⟩
  | tick (c n ns : Nat) : n ≤ ns → AStep ⟨c, n⟩ (.tick ns) ⟨c, ns⟩

inductive ARun : AState → List ALabel → AState → Prop where
  | nil (a : AState) : ARun a [] a
  | cons {a b c : AState} {l : ALabel} {ls : List ALabel} :
      AStep a l b → ARun b ls c → ARun a (l :: ls) c

/-- Abstraction function: the count is the futex word. -/
def State.abs (s : State) : AState := ⟨s.word, s.now⟩

/-- The abstract action a concrete event stands for. -/
def labelOf (s : State) : Event → ALabel
  | .cas t _ _ _ _ _ true =>
      match s.pc t with
      | .vCas _ => .post
      | .wCas _ _ => .take
      | _ => .tau
  | .retPD t true =>
      match callDeadline s t with
      | some (some d) => .timeout d
      | _ => .tau
  | .tick ns => .tick ns
  | _ => .tau

def labels (s : State) : List Event → List ALabel
  | [] => []
  | e :: es =>
      match step s e with
      | .ok s' => labelOf s e :: labels s' es
      | .error _ => []

theorem AStep.take' {i n : Nat} (h : 0 < i) : AStep ⟨i, n⟩ .take ⟨i - 1, n⟩ := by
  obtain ⟨j, rfl⟩ : ∃ j, i = j + 1 := ⟨i - 1, by omega⟩
  exact AStep.take j n

theorem refines_retPD (hinv : Inv s) (hs : step s (.retPD t b) = .ok s') :
    AStep s.abs (labelOf s (.retPD t b)) s'.abs := by
  simp only [step] at hs
  split at hs <;> try simp at hs
  next dl b' hpc =>
    split at hs <;> simp at hs
    subst hs
    rename_i hb; subst hb
    cases b'
    · simp [State.abs, labelOf]; exact AStep.tau _
    · obtain ⟨d, hd, hle⟩ := hinv.toReal t _ hpc
      cases hd
      simp [State.abs, labelOf, callDeadline, hpc]
      exact AStep.timeout _ _ _ hle

theorem refines_step (hinv : Inv s) (hs : step s e = .ok s') :
    AStep s.abs (labelOf s e) s'.abs := by
  have h5 := hinv.casPos
  cases e
  case retPD t b => exact refines_retPD hinv hs
  all_goals
    simp only [step] at hs <;> (repeat' split at hs) <;> (try simp at hs) <;>
    (try subst hs) <;> simp_all [State.abs, labelOf]
  all_goals first
    | exact AStep.tau _
    | exact AStep.post _ _
    | exact AStep.tick _ _ _ (by assumption)
    | exact AStep.take' (h5 _ _ _ (by assumption))

def ALabel.isTimeout : ALabel → Bool
  | .timeout _ => true
  | _ => false

theorem label_counters_retPD (hinv : Inv s) (hs : step s (.retPD t b) = .ok s') :
    s'.posts = s.posts ∧ s'.takes = s.takes ∧
    s'.toRets = s.toRets + (if (labelOf s (.retPD t b)).isTimeout then 1 else 0) ∧
    labelOf s (.retPD t b) ≠ .post ∧ labelOf s (.retPD t b) ≠ .take := by
  simp only [step] at hs
  split at hs <;> try simp at hs
  next dl b' hpc =>
    split at hs <;> simp at hs
    subst hs
    rename_i hb; subst hb
    cases b'
    · simp [labelOf, ALabel.isTimeout]
    · obtain ⟨d, hd, hle⟩ := hinv.toReal t _ hpc
      cases hd
      simp [labelOf, callDeadline, hpc, ALabel.isTimeout]

/-- The abstract labels are exactly the ghost-counter increments of the concrete step. -/
theorem label_counters (hinv : Inv s) (hs : step s e = .ok s') :
    s'.posts = s.posts + (if labelOf s e = .post then 1 else 0) ∧
    s'.takes = s.takes + (if labelOf s e = .take then 1 else 0) ∧
    s'.toRets = s.toRets + (if (labelOf s e).isTimeout then 1 else 0) := by
  cases e
  case retPD t b =>
    obtain ⟨a, b', c, d, e'⟩ := label_counters_retPD hinv hs
    simp [a, b', c, d, e']
  all_goals
    simp only [step] at hs <;> (repeat' split at hs) <;> (try simp at hs) <;>
    (try subst hs) <;> simp_all [labelOf, ALabel.isTimeout]

theorem refines_run (hinv : Inv s) (hr : run s evs = .ok s') :
    ARun s.abs (labels s evs) s'.abs := by
  induction evs generalizing s with
  | nil => simp [run] at hr; subst hr; exact ARun.nil _
  | cons e es ih =>
    simp only [run] at hr
    split at hr
    · next s1 h1 =>
      simp only [labels, h1]
      exact ARun.cons (refines_step hinv h1) (ih (hinv.step h1) hr)
    · simp at hr

end NsyncVerif.Futex
