/-
  Layer `Once` × vector clocks (property C03, once edge): definitions.

  `toVC` projects the atomic events of the Once acceptor on the once word to events of the generic
  vector-clock machine (`NsyncVerif.VC`), keeping exactly the memory order each event declares
  (the acceptor `Once.step` rejects every order other than the one once.c requests, so these are
  the declared orders).  `PState` is the product of the Once state, the clock state and the
  ghost `ec o` = clock of the winner of `o` at the end of the once-function (its `cb … end`).
  `VInv` is the invariant that carries the happens-before edge.
-/
import NsyncVerif.Proofs.OnceProgress
import NsyncVerif.Proofs.VC

namespace Once
open NsyncVerif

/-- The declared order, in the vocabulary of the clock machine. -/
def ordVC : Ord → VC.Ord
  | .rlx => .rlx
  | .acq => .acq
  | .rel => .rel
  | .ar => .ar

/-- Atomic events on the once word as clock-machine events: a load with its declared order; a
    failed CAS is a relaxed load; a successful CAS is a read-modify-write with its declared order;
    a store is a plain store with its declared order.  Everything else contributes nothing. -/
def toVC : Event → Option (VC.AEv OnceId)
  | .ld t _ ord o _ => some ⟨t, .ld, ordVC ord, o⟩
  | .cas t _ ord o _ _ _ true => some ⟨t, .rmw, ordVC ord, o⟩
  | .cas t _ _ o _ _ _ false => some ⟨t, .ld, .rlx, o⟩
  | .st t _ ord o _ _ => some ⟨t, .st, ordVC ord, o⟩
  | _ => none

/-- The clock state after an event list (only program order and declared orders count). -/
def clocks (evs : List Event) : VC.St OnceId :=
  VC.run VC.St.init (evs.filterMap toVC)

/-- One event on the clock state. -/
def cstep (c : VC.St OnceId) (e : Event) : VC.St OnceId :=
  match toVC e with
  | some a => VC.step c a
  | none => c

theorem vc_run_append {Loc : Type} [DecidableEq Loc] (s : VC.St Loc) (a b : List (VC.AEv Loc)) :
    VC.run s (a ++ b) = VC.run (VC.run s a) b := by
  induction a generalizing s with
  | nil => rfl
  | cons e es ih => exact ih (VC.step s e)

theorem vc_run_filterMap_snoc (c : VC.St OnceId) (evs : List Event) (e : Event) :
    VC.run c ((evs ++ [e]).filterMap toVC) = cstep (VC.run c (evs.filterMap toVC)) e := by
  rw [List.filterMap_append, vc_run_append]
  unfold cstep
  cases h : toVC e <;> simp [List.filterMap, h, VC.run]

theorem clocks_snoc (evs : List Event) (e : Event) : clocks (evs ++ [e]) = cstep (clocks evs) e :=
  vc_run_filterMap_snoc _ _ _

theorem vc_run_filterMap_cons (c : VC.St OnceId) (e : Event) (evs : List Event) :
    VC.run c ((e :: evs).filterMap toVC) = VC.run (cstep c e) (evs.filterMap toVC) := by
  unfold cstep
  cases h : toVC e <;> simp [List.filterMap, h, VC.run]

/-! ### product state -/

structure PState where
  s : State
  c : VC.St OnceId
  /-- ghost: clock of the winner of `o` at its `cb … end` event -/
  ec : OnceId → VC.Clock

def pinit : PState := ⟨init, VC.St.init, fun _ => VC.Clock.bot⟩

/-- `cb … end` of thread `t` (inside the function of once `f.o`) records `t`'s clock. -/
def endUpd (s : State) (c : VC.St OnceId) (ec : OnceId → VC.Clock) : Event → OnceId → VC.Clock
  | .cbEnd t _ =>
    match s.pc t with
    | .wCbEnd f => upd ec f.o (c.vc t)
    | _ => ec
  | _ => ec

def pstep (cfg : Config) (p : PState) (e : Event) : Except String PState :=
  match step cfg p.s e with
  | .ok s' => .ok ⟨s', cstep p.c e, endUpd p.s p.c p.ec e⟩
  | .error m => .error m

def prun (cfg : Config) (p : PState) : List Event → Except String PState
  | [] => .ok p
  | e :: es =>
    match pstep cfg p e with
    | .ok p' => prun cfg p' es
    | .error m => .error m

/-- The product run is the Once run decorated with ghosts: it accepts exactly the same event
    lists, and its clock component is `VC.run` over the projected events. -/
theorem prun_of_run {cfg : Config} {evs : List Event} {p : PState} {s' : State}
    (h : run cfg p.s evs = .ok s') :
    ∃ p', prun cfg p evs = .ok p' ∧ p'.s = s' ∧ p'.c = VC.run p.c (evs.filterMap toVC) := by
  induction evs generalizing p with
  | nil =>
    simp only [run, Except.ok.injEq] at h
    exact ⟨p, rfl, h, rfl⟩
  | cons e es ih =>
    simp only [run] at h
    split at h
    · rename_i s1 hs
      have hp : pstep cfg p e = .ok ⟨s1, cstep p.c e, endUpd p.s p.c p.ec e⟩ := by
        simp [pstep, hs]
      obtain ⟨p', h1, h2, h3⟩ := ih (p := ⟨s1, cstep p.c e, endUpd p.s p.c p.ec e⟩) h
      refine ⟨p', ?_, h2, ?_⟩
      · simp [prun, hp, h1]
      · rw [h3, vc_run_filterMap_cons]
    · contradiction

theorem run_of_prun {cfg : Config} {evs : List Event} {p p' : PState}
    (h : prun cfg p evs = .ok p') :
    run cfg p.s evs = .ok p'.s ∧ p'.c = VC.run p.c (evs.filterMap toVC) := by
  induction evs generalizing p with
  | nil =>
    simp only [prun, Except.ok.injEq] at h
    subst h; exact ⟨rfl, rfl⟩
  | cons e es ih =>
    simp only [prun] at h
    split at h
    · rename_i p1 hp
      have := ih h
      simp only [pstep] at hp
      split at hp
      · rename_i s1 hs
        simp only [Except.ok.injEq] at hp
        subst hp
        refine ⟨by simp [run, hs, this.1], ?_⟩
        rw [this.2, vc_run_filterMap_cons]
      · contradiction
    · contradiction

theorem prun_append {cfg : Config} {a b : List Event} {p p' : PState} :
    prun cfg p (a ++ b) = .ok p' ↔ ∃ p1, prun cfg p a = .ok p1 ∧ prun cfg p1 b = .ok p' := by
  induction a generalizing p with
  | nil => simp [prun]
  | cons e es ih =>
    simp only [List.cons_append, prun]
    cases pstep cfg p e with
    | ok p1 => exact ih
    | error m => simp

/-- Reachable product states. -/
def PReachable (cfg : Config) (p : PState) : Prop := ∃ evs, prun cfg pinit evs = .ok p

theorem preachable_reachable {cfg : Config} {p : PState} (h : PReachable cfg p) :
    Reachable cfg p.s := by
  obtain ⟨evs, h⟩ := h
  exact ⟨evs, (run_of_prun h).1⟩

/-! ### the invariant -/

/-- Winner of `o` after the end of the once-function, up to and including its store of 2. -/
def PC.AfterCb : PC → OnceId → Prop
  | .wLockCall f, o | .wLockRet f, o | .wBcastCall f, o | .wBcastRet f, o | .wStore f, o => f.o = o
  | _, _ => False

/-- The edge invariant.
    (i)   once the word is 2, the release clock of the word covers the end of the function;
    (ii)  a thread at a pc reachable only through an acquire load that observed 2
          (`fUnlockCall`, `fUnlockRet`, `readyRet`) has a clock that covers it;
    (iii) so does the winner from the end of the function to its release store. -/
structure VInv (p : PState) : Prop where
  relc : ∀ o, p.s.word o = 2 → VC.Clock.le (p.ec o) (p.c.relc o)
  leaving : ∀ t o, (p.s.pc t).Leaving o → VC.Clock.le (p.ec o) (p.c.vc t)
  afterCb : ∀ t o, (p.s.pc t).AfterCb o → VC.Clock.le (p.ec o) (p.c.vc t)

theorem vinv_init : VInv pinit := by
  constructor <;> simp [pinit, init, PC.Leaving, PC.AfterCb]

/-! ### the clock step, event by event (only the orders the acceptor lets through) -/

theorem cstep_ld_acq (c : VC.St OnceId) (t : Tid) (fn : Fn) (o : OnceId) (obs : Nat) :
    cstep c (.ld t fn .acq o obs) =
      { c with vc := VC.upd c.vc t (VC.Clock.join (c.vc t) (c.relc o)) } := by
  simp [cstep, toVC, VC.step, ordVC, VC.Ord.isAcq]

theorem cstep_ld_rlx (c : VC.St OnceId) (t : Tid) (fn : Fn) (o : OnceId) (obs : Nat) :
    cstep c (.ld t fn .rlx o obs) = c := by
  simp [cstep, toVC, VC.step, ordVC, VC.Ord.isAcq]

theorem cstep_cas_fail (c : VC.St OnceId) (t : Tid) (fn : Fn) (ord : Ord) (o : OnceId)
    (exp new obs : Nat) : cstep c (.cas t fn ord o exp new obs false) = c := by
  simp [cstep, toVC, VC.step, VC.Ord.isAcq]

theorem cstep_cas_acq_ok (c : VC.St OnceId) (t : Tid) (fn : Fn) (o : OnceId) (exp new obs : Nat) :
    cstep c (.cas t fn .acq o exp new obs true) =
      { vc := VC.upd c.vc t ((VC.Clock.join (c.vc t) (c.relc o)).tick t),
        relc := VC.upd c.relc o (c.relc o) } := by
  simp [cstep, toVC, VC.step, ordVC, VC.Ord.isAcq, VC.Ord.isRel]

theorem cstep_st_rel (c : VC.St OnceId) (t : Tid) (fn : Fn) (o : OnceId) (new obs : Nat) :
    cstep c (.st t fn .rel o new obs) =
      { vc := VC.upd c.vc t ((c.vc t).tick t), relc := VC.upd c.relc o (c.vc t) } := by
  simp [cstep, toVC, VC.step, ordVC, VC.Ord.isRel]

theorem le_join_of_le_left {a b c : VC.Clock} (h : VC.Clock.le a b) :
    VC.Clock.le a (VC.Clock.join b c) :=
  VC.Clock.le_trans h (VC.Clock.le_join_left _ _)

theorem le_join_of_le_right {a b c : VC.Clock} (h : VC.Clock.le a c) :
    VC.Clock.le a (VC.Clock.join b c) :=
  VC.Clock.le_trans h (VC.Clock.le_join_right _ _)

theorem le_tick_of_le {a b : VC.Clock} (t : Tid) (h : VC.Clock.le a b) :
    VC.Clock.le a (b.tick t) :=
  VC.Clock.le_trans h (VC.Clock.le_tick _ _)

end Once
