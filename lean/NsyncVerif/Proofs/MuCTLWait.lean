import NsyncVerif.Proofs.MuCTLRec2
/-
  MuC, facts about one step: the record a thread waits on, wake lists, the pending queue insertion (`WaitTL`).
-/
namespace NsyncVerif.MuC

macro "wait_simp" : tactic => `(tactic|
  simp_all [PC.waitRec, PC.hlRec, PC.wmode, PC.mtOld, PC.enqPend, PC.mwRel, PC.wakeL, PC.wwA, Ret.w?, Ret.wmode, PC.ok, MW.ok, MW.inner, Ret.ok, SL.okL,
      setFn, loopPc, finPc, Ret.pc, mwLoop_eq, afterFin_eq, afterWakes_eq, SL.entry, SL.fromWait, SL.woken,
      acqWord, addWord, relUncWord, relNwWord, subWord, enqWord, mwEnqWord, mtAcqWord, mtRelWord, finWord, Word.zero])

macro "wait_fld" : tactic => `(tactic|
  first
  | (wait_simp; done)
  | (wait_simp <;> grind)
  | ((repeat' split) <;> wait_simp <;> grind))

macro "wait_tl" : tactic => `(tactic| (refine ⟨?_, ?_, ?_, ?_, ?_⟩ <;> wait_fld))

theorem waitTL_ld {s s' : State} {t : Tid} {o : Ord} {loc : Loc} {obs : Nat} (h1 : Inv1 s)
    (h : stepLd s t o loc obs = .ok s') : WaitTL s s' t := by
  have hok := h1.pcok t
  walk_ld h => wait_tl

theorem waitTL_st {s s' : State} {t : Tid} {o : Ord} {loc : Loc} {new obs : Nat} (h1 : Inv1 s)
    (h : stepSt s t o loc new obs = .ok s') : WaitTL s s' t := by
  have hok := h1.pcok t
  walk_st h => wait_tl

theorem waitTL_call {s s' : State} {t : Tid} {a : Api} (h : stepCall s t a = .ok s') : WaitTL s s' t := by
  walk_call h a => wait_tl

theorem waitTL_ret {s s' : State} {t : Tid} {a : Api} {res : Res} (h : stepRet s t a res = .ok s') : WaitTL s s' t := by
  walk_ret h => wait_tl

end NsyncVerif.MuC
