/-
  Proofs/WaitNFairDefs.lean — WaitN layer, liveness form of C11: infinite executions, `Moves`, `Blocked`,
  `Ready`, weak fairness, and the explicit hypotheses (`LockFair`, `ForeignRelease`, `ClockAdvances`,
  `FiniteWakeups`, `FiniteStrayPosts`); generic facts about executions.
-/
import NsyncVerif.Props.C11

namespace WaitN

/-- An infinite execution from `s0`; `σ i = none` means that nobody moves at time `i`. -/
structure Exec (s0 : State) where
  ρ : Nat → State
  σ : Nat → Option Event
  start : ρ 0 = s0
  next : ∀ i, match σ i with
    | none => ρ (i + 1) = ρ i
    | some e => step (ρ i) e = .ok (ρ (i + 1))

/-- Thread `t` executes the next operation of its own code at time `j`: its program point changes, or
    (wake_waiters of a cv signaller, protocol-driven note / counter wakers) it pops a record
    (`post` becomes `some r`) or posts the record's semaphore (`post` becomes `none`).  Events of other
    layers that `t` emits and the acceptor skips (`Ev.other`, stray semaphore traffic, unsuccessful
    iterations of a spin loop, …) leave both where they are and do not count. -/
def Moves {s0 : State} (x : Exec s0) (t : Tid) (j : Nat) : Prop :=
  (x.ρ (j + 1)).pc t ≠ (x.ρ j).pc t ∨ (x.ρ (j + 1)).post t ≠ (x.ρ j).post t

/-- the spin loop that acquires the spinlock of a condition variable -/
def isSpin : PC → Bool
  | .sg _ _ (.spin _) | .wEnqCv _ (.spin _) | .wDeqCv _ (.spin _) => true
  | _ => false

/-- The lock the thread is acquiring: the abstract mutex of a note / counter (`ret nsync_mu_lock` is its
    next operation), or the spinlock of a condition variable (the thread is in the test-and-set loop). -/
def lockWaitOf (p : PC) (f : Frame) : Option ObjId :=
  match p with
  | .wND _ i .lockWait | .wND _ i .nfLockWait | .wEnq i .lockWait | .wDeq i .lockWait => f.objs[i]?
  | .wEnqCv i (.spin _) | .wDeqCv i (.spin _) => f.objs[i]?
  | .sg c _ (.spin _) => some (.cv c)
  | _ => none

/-- the program points of `lockWaitOf` at which the thread cannot take a step while the lock is held:
    the mutex acquisitions, and the load of the test-and-set loop (a CAS that fails is a step) -/
def lockBlockOf (p : PC) (f : Frame) : Option ObjId :=
  match p with
  | .wND _ i .lockWait | .wND _ i .nfLockWait | .wEnq i .lockWait | .wDeq i .lockWait => f.objs[i]?
  | .wEnqCv i (.spin .ld) | .wDeqCv i (.spin .ld) => f.objs[i]?
  | .sg c _ (.spin .ld) => some (.cv c)
  | _ => none

/-- A thread that is not required to move:
    * asleep in the P of wait.c:78 on a semaphore whose count is 0, before the deadline `min_ntime`;
    * waiting for an object's mutex / spinning on a cv's spinlock while somebody holds it;
    * in the wait loop of cv_dequeue while `waiting` is still set (a signaller owns the record). -/
def Blocked (s : State) (t : Tid) : Prop :=
  (∃ j, s.pc t = .wPdWait j ∧ s.sem j = 0 ∧ expiredB (s.fr t).min s.now = false)
  ∨ (∃ o, lockBlockOf (s.pc t) (s.fr t) = some o ∧ (s.obj o).lock ≠ none)
  ∨ (∃ j r, s.pc t = .wDeqCv j .wspin ∧ (s.fr t).recs[j]? = some r ∧ (s.rcd r).waiting = true)

/-- `t` has something to do: it is inside nsync_wait_n / nsync_cv_signal / nsync_cv_broadcast, or it is
    a (protocol-driven) waker that has popped a record and owes the post; and it is not blocked. -/
def Ready (s : State) (t : Tid) : Prop := (s.pc t ≠ .idle ∨ s.post t ≠ none) ∧ ¬ Blocked s t

/-- Weak fairness on each thread's next operation. -/
def WeakFair {s0 : State} (x : Exec s0) : Prop :=
  ∀ t i, (∀ j, i ≤ j → Ready (x.ρ j) t) → ∃ j, i ≤ j ∧ Moves x t j

/-- Starvation freedom of the object locks (strong fairness of the acquisition; an ASSUMPTION about the
    abstract mutexes note_mu / counter_mu — the liveness half of "they are locks", C02 — and about the
    test-and-set loop on a cv's spinlock): a thread cannot be acquiring lock `o` for ever while `o` is free
    again and again. -/
def LockFair {s0 : State} (x : Exec s0) : Prop :=
  ∀ t o i, (∀ j, i ≤ j → lockWaitOf ((x.ρ j).pc t) ((x.ρ j).fr t) = some o) →
    (∀ j, i ≤ j → ∃ j', j ≤ j' ∧ ((x.ρ j').obj o).lock = none) → False

/-- the program points of nsync_wait_n / nsync_cv_signal at which the code itself holds lock `o` and releases
    it after a bounded number of its own steps (everything except the protocol-driven wake loop `nfWake`) -/
def accounts (p : PC) (f : Frame) (o : ObjId) : Prop :=
  (holdsAt p f = some o ∧ isNfWake p = false)
  ∨ (match p with
     | .wEnqCv i .store | .wEnqCv i .release | .wDeqCv i .load | .wDeqCv i .store | .wDeqCv i (.release _) =>
         f.objs[i]? = some o ∧ o.isCv = true
     | .sg c _ .held => o = .cv c
     | _ => False)

/-- Lock holders whose release is NOT programmed by this layer release the lock: threads in foreign API code
    (nsync_note_notify, nsync_counter_add, … are protocol driven: `pc = idle`), the protocol-driven wake loop
    inside the lazy expiry of a note (`nfWake`: wake loop, children, WAIT_FOR_NO_CHILDREN), and a caller that
    took an object's mutex BEFORE calling nsync_wait_n (the acceptor cannot exclude it, see Props/C11.lean). -/
def ForeignRelease {s0 : State} (x : Exec s0) : Prop :=
  ∀ i o u, ((x.ρ i).obj o).lock = some u → ¬ accounts ((x.ρ i).pc u) ((x.ρ i).fr u) o →
    ∃ j, i ≤ j ∧ ((x.ρ j).obj o).lock ≠ some u

/-- The clock eventually passes every finite deadline a sleeper is waiting for. -/
def ClockAdvances {s0 : State} (x : Exec s0) : Prop :=
  ∀ i t j (d : Int), (x.ρ i).pc t = .wPdWait j → ((x.ρ i).fr t).min = some d →
    ∃ i', i ≤ i' ∧ d ≤ ((x.ρ i').now : Int)

/-- From some time on, the P of wait.c:78 of thread `t` does not return 0 any more (each such return consumes a
    token of the call's semaphore). -/
def FiniteWakeups {s0 : State} (x : Exec s0) (t : Tid) : Prop :=
  ∃ n, ∀ j k, n ≤ j → (x.ρ j).pc t = .wPdWait k → x.σ j ≠ some (.thr t (.pdRet k false))

/-- From some time on, a semaphore that belongs to an in-flight nsync_wait_n call is only posted by a waker that has
    popped a (live) record of THAT call and owes the post.  (The acceptor accepts `sem v` on any semaphore from any
    thread — traffic of other layers —, and it accepts the late V of a waker whose record has died on ANY semaphore,
    also one that has been handed to another call in the meantime; nsync itself posts `p_nw->sem` only.) -/
def FiniteStrayPosts {s0 : State} (x : Exec s0) : Prop :=
  ∃ n, ∀ j u k, n ≤ j → x.σ j = some (.thr u (.semV k)) → ∀ t, (x.ρ j).semUser k = some t →
    ∃ r, (x.ρ j).post u = some r ∧ ((x.ρ j).rcd r).live = true ∧ ((x.ρ j).rcd r).owner = t

variable {s0 : State}

theorem Exec.next_none (x : Exec s0) {i : Nat} (h : x.σ i = none) : x.ρ (i + 1) = x.ρ i := by
  have := x.next i; rw [h] at this; exact this

theorem Exec.next_some (x : Exec s0) {i : Nat} {e : Event} (h : x.σ i = some e) :
    step (x.ρ i) e = .ok (x.ρ (i + 1)) := by
  have := x.next i; rw [h] at this; exact this

theorem Exec.reach (x : Exec s0) (hr : Reachable s0) : ∀ i, Reachable (x.ρ i) := by
  intro i
  induction i with
  | zero => rw [x.start]; exact hr
  | succ i ih =>
    cases h : x.σ i with
    | none => rw [x.next_none h]; exact ih
    | some e => exact reachable_step ih (x.next_some h)

end WaitN
