import NsyncVerif.Proofs.MuCQScan
/-
  MuC: the ring invariant as a predicate on lists (`Chain`), and the soundness of
  skip_past_same_condition under it (pure list facts, independent of reachability).
-/
namespace NsyncVerif.MuC

/-- Both conditions are present and denote the same predicate. -/
def SameSem (a b : Option Cond) : Prop := ∃ x y, a = some x ∧ b = some y ∧ x.sem = y.sem

theorem SameSem.trans {a b c : Option Cond} (h1 : SameSem a b) (h2 : SameSem b c) : SameSem a c := by
  obtain ⟨x, y, rfl, rfl, e1⟩ := h1
  obtain ⟨y', z, e, rfl, e2⟩ := h2
  cases e
  exact ⟨x, z, rfl, rfl, e1.trans e2⟩

theorem SameSem.eval {a b : Option Cond} (h : SameSem a b) (data : Nat → Int) : evalOpt data a = evalOpt data b := by
  obtain ⟨x, y, rfl, rfl, e⟩ := h
  exact evalCond_sem e data

/-- Along the list, a record linked to its successor (`lnk`) has a condition that denotes the same
    predicate as the successor's; the last record is not linked. -/
def Chain (wr : Wid → WRec) : List Wid → Prop
  | [] => True
  | [a] => (wr a).lnk = false
  | a :: b :: rest => ((wr a).lnk = true → SameSem (wr a).cond (wr b).cond) ∧ Chain wr (b :: rest)

theorem Chain.tail {wr : Wid → WRec} {a : Wid} {l : List Wid} (h : Chain wr (a :: l)) : Chain wr l := by
  cases l with
  | nil => trivial
  | cons b rest => exact h.2

theorem Chain.suffix {wr : Wid → WRec} {l1 l2 : List Wid} (h : Chain wr (l1 ++ l2)) : Chain wr l2 := by
  induction l1 with
  | nil => exact h
  | cons a l ih => exact ih (Chain.tail h)

/-- The members of `k`'s ring that follow it have conditions denoting the same predicate as `k`'s. -/
theorem groupTail_sameSem {wr : Wid → WRec} : ∀ (k : Wid) (rest : List Wid), Chain wr (k :: rest) →
    ∀ x, x ∈ (groupTail wr k rest).1 → SameSem (wr k).cond (wr x).cond := by
  intro k rest
  induction rest generalizing k with
  | nil => intro _ x hx; simp [groupTail] at hx
  | cons n rest ih =>
    intro hc x hx
    simp only [groupTail] at hx
    split at hx
    · rename_i hl
      have h1 : SameSem (wr k).cond (wr n).cond := hc.1 hl
      simp only [List.mem_cons] at hx
      rcases hx with rfl | hx
      · exact h1
      · exact h1.trans (ih n hc.2 x hx)
    · cases hx

/-- Soundness of skip_past_same_condition: under the ring invariant of the list `passed ++ k :: rest`
    everything the skip passes over besides `k` itself has a condition denoting the same predicate as
    `k`'s — so if `k`'s condition is false, theirs are. -/
theorem skipPast_sound {wr : Wid → WRec} {passed rest : List Wid} {k : Wid}
    (hc : Chain wr (passed ++ k :: rest)) :
    ∃ skipped, (skipPast wr passed k rest).1 = passed ++ k :: skipped ∧
      skipped ++ (skipPast wr passed k rest).2 = rest ∧
      ∀ x, x ∈ skipped → SameSem (wr k).cond (wr x).cond := by
  have hk : Chain wr (k :: rest) := Chain.suffix hc
  have hg := groupTail_append wr k rest
  simp only [skipPast]
  split
  · split
    · exact ⟨(groupTail wr k rest).1, rfl, hg, groupTail_sameSem k rest hk⟩
    · exact ⟨[], by simp, by simp, by simp⟩
  · split
    · exact ⟨(groupTail wr k rest).1, rfl, hg, groupTail_sameSem k rest hk⟩
    · exact ⟨[], by simp, by simp, by simp⟩

theorem skipPast_false {wr : Wid → WRec} {passed rest : List Wid} {k : Wid} {data : Nat → Int}
    (hc : Chain wr (passed ++ k :: rest)) (hf : evalOpt data (wr k).cond = false) :
    ∀ x, x ∈ (skipPast wr passed k rest).1 → x ∉ passed → evalOpt data (wr x).cond = false := by
  obtain ⟨sk, h1, _, h3⟩ := skipPast_sound hc
  intro x hx hnp
  rw [h1] at hx
  simp only [List.mem_append, List.mem_cons] at hx
  rcases hx with hx | rfl | hx
  · exact absurd hx hnp
  · exact hf
  · rw [← (h3 x hx).eval data]; exact hf

end NsyncVerif.MuC
