import NsyncVerif.Proofs.MuQFrame
/-
  MuQ, solo progress (C02): definitions.

  `acqRank M word wr p` bounds the number of steps a thread at program point `p` of an ACQUIRING
  operation (lock, rlock, trylock, rtrylock, lock_slow) can still take when it runs alone (only its
  own events are scheduled) in a state with word `word` and waiter records `wr`; `M` bounds the semaphore counts (a stale count costs one
  trip round the wait loop: P returns, `waiting` is re-read, P is entered again).
  `relRank word q p` (`q` = queue length) is the corresponding bound for the RELEASING operations (unlock, runlock,
  unlock_slow), linear in the length of the part of the queue still to be scanned and in the length
  of the private wake list.

  Both ranks look at the state only through: `s.word = old` ("the expected word of my pending CAS
  is still the word": the CAS will succeed), the `waiting` flag and the semaphore count of the
  thread's own waiter record, and `s.queue.length`.
-/
namespace NsyncVerif.MuQ

/-- Program points of the acquiring operations (including the return points). -/
def acqPc : PC → Bool
  | .lkCas0 _ | .lkLd _ | .lkCas1 _ _ | .lkRet _ => true
  | .tryCas0 _ | .tryLd _ | .tryCas1 _ _ | .tryRet _ _ => true
  | .lsLd _ | .lsCasAcq _ _ | .lsCasEnq _ _ | .lsSt _ | .lsRelLd _ | .lsRelCas _ _ => true
  | .lsWaitLd _ | .lsPEnter _ | .lsPRet _ => true
  | _ => false

/-- Count of the semaphore of the thread's waiter record; `M` while it has none yet (the record it
    will be handed by `nsync_waiter_new_` may carry any stale count up to the bound). -/
def semOf (M : Nat) (wr : Wid → WRec) : Option Wid → Nat
  | some k => (wr k).sem
  | none => M

def waitingOf (wr : Wid → WRec) : Option Wid → Bool
  | some k => (wr k).waiting
  | none => false

/-- `word`, `wr`: the word and the waiter records of the state. -/
def acqRank (M : Nat) (word : Word) (wr : Wid → WRec) : PC → Nat
  | .lkCas0 _ => 3 * M + 14
  | .lkLd _ => 3 * M + 13
  | .lkCas1 _ old => if word = old then 2 else 3 * M + 12
  | .lkRet _ => 1
  | .tryCas0 _ => 4
  | .tryLd _ => 3
  | .tryCas1 _ _ => 2
  | .tryRet _ _ => 1
  | .lsLd c => 3 * semOf M wr c.w + 11
  | .lsCasAcq c old => if word = old then 2 else 3 * semOf M wr c.w + 12
  | .lsCasEnq c old => 3 * semOf M wr c.w + (if word = old then 10 else 12)
  | .lsSt c => 3 * semOf M wr c.w + 9
  | .lsRelLd c => 3 * semOf M wr c.w + 7
  | .lsRelCas c old => 3 * semOf M wr c.w + (if word = old then 6 else 8)
  | .lsWaitLd c => 3 * semOf M wr c.w + (if waitingOf wr c.w then 5 else 12)
  | .lsPEnter c => 3 * semOf M wr c.w + (if waitingOf wr c.w then 4 else 14)
  | .lsPRet c => 3 * semOf M wr c.w + (if waitingOf wr c.w then 3 else 13)
  | _ => 0

theorem semOf_le {M : Nat} {wr : Wid → WRec} (hM : ∀ k, (wr k).sem ≤ M) (w : Option Wid) : semOf M wr w ≤ M := by
  cases w with
  | none => exact Nat.le_refl _
  | some k => exact hM k

theorem acqRank_le {M : Nat} {word : Word} {wr : Wid → WRec} (hM : ∀ k, (wr k).sem ≤ M) (p : PC) :
    acqRank M word wr p ≤ 3 * M + 14 := by
  cases p <;> simp only [acqRank] <;> (try split) <;> (try have := semOf_le hM (by assumption : SL).w) <;> omega

/-- What one own step of an acquiring thread achieves: it returns, or it stays inside the
    acquiring operation, keeps the side conditions and decreases the rank. -/
def SoloNext (M : Nat) (s : State) (t : Tid) (s' : State) : Prop :=
  s'.pc t = .idle ∨
    ((∀ k, (s'.wr k).sem ≤ M) ∧ acqPc (s'.pc t) = true ∧ (s'.sp = none ∨ s'.sp = some t) ∧
      acqRank M s'.word s'.wr (s'.pc t) < acqRank M s.word s.wr (s.pc t))


theorem dropW_sem (s : State) (w : Option Wid) (k : Wid) : ((dropW s w).wr k).sem = (s.wr k).sem := by
  cases w with
  | none => rfl
  | some k' =>
    simp only [dropW, setFn]
    split
    · rename_i h; subst h; rfl
    · rfl

theorem dropW_waiting (s : State) (w : Option Wid) (k : Wid) : ((dropW s w).wr k).waiting = (s.wr k).waiting := by
  cases w with
  | none => rfl
  | some k' =>
    simp only [dropW, setFn]
    split
    · rename_i h; subst h; rfl
    · rfl

/-! ### release side -/

def scanRank (sc : Scan) : Nat := 4 * sc.todo.length + 2 * sc.wake.length

/-- `word`: the word of the state; `q`: the length of the queue. -/
def relRank (word : Word) (q : Nat) : PC → Nat
  | .ulCas0 _ => 4 * q + 11
  | .ulLd _ => 4 * q + 10
  | .ulCas1 _ old => if word = old then 2 else 4 * q + 9
  | .ulRet _ => 1
  | .usLd _ => 4 * q + 8
  | .usCasUnc _ old => if word = old then 2 else 4 * q + 9
  | .usCasGrab _ old => 4 * q + (if word = old then 7 else 9)
  | .usRcLd _ sc _ => scanRank sc + 6
  | .usRcCas _ sc _ _ => scanRank sc + 5
  | .usFinLd _ f => 2 * f.wake.length + 3
  | .usFinCas _ f old => 2 * f.wake.length + (if word = old then 2 else 4)
  | .usWakeSt _ _ r => 2 * r.length + 3
  | .usWakeV _ _ r => 2 * r.length + 2
  | _ => 0

/-- Program points of the releasing operations (Bool version of `inRelease`). -/
def relPc : PC → Bool
  | .ulCas0 _ | .ulLd _ | .ulCas1 _ _ | .ulRet _ => true
  | .usLd _ | .usCasUnc _ _ | .usCasGrab _ _ | .usRcLd _ _ _ | .usRcCas _ _ _ _ => true
  | .usFinLd _ _ | .usFinCas _ _ _ | .usWakeSt _ _ _ | .usWakeV _ _ _ => true
  | _ => false

/-- A failed CAS on `remove_count` (memory this mutex does not own). -/
def Event.rcFail : Event → Bool
  | .cas _ _ (.rc _) _ _ _ false => true
  | _ => false

theorem scanGo_rank (lt : Wid → Mode) : ∀ (todo : List Wid) (sc : Scan),
    (∀ k sc', scanGo lt todo sc = .remove k sc' →
      sc'.todo.length + 1 ≤ todo.length ∧ sc'.wake.length = sc.wake.length + 1) ∧
    (∀ sc', scanGo lt todo sc = .done sc' → sc'.wake.length = sc.wake.length) := by
  intro todo sc
  obtain ⟨h1, h2⟩ := scanGo_spec lt todo sc
  constructor
  · intro k sc' h
    obtain ⟨mid, e1, e2, _⟩ := h1 k sc' h
    constructor
    · rw [e1]; simp
    · rw [e2]; simp
  · intro sc' h
    obtain ⟨mid, _, e2, _⟩ := h2 sc' h
    rw [e2]

end NsyncVerif.MuQ
