/-
  Proofs/CounterFairWitnessB.lean — Counter layer: the loop of the witness "timed-out waits of another
  thread take counter_mu for ever".
-/
import NsyncVerif.Proofs.CounterFairLasso

namespace Counter

/-- thread 2: one complete nsync_counter_wait with the (already passed) deadline 100 on a counter
    whose value is 1: ready_time, enqueue under counter_mu, ready_time, P-with-deadline times out,
    dequeue under counter_mu, final load, return 1 -/
def arriveLoop : List Event :=
  [.thr 2 (.callWait (some 100)), .thr 2 (.st .rlx .waited 1 1), .thr 2 (.ld .acq .value 1),
   .thr 2 (.st .rlx (.nwWaiting 5) 0 0),
   .thr 2 (.callLock 0), .thr 2 .other, .thr 2 .retLock,
   .thr 2 (.ld .acq .value 1), .thr 2 (.st .rlx (.nwWaiting 5) 1 0),
   .thr 2 (.callUnlock 0), .thr 2 .other, .thr 2 .retUnlock,
   .thr 2 (.st .rlx .waited 1 1), .thr 2 (.ld .acq .value 1),
   .thr 2 (.pdEnter 2 (some 100)), .thr 2 (.pdRet 2 true),
   .thr 2 (.callLock 0), .thr 2 .other, .thr 2 .retLock,
   .thr 2 (.ld .acq .value 1), .thr 2 (.ld .acq (.nwWaiting 5) 1), .thr 2 (.st .rlx (.nwWaiting 5) 0 1),
   .thr 2 (.callUnlock 0), .thr 2 .other, .thr 2 .retUnlock,
   .thr 2 (.ld .acq .value 1), .thr 2 (.retWait 1)]

theorem arrive_loop (s : State) (h2 : s.pc 2 = .idle) (hph : s.sh.phase = .live) (hv : s.sh.value = 1)
    (hw : s.sh.waited = true) (hl : s.sh.lockHolder = none) (hmu : s.sh.mu = some 0)
    (hq : s.sh.waiters = [3]) (hnw : s.sh.nw 5 = { live := false, waiting := false, sem := some 2, owner := 2 })
    (hsu : s.sh.semUser 2 = none) (hnow : s.sh.now = 500) : run s arriveLoop = .ok s := by
  obtain ⟨sh, pc⟩ := s
  simp only at h2 hph hv hw hl hmu hq hnw hsu hnow
  simp [arriveLoop, run, step, stepThr, dflt, h2, State.mk', State.setPc, Shared.setRec,
    Shared.setSemUser, Shared.bind, Shared.useMu, Shared.release, hph, hv, hw, hl, hmu, hq, hnw, hsu, hnow, b2n,
    dlePast, expired]
  refine ⟨?_, ?_⟩
  · have h1 : (fun i =>
          if i = 5 then ({ live := false, waiting := false, sem := some 2, owner := 2 } : Rec)
          else
            if i = 5 then { live := true, waiting := false, sem := some 2, owner := 2 }
            else
              if i = 5 then { live := true, waiting := true, sem := some 2, owner := 2 }
              else
                if i = 5 then { live := true, waiting := true, sem := none, owner := 2 }
                else if i = 5 then { live := true, waiting := false, sem := none, owner := 2 } else sh.nw i)
        = sh.nw := by
      funext i; by_cases hi : i = 5
      · subst hi; simp [hnw]
      · simp [hi]
    have h2' : (fun i => if i = 2 then none else if i = 2 then some 5 else sh.semUser i) = sh.semUser := by
      funext i; by_cases hi : i = 2
      · subst hi; simp [hsu]
      · simp [hi]
    rw [h1, h2']; cases sh; simp_all
  · funext u; by_cases hu : u = 2
    · subst hu; simp [h2]
    · simp [hu]

/-- counter at 1; thread 1 waits with deadline 500, queues, sleeps; the clock reaches 500; thread 1
    times out and asks for counter_mu (dequeue); thread 2 has done one complete timed-out wait -/
def arrivePre : List Event :=
  Example.timesOut.take 19 ++ [.tick 500, .thr 1 (.pdRet 1 true), .thr 1 (.callLock 0)] ++ arriveLoop

def arriveA : State := stateAt arrivePre arrivePre.length

theorem arrive_run : run init arrivePre = .ok arriveA := by
  have h : accepts arrivePre = true := by decide
  simp only [accepts, final] at h
  split at h
  · rename_i s hs
    have := stateAt_ge hs (Nat.le_refl arrivePre.length)
    rw [arriveA, this]; exact hs
  · cases h

theorem arriveA_facts : arriveA.pc 2 = .idle ∧ arriveA.sh.phase = .live ∧ arriveA.sh.value = 1 ∧
    arriveA.sh.waited = true ∧ arriveA.sh.lockHolder = none ∧ arriveA.sh.mu = some 0 ∧ arriveA.sh.waiters = [3] ∧
    arriveA.sh.semUser 2 = none ∧ arriveA.sh.now = 500 ∧ arriveA.pc 1 = .wDeqLockWait (some 500) 3 true ∧
    arriveA.pc 0 = .idle := by
  have h : (final arrivePre).map (fun s => decide (s.pc 2 = .idle ∧ s.sh.phase = .live ∧ s.sh.value = 1 ∧
      s.sh.waited = true ∧ s.sh.lockHolder = none ∧ s.sh.mu = some 0 ∧ s.sh.waiters = [3] ∧
      s.sh.semUser 2 = none ∧ s.sh.now = 500 ∧ s.pc 1 = .wDeqLockWait (some 500) 3 true ∧ s.pc 0 = .idle))
      = some true := by decide
  simpa [final, arrive_run] using h

theorem arriveA_nw : arriveA.sh.nw 5 = { live := false, waiting := false, sem := some 2, owner := 2 } := by
  have h : (final arrivePre).map (fun s => decide ((s.sh.nw 5).live = false ∧ (s.sh.nw 5).waiting = false ∧
      (s.sh.nw 5).sem = some 2 ∧ (s.sh.nw 5).owner = 2)) = some true := by decide
  have h' : (arriveA.sh.nw 5).live = false ∧ (arriveA.sh.nw 5).waiting = false ∧
      (arriveA.sh.nw 5).sem = some 2 ∧ (arriveA.sh.nw 5).owner = 2 := by simpa [final, arrive_run] using h
  cases hr : arriveA.sh.nw 5
  rw [hr] at h'
  simp_all

theorem arrive_cycle : run arriveA arriveLoop = .ok arriveA := by
  obtain ⟨a, b, c, d, e, f, g, h, i, _⟩ := arriveA_facts
  exact arrive_loop arriveA a b c d e f g arriveA_nw h i

/-- the stem, then thread 2's timed-out waits for ever -/
def arriveExec : Exec init := lassoExec arrivePre arriveLoop arriveA arrive_run arrive_cycle (by decide)

theorem arrive_at (m : Nat) {r : Nat} (hr : r < 27) :
    arriveExec.ρ (49 + 27 * m + r) = stateFrom arriveA (arriveLoop.take r) ∧
    arriveExec.σ (49 + 27 * m + r) = arriveLoop[r]? :=
  lasso_pos arrive_run arrive_cycle (by decide) m (r := r) hr

/-- thread 1 does not occur in the loop -/
theorem arrive_pc1 (r : Nat) : (stateFrom arriveA (arriveLoop.take r)).pc 1 = .wDeqLockWait (some 500) 3 true := by
  have h := run_untouched (t := 1) _ arriveA _ ⟨arrivePre, arrive_run⟩ (by
    intro e he
    have h : arriveLoop.all (fun e => decide (e.tidOf ≠ some 1)) = true := by decide
    simp only [List.all_eq_true, decide_eq_true_eq] at h
    exact h e (List.mem_of_mem_take he)) (stateFrom_ok arrive_cycle r)
  rw [h]; exact arriveA_facts.2.2.2.2.2.2.2.2.2.1

set_option maxRecDepth 4096 in
theorem arrive_held : (stateFrom arriveA (arriveLoop.take 7)).sh.lockHolder = some 2 := by decide

set_option maxRecDepth 4096 in
theorem arrive_moves2 : (stateFrom arriveA (arriveLoop.take 1)).pc 2 ≠ (stateFrom arriveA (arriveLoop.take 0)).pc 2 := by
  decide

theorem arrive_weakFair : WeakFair arriveExec := by
  apply lasso_weakFair
  intro t
  by_cases h3 : t < 3
  · match t, h3 with
    | 0, _ =>
      refine ⟨0, by decide, Or.inl ?_⟩
      rw [show arriveLoop.take 0 = [] from rfl, stateFrom_nil]; exact arriveA_facts.2.2.2.2.2.2.2.2.2.2
    | 1, _ =>
      refine ⟨7, by decide, Or.inr (Or.inl (Or.inr ⟨?_, ?_⟩))⟩
      · rw [arrive_pc1]; rfl
      · rw [arrive_held]; simp
    | 2, _ => exact ⟨0, by decide, Or.inr (Or.inr arrive_moves2)⟩
  · exact ⟨0, by decide, Or.inl (lasso_idle arrive_run arrive_cycle 3 (by decide) (by decide) h3 0)⟩

theorem arrive_never (j : Nat) (hj : 49 ≤ j) : (arriveExec.ρ j).pc 1 ≠ .idle := by
  obtain ⟨m, r, hr, rfl⟩ : ∃ m r, r < 27 ∧ j = 49 + 27 * m + r :=
    ⟨(j - 49) / 27, (j - 49) % 27, Nat.mod_lt _ (by decide), by omega⟩
  rw [(arrive_at m hr).1, arrive_pc1]; simp

end Counter
