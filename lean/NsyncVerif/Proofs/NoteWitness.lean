/-
  Layer `Note`: tools for stating facts about the state reached by a concrete accepted trace.
-/
import NsyncVerif.Proofs.NoteTraces
import NsyncVerif.Proofs.NoteBasic

namespace Note

/-- The state reached by an accepted trace. -/
def stateAfter (evs : List Event) (h : (run init evs).toOption.isSome = true) : State :=
  (run init evs).toOption.get h

theorem ok_get (r : Except String State) (h : r.toOption.isSome = true) :
    r = .ok (r.toOption.get h) := by
  cases r with
  | ok s => rfl
  | error m => simp [Except.toOption] at h

theorem run_stateAfter (evs : List Event) (h : (run init evs).toOption.isSome = true) :
    run init evs = .ok (stateAfter evs h) := ok_get _ h

theorem reachable_stateAfter (evs : List Event) (h : (run init evs).toOption.isSome = true) :
    Reachable (stateAfter evs h) := ⟨evs, run_stateAfter evs h⟩

/-- A step that is accepted, given as a decidable check. -/
theorem step_of_isSome {s : State} {e : Event} (h : (step s e).toOption.isSome = true) :
    ∃ s', step s e = .ok s' := by
  cases hs : step s e with
  | ok s' => exact ⟨s', rfl⟩
  | error m => rw [hs] at h; simp [Except.toOption] at h

end Note
