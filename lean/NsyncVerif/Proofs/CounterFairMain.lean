/-
  Proofs/CounterFairMain.lean — Counter layer, fair release: a thread asleep at zero is posted
  (`pdwait_moves`), every thread inside nsync_counter_wait at zero keeps moving (`wait_moves`), and
  therefore returns (`fair_return_zero`, induction on `wrank`).
-/
import NsyncVerif.Proofs.CounterFairLock
import NsyncVerif.Props.C10

namespace Counter

variable {s0 : State}

theorem fair_move' (x : Exec s0) (hf : WeakFair x) {t : Tid} {i : Nat} (hne : (x.ρ i).pc t ≠ .idle)
    (h : ∀ j, i ≤ j → (∀ j', i ≤ j' → j' < j → ¬ Moves x t j') → ¬ Blocked (x.ρ j) t) :
    ∃ j, i ≤ j ∧ Moves x t j := by
  apply Classical.byContradiction
  intro hn
  have hnm : ∀ j, i ≤ j → ¬ Moves x t j := fun j hj hm => hn ⟨j, hj, hm⟩
  have hpc : ∀ j, i ≤ j → (x.ρ j).pc t = (x.ρ i).pc t :=
    fun j hj => frame_between x hj (fun j' h1 _ => hnm j' h1)
  obtain ⟨j, hj, hm⟩ := hf t i (fun j hj => ⟨by rw [hpc j hj]; exact hne, h j hj (fun j' h1 _ => hnm j' h1)⟩)
  exact hnm j hj hm

/-- the first time a property that holds at `j0` fails -/
theorem last_true {P : Nat → Prop} {j0 : Nat} (h0 : P j0) : ∀ d, ¬ P (j0 + d) →
    ∃ j, j0 ≤ j ∧ P j ∧ ¬ P (j + 1) := by
  intro d
  induction d with
  | zero => intro h; exact absurd h0 h
  | succ d ih =>
    intro h
    by_cases hd : P (j0 + d)
    · exact ⟨j0 + d, by omega, hd, h⟩
    · exact ih hd

/-- the semaphore of a thread asleep in P-with-deadline is only taken by that thread -/
theorem sem_stays (x : Exec s0) (hr : Reachable s0) {t : Tid} {dl : Deadline} {k : NwId} {j : SemId} {i : Nat}
    (hp : (x.ρ i).pc t = .wPdWait dl k j) (hnm : ¬ Moves x t i) (hs : 0 < (x.ρ i).sh.sem j) :
    0 < (x.ρ (i + 1)).sh.sem j := by
  have hi := inv_of_reachable (x.reach hr i)
  have hpt := (hi.pcs t).2; rw [hp] at hpt
  obtain ⟨hown, _, _, hsem, _⟩ := hpt
  have hu : (x.ρ i).sh.semUser j = some k := hi.sh.semu k j hown.1 hsem
  rcases x.step_cases hr i with h1 | ⟨_, _, h2⟩ | ⟨u, e, _, g, f⟩
  · rw [h1]; exact hs
  · rw [h2]; exact hs
  · apply Classical.byContradiction
    intro h0
    rcases g.semdec j (by omega) with a | ⟨dl', k', a, b⟩
    · rw [hu] at a; cases a
    · have hpu := (hi.pcs u).2; rw [a] at hpu
      obtain ⟨hown', _, _, hsem', _⟩ := hpu
      have hu' := hi.sh.semu k' j hown'.1 hsem'
      rw [hu] at hu'; cases hu'
      have : u = t := by rw [← hown'.2, ← hown.2]
      subst this
      apply hnm; unfold Moves; rw [b, hp]; simp

/-- A thread asleep in P-with-deadline while the counter is (and stays) zero is posted and moves. -/
theorem pdwait_moves (x : Exec s0) (hr : Reachable s0) (hf : WeakFair x) {i : Nat}
    (hz : ∀ j, i ≤ j → (x.ρ j).sh.value = 0) {t : Tid} {dl : Deadline} {k : NwId} {j : SemId} {j0 : Nat}
    (hj0 : i ≤ j0) (hp : (x.ρ j0).pc t = .wPdWait dl k j) : ∃ j', j0 ≤ j' ∧ Moves x t j' := by
  apply Classical.byContradiction
  intro hn
  have hnm : ∀ j', j0 ≤ j' → ¬ Moves x t j' := fun j' hj hm => hn ⟨j', hj, hm⟩
  have hpc : ∀ j', j0 ≤ j' → (x.ρ j').pc t = .wPdWait dl k j :=
    fun j' hj => by rw [frame_between x hj (fun j'' h1 _ => hnm j'' h1), hp]
  -- the semaphore is posted at some time
  have hpost : ∃ j1, j0 ≤ j1 ∧ 0 < (x.ρ j1).sh.sem j := by
    apply Classical.byContradiction
    intro hno
    have hzero : ∀ j', j0 ≤ j' → (x.ρ j').sh.sem j = 0 := by
      intro j' hj
      cases h : (x.ρ j').sh.sem j with
      | zero => rfl
      | succ n => exact absurd ⟨j', hj, by omega⟩ hno
    have hwake : ∀ j', j0 ≤ j' → ∃ u, (x.ρ j').sh.lockHolder = some u ∧ wakeLoop ((x.ρ j').pc u)
        ∧ (k ∈ (x.ρ j').sh.waiters ∨ ∃ d r idx, (x.ρ j').pc u = .aPost d r idx k) := by
      intro j' hj
      rcases C10_no_lost_wakeup (x.reach hr j') (hpc j' hj) with a | a | ⟨u, a, b, c⟩ | ⟨u, d, r, idx, a, b⟩
      · exact absurd (hz j' (by omega)) a
      · rw [hzero j' hj] at a; cases a
      · exact ⟨u, a, b, Or.inl c⟩
      · exact ⟨u, a, by rw [b]; trivial, Or.inr ⟨d, r, idx, b⟩⟩
    obtain ⟨u, hu, _, _⟩ := hwake j0 (Nat.le_refl _)
    have hh := holds_of_holder (inv_of_reachable (x.reach hr j0)) hu
    obtain ⟨j', h1, h2⟩ := holder_releases x hr hf u _ j0 hh (Nat.le_refl _)
    obtain ⟨d, rfl⟩ : ∃ d, j' = j0 + d := ⟨j' - j0, by omega⟩
    obtain ⟨j2, h3, h4, h5⟩ := last_true (P := fun j => holds ((x.ρ j).pc u) = true) hh d (by simp [h2])
    have h5' : holds ((x.ρ (j2 + 1)).pc u) = false := by simpa using h5
    have hmv : Moves x u j2 := by
      intro he; rw [he, h4] at h5'; cases h5'
    obtain ⟨e, _, g, _⟩ := moves_prog x hr hmv
    obtain ⟨u', a, b, c⟩ := hwake j2 h3
    have := holder_of_holds (inv_of_reachable (x.reach hr j2)) h4
    rw [a] at this; cases this
    obtain ⟨w1, w2⟩ := g.wrel b h5'
    rcases c with c | ⟨d', r, idx, c⟩
    · rw [w1] at c; cases c
    · exact w2 _ _ _ _ c
  obtain ⟨j1, h1, h2⟩ := hpost
  have hpos : ∀ d, 0 < (x.ρ (j1 + d)).sh.sem j := by
    intro d
    induction d with
    | zero => exact h2
    | succ d ih => exact sem_stays x hr (hpc (j1 + d) (by omega)) (hnm (j1 + d) (by omega)) ih
  obtain ⟨j', h3, h4⟩ := fair_move x hf (t := t) (i := j1) (by rw [hpc j1 h1]; simp) (by
    intro j' hj _
    obtain ⟨d, rfl⟩ : ∃ d, j' = j1 + d := ⟨j' - j1, by omega⟩
    rintro (⟨dl', k', j'', a, b, _⟩ | ⟨a, _⟩)
    · rw [hpc (j1 + d) (by omega)] at a; cases a
      have := hpos d; omega
    · rw [hpc (j1 + d) (by omega)] at a; cases a)
  exact hnm j' (by omega) h4

/-- Every thread inside nsync_counter_wait keeps moving while the counter stays zero. -/
theorem wait_moves (x : Exec s0) (hr : Reachable s0) (hf : WeakFair x)
    (hlock : ∃ n2, ∀ j, n2 ≤ j → (x.ρ j).sh.lockHolder = none) {i : Nat}
    (hz : ∀ j, i ≤ j → (x.ρ j).sh.value = 0) {t : Tid} {j0 : Nat} (hj0 : i ≤ j0)
    (hw : 0 < wrank ((x.ρ j0).pc t)) : ∃ j', j0 ≤ j' ∧ Moves x t j' := by
  by_cases hpd : ∃ dl k j, (x.ρ j0).pc t = .wPdWait dl k j
  · obtain ⟨dl, k, j, hp⟩ := hpd
    exact pdwait_moves x hr hf hz hj0 hp
  · apply Classical.byContradiction
    intro hn
    have hnm : ∀ j', j0 ≤ j' → ¬ Moves x t j' := fun j' hj hm => hn ⟨j', hj, hm⟩
    have hpc : ∀ j', j0 ≤ j' → (x.ρ j').pc t = (x.ρ j0).pc t :=
      fun j' hj => frame_between x hj (fun j'' h1 _ => hnm j'' h1)
    obtain ⟨n2, hfree⟩ := hlock
    have hne : (x.ρ j0).pc t ≠ .idle := by intro h; rw [h] at hw; simp [wrank] at hw
    obtain ⟨j', h3, h4⟩ := fair_move x hf (t := t) (i := max j0 n2) (by rw [hpc _ (by omega)]; exact hne) (by
      intro j' hj _
      rintro (⟨dl', k', j'', a, _⟩ | ⟨_, a⟩)
      · rw [hpc j' (by omega)] at a; exact hpd ⟨_, _, _, a⟩
      · exact a (hfree j' (by omega)))
    exact hnm j' (by omega) h4

/-- Every thread inside nsync_counter_wait while the counter stays zero returns, with result 0
    unless it already was at its return point with another result. -/
theorem fair_return_zero (x : Exec s0) (hr : Reachable s0) (hf : WeakFair x)
    (hlock : ∃ n2, ∀ j, n2 ≤ j → (x.ρ j).sh.lockHolder = none) {i : Nat}
    (hz : ∀ j, i ≤ j → (x.ρ j).sh.value = 0) (t : Tid) :
    ∀ m j, i ≤ j → wrank ((x.ρ j).pc t) ≤ m → ((x.ρ j).pc t = .idle ∨ 0 < wrank ((x.ρ j).pc t)) →
      ∃ j', j ≤ j' ∧ (x.ρ j').pc t = .idle ∧
        ∀ j'', j ≤ j'' → j'' ≤ j' → ∀ dl r, (x.ρ j'').pc t = .wRet dl r → r = 0 ∨ (x.ρ j).pc t = .wRet dl r := by
  intro m
  induction m with
  | zero =>
    intro j _ hm hw
    rcases hw with hw | hw
    · refine ⟨j, Nat.le_refl _, hw, fun j'' h1 h2 dl r h => ?_⟩
      have : j'' = j := by omega
      subst this; exact Or.inr h
    · omega
  | succ m ih =>
    intro j hj hm hw
    rcases hw with hw | hw
    · refine ⟨j, Nat.le_refl _, hw, fun j'' h1 h2 dl r h => ?_⟩
      have : j'' = j := by omega
      subst this; exact Or.inr h
    · obtain ⟨j1, h1, h2, h3⟩ := first_move' x (wait_moves x hr hf hlock hz hj hw)
      have hpc : ∀ j', j ≤ j' → j' ≤ j1 → (x.ρ j').pc t = (x.ρ j).pc t :=
        fun j' a b => frame_between x a (fun j'' c d => h3 j'' c (by omega))
      obtain ⟨e, _, g, _⟩ := moves_prog x hr h2
      have hpj := hpc j1 h1 (Nat.le_refl _)
      rcases g.zrank (hz j1 (by omega)) (by rw [hpj]; exact hw) with a | ⟨a, b⟩
      · exact absurd a h2
      · obtain ⟨j', c1, c2, c3⟩ := ih (j1 + 1) (by omega) (by rw [hpj] at a; omega) b
        refine ⟨j', by omega, c2, fun j'' d1 d2 dl r hret => ?_⟩
        by_cases hle : j'' ≤ j1
        · right; rw [← hpc j'' d1 hle]; exact hret
        · rcases c3 j'' (by omega) d2 dl r hret with c | c
          · exact Or.inl c
          · rcases g.zret (hz j1 (by omega)) dl r c with c' | c'
            · right; rw [← hpj]; exact c'
            · exact Or.inl c'

end Counter
