import NsyncVerif.Proofs.MuCInv4St
/-
  MuC (I_queue): CAS steps that do not touch the lists.
-/
namespace NsyncVerif.MuC

macro "cas_case4" t:ident h:ident heq:ident hs:ident : tactic => `(tactic|
  (rcases casWord_ok $hs with ⟨hw, -, hs'⟩ | ⟨-, -, hs'⟩ <;> subst hs' <;>
    first
    | inv4_local $t $h $heq
    | (split <;> inv4_local $t $h $heq)
    | (split <;> first | inv4_local $t $h $heq | (split <;> inv4_local $t $h $heq))))

theorem inv4_stepCasB {s s' : State} {t : Tid} {o : Ord} {loc : Loc} {exp new obs : Nat} {ok : Bool} (h : Inv4 s)
    (hp : match s.pc t with
      | .lkCas0 _ | .lkCas1 _ _ | .tryCas0 _ | .tryCas1 _ _ | .lsCasEnq _ _ | .lsRelCas _ _ | .ulCas0 _ _ | .ulCas1 _ _ _
      | .usCasUnc _ _ | .mwRelCas _ _ _ | .mtCasAcq _ _ | .mtCasWW _ _ | .mtRmCas _ _ _ => True
      | _ => False)
    (hs : stepCas s t o loc exp new obs ok = .ok s') : Inv4 s' := by
  unfold stepCas at hs
  split at hs
  all_goals try (rename_i heq; rw [heq] at hp; exact False.elim hp)
  all_goals try (rename_i hne; split at hp <;> first | exact False.elim hp | (exfalso; simp_all; done))
  · rename_i heq; cas_case4 t h heq hs
  · rename_i heq; cas_case4 t h heq hs
  · rename_i heq; cas_case4 t h heq hs
  · rename_i heq; cas_case4 t h heq hs
  · rename_i heq; cas_case4 t h heq hs
  · rename_i heq; cas_case4 t h heq hs
  · rename_i heq; cas_case4 t h heq hs
  · rename_i heq; cas_case4 t h heq hs
  · rename_i heq; simp only [afterWakes_eq] at hs; cas_case4 t h heq hs
  · rename_i heq; cas_case4 t h heq hs
  · rename_i heq; cas_case4 t h heq hs
  · rename_i heq; cas_case4 t h heq hs
  · rename_i heq; ld_case4 t h heq hs

end NsyncVerif.MuC
