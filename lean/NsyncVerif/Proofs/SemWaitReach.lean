/-
  Proofs/SemWaitReach.lean — the invariant holds in every reachable state of the SemWait acceptor
  (the code, i.e. `noReread = false`).
-/
import NsyncVerif.Proofs.SemWaitInvA1
import NsyncVerif.Proofs.SemWaitInvA2
import NsyncVerif.Proofs.SemWaitInvA3
import NsyncVerif.Proofs.SemWaitInvQ1
import NsyncVerif.Proofs.SemWaitInvQ2
import NsyncVerif.Proofs.SemWaitInvQ2b
import NsyncVerif.Proofs.SemWaitInvQ2c
import NsyncVerif.Proofs.SemWaitInvQ2d
import NsyncVerif.Proofs.SemWaitInvQ3
import NsyncVerif.Proofs.SemWaitInvQ4
import NsyncVerif.Proofs.SemWaitInvO1
import NsyncVerif.Proofs.SemWaitInvO2
import NsyncVerif.Proofs.SemWaitInvO3
import NsyncVerif.Proofs.SemWaitInvO4

namespace SemWait

structure Inv (s : State) : Prop where
  a : InvA s
  q : InvQ s
  o : InvO s

theorem inv_init : Inv init := by
  refine ⟨⟨?_, ?_, ?_, ?_, ?_, ?_, ?_, ?_, ?_⟩, ⟨?_, ?_, ?_, ?_, ?_, ?_, ?_, ?_⟩, ⟨?_, ?_, ?_, ?_, ?_, ?_, ?_, ?_⟩⟩ <;>
    simp [init, Frame.empty, Note.init, Rec.init, hasNw, preNw, inCall, holdsPc, enq, asleep, early, late, inL65]

theorem inv_eff {cfg : Config} {s s' : State} {t : Tid} (hc : cfg.noReread = false) (hi : Inv s)
    (he : Eff cfg s t s') : Inv s' := by
  obtain ⟨ha, hq, ho⟩ := hi
  refine ⟨⟨a_i1 ha he, a_i2 ha he, a_i3 ha he, a_i4 ha he, a_i5 ha he, a_i6 ha he, a_i7 ha he, a_i8 ha he, a_h1 ha he⟩,
    ⟨q_q1 hc ha hq he, q_q2 hc ha hq he, ?_, q_q4 hc ha hq he, q_q5 hc ha hq he, q_l3 hc ha hq he, q_k1 hc ha hq he,
      q_e1 hc ha hq he⟩,
    ⟨o_p1 hc ha ho he, o_o0 hc ha ho he, o_o1 hc ha ho he, o_o2 hc ha ho he, o_o3 hc ha ho he, o_o4 hc ha ho he,
      o_o5 hc ha ho he, o_o6 hc ha ho he⟩⟩
  intro u r h
  obtain ⟨a, b, c, d⟩ := q_q3a hc ha hq he u r h
  exact ⟨a, b, c, d, q_q3b hc ha hq he u r h, q_q3c hc ha hq he u r h, q_q3d hc ha hq he u r h⟩

theorem inv_tick {s : State} {ns : Nat} (hle : s.now ≤ ns) (hi : Inv s) : Inv { s with now := ns } := by
  obtain ⟨ha, hq, ho⟩ := hi
  refine ⟨⟨ha.i1, ha.i2, ha.i3, ha.i4, ha.i5, ha.i6, ha.i7, ha.i8, ha.h1⟩,
    ⟨hq.q1, hq.q2, hq.q3, hq.q4, hq.q5, hq.l3, hq.k1, hq.e1⟩,
    ⟨ho.p1, ho.o0, ho.o1, ho.o2, ?_, ho.o4, ho.o5, ho.o6⟩⟩
  intro t h1 h2
  exact expiredB_mono (ho.o3 t h1 h2) hle

theorem inv_step {cfg : Config} {s s' : State} {e : Event} (hc : cfg.noReread = false) (hi : Inv s)
    (hs : step cfg s e = .ok s') : Inv s' := by
  rcases step_cases hs with ⟨t, he⟩ | ⟨ns, hle, rfl⟩
  · exact inv_eff hc hi he
  · exact inv_tick hle hi

theorem inv_of_reachable {cfg : Config} {s : State} (hc : cfg.noReread = false) (hr : Reachable cfg s) : Inv s :=
  reachable_induction inv_init (fun _ _ _ _ hi hs => inv_step hc hi hs) hr

end SemWait
