/-
  Proofs/WaitNFairExec.lean — WaitN layer, liveness: one step of an execution seen from a thread (`Exec.prog`),
  the clock, the locks; the descent lemma (a thread that stays at straight-line program points for ever
  contradicts weak fairness); every lock holder releases (`holder_releases`), so every lock is free again and
  again (`lock_free_again`).
-/
import NsyncVerif.Proofs.WaitNFairStep3

set_option linter.unusedSimpArgs false
set_option linter.unusedVariables false

namespace WaitN

variable {s0 : State}

theorem frSame_objs {f g : Frame} (h : frSame f g) : g.objs = f.objs := by rw [h]
theorem frSame_dl {f g : Frame} (h : frSame f g) : g.dl = f.dl := by rw [h]
theorem frSame_min {f g : Frame} (h : frSame f g) : g.min = f.min := by rw [h]
theorem frSame_recs {f g : Frame} (h : frSame f g) : g.recs = f.recs := by rw [h]

theorem step_thr {s s' : State} {u : Tid} {e : Ev} (h : step s (.thr u e) = .ok s') : stepThr s u e = .ok s' := h

theorem step_tick {s s' : State} {ns : Nat} (h : step s (.tick ns) = .ok s') : s' = { s with now := ns } ∧ s.now ≤ ns := by
  simp only [step] at h
  split at h
  · rename_i hle; exact ⟨(Except.ok.inj h).symm, hle⟩
  · cases h

/-- One step of an execution, seen from thread `t`. -/
theorem Exec.prog (x : Exec s0) (hr : Reachable s0) (t : Tid) (j : Nat) :
    ∃ e, Prog (x.ρ j) (x.ρ (j + 1)) t e ∧ (∀ k, e = .pdRet k false → x.σ j = some (.thr t (.pdRet k false))) := by
  cases hs : x.σ j with
  | none => rw [x.next_none hs]; exact ⟨.other, Prog.stutter rfl rfl (frSame_refl _), fun k h => by cases h⟩
  | some ev =>
    have hstep := x.next_some hs
    cases ev with
    | tick ns =>
      rw [(step_tick hstep).1]
      exact ⟨.other, Prog.stutter rfl rfl (frSame_refl _), fun k h => by cases h⟩
    | thr u e =>
      by_cases hu : u = t
      · subst hu
        exact ⟨e, prog_stepThr (linv_of_reachable (x.reach hr j) u) (step_thr hstep), fun k h => by rw [h]⟩
      · obtain ⟨h1, _, h3, h4⟩ := others_stepThr (step_thr hstep) t (fun h => hu h.symm)
        exact ⟨.other, Prog.stutter h1 h3 h4, fun k h => by cases h⟩

theorem Exec.now_step (x : Exec s0) (j : Nat) : (x.ρ j).now ≤ (x.ρ (j + 1)).now := by
  cases hs : x.σ j with
  | none => rw [x.next_none hs]; exact Nat.le_refl _
  | some ev =>
    have hstep := x.next_some hs
    cases ev with
    | tick ns => rw [(step_tick hstep).1]; exact (step_tick hstep).2
    | thr u e => exact (mono_stepThr (t := u) (step_thr hstep)).now

theorem Exec.now_mono (x : Exec s0) {i j : Nat} (h : i ≤ j) : (x.ρ i).now ≤ (x.ρ j).now := by
  obtain ⟨d, rfl⟩ : ∃ d, j = i + d := ⟨j - i, by omega⟩
  induction d with
  | zero => exact Nat.le_refl _
  | succ d ih => exact Nat.le_trans (ih (by omega)) (x.now_step (i + d))

/-- a lock changes hands only through `none` -/
theorem Exec.lock_step (x : Exec s0) (hr : Reachable s0) (o : ObjId) (j : Nat) :
    ((x.ρ (j + 1)).obj o).lock = ((x.ρ j).obj o).lock
    ∨ (((x.ρ j).obj o).lock = none) ∨ (((x.ρ (j + 1)).obj o).lock = none) := by
  cases hs : x.σ j with
  | none => rw [x.next_none hs]; exact .inl rfl
  | some ev =>
    have hstep := x.next_some hs
    cases ev with
    | tick ns => rw [(step_tick hstep).1]; exact .inl rfl
    | thr u e =>
      rcases (frame2_stepThr (linv_of_reachable (x.reach hr j) u) (step_thr hstep)).lock o with h | h | h
      · exact .inl h
      · exact .inr (.inl h.1)
      · exact .inr (.inr h.2)

/-! ### the descent lemma -/

/-- program points at which a thread can be `Blocked` -/
def blockingPc : PC → Bool
  | .wPdWait _ | .wDeqCv _ .wspin => true
  | .wND _ _ .lockWait | .wND _ _ .nfLockWait | .wEnq _ .lockWait | .wDeq _ .lockWait => true
  | .wEnqCv _ (.spin .ld) | .wDeqCv _ (.spin .ld) | .sg _ _ (.spin .ld) => true
  | _ => false

/-- straight-line program points: every own step from here is progress -/
def Straight (p : PC) : Prop :=
  p ≠ .idle ∧ blockingPc p = false ∧ isSpin p = false ∧ isNfWake p = false ∧ sgEarly p = false

theorem blocking_of_lockBlock {p : PC} {f : Frame} {o : ObjId} (h : lockBlockOf p f = some o) : blockingPc p = true := by
  unfold lockBlockOf at h
  split at h <;> first | rfl | cases h

theorem not_blocked_of_pc {s : State} {t : Tid} (h : blockingPc (s.pc t) = false) : ¬ Blocked s t := by
  rintro (⟨j, hp, _⟩ | ⟨o, ho, _⟩ | ⟨j, r, hp, _⟩)
  · rw [hp] at h; cases h
  · rw [blocking_of_lockBlock ho] at h; cases h
  · rw [hp] at h; cases h

theorem rk_eq_of_same {s s' : State} {t : Tid} (h1 : s'.pc t = s.pc t) (h2 : s'.post t = s.post t)
    (h3 : (s'.fr t).objs = (s.fr t).objs) : rk s' t = rk s t := by
  simp only [rk, h1, h2, count_eq h3]

theorem sgNext_early {p p' : PC} (h : sgNext p p') : sgEarly p = true := by
  cases p <;> simp [sgNext] at h
  rename_i c bc st
  cases st <;> simp [sgNext, sgEarly] at h ⊢

/-- at a straight-line program point a step is a stutter or decreases the rank -/
theorem plain_step (x : Exec s0) (hr : Reachable s0) (t : Tid) (j : Nat) (hp : Straight ((x.ρ j).pc t))
    (hp' : (x.ρ (j + 1)).pc t ≠ .idle) :
    (¬ Moves x t j ∧ rk (x.ρ (j + 1)) t = rk (x.ρ j) t) ∨ rk (x.ρ (j + 1)) t < rk (x.ρ j) t := by
  obtain ⟨e, hprog, _⟩ := x.prog hr t j
  rcases hprog with h | h | ⟨ho, hd, h | h | h | h | h | h⟩
  · exact absurd h hp.1
  · exact absurd h hp'
  · exact .inl ⟨fun hm => hm.elim (fun a => a h.1) (fun a => a h.2.1), rk_eq_of_same h.1 h.2.1 ho⟩
  · exact .inr h
  · rw [hp.2.2.1] at h; cases h.1
  · obtain ⟨k, hk, _⟩ := h; rw [hk] at hp; cases hp.2.1
  · rw [hp.2.2.2.1] at h; cases h.1
  · have := sgNext_early h.1; rw [hp.2.2.2.2] at this; cases this

/-- DESCENT: a thread cannot stay at straight-line program points for ever. -/
theorem descent (x : Exec s0) (hr : Reachable s0) (hw : WeakFair x) (t : Tid) :
    ∀ r j, rk (x.ρ j) t = r → (∀ j', j ≤ j' → Straight ((x.ρ j').pc t)) → False := by
  intro r
  induction r using Nat.strongRecOn with
  | ind r ih =>
    intro j hj hp
    have hready : ∀ j', j ≤ j' → Ready (x.ρ j') t :=
      fun j' h => ⟨.inl (hp j' h).1, not_blocked_of_pc (hp j' h).2.1⟩
    obtain ⟨j1, h1, hm⟩ := hw t j hready
    have hle : ∀ d, rk (x.ρ (j + d)) t ≤ r := by
      intro d
      induction d with
      | zero => exact Nat.le_of_eq hj
      | succ d ihd =>
        rcases plain_step x hr t (j + d) (hp _ (by omega)) (hp (j + d + 1) (by omega)).1 with h | h
        · rw [show j + (d + 1) = j + d + 1 by omega, h.2]; exact ihd
        · rw [show j + (d + 1) = j + d + 1 by omega]; omega
    obtain ⟨d, rfl⟩ : ∃ d, j1 = j + d := ⟨j1 - j, by omega⟩
    rcases plain_step x hr t (j + d) (hp _ (by omega)) (hp (j + d + 1) (by omega)).1 with h | h
    · exact h.1 hm
    · exact ih _ (Nat.lt_of_lt_of_le h (hle d)) (j + d + 1) rfl (fun j' hj' => hp j' (by omega))

/-! ### every lock holder releases -/

theorem accounts_cases {p : PC} {f : Frame} {o : ObjId} (h : accounts p f o) :
    Straight p ∨ ∃ c bc, p = .sg c bc .held := by
  rcases h with ⟨h1, h2⟩ | h
  · unfold holdsAt at h1
    split at h1 <;> first
      | exact .inl ⟨by simp, rfl, rfl, rfl, rfl⟩
      | cases h2
      | cases h1
  · split at h <;> first
      | exact .inl ⟨by simp, rfl, rfl, rfl, rfl⟩
      | exact .inr ⟨_, _, rfl⟩
      | exact h.elim

theorem not_accounts_idle {f : Frame} {o : ObjId} : ¬ accounts .idle f o := by
  simp [accounts, holdsAt]

theorem not_accounts_late {c : Nat} {bc : Bool} {f : Frame} {o : ObjId} :
    ¬ accounts (.sg c bc .ret) f o ∧ ∀ l, ¬ accounts (.sg c bc (.wake l)) f o := by
  simp [accounts, holdsAt]

/-- a thread at `held` (it has the cv's spinlock, its next step releases it) that never leaves -/
theorem held_forever_false (x : Exec s0) (hr : Reachable s0) (hw : WeakFair x) (u : Tid) (c : Nat) (bc : Bool) (j1 : Nat)
    (hstay : ∀ d, (x.ρ (j1 + d)).pc u = .sg c bc .held) : False := by
  obtain ⟨j2, hj2, hm⟩ := hw u j1 (fun j' hj' => by
    obtain ⟨d, rfl⟩ : ∃ d, j' = j1 + d := ⟨j' - j1, by omega⟩
    exact ⟨.inl (by rw [hstay d]; simp), not_blocked_of_pc (by rw [hstay d]; rfl)⟩)
  obtain ⟨d, rfl⟩ : ∃ d, j2 = j1 + d := ⟨j2 - j1, by omega⟩
  obtain ⟨e, hprog, _⟩ := x.prog hr u (j1 + d)
  have h1 := hstay d
  have h2 : (x.ρ (j1 + d + 1)).pc u = .sg c bc .held := hstay (d + 1)
  rcases hprog with h | h | ⟨ho, hd, h | h | h | h | h | h⟩
  · rw [h1] at h; cases h
  · rw [h2] at h; cases h
  · exact hm.elim (fun a => a h.1) (fun a => a h.2.1)
  · simp [rk, h1, rank] at h
  · rw [h1] at h; cases h.1
  · obtain ⟨k, hk, _⟩ := h; rw [h1] at hk; cases hk
  · rw [h1] at h; cases h.1
  · have := h.1; rw [h1, h2] at this
    rcases this with h' | ⟨l, h'⟩ <;> cases h'

/-- Every holder of an object's mutex / of a cv's spinlock releases it. -/
theorem holder_releases (x : Exec s0) (hr : Reachable s0) (hw : WeakFair x) (hf : ForeignRelease x)
    (o : ObjId) (u : Tid) (j : Nat) (h : ((x.ρ j).obj o).lock = some u) :
    ∃ j', j ≤ j' ∧ ((x.ρ j').obj o).lock ≠ some u := by
  apply Classical.byContradiction
  intro hno
  have hall : ∀ j', j ≤ j' → ((x.ρ j').obj o).lock = some u :=
    fun j' hj => Classical.byContradiction (fun hne => hno ⟨j', hj, hne⟩)
  have hacc : ∀ j', j ≤ j' → accounts ((x.ρ j').pc u) ((x.ρ j').fr u) o := fun j' hj =>
    Classical.byContradiction fun hna => by
      obtain ⟨j'', h1, h2⟩ := hf j' o u (hall j' hj) hna
      exact h2 (hall j'' (by omega))
  by_cases hheld : ∃ j', j ≤ j' ∧ ∃ c bc, (x.ρ j').pc u = .sg c bc .held
  · obtain ⟨j1, hj1, c, bc, hpc⟩ := hheld
    refine held_forever_false x hr hw u c bc j1 ?_
    intro d
    induction d with
    | zero => exact hpc
    | succ d ih =>
      obtain ⟨e, hprog, _⟩ := x.prog hr u (j1 + d)
      have hacc' := hacc (j1 + d + 1) (by omega)
      show (x.ρ (j1 + d + 1)).pc u = _
      rcases hprog with h | h | ⟨ho, hd, h | h | h | h | h | h⟩
      · rw [ih] at h; cases h
      · rw [h] at hacc'; exact absurd hacc' not_accounts_idle
      · rw [h.1]; exact ih
      · simp [rk, ih, rank] at h
      · rw [ih] at h; cases h.1
      · obtain ⟨k, hk, _⟩ := h; rw [ih] at hk; cases hk
      · rw [ih] at h; cases h.1
      · have := h.1; rw [ih] at this
        rcases this with h' | ⟨l, h'⟩
        · rw [h'] at hacc'; exact absurd hacc' not_accounts_late.1
        · rw [h'] at hacc'; exact absurd hacc' (not_accounts_late.2 l)
  · exact descent x hr hw u _ j rfl (fun j' hj' =>
      (accounts_cases (hacc j' hj')).resolve_right (fun ⟨c, bc, h⟩ => hheld ⟨j', hj', c, bc, h⟩))

/-- Every lock is free again and again. -/
theorem lock_free_again (x : Exec s0) (hr : Reachable s0) (hw : WeakFair x) (hf : ForeignRelease x)
    (o : ObjId) (j : Nat) : ∃ j', j ≤ j' ∧ ((x.ρ j').obj o).lock = none := by
  cases hl : ((x.ρ j).obj o).lock with
  | none => exact ⟨j, Nat.le_refl _, hl⟩
  | some u =>
    obtain ⟨j1, hj1, hne⟩ := holder_releases x hr hw hf o u j hl
    obtain ⟨d, rfl⟩ : ∃ d, j1 = j + d := ⟨j1 - j, by omega⟩
    clear hj1
    induction d with
    | zero => exact absurd hl hne
    | succ d ih =>
      by_cases hd : ((x.ρ (j + d)).obj o).lock = some u
      · rcases x.lock_step hr o (j + d) with h | h | h
        · rw [show j + (d + 1) = j + d + 1 by omega, h] at hne; exact absurd hd hne
        · rw [hd] at h; cases h
        · exact ⟨j + d + 1, by omega, h⟩
      · exact ih hd

end WaitN
