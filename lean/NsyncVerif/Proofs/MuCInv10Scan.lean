import NsyncVerif.Proofs.MuCInv10Ld
/-
  MuC, Inv10: `set_on_release & MU_WRITER_WAITING` through the plain code of the scan.
-/
namespace NsyncVerif.MuC

theorem skipPast_prefix (wr : Wid → WRec) (passed : List Wid) (k : Wid) (rest : List Wid) {x : Wid} (h : x ∈ passed) :
    x ∈ (skipPast wr passed k rest).1 := by
  simp only [skipPast]; (repeat' split) <;> simp [h]

def SwwOk (PW : Wid → Prop) (sc : Scan) : Prop := sc.sww = true → ∃ k, k ∈ sc.done ++ sc.passed ∧ PW k

def ScanAt10 (PW : Wid → Prop) (s' : State) (t : Tid) : Prop :=
  (∀ sc', (s'.pc t).scan? = some sc' → SwwOk PW sc') ∧
  (∀ f, (s'.pc t).finOf = some f → f.sww = true → ∃ k, k ∈ s'.queue ∧ PW k)

def ScanRes.good10 (PW : Wid → Prop) : ScanRes → Prop
  | .eval _ sc' | .remove _ sc' | .iterEnd sc' => SwwOk PW sc'
  | .panic => True

theorem scanGo_sww (wr : Wid → WRec) (PW : Wid → Prop) (hPW : ∀ k, (wr k).lType = .W → (wr k).cond = none → PW k)
    (l : List Wid) (sc : Scan) (h : SwwOk PW sc) : (scanGo wr l sc).good10 PW := by
  induction l generalizing sc with
  | nil => exact h
  | cons k rest ih =>
    unfold scanGo
    split
    · exact h
    · split
      · split
        · exact h
        · trivial
      · rename_i hcnd
        by_cases hw : sc.wt = none ∨ (wr k).lType = .R
        · simp only [wakeOrPass, hw, if_true, ScanRes.good10]
          exact h
        · simp only [wakeOrPass, hw, if_false]
          refine ih _ ?_
          intro _
          refine ⟨k, by simp, hPW k ?_ ?_⟩
          · cases hl : (wr k).lType with
            | W => rfl
            | R => exact absurd (Or.inr hl) hw
          · cases hc : (wr k).cond with
            | none => rfl
            | some c => rw [hc] at hcnd; simp at hcnd

theorem pickup_sww {s : State} {sc sc2 : Scan} {PW : Wid → Prop} (h : (pickup s sc).2 = some sc2) (hok : SwwOk PW sc) : SwwOk PW sc2 := by
  obtain ⟨_, hd, hp, _, _, _⟩ := pickup_some' h
  have hs : sc2.sww = sc.sww := by
    unfold pickup at h
    split at h
    · cases h
    · simp only [Option.some.injEq] at h; subst h; rfl
  intro hsw
  rw [hs] at hsw
  obtain ⟨k, hk, hp'⟩ := hok hsw
  refine ⟨k, ?_, hp'⟩
  rw [hd, hp]
  simp only [List.mem_append] at hk ⊢
  rcases hk with a | a
  · exact Or.inl (Or.inl a)
  · exact Or.inl (Or.inr (Or.inl a))

theorem scanAt10_scan {PW : Wid → Prop} {s : State} {t : Tid} {p : PC} {sc : Scan} (hp : p.scan? = some sc) (hok : SwwOk PW sc)
    (hfin : p.finOf = none) : ScanAt10 PW (setPc s t p) t := by
  refine ⟨?_, ?_⟩
  · intro sc' h; simp only [setPc_pc, setFn_same, hp, Option.some.injEq] at h; subst h; exact hok
  · intro f h; simp only [setPc_pc, setFn_same, hfin] at h; cases h

theorem pickup_sww_none {PW : Wid → Prop} {s s1 : State} {sc : Scan} (t : Tid) (r : Ret) (hp : pickup s sc = (s1, none))
    (hok : SwwOk PW sc) : ScanAt10 PW (toFin s1 t r sc) t := by
  have e2 : (pickup s sc).2 = none := by rw [hp]
  have e1 : s1 = (pickup s sc).1 := by rw [hp]
  obtain ⟨_, hq1⟩ := pickup_none' e2
  refine ⟨?_, ?_⟩
  · intro sc' h; simp [toFin, PC.scan?] at h
  · intro f h hsw
    simp only [toFin, setPc_pc, setFn_same, PC.finOf, Option.some.injEq] at h
    subst h
    obtain ⟨k, hk, hp'⟩ := hok (by simpa [mkFin] using hsw)
    refine ⟨k, ?_, hp'⟩
    simp only [toFin, setPc_queue]
    rw [e1, hq1]
    simp only [List.mem_append] at hk ⊢
    rcases hk with a | a
    · exact Or.inl a
    · exact Or.inr (Or.inl a)

theorem scanRun_sww (PW : Wid → Prop) : ∀ (n : Nat) (s : State) (t : Tid) (r : Ret) (sc : Scan) (s' : State),
    scanRun n s t r sc = .ok s' → (∀ k, (s.wr k).lType = .W → (s.wr k).cond = none → PW k) →
    (∀ s1 : State, LnkOnly s s1 → ∀ k, (s1.wr k).lType = .W → (s1.wr k).cond = none → PW k) →
    SwwOk PW sc → ScanAt10 PW s' t := by
  intro n
  induction n with
  | zero => intro s t r sc s' h; simp [scanRun] at h
  | succ n ih =>
    intro s t r sc s' h hPW hPW' hok
    unfold scanRun at h
    have hg := scanGo_sww s.wr PW hPW sc.todo sc hok
    split at h
    · cases h
    · rename_i k sc' heq
      rw [heq] at hg
      simp only [Except.ok.injEq] at h; subst h
      exact scanAt10_scan rfl hg rfl
    · rename_i k sc' heq
      rw [heq] at hg
      simp only [Except.ok.injEq] at h; subst h
      exact scanAt10_scan rfl hg rfl
    · rename_i sc' heq
      rw [heq] at hg
      split at h
      · simp only [Except.ok.injEq] at h; subst h
        exact scanAt10_scan rfl hg rfl
      · split at h
        · rename_i s1 hp
          simp only [Except.ok.injEq] at h; subst h
          exact pickup_sww_none t r hp hg
        · rename_i s1 sc2 hp
          have e2 : (pickup s sc').2 = some sc2 := by rw [hp]
          have e1 : s1 = (pickup s sc').1 := by rw [hp]
          have hok2 := pickup_sww e2 hg
          split at h
          · simp only [Except.ok.injEq] at h; subst h
            exact scanAt10_scan rfl hok2 rfl
          · have hl1 : LnkOnly s s1 := by rw [e1]; exact lnkOnly_pickup s sc'
            exact ih _ t r sc2 s' h (hPW' s1 hl1) (fun s2 hl2 => hPW' s2 (hl1.trans hl2)) hok2

theorem afterPickup_sww {PW : Wid → Prop} {s : State} {sc0 : Scan} {t : Tid} {r : Ret} {s' : State}
    (h : afterPickup (pickup s sc0) t r sc0 = .ok s')
    (hPW' : ∀ s1 : State, LnkOnly s s1 → ∀ k, (s1.wr k).lType = .W → (s1.wr k).cond = none → PW k)
    (hok : SwwOk PW sc0) : ScanAt10 PW s' t := by
  unfold afterPickup at h
  split at h
  · rename_i s1 hp
    simp only [Except.ok.injEq] at h; subst h
    exact pickup_sww_none t r hp hok
  · rename_i s1 sc2 hp
    have e2 : (pickup s sc0).2 = some sc2 := by rw [hp]
    have e1 : s1 = (pickup s sc0).1 := by rw [hp]
    have hok2 := pickup_sww e2 hok
    have hl1 : LnkOnly s s1 := by rw [e1]; exact lnkOnly_pickup s sc0
    split at h
    · simp only [Except.ok.injEq] at h; subst h
      exact scanAt10_scan rfl hok2 rfl
    · exact scanRun_sww PW _ _ t r sc2 s' h (hPW' s1 hl1) (fun s2 hl2 => hPW' s2 (hl1.trans hl2)) hok2

theorem afterEval_sww {PW : Wid → Prop} {s : State} {sc : Scan} {t : Tid} {r : Ret} {res : Bool} {s' : State}
    (h : afterEval s t r sc res = .ok s')
    (hPW' : ∀ s1 : State, LnkOnly s s1 → ∀ k, (s1.wr k).lType = .W → (s1.wr k).cond = none → PW k)
    (hok : SwwOk PW sc)
    (htrue : res = true → ∀ k rest, sc.todo = k :: rest → (s.wr k).lType = .W → PW k) : ScanAt10 PW s' t := by
  have hPW := hPW' s (LnkOnly.refl s)
  unfold afterEval at h
  split at h
  · cases h
  · rename_i k rest hk
    split at h
    · refine scanRun_sww PW 3 s t r _ s' h hPW hPW' ?_
      intro hsw
      obtain ⟨x, hx, hp⟩ := hok hsw
      refine ⟨x, ?_, hp⟩
      simp only [List.mem_append] at hx ⊢
      rcases hx with a | a
      · exact Or.inl a
      · exact Or.inr (skipPast_prefix s.wr sc.passed k rest a)
    · rename_i hres
      have hres' : res = true := by simpa using hres
      by_cases hw : sc.wt = none ∨ (s.wr k).lType = .R
      · simp only [wakeOrPass, hw, if_true, Except.ok.injEq] at h
        subst h
        exact scanAt10_scan rfl hok rfl
      · simp only [wakeOrPass, hw, if_false] at h
        refine scanRun_sww PW 3 s t r _ s' h hPW hPW' ?_
        intro _
        refine ⟨k, by simp, htrue hres' k rest hk ?_⟩
        cases hl : (s.wr k).lType with
        | W => rfl
        | R => exact absurd (Or.inr hl) hw

end NsyncVerif.MuC
