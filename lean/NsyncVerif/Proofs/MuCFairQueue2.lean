import NsyncVerif.Proofs.MuCFairQueue
/-
  MuC: `queue_frame`, compare-and-swap steps and the rest.
-/
namespace NsyncVerif.MuC

variable {s s' : State} {t u : Tid}

/-- a successful CAS that takes the spinlock cannot happen while `u` owns it -/
theorem spin_taken_contra (h3 : Inv3 s) (hsp : s.sp = some u) {old : Word} (hw : s.word = old) (ho : old.spin = false) : False := by
  have := h3.bit; rw [hsp, hw, ho] at this; cases this

theorem queue_stepCasA {o : Ord} {loc : Loc} {exp new obs : Nat} {ok : Bool} (h3 : Inv3 s) (hsp : s.sp = some u) (hne : t ≠ u)
    (hp : match s.pc t with
      | .usCasGrab _ _ | .usRelCas _ _ _ | .usReCas _ _ _ | .usRcCas _ _ _ _ => True
      | _ => False)
    (hs : stepCas s t o loc exp new obs ok = .ok s') : s'.queue = s.queue := by
  unfold stepCas at hs
  split at hs
  all_goals try (rename_i heq; rw [heq] at hp; exact False.elim hp)
  all_goals try (rename_i hne; split at hp <;> first | exact False.elim hp | (exfalso; simp_all; done))
  · rename_i r old heq
    have hok := h3.ok3 t; rw [heq] at hok
    rcases casWordE_ok hs with ⟨hw, -, hs⟩ | ⟨-, -, rfl⟩
    · exact (spin_taken_contra h3 hsp hw hok).elim
    · simp
  · rename_i r sc old heq; q_owner h3 hsp hne heq
  · rename_i r sc old heq
    have hok := h3.ok3 t; rw [heq] at hok
    rcases casWordE_ok hs with ⟨hw, -, hs⟩ | ⟨-, -, rfl⟩
    · exact (spin_taken_contra h3 hsp hw hok.1).elim
    · simp
  · rename_i r sc k old heq
    cases htc : sc.tc with
    | false =>
      exfalso
      have hown := (h3.own t).2 (by rw [heq]; simp [PC.spin, htc])
      rw [hsp] at hown
      exact hne (Option.some.inj hown).symm
    | true =>
      repeat' split at hs
      all_goals first
        | (cases hs; done)
        | skip
      · exact (scanRun_queue_tc _ _ _ _ _ _ hs htc).trans (by simp)
      · cases hs; simp

macro "cas_caseQ" hs:ident : tactic => `(tactic|
  (rcases casWord_ok $hs with ⟨hw, -, hs'⟩ | ⟨-, -, hs'⟩ <;> subst hs' <;> q_local))

theorem queue_stepCasB {o : Ord} {loc : Loc} {exp new obs : Nat} {ok : Bool}
    (hp : match s.pc t with
      | .lkCas0 _ | .lkCas1 _ _ | .tryCas0 _ | .tryCas1 _ _ | .lsCasAcq _ _ | .lsCasEnq _ _ | .lsRelCas _ _
      | .ulCas0 _ _ | .ulCas1 _ _ _ => True
      | _ => False)
    (hs : stepCas s t o loc exp new obs ok = .ok s') : s'.queue = s.queue := by
  unfold stepCas at hs
  split at hs
  all_goals try (rename_i heq; rw [heq] at hp; exact False.elim hp)
  all_goals try (rename_i hne; split at hp <;> first | exact False.elim hp | (exfalso; simp_all; done))
  all_goals (cas_caseQ hs)

theorem queue_stepCasC {o : Ord} {loc : Loc} {exp new obs : Nat} {ok : Bool} (h3 : Inv3 s) (hsp : s.sp = some u)
    (hp : match s.pc t with
      | .usCasUnc _ _ | .usFinCas _ _ _ | .mwEnqCas _ _ | .mwRelCas _ _ _ | .mtCasAcq _ _ | .mtCasWW _ _ | .mtRmCas _ _ _ => True
      | _ => False)
    (hs : stepCas s t o loc exp new obs ok = .ok s') : s'.queue = s.queue := by
  unfold stepCas at hs
  split at hs
  all_goals try (rename_i heq; rw [heq] at hp; exact False.elim hp)
  all_goals try (rename_i hne; split at hp <;> first | exact False.elim hp | (exfalso; simp_all; done))
  · cas_caseQ hs
  · cas_caseQ hs
  · rename_i c old heq
    have hok := h3.ok3 t; rw [heq] at hok
    split at hs
    · cases hs
    · rcases casWord_ok hs with ⟨hw, -, rfl⟩ | ⟨-, -, rfl⟩
      · exact (spin_taken_contra h3 hsp hw hok).elim
      · simp
  · cas_caseQ hs
  · cas_caseQ hs
  · cas_caseQ hs
  · ld_caseQ hs

theorem queue_stepCas {o : Ord} {loc : Loc} {exp new obs : Nat} {ok : Bool} (h3 : Inv3 s) (hsp : s.sp = some u) (hne : t ≠ u)
    (hs : stepCas s t o loc exp new obs ok = .ok s') : s'.queue = s.queue := by
  cases hpc : s.pc t <;>
    first
    | exact queue_stepCasA h3 hsp hne (by rw [hpc]; trivial) hs
    | exact queue_stepCasB (by rw [hpc]; trivial) hs
    | exact queue_stepCasC h3 hsp (by rw [hpc]; trivial) hs
    | (simp [stepCas, hpc] at hs)

/-- While thread `u` owns MU_SPINLOCK no step of anybody else (environment included) changes mu->waiters. -/
theorem queue_frame {cfg : Cfg} {e : Event} (h1 : Inv1 s) (h3 : Inv3 s) (hsp : s.sp = some u) (hs : step cfg s e = .ok s')
    (hne : e.tid ≠ some u) : s'.queue = s.queue := by
  cases e with
  | call t a =>
    simp only [step, stepCall] at hs
    split at hs
    · cases a <;> dsimp only at hs
      all_goals (repeat' split at hs)
      all_goals first
        | (cases hs; done)
        | (cases hs; q_local)
    · cases hs
  | ret t a res =>
    simp only [step, stepRet] at hs
    split at hs
    all_goals first
      | (cases hs; done)
      | (repeat' split at hs
         all_goals first
           | (cases hs; done)
           | (cases hs; q_local)
           | (cases hs; rename_i c _ _ _ _ _; cases c.w <;> q_local))
  | ld t o loc obs => exact queue_stepLd h3 hsp (fun e => hne (by rw [e]; rfl)) hs
  | st t o loc new obs => exact queue_stepSt h3 hsp (fun e => hne (by rw [e]; rfl)) hs
  | cas t o loc exp new obs ok => exact queue_stepCas h3 hsp (fun e => hne (by rw [e]; rfl)) hs
  | cond t fn k res =>
    simp only [step, stepCond] at hs
    split at hs
    · repeat' split at hs
      all_goals first
        | (cases hs; done)
        | (cases hs; q_local)
    · rename_i r sc heq
      have hok0 := h1.pcok t; rw [heq] at hok0
      repeat' split at hs
      all_goals first
        | (cases hs; done)
        | skip
      exact afterEval_queue hs hok0.2.2.1
    · cases hs
  | semPEnter t k | semPRet t k | semPdEnter t k dl | semPdRet t k b | semV t k | noteSeen t | noteNotify t
  | envV k | envSem k n | dataR t x v | dataW t x v | tick n =>
    simp only [step] at hs
    repeat' split at hs
    all_goals first
      | (cases hs; done)
      | (cases hs; q_local)
      | (cases hs; simp [semPost, afterFin_eq])

end NsyncVerif.MuC
