import NsyncVerif.Proofs.MuCFairSpin2
set_option linter.unusedSimpArgs false
/-
  MuC, fair termination, step C: `spin_region_exit`.
-/
namespace NsyncVerif.MuC

variable {cfg : Cfg} {s0 : State}

theorem not_spinS_of_not_spin {p : PC} (h : p.spin = false) : p.spinS = false := by
  cases hs : p.spinS with
  | false => rfl
  | true => rw [spinS_spin hs] at h; cases h

/-- Step C.  Thread `u` is in a spinlock region outside the scan loop of unlock_slow (queue insertion and
    mu_release_spinlock of lock_slow; release loop of nsync_mu_wait; removal after a timeout; the release before
    conditions are tested and the final CAS of unlock_slow).  If from now on nobody else changes the word and no CAS on a
    `remove_count` fails, `u` leaves the region — in at most 6 own steps (one stale CAS, one re-load, one CAS; 7 for the
    removal after a timeout), which weak fairness gives it. -/
theorem spin_region_exit (x : Exec cfg s0) (hf : WeakFair x) (hr : Reachable cfg s0) (u : Tid) (i : Nat)
    (hin : ((x.ρ i).pc u).spinS = true)
    (hquiet : ∀ j, i ≤ j → ¬ RMoves x u j → (x.ρ (j + 1)).word = (x.ρ j).word)
    (hrc : ∀ j e, i ≤ j → x.σ j = some e → e.rcFail = false) :
    ∃ j, i ≤ j ∧ ((x.ρ j).pc u).spinS = true ∧ RMoves x u j ∧ ((x.ρ (j + 1)).pc u).spinS = false := by
  let R : Nat → Prop := fun j => i ≤ j ∧ ((x.ρ j).pc u).spinS = true
  let rk : Nat → Nat := fun j => spinRk ((x.ρ j).pc u) (staleB (x.ρ j) ((x.ρ j).pc u))
  have key := fair_exit_t x hf u R rk
    (fun j hj => by
      obtain ⟨_, hj⟩ := hj
      cases hp : (x.ρ j).pc u <;> simp [PC.spinS, hp] at hj <;> simp)
    (fun j hj hnm => by
      have hpc := not_rmoves_frame x hnm
      have hw := hquiet j hj.1 hnm
      refine ⟨⟨by omega, by rw [hpc]; exact hj.2⟩, ?_⟩
      show spinRk _ _ ≤ spinRk _ _
      rw [hpc]; unfold staleB; rw [hw]; exact Nat.le_refl _)
    (fun j hj ⟨e, he, ht, hd⟩ hj' => by
      have hs := x.next_some he
      have h3 := reachable_inv3 (x.reach hr j)
      have hj2 := hj'.2
      have hj1 := hj.2
      have hij : i ≤ j := hj.1
      show spinRk _ _ < spinRk _ _
      cases hp : (x.ρ j).pc u <;> simp [PC.spinS, hp] at hj1
      case lsSt c =>
        obtain ⟨c', a⟩ := own_lsSt hs ht hd hp
        simp [a, spinRk, staleB, PC.casOld]
      case lsRelLd c =>
        obtain ⟨a, b⟩ := own_lsRelLd hs ht hd hp
        simp [a, b, spinRk, staleB, PC.casOld]
      case lsRelCas c old =>
        rcases own_lsRelCas hs ht hd hp with ⟨_, a⟩ | ⟨a, b, _⟩
        · rw [a] at hj2; simp [PC.spinS] at hj2
        · simp [b, spinRk, staleB, PC.casOld, Ne.symm a]
      case usRelLd r sc =>
        obtain ⟨a, b⟩ := own_usRelLd hs ht hd hp
        simp [a, b, spinRk, staleB, PC.casOld]
      case usRelCas r sc old =>
        rcases own_usRelCas h3 hs ht hd hp with ⟨_, a⟩ | ⟨a, b, _⟩
        · rw [not_spinS_of_not_spin a] at hj2; cases hj2
        · simp [b, spinRk, staleB, PC.casOld, Ne.symm a]
      case usFinLd r f =>
        obtain ⟨a, b⟩ := own_usFinLd hs ht hd hp
        simp [a, b, spinRk, staleB, PC.casOld]
      case usFinCas r f old =>
        rcases own_usFinCas hs ht hd hp with ⟨_, a⟩ | ⟨a, b, _⟩
        · rw [a, finPc_not_spinS] at hj2; cases hj2
        · simp [b, spinRk, staleB, PC.casOld, Ne.symm a]
      case mwRelLd c =>
        obtain ⟨⟨a0, a⟩, b⟩ := own_mwRelLd hs ht hd hp
        simp [a, b, spinRk, staleB, PC.casOld]
      case mwRelCas c old a0 =>
        rcases own_mwRelCas hs ht hd hp with ⟨_, a⟩ | ⟨a, b, _⟩
        · rw [a] at hj2; cases hj2
        · simp [b, spinRk, staleB, PC.casOld, Ne.symm a]
      case mtLdW c old =>
        rcases own_mtLdW hs ht hd hp with a | a <;> simp [a, spinRk, staleB, PC.casOld]
      case mtLdRc c old =>
        rcases own_mtLdRc hs ht hd hp with a | a <;> simp [a, spinRk, staleB, PC.casOld]
      case mtRmLd c old =>
        obtain ⟨rc, a⟩ := own_mtRmLd hs ht hd hp
        simp [a, spinRk, staleB, PC.casOld]
      case mtRmCas c old rc =>
        rcases own_mtRmCas hs ht hd hp with a | ⟨_, a⟩
        · simp [a, spinRk, staleB, PC.casOld]
        · rw [hrc j e hij he] at a; cases a
      case mtStW c old =>
        have a := own_mtStW hs ht hd hp
        simp [a, spinRk, staleB, PC.casOld]
      case mtStRel c old ok =>
        obtain ⟨c', a⟩ := own_mtStRel hs ht hd hp
        rw [a] at hj2; simp [PC.spinS] at hj2)
  obtain ⟨j, hij, hRj, hm, hn⟩ := key (rk i) i (Nat.le_refl _) ⟨Nat.le_refl _, hin⟩
  refine ⟨j, hij, hRj.2, hm, ?_⟩
  cases h : ((x.ρ (j + 1)).pc u).spinS with
  | false => rfl
  | true => exact absurd ⟨by omega, h⟩ hn

end NsyncVerif.MuC
