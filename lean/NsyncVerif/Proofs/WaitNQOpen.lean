/-
  Proofs/WaitNQOpen.lean — `QI` across the protocol-driven steps (`proto`, `stepOpen`): nested mutex calls,
  notification, counter CAS, pop and post by a note / counter waker.
-/
import NsyncVerif.Proofs.WaitNQStep2

set_option linter.unusedSimpArgs false
set_option linter.unusedVariables false

namespace WaitN

/-- the nested-call state of a protocol-driven thread changes -/
theorem qi_setMc {s : State} {t : Tid} {m : MC} (h : QI s) (hpost : s.post t = none)
    (hop : m ≠ .none → opn (s.pc t) = true ∧ wk (s.pc t) = none) : QI (s.setMc t m) := by
  refine qi_transfer h rfl rfl rfl (fun _ => rfl) ?_ ?_
  · intro u hpo
    simp only [setMc_post, setMc_mc, setMc_pc] at hpo ⊢
    by_cases hu : u = t
    · subst hu; exact absurd hpost hpo
    · simp only [hu, if_false]; exact h.q6 u hpo
  · intro u hm
    simp only [setMc_mc, setMc_pc] at hm ⊢
    by_cases hu : u = t
    · subst hu; simp only [if_true] at hm; exact hop hm
    · simp only [hu, if_false] at hm; exact h.q11 u hm

theorem qi_proto {s s' : State} {t : Tid} {e : Ev} (h : QI s) (hop : opn (s.pc t) = true) (hwk : wk (s.pc t) = none)
    (hmc : s.mc t = .none) (hp : proto s t e = .ok s') : QI s' := by
  unfold proto at hp
  split at hp
  · -- lockCall
    split at hp
    · rename_i hg; cases hp
      exact qi_setMc h (by simpa using hg.2.2) (fun _ => ⟨hop, hwk⟩)
    · simp at hp
  · -- unlockCall
    dsimp only at hp
    split at hp
    · rename_i o hg; cases hp
      refine qi_setMc (qi_lockRel h hg.1 hg.2.1 (fun _ hw => hg.2.2 hw)) hg.2.1 (fun _ => ⟨hop, hwk⟩)
    · simp at hp
  · split at hp
    · cases hp; exact h
    · simp at hp
  · -- st notified
    dsimp only at hp
    split at hp
    · rename_i hg; cases hp; exact qi_setFlag h hg.1
    · simp at hp
  · split at hp
    · cases hp; exact h
    · simp at hp
  · split at hp
    · cases hp; exact h
    · simp at hp
  · -- cas
    dsimp only at hp
    split at hp
    · rename_i hg
      split at hp
      · split at hp
        · simp at hp
        · cases hp; exact qi_setValue h hg.1
      · cases hp; exact h
    · simp at hp
  · -- pop
    dsimp only at hp
    split at hp
    · simp at hp
    · rename_i r fn new obs hd tl hq
      split at hp
      · rename_i hg; cases hp
        obtain ⟨h1, h2, h3, h4, h5, _, _⟩ := hg
        subst h1
        exact qi_pop h hq (by simpa using h2) h3 h5 hmc hop hwk
      · simp at hp
  · -- semV
    split at hp
    · exact qi_dflt h hp
    · rename_i j r hpo
      split at hp
      · rename_i s1 hps; cases hp
        have h1 := qi_postSem h hps
        have k := keeps_postSem (t := t) hps
        refine qi_postDone (qi_setSem h1) ?_
        simp only [setSem_pc]; rw [k.1]; exact hwk
      · simp at hp
  · exact qi_dflt h hp

theorem qi_stepOpen {s s' : State} {t : Tid} {e : Ev} (h : QI s) (hop : opn (s.pc t) = true) (hwk : wk (s.pc t) = none)
    (hp : stepOpen s t e = .ok s') : QI s' := by
  unfold stepOpen at hp
  split at hp
  · -- locking o
    rename_i o hm
    have hpost : s.post t = none := by
      cases hpo : s.post t with
      | none => rfl
      | some r => have := (h.q6 t (by rw [hpo]; simp)).1; rw [hm] at this; cases this
    split at hp
    · split at hp
      · rename_i hg; cases hp
        exact qi_setMc (qi_lockAcq h hg.1 hg.2) hpost (fun hx => absurd rfl hx)
      · simp at hp
    · exact qi_dflt h hp
  · -- unlocking
    rename_i hm
    have hpost : s.post t = none := by
      cases hpo : s.post t with
      | none => rfl
      | some r => have := (h.q6 t (by rw [hpo]; simp)).1; rw [hm] at this; cases this
    split at hp
    · cases hp; exact qi_setMc h hpost (fun hx => absurd rfl hx)
    · exact qi_dflt h hp
  · rename_i hm; exact qi_proto h hop hwk hm hp

/-- protocol-driven steps never touch live / owner / obj / deqd of a record, and release only the lock
    named by an `unlockCall` -/
theorem stepOpen_keeps {s s' : State} {t : Tid} {e : Ev} (hp : stepOpen s t e = .ok s') :
    (∀ r, (s'.rcd r).deqd = (s.rcd r).deqd ∧ (s'.rcd r).live = (s.rcd r).live)
    ∧ (∀ o, (s.obj o).lock = some t → e ≠ .unlockCall o → (s'.obj o).lock = some t) := by
  unfold stepOpen at hp
  split at hp
  · split at hp
    · split at hp
      · rename_i hg; cases hp
        refine ⟨fun r => ⟨rfl, rfl⟩, fun o hl _ => ?_⟩
        simp only [setMc_obj, setObj_obj]; split
        · rfl
        · exact hl
      · simp at hp
    · have := shared_dflt hp; exact ⟨fun r => by rw [this.2.1]; exact ⟨rfl, rfl⟩, fun o hl _ => by rw [this.1]; exact hl⟩
  · split at hp
    · cases hp; exact ⟨fun r => ⟨rfl, rfl⟩, fun o hl _ => hl⟩
    · have := shared_dflt hp; exact ⟨fun r => by rw [this.2.1]; exact ⟨rfl, rfl⟩, fun o hl _ => by rw [this.1]; exact hl⟩
  · unfold proto at hp
    split_ok hp
    all_goals try first
      | (have := shared_dflt hp; exact ⟨fun r => by rw [this.2.1]; exact ⟨rfl, rfl⟩, fun o hl _ => by rw [this.1]; exact hl⟩)
      | (cases hp; exact ⟨fun r => ⟨rfl, rfl⟩, fun o hl _ => hl⟩)
    all_goals try (
      cases hp
      refine ⟨fun r => ?_, fun o hl hne => ?_⟩
      · simp; try (split <;> simp_all)
      · simp; try (split <;> simp_all))
    · -- unlockCall
      rename_i o hg
      cases hp
      refine ⟨fun r => ⟨rfl, rfl⟩, fun o' hl hne => ?_⟩
      have : o' ≠ o := fun hh => hne (by rw [hh])
      simp [this, hl]
    · -- pop
      cases hp
      refine ⟨fun r => ?_, fun o' hl _ => ?_⟩
      · simp only [setPost_rcd, setRec_rcd, setObj_rcd]; split
        · rename_i hr; subst hr; exact ⟨rfl, rfl⟩
        · exact ⟨rfl, rfl⟩
      · simp only [setPost_obj, setRec_obj, setObj_obj]; split
        · rename_i ho; subst ho; exact hl
        · exact hl
    · -- semV
      rename_i s1 hps
      cases hp
      simp only [setPost_rcd, setSem_rcd, setPost_obj, setSem_obj]
      unfold postSem at hps; split at hps
      · unfold bindSem at hps; split_ok hps
        all_goals (cases hps; try exact ⟨fun r => ⟨rfl, rfl⟩, fun o hl _ => hl⟩)
      · cases hps; exact ⟨fun r => ⟨rfl, rfl⟩, fun o hl _ => hl⟩

end WaitN
