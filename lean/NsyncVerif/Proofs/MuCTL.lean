import NsyncVerif.Proofs.MuCTLMisc
import NsyncVerif.Proofs.MuCTLLw3
/-
  MuC: all the facts about one step of thread `t` (`StepTL`), for every event of `t` except client data accesses.
-/
namespace NsyncVerif.MuC

theorem step_tl {cfg : Cfg} {s s' : State} {e : Event} {t : Tid} (h1 : Inv1 s) (h3 : Inv3 s)
    (h : step cfg s e = .ok s') (he : e.tid = some t)
    (hd : ∀ u x v, e ≠ .dataW u x v) (hr : ∀ u x v, e ≠ .dataR u x v) : StepTL s s' t := by
  have hoth : ∀ u, u ≠ t → s'.pc u = s.pc u ∧ s'.held u = s.held u :=
    fun u hu => step_other h u (by rw [he]; intro e'; cases e'; exact hu rfl)
  cases e with
  | call u a =>
    cases he
    have hm := miscTL_call (t := t) h
    exact ⟨hoth, hm.1, hm.2, recTL_call h, waitTL_call h, wordTL_call h, rkeep_call h, lwTL_call h⟩
  | ret u a res =>
    cases he
    have hm := miscTL_ret (t := t) h
    exact ⟨hoth, hm.1, hm.2, recTL_ret h, waitTL_ret h, wordTL_ret h, rkeep_ret h1 h, lwTL_ret h⟩
  | ld u o loc obs =>
    cases he
    have hm := miscTL_ld (t := t) h
    exact ⟨hoth, hm.1, hm.2, recTL_ld h1 h, waitTL_ld h1 h, wordTL_ld h1 h3 h, rkeep_ld h1 h, lwTL_ld h1 h3 h⟩
  | st u o loc new obs =>
    cases he
    have hm := miscTL_st (t := t) h
    exact ⟨hoth, hm.1, hm.2, recTL_st h1 h, waitTL_st h1 h, wordTL_st h1 h3 h, rkeep_st h1 h, lwTL_st h1 h3 h⟩
  | cas u o loc exp new obs ok =>
    cases he
    have hm := miscTL_cas (t := t) h1 h
    exact ⟨hoth, hm.1, hm.2, recTL_cas h1 h, waitTL_cas h1 h, wordTL_cas h1 h3 h, rkeep_cas h1 h, lwTL_cas h1 h3 h⟩
  | cond u fn k res =>
    cases he
    have hm := miscTL_cond (t := t) h1 h
    exact ⟨hoth, hm.1, hm.2, recTL_cond h1 h, waitTL_cond h1 h, wordTL_cond h1 h, rkeep_cond h1 h, lwTL_cond h1 h⟩
  | semPEnter u k | semPRet u k | semPdEnter u k dl | semPdRet u k b | semV u k | noteSeen u | noteNotify u =>
    have hu : u = t := by simpa [Event.tid] using he
    have hm := miscTL_sem (t := t) (by simpa using hu) h
    exact ⟨hoth, hm.1, hm.2, recTL_sem (by simpa using hu) h, waitTL_sem h1 (by simpa using hu) h, wordTL_sem (by simpa using hu) h,
      rkeep_sem h1 (by simpa using hu) h, lwTL_sem (by simpa using hu) h⟩
  | envV k | envSem k n | tick n => simp [Event.tid] at he
  | dataW u x v => exact absurd rfl (hd u x v)
  | dataR u x v => exact absurd rfl (hr u x v)

end NsyncVerif.MuC
