/- Proofs/CounterStepB.lean — invariant preservation, one lemma per program point (generated, uniform script). -/
import NsyncVerif.Proofs.CounterStepBase

namespace Counter

variable {s s' : State} {t : Tid} {e : Ev}

theorem inv_aLockCall {d} (hi : Inv s) (hpc : s.pc t = .aLockCall d) (h : stepThr s t e = .ok s') : Inv s' := by
  step_open
  all_goals first | (show ShInv _; shinv_tac) | (show pcInv _ _ _; pcinv_tac) | (show ∀ u, _; rely_tac)

theorem inv_aLockWait {d} (hi : Inv s) (hpc : s.pc t = .aLockWait d) (h : stepThr s t e = .ok s') : Inv s' := by
  step_open
  all_goals first | (show ShInv _; shinv_tac) | (show pcInv _ _ _; pcinv_tac) | (show ∀ u, _; rely_tac)

theorem inv_aLoad {d} (hi : Inv s) (hpc : s.pc t = .aLoad d) (h : stepThr s t e = .ok s') : Inv s' := by
  step_open
  all_goals first | (show ShInv _; shinv_tac) | (show pcInv _ _ _; pcinv_tac) | (show ∀ u, _; rely_tac)

theorem inv_aLoadWaited {d} {r} {idx} (hi : Inv s) (hpc : s.pc t = .aLoadWaited d r idx) (h : stepThr s t e = .ok s') : Inv s' := by
  step_open
  all_goals first | (show ShInv _; shinv_tac) | (show pcInv _ _ _; pcinv_tac) | (show ∀ u, _; rely_tac)

theorem inv_aHeld {d} {r} {idx} {wake} (hi : Inv s) (hpc : s.pc t = .aHeld d r idx wake) (h : stepThr s t e = .ok s') : Inv s' := by
  step_open
  all_goals first | (show ShInv _; shinv_tac) | (show pcInv _ _ _; pcinv_tac) | (show ∀ u, _; rely_tac)

theorem inv_aUnlockWait {d} {r} {idx} (hi : Inv s) (hpc : s.pc t = .aUnlockWait d r idx) (h : stepThr s t e = .ok s') : Inv s' := by
  step_open
  all_goals first | (show ShInv _; shinv_tac) | (show pcInv _ _ _; pcinv_tac) | (show ∀ u, _; rely_tac)

theorem inv_aRet {d} {r} {idx} (hi : Inv s) (hpc : s.pc t = .aRet d r idx) (h : stepThr s t e = .ok s') : Inv s' := by
  step_open
  all_goals first | (show ShInv _; shinv_tac) | (show pcInv _ _ _; pcinv_tac) | (show ∀ u, _; rely_tac)

end Counter
