/-
  Proofs/WaitNSem2.lean — `SemA` (semaphore counts, pending posts) for every step function.
-/
import NsyncVerif.Proofs.WaitNSem

set_option linter.unusedSimpArgs false
set_option linter.unusedVariables false

namespace WaitN

macro "sema_leaf2" h:ident : tactic =>
  `(tactic| first
    | sema_leaf $h
    | exact sema_stepOpen $h
    | exact sema_proto $h
    | (cases $h:ident
       have hb := bindSem_sem ‹bindSem _ _ _ = some _›
       exact SemA.of_eq (fun _ => rfl) hb.2.1 (congrFun hb.2.2.1 _)))

theorem sema_stepSg {s s' : State} {t : Tid} {c : Nat} {bc : Bool} {st : SgSt} {e : Ev}
    (h : stepSg s t c bc st e = .ok s') : SemA s s' t e := by
  unfold stepSg at h
  split_ok h <;> sema_leaf2 h

theorem sema_stepCtrRT {s s' : State} {t : Tid} {u : Use} {i : Nat} {l : Bool} {e : Ev}
    (h : stepCtrRT s t u i l e = .ok s') : SemA s s' t e := by
  unfold stepCtrRT at h
  split_ok h <;> sema_leaf2 h

theorem sema_stepND {s s' : State} {t : Tid} {u : Use} {i : Nat} {st : NDst} {e : Ev}
    (h : stepND s t u i st e = .ok s') : SemA s s' t e := by
  unfold stepND at h
  split_ok h <;> sema_leaf2 h

theorem sema_stepEnqCv {s s' : State} {t : Tid} {i : Nat} {st : CvEnqSt} {e : Ev}
    (h : stepEnqCv s t i st e = .ok s') : SemA s s' t e := by
  unfold stepEnqCv at h
  split_ok h <;> sema_leaf2 h

theorem sema_stepEnq {s s' : State} {t : Tid} {i : Nat} {st : EnqSt} {e : Ev}
    (h : stepEnq s t i st e = .ok s') : SemA s s' t e := by
  unfold stepEnq at h
  split_ok h <;> sema_leaf2 h

theorem sema_stepDeqCv {s s' : State} {t : Tid} {j : Nat} {st : CvDeqSt} {e : Ev}
    (h : stepDeqCv s t j st e = .ok s') : SemA s s' t e := by
  unfold stepDeqCv at h
  split_ok h <;> sema_leaf2 h

theorem sema_stepDeq {s s' : State} {t : Tid} {j : Nat} {st : DeqSt} {e : Ev}
    (h : stepDeq s t j st e = .ok s') : SemA s s' t e := by
  unfold stepDeq at h
  split_ok h <;> sema_leaf2 h

theorem sema_stepAlloc {s s' : State} {t : Tid} {e : Ev} (h : stepAlloc s t e = .ok s') : SemA s s' t e := by
  unfold stepAlloc at h
  split_ok h <;> sema_leaf2 h

theorem sema_stepInit {s s' : State} {t : Tid} {i : Nat} {e : Ev} (h : stepInit s t i e = .ok s') : SemA s s' t e := by
  unfold stepInit at h
  split_ok h <;> sema_leaf2 h

theorem sema_stepUnlockMu {s s' : State} {t : Tid} {e : Ev} (h : stepUnlockMu s t e = .ok s') : SemA s s' t e := by
  unfold stepUnlockMu at h
  split_ok h <;> sema_leaf2 h

theorem sema_stepCvRT {s s' : State} {t : Tid} {j : Nat} {e : Ev} (h : stepCvRT s t j e = .ok s') : SemA s s' t e := by
  unfold stepCvRT at h
  split_ok h <;> sema_leaf2 h

theorem sema_stepPdEnter {s s' : State} {t : Tid} {e : Ev} (h : stepPdEnter s t e = .ok s') : SemA s s' t e := by
  unfold stepPdEnter at h
  split_ok h <;> sema_leaf2 h

theorem sema_stepPdWait {s s' : State} {t : Tid} {j : SemId} {e : Ev} (hpc : s.pc t = .wPdWait j)
    (h : stepPdWait s t j e = .ok s') : SemA s s' t e := by
  cases e with
  | pdRet j' tmo =>
    cases tmo with
    | true =>
      simp only [stepPdWait, if_true] at h
      split_ok h
      all_goals (cases h; exact SemA.of_eq (fun _ => rfl) rfl rfl)
    | false =>
      -- the caller's own P returns 0
      simp only [stepPdWait, Bool.false_eq_true, if_false] at h
      split_ok h
      rename_i hj _ n hn
      cases h
      subst hj
      refine ⟨fun j'' hj' => .inr ?_, fun j'' hlt => ?_, fun r h1 h2 => ?_⟩
      · simp [isPret] at hj'; subst hj'; exact ⟨hpc, fun j' => by simp [startScan]⟩
      · simp only [startScan, setPc_sem, setFr_sem, setSem_sem] at hlt
        split at hlt
        · rename_i hj; subst hj; simp [isPret]
        · exact absurd hlt (Nat.lt_irrefl _)
      · simp [startScan] at h2; exact absurd h1 h2
  | _ =>
    (simp only [stepPdWait] at h) <;> (split_ok h) <;> sema_leaf2 h

theorem sema_stepFree {s s' : State} {t : Tid} {e : Ev} (h : stepFree s t e = .ok s') : SemA s s' t e := by
  unfold stepFree at h
  split_ok h <;> sema_leaf2 h

theorem sema_stepRelock {s s' : State} {t : Tid} {e : Ev} (h : stepRelock s t e = .ok s') : SemA s s' t e := by
  unfold stepRelock at h
  split_ok h <;> sema_leaf2 h

theorem sema_stepRet {s s' : State} {t : Tid} {r : Nat} {e : Ev} (h : stepRet s t r e = .ok s') : SemA s s' t e := by
  unfold stepRet at h
  split_ok h <;> sema_leaf2 h

theorem sema_stepIdle {s s' : State} {t : Tid} {e : Ev} (h : stepIdle s t e = .ok s') : SemA s s' t e := by
  unfold stepIdle at h
  split_ok h <;> sema_leaf2 h

theorem sema_stepThr {s s' : State} {t : Tid} {e : Ev} (h : stepThr s t e = .ok s') : SemA s s' t e := by
  unfold stepThr at h
  split at h <;> rename_i hpc
  · exact sema_stepIdle h
  · simp at h
  · exact sema_stepSg h
  · exact sema_stepCtrRT h
  · exact sema_stepND h
  · exact sema_stepEnqCv h
  · exact sema_stepEnq h
  · exact sema_stepDeqCv h
  · exact sema_stepDeq h
  · exact sema_stepAlloc h
  · exact sema_stepInit h
  · exact sema_stepUnlockMu h
  · exact sema_stepCvRT h
  · exact sema_stepPdEnter h
  · exact sema_stepPdWait hpc h
  · exact sema_stepFree h
  · exact sema_stepRelock h
  · exact sema_stepRet h

end WaitN
