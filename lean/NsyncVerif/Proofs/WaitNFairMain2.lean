/-
  Proofs/WaitNFairMain2.lean — WaitN layer, liveness: an nsync_wait_n call with a finite abs_deadline returns
  (`wait_returns_timed`), by induction on the rank after the last wake-up.
-/
import NsyncVerif.Proofs.WaitNFairMain

set_option linter.unusedSimpArgs false
set_option linter.unusedVariables false

namespace WaitN

variable {s0 : State}

theorem inCall_stepThr {s s' : State} {t : Tid} {e : Ev} (h : stepThr s t e = .ok s') (h1 : s.pc t ≠ .idle)
    (h2 : s'.pc t ≠ .idle) : inCall (s'.pc t) = inCall (s.pc t) := by
  rcases quiet_or_structural h with q | st
  · exact q.inCall t
  · cases st with
    | call mu dl objs nested hpc _ _ _ => exact absurd hpc h1
    | init i r oid hpc _ _ _ hs => subst hs; rw [hpc]; simp; split <;> rfl
    | free hpc hs => subst hs; rw [hpc]; simp only [setPc_pc, if_pos, inCall_relockNext]; rfl
    | ret r hpc hs => subst hs; simp at h2

theorem Exec.inCall_step (x : Exec s0) (t : Tid) (j : Nat) (h1 : (x.ρ j).pc t ≠ .idle)
    (h2 : (x.ρ (j + 1)).pc t ≠ .idle) : inCall ((x.ρ (j + 1)).pc t) = inCall ((x.ρ j).pc t) := by
  cases hs : x.σ j with
  | none => rw [x.next_none hs]
  | some ev =>
    have hstep := x.next_some hs
    cases ev with
    | tick ns => rw [(step_tick hstep).1]
    | thr v e =>
      by_cases hv : v = t
      · subst hv; exact inCall_stepThr (step_thr hstep) h1 h2
      · rw [(others_stepThr (step_thr hstep) t (fun h => hv h.symm)).1]

theorem isNfWake_not_spin {p : PC} (h : isNfWake p = true) : isSpin p = false := by
  unfold isNfWake at h
  split at h
  · rfl
  · cases h

theorem inCall_of_isNfWake {p : PC} (h : isNfWake p = true) : inCall p = true := by
  unfold isNfWake at h
  split at h
  · rfl
  · cases h

theorem rank_nfWake {p : PC} (h : isNfWake p = true) (n : Nat) (po po' : Option Rid) : rank p n po = rank p n po' := by
  unfold isNfWake at h
  split at h
  · rfl
  · cases h

theorem lockWaitOf_some_of_spin {p : PC} {f : Frame} (hl : LInv p f) (hs : isSpin p = true) (hc : inCall p = true) :
    ∃ o, lockWaitOf p f = some o := by
  unfold isSpin at hs
  split at hs
  · cases hc
  · obtain ⟨c, h⟩ := hl.2.2.1; exact ⟨_, h⟩
  · obtain ⟨c, h⟩ := hl.2.2.2.1; exact ⟨_, h⟩
  · cases hs

theorem holdsAt_nfWake {p : PC} {f : Frame} (hl : LInv p f) (h : isNfWake p = true) :
    ∃ o, holdsAt p f = some o ∧ ¬ accounts p f o := by
  unfold isNfWake at h
  split at h
  · rename_i u i
    have hn : isNoteAt f i := by cases u <;> first | exact hl.2.2 | exact hl.2 | exact hl.2.2.2.1
    obtain ⟨n, hn⟩ := hn
    refine ⟨.note n, hn, ?_⟩
    rintro (⟨_, h2⟩ | h2)
    · cases h2
    · exact h2
  · cases h

theorem holdsAt_objs {p : PC} {f f' : Frame} (h : f'.objs = f.objs) : holdsAt p f' = holdsAt p f := by
  unfold holdsAt
  split <;> simp [h]

/-- An nsync_wait_n call returns, provided a sleeper that is never woken again is eventually not blocked (`hsl`). -/
theorem wait_returns_core (x : Exec s0) (H : FairHyps x) (t : Tid) (hfw : FiniteWakeups x t) (i : Nat)
    (hin : inCall ((x.ρ i).pc t) = true)
    (hsl : ∀ j, i ≤ j → (∀ m, i ≤ m → m ≤ j → (x.ρ m).pc t ≠ .idle) → Still x t j → ∀ k, (x.ρ j).pc t = .wPdWait k →
      ∃ j1, j ≤ j1 ∧ ∀ j', j1 ≤ j' → ¬ Blocked (x.ρ j') t) :
    ∃ j, i ≤ j ∧ (x.ρ j).pc t = .idle := by
  have hr := H.reach
  apply Classical.byContradiction
  intro hno
  have hni : ∀ j, i ≤ j → (x.ρ j).pc t ≠ .idle := fun j hj h => hno ⟨j, hj, h⟩
  -- the call stays the same call
  have keep : ∀ d, inCall ((x.ρ (i + d)).pc t) = true := by
    intro d
    induction d with
    | zero => exact hin
    | succ d ih =>
      rw [show i + (d + 1) = i + d + 1 by omega, x.inCall_step t (i + d) (hni _ (by omega)) (hni _ (by omega))]
      exact ih
  have hinc : ∀ j, i ≤ j → inCall ((x.ρ j).pc t) = true := fun j hj => by
    obtain ⟨d, rfl⟩ : ∃ d, j = i + d := ⟨j - i, by omega⟩; exact keep d
  obtain ⟨n, hn⟩ := hfw
  -- classification of the steps after the last wake-up
  have cls : ∀ j, i ≤ j → n ≤ j →
      ((x.ρ (j + 1)).pc t = (x.ρ j).pc t ∧ (x.ρ (j + 1)).post t = (x.ρ j).post t ∧ frSame ((x.ρ j).fr t) ((x.ρ (j + 1)).fr t))
      ∨ rk (x.ρ (j + 1)) t < rk (x.ρ j) t
      ∨ (isSpin ((x.ρ j).pc t) = true ∧ isSpin ((x.ρ (j + 1)).pc t) = true ∧ rk (x.ρ (j + 1)) t = rk (x.ρ j) t
          ∧ lockWaitOf ((x.ρ (j + 1)).pc t) ((x.ρ (j + 1)).fr t) = lockWaitOf ((x.ρ j).pc t) ((x.ρ j).fr t))
      ∨ (isNfWake ((x.ρ j).pc t) = true ∧ (x.ρ (j + 1)).pc t = (x.ρ j).pc t ∧ rk (x.ρ (j + 1)) t = rk (x.ρ j) t
          ∧ ((x.ρ (j + 1)).fr t).objs = ((x.ρ j).fr t).objs) := by
    intro j hj hnj
    obtain ⟨e, hp, he⟩ := x.prog hr t j
    rcases hp with h | h | ⟨ho, _, h | h | h | h | h | h⟩
    · exact absurd h (hni _ hj)
    · exact absurd h (hni _ (by omega))
    · exact .inl h
    · exact .inr (.inl h)
    · exact .inr (.inr (.inl h))
    · obtain ⟨k, hk, hek⟩ := h
      exact absurd (he k hek.1) (hn j k hnj hk)
    · refine .inr (.inr (.inr ⟨h.1, h.2, ?_, ho⟩))
      simp only [rk, h.2, count_eq ho]
      exact rank_nfWake h.1 _ _ _
    · have := sgNext_early h.1
      have hc := hinc j hj
      revert this hc
      cases (x.ρ j).pc t <;> simp [sgEarly, inCall]
  -- induction on the rank
  have core : ∀ r j, i ≤ j → n ≤ j → rk (x.ρ j) t = r → False := by
    intro r
    induction r using Nat.strongRecOn with
    | ind r ih =>
      intro j hj hnj hrk
      have hle : ∀ d, rk (x.ρ (j + d)) t ≤ r := by
        intro d
        induction d with
        | zero => exact Nat.le_of_eq hrk
        | succ d ihd =>
          rw [show j + (d + 1) = j + d + 1 by omega]
          rcases cls (j + d) (by omega) (by omega) with h | h | h | h
          · rw [rk_eq_of_same h.1 h.2.1 (frSame_objs h.2.2)]; exact ihd
          · omega
          · rw [h.2.2.1]; exact ihd
          · rw [h.2.2.1]; exact ihd
      by_cases hdec : ∃ d, rk (x.ρ (j + d)) t < r
      · obtain ⟨d, hd⟩ := hdec
        exact ih _ hd (j + d) (by omega) (by omega) rfl
      · have heq : ∀ d, rk (x.ρ (j + d)) t = r := fun d =>
          Nat.le_antisymm (hle d) (Nat.not_lt.1 (fun h => hdec ⟨d, h⟩))
        -- no step decreases the rank any more
        have cls' : ∀ d, 
            ((x.ρ (j + d + 1)).pc t = (x.ρ (j + d)).pc t ∧ (x.ρ (j + d + 1)).post t = (x.ρ (j + d)).post t
              ∧ frSame ((x.ρ (j + d)).fr t) ((x.ρ (j + d + 1)).fr t))
            ∨ (isSpin ((x.ρ (j + d)).pc t) = true ∧ isSpin ((x.ρ (j + d + 1)).pc t) = true
                ∧ lockWaitOf ((x.ρ (j + d + 1)).pc t) ((x.ρ (j + d + 1)).fr t) = lockWaitOf ((x.ρ (j + d)).pc t) ((x.ρ (j + d)).fr t))
            ∨ (isNfWake ((x.ρ (j + d)).pc t) = true ∧ (x.ρ (j + d + 1)).pc t = (x.ρ (j + d)).pc t
                ∧ ((x.ρ (j + d + 1)).fr t).objs = ((x.ρ (j + d)).fr t).objs) := by
          intro d
          rcases cls (j + d) (by omega) (by omega) with h | h | h | h
          · exact .inl h
          · have h1 := heq d; have h2 := heq (d + 1)
            rw [show j + (d + 1) = j + d + 1 by omega] at h2
            omega
          · exact .inr (.inl ⟨h.1, h.2.1, h.2.2.2⟩)
          · exact .inr (.inr ⟨h.1, h.2.1, h.2.2.2⟩)
        by_cases hsp : isSpin ((x.ρ j).pc t) = true
        · -- in a test-and-set loop for ever
          have hspin : ∀ d, isSpin ((x.ρ (j + d)).pc t) = true
              ∧ lockWaitOf ((x.ρ (j + d)).pc t) ((x.ρ (j + d)).fr t) = lockWaitOf ((x.ρ j).pc t) ((x.ρ j).fr t) := by
            intro d
            induction d with
            | zero => exact ⟨hsp, rfl⟩
            | succ d ihd =>
              rw [show j + (d + 1) = j + d + 1 by omega]
              rcases cls' d with h | h | h
              · rw [h.1, lockWaitOf_objs (frSame_objs h.2.2)]; exact ihd
              · exact ⟨h.2.1, h.2.2.trans ihd.2⟩
              · have := isNfWake_not_spin h.1; rw [ihd.1] at this; cases this
          obtain ⟨o, ho⟩ := lockWaitOf_some_of_spin (linv_of_reachable (x.reach hr j) t) hsp (hinc j hj)
          refine H.lock t o j (fun j' hj' => ?_) (fun j' _ => lock_free_again x hr H.weak H.foreign o j')
          obtain ⟨d, rfl⟩ : ∃ d, j' = j + d := ⟨j' - j, by omega⟩
          rw [(hspin d).2]; exact ho
        · by_cases hnf : isNfWake ((x.ρ j).pc t) = true
          · -- in the protocol-driven wake loop for ever
            have hsame : ∀ d, (x.ρ (j + d)).pc t = (x.ρ j).pc t ∧ ((x.ρ (j + d)).fr t).objs = ((x.ρ j).fr t).objs := by
              intro d
              induction d with
              | zero => exact ⟨rfl, rfl⟩
              | succ d ihd =>
                rw [show j + (d + 1) = j + d + 1 by omega]
                rcases cls' d with h | h | h
                · exact ⟨h.1.trans ihd.1, (frSame_objs h.2.2).trans ihd.2⟩
                · have := isNfWake_not_spin (ihd.1 ▸ hnf); rw [h.1] at this; cases this
                · exact ⟨h.2.1.trans ihd.1, h.2.2.trans ihd.2⟩
            obtain ⟨o, ho, hna⟩ := holdsAt_nfWake (linv_of_reachable (x.reach hr j) t) hnf
            have hlk := ((qinv_of_reachable (x.reach hr j)).cf t).holds o ho
            obtain ⟨j', hj', hne⟩ := H.foreign j o t hlk.1 hna
            obtain ⟨d, rfl⟩ : ∃ d, j' = j + d := ⟨j' - j, by omega⟩
            have ho' : holdsAt ((x.ρ (j + d)).pc t) ((x.ρ (j + d)).fr t) = some o := by
              rw [(hsame d).1, holdsAt_objs (hsame d).2]; exact ho
            exact hne (((qinv_of_reachable (x.reach hr (j + d))).cf t).holds o ho').1
          · -- at one program point for ever
            have hpcs : ∀ d, (x.ρ (j + d)).pc t = (x.ρ j).pc t := by
              intro d
              induction d with
              | zero => rfl
              | succ d ihd =>
                rw [show j + (d + 1) = j + d + 1 by omega]
                rcases cls' d with h | h | h
                · exact h.1.trans ihd
                · rw [ihd] at h; exact absurd h.1 hsp
                · rw [ihd] at h; exact absurd h.1 hnf
            have hst : Still x t j := by
              intro j' hj'
              obtain ⟨d, rfl⟩ : ∃ d, j' = j + d := ⟨j' - j, by omega⟩
              rcases cls' d with h | h | h
              · exact h
              · rw [hpcs d] at h; exact absurd h.1 hsp
              · rw [hpcs d] at h; exact absurd h.1 hnf
            exact stuck_false x H t j hst (hni j hj) (hsl j hj (fun m h1 _ => hni m h1) hst)
  exact core _ (max i n) (Nat.le_max_left _ _) (Nat.le_max_right _ _) rfl

/-- the abs_deadline of a call in progress does not change -/
theorem dl_keep (x : Exec s0) (hr : Reachable s0) (t : Tid) (i : Nat) :
    ∀ d, (∀ m, i ≤ m → m ≤ i + d → (x.ρ m).pc t ≠ .idle) → ((x.ρ (i + d)).fr t).dl = ((x.ρ i).fr t).dl := by
  intro d
  induction d with
  | zero => intro _; rfl
  | succ d ih =>
    intro hni
    obtain ⟨e, hp, _⟩ := x.prog hr t (i + d)
    rcases hp with h | h | ⟨_, h, _⟩
    · exact absurd h (hni _ (by omega) (by omega))
    · exact absurd h (hni (i + d + 1) (by omega) (by omega))
    · rw [show i + (d + 1) = i + d + 1 by omega, h]; exact ih (fun m h1 h2 => hni m h1 (by omega))

/-- An nsync_wait_n call with a finite abs_deadline returns. -/
theorem wait_returns_timed (x : Exec s0) (H : FairHyps x) (hclk : ClockAdvances x) (t : Tid) (hfw : FiniteWakeups x t) (i : Nat)
    (hin : inCall ((x.ρ i).pc t) = true) (d0 : Int) (hdl : ((x.ρ i).fr t).dl = some d0) :
    ∃ j, i ≤ j ∧ (x.ρ j).pc t = .idle := by
  refine wait_returns_core x H t hfw i hin (fun j hj hni hst k hpk => ?_)
  obtain ⟨d, rfl⟩ : ∃ d, j = i + d := ⟨j - i, by omega⟩
  exact sleep_timed_unblocks x H.reach hclk t (i + d) k hst hpk d0 (by rw [dl_keep x H.reach t i d hni]; exact hdl)

end WaitN
