/-
  Proofs/WaitNDq2.lean — the ghost list `deqUnl` of a frame records, for every dequeue call of a condition
  variable that returned 0 ("not still enqueued"), that a signaller had unlinked the record (`DUI`).
-/
import NsyncVerif.Proofs.WaitNDq

set_option linter.unusedSimpArgs false
set_option linter.unusedVariables false

namespace WaitN

structure DUI (s : State) : Prop where
  len : ∀ (t : Tid), (s.fr t).deqUnl.length = (s.fr t).deqRes.length
  cv : ∀ (t : Tid) (k c : Nat), (s.fr t).objs[k]? = some (.cv c) → (s.fr t).deqRes[k]? = some false →
        (s.fr t).deqUnl[k]? = some .waker

theorem dui_init : DUI init := ⟨fun _ => rfl, fun _ _ _ h => by simp [init, Frame.empty] at h⟩

theorem frSame_fields {f g : Frame} (h : frSame f g) : g.deqRes = f.deqRes ∧ g.deqUnl = f.deqUnl ∧ g.objs = f.objs := by
  unfold frSame at h
  rw [h]; exact ⟨rfl, rfl, rfl⟩

theorem dui_step {s s' : State} {v : Tid} {e : Ev} (hr : Reachable s) (hd : DUI s) (h : stepThr s v e = .ok s') :
    DUI s' := by
  have oth := others_stepThr h
  have hl := linv_of_reachable hr v
  have own := own_of_reachable hr
  have q := qinv_of_reachable hr
  -- the frame of another thread keeps the three fields
  have key : ∀ t, t ≠ v → (s'.fr t).deqRes = (s.fr t).deqRes ∧ (s'.fr t).deqUnl = (s.fr t).deqUnl
      ∧ (s'.fr t).objs = (s.fr t).objs := fun t ht => frSame_fields (oth t ht).2.2.2
  rcases dq_stepThr h with same | ⟨j, res, r, hri, hres, hunl, hobjs, kind⟩ | ⟨h1, h2⟩
  · constructor
    · intro t
      by_cases ht : t = v
      · subst ht; rw [same.res, same.unl]; exact hd.len t
      · rw [(key t ht).1, (key t ht).2.1]; exact hd.len t
    · intro t k c
      by_cases ht : t = v
      · subst ht; rw [same.res, same.unl, same.objs]; exact hd.cv t k c
      · rw [(key t ht).1, (key t ht).2.1, (key t ht).2.2]; exact hd.cv t k c
  · -- push
    have hlen : (s.fr v).deqRes.length = j := by
      rcases kind with hp | ⟨hp, _, _⟩ | ⟨st, hp⟩ <;> (rw [hp] at hl; exact hl.2.1)
    constructor
    · intro t
      by_cases ht : t = v
      · subst ht; rw [hres, hunl]; simp [hd.len t]
      · rw [(key t ht).1, (key t ht).2.1]; exact hd.len t
    · intro t k c
      by_cases ht : t = v
      · subst ht
        rw [hres, hunl, hobjs]
        intro hoc hrk
        by_cases hkj : k < j
        · rw [List.getElem?_append_left (by rw [hd.len t, hlen]; exact hkj)]
          rw [List.getElem?_append_left (by rw [hlen]; exact hkj)] at hrk
          exact hd.cv t k c hoc hrk
        · have hkj' : k = j := by
            have : k < ((s.fr t).deqRes ++ [res]).length := by
              rcases Nat.lt_or_ge k ((s.fr t).deqRes ++ [res]).length with h' | h'
              · exact h'
              · rw [List.getElem?_eq_none h'] at hrk; cases hrk
            simp [hlen] at this; omega
          subst hkj'
          have hrf : res = false := by
            rw [List.getElem?_append_right (by rw [hlen]; exact Nat.le_refl _)] at hrk
            simp [hlen] at hrk; exact hrk
          subst hrf
          rw [List.getElem?_append_right (by rw [hd.len t, hlen]; exact Nat.le_refl _)]
          simp [hd.len t, hlen]
          rcases kind with hp | ⟨hp, _, hw⟩ | ⟨st, hp⟩
          · have hw : (s.rcd r).waiting = false := (q.cf t).cleared r (by rw [hp]; simpa [clearedAt] using hri)
            exact cvdeq_waker hr hri (.inl ⟨.inr (.inl hp), hw⟩)
          · exact cvdeq_waker hr hri (.inl ⟨.inr (.inr hp), hw⟩)
          · exfalso
            rw [hp] at hl
            rcases hl.2.2.2.1 with ⟨n, hn⟩ | ⟨k', hk'⟩
            · rw [hn] at hoc; cases hoc
            · rw [hk'] at hoc; cases hoc
      · rw [(key t ht).1, (key t ht).2.1, (key t ht).2.2]; exact hd.cv t k c
  · -- reset
    constructor
    · intro t
      by_cases ht : t = v
      · subst ht; rw [h1, h2]; rfl
      · rw [(key t ht).1, (key t ht).2.1]; exact hd.len t
    · intro t k c
      by_cases ht : t = v
      · subst ht; rw [h1]; intro _ hx; simp at hx
      · rw [(key t ht).1, (key t ht).2.1, (key t ht).2.2]; exact hd.cv t k c

theorem dui_of_reachable {s : State} (h : Reachable s) : DUI s := by
  refine reachable_induction (P := DUI) dui_init ?_ h
  intro s s' e hr ih hs
  cases e with
  | tick ns =>
    simp only [step] at hs
    split at hs
    · cases hs; exact ⟨ih.len, ih.cv⟩
    · simp at hs
  | thr u ev =>
    simp only [step] at hs
    exact dui_step hr ih hs

end WaitN
