/-
  Layer `Note`, fair termination of `nsync_note_wait`: what a wait knows about the expiry time `E`
  of its note (`wOk`): once it has a waiter record `E` is not zero; the `ntime` it has read is zero
  or `E`; the deadline of its sleep is the minimum of its own deadline and such a value.
-/
import NsyncVerif.Proofs.NoteFairTick

set_option linter.unusedSimpArgs false

namespace Note

def DPos.late2 : DPos → Bool
  | .unlockCall | .unlockRet | .now => true
  | _ => false

def DK.recK : DK → Bool
  | .ready2 _ _ | .dequeue _ _ => true
  | _ => false

def NK.recK : NK → Bool
  | .ofDeadline k => k.recK
  | .ofApi => false

/-- A value of `NOTIFIED_TIME`: zero, or the expiry time. -/
def ntOk (E nt : Dl) : Prop := nt = some 0 ∨ nt = E

def wOk (E : Dl) : PC → Prop
  | .dl p _ nt k => (k.recK = true → E ≠ some 0) ∧ (k.isWaitK = true → p.late2 = true → ntOk E nt)
  | .nfy _ _ _ k => k.recK = true → E ≠ some 0
  | .chd _ _ top => top.k.recK = true → E ≠ some 0
  | .wt0 .newRec _ _ => E ≠ some 0
  | .wt p _ wdl _ =>
    E ≠ some 0 ∧
    (match p with
     | .pdEnter m | .pdRet m => ∃ nt, m = Dl.min wdl nt ∧ ntOk E nt
     | _ => True)
  | _ => True

theorem wOk_afterDeadlinePc (E : Dl) (n : NoteId) (nt : Dl) (k : DK)
    (hrec : k.recK = true → E ≠ some 0) (hnt : k.isWaitK = true → ntOk E nt) :
    wOk E (afterDeadlinePc n nt k) := by
  cases k with
  | ready1 wdl =>
    simp only [afterDeadlinePc]
    split
    · next h =>
      show E ≠ some 0
      rcases hnt rfl with h' | h'
      · exact absurd h' h.1
      · rw [← h']; exact h.1
    · trivial
  | ready2 r wdl =>
    simp only [afterDeadlinePc]
    split
    · exact ⟨hrec rfl, nt, rfl, hnt rfl⟩
    · exact ⟨fun _ => hrec rfl, fun _ h => by cases h⟩
  | dequeue r wdl => exact ⟨hrec rfl, trivial⟩
  | isNotified => trivial
  | notifyApi =>
    simp only [afterDeadlinePc]
    split
    · intro h; cases h
    · trivial
  | newSelf par dl =>
    simp only [afterDeadlinePc]
    (repeat' split) <;> trivial

theorem wOk_afterNotifyPc (E : Dl) (n : NoteId) (k : NK) (hrec : k.recK = true → E ≠ some 0) :
    wOk E (afterNotifyPc n k) := by
  cases k with
  | ofApi => trivial
  | ofDeadline k => exact wOk_afterDeadlinePc E n (some 0) k hrec (fun _ => Or.inl rfl)

theorem wOk_childReturnPc (E : Dl) (f : Frame) (rest : List Frame) (top : Top)
    (h : top.k.recK = true → E ≠ some 0) : wOk E (childReturnPc f rest top) := by
  unfold childReturnPc
  cases rest with
  | cons g r => exact h
  | nil => cases top.par <;> exact h

theorem wOk_childLoopStartPc (E : Dl) (cs : List NoteId) (f : Frame) (rest : List Frame) (top : Top)
    (h : top.k.recK = true → E ≠ some 0) : wOk E (childLoopStartPc cs f rest top) := by
  cases cs <;> exact h

theorem wOk_childWakeNextPc (E : Dl) (s : State) (f : Frame) (rest : List Frame) (top : Top)
    (h : top.k.recK = true → E ≠ some 0) : wOk E (childWakeNextPc s f rest top) := by
  unfold childWakeNextPc
  split
  · exact h
  · exact wOk_childLoopStartPc E _ _ _ _ h

theorem wOk_freeLoopStartPc (E : Dl) (cs : List NoteId) (n : NoteId) (par : Option NoteId) :
    wOk E (freeLoopStartPc cs n par) := by cases cs <;> trivial

theorem waitOn_dl_of_isWaitK {p : DPos} {n : NoteId} {nt : Dl} {k : DK} (h : k.isWaitK = true) :
    ∃ wdl, (PC.dl p n nt k).waitOn = some (n, wdl) := by
  cases k <;> simp [DK.isWaitK] at h <;> exact ⟨_, rfl⟩

theorem wOk_ld2 (E : Dl) (s : State) (n : NoteId) (nt : Dl) (dk : DK)
    (hw : wOk E (.dl .ld2 n nt dk))
    (hE : ∀ n' wdl, (PC.dl .ld2 n nt dk).waitOn = some (n', wdl) → (s.notes n').expiry = E) :
    wOk E (.dl .unlockCall n (s.notes n).ntime dk) := by
  refine ⟨hw.1, fun hk _ => ?_⟩
  obtain ⟨wdl, hwo⟩ := waitOn_dl_of_isWaitK (p := .ld2) (n := n) (nt := nt) hk
  have he := hE n wdl hwo
  unfold NoteRec.ntime ntOk
  split
  · exact Or.inl rfl
  · exact Or.inr he

/-- What an own step keeps (`E` is the expiry time of the note of the wait, if it is one). -/
def KeepW (E : Dl) (s s' : State) (t : Tid) : Prop :=
  wOk E (s.pc t) → (∀ n wdl, (s.pc t).waitOn = some (n, wdl) → (s.notes n).expiry = E) →
    wOk E (s'.pc t)

macro "kw_simp" : tactic => `(tactic| (
  simp only [KeepW, setPc_pc, upd_same, afterDeadline_pc, afterNotify_pc, childReturn_pc,
    childWakeNext_pc, childScanStart_pc, freeLoopStart_pc, enterChild_pc, leave_pc, addUser_pc,
    markCalled_pc, markFreeing_pc, setAfter_pc, pushObs_pc, publish_pc, delUser_pc, modRec_pc,
    modNote_pc, markBorn_pc, setNow_pc, allocNote_pc, acquire_pc, release_pc, incDisc_pc,
    decDisc_pc, setWaiters_pc, setAdopted_pc, setExpiry_pc, setNotified_pc, markFreed_pc,
    eraseChild_pc, clearParent_pc, link_pc, unlink_pc, newExpiry_pc] at *))

macro "kw_close" : tactic => `(tactic| (
  intro hw hE
  rw [‹Note.State.pc _ _ = _›] at hw hE
  first
    | exact wOk_freeLoopStartPc _ _ _ _
    | exact wOk_childReturnPc _ _ _ _ hw
    | exact wOk_childLoopStartPc _ _ _ _ _ hw
    | exact wOk_childWakeNextPc _ _ _ _ _ hw
    | exact wOk_afterNotifyPc _ _ _ hw
    | exact wOk_afterDeadlinePc _ _ _ _ hw.1 (fun h => hw.2 h rfl)
    | exact wOk_afterDeadlinePc _ _ _ _ hw.1 (fun _ => Or.inl rfl)
    | (simp_all [wOk, DPos.late2, DK.recK, NK.recK, DK.isWaitK, NK.isWaitK]; done)
    | trivial))

theorem kw_lockRet {s s' : State} {t : Tid}  (E : Dl) (hs : step s (.lockRet t) = .ok s')
    (hp : s.pc t ≠ .idle) : KeepW E s s' t := by
  step_cases hs
  all_goals kw_simp
  all_goals (try (exact absurd ‹s.pc t = PC.idle› hp))
  all_goals (try (kw_close; done))

theorem kw_lockCall {s s' : State} {t : Tid} {k : NoteId} (E : Dl) (hs : step s (.lockCall t k) = .ok s')
    (hp : s.pc t ≠ .idle) : KeepW E s s' t := by
  step_cases hs
  all_goals kw_simp
  all_goals (try (exact absurd ‹s.pc t = PC.idle› hp))
  all_goals (try (kw_close; done))

theorem kw_unlockCall {s s' : State} {t : Tid} {k : NoteId} (E : Dl) (hs : step s (.unlockCall t k) = .ok s')
    (hp : s.pc t ≠ .idle) : KeepW E s s' t := by
  step_cases hs
  all_goals kw_simp
  all_goals (try (exact absurd ‹s.pc t = PC.idle› hp))
  all_goals (try (kw_close; done))

theorem kw_unlockRet {s s' : State} {t : Tid}  (E : Dl) (hs : step s (.unlockRet t) = .ok s')
    (hp : s.pc t ≠ .idle) : KeepW E s s' t := by
  step_cases hs
  all_goals kw_simp
  all_goals (try (exact absurd ‹s.pc t = PC.idle› hp))
  all_goals (try (kw_close; done))

theorem kw_tryCall {s s' : State} {t : Tid} {k : NoteId} (E : Dl) (hs : step s (.tryCall t k) = .ok s')
    (hp : s.pc t ≠ .idle) : KeepW E s s' t := by
  step_cases hs
  all_goals kw_simp
  all_goals (try (exact absurd ‹s.pc t = PC.idle› hp))
  all_goals (try (kw_close; done))

theorem kw_tryRet {s s' : State} {t : Tid} {ok : Bool} (E : Dl) (hs : step s (.tryRet t ok) = .ok s')
    (hp : s.pc t ≠ .idle) : KeepW E s s' t := by
  step_cases hs
  all_goals kw_simp
  all_goals (try (exact absurd ‹s.pc t = PC.idle› hp))
  all_goals (try (kw_close; done))

theorem kw_waitCall {s s' : State} {t : Tid} {k : NoteId} (E : Dl) (hs : step s (.waitCall t k) = .ok s')
    (hp : s.pc t ≠ .idle) : KeepW E s s' t := by
  step_cases hs
  all_goals kw_simp
  all_goals (try (exact absurd ‹s.pc t = PC.idle› hp))
  all_goals (try (kw_close; done))

theorem kw_waitRet {s s' : State} {t : Tid}  (E : Dl) (hs : step s (.waitRet t) = .ok s')
    (hp : s.pc t ≠ .idle) : KeepW E s s' t := by
  step_cases hs
  all_goals kw_simp
  all_goals (try (exact absurd ‹s.pc t = PC.idle› hp))
  all_goals (try (kw_close; done))

theorem kw_ld {s s' : State} {t : Tid} {site : Site} {ord : Ord} {k : NoteId} {obs : Nat} (E : Dl) (hs : step s (.ld t site ord k obs) = .ok s')
    (hp : s.pc t ≠ .idle) : KeepW E s s' t := by
  step_cases hs
  all_goals kw_simp
  all_goals (try (exact absurd ‹s.pc t = PC.idle› hp))
  all_goals (try (kw_close; done))
  · intro hw hE
    rw [‹s.pc t = _›] at hw hE
    exact wOk_ld2 _ _ _ _ _ hw hE

theorem kw_stNote {s s' : State} {t : Tid} {site : Site} {ord : Ord} {k : NoteId} {new obs : Nat} (E : Dl) (hs : step s (.stNote t site ord k new obs) = .ok s')
    (hp : s.pc t ≠ .idle) : KeepW E s s' t := by
  step_cases hs
  all_goals kw_simp
  all_goals (try (exact absurd ‹s.pc t = PC.idle› hp))
  all_goals (try (kw_close; done))

theorem kw_stW {s s' : State} {t : Tid} {site : Site} {ord : Ord} {r : Rid} {new obs : Nat} (E : Dl) (hs : step s (.stW t site ord r new obs) = .ok s')
    (hp : s.pc t ≠ .idle) : KeepW E s s' t := by
  step_cases hs
  all_goals kw_simp
  all_goals (try (exact absurd ‹s.pc t = PC.idle› hp))
  all_goals (try (kw_close; done))

theorem kw_ret {s s' : State} {t : Tid} {r : ApiRet} (E : Dl) (hs : step s (.ret t r) = .ok s')
    (hp : s.pc t ≠ .idle) : KeepW E s s' t := by
  step_cases hs
  all_goals kw_simp
  all_goals (try (exact absurd ‹s.pc t = PC.idle› hp))
  all_goals (try (kw_close; done))

theorem kw_waitnCall {s s' : State} {t : Tid} {d : Dl} (E : Dl) (hs : step s (.waitnCall t d) = .ok s')
    (hp : s.pc t ≠ .idle) : KeepW E s s' t := by
  step_cases hs
  all_goals kw_simp
  all_goals (try (exact absurd ‹s.pc t = PC.idle› hp))
  all_goals (try (kw_close; done))

theorem kw_waitnRet {s s' : State} {t : Tid} {rd : Nat} (E : Dl) (hs : step s (.waitnRet t rd) = .ok s')
    (hp : s.pc t ≠ .idle) : KeepW E s s' t := by
  step_cases hs
  all_goals kw_simp
  all_goals (try (exact absurd ‹s.pc t = PC.idle› hp))
  all_goals (try (kw_close; done))

theorem kw_now {s s' : State} {t : Tid} {v : Nat} (E : Dl) (hs : step s (.now t v) = .ok s')
    (hp : s.pc t ≠ .idle) : KeepW E s s' t := by
  step_cases hs
  all_goals kw_simp
  all_goals (try (exact absurd ‹s.pc t = PC.idle› hp))
  all_goals (try (kw_close; done))

theorem kw_semV {s s' : State} {t : Tid} {sem : Nat} (E : Dl) (hs : step s (.semV t sem) = .ok s')
    (hp : s.pc t ≠ .idle) : KeepW E s s' t := by
  step_cases hs
  all_goals kw_simp
  all_goals (try (exact absurd ‹s.pc t = PC.idle› hp))
  all_goals (try (kw_close; done))

theorem kw_pdEnter {s s' : State} {t : Tid} {sem : Nat} {d : Dl} (E : Dl) (hs : step s (.pdEnter t sem d) = .ok s')
    (hp : s.pc t ≠ .idle) : KeepW E s s' t := by
  step_cases hs
  all_goals kw_simp
  all_goals (try (exact absurd ‹s.pc t = PC.idle› hp))
  all_goals (try (kw_close; done))

theorem kw_pdRet {s s' : State} {t : Tid} {sem : Nat} {b : Bool} (E : Dl) (hs : step s (.pdRet t sem b) = .ok s')
    (hp : s.pc t ≠ .idle) : KeepW E s s' t := by
  step_cases hs
  all_goals kw_simp
  all_goals (try (exact absurd ‹s.pc t = PC.idle› hp))
  all_goals (try (kw_close; done))

theorem kw_malloc {s s' : State} {t : Tid} {res : Option NoteId} (E : Dl) (hs : step s (.malloc t res) = .ok s')
    (hp : s.pc t ≠ .idle) : KeepW E s s' t := by
  step_cases hs
  all_goals kw_simp
  all_goals (try (exact absurd ‹s.pc t = PC.idle› hp))
  all_goals (try (kw_close; done))

theorem kw_free {s s' : State} {t : Tid} {k : NoteId} (E : Dl) (hs : step s (.free t k) = .ok s')
    (hp : s.pc t ≠ .idle) : KeepW E s s' t := by
  step_cases hs
  all_goals kw_simp
  all_goals (try (exact absurd ‹s.pc t = PC.idle› hp))
  all_goals (try (kw_close; done))

theorem own_keepW {s s' : State} {e : Event} {t : Tid} (E : Dl) (hs : step s e = .ok s')
    (ha : e.actor = some t) (hp : s.pc t ≠ .idle) : KeepW E s s' t := by
  cases e <;> simp only [Event.actor, Option.some.injEq, reduceCtorEq] at ha <;> subst ha
  · exfalso
    cases hpc : s.pc _ with
    | idle => exact hp hpc
    | _ => simp [step, hpc] at hs
  · exact kw_ret E hs hp
  · exact kw_ld E hs hp
  · exact kw_stNote E hs hp
  · exact kw_stW E hs hp
  · exact kw_lockCall E hs hp
  · exact kw_lockRet E hs hp
  · exact kw_unlockCall E hs hp
  · exact kw_unlockRet E hs hp
  · exact kw_tryCall E hs hp
  · exact kw_tryRet E hs hp
  · exact kw_waitCall E hs hp
  · exact kw_waitRet E hs hp
  · exact kw_waitnCall E hs hp
  · exact kw_waitnRet E hs hp
  · exact kw_now E hs hp
  · exact kw_semV E hs hp
  · exact kw_pdEnter E hs hp
  · exact kw_pdRet E hs hp
  · exact kw_malloc E hs hp
  · exact kw_free E hs hp

end Note
