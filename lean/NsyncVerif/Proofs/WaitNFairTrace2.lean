/-
  Proofs/WaitNFairTrace2.lean — WaitN layer, liveness form of C11: concrete executions that end quiescent.

  * `wokenExec`, `timeoutExec`: non-vacuity (all hypotheses hold, the caller really sleeps, returns);
  * `stallExec`   (`WeakFair` is needed), `foreverExec` (a wait without deadline on objects that never become
    ready sleeps for ever under all hypotheses), `noClockExec` (`ClockAdvances` is needed);
  * `strayExec`   (`FiniteWakeups` / `FiniteStrayPosts` are needed), `bargeExec` (`LockFair` is needed): lassos.
-/
import NsyncVerif.Proofs.WaitNFairTrace

namespace WaitN

open Example

/-! ## non-vacuity: woken by the counter reaching zero -/

def wokenEvs : List Event := noteCtr ++ [.thr 0 (.retWaitN 1 false)]
def wokenFinal : State := stateFrom init wokenEvs

theorem woken_run : run init wokenEvs = .ok wokenFinal := run_of_accepts (by decide)

/-- `Example.noteCtr`, the return with index 1, then nothing for ever. -/
def wokenExec : Exec init := traceExec wokenEvs wokenFinal woken_run

theorem woken_tail {j : Nat} (hj : 92 ≤ j) : wokenExec.ρ j = wokenFinal ∧ wokenExec.σ j = none :=
  traceExec_tail woken_run (by show wokenEvs.length ≤ j; exact hj)

set_option maxRecDepth 4096 in
theorem woken_nolock : ∀ o, (wokenFinal.obj o).lock = none :=
  all_obj 1 (by decide) (fun _ => ⟨rfl, rfl, rfl⟩)

set_option maxRecDepth 4096 in
theorem woken_quiet : ∀ t, quietB wokenFinal t = true := all_tid 10 (by decide) (fun _ => rfl)

set_option maxRecDepth 4096 in
theorem woken_idle : ∀ t, wokenFinal.pc t = .idle := all_tid 10 (by decide) (fun _ => rfl)

set_option maxRecDepth 4096 in
theorem woken_nolockwait : ∀ t, lockWaitOf (wokenFinal.pc t) (wokenFinal.fr t) = none :=
  all_tid 10 (by decide) (fun _ => rfl)

set_option maxRecDepth 4096 in
/-- `wokenExec` satisfies all hypotheses of the fair-termination theorem. -/
theorem woken_hyps : Reachable init ∧ WeakFair wokenExec ∧ LockFair wokenExec ∧ ForeignRelease wokenExec ∧
    ClockAdvances wokenExec ∧ (∀ t, FiniteWakeups wokenExec t) ∧ FiniteStrayPosts wokenExec := by
  obtain ⟨a, b, c, d⟩ := tail_hyps wokenExec 92 wokenFinal (fun j hj => woken_tail hj) woken_nolock woken_nolockwait
  exact ⟨reachable_init, tail_weakFair wokenExec 92 wokenFinal (fun j hj => woken_tail hj) woken_quiet, a, b,
    traceExec_clock woken_run 10 0 (by decide) (by decide) (by decide), c, d⟩

set_option maxRecDepth 4096 in
/-- … and in it the caller really sleeps before it is woken: at time 44 thread 0 is in the P on semaphore 3
    (count 0, no deadline: `Blocked`), the counter is 1; the zeroing CAS of thread 1 is event 48, its post of
    semaphore 3 event 50, the `pd_ret` of thread 0 event 54, the return with index 1 event 91. -/
theorem woken_sleeps :
    (wokenExec.ρ 44).pc 0 = .wPdWait 3 ∧ (wokenExec.ρ 44).sem 3 = 0 ∧ ((wokenExec.ρ 44).fr 0).min = none ∧
    Blocked (wokenExec.ρ 44) 0 ∧
    ((wokenExec.ρ 48).obj (.ctr 0)).value = 1 ∧ ((wokenExec.ρ 49).obj (.ctr 0)).value = 0 ∧
    (wokenExec.ρ 49).pc 0 = .wPdWait 3 ∧ (wokenExec.ρ 49).sem 3 = 0 ∧
    wokenExec.σ 48 = some (.thr 1 (.cas .ar (.value 0) .other 1 0 1 true)) ∧
    wokenExec.σ 50 = some (.thr 1 (.semV 3)) ∧ (wokenExec.ρ 51).sem 3 = 1 ∧
    wokenExec.σ 54 = some (.thr 0 (.pdRet 3 false)) ∧
    wokenExec.σ 91 = some (.thr 0 (.retWaitN 1 false)) ∧ (wokenExec.ρ 91).pc 0 = .wRet 1 ∧
    ∀ j, 92 ≤ j → (wokenExec.ρ j).pc 0 = .idle := by
  have hb : sleepB (wokenExec.ρ 44) 0 = true := by decide
  refine ⟨by decide, by decide, by decide, blocked_of_sleepB hb, by decide, by decide, by decide, by decide,
    rfl, rfl, by decide, rfl, rfl, by decide, ?_⟩
  intro j hj
  rw [(woken_tail hj).1]; exact woken_idle 0

/-! ## non-vacuity: five condition variables, heap array, deadline 500, times out -/

def timeoutEvs : List Event := heapTimeout ++ [.thr 0 (.retWaitN 5 false)]
def timeoutFinal : State := stateFrom init timeoutEvs

theorem timeout_run : run init timeoutEvs = .ok timeoutFinal := run_of_accepts (by decide)

/-- `Example.heapTimeout`, the return with result 5 (= count: timeout), then nothing for ever. -/
def timeoutExec : Exec init := traceExec timeoutEvs timeoutFinal timeout_run

theorem timeout_tail {j : Nat} (hj : 64 ≤ j) : timeoutExec.ρ j = timeoutFinal ∧ timeoutExec.σ j = none :=
  traceExec_tail timeout_run (by show timeoutEvs.length ≤ j; exact hj)

set_option maxRecDepth 4096 in
theorem timeout_nolock : ∀ o, (timeoutFinal.obj o).lock = none :=
  all_obj 5 (by decide) (fun _ => ⟨rfl, rfl, rfl⟩)

set_option maxRecDepth 4096 in
theorem timeout_quiet : ∀ t, quietB timeoutFinal t = true := all_tid 1 (by decide) (fun _ => rfl)

set_option maxRecDepth 4096 in
theorem timeout_idle : ∀ t, timeoutFinal.pc t = .idle := all_tid 1 (by decide) (fun _ => rfl)

set_option maxRecDepth 4096 in
theorem timeout_nolockwait : ∀ t, lockWaitOf (timeoutFinal.pc t) (timeoutFinal.fr t) = none :=
  all_tid 1 (by decide) (fun _ => rfl)

set_option maxRecDepth 4096 in
theorem timeout_hyps : Reachable init ∧ WeakFair timeoutExec ∧ LockFair timeoutExec ∧ ForeignRelease timeoutExec ∧
    ClockAdvances timeoutExec ∧ (∀ t, FiniteWakeups timeoutExec t) ∧ FiniteStrayPosts timeoutExec := by
  obtain ⟨a, b, c, d⟩ := tail_hyps timeoutExec 64 timeoutFinal (fun j hj => timeout_tail hj) timeout_nolock
    timeout_nolockwait
  exact ⟨reachable_init, tail_weakFair timeoutExec 64 timeoutFinal (fun j hj => timeout_tail hj) timeout_quiet, a, b,
    traceExec_clock timeout_run 1 500 (by decide) (by decide) (by decide), c, d⟩

set_option maxRecDepth 4096 in
/-- … the caller sleeps with deadline 500 at time 0 (time 34: in the P on semaphore 1, count 0, `Blocked`); the
    tick to 500 is event 34, the `pd_ret ETIMEDOUT` event 35, the return with 5 = count event 63. -/
theorem timeout_sleeps :
    ((timeoutExec.ρ 1).fr 0).dl = some 500 ∧
    (timeoutExec.ρ 34).pc 0 = .wPdWait 1 ∧ (timeoutExec.ρ 34).sem 1 = 0 ∧ ((timeoutExec.ρ 34).fr 0).min = some 500 ∧
    (timeoutExec.ρ 34).now = 0 ∧ Blocked (timeoutExec.ρ 34) 0 ∧
    timeoutExec.σ 34 = some (.tick 500) ∧ (timeoutExec.ρ 35).now = 500 ∧
    timeoutExec.σ 35 = some (.thr 0 (.pdRet 1 true)) ∧
    timeoutExec.σ 63 = some (.thr 0 (.retWaitN 5 false)) ∧ (timeoutExec.ρ 63).pc 0 = .wRet 5 ∧
    ((timeoutExec.ρ 63).fr 0).objs.length = 5 ∧
    ∀ j, 64 ≤ j → (timeoutExec.ρ j).pc 0 = .idle := by
  have hb : sleepB (timeoutExec.ρ 34) 0 = true := by decide
  refine ⟨by decide, by decide, by decide, by decide, by decide, blocked_of_sleepB hb, rfl, by decide, rfl, rfl,
    by decide, by decide, ?_⟩
  intro j hj
  rw [(timeout_tail hj).1]; exact timeout_idle 0

/-! ## non-vacuity: woken by nsync_cv_signal -/

def cvWokenEvs : List Event := cvWoken ++ [.thr 0 (.retWaitN 0 false)]
def cvWokenFinal : State := stateFrom init cvWokenEvs

theorem cvWoken_run : run init cvWokenEvs = .ok cvWokenFinal := run_of_accepts (by decide)

/-- `Example.cvWoken` (one condition variable with mutex 0, no deadline; a signaller wakes the caller), the return
    with index 0, then nothing for ever. -/
def cvWokenExec : Exec init := traceExec cvWokenEvs cvWokenFinal cvWoken_run

theorem cvWoken_tail {j : Nat} (hj : 25 ≤ j) : cvWokenExec.ρ j = cvWokenFinal ∧ cvWokenExec.σ j = none :=
  traceExec_tail cvWoken_run (by show cvWokenEvs.length ≤ j; exact hj)

theorem cvWoken_nolock : ∀ o, (cvWokenFinal.obj o).lock = none :=
  all_obj 1 (by decide) (fun _ => ⟨rfl, rfl, rfl⟩)

theorem cvWoken_quiet : ∀ t, quietB cvWokenFinal t = true := all_tid 2 (by decide) (fun _ => rfl)

theorem cvWoken_nolockwait : ∀ t, lockWaitOf (cvWokenFinal.pc t) (cvWokenFinal.fr t) = none :=
  all_tid 2 (by decide) (fun _ => rfl)

theorem cvWoken_hyps : Reachable init ∧ WeakFair cvWokenExec ∧ LockFair cvWokenExec ∧ ForeignRelease cvWokenExec ∧
    ClockAdvances cvWokenExec ∧ (∀ t, FiniteWakeups cvWokenExec t) ∧ FiniteStrayPosts cvWokenExec := by
  obtain ⟨a, b, c, d⟩ := tail_hyps cvWokenExec 25 cvWokenFinal (fun j hj => cvWoken_tail hj) cvWoken_nolock
    cvWoken_nolockwait
  exact ⟨reachable_init, tail_weakFair cvWokenExec 25 cvWokenFinal (fun j hj => cvWoken_tail hj) cvWoken_quiet, a, b,
    traceExec_clock cvWoken_run 2 0 (by decide) (by decide) (by decide), c, d⟩

/-- … the caller sleeps (time 9: in the P on semaphore 2, count 0, no deadline, `Blocked`); nsync_cv_signal is
    called at event 9, its post is event 15, the `pd_ret` event 17, the return with index 0 event 24. -/
theorem cvWoken_sleeps :
    (cvWokenExec.ρ 9).pc 0 = .wPdWait 2 ∧ (cvWokenExec.ρ 9).sem 2 = 0 ∧ ((cvWokenExec.ρ 9).fr 0).min = none ∧
    Blocked (cvWokenExec.ρ 9) 0 ∧
    cvWokenExec.σ 9 = some (.thr 1 (.callSig 0 false)) ∧ cvWokenExec.σ 15 = some (.thr 1 (.semV 2)) ∧
    (cvWokenExec.ρ 16).sem 2 = 1 ∧ cvWokenExec.σ 17 = some (.thr 0 (.pdRet 2 false)) ∧
    cvWokenExec.σ 24 = some (.thr 0 (.retWaitN 0 false)) ∧ (cvWokenExec.ρ 24).pc 0 = .wRet 0 ∧
    ∀ j, 25 ≤ j → (cvWokenExec.ρ j).pc 0 = .idle := by
  have hb : sleepB (cvWokenExec.ρ 9) 0 = true := by decide
  refine ⟨by decide, by decide, by decide, blocked_of_sleepB hb, rfl, rfl, by decide, rfl, rfl, by decide, ?_⟩
  intro j hj
  rw [(cvWoken_tail hj).1]; decide

/-! ## (b) a wait without deadline on a note that is never notified sleeps for ever, under all hypotheses -/

def foreverEvs : List Event := noteSleep none none
def foreverFinal : State := stateFrom init foreverEvs

theorem forever_run : run init foreverEvs = .ok foreverFinal := run_of_accepts (by decide)

/-- `Example.noteSleep none none` (nsync_wait_n on an un-notified note without expiry, no abs_deadline, asleep on
    semaphore 3), then nothing for ever. -/
def foreverExec : Exec init := traceExec foreverEvs foreverFinal forever_run

theorem forever_tail {j : Nat} (hj : 30 ≤ j) : foreverExec.ρ j = foreverFinal ∧ foreverExec.σ j = none :=
  traceExec_tail forever_run (by show foreverEvs.length ≤ j; exact hj)

set_option maxRecDepth 4096 in
theorem forever_nolock : ∀ o, (foreverFinal.obj o).lock = none :=
  all_obj 1 (by decide) (fun _ => ⟨rfl, rfl, rfl⟩)

set_option maxRecDepth 4096 in
theorem forever_quiet : ∀ t, quietB foreverFinal t = true := all_tid 10 (by decide) (fun _ => rfl)

set_option maxRecDepth 4096 in
theorem forever_nolockwait : ∀ t, lockWaitOf (foreverFinal.pc t) (foreverFinal.fr t) = none :=
  all_tid 10 (by decide) (fun _ => rfl)

set_option maxRecDepth 4096 in
/-- All hypotheses hold (thread 0 is `Blocked`: weak fairness asks nothing of it), the call has no deadline, the
    note is never notified and has no expiry time — and the call never returns: thread 0 is asleep in the P on
    semaphore 3 from time 30 on. -/
theorem forever_sleeps : Reachable init ∧ WeakFair foreverExec ∧ LockFair foreverExec ∧ ForeignRelease foreverExec ∧
    ClockAdvances foreverExec ∧ (∀ t, FiniteWakeups foreverExec t) ∧ FiniteStrayPosts foreverExec ∧
    ((foreverExec.ρ 2).fr 0).dl = none ∧ ((foreverExec.ρ 2).fr 0).objs = [.note 0] ∧
    (∀ j, ((foreverExec.ρ j).obj (.note 0)).flag = false ∧ ((foreverExec.ρ j).obj (.note 0)).expiry = none) ∧
    (∀ j, 30 ≤ j → (foreverExec.ρ j).pc 0 = .wPdWait 3 ∧ (foreverExec.ρ j).sem 3 = 0 ∧
      ((foreverExec.ρ j).fr 0).min = none ∧ Blocked (foreverExec.ρ j) 0) := by
  obtain ⟨a, b, c, d⟩ := tail_hyps foreverExec 30 foreverFinal (fun j hj => forever_tail hj) forever_nolock
    forever_nolockwait
  refine ⟨reachable_init, tail_weakFair foreverExec 30 foreverFinal (fun j hj => forever_tail hj) forever_quiet, a, b,
    traceExec_clock forever_run 10 0 (by decide) (by decide) (by decide), c, d, by decide, by decide, ?_, ?_⟩
  · intro j
    have := traceExec_all forever_run (P := fun s => decide (((s.obj (.note 0)).flag = false ∧ (s.obj (.note 0)).expiry = none)))
      (by decide) j
    exact of_decide_eq_true this
  · intro j hj
    rw [(forever_tail hj).1]
    have hb : sleepB foreverFinal 0 = true := by decide
    exact ⟨by decide, by decide, by decide, blocked_of_sleepB hb⟩

/-! ## (a) `WeakFair` is needed -/

def stallEvs : List Event := [.thr 0 (.callWaitN none (some 500) [.cv 0] false)]
def stallFinal : State := stateFrom init stallEvs

theorem stall_run : run init stallEvs = .ok stallFinal := run_of_accepts (by decide)

/-- The call of nsync_wait_n on cv 0 with deadline 500, then nothing for ever (the caller is never scheduled). -/
def stallExec : Exec init := traceExec stallEvs stallFinal stall_run

theorem stall_tail {j : Nat} (hj : 1 ≤ j) : stallExec.ρ j = stallFinal ∧ stallExec.σ j = none :=
  traceExec_tail stall_run (by show stallEvs.length ≤ j; exact hj)

theorem stall_nolock : ∀ o, (stallFinal.obj o).lock = none := all_obj 1 (by decide) (fun _ => ⟨rfl, rfl, rfl⟩)

theorem stall_nolockwait : ∀ t, lockWaitOf (stallFinal.pc t) (stallFinal.fr t) = none :=
  all_tid 1 (by decide) (fun _ => rfl)

/-- All hypotheses except `WeakFair` hold, the deadline is finite, and the call never returns. -/
theorem stall_needs_weakFair : Reachable init ∧ ¬ WeakFair stallExec ∧ LockFair stallExec ∧ ForeignRelease stallExec ∧
    ClockAdvances stallExec ∧ (∀ t, FiniteWakeups stallExec t) ∧ FiniteStrayPosts stallExec ∧
    ((stallExec.ρ 1).fr 0).dl = some 500 ∧ (∀ j, 1 ≤ j → (stallExec.ρ j).pc 0 ≠ .idle) := by
  obtain ⟨a, b, c, d⟩ := tail_hyps stallExec 1 stallFinal (fun j hj => stall_tail hj) stall_nolock stall_nolockwait
  have hpc : stallFinal.pc 0 = .wInit 0 := by decide
  refine ⟨reachable_init, ?_, a, b, traceExec_clock stall_run 1 0 (by decide) (by decide) (by decide), c, d,
    by decide, ?_⟩
  · intro hw
    obtain ⟨j, hj, hm⟩ := hw 0 1 (fun j hj => by
      rw [(stall_tail hj).1]
      refine ⟨.inl (by rw [hpc]; simp), ?_⟩
      rintro (⟨k, hk, _⟩ | ⟨o, ho, _⟩ | ⟨k, r, hk, _⟩)
      · rw [hpc] at hk; cases hk
      · rw [hpc] at ho; simp [lockBlockOf] at ho
      · rw [hpc] at hk; cases hk)
    unfold Moves at hm
    rw [(stall_tail hj).1, (stall_tail (show 1 ≤ j + 1 by omega)).1] at hm
    rcases hm with hm | hm <;> exact hm rfl
  · intro j hj; rw [(stall_tail hj).1, hpc]; simp

/-! ## (c) `ClockAdvances` is needed -/

def noClockEvs : List Event := cvSleep 0 (.stk 0) (some 500) 0 0
def noClockFinal : State := stateFrom init noClockEvs

theorem noClock_run : run init noClockEvs = .ok noClockFinal := run_of_accepts (by decide)

/-- `Example.cvSleep`: nsync_wait_n on cv 0 with deadline 500 up to the P (semaphore 0), then nothing for ever:
    nobody signals, and the clock stays at 0. -/
def noClockExec : Exec init := traceExec noClockEvs noClockFinal noClock_run

theorem noClock_tail {j : Nat} (hj : 8 ≤ j) : noClockExec.ρ j = noClockFinal ∧ noClockExec.σ j = none :=
  traceExec_tail noClock_run (by show noClockEvs.length ≤ j; exact hj)

theorem noClock_nolock : ∀ o, (noClockFinal.obj o).lock = none := all_obj 1 (by decide) (fun _ => ⟨rfl, rfl, rfl⟩)

theorem noClock_quiet : ∀ t, quietB noClockFinal t = true := all_tid 1 (by decide) (fun _ => rfl)

theorem noClock_nolockwait : ∀ t, lockWaitOf (noClockFinal.pc t) (noClockFinal.fr t) = none :=
  all_tid 1 (by decide) (fun _ => rfl)

/-- All hypotheses except `ClockAdvances` hold (thread 0 is `Blocked`: asleep before its deadline), the deadline
    is finite, and the call never returns. -/
theorem noClock_needs_clock : Reachable init ∧ WeakFair noClockExec ∧ LockFair noClockExec ∧ ForeignRelease noClockExec ∧
    ¬ ClockAdvances noClockExec ∧ (∀ t, FiniteWakeups noClockExec t) ∧ FiniteStrayPosts noClockExec ∧
    ((noClockExec.ρ 1).fr 0).dl = some 500 ∧
    (∀ j, (noClockExec.ρ j).now = 0) ∧
    (∀ j, 8 ≤ j → (noClockExec.ρ j).pc 0 = .wPdWait 0 ∧ ((noClockExec.ρ j).fr 0).min = some 500) ∧
    (∀ j, 1 ≤ j → (noClockExec.ρ j).pc 0 ≠ .idle) := by
  obtain ⟨a, b, c, d⟩ := tail_hyps noClockExec 8 noClockFinal (fun j hj => noClock_tail hj) noClock_nolock
    noClock_nolockwait
  have hpc : noClockFinal.pc 0 = .wPdWait 0 ∧ (noClockFinal.fr 0).min = some 500 := by decide
  have hnow : ∀ j, (noClockExec.ρ j).now = 0 := fun j =>
    of_decide_eq_true (traceExec_all noClock_run (P := fun s => decide (s.now = 0)) (by decide) j)
  refine ⟨reachable_init, tail_weakFair noClockExec 8 noClockFinal (fun j hj => noClock_tail hj) noClock_quiet, a, b,
    ?_, c, d, by decide, hnow, ?_, ?_⟩
  · intro hc
    obtain ⟨i', _, h2⟩ := hc 8 0 0 500 (by rw [(noClock_tail (Nat.le_refl 8)).1]; exact hpc.1)
      (by rw [(noClock_tail (Nat.le_refl 8)).1]; exact hpc.2)
    rw [hnow i'] at h2
    omega
  · intro j hj; rw [(noClock_tail hj).1]; exact hpc
  · intro j hj
    by_cases h8 : 8 ≤ j
    · rw [(noClock_tail h8).1, hpc.1]; simp
    · have hall : ∀ j, j < 8 → 1 ≤ j → (noClockExec.ρ j).pc 0 ≠ .idle := by decide
      exact hall j (by omega) hj

/-! ## lassos: state-restoring loops -/

theorem all_rid {P : Rid → Prop} (n : Nat) (h1 : ∀ k, k < n → P (.stk k)) (h2 : ∀ k, P (.stk (k + n)))
    (h3 : ∀ a i, P (.heap a i)) : ∀ r, P r := by
  intro r
  cases r with
  | stk k => exact all_tid (P := fun k => P (.stk k)) n h1 h2 k
  | heap a i => exact h3 a i

theorem tid_ge2 {t : Nat} (h0 : t ≠ 0) (h1 : t ≠ 1) : 2 ≤ t := by omega

/-! ## (e) `FiniteWakeups` / `FiniteStrayPosts` are needed -/

def strayPre : List Event := cvSleep 0 (.stk 0) (some 500) 0 0 ++ [.tick 500]
def strayLoop : List Event :=
  [.thr 1 (.semV 0), .thr 0 (.pdRet 0 false), .thr 0 (.ld .acq (.waiting (.stk 0)) .cvRT 1), .thr 0 (.pdEnter 0 (some 500))]
def straySf : State := stateFrom init strayPre

theorem stray_run : run init strayPre = .ok straySf := run_of_accepts (by decide)

theorem stray_loop0 : run straySf strayLoop = .ok (stateFrom straySf strayLoop) := run_of_okRun (by decide)

theorem stray_back : stateFrom straySf strayLoop = straySf := by
  apply State.ext'
  · funext o; revert o; exact all_obj 1 (fun k hk => by
      have : k = 0 := by omega
      subst this; exact ⟨rfl, rfl, rfl⟩) (fun _ => ⟨rfl, rfl, rfl⟩)
  · funext r; revert r; exact all_rid 1 (fun k hk => by
      have : k = 0 := by omega
      subst this; rfl) (fun _ => rfl) (fun _ _ => rfl)
  · funext j; revert j; exact all_tid 1 (by decide) (fun _ => rfl)
  · funext j; revert j; exact all_tid 1 (by decide) (fun _ => rfl)
  · funext j; revert j; exact all_tid 2 (by decide) (fun _ => rfl)
  · funext t; revert t; exact all_tid 2 (fun k hk => by
      match k, hk with
      | 0, _ => rfl
      | 1, _ => rfl) (fun _ => rfl)
  · funext j; revert j; exact all_tid 2 (by decide) (fun _ => rfl)
  · funext j; revert j; exact all_tid 2 (by decide) (fun _ => rfl)
  · decide

theorem stray_loop : run straySf strayLoop = .ok straySf := by
  have := stray_loop0; rwa [stray_back] at this

/-- The sleeper's deadline 500 has passed (tick to 500); then for ever: idle thread 1 (another layer) posts semaphore
    0, thread 0 wakes up with `pd_ret 0`, rescans (cv not signalled) and goes back to sleep. -/
def strayExec : Exec init := lassoExec strayPre strayLoop straySf stray_run stray_loop (by decide)

theorem stray_at (m k : Nat) (hk : k < 4) :
    strayExec.ρ (9 + (4 * m + k)) = stateFrom straySf (strayLoop.take k) ∧
    strayExec.σ (9 + (4 * m + k)) = strayLoop[k]? := by
  have := lassoExec_loop stray_run stray_loop (by decide) (4 * m + k)
  have h4 : (4 * m + k) % strayLoop.length = k := by show (4 * m + k) % 4 = k; omega
  rw [h4] at this; exact this

theorem stray_nolock : ∀ o, (straySf.obj o).lock = none := all_obj 1 (by decide) (fun _ => ⟨rfl, rfl, rfl⟩)

theorem stray_needs_finite : Reachable init ∧ WeakFair strayExec ∧ LockFair strayExec ∧ ForeignRelease strayExec ∧
    ClockAdvances strayExec ∧ ¬ FiniteWakeups strayExec 0 ∧ ¬ FiniteStrayPosts strayExec ∧
    ((strayExec.ρ 1).fr 0).dl = some 500 ∧ (∀ j, 9 ≤ j → (strayExec.ρ j).now = 500) ∧
    (∀ j, 1 ≤ j → (strayExec.ρ j).pc 0 ≠ .idle) := by
  have hall {P : State → Bool} (h1 : checkAll P init strayPre = true) (h2 : checkAll P straySf strayLoop = true) :
      ∀ j, P (strayExec.ρ j) = true := lassoExec_all stray_run stray_loop (by decide) h1 h2
  have hunt : ∀ t, 2 ≤ t → ∀ j, (strayExec.ρ j).pc t = .idle ∧ (strayExec.ρ j).post t = none := fun t ht j =>
    lassoExec_untouched stray_run stray_loop (by decide) (n := 2) (by decide) (by decide) ht j
  refine ⟨reachable_init, ?_, ?_, ?_, ?_, ?_, ?_, by decide, ?_, ?_⟩
  · refine weakFair_of_recurrent _ (fun t => ?_)
    by_cases h0 : t = 0
    · subst h0
      refine .inl (fun i => ⟨9 + (4 * i + 1), by omega, ?_⟩)
      unfold Moves
      rw [show 9 + (4 * i + 1) + 1 = 9 + (4 * i + 2) by omega, (stray_at i 1 (by omega)).1, (stray_at i 2 (by omega)).1]
      exact .inl (by decide)
    · refine .inr (fun i => ⟨i, Nat.le_refl i, ?_⟩)
      by_cases h1 : t = 1
      · subst h1
        exact not_ready_of_quietB (hall (P := fun s => quietB s 1) (by decide) (by decide) i)
      · obtain ⟨a, b⟩ := hunt t (tid_ge2 h0 h1) i
        rintro ⟨h | h, _⟩
        · exact h a
        · exact h b
  · refine lockFair_of_recurrent _ (fun i t => ?_)
    obtain ⟨j, hj, hs⟩ := lassoExec_recur stray_run stray_loop (by decide) i
    refine ⟨j, hj, ?_⟩
    rw [show strayExec.ρ j = straySf from hs]
    exact all_tid (P := fun t => lockWaitOf (straySf.pc t) (straySf.fr t) = none) 2 (by decide) (fun _ => rfl) t
  · refine foreignRelease_of_recurrent _ (fun i => ?_)
    obtain ⟨j, hj, hs⟩ := lassoExec_recur stray_run stray_loop (by decide) i
    exact ⟨j, hj, fun o => by show ((strayExec.ρ j).obj o).lock = none; rw [show strayExec.ρ j = straySf from hs]; exact stray_nolock o⟩
  · exact lassoExec_clock stray_run stray_loop (by decide) 2 500 (by decide) (by decide) (by decide) (by decide) (by decide)
  · rintro ⟨n, h⟩
    refine h (9 + (4 * n + 1)) 0 (by omega) ?_ (stray_at n 1 (by omega)).2
    rw [(stray_at n 1 (by omega)).1]; decide
  · rintro ⟨n, h⟩
    obtain ⟨r, hp, _⟩ := h (9 + (4 * n + 0)) 1 0 (by omega) (stray_at n 0 (by omega)).2 0
      (by rw [(stray_at n 0 (by omega)).1]; decide)
    rw [(stray_at n 0 (by omega)).1] at hp
    have : (stateFrom straySf (strayLoop.take 0)).post 1 = none := by decide
    rw [this] at hp; cases hp
  · intro j hj
    have e : strayExec.ρ j = _ := (lassoExec_tail stray_run stray_loop (by decide) (show strayPre.length ≤ j from hj)).1
    rw [e]
    exact of_decide_eq_true (checkAll_take strayLoop straySf (P := fun s => decide (s.now = 500)) (by decide) _)
  · intro j hj
    by_cases h9 : j < 9
    · have e : strayExec.ρ j = _ := (lassoExec_head stray_run stray_loop (by decide) (show j < strayPre.length from h9)).1
      rw [e]
      have hall9 : ∀ j, j < 9 → 1 ≤ j → (stateAt strayPre j).pc 0 ≠ .idle := by decide
      exact hall9 j h9 hj
    · have e : strayExec.ρ j = _ :=
        (lassoExec_tail stray_run stray_loop (by decide) (show strayPre.length ≤ j by show 9 ≤ j; omega)).1
      rw [e]
      exact of_decide_eq_true (checkAll_take strayLoop straySf (P := fun s => decide (s.pc 0 ≠ .idle)) (by decide) _)


/-! ## (d) `LockFair` is needed -/

def bargePre : List Event :=
  [.thr 9 (.newNote 0 none), .thr 0 (.callWaitN none (some 500) [.note 0] false),
   .thr 0 (.ld .acq (.notified 0) .noteND 0), .thr 0 (.lockCall (.note 0))]
def bargeLoop : List Event :=
  [.thr 1 (.lockCall (.note 0)), .thr 1 .lockRet, .thr 1 (.unlockCall (.note 0)), .thr 1 .unlockRet]
def bargeSf : State := stateFrom init bargePre

theorem barge_run : run init bargePre = .ok bargeSf := run_of_accepts (by decide)

theorem barge_loop0 : run bargeSf bargeLoop = .ok (stateFrom bargeSf bargeLoop) := run_of_okRun (by decide)

theorem barge_back : stateFrom bargeSf bargeLoop = bargeSf := by
  apply State.ext'
  · funext o; revert o; exact all_obj 1 (fun k hk => by
      have : k = 0 := by omega
      subst this; exact ⟨rfl, rfl, rfl⟩) (fun _ => ⟨rfl, rfl, rfl⟩)
  · funext r; revert r; exact all_rid 0 (fun k hk => absurd hk (Nat.not_lt_zero k)) (fun _ => rfl) (fun _ _ => rfl)
  · funext j; revert j; exact all_tid 0 (fun k hk => absurd hk (Nat.not_lt_zero k)) (fun _ => rfl)
  · funext j; revert j; exact all_tid 0 (fun k hk => absurd hk (Nat.not_lt_zero k)) (fun _ => rfl)
  · funext j; revert j; exact all_tid 2 (by decide) (fun _ => rfl)
  · funext t; revert t; exact all_tid 2 (fun k hk => by
      match k, hk with
      | 0, _ => rfl
      | 1, _ => rfl) (fun _ => rfl)
  · funext j; revert j; exact all_tid 2 (by decide) (fun _ => rfl)
  · funext j; revert j; exact all_tid 2 (by decide) (fun _ => rfl)
  · decide

theorem barge_loop : run bargeSf bargeLoop = .ok bargeSf := by
  have := barge_loop0; rwa [barge_back] at this

/-- Thread 0 calls nsync_wait_n on note 0 with deadline 500 and, in its first nsync_note_notified_deadline_, waits for
    note_mu; for ever after, thread 1 (foreign code) takes and releases note_mu: thread 0 never gets it. -/
def bargeExec : Exec init := lassoExec bargePre bargeLoop bargeSf barge_run barge_loop (by decide)

theorem barge_at (m k : Nat) (hk : k < 4) :
    bargeExec.ρ (4 + (4 * m + k)) = stateFrom bargeSf (bargeLoop.take k) ∧
    bargeExec.σ (4 + (4 * m + k)) = bargeLoop[k]? := by
  have := lassoExec_loop barge_run barge_loop (by decide) (4 * m + k)
  have h4 : (4 * m + k) % bargeLoop.length = k := by show (4 * m + k) % 4 = k; omega
  rw [h4] at this; exact this

theorem barge_nolock : ∀ o, (bargeSf.obj o).lock = none := all_obj 1 (by decide) (fun _ => ⟨rfl, rfl, rfl⟩)

theorem barge_needs_lockFair : Reachable init ∧ WeakFair bargeExec ∧ ¬ LockFair bargeExec ∧ ForeignRelease bargeExec ∧
    ClockAdvances bargeExec ∧ (∀ t, FiniteWakeups bargeExec t) ∧ FiniteStrayPosts bargeExec ∧
    (∀ j, ∃ j', j ≤ j' ∧ ((bargeExec.ρ j').obj (.note 0)).lock = none) ∧
    ((bargeExec.ρ 2).fr 0).dl = some 500 ∧
    (∀ j, 4 ≤ j → (bargeExec.ρ j).pc 0 = .wND .poll 0 .lockWait) := by
  have hall {P : State → Bool} (h1 : checkAll P init bargePre = true) (h2 : checkAll P bargeSf bargeLoop = true) :
      ∀ j, P (bargeExec.ρ j) = true := lassoExec_all barge_run barge_loop (by decide) h1 h2
  have hunt : ∀ t, 10 ≤ t → ∀ j, (bargeExec.ρ j).pc t = .idle ∧ (bargeExec.ρ j).post t = none := fun t ht j =>
    lassoExec_untouched barge_run barge_loop (by decide) (n := 10) (by decide) (by decide) ht j
  have hrec : ∀ i, ∃ j, i ≤ j ∧ bargeExec.ρ j = bargeSf := lassoExec_recur barge_run barge_loop (by decide)
  have hfree : ∀ j, ∃ j', j ≤ j' ∧ ((bargeExec.ρ j').obj (.note 0)).lock = none := fun j => by
    obtain ⟨j', hj, hs⟩ := hrec j
    exact ⟨j', hj, by rw [hs]; exact barge_nolock _⟩
  have hpc : ∀ j, 4 ≤ j → (bargeExec.ρ j).pc 0 = .wND .poll 0 .lockWait ∧ ((bargeExec.ρ j).fr 0).objs = [.note 0] := by
    intro j hj
    have e : bargeExec.ρ j = _ := (lassoExec_tail barge_run barge_loop (by decide) (show bargePre.length ≤ j from hj)).1
    rw [e]
    exact of_decide_eq_true (checkAll_take bargeLoop bargeSf
      (P := fun s => decide (s.pc 0 = .wND .poll 0 .lockWait ∧ (s.fr 0).objs = [.note 0])) (by decide) _)
  have hsig : ∀ j, 4 ≤ j → ∀ e, bargeExec.σ j = some e → e ∈ bargeLoop := fun j hj e he =>
    lassoExec_sigma_mem barge_run barge_loop (by decide) (show bargePre.length ≤ j from hj) he
  refine ⟨reachable_init, ?_, ?_, ?_, ?_, ?_, ?_, hfree, by decide, fun j hj => (hpc j hj).1⟩
  · refine weakFair_of_recurrent _ (fun t => ?_)
    by_cases h0 : t = 0
    · subst h0
      refine .inr (fun i => ⟨4 + (4 * i + 2), by omega, ?_⟩)
      rw [(barge_at i 2 (by omega)).1]
      exact not_ready_of_quietB (by decide)
    · refine .inr (fun i => ⟨i, Nat.le_refl i, ?_⟩)
      by_cases ht : t < 10
      · have := hall (P := fun s => (List.range 10).all fun t => decide (t = 0) || quietB s t) (by decide) (by decide) i
        have := List.all_eq_true.1 this t (List.mem_range.2 ht)
        simp only [Bool.or_eq_true, decide_eq_true_eq] at this
        rcases this with h | h
        · exact absurd h h0
        · exact not_ready_of_quietB h
      · obtain ⟨a, b⟩ := hunt t (Nat.le_of_not_lt ht) i
        rintro ⟨h | h, _⟩
        · exact h a
        · exact h b
  · intro hl
    refine hl 0 (.note 0) 4 (fun j hj => ?_) (fun j _ => hfree j)
    obtain ⟨a, b⟩ := hpc j hj
    rw [a]
    show ((bargeExec.ρ j).fr 0).objs[0]? = some (.note 0)
    rw [b]; rfl
  · refine foreignRelease_of_recurrent _ (fun i => ?_)
    obtain ⟨j, hj, hs⟩ := hrec i
    exact ⟨j, hj, fun o => by rw [hs]; exact barge_nolock o⟩
  · exact lassoExec_clock barge_run barge_loop (by decide) 10 0 (by decide) (by decide) (by decide) (by decide) (by decide)
  · intro t
    refine ⟨4, fun j k hj _ he => ?_⟩
    have := hsig j hj _ he
    simp [bargeLoop] at this
  · refine ⟨4, fun j u k hj he => ?_⟩
    have := hsig j hj _ he
    simp [bargeLoop] at this

end WaitN
