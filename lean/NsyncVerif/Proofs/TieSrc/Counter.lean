import NsyncVerif.Proofs.TieSrc.Lib
/- G4 tie of the layer Counter (counter.c) -/
namespace NsyncVerif.Tie
theorem src_counter : (sameFile "counter.c") = true := by decide
end NsyncVerif.Tie
