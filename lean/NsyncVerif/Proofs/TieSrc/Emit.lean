import NsyncVerif.Proofs.TieSrc.Lib
/- G4 tie of the layer Emit (debug.c) -/
namespace NsyncVerif.Tie
theorem src_emit : (sameFile "debug.c") = true := by decide
end NsyncVerif.Tie
