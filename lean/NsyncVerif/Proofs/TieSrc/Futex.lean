import NsyncVerif.Proofs.TieSrc.Lib
/- G4 tie of the layer Futex (nsync_semaphore_futex.c) -/
namespace NsyncVerif.Tie
theorem src_futex : (sameFile "nsync_semaphore_futex.c" &&
    sameFile "sem.h") = true := by decide
end NsyncVerif.Tie
