import NsyncVerif.Proofs.TieSrc.Lib
/- G4 tie of the layer Time (time_internal.c, time_rep.c, time_rep_timespec.cc) -/
namespace NsyncVerif.Tie
theorem src_time : (sameFile "time_internal.c" &&
    sameFile "time_rep.c" &&
    sameFile "time_rep_timespec.cc") = true := by decide
end NsyncVerif.Tie
