import NsyncVerif.Proofs.TieSrc.Lib
/- G4 tie of the layer CvFix (cv.c, sem_wait.c, cv debug callers) -/
namespace NsyncVerif.Tie
theorem src_cv : (sameFile "cv.c" &&
    sameFile "sem_wait.c" &&
    sameFns "common.c" ["nsync_spin_delay_", "nsync_spin_test_and_set_"] &&
    sameFns "debug.c" ["emit_cv_state", "emit_waiters"] &&
    sameFile "common.h") = true := by decide
end NsyncVerif.Tie
