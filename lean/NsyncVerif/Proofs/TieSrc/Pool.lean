import NsyncVerif.Proofs.TieSrc.Lib
/- G4 tie of the layer Pool (waiter pool of common.c) -/
namespace NsyncVerif.Tie
theorem src_pool : (sameFns "common.c" ["nsync_spin_delay_", "nsync_spin_test_and_set_", "waiter_destroy", "nsync_waiter_new_", "nsync_waiter_free_", "(file scope)"]) = true := by decide
end NsyncVerif.Tie
