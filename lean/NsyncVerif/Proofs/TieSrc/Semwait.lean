import NsyncVerif.Proofs.TieSrc.Lib
/- G4 tie of the layer SemWait (sem_wait.c + note-side walk) -/
namespace NsyncVerif.Tie
theorem src_semwait : (sameFile "sem_wait.c" &&
    sameFns "note.c" ["note_notify_child", "notify", "nsync_note_notified_deadline_", "nsync_note_new", "nsync_note_notify", "nsync_note_is_notified"]) = true := by decide
end NsyncVerif.Tie
