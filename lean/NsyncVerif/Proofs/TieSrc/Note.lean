import NsyncVerif.Proofs.TieSrc.Lib
/- G4 tie of the layer Note (note.c) -/
namespace NsyncVerif.Tie
theorem src_note : (sameFile "note.c" &&
    sameFns "common.h" ["(file scope)"]) = true := by decide
end NsyncVerif.Tie
