import NsyncVerif.Proofs.TieSrc.Lib
/- G4 tie of the layer Deadline (futex timespec, time_rep.c) -/
namespace NsyncVerif.Tie
theorem src_deadline : (sameFile "nsync_semaphore_futex.c" &&
    sameFile "time_rep.c") = true := by decide
end NsyncVerif.Tie
