import NsyncVerif.Proofs.TieSrc.Lib
/- G4 tie of the layer Once (once.c) -/
namespace NsyncVerif.Tie
theorem src_once : (sameFile "once.c") = true := by decide
end NsyncVerif.Tie
