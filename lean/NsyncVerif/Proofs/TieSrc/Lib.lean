import NsyncVerif.Gen.Funcs
import NsyncVerif.Model.ExpectedSrc
/-
  Tie G4 (source fingerprints): the functions a layer models still have exactly the text the model was VALIDATED
  against (comments and white space aside).  `Gen.funcs` is regenerated from /repo's current sources on every run;
  `ExpectedSrc.funcs` is frozen (tools/gen_tables.py --freeze) after a model has been brought in line with, and
  re-validated against, a deliberate change.  A failing lemma here is a broken tie, not by itself a violation: the
  check then searches for a failing input and reports the changed functions in the replay file.
-/
namespace NsyncVerif.Tie
def fp (tbl : List (String × String × String)) (file fn : String) : Option String :=
  (tbl.find? (fun r => r.1 == file && r.2.1 == fn)).map (·.2.2)
/-- every function of the file (and its file scope) is unchanged, none added or removed -/
def sameFile (file : String) : Bool :=
  (Gen.funcs.filter (·.1 == file)) == (ExpectedSrc.funcs.filter (·.1 == file)) && (Gen.funcs.any (·.1 == file))
/-- the listed functions exist and are unchanged -/
def sameFns (file : String) (fns : List String) : Bool :=
  fns.all (fun f => (fp Gen.funcs file f).isSome && fp Gen.funcs file f == fp ExpectedSrc.funcs file f)
end NsyncVerif.Tie
