import NsyncVerif.Proofs.TieSrc.Lib
/- G4 tie of the layer Dll (dll.c, dll.h) -/
namespace NsyncVerif.Tie
theorem src_dll : (sameFile "dll.c" &&
    sameFile "dll.h") = true := by decide
end NsyncVerif.Tie
