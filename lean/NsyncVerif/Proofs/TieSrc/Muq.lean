import NsyncVerif.Proofs.TieSrc.Lib
/- G4 tie of the layer MuQ (mu.c core) -/
namespace NsyncVerif.Tie
theorem src_muq : (sameFile "mu.c" &&
    sameFns "common.c" ["nsync_spin_delay_", "nsync_spin_test_and_set_"] &&
    sameFile "common.h") = true := by decide
end NsyncVerif.Tie
