import NsyncVerif.Proofs.TieSrc.Lib
/- G4 tie of the layer WaitN (wait.c + waitable functions) -/
namespace NsyncVerif.Tie
theorem src_waitn : (sameFile "wait.c" &&
    sameFns "cv.c" ["wake_waiters", "nsync_cv_signal", "nsync_cv_broadcast", "cv_ready_time", "cv_enqueue", "cv_dequeue"] &&
    sameFns "note.c" ["note_notify_child", "notify", "nsync_note_notified_deadline_", "note_ready_time", "note_enqueue", "note_dequeue"] &&
    sameFns "counter.c" ["nsync_counter_add", "counter_ready_time", "counter_enqueue", "counter_dequeue"]) = true := by decide
end NsyncVerif.Tie
