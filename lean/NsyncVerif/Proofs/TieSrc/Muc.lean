import NsyncVerif.Proofs.TieSrc.Lib
/- G4 tie of the layer MuC (mu.c + mu_wait.c) -/
namespace NsyncVerif.Tie
theorem src_muc : (sameFile "mu.c" &&
    sameFile "mu_wait.c" &&
    sameFns "common.c" ["nsync_spin_delay_", "nsync_spin_test_and_set_"] &&
    sameFile "common.h") = true := by decide
end NsyncVerif.Tie
