/-
  Proofs/CounterVCInv.lean — the invariant of the Counter × vector-clock product.
-/
import NsyncVerif.Proofs.CounterVCFactsAll

namespace Counter

open NsyncVerif

/-- thread t's clock dominates the pre-CAS clocks of the first n successful adds -/
def sawUpTo (p : PState) (t : Tid) (n : Nat) : Prop :=
  ∀ j c, j < n → p.adds[j]? = some c → VC.Clock.le c (p.m.vc t)

structure VInv (p : PState) : Prop where
  len : p.s.sh.created = true → p.s.sh.hist.length = p.adds.length + 1
  nil : p.s.sh.created = false → p.adds = [] ∧ p.zeroClock = VC.Clock.bot
  chain : ∀ c, c ∈ p.adds → VC.Clock.le c (p.m.relc .value)
  zc : VC.Clock.le p.zeroClock (p.m.relc .value)
  zi : (p.zeroIdx = 0 ∧ p.zeroClock = VC.Clock.bot)
      ∨ ∃ i, p.zeroIdx = i + 1 ∧ p.adds[i]? = some p.zeroClock
  seen : ∀ t, seenZero (p.s.pc t) = true →
      VC.Clock.le p.zeroClock (p.m.vc t) ∧ p.s.sh.value = 0 ∧ p.s.sh.waited = true
      ∧ sawUpTo p t p.zeroIdx
  past : ∀ t, pastStore (p.s.pc t) = true → p.s.sh.waited = true
  idx : ∀ t i, pcIdx (p.s.pc t) = some i → sawUpTo p t i
  val : ∀ t v, pcVal (p.s.pc t) = some v → ∃ n, p.s.sh.hist[n]? = some v ∧ sawUpTo p t n

theorem bot_le (c : VC.Clock) : VC.Clock.le VC.Clock.bot c := fun _ => Nat.zero_le _

theorem toVC_some {t : Tid} {ev : Ev} {a : VC.AEv Loc} (h : toVC t ev = some a) :
    a.t = t ∧
    ((∃ o obs, ev = .ld o a.loc obs ∧ a.op = .ld ∧ a.ord = toOrd o)
     ∨ (∃ o n obs, ev = .st o a.loc n obs ∧ a.op = .st ∧ a.ord = toOrd o)
     ∨ (∃ o x n obs, ev = .cas o a.loc x n obs true ∧ a.op = .rmw ∧ a.ord = toOrd o)
     ∨ (∃ o x n obs, ev = .cas o a.loc x n obs false ∧ a.op = .ld ∧ a.ord = .rlx)) := by
  cases ev with
  | ld o l obs => cases l <;> simp [toVC] at h <;> subst h <;> simp
  | st o l n obs => cases l <;> simp [toVC] at h <;> subst h <;> simp
  | cas o l x n obs ok => cases l <;> cases ok <;> simp [toVC] at h <;> subst h <;> simp
  | _ => simp [toVC] at h

theorem vstep_mono (m : VC.St Loc) (e : Event) (u : Tid) : VC.Clock.le (m.vc u) ((vstep m e).vc u) := by
  unfold vstep; split
  · exact VC.vc_mono _ _ _
  · exact VC.Clock.le_refl _

/-- when the object exists no plain store to `value` is accepted, so the release sequence on
    `value` is never broken: whatever its release clock carries stays carried -/
theorem vstep_chain {s s' : State} {t : Tid} {ev : Ev} (m : VC.St Loc) (g : VCFacts s t ev s')
    (hc : s.sh.created = true) (c : VC.Clock) (h : VC.Clock.le c (m.relc .value)) :
    VC.Clock.le c ((vstep m (.thr t ev)).relc .value) := by
  unfold vstep evVC
  split
  · rename_i a ha
    apply VC.release_chain_step _ _ _ _ h
    intro hl hop
    obtain ⟨_, h1 | h1 | h1 | h1⟩ := toVC_some ha
    · obtain ⟨_, _, _, h2, _⟩ := h1; rw [h2] at hop; cases hop
    · obtain ⟨o, n, ob, h2, _, _⟩ := h1
      rw [hl] at h2
      have := g.stv o n ob h2
      rw [hc] at this; cases this
    · obtain ⟨_, _, _, _, _, h2, _⟩ := h1; rw [h2] at hop; cases hop
    · obtain ⟨_, _, _, _, _, h2, _⟩ := h1; rw [h2] at hop; cases hop
  · exact h

theorem casOf_some {s : State} {t t' : Tid} {ev : Ev} (h : casOf s (.thr t ev) = some t') :
    t' = t ∧ ∃ d v x n ob, s.pc t = .aCas d v ∧ ev = .cas .ar .value x n ob true := by
  unfold casOf at h
  split at h
  · rename_i t0 x n ob heq
    cases heq
    split at h
    · rename_i d v hpc; cases h; exact ⟨rfl, d, v, _, _, _, hpc, rfl⟩
    · cases h
  · cases h

theorem casOf_of {s : State} {t : Tid} {d : Int} {v x n ob : Nat} (hpc : s.pc t = .aCas d v) :
    casOf s (.thr t (.cas .ar .value x n ob true)) = some t := by
  simp [casOf, hpc]

theorem pcIdx_lt {s : State} (hi : Inv s) {u : Tid} {i : Nat} (h : pcIdx (s.pc u) = some i) :
    i < s.sh.hist.length := by
  have hp := hi.pcs u
  have key : ∀ d r, addGhost s.sh.hist d r i → i < s.sh.hist.length := by
    intro d r hg
    rcases Nat.lt_or_ge i s.sh.hist.length with h' | h'
    · exact h'
    · have := hg.1; rw [List.getElem?_eq_none h'] at this; cases this
  cases hpu : s.pc u <;> rw [hpu] at h hp <;> simp only [pcIdx] at h <;>
    first
      | (cases h; done)
      | (cases h; simp only [pcInv, pcFacts] at hp
         first | exact key _ _ hp.2.1 | exact key _ _ hp.2)

theorem sawUpTo_mono {p p' : PState} {u : Tid} {n : Nat}
    (hm : VC.Clock.le (p.m.vc u) (p'.m.vc u)) (ha : ∃ l, p'.adds = p.adds ++ l) (hn : n ≤ p.adds.length)
    (h : sawUpTo p u n) : sawUpTo p' u n := by
  intro j c hj hc
  obtain ⟨l, hl⟩ := ha
  rw [hl, List.getElem?_append_left (by omega)] at hc
  exact VC.Clock.le_trans (h j c hj hc) hm

theorem sawAll {p : PState} {vc' : VC.Clock} (hv : VInv p)
    (h : VC.Clock.le (p.m.relc .value) vc') (j : Nat) (c : VC.Clock) (hc : p.adds[j]? = some c) :
    VC.Clock.le c vc' :=
  VC.Clock.le_trans (hv.chain c (List.mem_of_getElem? hc)) h

end Counter
