import NsyncVerif.Proofs.MuCFairSteps4
import NsyncVerif.Proofs.MuCFairTrace
import NsyncVerif.Proofs.MuCFairData
/-
  MuC, fair termination, step A for ALL threads at once: only finitely many threads ever left `idle`; after the last
  arrival the system is CLOSED — from some time on no `call` and no `ret` happens any more, nobody holds the mutex
  between calls, the protected data are constant, and every thread is for ever idle holding nothing, for ever inside a
  release, or for ever inside an acquisition.
-/
namespace NsyncVerif.MuC

variable {cfg : Cfg} {s0 : State}

/-- Every thread with a number `≥ T` is idle and holds nothing. -/
def BoundedBy (s : State) (T : Nat) : Prop := ∀ t, T ≤ t → s.pc t = .idle ∧ s.held t = none

theorem bounded_step {s s' : State} {e : Event} {T : Nat} (h : BoundedBy s T) (hs : step cfg s e = .ok s') :
    BoundedBy s' (max T (e.tid.getD 0 + 1)) := by
  intro t ht
  have hne : e.tid ≠ some t := by
    intro he; rw [he] at ht; simp at ht; omega
  obtain ⟨a, b⟩ := step_other hs t hne
  rw [a, b]; exact h t (by omega)

theorem reachable_bounded {s : State} (h : Reachable cfg s) : ∃ T, BoundedBy s T :=
  reachable_induction (P := fun s => ∃ T, BoundedBy s T) ⟨0, fun _ _ => ⟨rfl, rfl⟩⟩
    (fun _ _ _ _ ⟨_, hT⟩ hs => ⟨_, bounded_step hT hs⟩) s h

/-- A thread that is idle holding nothing stays so, unless an acquisition call arrives. -/
theorem idle_nothing_step {s s' : State} {e : Event} {t : Tid} (hs : step cfg s e = .ok s') (hna : e.isArrival = false)
    (hp : s.pc t = .idle) (hh : s.held t = none) : s'.pc t = .idle ∧ s'.held t = none := by
  by_cases he : e.tid = some t
  · have hc : ∀ a, e ≠ .call t a := by
      intro a ha; subst ha
      simp only [step, stepCall, hp] at hs
      cases a <;> simp [Event.isArrival] at hna <;> simp [hh] at hs
    obtain ⟨a, b⟩ := idle_step_frame hs he hp hc
    exact ⟨a.trans hp, b.trans hh⟩
  · obtain ⟨a, b⟩ := step_other hs t he
    exact ⟨a.trans hp, b.trans hh⟩

theorem bounded_stays (x : Exec cfg s0) {n0 : Nat} (hna : NoArrivals x n0) {T : Nat} (hT : BoundedBy (x.ρ n0) T) :
    ∀ d, BoundedBy (x.ρ (n0 + d)) T := by
  intro d
  induction d with
  | zero => exact hT
  | succ d ih =>
    intro t ht
    cases h : x.σ (n0 + d) with
    | none => rw [show n0 + (d + 1) = n0 + d + 1 by omega, x.next_none h]; exact ih t ht
    | some e =>
      exact idle_nothing_step (x.next_some h) (hna _ e (by omega) h) (ih t ht).1 (ih t ht).2

theorem data_const_step {s s' : State} {e : Event} (h1 : Inv1 s) (hs : step cfg s e = .ok s')
    (hh : ∀ t, s.held t = none) : s'.data = s.data := by
  by_cases hw : ∃ t x v, e = .dataW t x v
  · obtain ⟨t, x, v, rfl⟩ := hw
    simp [step, hh] at hs
  · exact data_step h1 hs (fun t x v he => hw ⟨t, x, v, he⟩)

/-- The system is closed from time `n` on. -/
structure ClosedFrom (x : Exec cfg s0) (n : Nat) : Prop where
  /-- every thread's stage is constant … -/
  frozen : ∀ t j, n ≤ j → stage (x.ρ j) t = stage (x.ρ n) t
  /-- … and is 0 (idle holding nothing), 1 (inside a release) or 3 (inside an acquisition) -/
  not_two : ∀ t, stage (x.ρ n) t ≠ 2
  /-- no `call`, no `ret` -/
  no_api : ∀ j e, n ≤ j → x.σ j = some e → e.isApi = false
  /-- nobody holds the mutex between calls -/
  held : ∀ t j, n ≤ j → (x.ρ j).held t = none
  /-- the protected data are constant -/
  data : ∀ j, n ≤ j → (x.ρ j).data = (x.ρ n).data

theorem stage_two_iff {s : State} {t : Tid} (h1 : Inv1 s) : stage s t = 2 ↔ s.held t ≠ none := by
  unfold stage stagePc
  constructor
  · intro h
    split at h
    · split at h
      · rename_i hs; intro e; rw [e] at hs; cases hs
      · omega
    · split at h <;> omega
  · intro h
    have hi := h1.hidle t h
    rw [if_pos hi]
    cases hh : s.held t with
    | none => exact absurd hh h
    | some m => rfl

/-- Steps A + B for all threads: after the last arrival the system closes. -/
theorem closes (x : Exec cfg s0) (hr : Reachable cfg s0) (hh : HoldersRelease x) {n0 : Nat} (hna : NoArrivals x n0) :
    ∃ n, n0 ≤ n ∧ ClosedFrom x n := by
  obtain ⟨T, hT⟩ := reachable_bounded (x.reach hr n0)
  -- the threads below `T` freeze one after the other
  obtain ⟨n, hn, hfr⟩ := eventually_list (P := fun t j => stage (x.ρ (j + 1)) t = stage (x.ρ j) t) n0 (List.range T)
    (fun t _ => by
      obtain ⟨m, hm, hc⟩ := stage_freezes x hr hna t
      exact ⟨m, hm, fun j hj => by rw [hc j hj, hc (j + 1) (by omega)]⟩)
  have hstep : ∀ t j, n ≤ j → stage (x.ρ (j + 1)) t = stage (x.ρ j) t := by
    intro t j hj
    by_cases ht : t < T
    · exact hfr t (List.mem_range.mpr ht) j hj
    · have ht' : T ≤ t := Nat.le_of_not_lt ht
      have b1 := bounded_stays x hna hT (j + 1 - n0) t ht'
      have b0 := bounded_stays x hna hT (j - n0) t ht'
      rw [show n0 + (j + 1 - n0) = j + 1 by omega] at b1
      rw [show n0 + (j - n0) = j by omega] at b0
      simp [stage, stagePc, b0.1, b0.2, b1.1, b1.2]
  have hfrozen : ∀ t j, n ≤ j → stage (x.ρ j) t = stage (x.ρ n) t := by
    intro t j hj
    obtain ⟨d, rfl⟩ : ∃ d, j = n + d := ⟨j - n, by omega⟩
    induction d with
    | zero => rfl
    | succ d ih => rw [show n + (d + 1) = n + d + 1 by omega, hstep t (n + d) (by omega)]; exact ih (by omega)
  have hnot2 : ∀ t, stage (x.ρ n) t ≠ 2 := fun t => frozen_not_two x hr hh hna t hn (hfrozen t)
  have hheld : ∀ t j, n ≤ j → (x.ρ j).held t = none := by
    intro t j hj
    apply Classical.byContradiction
    intro hne
    have := (stage_two_iff (reachable_inv1 (x.reach hr j))).2 hne
    rw [hfrozen t j hj] at this
    exact hnot2 t this
  refine ⟨n, hn, hfrozen, hnot2, ?_, hheld, ?_⟩
  · -- a `call` or a `ret` changes the stage of its thread
    intro j e hj he
    cases hapi : e.isApi with
    | false => rfl
    | true =>
      exfalso
      have hs := x.next_some he
      have h1 := reachable_inv1 (x.reach hr j)
      cases e <;> simp [Event.isApi] at hapi
      · rename_i t a
        -- a call: the thread was idle (stage 0, it holds nothing) — only an arrival is accepted
        have hidle : (x.ρ j).pc t = .idle := by
          cases hp : (x.ρ j).pc t <;> first | rfl | (simp [step, stepCall, hp] at hs)
        have hnar := hna j _ (by omega) he
        simp only [step, stepCall, hidle] at hs
        cases a <;> simp [Event.isArrival] at hnar <;> simp [hheld t j hj] at hs
      · rename_i t a res
        -- a return: the thread is idle afterwards, it was not before
        have hni : (x.ρ j).pc t ≠ .idle := by
          intro hi; simp [step, stepRet, hi] at hs
        have hi' : (x.ρ (j + 1)).pc t = .idle := by
          simp only [step, stepRet] at hs
          split at hs
          all_goals first
            | (cases hs; done)
            | (repeat' split at hs
               all_goals first
                 | (cases hs; done)
                 | (simp only [Except.ok.injEq] at hs; rw [← hs]; simp [setHeld, dropW, setFn] <;> (repeat' split) <;> simp [setFn]))
        have e1 := hstep t j hj
        have h13 : stage (x.ρ j) t = 1 ∨ stage (x.ρ j) t = 3 := by
          unfold stage stagePc; rw [if_neg hni]; split <;> simp
        have h02 : stage (x.ρ (j + 1)) t = 0 ∨ stage (x.ρ (j + 1)) t = 2 := by
          unfold stage stagePc; rw [if_pos hi']; split <;> simp
        rcases h13 with a | a <;> rcases h02 with b | b <;> omega
  · -- data are written only by a holder
    intro j hj
    obtain ⟨d, rfl⟩ : ∃ d, j = n + d := ⟨j - n, by omega⟩
    induction d with
    | zero => rfl
    | succ d ih =>
      rw [← ih (by omega)]
      cases he : x.σ (n + d) with
      | none => rw [show n + (d + 1) = n + d + 1 by omega, x.next_none he]
      | some e =>
        have hs := x.next_some he
        rw [show n + (d + 1) = n + d + 1 by omega]
        exact data_const_step (reachable_inv1 (x.reach hr (n + d))) hs (fun t => hheld t (n + d) (by omega))

end NsyncVerif.MuC
