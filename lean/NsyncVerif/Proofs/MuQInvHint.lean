import NsyncVerif.Proofs.MuQInvQueueStep
/-
  MuQ: preservation of (I_hint), first part (MU_WAITING, MU_ALL_FALSE, scan locals).
-/
namespace NsyncVerif.MuQ

/-- Steps that leave waiting/af bits, spinlock owner, queue, spin/scan/fin roles and lTypes alone. -/
theorem ahint_frame {a a' : AState} (h : AHint a)
    (hw : a'.word.waiting = a.word.waiting) (haf : a'.word.af = false) (hsp : a'.sp = a.sp)
    (hq : a'.queue = a.queue)
    (hspin : ∀ u, (a'.ro u).spin = true → (a.ro u).spin = true)
    (hscan : ∀ u sc, a'.ro u = .scan sc → a.ro u = .scan sc)
    (hfin : ∀ u f, a'.ro u = .fin f → a.ro u = .fin f)
    (hlt : ∀ k, (a'.wr k).lType = (a.wr k).lType) : AHint a' := by
  obtain ⟨h1, h2, h3, h4, h5⟩ := h
  refine ⟨by rw [hsp, hw, hq]; exact h1, fun u hu => by rw [hw]; exact h2 u (hspin u hu), haf, ?_, ?_⟩
  · intro u sc hr
    obtain ⟨e1, e2, pre, e3, e4, e5⟩ := h4 u sc (hscan u sc hr)
    refine ⟨e1, e2, pre, by rw [hq]; exact e3, e4, fun hs => ?_⟩
    obtain ⟨k, hk, hl⟩ := e5 hs
    exact ⟨k, hk, by rw [hlt k]; exact hl⟩
  · intro u f hr
    obtain ⟨e1, e2, e3, e4, e5⟩ := h5 u f (hfin u f hr)
    refine ⟨e1, e2, by rw [hq]; exact e3, e4, fun hs => ?_⟩
    obtain ⟨k, hk, hl⟩ := e5 hs
    exact ⟨k, by rw [hq]; exact hk, by rw [hlt k]; exact hl⟩

/-- Role change of `t` between roles that are neither spin-owning nor scan/fin. -/
theorem frame_spin {a : AState} {t : Tid} {r : Role} (hr : r.spin = false) (u : Tid)
    (h : (setFn a.ro t r u).spin = true) : (a.ro u).spin = true := by
  simp only [setFn] at h; split at h
  · rw [hr] at h; cases h
  · exact h

theorem frame_scan {a : AState} {t : Tid} {r : Role} (hr : r.spin = false) (u : Tid) (sc : Scan)
    (h : setFn a.ro t r u = .scan sc) : a.ro u = .scan sc := by
  simp only [setFn] at h; split at h
  · rw [h] at hr; cases hr
  · exact h

theorem frame_fin {a : AState} {t : Tid} {r : Role} (hr : r.spin = false) (u : Tid) (f : Fin)
    (h : setFn a.ro t r u = .fin f) : a.ro u = .fin f := by
  simp only [setFn] at h; split at h
  · rw [h] at hr; cases hr
  · exact h

theorem erase_mid {pre mid rest : List Wid} {k : Wid} (hnd : (pre ++ (mid ++ k :: rest)).Nodup) :
    (pre ++ (mid ++ k :: rest)).erase k = (pre ++ mid) ++ rest := by
  have hkn : k ∉ pre ++ mid := by
    intro hm
    rw [← List.append_assoc, List.nodup_append] at hnd
    exact hnd.2.2 k hm k (by simp) rfl
  rw [← List.append_assoc, List.erase_append_right _ hkn, List.erase_cons_head]

/-- The scan continues from a state satisfying the scan invariant. -/
theorem ahint_advance {X : AState} {t : Tid} {sc : Scan} (hq : AQueue X) (h : AHint X)
    (hspt : X.sp = some t) (hwt : X.word.waiting = true)
    (hother : ∀ u, u ≠ t → (X.ro u).spin = false)
    (hwk : sc.wake ≠ [] ∨ (sc.wt = none ∧ sc.todo ≠ []))
    (hwtn : sc.wake ≠ [] → sc.wt ≠ none)
    (hpre : ∃ pre, X.queue = pre ++ sc.todo ∧ (sc.saf = true → pre = []) ∧
      (sc.sww = true → ∃ k, k ∈ pre ∧ (X.wr k).lType = .W)) :
    AHint (X.advance t sc) := by
  obtain ⟨hrem, hdone⟩ := scanGo_spec (fun k => (X.wr k).lType) sc.todo sc
  obtain ⟨pre, hqe, hsaf, hsww⟩ := hpre
  have hnospin : ∀ u r, u ≠ t → X.ro u = r → r.spin = false := fun u r hu hr => by rw [← hr]; exact hother u hu
  simp only [AState.advance]
  split
  · rename_i k sc' hg
    obtain ⟨mid, e1, e2, e3, e4, e5, e6⟩ := hrem k sc' hg
    refine ⟨(fun hn => by rw [show ({ X with queue := X.queue.erase k, ro := setFn X.ro t (.scan sc') } : AState).sp = X.sp from rfl, hspt] at hn; cases hn),
      fun _ _ => hwt, h.af, ?_, ?_⟩
    · intro u sc2 hr
      by_cases hu : u = t
      · subst hu
        rw [show ({ X with queue := X.queue.erase k, ro := setFn X.ro u (.scan sc') } : AState).ro u = setFn X.ro u (.scan sc') u from rfl,
          setFn_same] at hr
        cases hr
        refine ⟨by rw [e2]; simp, by rw [e3]; simp, pre ++ mid, ?_, ?_, ?_⟩
        · show X.queue.erase k = _
          have hnd := hq.nodup; rw [hqe, e1] at hnd ⊢; exact erase_mid hnd
        · intro hs
          by_cases hm : mid = []
          · rw [(e5 hm).2] at hs; rw [hsaf hs, hm]; rfl
          · rw [(e6 hm).2.1] at hs; cases hs
        · intro hs
          by_cases hm : mid = []
          · rw [(e5 hm).1] at hs
            obtain ⟨x, hx, hl⟩ := hsww hs
            exact ⟨x, by simp [hx], hl⟩
          · obtain ⟨x, hx, hl⟩ := (e6 hm).2.2
            exact ⟨x, by simp [hx], hl⟩
      · have hr' : X.ro u = .scan sc2 := by
          rw [show ({ X with queue := X.queue.erase k, ro := setFn X.ro t (.scan sc') } : AState).ro u = setFn X.ro t (.scan sc') u from rfl,
            setFn_other _ _ _ _ hu] at hr
          exact hr
        have := hnospin u _ hu hr'; cases this
    · intro u f hr
      by_cases hu : u = t
      · subst hu
        rw [show ({ X with queue := X.queue.erase k, ro := setFn X.ro u (.scan sc') } : AState).ro u = setFn X.ro u (.scan sc') u from rfl,
          setFn_same] at hr
        cases hr
      · have hr' : X.ro u = .fin f := by
          rw [show ({ X with queue := X.queue.erase k, ro := setFn X.ro t (.scan sc') } : AState).ro u = setFn X.ro t (.scan sc') u from rfl,
            setFn_other _ _ _ _ hu] at hr
          exact hr
        have := hnospin u _ hu hr'; cases this
  · rename_i sc' hg
    obtain ⟨mid, e1, e2, e3, e4, e5, e6, e7⟩ := hdone sc' hg
    have hwake : sc.wake ≠ [] := by
      rcases hwk with h | ⟨h1, h2⟩
      · exact h
      · exact absurd (e4 h1) h2
    refine ⟨(fun hn => by rw [show ({ X with ro := setFn X.ro t (.fin (mkFin sc' X.queue.isEmpty)) } : AState).sp = X.sp from rfl, hspt] at hn; cases hn),
      fun _ _ => hwt, h.af, ?_, ?_⟩
    · intro u sc2 hr
      by_cases hu : u = t
      · subst hu
        rw [show ({ X with ro := setFn X.ro u (.fin (mkFin sc' X.queue.isEmpty)) } : AState).ro u = setFn X.ro u _ u from rfl, setFn_same] at hr
        cases hr
      · have hr' : X.ro u = .scan sc2 := by
          rw [show ({ X with ro := setFn X.ro t (.fin (mkFin sc' X.queue.isEmpty)) } : AState).ro u = setFn X.ro t _ u from rfl,
            setFn_other _ _ _ _ hu] at hr
          exact hr
        have := hnospin u _ hu hr'; cases this
    · intro u f hr
      by_cases hu : u = t
      · subst hu
        rw [show ({ X with ro := setFn X.ro u (.fin (mkFin sc' X.queue.isEmpty)) } : AState).ro u = setFn X.ro u _ u from rfl, setFn_same] at hr
        cases hr
        refine ⟨by simp only [mkFin]; rw [e2]; exact hwake, ?_, rfl, ?_, ?_⟩
        · simp only [mkFin, e2]; cases hx : sc.wake with
          | nil => exact absurd hx hwake
          | cons _ _ => rfl
        · intro hs
          simp only [mkFin] at hs ⊢
          show X.queue.isEmpty = true
          have hm : mid = [] := by
            cases hmid : mid with
            | nil => rfl
            | cons x xs => have := (e7 (by rw [hmid]; simp)).2.1; rw [this] at hs; cases hs
          have ht : sc'.todo = [] := by
            cases htd : sc'.todo with
            | nil => rfl
            | cons x xs => have := e6 (by rw [htd]; simp); rw [this] at hs; cases hs
          have : sc.saf = true := by rw [← (e5 hm).2 ht]; exact hs
          rw [hqe, hsaf this, e1, hm, ht]; rfl
        · intro hs
          simp only [mkFin] at hs
          by_cases hm : mid = []
          · rw [(e5 hm).1] at hs
            obtain ⟨x, hx, hl⟩ := hsww hs
            exact ⟨x, by rw [hqe]; simp [hx], hl⟩
          · obtain ⟨x, hx, hl⟩ := (e7 hm).2.2
            exact ⟨x, by rw [hqe, e1]; simp [hx], hl⟩
      · have hr' : X.ro u = .fin f := by
          rw [show ({ X with ro := setFn X.ro t (.fin (mkFin sc' X.queue.isEmpty)) } : AState).ro u = setFn X.ro t _ u from rfl,
            setFn_other _ _ _ _ hu] at hr
          exact hr
        have := hnospin u _ hu hr'; cases this

end NsyncVerif.MuQ
