import NsyncVerif.Proofs.MuCInv7Scan
/-
  MuC, MU_ALL_FALSE: the steps that continue with the plain code of the scan.
-/
namespace NsyncVerif.MuC

theorem scanPc_susp {r : Ret} {late : Bool} {p : PC} (h : ScanPc r late p) : p.susp = late := by
  cases p <;> simp [ScanPc] at h <;> simp [PC.susp, h]

theorem scanPc_firstW {r : Ret} {late : Bool} {p : PC} (h : ScanPc r late p) : p.firstW = false := by
  cases p <;> simp [ScanPc] at h <;> rfl

theorem scanPc_mwPost {r : Ret} {late : Bool} {p : PC} (h : ScanPc r late p) : p.mwPost = r.mw? := by
  cases p <;> simp [ScanPc] at h <;> simp [PC.mwPost, h]

theorem scanPc_enqPend {r : Ret} {late : Bool} {p : PC} (h : ScanPc r late p) : p.enqPend = false := by
  cases p <;> simp [ScanPc] at h <;> rfl

theorem scanPc_nonLate {r : Ret} {late : Bool} {p : PC} (h : ScanPc r late p) : p.nonLate = !late := by
  cases p <;> simp [ScanPc] at h <;> simp [PC.nonLate, h]

theorem unl_of_nonLate {p : PC} (h : p.nonLate = true) : p.unl = true := by
  cases p <;> simp [PC.nonLate] at h <;> rfl

theorem unl_of_reScan {p : PC} {sc : Scan} (h : p.reScan = some sc) : p.unl = true := by
  cases p <;> simp [PC.reScan] at h <;> rfl

/-- A step of the unlocker `t` that ends in the plain code of the scan. -/
theorem Inv7.scan_step {s s' : State} (t : Tid) (h : Inv7 s) (h4' : Inv4 s')
    (hat : ScanAt7 (fun k => CondFalse s s.data k) s' t)
    (hcnd : ∀ x, (s'.wr x).cond = (s.wr x).cond)
    (hd : s'.data = s.data) (hss : s'.secStart = s.secStart) (hnv : s'.nwViol = s.nwViol) (hh : s'.held = s.held)
    (haf : s'.word.af = true → s.word.af = true)
    (hpc : ∀ u, u ≠ t → s'.pc u = s.pc u)
    (hperm : (allOf s' t).Perm (allOf s t))
    (hoth : ∀ u, u ≠ t → (s.pc u).unl = false)
    (hwake : ∀ x, x ∈ (s.pc t).wakeL → x ∈ (s'.pc t).wakeL)
    (hsusp : ((s.pc t).susp = true → (s'.pc t).susp = true) ∨ (s.word.af = true → ∀ k, ¬ Queued s k))
    (hfw : (s'.pc t).firstW = (s.pc t).firstW)
    (hmt : (s'.pc t).mtOld = none) (hfst : (s'.pc t).mwPost = (s.pc t).mwPost) (henq : (s'.pc t).enqPend = false)
    (hnlt : (s'.pc t).nonLate = true → s'.word.cond = false) : Inv7 s' := by
  have hQ : ∀ k, Queued s' k → Queued s k := fun k hk => queued_of_scan h4' hpc hperm hoth hwake hk
  have hcf : ∀ d k, CondFalse s d k → CondFalse s' d k := fun d k hk => hk.congr (hcnd k)
  have hopen : SecOpen s' ↔ SecOpen s := by
    refine secOpen_congr hh ?_
    intro u; by_cases e : u = t
    · subst e; exact hfw
    · rw [hpc u e]
  refine ⟨?_, ?_, ?_, ?_, ?_, ?_, ?_, ?_⟩
  · intro u hu
    by_cases e : u = t
    · subst e; exact hnlt hu
    · rw [hpc u e] at hu
      have := unl_of_nonLate hu; rw [hoth u e] at this; cases this
  · intro u c hc
    by_cases hu : u = t
    · subst hu; rw [hfst] at hc; exact h.fst u c hc
    · rw [hpc u hu] at hc; exact h.fst u c hc
  · intro u hu
    by_cases e : u = t
    · subst e; rw [henq] at hu; cases hu
    · rw [hpc u e] at hu
      cases haf' : s'.word.af with
      | false => rfl
      | true => have := h.enq u hu; rw [haf haf'] at this; cases this
  · intro haf' k hk
    obtain ⟨a, b⟩ := h.a1 (haf haf') k (hQ k hk)
    refine ⟨by rw [hcnd]; exact a, ?_⟩
    intro hnv' hns d hd'
    rcases hsusp with hsusp | hsusp
    · refine hcf d k (b (by rw [← hnv]; exact hnv') ?_ d (refData_congr hopen hd hss hd'))
      intro u
      by_cases e : u = t
      · subst e
        cases hsu : (s.pc u).susp with
        | false => rfl
        | true => have := hsusp hsu; rw [hns u] at this; cases this
      · rw [← hpc u e]; exact hns u
    · exact absurd (hQ k hk) (hsusp (haf haf') k)
  · intro u old ho hoaf k hk
    have ho' : (s.pc u).mtOld = some old := by
      by_cases e : u = t
      · subst e; rw [hmt] at ho; cases ho
      · rw [← hpc u e]; exact ho
    obtain ⟨a, b⟩ := h.a2 u old ho' hoaf k (hQ k hk)
    exact ⟨by rw [hcnd]; exact a, fun hnv' => by rw [hd]; exact hcf _ k (b (by rw [← hnv]; exact hnv'))⟩
  · intro u sc hu hsaf k hk
    by_cases e : u = t
    · subst e
      obtain ⟨a, b⟩ := hat.1 sc hu hsaf k hk
      exact ⟨a, by rw [hd]; exact hcf _ k b⟩
    · rw [hpc u e] at hu
      have := unl_of_scan hu; rw [hoth u e] at this; cases this
  · intro u sc hu
    by_cases e : u = t
    · subst e; exact hat.2.1 sc hu
    · rw [hpc u e] at hu
      have := unl_of_reScan hu; rw [hoth u e] at this; cases this
  · intro u f hu
    by_cases e : u = t
    · subst e
      obtain ⟨a, b⟩ := hat.2.2 f hu
      refine ⟨a, fun hsaf k hk => ?_⟩
      obtain ⟨c, d⟩ := b hsaf k hk
      exact ⟨c, by rw [hd]; exact hcf _ k d⟩
    · rw [hpc u e] at hu
      have := unl_of_fin hu; rw [hoth u e] at this; cases this

theorem inv7_stepCasA {s s' : State} {t : Tid} {o : Ord} {loc : Loc} {exp new obs : Nat} {ok : Bool}
    (h1 : Inv1 s) (h3 : Inv3 s) (h4 : Inv4 s) (h4' : Inv4 s') (h5 : Inv5 s) (h : Inv7 s)
    (hp : match s.pc t with
      | .usCasGrab _ _ | .usRelCas _ _ _ | .usReCas _ _ _ | .usRcCas _ _ _ _ => True
      | _ => False)
    (hs : stepCas s t o loc exp new obs ok = .ok s') : Inv7 s' := by
  unfold stepCas at hs
  split at hs
  all_goals try (rename_i heq; rw [heq] at hp; exact False.elim hp)
  all_goals try (rename_i hne; split at hp <;> first | exact False.elim hp | (exfalso; simp_all; done))
  · -- usCasGrab
    rename_i r old heq
    have hok3 := h3.ok3 t; rw [heq] at hok3
    rcases casWordE_ok hs with ⟨hw, -, hs⟩ | ⟨-, -, rfl⟩
    · have hsc0 : Scan.ok { late := old.cond, tc := old.cond, done := [], passed := [], todo := [], wake := [], wt := none,
                            sww := false, saf := true } := fun h => h
      obtain ⟨hf, p, hpc, hsc⟩ := afterPickup_frame hs hsc0
      obtain ⟨hlo, hperm⟩ := afterPickup_lists hs
      have hwk := afterPickup_wake hs
      have hpt : ScanPc r old.cond (s'.pc t) := by rw [hpc]; simpa using hsc
      have hsh : shareOf s t ≠ none := by
        rw [h1.share_eq (by rw [heq]; simp), heq]; simp [pcShare]
      have hoth := no_unl_at_grab h1 h3 hsh (by rw [hw]; exact hok3)
      have hat := afterPickup_saf (G := fun k => CondFalse s s.data k) hs (by intro _ k hk; simp at hk) (fun _ => rfl)
      refine Inv7.scan_step t h h4' hat (fun x => by have := hlo x; simp at this; exact this.2.2.2.2.1)
        (by rw [hf.data]; simp) (by rw [hf.secStart]; simp) (by rw [hf.nwViol]; simp) (by rw [hf.held]; simp)
        ?_ (by intro u hu; rw [hpc]; simp [setFn, hu]) ?_ hoth
        (by intro x hx; rw [heq] at hx; simp [PC.wakeL] at hx) ?_ ?_ (scanPc_mtOld hpt) ?_ (scanPc_enqPend hpt) ?_
      rotate_right
      · rw [scanPc_nonLate hpt, hf.word]
        intro hl
        simp only [Bool.not_eq_true'] at hl
        simp [grabWord, hl]; cases r.mode <;> simp [subWord, hl]
      · rw [hf.word]; simp [grabWord, hw]; cases r.mode <;> simp [subWord]
      · refine hperm.trans ?_
        simp [allOf, heq, PC.priv, PC.scan?, PC.wakeL, Scan.lists]
      · -- suspension: a dirty writer either goes on holding the writer bit, or nothing is queued
        rw [scanPc_susp hpt]
        cases hc : old.cond with
        | true => exact Or.inl (fun _ => rfl)
        | false =>
          right
          intro haf k hk
          have hcn := (h.a1 haf k hk).1
          have := h5.h1 k hk hcn
          rw [hw, hc] at this; cases this
      · rw [scanPc_firstW hpt, heq]; rfl
      · rw [scanPc_mwPost hpt, heq]; rfl
    · inv7_local t h heq
  · -- usRelCas
    rename_i r sc old heq
    have hok1 := h1.pcok t; rw [heq] at hok1
    rcases casWordE_ok hs with ⟨hw, -, hs⟩ | ⟨-, -, rfl⟩
    · obtain ⟨hf, p, hpc, hsc⟩ := scanRun_frame _ _ t r sc s' hs hok1.2
      obtain ⟨hlo, hperm⟩ := scanRun_lists _ _ t r sc s' hs
      have hwk := scanRun_wake _ _ t r sc s' hs
      have hpt : ScanPc r sc.late (s'.pc t) := by rw [hpc]; simpa using hsc
      have hat := scanRun_saf (fun k => CondFalse s s.data k) _ _ t r sc s' hs (h.sc t sc (by rw [heq]; rfl))
      refine Inv7.scan_step t h h4' hat (fun x => (hlo x).2.2.2.2.1)
        (by rw [hf.data]) (by rw [hf.secStart]) (by rw [hf.nwViol]) (by rw [hf.held])
        (by rw [hf.word]; simp [hw]) (by intro u hu; rw [hpc]; simp [setFn, hu]) ?_ ?_
        (by intro x hx; rw [heq] at hx; exact hwk x hx) (Or.inl ?_) ?_ (scanPc_mtOld hpt) ?_ (scanPc_enqPend hpt) ?_
      rotate_right
      · rw [scanPc_nonLate hpt, hf.word]
        intro hl
        have := h.nl t (by rw [heq]; simpa [PC.nonLate] using hl)
        simpa [← hw] using this
      · refine hperm.trans ?_
        simp [allOf, heq, PC.priv, PC.scan?, PC.wakeL]
      · intro u hu
        cases e : (s.pc u).unl with
        | false => rfl
        | true => exact absurd (h4.uniq u t e (by rw [heq]; rfl)) hu
      · rw [scanPc_susp hpt, heq]; simp [PC.susp]
      · rw [scanPc_firstW hpt, heq]; rfl
      · rw [scanPc_mwPost hpt, heq]; rfl
    · inv7_local t h heq
  · -- usReCas
    rename_i r sc old heq
    have hok1 := h1.pcok t; rw [heq] at hok1
    rcases casWordE_ok hs with ⟨hw, -, hs⟩ | ⟨-, -, rfl⟩
    · obtain ⟨hf, p, hpc, hsc⟩ := afterPickup_frame hs hok1.2
      obtain ⟨hlo, hperm⟩ := afterPickup_lists hs
      have hwk := afterPickup_wake hs
      have hpt : ScanPc r sc.late (s'.pc t) := by rw [hpc]; simpa using hsc
      have hat := afterPickup_saf (G := fun k => CondFalse s s.data k) hs (h.sc t sc (by rw [heq]; rfl)) (h.re t sc (by rw [heq]; rfl))
      refine Inv7.scan_step t h h4' hat (fun x => (hlo x).2.2.2.2.1)
        (by rw [hf.data]) (by rw [hf.secStart]) (by rw [hf.nwViol]) (by rw [hf.held])
        (by rw [hf.word]; simp [hw]) (by intro u hu; rw [hpc]; simp [setFn, hu]) ?_ ?_
        (by intro x hx; rw [heq] at hx; exact hwk x hx) (Or.inl ?_) ?_ (scanPc_mtOld hpt) ?_ (scanPc_enqPend hpt) ?_
      rotate_right
      · rw [scanPc_nonLate hpt, hf.word]
        intro hl
        have := h.nl t (by rw [heq]; simpa [PC.nonLate] using hl)
        simpa [← hw] using this
      · refine hperm.trans ?_
        simp [allOf, heq, PC.priv, PC.scan?, PC.wakeL]
      · intro u hu
        cases e : (s.pc u).unl with
        | false => rfl
        | true => exact absurd (h4.uniq u t e (by rw [heq]; rfl)) hu
      · rw [scanPc_susp hpt, heq]; simp [PC.susp]
      · rw [scanPc_firstW hpt, heq]; rfl
      · rw [scanPc_mwPost hpt, heq]; rfl
    · inv7_local t h heq
  · -- usRcCas
    rename_i r sc k old heq
    have hok1 := h1.pcok t; rw [heq] at hok1
    repeat' split at hs
    all_goals first
      | (cases hs; done)
      | skip
    · obtain ⟨hf, p, hpc, hsc⟩ := scanRun_frame _ _ t r sc s' hs hok1.2
      obtain ⟨hlo, hperm⟩ := scanRun_lists _ _ t r sc s' hs
      have hwk := scanRun_wake _ _ t r sc s' hs
      have hpt : ScanPc r sc.late (s'.pc t) := by rw [hpc]; simpa using hsc
      have hat := scanRun_saf (fun k => CondFalse s s.data k) _ _ t r sc s' hs (h.sc t sc (by rw [heq]; rfl))
      refine Inv7.scan_step t h h4' hat ?_
        (by rw [hf.data]) (by rw [hf.secStart]) (by rw [hf.nwViol]) (by rw [hf.held])
        (by rw [hf.word]; simp) (by intro u hu; rw [hpc]; simp [setFn, hu]) ?_ ?_
        (by intro x hx; rw [heq] at hx; exact hwk x hx) (Or.inl ?_) ?_ (scanPc_mtOld hpt) ?_ (scanPc_enqPend hpt) ?_
      rotate_right
      · rw [scanPc_nonLate hpt, hf.word]
        intro hl
        have := h.nl t (by rw [heq]; simpa [PC.nonLate] using hl)
        simpa using this
      · intro x
        have := (hlo x).2.2.2.2.1
        simp only [setFn] at this
        rw [this]; split <;> simp_all
      · refine hperm.trans ?_
        simp [allOf, heq, PC.priv, PC.scan?, PC.wakeL]
      · intro u hu
        cases e : (s.pc u).unl with
        | false => rfl
        | true => exact absurd (h4.uniq u t e (by rw [heq]; rfl)) hu
      · rw [scanPc_susp hpt, heq]; simp [PC.susp]
      · rw [scanPc_firstW hpt, heq]; rfl
      · rw [scanPc_mwPost hpt, heq]; rfl
    · cases hs; inv7_local t h heq

end NsyncVerif.MuC
