import NsyncVerif.Proofs.MuCTLRec
/-
  MuC, `RecTL`: CAS steps and condition evaluations.
-/
namespace NsyncVerif.MuC

theorem recTL_casA {s s' : State} {t : Tid} {o : Ord} {loc : Loc} {exp new obs : Nat} {ok : Bool} (h1 : Inv1 s)
    (hp : (s.pc t).casA = true) (h : stepCas s t o loc exp new obs ok = .ok s') : RecTL s s' t := by
  have hoth := stepCas_other h
  have hok := h1.pcok t
  walk_cas h StepTL.rc => rec_tl

theorem recTL_casB {s s' : State} {t : Tid} {o : Ord} {loc : Loc} {exp new obs : Nat} {ok : Bool} (h1 : Inv1 s)
    (hp : (s.pc t).casA = false) (h : stepCas s t o loc exp new obs ok = .ok s') : RecTL s s' t := by
  have hoth := stepCas_other h
  have hok := h1.pcok t
  walk_cas h StepTL.rc => rec_tl

theorem recTL_cas {s s' : State} {t : Tid} {o : Ord} {loc : Loc} {exp new obs : Nat} {ok : Bool} (h1 : Inv1 s)
    (h : stepCas s t o loc exp new obs ok = .ok s') : RecTL s s' t := by
  cases hp : (s.pc t).casA
  · exact recTL_casB h1 hp h
  · exact recTL_casA h1 hp h

theorem recTL_cond {s s' : State} {t : Tid} {fn : CFn} {k : Nat} {res : Bool} (h1 : Inv1 s)
    (h : stepCond s t fn k res = .ok s') : RecTL s s' t := by
  have hoth := stepCond_other h
  walk_cond h StepTL.rc => rec_tl

end NsyncVerif.MuC
