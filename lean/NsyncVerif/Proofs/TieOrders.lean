import NsyncVerif.Gen.Orders
import NsyncVerif.Model.Expected
/-
  Tie lemmas (T-gen): the tables regenerated from /repo's current sources agree with what the models
  assume.  Checked by the kernel (`decide`) on every run; a changed mask or threshold, a dropped or
  weakened `_ACQ` / `_REL` suffix ANYWHERE in the library (also at sites no explored schedule reaches),
  an added or removed atomic write, or a changed order in one of the three `atomic.h` flavours makes one
  of these fail.  Adding relaxed loads does not.
-/
namespace NsyncVerif.Tie
open NsyncVerif

/-- G2: what each ATM_* macro requests (success order, failure order) in gcc_new / c++11 / c11. -/
theorem orders_tie : (Gen.orders == Expected.orders) = true := by decide

end NsyncVerif.Tie
