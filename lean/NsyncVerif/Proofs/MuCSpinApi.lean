import NsyncVerif.Proofs.MuCSpinCas
/-
  MuC: (I_spin) in every reachable state.
-/
namespace NsyncVerif.MuC

theorem inv3_stepCas {s s' : State} {t : Tid} {o : Ord} {loc : Loc} {exp new obs : Nat} {ok : Bool} (h1 : Inv1 s) (h : Inv3 s)
    (hs : stepCas s t o loc exp new obs ok = .ok s') : Inv3 s' := by
  cases hpc : s.pc t <;>
    first
    | exact inv3_stepCasA h (by rw [hpc]; trivial) hs
    | exact inv3_stepCasB h (by rw [hpc]; trivial) hs
    | exact inv3_stepCasC h1 h (by rw [hpc]; trivial) hs
    | (simp [stepCas, hpc] at hs)

theorem inv3_stepCall {s s' : State} {t : Tid} {a : Api} (h : Inv3 s)
    (hs : stepCall s t a = .ok s') : Inv3 s' := by
  unfold stepCall at hs
  split at hs
  · rename_i heq
    cases a <;> dsimp only at hs
    all_goals (repeat' split at hs)
    all_goals first
      | (cases hs; done)
      | (cases hs; inv3_local t h heq)
  · cases hs

theorem inv3_stepRet {s s' : State} {t : Tid} {a : Api} {res : Res} (h : Inv3 s)
    (hs : stepRet s t a res = .ok s') : Inv3 s' := by
  unfold stepRet at hs
  split at hs
  all_goals first
    | (cases hs; done)
    | (rename_i heq
       repeat' split at hs
       all_goals first
         | (cases hs; done)
         | (cases hs; inv3_local t h heq))

theorem inv3_stepCond {s s' : State} {t : Tid} {fn : CFn} {k : Nat} {res : Bool} (h1 : Inv1 s) (h : Inv3 s)
    (hs : stepCond s t fn k res = .ok s') : Inv3 s' := by
  unfold stepCond at hs
  dsimp only at hs
  split at hs
  · rename_i c heq
    repeat' split at hs
    all_goals first
      | (cases hs; done)
      | (cases hs; inv3_local t h heq)
  · rename_i r sc heq
    have hok0 := h1.pcok t; rw [heq] at hok0
    repeat' split at hs
    all_goals first
      | (cases hs; done)
      | skip
    obtain ⟨hf, p, hpc, hsc⟩ := afterEval_frame hs hok0.2.1
    obtain ⟨hsp, hok⟩ := afterEval_spin hs hok0.2.2.1
    exact Inv3.local t h (by rw [hf.word]) (by rw [hf.sp]) (by intro u hu; rw [hpc]; simp [setFn, hu])
      (by rw [hsp, heq]; rfl) hok
  · cases hs

theorem Inv3.env {s s' : State} (h : Inv3 s) (hw : s'.word.spin = s.word.spin) (hsp : s'.sp = s.sp) (hpc : s'.pc = s.pc) :
    Inv3 s' :=
  ⟨fun t => by rw [hsp, hpc]; exact h.own t, by rw [hw, hsp]; exact h.bit, fun t => by rw [hpc]; exact h.ok3 t⟩

theorem inv3_step {cfg : Cfg} {s s' : State} {e : Event} (h1 : Inv1 s) (h : Inv3 s)
    (hs : step cfg s e = .ok s') : Inv3 s' := by
  cases e with
  | call t a => exact inv3_stepCall h hs
  | ret t a res => exact inv3_stepRet h hs
  | ld t o loc obs => exact inv3_stepLd h hs
  | st t o loc new obs => exact inv3_stepSt h hs
  | cas t o loc exp new obs ok => exact inv3_stepCas h1 h hs
  | cond t fn k res => exact inv3_stepCond h1 h hs
  | semPEnter t k =>
    simp only [step] at hs
    split at hs
    · rename_i heq; ld_case3 t h heq hs
    · cases hs
  | semPRet t k =>
    simp only [step] at hs
    split at hs
    · rename_i heq; ld_case3 t h heq hs
    · cases hs
  | semPdEnter t k dl =>
    simp only [step] at hs
    split at hs
    · rename_i heq; ld_case3 t h heq hs
    · cases hs
  | semPdRet t k timedout =>
    simp only [step] at hs
    split at hs
    · rename_i heq; ld_case3 t h heq hs
    · cases hs
  | semV t k =>
    simp only [step] at hs
    split at hs
    · rename_i r k' rest heq
      split at hs
      · cases hs
      · cases hs
        rw [afterFin_eq]
        refine Inv3.local t h (by simp) (by simp) (by intro u hu; simp [setFn, hu]) ?_ ?_
        · simp only [semPost_pc, setPc_pc, setFn_same, heq]
          cases rest <;> cases r <;> first | rfl | simp [finPc, Ret.pc, PC.spin]
        · simp only [semPost_pc, setPc_pc, setFn_same]
          cases rest <;> cases r <;> first | trivial | simp [finPc, Ret.pc, PC.ok3]
    · cases hs
  | envV k =>
    simp only [step] at hs; cases hs
    exact h.env (by simp) (by simp) (by simp)
  | envSem k n =>
    simp only [step] at hs
    split at hs
    · cases hs; exact h.env rfl rfl rfl
    · cases hs
  | dataW t x v =>
    simp only [step] at hs
    split at hs
    · cases hs; exact h.env rfl rfl rfl
    · cases hs
  | dataR t x v =>
    simp only [step] at hs
    split at hs
    · cases hs; exact h
    · cases hs
  | tick n =>
    simp only [step] at hs
    split at hs
    · cases hs; exact h.env rfl rfl rfl
    · cases hs
  | noteSeen t =>
    simp only [step] at hs
    split at hs
    · rename_i heq; ld_case3 t h heq hs
    · cases hs
  | noteNotify t =>
    simp only [step] at hs
    split at hs
    · rename_i heq; ld_case3 t h heq hs
    · rename_i heq; ld_case3 t h heq hs
    · cases hs

theorem inv3_init : Inv3 init := by
  refine ⟨fun t => ?_, rfl, fun t => ?_⟩
  · simp [init, PC.spin]
  · simp [init, PC.ok3]

theorem reachable_inv3 {cfg : Cfg} {s : State} (h : Reachable cfg s) : Inv3 s :=
  (reachable_induction (P := fun s => Inv1 s ∧ Inv3 s) ⟨inv1_init, inv3_init⟩
    (fun _ _ _ _ hp hs => ⟨inv1_step hp.1 hs, inv3_step hp.1 hp.2 hs⟩) s h).2

end NsyncVerif.MuC
