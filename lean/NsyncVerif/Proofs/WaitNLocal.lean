/-
  Proofs/WaitNLocal.lean — the thread-local invariant `LInv (pc t) (fr t)`: what the program counter of
  an nsync_wait_n caller says about its own locals (allocation path, mutex marks, ready index,
  dequeue results), and the "landing" lemmas for the program-counter arithmetic of wait.c.
  Nothing here depends on the shared state.
-/
import NsyncVerif.Proofs.WaitNOthers

namespace WaitN

def isCvAt (f : Frame) (i : Nat) : Prop := ∃ c, f.objs[i]? = some (.cv c)
def isNoteAt (f : Frame) (i : Nat) : Prop := ∃ n, f.objs[i]? = some (.note n)
def isCtrAt (f : Frame) (i : Nat) : Prop := ∃ k, f.objs[i]? = some (.ctr k)

/-- record `r` is an element of the array the frame uses -/
def recKind (h : Option Nat) (r : Rid) : Prop :=
  match r, h with
  | .stk _, none => True
  | .heap a _, some a' => a = a'
  | _, _ => False

/-- the frame has passed the poll loop and allocated its bookkeeping -/
structure Alloc (f : Frame) : Prop where
  heap : f.heap.isSome = decide (4 < f.count)
  mallocs : f.mallocs = if 4 < f.count then 1 else 0
  kinds : ∀ r ∈ f.recs, recKind f.heap r
  pos : 0 < f.count
  dl : dlePast f.dl = false
  len : f.recs.length ≤ f.count

/-- nothing allocated, nothing enqueued, mutex untouched -/
structure Fresh (f : Frame) : Prop where
  recs : f.recs = []
  heap : f.heap = none
  mallocs : f.mallocs = 0
  frees : f.frees = 0
  unlocked : f.unlocked = false
  held : f.held = f.mu.isSome
  why : f.why = .none
  deqRes : f.deqRes = []
  min : f.min = f.dl
  freed : f.freed = false
  pos : 0 < f.count

structure PreLoop (f : Frame) : Prop extends Alloc f where
  frees : f.frees = 0
  unlocked : f.unlocked = false
  held : f.held = f.mu.isSome
  ready : f.ready = f.count
  deqRes : f.deqRes = []
  min : f.min = f.dl
  freed : f.freed = false

structure InLoop (f : Frame) : Prop extends Alloc f where
  frees : f.frees = 0
  unlocked : f.unlocked = f.mu.isSome
  held : f.held = false
  ready : f.ready = f.count
  deqRes : f.deqRes = []
  freed : f.freed = false
  full : f.recs.length = f.count
  whyMin : dlePast f.min = true → f.why ≠ .none

/-- `ready` is the index of the first dequeue that returned 0, or count -/
structure ReadyOK (f : Frame) : Prop where
  le : f.ready ≤ f.count
  all : f.ready = f.count → ∀ b ∈ f.deqRes, b = true
  first : f.ready < f.count → f.deqRes[f.ready]? = some false ∧ ∀ k, k < f.ready → f.deqRes[k]? = some true

structure InDeq (f : Frame) : Prop extends Alloc f where
  frees : f.frees = 0
  unl : f.unlocked = true → f.mu.isSome = true ∧ f.recs.length = f.count
  held : f.held = (f.mu.isSome && !f.unlocked)
  rdy : ReadyOK f
  why : f.why ≠ .none
  dlen : f.deqRes.length ≤ f.recs.length
  npos : 0 < f.recs.length

structure Post (f : Frame) : Prop extends Alloc f where
  frees : f.frees = f.mallocs
  unl : f.unlocked = true → f.mu.isSome = true ∧ f.recs.length = f.count
  rdy : ReadyOK f
  why : f.why ≠ .none
  dlen : f.deqRes.length = f.recs.length
  freed : f.freed = true
  npos : 0 < f.recs.length

/-- facts at each program point about the thread's own frame -/
def LInv (p : PC) (f : Frame) : Prop :=
  match p with
  | .idle | .sg _ _ _ => True
  | .stuck => False
  | .wCtrRT .poll i _ => Fresh f ∧ f.ready = f.count ∧ isCtrAt f i
  | .wND .poll i _ => Fresh f ∧ f.ready = f.count ∧ isNoteAt f i
  | .wAlloc => Fresh f ∧ f.ready = f.count ∧ 4 < f.count ∧ dlePast f.dl = false
  | .wInit i => PreLoop f ∧ f.recs.length = i ∧ i < f.count ∧ f.why = .none
  | .wEnqCv i _ => PreLoop f ∧ f.recs.length = i + 1 ∧ isCvAt f i ∧ f.why = .none
  | .wEnq i _ => PreLoop f ∧ f.recs.length = i + 1 ∧ (isNoteAt f i ∨ isCtrAt f i) ∧ f.why = .none
  | .wUnlock => PreLoop f ∧ f.recs.length = f.count ∧ f.mu.isSome = true
  | .wCvRT j => InLoop f ∧ isCvAt f j
  | .wCtrRT .loop j _ => InLoop f ∧ isCtrAt f j
  | .wND .loop j _ => InLoop f ∧ isNoteAt f j
  | .wPdEnter | .wPdWait _ => InLoop f ∧ dlePast f.min = false
  | .wDeqCv j _ => InDeq f ∧ f.deqRes.length = j ∧ j < f.recs.length ∧ isCvAt f j ∧ f.freed = false
  | .wND .deq j _ => InDeq f ∧ f.deqRes.length = j ∧ j < f.recs.length ∧ isNoteAt f j ∧ f.freed = false
  | .wDeq j _ => InDeq f ∧ f.deqRes.length = j ∧ j < f.recs.length ∧ (isNoteAt f j ∨ isCtrAt f j) ∧ f.freed = false
  | .wCtrRT .deq _ _ => False
  | .wFree => InDeq f ∧ f.deqRes.length = f.recs.length ∧ f.heap.isSome = true ∧ f.freed = true
  | .wRelock => Post f ∧ f.unlocked = true ∧ f.held = false
  | .wRet r => r = f.ready ∧
      ((Fresh f ∧ f.ready ≤ f.count ∧ (f.ready = f.count → dlePast f.dl = true)) ∨ (Post f ∧ f.held = f.mu.isSome))

/-! LInv does not read the lazily bound semaphore -/

@[simp] theorem Alloc.sem (f : Frame) (v) : Alloc { f with sem := v } ↔ Alloc f := ⟨fun a => { a with }, fun a => { a with }⟩
@[simp] theorem Fresh.sem (f : Frame) (v) : Fresh { f with sem := v } ↔ Fresh f := ⟨fun a => { a with }, fun a => { a with }⟩
@[simp] theorem PreLoop.sem (f : Frame) (v) : PreLoop { f with sem := v } ↔ PreLoop f := ⟨fun a => { a with }, fun a => { a with }⟩
@[simp] theorem InLoop.sem (f : Frame) (v) : InLoop { f with sem := v } ↔ InLoop f := ⟨fun a => { a with }, fun a => { a with }⟩
@[simp] theorem ReadyOK.sem (f : Frame) (v) : ReadyOK { f with sem := v } ↔ ReadyOK f := ⟨fun a => { a with }, fun a => { a with }⟩
@[simp] theorem InDeq.sem (f : Frame) (v) : InDeq { f with sem := v } ↔ InDeq f :=
  ⟨fun a => { a with rdy := (ReadyOK.sem f v).1 a.rdy }, fun a => { a with rdy := (ReadyOK.sem f v).2 a.rdy }⟩
@[simp] theorem Post.sem (f : Frame) (v) : Post { f with sem := v } ↔ Post f :=
  ⟨fun a => { a with rdy := (ReadyOK.sem f v).1 a.rdy }, fun a => { a with rdy := (ReadyOK.sem f v).2 a.rdy }⟩
@[simp] theorem isCvAt.sem (f : Frame) (v) (i) : isCvAt { f with sem := v } i ↔ isCvAt f i := Iff.rfl
@[simp] theorem isNoteAt.sem (f : Frame) (v) (i) : isNoteAt { f with sem := v } i ↔ isNoteAt f i := Iff.rfl
@[simp] theorem isCtrAt.sem (f : Frame) (v) (i) : isCtrAt { f with sem := v } i ↔ isCtrAt f i := Iff.rfl

theorem LInv.sem (p : PC) (f : Frame) (v) : LInv p { f with sem := v } ↔ LInv p f := by
  cases p with
  | wCtrRT u i l => cases u <;> simp [LInv, Frame.count]
  | wND u i st => cases u <;> simp [LInv, Frame.count]
  | _ => simp [LInv, Frame.count]

theorem LInv.same {p : PC} {f g : Frame} (h : frSame f g) (a : LInv p f) : LInv p g := by
  rw [h]; exact (LInv.sem p f _).2 a

/-! ### landing lemmas -/

theorem objs_get_of_lt {f : Frame} {i : Nat} (h : i < f.count) : ∃ o, f.objs[i]? = some o := by
  unfold Frame.count at h
  exact ⟨f.objs[i], by simp [h]⟩

theorem kind_cases {f : Frame} {i : Nat} (h : i < f.count) : isCvAt f i ∨ isNoteAt f i ∨ isCtrAt f i := by
  obtain ⟨o, ho⟩ := objs_get_of_lt h
  cases o with
  | cv c => exact .inl ⟨c, ho⟩
  | note n => exact .inr (.inl ⟨n, ho⟩)
  | ctr k => exact .inr (.inr ⟨k, ho⟩)

theorem readyOK_init {f : Frame} (hr : f.ready = f.count) (hd : f.deqRes = []) : ReadyOK f := by
  refine ⟨by rw [hr]; exact Nat.le_refl _, ?_, ?_⟩
  · intro _ b hb; rw [hd] at hb; cases hb
  · intro hlt; rw [hr] at hlt; exact absurd hlt (Nat.lt_irrefl _)

theorem linv_relockNext {f : Frame} (h : Post f) (hh : f.held = (f.mu.isSome && !f.unlocked)) :
    LInv (relockNext f) f := by
  unfold relockNext
  split
  · rename_i hu
    exact ⟨h, hu, by simp [hh, hu]⟩
  · rename_i hu
    refine ⟨rfl, .inr ⟨h, ?_⟩⟩
    simp [hh, hu]

theorem linv_finNext {f : Frame} (h : InDeq f) (hl : f.deqRes.length = f.recs.length) (hf : f.freed = true) :
    LInv (finNext f) f := by
  unfold finNext
  split
  · rename_i hh; exact ⟨h, hl, hh, hf⟩
  · rename_i hh
    apply linv_relockNext _ h.held
    have h4 : ¬ 4 < f.count := by
      intro h4; have := h.heap; simp [h4] at this; exact hh this
    exact { toAlloc := h.toAlloc, frees := by rw [h.frees, h.mallocs]; simp [h4], unl := h.unl, rdy := h.rdy,
            why := h.why, dlen := hl, freed := hf, npos := h.npos }

theorem linv_deqNext {f : Frame} {j : Nat} (h : InDeq f) (hl : f.deqRes.length = j) (hj : j < f.recs.length)
    (hf : f.freed = false) : LInv (deqNext f j) f := by
  unfold deqNext
  rw [if_pos hj]
  have hc : j < f.count := Nat.lt_of_lt_of_le hj h.len
  rcases kind_cases hc with ⟨c, ho⟩ | ⟨n, ho⟩ | ⟨k, ho⟩ <;> rw [ho] <;> simp only [LInv]
  · exact ⟨h, hl, hj, ⟨c, ho⟩, hf⟩
  · exact ⟨h, hl, hj, ⟨n, ho⟩, hf⟩
  · exact ⟨h, hl, hj, .inr ⟨k, ho⟩, hf⟩

theorem inDeq_of_inLoop {f : Frame} (h : InLoop f) (hw : f.why ≠ .none) : InDeq f :=
  { toAlloc := h.toAlloc, frees := h.frees,
    unl := fun hu => ⟨by rw [← h.unlocked]; exact hu, h.full⟩,
    held := by rw [h.held, h.unlocked]; cases f.mu.isSome <;> rfl,
    rdy := readyOK_init h.ready h.deqRes,
    why := hw, dlen := by rw [h.deqRes]; exact Nat.zero_le _,
    npos := by rw [h.full]; exact h.pos }

theorem linv_scanEnd {f : Frame} (h : InLoop f) : LInv (scanEnd f) f := by
  unfold scanEnd
  split
  · rename_i hm
    have hd := inDeq_of_inLoop h (h.whyMin hm)
    exact linv_deqNext hd (by rw [h.deqRes]; rfl) hd.npos h.freed
  · rename_i hm
    exact ⟨h, by simpa using hm⟩

theorem linv_loopNext {f : Frame} (h : InLoop f) (j : Nat) : LInv (loopNext f j) f := by
  unfold loopNext
  split
  · rename_i hj
    rcases kind_cases hj with ⟨c, ho⟩ | ⟨n, ho⟩ | ⟨k, ho⟩ <;> rw [ho] <;> simp only [LInv]
    · exact ⟨h, ⟨c, ho⟩⟩
    · exact ⟨h, ⟨n, ho⟩⟩
    · exact ⟨h, ⟨k, ho⟩⟩
  · exact linv_scanEnd h

theorem inLoop_of_preLoop {f : Frame} (h : PreLoop f) (hm : f.mu.isSome = false) (hl : f.recs.length = f.count) :
    InLoop f :=
  { toAlloc := h.toAlloc, frees := h.frees, unlocked := by rw [h.unlocked, hm], held := by rw [h.held, hm],
    ready := h.ready, deqRes := h.deqRes, freed := h.freed, full := hl,
    whyMin := by intro hp; rw [h.min, h.dl] at hp; cases hp }

theorem linv_enqNext {f : Frame} {i : Nat} {res : Bool} (h : PreLoop f) (hl : f.recs.length = i)
    (hw : if res then f.why = .none else f.why ≠ .none) (hi : res = false → 0 < i) : LInv (enqNext f i res) f := by
  unfold enqNext
  split
  · rename_i hc
    have : res = true := hc.1
    subst this
    exact ⟨h, hl, hc.2, hw⟩
  · rename_i hc
    split
    · rename_i hic
      split
      · rename_i hm; exact ⟨h, by rw [hl, hic], hm⟩
      · rename_i hm
        exact linv_loopNext (inLoop_of_preLoop h (by simpa using hm) (by rw [hl, hic])) 0
    · rename_i hic
      have hlen := h.len
      have hres : res = false := by
        cases res with
        | false => rfl
        | true => exact absurd ⟨rfl, by omega⟩ hc
      subst hres
      have hd : InDeq f :=
        { toAlloc := h.toAlloc, frees := h.frees, unl := (by intro hu; rw [h.unlocked] at hu; cases hu),
          held := (by rw [h.held, h.unlocked]; simp),
          rdy := readyOK_init h.ready h.deqRes,
          why := hw, dlen := by rw [h.deqRes]; exact Nat.zero_le _, npos := by rw [hl]; exact hi rfl }
      exact linv_deqNext hd (by rw [h.deqRes]; rfl) hd.npos h.freed

theorem preLoop_of_fresh {f : Frame} (h : Fresh f) (hr : f.ready = f.count) (hd : dlePast f.dl = false)
    (h4 : ¬ 4 < f.count) : PreLoop f :=
  { heap := by rw [h.heap]; simp [h4], mallocs := by rw [h.mallocs]; simp [h4],
    kinds := (by intro r hr; rw [h.recs] at hr; cases hr),
    pos := h.pos, dl := hd, len := by rw [h.recs]; exact Nat.zero_le _,
    frees := h.frees, unlocked := h.unlocked, held := h.held, ready := hr, deqRes := h.deqRes, min := h.min,
    freed := h.freed }

theorem linv_pollFrom {f : Frame} (h : Fresh f) (hr : f.ready = f.count) :
    ∀ (l : List ObjId) (i : Nat), f.objs.drop i = l → LInv (pollFrom f l i) f := by
  intro l
  induction l with
  | nil =>
    intro i _
    unfold pollFrom
    split
    · rename_i hd; exact ⟨hr.symm, .inl ⟨h, by rw [hr]; exact Nat.le_refl _, fun _ => hd⟩⟩
    · rename_i hd
      have hd : dlePast f.dl = false := by simpa using hd
      split
      · rename_i h4; exact ⟨h, hr, h4, hd⟩
      · rename_i h4
        exact linv_enqNext (res := true) (preLoop_of_fresh h hr hd h4) (by rw [h.recs]; rfl) (by simp [h.why]) (by simp)
  | cons o rest ih =>
    intro i hdrop
    have hget : f.objs[i]? = some o := by
      have := congrArg List.head? hdrop
      simpa [List.head?_drop] using this
    have hrest : f.objs.drop (i + 1) = rest := by
      have := congrArg List.tail hdrop
      simpa [List.tail_drop] using this
    cases o with
    | cv c => simp only [pollFrom]; exact ih (i + 1) hrest
    | note n => simp only [pollFrom, LInv]; exact ⟨h, hr, ⟨n, hget⟩⟩
    | ctr k => simp only [pollFrom, LInv]; exact ⟨h, hr, ⟨k, hget⟩⟩

theorem linv_pollNext {f : Frame} (h : Fresh f) (hr : f.ready = f.count) (i : Nat) : LInv (pollNext f i) f :=
  linv_pollFrom h hr _ i rfl

end WaitN
