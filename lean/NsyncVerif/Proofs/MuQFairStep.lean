import NsyncVerif.Proofs.MuQLeadsMono
import NsyncVerif.Proofs.MuQFairOwn
/-
  MuQ, fair termination (C02): single-step facts read off the transition table `Own`.

  Who can change the word, the spinlock owner, a `waiting` flag, a semaphore count.
-/
namespace NsyncVerif.MuQ

@[simp] theorem setPc_pc_self (s : State) (t : Tid) (p : PC) : (setPc s t p).pc t = p := by simp [setPc]
@[simp] theorem setPc_word (s : State) (t : Tid) (p : PC) : (setPc s t p).word = s.word := rfl
@[simp] theorem setPc_sp (s : State) (t : Tid) (p : PC) : (setPc s t p).sp = s.sp := rfl
@[simp] theorem setPc_wr (s : State) (t : Tid) (p : PC) : (setPc s t p).wr = s.wr := rfl
@[simp] theorem setPc_held (s : State) (t : Tid) (p : PC) : (setPc s t p).held = s.held := rfl
@[simp] theorem setPc_queue (s : State) (t : Tid) (p : PC) : (setPc s t p).queue = s.queue := rfl
@[simp] theorem semPost_pc (cfg : Cfg) (s : State) (k : Wid) : (semPost cfg s k).pc = s.pc := rfl
@[simp] theorem semPost_held (cfg : Cfg) (s : State) (k : Wid) : (semPost cfg s k).held = s.held := rfl
@[simp] theorem semPost_word (cfg : Cfg) (s : State) (k : Wid) : (semPost cfg s k).word = s.word := rfl
@[simp] theorem semPost_sp (cfg : Cfg) (s : State) (k : Wid) : (semPost cfg s k).sp = s.sp := rfl

theorem stage_scanAdvance (s : State) (t : Tid) (l : Mode) (sc : Scan) : stage (scanAdvance s t l sc) t = 1 := by
  obtain ⟨a, b⟩ := scanAdvance_stage s t l sc
  rw [stage_eq b]; exact a

theorem stage_afterFin (s : State) (t : Tid) (l : Mode) (w : List Wid) : stage (afterFin s t l w) t = 1 := by
  obtain ⟨a, b⟩ := afterFin_stage s t l w
  rw [stage_eq b]; exact a

theorem enqWord_ne {l : Mode} {cl lwl : Bool} {old : Word} (h : old.spin = false) : enqWord l cl lwl old ≠ old := by
  intro e
  have : (enqWord l cl lwl old).spin = old.spin := by rw [e]
  simp [enqWord, h] at this

/-- A step that changes the word: the stepping thread acquires or releases a share (its stage drops),
    takes the spinlock with its enqueue CAS, or gives the spinlock up. -/
theorem own_word_change {cfg : Cfg} {s s' : State} {t : Tid} {b : Bool} (h : Own cfg s t b s')
    (hne : s'.word ≠ s.word) :
    stage s' t < stage s t ∨ (∃ c, s'.pc t = .lsSt c) ∨ ((role (s.pc t)).spin = true ∧ s'.sp = none) := by
  cases h
  case lsCasEnqOk c old hp hw => exact Or.inr (Or.inl ⟨c, by simp⟩)
  case lsRelCasOk c old hp hw => exact Or.inr (Or.inr ⟨by simp [hp, role, Role.spin], rfl⟩)
  case usFinCasOk l f old hp hw => exact Or.inr (Or.inr ⟨by simp [hp, role, Role.spin], by simp⟩)
  case usCasGrabOk l old hp hw => left; rw [stage_scanAdvance]; simp [stage, hp]
  all_goals first
    | (exfalso; apply hne; simp; done)
    | (rename_i hp _; left; simp [stage, hp]; done)

/-- A step that changes the owner of the spinlock. -/
theorem own_sp_change {cfg : Cfg} {s s' : State} {t : Tid} {b : Bool} (h : Own cfg s t b s')
    (hne : s'.sp ≠ s.sp) :
    s'.sp = none ∨ stage s' t < stage s t ∨ (∃ c, s'.pc t = .lsSt c) := by
  cases h
  case lsCasEnqOk c old hp hw => exact Or.inr (Or.inr ⟨c, by simp⟩)
  case lsRelCasOk c old hp hw => exact Or.inl rfl
  case usFinCasOk l f old hp hw => exact Or.inl (by simp)
  case usCasGrabOk l old hp hw => right; left; rw [stage_scanAdvance]; simp [stage, hp]
  all_goals (exfalso; apply hne; simp; done)

/-- Only the `waiting := 0` store of an unlocker clears a `waiting` flag. -/
theorem own_waiting_clear {cfg : Cfg} {s s' : State} {t : Tid} {b : Bool} {k : Wid} (h : Own cfg s t b s')
    (h1 : (s.wr k).waiting = true) (h2 : (s'.wr k).waiting = false) : ∃ l r, s.pc t = .usWakeSt l k r := by
  cases h
  case usWakeSt l k' r hp =>
    have : k = k' := by
      apply Classical.byContradiction; intro hk
      simp [setFn_other _ _ _ _ hk, h1] at h2
    subst this; exact ⟨l, r, hp⟩
  case lsStAdopt c k' hp hw =>
    exfalso
    by_cases hk : k = k'
    · subst hk; simp at h2
    · simp [setFn_other _ _ _ _ hk, h1] at h2
  case lsStRequeue c k' hp hw =>
    exfalso
    by_cases hk : k = k'
    · subst hk; simp at h2
    · simp [setFn_other _ _ _ _ hk, h1] at h2
  case pRet c k' hp hw hs =>
    exfalso
    by_cases hk : k = k'
    · subst hk; simp [h1] at h2
    · simp [setFn_other _ _ _ _ hk, h1] at h2
  case semV l k' r hp =>
    exfalso
    by_cases hk : k = k'
    · subst hk; simp [semPost, h1] at h2
    · simp [semPost, setFn_other _ _ _ _ hk, h1] at h2
  case lsCasAcqOk c old hp hw =>
    exfalso; simp [dropW_waiting, h1] at h2
  all_goals (exfalso; simp [h1] at h2; done)

/-- Only the enqueue store of lock_slow sets a `waiting` flag. -/
theorem own_waiting_set {cfg : Cfg} {s s' : State} {t : Tid} {b : Bool} {k : Wid} (h : Own cfg s t b s')
    (h1 : (s.wr k).waiting = false) (h2 : (s'.wr k).waiting = true) : ∃ c, s.pc t = .lsSt c := by
  cases h
  case lsStAdopt c k' hp hw => exact ⟨c, hp⟩
  case lsStRequeue c k' hp hw => exact ⟨c, hp⟩
  case usWakeSt l k' r hp =>
    exfalso
    by_cases hk : k = k'
    · subst hk; simp at h2
    · simp [setFn_other _ _ _ _ hk, h1] at h2
  case pRet c k' hp hw hs =>
    exfalso
    by_cases hk : k = k'
    · subst hk; simp [h1] at h2
    · simp [setFn_other _ _ _ _ hk, h1] at h2
  case semV l k' r hp =>
    exfalso
    by_cases hk : k = k'
    · subst hk; simp [semPost, h1] at h2
    · simp [semPost, setFn_other _ _ _ _ hk, h1] at h2
  case lsCasAcqOk c old hp hw =>
    exfalso; simp [dropW_waiting, h1] at h2
  all_goals (exfalso; simp [h1] at h2; done)

/-- Only the owner's P takes a semaphore count to 0. -/
theorem own_sem_zero {cfg : Cfg} {s s' : State} {t : Tid} {b : Bool} {k : Wid} (h : Own cfg s t b s')
    (h1 : (s.wr k).sem ≠ 0) (h2 : (s'.wr k).sem = 0) : ∃ c, s.pc t = .lsPRet c ∧ c.w = some k := by
  cases h
  case pRet c k' hp hw hs =>
    by_cases hk : k = k'
    · subst hk; exact ⟨c, hp, hw⟩
    · exfalso; simp [setFn_other _ _ _ _ hk] at h2; exact h1 h2
  case lsStAdopt c k' hp hw =>
    exfalso
    by_cases hk : k = k'
    · subst hk; simp at h2; exact h1 h2
    · simp [setFn_other _ _ _ _ hk] at h2; exact h1 h2
  case lsStRequeue c k' hp hw =>
    exfalso
    by_cases hk : k = k'
    · subst hk; simp at h2; exact h1 h2
    · simp [setFn_other _ _ _ _ hk] at h2; exact h1 h2
  case usWakeSt l k' r hp =>
    exfalso
    by_cases hk : k = k'
    · subst hk; simp at h2; exact h1 h2
    · simp [setFn_other _ _ _ _ hk] at h2; exact h1 h2
  case semV l k' r hp =>
    exfalso
    by_cases hk : k = k'
    · subst hk; simp [semPost] at h2; split at h2 <;> omega
    · simp [semPost, setFn_other _ _ _ _ hk] at h2; exact h1 h2
  case lsCasAcqOk c old hp hw =>
    exfalso; simp [dropW_sem] at h2; exact h1 h2
  all_goals (exfalso; simp at h2; exact h1 h2)

/-! ### the same facts for an arbitrary accepted event -/

theorem env_fields {cfg : Cfg} {s s' : State} {e : Event} (h : step cfg s e = .ok s') (he : e.tid = none) :
    s'.word = s.word ∧ s'.sp = s.sp ∧ s'.pc = s.pc ∧ s'.held = s.held ∧ (∀ k, (s'.wr k).waiting = (s.wr k).waiting) := by
  rcases step_env h he with ⟨k, rfl⟩ | ⟨k, n, _, rfl⟩
  · refine ⟨rfl, rfl, rfl, rfl, fun k' => ?_⟩
    simp only [semPost, setFn]; split
    · rename_i hk; subst hk; rfl
    · rfl
  · refine ⟨rfl, rfl, rfl, rfl, fun k' => ?_⟩
    simp only [setFn]; split
    · rename_i hk; subst hk; rfl
    · rfl

theorem step_word_change {cfg : Cfg} {s s' : State} {e : Event} (h : step cfg s e = .ok s')
    (hne : s'.word ≠ s.word) :
    ∃ t, e.tid = some t ∧
      (stage s' t < stage s t ∨ (∃ c, s'.pc t = .lsSt c) ∨ ((role (s.pc t)).spin = true ∧ s'.sp = none)) := by
  cases he : e.tid with
  | none => exact absurd (env_fields h he).1 hne
  | some t => exact ⟨t, rfl, own_word_change (step_own h he) hne⟩

theorem step_sp_change {cfg : Cfg} {s s' : State} {e : Event} (h : step cfg s e = .ok s')
    (hne : s'.sp ≠ s.sp) :
    s'.sp = none ∨ ∃ t, e.tid = some t ∧ (stage s' t < stage s t ∨ (∃ c, s'.pc t = .lsSt c)) := by
  cases he : e.tid with
  | none => exact absurd (env_fields h he).2.1 hne
  | some t =>
    rcases own_sp_change (step_own h he) hne with h1 | h1
    · exact Or.inl h1
    · exact Or.inr ⟨t, rfl, h1⟩

theorem step_waiting_clear {cfg : Cfg} {s s' : State} {e : Event} {k : Wid} (h : step cfg s e = .ok s')
    (h1 : (s.wr k).waiting = true) (h2 : (s'.wr k).waiting = false) :
    ∃ t l r, s.pc t = .usWakeSt l k r := by
  cases he : e.tid with
  | none => rw [(env_fields h he).2.2.2.2 k, h1] at h2; cases h2
  | some t =>
    obtain ⟨l, r, hp⟩ := own_waiting_clear (step_own h he) h1 h2
    exact ⟨t, l, r, hp⟩

theorem step_waiting_set {cfg : Cfg} {s s' : State} {e : Event} {k : Wid} (h : step cfg s e = .ok s')
    (h1 : (s.wr k).waiting = false) (h2 : (s'.wr k).waiting = true) :
    ∃ t c, s.pc t = .lsSt c := by
  cases he : e.tid with
  | none => rw [(env_fields h he).2.2.2.2 k, h1] at h2; cases h2
  | some t =>
    obtain ⟨c, hp⟩ := own_waiting_set (step_own h he) h1 h2
    exact ⟨t, c, hp⟩

theorem step_sem_zero {cfg : Cfg} {s s' : State} {e : Event} {k : Wid} (h : step cfg s e = .ok s')
    (h1 : (s.wr k).sem ≠ 0) (h2 : (s'.wr k).sem = 0) :
    (∃ t c, e.tid = some t ∧ s.pc t = .lsPRet c ∧ c.w = some k) ∨ (s.wr k).owner = none := by
  cases he : e.tid with
  | none =>
    rcases step_env h he with ⟨k', rfl⟩ | ⟨k', n, ho, rfl⟩
    · exfalso
      by_cases hk : k = k'
      · subst hk; simp [semPost] at h2; split at h2 <;> omega
      · simp [semPost, setFn_other _ _ _ _ hk] at h2; exact h1 h2
    · by_cases hk : k = k'
      · subst hk; exact Or.inr ho
      · exfalso; simp [setFn_other _ _ _ _ hk] at h2; exact h1 h2
  | some t =>
    obtain ⟨c, hp, hw⟩ := own_sem_zero (step_own h he) h1 h2
    exact Or.inl ⟨t, c, rfl, hp, hw⟩

/-! ### chains: ranks that decrease with every own step -/

/-- Past the point of no return of a releasing call / of a failed try-lock. -/
def exitRank : PC → Nat
  | .tryRet _ false => 1
  | .ulRet _ => 1
  | .usWakeSt _ _ r => 2 * r.length + 3
  | .usWakeV _ _ r => 2 * r.length + 2
  | _ => 0

theorem exit_own {cfg : Cfg} {s s' : State} {t : Tid} {b : Bool} (h : Own cfg s t b s') (hh : HeldIdle s)
    (hx : 0 < exitRank (s.pc t)) :
    stage s' t = 0 ∨ (0 < exitRank (s'.pc t) ∧ exitRank (s'.pc t) < exitRank (s.pc t)) := by
  have hnone : s.pc t ≠ .idle → s.held t = none := fun hne => held_none_of_active hh hne
  cases h
  case retTryF l hp => left; simp [stage]
  case retRel l hp => left; simp [stage, hnone (by rw [hp]; simp)]
  case usWakeSt l k r hp => right; simp [hp, exitRank]
  case semV l k r hp =>
    right
    cases r with
    | nil => simp [hp, exitRank, afterFin]
    | cons k' r' => simp [hp, exitRank, afterFin]; omega
  all_goals (simp_all [exitRank]; done)

end NsyncVerif.MuQ
