/-
  Proofs/CounterVC.lean — the Counter acceptor run in lock-step with the generic vector-clock
  machine (Model/VC.lean): product state, ghosts for property C03 (counter edge), and the per-step
  facts needed by the product invariant.

  Only the atomics on `ctr.value`, `ctr.waited` and `nw<k>.waiting` are given to the machine, each
  with the memory order it DECLARES in the log (the acceptor checks that this is the order of the
  ATM_* macro in counter.c / wait.c).  Atomics of other layers (`Loc.other`: mutex words, the waiter
  pool, …) are dropped: in particular NO edge is credited to counter_mu, to the semaphores or to the
  interleaving.  A failed CAS is a relaxed load; a successful CAS is an RMW with its declared order.
-/
import NsyncVerif.Proofs.CounterFactsAll
import NsyncVerif.Proofs.VC

namespace Counter

open NsyncVerif

def toOrd : Counter.Ord → VC.Ord
  | .rlx => .rlx | .acq => .acq | .rel => .rel | .ar => .ar

/-- the machine event of a log event (declared order; failed CAS = relaxed load) -/
def toVC (t : Tid) : Ev → Option (VC.AEv Loc)
  | .ld _ .other _ | .st _ .other _ _ | .cas _ .other _ _ _ _ => none
  | .ld o l _ => some ⟨t, .ld, toOrd o, l⟩
  | .st o l _ _ => some ⟨t, .st, toOrd o, l⟩
  | .cas o l _ _ _ true => some ⟨t, .rmw, toOrd o, l⟩
  | .cas _ l _ _ _ false => some ⟨t, .ld, .rlx, l⟩
  | _ => none

def evVC : Event → Option (VC.AEv Loc)
  | .thr t e => toVC t e
  | .tick _ => none

def vstep (m : VC.St Loc) (e : Event) : VC.St Loc :=
  match evVC e with
  | some a => VC.step m a
  | none => m

/-- the successful CAS of an add: thread, pre-CAS value, new value -/
def casOf (s : State) : Event → Option Tid
  | .thr t (.cas .ar .value _ _ _ true) =>
    match s.pc t with
    | .aCas _ _ => some t
    | _ => none
  | _ => none

/-- acceptor state × machine state × ghosts -/
structure PState where
  s : State
  m : VC.St Loc
  /-- clock of the adding thread just BEFORE the latest CAS that took the value from non-zero to 0 -/
  zeroClock : VC.Clock
  /-- number of successful adds up to and including that zeroing add (0: none yet) -/
  zeroIdx : Nat
  /-- pre-CAS clocks of the adds whose CAS succeeded, oldest first (`adds[i]` produced `hist[i+1]`) -/
  adds : List VC.Clock

def pinit : PState := { s := init, m := VC.St.init, zeroClock := VC.Clock.bot, zeroIdx := 0, adds := [] }

def pstep (p : PState) (e : Event) : Except String PState :=
  match step p.s e with
  | .error msg => .error msg
  | .ok s' =>
    .ok { s := s', m := vstep p.m e,
          zeroClock := match casOf p.s e with
            | some t => if p.s.sh.value ≠ 0 ∧ s'.sh.value = 0 then p.m.vc t else p.zeroClock
            | none => p.zeroClock,
          zeroIdx := match casOf p.s e with
            | some _ => if p.s.sh.value ≠ 0 ∧ s'.sh.value = 0 then p.adds.length + 1 else p.zeroIdx
            | none => p.zeroIdx,
          adds := match casOf p.s e with
            | some t => p.adds ++ [p.m.vc t]
            | none => p.adds }

def prun (p : PState) : List Event → Except String PState
  | [] => .ok p
  | e :: es => match pstep p e with
    | .ok p' => prun p' es
    | .error m => .error m

def PReachable (p : PState) : Prop := ∃ evs, prun pinit evs = .ok p

/-! ### program-point classifications -/

/-- the thread has read 0 from `value` with an acquire load and will return 0 -/
def seenZero : PC → Bool
  | .wRet _ 0 | .wDeqLoadW _ _ _ 0 | .wDeqStore _ _ _ 0 | .wDeqUnlockCall _ _ _ 0
  | .wDeqUnlockWait _ _ _ 0 => true
  | _ => false

/-- inside nsync_counter_wait after its first `ATM_STORE (&c->waited, 1)` -/
def pastStore : PC → Bool
  | .w0Store _ => false
  | p => (pcDl p).isSome

/-- ghost index (into `hist`) of the value an add's own CAS produced -/
def pcIdx : PC → Option Nat
  | .aLoadWaited _ _ i | .aHeld _ _ i _ | .aPost _ _ i _ | .aUnlockWait _ _ i | .aRet _ _ i => some i
  | _ => none

/-- value obtained by the acquire load of nsync_counter_value / nsync_counter_add (0) -/
def pcVal : PC → Option Nat
  | .valRet v | .azRet v => some v
  | _ => none

structure VCFacts (s : State) (t : Tid) (e : Ev) (s' : State) : Prop where
  seen : seenZero (s'.pc t) = true → seenZero (s.pc t) = true
      ∨ (∃ obs, e = .ld .acq .value obs ∧ obs = 0 ∧ s.sh.value = 0 ∧ pastStore (s.pc t) = true)
  past : pastStore (s'.pc t) = true → pastStore (s.pc t) = true ∨ s'.sh.waited = true
  idx : ∀ i, pcIdx (s'.pc t) = some i → pcIdx (s.pc t) = some i
      ∨ (i = s.sh.hist.length ∧ ∃ d v new, s.pc t = .aCas d v ∧ e = .cas .ar .value v new v true)
  val : ∀ v, pcVal (s'.pc t) = some v → pcVal (s.pc t) = some v
      ∨ (e = .ld .acq .value v ∧ v = s.sh.value ∧ s.sh.created = true)
  stv : ∀ o n ob, e = .st o .value n ob → s.sh.created = false
  rmwv : ∀ o x n ob, e = .cas o .value x n ob true → o = .ar ∧ ∃ d v, s.pc t = .aCas d v
  cas : ∀ d v, s.pc t = .aCas d v → ∀ x n ob, e = .cas .ar .value x n ob true →
      s.sh.created = true ∧ s'.sh.hist = s.sh.hist ++ [n] ∧ s'.sh.value = n ∧ x = s.sh.value
  crt : s'.sh.created = true → s.sh.created = true ∨ (s'.sh.hist.length = 1 ∧ ∃ v, s.pc t = .newStore v)
  crt' : s.sh.created = true → s'.sh.created = true

theorem dflt_vcfacts {s s' : State} {idle : Bool} {e : Ev} (t : Tid) (h : dflt s idle e = .ok s') :
    VCFacts s t e s' := by
  unfold dflt at h
  repeat' (split at h)
  all_goals first
    | (cases h; done)
    | (cases h; constructor <;> simp_all [Shared.setSem])

set_option hygiene false in
macro "vcfacts_open" : tactic => `(tactic| (
  have hp := hi.pcs t; rw [hpc] at hp
  have hs := hi.sh
  simp only [stepThr, hpc] at h
  repeat' (split at h)
  all_goals first | (cases h; done) | exact dflt_vcfacts t h | skip
  all_goals (cases h; (try simp only [setPc_eq]))
  all_goals try (have hm := useMu_eq (by assumption); subst hm)
  all_goals try (have hb := bind_eq (by assumption); rcases hb with ⟨hb1, hb2⟩ | ⟨hb1, hb2, hb3⟩ <;> subst_vars)
  all_goals simp only [pcInv, pcFacts, holds] at hp))

set_option hygiene false in
macro "vcfacts_tac" : tactic => `(tactic| (
  constructor <;>
    try (first
      | (simp_all [State.mk', seenZero, pastStore, pcIdx, pcVal, pcDl, Shared.setSem, Shared.setRec,
          Shared.setSemUser, Shared.release] <;> grind)
      | (simp only [State.mk', seenZero, pastStore, pcIdx, pcVal, pcDl, Shared.setSem, Shared.setRec,
          Shared.setSemUser, Shared.release, hpc] at * <;> grind)
      | grind)))

end Counter
