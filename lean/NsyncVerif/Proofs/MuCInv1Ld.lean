import NsyncVerif.Proofs.MuCInv1
namespace NsyncVerif.MuC

/-- Close a goal `Inv1 s'` for a step of thread `t` that leaves lock bits and ghosts alone. -/
macro "inv1_local" t:ident h:ident heq:ident : tactic => `(tactic|
  (have hok := ($h).pcok $t
   rw [$heq:ident] at hok
   refine Inv1.local $t $h (by simp) (by simp) (by simp) (by simp) (by simp)
     (by intro u hu; simp [setFn, hu]) (by rw [$heq:ident]; simp) ?_ ?_
   · (simp_all [PC.ok, SL.okL, SL.entry, SL.fromWait, SL.woken, MW.inner, MW.ok, Ret.ok, noLock, Scan.ok, loopPc, finPc, Ret.pc]) <;> grind
   · (simp_all [pcShare, loopPc, finPc, Ret.pc, Ret.mode, PC.ok, SL.okL, MW.inner, MW.ok, Ret.ok]) <;> grind))

/-- Decompose the hypothesis `hs : … = .ok s'` of a load step and close every resulting goal. -/
macro "ld_case" t:ident h:ident heq:ident hs:ident : tactic => `(tactic|
  (try dsimp only at $hs:ident
   try simp only [ldWord, ldWaiting] at $hs:ident
   repeat' split at $hs:ident
   all_goals first
     | (cases $hs:ident; done)
     | (cases $hs:ident; inv1_local $t $h $heq)
     | (cases $hs:ident; split <;> inv1_local $t $h $heq)))

/-- mu_wait.c:159-167 detects the mode in which the caller holds the mutex. -/
theorem Inv1.mode_detect {s : State} (h : Inv1 s) {t : Tid} {c : MW} (heq : s.pc t = .mwLd0 c) :
    (if (s.word.readers != 0) = true then Mode.R else Mode.W) = c.l := by
  have hsh : shareOf s t = some c.l := by rw [h.share_eq (by rw [heq]; simp), heq]; rfl
  cases hl : c.l with
  | R =>
    rw [hl] at hsh
    have hmem := (h.lock.rown t).2 hsh
    have : s.word.readers ≠ 0 := by
      rw [h.lock.rd]; intro e
      rw [List.length_eq_zero_iff.mp e] at hmem; cases hmem
    simp [this]
  | W =>
    rw [hl] at hsh
    have hown := (h.lock.wown t).2 hsh
    have hwl : s.word.wlock = true := by rw [h.lock.wl, hown]; rfl
    simp [h.lock.excl hwl]

theorem inv1_stepLd {s s' : State} {t : Tid} {o : Ord} {loc : Loc} {obs : Nat} (h : Inv1 s)
    (hs : stepLd s t o loc obs = .ok s') : Inv1 s' := by
  unfold stepLd at hs
  split at hs
  all_goals first
    | (rename_i heq; ld_case t h heq hs)
    | skip
  · rename_i c heq
    have hmd := h.mode_detect heq
    dsimp only at hs
    rw [hmd] at hs
    have hc : ({ c with l := c.l } : MW) = c := rfl
    rw [hc] at hs
    ld_case t h heq hs

end NsyncVerif.MuC
