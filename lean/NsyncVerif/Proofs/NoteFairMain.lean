/-
  Layer `Note`, fair termination for leaf calls, second half: every thread inside a call moves
  again (a sleeper of `nsync_note_wait` once the flag of its note is set: the V of the wake loop is
  performed by the time the note's mutex is free again, `C08_waiters_released`), and its rank
  decreases with every own step: every call returns (`fair_returns`).
-/
import NsyncVerif.Proofs.NoteFairLock

set_option linter.unusedSimpArgs false

namespace Note

variable {s0 : State}

/-- In a leaf call an activation of `note_notify_child` past the store holds the note's mutex. -/
theorem active_held {pc : PC} {d : NoteId} (h : Active pc d) (hl : pc.inChildLoop = false) :
    d ∈ pc.held := by
  cases pc with
  | chd pos stk top =>
    cases stk with
    | nil => exact h.elim
    | cons f rest =>
      obtain rfl := chd_leaf_rest hl
      rcases h with ⟨hf, hst⟩ | h
      · subst hf
        cases pos with
        | waitRet b => cases b <;> simp [PC.inChildLoop] at hl <;> simp [PC.held]
        | _ => simp [PC.held]
      · simp at h
  | _ => exact h.elim

theorem flag_stays (x : Exec s0) (hr : Reachable s0) {n : NoteId} {i j : Nat} (hij : i ≤ j)
    (h : ((x.ρ i).notes n).notified = true) : ((x.ρ j).notes n).notified = true :=
  (x.stable_le hij).flag n ((x.reach hr i).invA.flag n h) h

theorem posted_stays (x : Exec s0) {r : Rid} {i : Nat} (hu : ((x.ρ i).recs r).used = true) : ∀ d,
    ((x.ρ (i + d)).recs r).used = true ∧ ((x.ρ i).recs r).posted ≤ ((x.ρ (i + d)).recs r).posted := by
  intro d
  induction d with
  | zero => exact ⟨hu, Nat.le_refl _⟩
  | succ d ih =>
    cases hs : x.σ (i + d) with
    | none => rw [show i + (d + 1) = i + d + 1 by omega, x.next_none hs]; exact ih
    | some e =>
      exact ⟨(recs_keep (x.next_some hs) ih.1).1,
        Nat.le_trans ih.2 (step_posted (x.next_some hs) ih.1)⟩

/-- A sleeper whose note has its flag set is posted by the time the note's mutex is free. -/
theorem sleeper_posted {s : State} (hr : Reachable s) (hleaf : ∀ u, (s.pc u).inChildLoop = false)
    {t : Tid} {d : Dl} {n : NoteId} {wdl : Dl} {r : Rid} (hpc : s.pc t = .wt (.pdRet d) n wdl r)
    (hf : (s.notes n).notified = true) (hfree : (s.notes n).lockHolder = none) :
    (s.recs r).used = true ∧ 1 ≤ (s.recs r).posted := by
  have hK := hr.inv6.2.2.2.2.2
  obtain ⟨hu, ho, hn⟩ := hr.invR.own t r n (by rw [hpc]; rfl)
  have hq : ∀ u, ¬ Active (s.pc u) n := by
    intro u ha
    have := (hK.iff n u).mpr (active_held ha (hleaf u))
    rw [hfree] at this; cases this
  have := (C08_waiters_released hr n hf hq).2 r hu hn
  exact ⟨hu, this.2 ⟨d, wdl, Or.inr (by rw [ho, hn]; exact hpc)⟩⟩

/-- Once settled, a thread inside a leaf call moves again — if it is a `nsync_note_wait`, provided
    the flag of its note is set. -/
theorem eventually_moves (x : Exec s0) (hy : LeafHyps x) {N : Nat} (hS : Settled x N) {t : Tid}
    {i : Nat} (hi : N ≤ i) (hp : (x.ρ i).pc t ≠ .idle)
    (hflag : ∀ n wdl, ((x.ρ i).pc t).waitOn = some (n, wdl) → ((x.ρ i).notes n).notified = true) :
    ∃ j, i ≤ j ∧ Moves x t j := by
  refine moves_of_recurs x hy hp (fun m _ j hj => lock_recurs x hy hS m j (by omega)) ?_
  intro hnm
  by_cases hsl : ∃ d n wdl r, (x.ρ i).pc t = .wt (.pdRet d) n wdl r
  · obtain ⟨d, n, wdl, r, hpc⟩ := hsl
    have hf := hflag n wdl (by rw [hpc]; rfl)
    obtain ⟨j1, hj1, hfree⟩ := lock_recurs x hy hS n i hi
    have hpc1 : (x.ρ j1).pc t = .wt (.pdRet d) n wdl r := by rw [pc_const x hnm hj1]; exact hpc
    obtain ⟨hu, hpost⟩ := sleeper_posted (x.reach hy.reach j1) (hy.leaf j1) hpc1
      (flag_stays x hy.reach hj1 hf) hfree
    refine ⟨j1, hj1, fun j hj => ?_⟩
    obtain ⟨e, rfl⟩ : ∃ e, j = j1 + e := ⟨j - j1, by omega⟩
    have hpcj : (x.ρ (j1 + e)).pc t = .wt (.pdRet d) n wdl r := by
      rw [pc_const x hnm (by omega : i ≤ j1 + e)]; exact hpc
    have := (posted_stays x hu e).2
    unfold SemReady
    rw [hpcj]
    left
    show ((x.ρ (j1 + e)).recs r).posted ≠ 0
    omega
  · refine ⟨i, Nat.le_refl _, fun j hj => semReady_of_not_asleep (fun d n wdl r h => ?_)⟩
    rw [pc_const x hnm hj] at h
    exact hsl ⟨d, n, wdl, r, h⟩

/-- The call in progress stays the same call while the thread is inside it. -/
theorem waitOn_const (x : Exec s0) {t : Tid} {i : Nat} : ∀ d,
    (∀ j, i ≤ j → j ≤ i + d → (x.ρ j).pc t ≠ .idle) →
    ((x.ρ (i + d)).pc t).waitOn = ((x.ρ i).pc t).waitOn := by
  intro d
  induction d with
  | zero => intro _; rfl
  | succ d ih =>
    intro h
    have a := ih (fun j h1 h2 => h j h1 (by omega))
    rw [← a]
    by_cases hm : Moves x t (i + d)
    · obtain ⟨e, he, ha⟩ := hm
      rcases own_keep (x.next_some he) ha (h (i + d) (by omega) (by omega)) with h' | ⟨h', _⟩
      · exact absurd h' (h (i + d + 1) (by omega) (by omega))
      · exact h'
    · rw [show i + (d + 1) = i + d + 1 by omega, not_moves_pc x hm]

/-- Once settled and with the flag of its note set (if it is a `nsync_note_wait`), a call
    returns. -/
theorem returns_settled (x : Exec s0) (hy : LeafHyps x) {N : Nat} (hS : Settled x N) {t : Tid}
    {i : Nat} (hi : N ≤ i) (hp : (x.ρ i).pc t ≠ .idle)
    (hflag : ∀ n wdl, ((x.ρ i).pc t).waitOn = some (n, wdl) → ((x.ρ i).notes n).notified = true) :
    ∃ j, i ≤ j ∧ (x.ρ j).pc t = .idle := by
  have hK : ∀ j, LockInv (x.ρ j) := fun j => (x.reach hy.reach j).inv6.2.2.2.2.2
  let R : Nat → Prop := fun j => i ≤ j ∧ (x.ρ j).pc t ≠ .idle ∧
    ((x.ρ j).pc t).waitOn = ((x.ρ i).pc t).waitOn
  have hfl : ∀ j, R j → ∀ n wdl, ((x.ρ j).pc t).waitOn = some (n, wdl) →
      ((x.ρ j).notes n).notified = true := by
    rintro j ⟨hj, _, hw⟩ n wdl h
    exact flag_stays x hy.reach hj (hflag n wdl (by rw [← hw]; exact h))
  refine leads x t R (fun j => (x.ρ j).pc t = .idle) (fun j => rank (x.ρ j) t) ?_ ?_ ?_ i
    ⟨Nat.le_refl _, hp, rfl⟩
  · rintro j ⟨hj, hne, hw⟩ hnm
    right
    have hpc := not_moves_pc x hnm
    refine ⟨⟨by omega, by rw [hpc]; exact hne, by rw [hpc]; exact hw⟩, ?_⟩
    cases hs : x.σ j with
    | none => rw [x.next_none hs]
    | some e => exact other_step_rank (hK j) (x.next_some hs) (fun ha => hnm ⟨e, hs, ha⟩)
  · rintro j hR ⟨e, hs, ha⟩
    obtain ⟨hj, hne, hw⟩ := hR
    have hst := x.next_some hs
    by_cases hid : (x.ρ (j + 1)).pc t = .idle
    · exact Or.inl hid
    · right
      have hw' : ((x.ρ (j + 1)).pc t).waitOn = ((x.ρ i).pc t).waitOn := by
        rcases own_keep hst ha hne with h | ⟨h, _⟩
        · exact absurd h hid
        · rw [h]; exact hw
      refine ⟨⟨by omega, hid, hw'⟩, ?_⟩
      rcases own_step hst ha hne (hy.leaf j t) (hy.leaf (j + 1) t) with h | h | ⟨n, nt, r, wdl, hpc, hf⟩
      · exact absurd h hid
      · exact h
      · have := hfl j ⟨hj, hne, hw⟩ n wdl (by rw [hpc]; rfl)
        rw [hf] at this; cases this
  · rintro j hR
    exact eventually_moves x hy hS (by omega) hR.2.1 (hfl j hR)

/-- FAIR TERMINATION for leaf calls. -/
theorem fair_returns (x : Exec s0) (hy : LeafHyps x) {t : Tid} {i : Nat}
    (hp : (x.ρ i).pc t ≠ .idle) (hwe : WaitEndsFlag x t i) : ∃ j, i ≤ j ∧ (x.ρ j).pc t = .idle := by
  obtain ⟨N, hS⟩ := settled x hy
  -- a time after which the flag is set
  have hj0 : ∃ j0, ∀ n wdl, ((x.ρ i).pc t).waitOn = some (n, wdl) →
      ((x.ρ j0).notes n).notified = true := by
    cases hw : ((x.ρ i).pc t).waitOn with
    | none => exact ⟨0, fun n wdl h => by cases h⟩
    | some p =>
      obtain ⟨j0, h0⟩ := hwe p.1 p.2 hw
      exact ⟨j0, fun n wdl h => by cases h; exact h0⟩
  obtain ⟨j0, h0⟩ := hj0
  let i' := max i (max N j0)
  by_cases hid : ∃ j, i ≤ j ∧ j ≤ i' ∧ (x.ρ j).pc t = .idle
  · obtain ⟨j, h1, _, h2⟩ := hid
    exact ⟨j, h1, h2⟩
  · have hne : ∀ j, i ≤ j → j ≤ i' → (x.ρ j).pc t ≠ .idle := fun j h1 h2 h3 => hid ⟨j, h1, h2, h3⟩
    obtain ⟨d, hd⟩ : ∃ d, i' = i + d := ⟨i' - i, by omega⟩
    have hw : ((x.ρ i').pc t).waitOn = ((x.ρ i).pc t).waitOn := by
      rw [hd]; exact waitOn_const x d (fun j h1 h2 => hne j h1 (by omega))
    obtain ⟨j, hj, hidle⟩ := returns_settled x hy hS (i := i') (by omega)
      (hne i' (by omega) (Nat.le_refl _))
      (fun n wdl h => flag_stays x hy.reach (by omega : j0 ≤ i') (h0 n wdl (by rw [← hw]; exact h)))
    exact ⟨j, by omega, hidle⟩

end Note
