/-
  Proofs/SemWaitInvQ4.lean — preservation of the invariant by the effects of a thread step: `l3`, `k1`, `e1`.
-/
import NsyncVerif.Proofs.SemWaitInvAux

namespace SemWait
set_option maxHeartbeats 400000
set_option linter.unusedVariables false

theorem q_l3 {cfg : Config} {s s' : State} {t : Tid} (hc : cfg.noReread = false) (ha : InvA s) (hq : InvQ s) (he : Eff cfg s t s') :
    ∀ t r, asleep (s'.pc t) = true → (s'.fr t).nw = some r → (s'.rcd r).unl = .waker → (s'.rcd r).posted = true →
        (s'.fr t).sem ≠ none ∧ ∀ j, (s'.fr t).sem = some j → 0 < s'.sem j := by
  have l3 := hq.l3
  have q4 := hq.q4
  have i1 := ha.i1
  have i4 := ha.i4
  have i6 := ha.i6
  have i8 := ha.i8
  eff_cases he
  case nop  =>
    clear ha hq; clear q4 i1 i4 i6 i8; grind [asleep, ndNext, nfNext]
  case semV j =>
    clear ha hq; clear q4 i1 i4 i6 i8; grind [asleep, vCount_pos]
  case semP j c hu hs =>
    clear ha hq; clear q4 i1 i4 i8; grind [asleep]
  case lock k hp hl =>
    clear ha hq; clear q4 i1 i4 i6 i8; grind [asleep, ndNext, nfNext]
  case unlock k hp hl hpost hfq =>
    clear ha hq; clear q4 i1 i4 i6 i8; grind [asleep, ndNext, nfNext]
  case setFlag k hp hl hk hf hd =>
    clear ha hq; clear q4 i1 i4 i6 i8; grind [asleep, ndNext, nfNext]
  case born k p hp hk hfr hne hl hf htp =>
    clear ha hq; clear q4 i1 i4 i6 i8; grind [asleep, ndNext, nfNext]
  case pop r tl hp hqu hl hf hpost =>
    clear ha hq; clear q4 i4 i6 i8; grind [asleep]
  case postDead r j hp hpost hlive =>
    clear ha hq; clear q4 i4 i6 i8; grind [asleep, vCount_pos]
  case postBound r j hp hpost hlive hsem =>
    clear ha hq; clear q4 i4 i6 i8; grind [asleep, vCount_pos]
  case postBind r j hp hpost hlive hsem huser =>
    clear ha hq; clear q4 i4 i6 i8; grind [asleep, vCount_pos]
  case newNote k ex hp hk =>
    clear ha hq; clear q4 i1 i4 i6 i8; grind [asleep, ndNext, nfNext]
  case inherit k p hp hk hfr hne =>
    clear ha hq; clear q4 i1 i4 i6 i8; grind [asleep, ndNext, nfNext]
  case call n dl hpc hk hpost hl =>
    clear ha hq; clear q4 i1 i4 i6 i8; grind [asleep, ndNext, nfNext]
  case openEnd u hpc hf hl hpost hqu =>
    clear ha hq; cases u <;> (clear q4 i1 i4 i6 i8; grind [asleep, ndNext, nfNext])
  case nd_ld0_set u hpc hf =>
    clear ha hq; cases u <;> (clear q4 i1 i4 i6 i8; grind [asleep, ndNext, nfNext])
  case nd_ld0_clr u hpc hf =>
    clear ha hq; cases u <;> (clear q4 i1 i4 i6 i8; grind [asleep, ndNext, nfNext])
  case nd_lk u hpc hl =>
    clear ha hq; cases u <;> (clear q4 i1 i4 i6 i8; grind [asleep, ndNext, nfNext])
  case nd_ld1 u hpc =>
    clear ha hq; cases u <;> (clear q4 i1 i4 i6 i8; grind [asleep, ndNext, nfNext])
  case nd_ulk_done u obs hpc hl hob =>
    clear ha hq; cases u <;> (clear q4 i1 i4 i6 i8; grind [asleep, ndNext, nfNext])
  case nd_ulk_now u obs hpc hl hob =>
    clear ha hq; cases u <;> (clear q4 i1 i4 i6 i8; grind [asleep, ndNext, nfNext])
  case nd_now_exp u hpc hx =>
    clear ha hq; cases u <;> (clear q4 i1 i4 i6 i8; grind [asleep, ndNext, nfNext])
  case nd_now_ok u hpc hx =>
    clear ha hq; cases u <;> (clear q4 i1 i4 i6 i8; grind [asleep, ndNext, nfNext])
  case nf_lk u hpc hl =>
    clear ha hq; cases u <;> (clear q4 i1 i4 i6 i8; grind [asleep, ndNext, nfNext])
  case nf_ld_ulk u hpc hf =>
    clear ha hq; cases u <;> (clear q4 i1 i4 i6 i8; grind [asleep, ndNext, nfNext])
  case nf_ld_open u hpc hf =>
    clear ha hq; cases u <;> (clear q4 i1 i4 i6 i8; grind [asleep, ndNext, nfNext])
  case nf_ulk u hpc hl =>
    clear ha hq; cases u <;> (clear q4 i1 i4 i6 i8; grind [asleep, ndNext, nfNext])
  case m_init r hpc hlive =>
    clear ha hq; clear q4 i4 i6 i8; grind [asleep]
  case m_lk1 hpc hl =>
    clear ha hq; clear q4 i1 i4 i6 i8; grind [asleep, ndNext, nfNext]
  case m_ld49_enq r hpc hen hnw =>
    clear ha hq; clear i4 i6 i8; grind [asleep, afterEnq]
  case m_ld49_no hpc hen =>
    clear ha hq; clear q4 i1 i4 i6 i8; grind [asleep, ndNext, nfNext]
  case m_ulk1 b hpc hl =>
    clear ha hq; clear q4 i1 i4 i6 i8; grind [asleep, ndNext, nfNext]
  case m_pdEnterBound j hpc hsem =>
    clear ha hq; clear q4 i1 i4 i6 i8; grind [asleep, ndNext, nfNext]
  case m_pdEnterBind j hpc hsem huser =>
    clear ha hq; clear q4 i1 i4 i8; grind [asleep]
  case m_tmoNear j hpc hx hn =>
    clear ha hq; clear q4 i1 i4 i6 i8; grind [asleep, ndNext, nfNext]
  case m_tmoFar j hpc hx hn =>
    clear ha hq; clear q4 i1 i4 i6 i8; grind [asleep, ndNext, nfNext]
  case m_p0 j c hpc hs =>
    clear ha hq; clear q4 i1 i4; grind [asleep]
  case m_lk2 hpc hl =>
    clear ha hq; clear q4 i1 i4 i6 i8; grind [asleep, ndNext, nfNext]
  case m_ld68_rm r hpc htp hnw hm =>
    clear ha hq; clear q4 i1 i4 i6 i8; grind [asleep, ndNext, nfNext]
  case m_ld68_no hpc htp =>
    clear ha hq; clear q4 i1 i4 i6 i8; grind [asleep, ndNext, nfNext]
  case m_ulk2 hpc hl =>
    clear ha hq; clear q4 i1 i4 i6 i8; grind [asleep, ndNext, nfNext]
  case m_ret hpc =>
    clear ha hq; clear q4 i4 i8; grind [asleep]

theorem q_k1 {cfg : Config} {s s' : State} {t : Tid} (hc : cfg.noReread = false) (ha : InvA s) (hq : InvQ s) (he : Eff cfg s t s') :
    ∀ k, (s'.note k).flag = true → (s'.note k).queue ≠ [] →
        (s'.note k).lock ≠ none ∧ ∀ u, (s'.note k).lock = some u → protoMode (s'.pc u) = true ∨ (s'.fr u).note ≠ k := by
  have k1 := hq.k1
  have h1 := ha.h1
  eff_cases he
  case nop  =>
    clear ha hq; clear h1; grind [protoMode, ndNext, nfNext]
  case semV j =>
    clear ha hq; clear h1; grind [protoMode, ndNext, nfNext]
  case semP j c hu hs =>
    clear ha hq; clear h1; grind [protoMode, ndNext, nfNext]
  case lock k hp hl =>
    clear ha hq; clear h1; grind [protoMode, ndNext, nfNext]
  case unlock k hp hl hpost hfq =>
    clear ha hq; clear h1; grind [protoMode, ndNext, nfNext]
  case setFlag k hp hl hk hf hd =>
    clear ha hq; clear h1; grind [protoMode, ndNext, nfNext]
  case born k p hp hk hfr hne hl hf htp =>
    have hn := fresh_queue_nil ha hq hfr
    clear ha hq; clear h1; grind [protoMode]
  case pop r tl hp hqu hl hf hpost =>
    clear ha hq; clear h1; grind [protoMode, ndNext, nfNext]
  case postDead r j hp hpost hlive =>
    clear ha hq; clear h1; grind [protoMode, ndNext, nfNext]
  case postBound r j hp hpost hlive hsem =>
    clear ha hq; clear h1; grind [protoMode, ndNext, nfNext]
  case postBind r j hp hpost hlive hsem huser =>
    clear ha hq; clear h1; grind [protoMode, ndNext, nfNext]
  case newNote k ex hp hk =>
    clear ha hq; clear h1; grind [protoMode, ndNext, nfNext]
  case inherit k p hp hk hfr hne =>
    clear ha hq; clear h1; grind [protoMode, ndNext, nfNext]
  case call n dl hpc hk hpost hl =>
    clear ha hq; clear h1; grind [protoMode, ndNext, nfNext]
  case openEnd u hpc hf hl hpost hqu =>
    clear ha hq; cases u <;> (clear h1; grind [protoMode, ndNext, nfNext])
  case nd_ld0_set u hpc hf =>
    clear ha hq; cases u <;> (clear h1; grind [protoMode, ndNext, nfNext])
  case nd_ld0_clr u hpc hf =>
    clear ha hq; cases u <;> (clear h1; grind [protoMode, ndNext, nfNext])
  case nd_lk u hpc hl =>
    clear ha hq; cases u <;> (clear h1; grind [protoMode, ndNext, nfNext])
  case nd_ld1 u hpc =>
    clear ha hq; cases u <;> (clear h1; grind [protoMode, ndNext, nfNext])
  case nd_ulk_done u obs hpc hl hob =>
    clear ha hq; cases u <;> (grind [protoMode, holdsPc, ndNext])
  case nd_ulk_now u obs hpc hl hob =>
    clear ha hq; cases u <;> (grind [protoMode, holdsPc])
  case nd_now_exp u hpc hx =>
    clear ha hq; cases u <;> (clear h1; grind [protoMode, ndNext, nfNext])
  case nd_now_ok u hpc hx =>
    clear ha hq; cases u <;> (clear h1; grind [protoMode, ndNext, nfNext])
  case nf_lk u hpc hl =>
    clear ha hq; cases u <;> (clear h1; grind [protoMode, ndNext, nfNext])
  case nf_ld_ulk u hpc hf =>
    clear ha hq; cases u <;> (clear h1; grind [protoMode, ndNext, nfNext])
  case nf_ld_open u hpc hf =>
    clear ha hq; cases u <;> (clear h1; grind [protoMode, ndNext, nfNext])
  case nf_ulk u hpc hl =>
    clear ha hq; cases u <;> (grind [protoMode, holdsPc, nfNext])
  case m_init r hpc hlive =>
    clear ha hq; clear h1; grind [protoMode, ndNext, nfNext]
  case m_lk1 hpc hl =>
    clear ha hq; clear h1; grind [protoMode, ndNext, nfNext]
  case m_ld49_enq r hpc hen hnw =>
    clear ha hq; clear h1; grind [protoMode, timePos]
  case m_ld49_no hpc hen =>
    clear ha hq; clear h1; grind [protoMode, ndNext, nfNext]
  case m_ulk1 b hpc hl =>
    clear ha hq; grind [protoMode, holdsPc]
  case m_pdEnterBound j hpc hsem =>
    clear ha hq; clear h1; grind [protoMode, ndNext, nfNext]
  case m_pdEnterBind j hpc hsem huser =>
    clear ha hq; clear h1; grind [protoMode, ndNext, nfNext]
  case m_tmoNear j hpc hx hn =>
    clear ha hq; clear h1; grind [protoMode, ndNext, nfNext]
  case m_tmoFar j hpc hx hn =>
    clear ha hq; clear h1; grind [protoMode, ndNext, nfNext]
  case m_p0 j c hpc hs =>
    clear ha hq; clear h1; grind [protoMode, ndNext, nfNext]
  case m_lk2 hpc hl =>
    clear ha hq; clear h1; grind [protoMode, ndNext, nfNext]
  case m_ld68_rm r hpc htp hnw hm =>
    clear ha hq; clear h1; grind [protoMode, timePos]
  case m_ld68_no hpc htp =>
    clear ha hq; clear h1; grind [protoMode, ndNext, nfNext]
  case m_ulk2 hpc hl =>
    clear ha hq; grind [protoMode, holdsPc]
  case m_ret hpc =>
    clear ha hq; clear h1; grind [protoMode, ndNext, nfNext]

theorem q_e1 {cfg : Config} {s s' : State} {t : Tid} (hc : cfg.noReread = false) (ha : InvA s) (hq : InvQ s) (he : Eff cfg s t s') :
    ∀ t, enq (s'.pc t) = true → dlePast (s'.note (s'.fr t).note).expiry = false := by
  have e1 := hq.e1
  have i5 := ha.i5
  eff_cases he
  case nop  =>
    clear ha hq; clear i5; grind [enq, ndNext, nfNext]
  case semV j =>
    clear ha hq; clear i5; grind [enq, ndNext, nfNext]
  case semP j c hu hs =>
    clear ha hq; clear i5; grind [enq, ndNext, nfNext]
  case lock k hp hl =>
    clear ha hq; clear i5; grind [enq, ndNext, nfNext]
  case unlock k hp hl hpost hfq =>
    clear ha hq; clear i5; grind [enq, ndNext, nfNext]
  case setFlag k hp hl hk hf hd =>
    clear ha hq; clear i5; grind [enq, ndNext, nfNext]
  case born k p hp hk hfr hne hl hf htp =>
    clear ha hq; clear i5; grind [enq, ndNext, nfNext]
  case pop r tl hp hqu hl hf hpost =>
    clear ha hq; clear i5; grind [enq, ndNext, nfNext]
  case postDead r j hp hpost hlive =>
    clear ha hq; clear i5; grind [enq, ndNext, nfNext]
  case postBound r j hp hpost hlive hsem =>
    clear ha hq; clear i5; grind [enq, ndNext, nfNext]
  case postBind r j hp hpost hlive hsem huser =>
    clear ha hq; clear i5; grind [enq, ndNext, nfNext]
  case newNote k ex hp hk =>
    clear ha hq; grind [enq, enq_hasNw, hasNw_inCall]
  case inherit k p hp hk hfr hne =>
    clear ha hq; grind [enq, enq_hasNw, hasNw_inCall]
  case call n dl hpc hk hpost hl =>
    clear ha hq; clear i5; grind [enq, ndNext, nfNext]
  case openEnd u hpc hf hl hpost hqu =>
    clear ha hq; cases u <;> (clear i5; grind [enq, ndNext, nfNext])
  case nd_ld0_set u hpc hf =>
    clear ha hq; cases u <;> (clear i5; grind [enq, ndNext, nfNext])
  case nd_ld0_clr u hpc hf =>
    clear ha hq; cases u <;> (clear i5; grind [enq, ndNext, nfNext])
  case nd_lk u hpc hl =>
    clear ha hq; cases u <;> (clear i5; grind [enq, ndNext, nfNext])
  case nd_ld1 u hpc =>
    clear ha hq; cases u <;> (clear i5; grind [enq, ndNext, nfNext])
  case nd_ulk_done u obs hpc hl hob =>
    clear ha hq; cases u <;> (clear i5; grind [enq, ndNext, nfNext])
  case nd_ulk_now u obs hpc hl hob =>
    clear ha hq; cases u <;> (clear i5; grind [enq, ndNext, nfNext])
  case nd_now_exp u hpc hx =>
    clear ha hq; cases u <;> (clear i5; grind [enq, ndNext, nfNext])
  case nd_now_ok u hpc hx =>
    clear ha hq; cases u <;> (clear i5; grind [enq, ndNext, nfNext])
  case nf_lk u hpc hl =>
    clear ha hq; cases u <;> (clear i5; grind [enq, ndNext, nfNext])
  case nf_ld_ulk u hpc hf =>
    clear ha hq; cases u <;> (clear i5; grind [enq, ndNext, nfNext])
  case nf_ld_open u hpc hf =>
    clear ha hq; cases u <;> (clear i5; grind [enq, ndNext, nfNext])
  case nf_ulk u hpc hl =>
    clear ha hq; cases u <;> (clear i5; grind [enq, ndNext, nfNext])
  case m_init r hpc hlive =>
    clear ha hq; clear i5; grind [enq, ndNext, nfNext]
  case m_lk1 hpc hl =>
    clear ha hq; clear i5; grind [enq, ndNext, nfNext]
  case m_ld49_enq r hpc hen hnw =>
    clear ha hq; clear i5; grind [enq, timePos]
  case m_ld49_no hpc hen =>
    clear ha hq; clear i5; grind [enq, ndNext, nfNext]
  case m_ulk1 b hpc hl =>
    clear ha hq; clear i5; grind [enq, ndNext, nfNext]
  case m_pdEnterBound j hpc hsem =>
    clear ha hq; clear i5; grind [enq, ndNext, nfNext]
  case m_pdEnterBind j hpc hsem huser =>
    clear ha hq; clear i5; grind [enq, ndNext, nfNext]
  case m_tmoNear j hpc hx hn =>
    clear ha hq; clear i5; grind [enq, ndNext, nfNext]
  case m_tmoFar j hpc hx hn =>
    clear ha hq; clear i5; grind [enq, ndNext, nfNext]
  case m_p0 j c hpc hs =>
    clear ha hq; clear i5; grind [enq, ndNext, nfNext]
  case m_lk2 hpc hl =>
    clear ha hq; clear i5; grind [enq, ndNext, nfNext]
  case m_ld68_rm r hpc htp hnw hm =>
    clear ha hq; clear i5; grind [enq, ndNext, nfNext]
  case m_ld68_no hpc htp =>
    clear ha hq; clear i5; grind [enq, ndNext, nfNext]
  case m_ulk2 hpc hl =>
    clear ha hq; clear i5; grind [enq, ndNext, nfNext]
  case m_ret hpc =>
    clear ha hq; clear i5; grind [enq, ndNext, nfNext]

end SemWait
