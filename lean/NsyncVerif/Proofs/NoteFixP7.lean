/-
  Layer `Note`, invariant family P, seventh part: no stuck state.  If every thread is idle, waiting
  for a note mutex that another thread holds, inside a WAIT_FOR_NO_CHILDREN whose condition is
  false, or asleep in `nsync_note_wait`, then no thread is blocked on a mutex or in
  WAIT_FOR_NO_CHILDREN at all.

  A blocked thread always points to another blocked thread whose target (the mutex it waits for,
  or the note whose children it waits for) is STRICTLY BELOW its own in the creation order:
    * the holder of the mutex it wants is blocked on something below that mutex (`lock_order`);
    * a child of the note it waits for is `disconnecting` (I2, `wait_children_disc`), i.e. has a
      thread counted in its `disconnecting` (`InvForest.cnt`), which wants the mutex of the child
      or of a note below it, or waits for the children of such a note — or wants the mutex of the
      waited note itself (released by the wait), whose holder is then blocked below it.
  The allocated notes are finitely many, so the descent ends.
-/
import NsyncVerif.Proofs.NoteFixP6

set_option linter.unusedSimpArgs false

namespace Note

/-- Waiting for a note mutex that another thread holds. -/
def LockBlocked (s : State) (t : Tid) : Prop :=
  ∃ m u, (s.pc t).wants = some m ∧ (s.notes m).lockHolder = some u ∧ u ≠ t

/-- Inside the WAIT_FOR_NO_CHILDREN of note `m`, whose condition `no_children_or_adopted` is
    false. -/
def WaitBlockedOn (s : State) (t : Tid) (m : NoteId) : Prop :=
  ((∃ k f rest top, s.pc t = .chd (.waitRet k) (f :: rest) top ∧ f.note = m) ∨
   (∃ k par c nx, s.pc t = .fr (.waitRet k) m par c nx)) ∧ (s.notes m).waitDone = false

/-- Inside WAIT_FOR_NO_CHILDREN with a false condition. -/
def WaitBlocked (s : State) (t : Tid) : Prop :=
  match s.pc t with
  | .chd (.waitRet _) (f :: _) _ => (s.notes f.note).waitDone = false
  | .fr (.waitRet _) n _ _ _ => (s.notes n).waitDone = false
  | _ => False

/-- Asleep on the semaphore of a `nsync_note_wait`. -/
def Asleep (s : State) (t : Tid) : Prop :=
  ∃ d n wdl r, s.pc t = .wt (.pdRet d) n wdl r

theorem waitBlocked_iff {s : State} {t : Tid} : WaitBlocked s t ↔ ∃ m, WaitBlockedOn s t m := by
  unfold WaitBlocked WaitBlockedOn
  constructor
  · intro h
    split at h
    · next k f rest top hpc => exact ⟨f.note, Or.inl ⟨k, f, rest, top, hpc, rfl⟩, h⟩
    · next k n par c nx hpc => exact ⟨n, Or.inr ⟨k, par, c, nx, hpc⟩, h⟩
    · exact h.elim
  · rintro ⟨m, ⟨k, f, rest, top, hpc, rfl⟩ | ⟨k, par, c, nx, hpc⟩, hw⟩
    · rw [hpc]; exact hw
    · rw [hpc]; exact hw

/-- A thread that waits for the mutex of `m` holds only mutexes of notes strictly above `m`. -/
theorem lock_order {s : State} (hr : Reachable s) {t : Tid} {m h : NoteId}
    (hw : (s.pc t).wants = some m) (hh : (s.notes h).lockHolder = some t) : Lt s h m := by
  obtain ⟨_, _, hS, _, hL, hK⟩ := hr.inv6
  have hmem := (hK.iff h t).mp hh
  have hc := hL.claim t
  cases hpc : s.pc t with
  | dl pos n nt dk =>
    rw [hpc] at hw hmem
    cases pos <;> simp [PC.wants] at hw <;> simp [PC.held] at hmem
  | nfy pos n par nk =>
    rw [hpc] at hw hmem hc
    cases pos <;> simp [PC.wants] at hw <;> simp [PC.held] at hmem
    · subst hw; exact hc h hmem
  | chd pos stk top =>
    rw [hpc] at hw hmem hc
    cases pos with
    | lockChildRet c =>
      simp only [PC.wants, Option.some.injEq] at hw
      subst hw
      exact LClaim.above_cur hL hc rfl h (by simpa [PC.held] using hmem)
    | waitRet b =>
      cases b with
      | true => simp [PC.wants] at hw
      | false =>
        cases stk with
        | nil => simp [PC.wants] at hw
        | cons f rest =>
          simp only [PC.wants, List.head?_cons, Option.map_some, Option.some.injEq] at hw
          subst hw
          exact LClaim.above_head hL hc h (by simpa [PC.held] using hmem)
    | _ => simp [PC.wants] at hw
  | newP pos n p dl =>
    rw [hpc] at hw hmem
    cases pos <;> simp [PC.wants] at hw <;> simp [PC.held] at hmem
  | fr pos n par c nx =>
    rw [hpc] at hw hmem hc
    cases pos with
    | sLockNRet =>
      simp only [PC.wants, Option.some.injEq] at hw
      subst hw
      exact hc.2.1 h (by simpa [PC.held] using hmem)
    | lockChildRet =>
      simp only [PC.wants, Option.some.injEq] at hw
      subst hw
      simp only [PC.held, List.mem_cons] at hmem
      rcases hmem with hm | hm
      · subst hm; exact hc.2.2 rfl
      · exact Lt.trans hL (hc.2.1 h (by simpa using hm)) (hc.2.2 rfl)
    | waitRet b =>
      cases b with
      | true => simp [PC.wants] at hw
      | false =>
        simp only [PC.wants, Option.some.injEq] at hw
        subst hw
        exact hc.2.1 h (by simpa [PC.held] using hmem)
    | lockRet => simp [PC.held] at hmem
    | sLockPRet => simp [PC.held] at hmem
    | _ => simp [PC.wants] at hw
  | wt pos n wdl r =>
    rw [hpc] at hw hmem
    cases pos <;> simp [PC.wants] at hw <;> simp [PC.held] at hmem
  | _ => rw [hpc] at hw; simp [PC.wants] at hw

/-- A thread inside a WAIT_FOR_NO_CHILDREN (`m`) with a false condition has released the mutex of
    `m`, and holds only mutexes of notes strictly above `m`. -/
theorem waitBlocked_order {s : State} (hr : Reachable s) {t : Tid} {m h : NoteId}
    (hw : WaitBlockedOn s t m) (hh : (s.notes h).lockHolder = some t) : Lt s h m := by
  obtain ⟨_, _, hS, _, hL, hK⟩ := hr.inv6
  have hP := hr.invScan
  have hmem := (hK.iff h t).mp hh
  obtain ⟨hpos, hwd⟩ := hw
  rcases hpos with ⟨k, f, rest, top, hpc, rfl⟩ | ⟨k, par, c, nx, hpc⟩
  · cases k with
    | true => have := hP.keptC t f rest top hpc; rw [hwd] at this; cases this
    | false =>
      rw [hpc] at hmem
      exact LClaim.above_head hL (hL.claim_of hpc) h (by simpa [PC.held] using hmem)
  · cases k with
    | true => have := hP.keptF t m par c nx hpc; rw [hwd] at this; cases this
    | false =>
      rw [hpc] at hmem
      exact (hL.claim_of hpc).2.1 h (by simpa [PC.held] using hmem)

/-- What a blocked thread is waiting for: the mutex of `m`, held by another thread, or the children
    of `m` to leave. -/
def Target (s : State) (t : Tid) (m : NoteId) : Prop :=
  ((s.pc t).wants = some m ∧ ∃ u, (s.notes m).lockHolder = some u ∧ u ≠ t) ∨ WaitBlockedOn s t m

/-- In an activation stack a note is the innermost one or strictly above it. -/
theorem stack_head_below {s : State} (hL : InvL s) {f : Frame} {rest : List Frame}
    (hch : ChainStk s (f :: rest)) {c : NoteId} (hc : c ∈ (f :: rest).map Frame.note) :
    c = f.note ∨ Lt s c f.note := by
  simp only [List.map_cons, List.mem_cons] at hc
  rcases hc with hc | hc
  · exact Or.inl hc
  · obtain ⟨g, hg, rfl⟩ := List.mem_map.mp hc
    exact Or.inr (ChainStk.above_head hL hch g hg)

theorem mem_of_mem_dropLast {l : List NoteId} {x : NoteId} (h : x ∈ l.dropLast) : x ∈ l :=
  List.mem_of_mem_take (by rw [← List.dropLast_eq_take]; exact h)

/-- A thread that is counted in `c->disconnecting` and is blocked waits for the mutex of `c`, of
    the parent of `c`, or of a note below `c`, or for the children of `c` or of a note below. -/
theorem counted_target {s : State} (hr : Reachable s) {u : Tid} {c w : NoteId}
    (hcnt : cntOf (s.pc u) c ≠ 0)
    (hw : (s.pc u).wants = some w ∨ WaitBlockedOn s u w) :
    w = c ∨ Lt s c w ∨ ((s.notes c).parent = some w ∧ ¬ WaitBlockedOn s u w) := by
  obtain ⟨_, _, hS, _, hL, _⟩ := hr.inv6
  have hF := hr.invForest
  have hcL := hL.claim u
  unfold WaitBlockedOn at hw
  cases hpc : s.pc u with
  | nfy pos n par nk =>
    rw [hpc] at hcnt hw
    have hn : pos.inSec = true ∧ n = c := by
      cases hp : pos.inSec <;> simp [cntOf, inSecB, hp] at hcnt ⊢
      exact hcnt
    obtain ⟨hin, rfl⟩ := hn
    rcases hw with hw | ⟨⟨k, f, rest, top, h, _⟩ | ⟨k, par', c', nx, h⟩, _⟩
    · cases pos <;> simp [PC.wants] at hw <;> simp [NPos.inSec] at hin
      · subst hw
        right; right
        refine ⟨hF.linked u n w (by rw [hpc]; rfl), ?_⟩
        rintro ⟨⟨k, f, rest, top, h, _⟩ | ⟨k, par', c', nx, h⟩, _⟩ <;> (rw [hpc] at h; cases h)
      · exact Or.inl hw.symm
    · cases h
    · cases h
  | fr pos n par c0 nx0 =>
    rw [hpc] at hcnt hw hcL
    have hn : pos.inSec = true ∧ n = c := by
      cases hp : pos.inSec <;> simp [cntOf, inSecB, hp] at hcnt ⊢
      exact hcnt
    obtain ⟨hin, rfl⟩ := hn
    rcases hw with hw | ⟨⟨k, f, rest, top, h, _⟩ | ⟨k, par', c', nx, h⟩, _⟩
    · cases pos <;> simp [PC.wants] at hw <;> simp [FPos.inSec] at hin
      · subst hw
        right; right
        refine ⟨hF.linked u n w (by rw [hpc]; rfl), ?_⟩
        rintro ⟨⟨k, f, rest, top, h, _⟩ | ⟨k, par', c', nx, h⟩, _⟩ <;> (rw [hpc] at h; cases h)
      · exact Or.inl hw.symm
      · subst hw; exact Or.inr (Or.inl (hcL.2.2 rfl))
      · rename_i b; cases b <;> simp at hw
        exact Or.inl hw.symm
    · cases h
    · cases h; exact Or.inl rfl
  | chd pos stk top =>
    rw [hpc] at hcnt hw hcL
    cases stk with
    | nil => exact absurd hpc (hL.chd_ne_nil u _ _)
    | cons f rest =>
      -- `c` is a note of the stack
      have hmem : c ∈ (f :: rest).map Frame.note := by
        by_cases htop : top.n = c
        · have hlast := hcL.2.2.1
          cases hl : (f :: rest).getLast? with
          | none => rw [hl] at hlast; cases hlast
          | some l =>
            rw [hl] at hlast
            have : l.note = top.n := by simpa using hlast
            rw [← htop, ← this]
            exact List.mem_map_of_mem (List.mem_of_getLast? hl)
        · simp only [cntOf, inSecB, sec_chd, beq_iff_eq, htop, if_false, Nat.zero_add,
            inner_chd] at hcnt
          exact mem_of_mem_dropLast (List.count_pos_iff.mp (by omega))
      have hhead := stack_head_below hL hcL.2.1 hmem
      -- everything the thread may wait for is the innermost note or below it
      have hw' : w = f.note ∨ Lt s f.note w := by
        rcases hw with hw | ⟨⟨k, f', rest', top', h, hfw⟩ | ⟨k, par', c', nx, h⟩, _⟩
        · cases pos with
          | lockChildRet c1 =>
            simp only [PC.wants, Option.some.injEq] at hw
            subst hw
            exact Or.inr (hcL.2.2.2 c1 f rfl rfl)
          | waitRet b =>
            cases b <;> simp [PC.wants] at hw
            exact Or.inl hw.symm
          | _ => simp [PC.wants] at hw
        · cases h; exact Or.inl hfw.symm
        · cases h
      rcases hhead with rfl | hlt
      · rcases hw' with h | h
        · exact Or.inl h
        · exact Or.inr (Or.inl h)
      · rcases hw' with h | h
        · exact Or.inr (Or.inl (h ▸ hlt))
        · exact Or.inr (Or.inl (Lt.trans hL hlt h))
  | _ => rw [hpc] at hcnt; simp [cntOf, inSecB] at hcnt

/-- Every thread is idle, blocked, or asleep. -/
def AllBlocked (s : State) : Prop :=
  ∀ t, s.pc t = .idle ∨ LockBlocked s t ∨ WaitBlocked s t ∨ Asleep s t

/-- A thread that holds a mutex is not idle and not asleep: when every thread is idle, blocked or
    asleep, it is blocked — on something strictly below the mutex it holds. -/
theorem holder_target {s : State} (hr : Reachable s) (hall : AllBlocked s) {u : Tid} {k : NoteId}
    (hk : (s.notes k).lockHolder = some u) : ∃ m', Target s u m' ∧ Lt s k m' := by
  have hK := hr.inv6.2.2.2.2.2
  have hmem := (hK.iff k u).mp hk
  rcases hall u with h | ⟨m', v, hw, hv, hne⟩ | h | ⟨d, n, wdl, r, h⟩
  · rw [h] at hmem; simp [PC.held] at hmem
  · exact ⟨m', Or.inl ⟨hw, v, hv, hne⟩, lock_order hr hw hk⟩
  · obtain ⟨m', hm'⟩ := waitBlocked_iff.mp h
    exact ⟨m', Or.inr hm', waitBlocked_order hr hm' hk⟩
  · rw [h] at hmem; simp [PC.held] at hmem

/-- The descent: a blocked thread points to a blocked thread whose target is strictly below. -/
theorem target_descent {s : State} (hr : Reachable s) (hall : AllBlocked s) {t : Tid}
    {m : NoteId} (ht : Target s t m) : ∃ t' m', Target s t' m' ∧ Lt s m m' := by
  obtain ⟨_, _, hS, _, hL, hK⟩ := hr.inv6
  have hF := hr.invForest
  rcases ht with ⟨_, u, hu, _⟩ | hwb
  · -- the holder of the mutex
    obtain ⟨m', h1, h2⟩ := holder_target hr hall hu
    exact ⟨u, m', h1, h2⟩
  · -- a child of the note is `disconnecting`
    have hwd := hwb.2
    simp only [NoteRec.waitDone, Bool.or_eq_false_iff, decide_eq_false_iff_not] at hwd
    obtain ⟨hne, had⟩ := hwd
    have hsc : (m, none, none) ∈ (s.pc t).scans := by
      rcases hwb.1 with ⟨k, f, rest, top, hpc, rfl⟩ | ⟨k, par, c, nx, hpc⟩
      · rw [hpc]; simp [PC.scans, CPos.scan, headScan]
      · rw [hpc]; simp [PC.scans, FPos.scan, headScan]
    obtain ⟨c, hc⟩ := List.exists_mem_of_ne_nil _ hne
    have hdc := hr.wait_children_disc hsc had c hc
    obtain ⟨u, hu⟩ := hF.cnt_pos hdc
    have hmc : Lt s m c := ⟨hS.children m c hc, hL.children m c hc⟩
    have hpar : (s.notes c).parent = some m := hF.c2p m c hc
    -- the thread counted on `c` is blocked
    have hub : ∃ w, Target s u w := by
      rcases hall u with h | ⟨w, v, hw, hv, hne'⟩ | h | ⟨d, n, wdl, r, h⟩
      · rw [h] at hu; simp at hu
      · exact ⟨w, Or.inl ⟨hw, v, hv, hne'⟩⟩
      · obtain ⟨w, hw⟩ := waitBlocked_iff.mp h; exact ⟨w, Or.inr hw⟩
      · rw [h] at hu; simp [cntOf, inSecB] at hu
    obtain ⟨w, hw⟩ := hub
    have hcase := counted_target hr hu (w := w) (by
      rcases hw with ⟨h, _⟩ | h
      · exact Or.inl h
      · exact Or.inr h)
    rcases hcase with rfl | h | h
    · exact ⟨u, w, hw, hmc⟩
    · exact ⟨u, w, hw, Lt.trans hL hmc h⟩
    · -- it wants the mutex of the waited note itself: look at the holder
      obtain ⟨h, hnw⟩ := h
      rw [hpar] at h
      obtain rfl := Option.some.inj h
      rcases hw with ⟨_, v, hv, _⟩ | hw2
      · obtain ⟨m', h1, h2⟩ := holder_target hr hall hv
        exact ⟨v, m', h1, h2⟩
      · exact absurd hw2 hnw

/-! ### Finitely many notes -/

theorem Reachable.alloc_bound {s : State} (h : Reachable s) :
    ∃ B, ∀ k, (s.notes k).allocated = true → k < B := by
  refine Reachable.induction (P := fun s => ∃ B, ∀ k, (s.notes k).allocated = true → k < B)
    ⟨0, fun k hk => by simp [Note.init, NoteRec.blank] at hk⟩ ?_ s h
  intro s e s' _ ⟨B, hB⟩ hs
  refine ⟨max B (match e with | .malloc _ (some k) => k + 1 | _ => 0), fun k hk => ?_⟩
  rcases step_alloc hs k hk with h | ⟨a, par, dl, he, _⟩
  · exact Nat.lt_of_lt_of_le (hB k h) (Nat.le_max_left _ _)
  · subst he
    exact Nat.lt_of_lt_of_le (Nat.lt_succ_self k) (Nat.le_max_right _ _)

theorem length_filter_le {l : List NoteId} {p q : NoteId → Bool}
    (hpq : ∀ x, q x = true → p x = true) : (l.filter q).length ≤ (l.filter p).length := by
  induction l with
  | nil => simp
  | cons y ys ih =>
    simp only [List.filter_cons]
    cases hq : q y with
    | false =>
      cases hp : p y with
      | false => simpa using ih
      | true => simp only [Bool.false_eq_true, if_false, if_true, List.length_cons]; omega
    | true => simp only [hpq y hq, if_true, List.length_cons]; omega

theorem length_filter_lt {l : List NoteId} {p q : NoteId → Bool}
    (hpq : ∀ x, q x = true → p x = true)
    {a : NoteId} (ha : a ∈ l) (hpa : p a = true) (hqa : q a = false) :
    (l.filter q).length < (l.filter p).length := by
  induction l with
  | nil => cases ha
  | cons x xs ih =>
    have hle : (xs.filter q).length ≤ (xs.filter p).length := length_filter_le hpq
    simp only [List.filter_cons]
    rcases List.mem_cons.mp ha with rfl | hm
    · simp only [hpa, hqa, Bool.false_eq_true, if_false, if_true, List.length_cons]; omega
    · have := ih hm
      cases hq : q x with
      | false =>
        cases hp : p x with
        | false => simpa using this
        | true => simp only [Bool.false_eq_true, if_false, if_true, List.length_cons]; omega
      | true => simp only [hpq x hq, if_true, List.length_cons]; omega

/-- No thread is blocked when every thread is idle, blocked or asleep. -/
theorem no_target {s : State} (hr : Reachable s) (hall : AllBlocked s) :
    ∀ t m, ¬ Target s t m := by
  obtain ⟨_, _, hS, _, hL, _⟩ := hr.inv6
  obtain ⟨B, hB⟩ := hr.alloc_bound
  classical
  -- the number of notes strictly below `m`
  let μ : NoteId → Nat := fun m => ((List.range B).filter (fun k => decide (Lt s m k))).length
  have hμ : ∀ m m', Lt s m m' → μ m' < μ m := by
    intro m m' hlt
    refine length_filter_lt (a := m') ?_ ?_ ?_ ?_
    · intro x hx
      simp only [decide_eq_true_eq] at hx ⊢
      exact Lt.trans hL hlt hx
    · exact List.mem_range.mpr (hB m' (hlt.alloc_right hS))
    · simpa using hlt
    · simp only [decide_eq_false_iff_not]; exact fun h => h.irrefl
  intro t m
  induction hn : μ m using Nat.strongRecOn generalizing t m with
  | _ n ih =>
    intro ht
    obtain ⟨t', m', ht', hlt⟩ := target_descent hr hall ht
    exact ih (μ m') (hn ▸ hμ m m' hlt) t' m' rfl ht'

/-- No reachable state is stuck. -/
theorem no_stuck_state {s : State} (hr : Reachable s) (hall : AllBlocked s) (t : Tid) :
    ¬ LockBlocked s t ∧ ¬ WaitBlocked s t := by
  constructor
  · rintro ⟨m, u, hw, hu, hne⟩
    exact no_target hr hall t m (Or.inl ⟨hw, u, hu, hne⟩)
  · intro h
    obtain ⟨m, hm⟩ := waitBlocked_iff.mp h
    exact no_target hr hall t m (Or.inr hm)

/-! ### When nobody delivers any more -/

/-- The thread is inside `notify`, `note_notify_child` or `nsync_note_free`. -/
def InNotify : PC → Bool
  | .nfy .. | .chd .. | .fr .. => true
  | _ => false

theorem inNotify_of_cntOf {pc : PC} {n : NoteId} (h : cntOf pc n ≠ 0) : InNotify pc = true := by
  cases pc <;> first | rfl | simp [cntOf, inSecB] at h

/-- If every thread inside `notify` / `note_notify_child` / `nsync_note_free` were inside a
    WAIT_FOR_NO_CHILDREN with a false condition, there would be an infinite descending chain of
    notes: so there is no such thread at all. -/
theorem no_wait_blocked_all {s : State} (hr : Reachable s)
    (hall : ∀ u, InNotify (s.pc u) = true → WaitBlocked s u) : ∀ t, InNotify (s.pc t) = false := by
  obtain ⟨_, _, hS, _, hL, _⟩ := hr.inv6
  have hF := hr.invForest
  -- the descent
  have desc : ∀ t m, WaitBlockedOn s t m → ∃ u w, WaitBlockedOn s u w ∧ Lt s m w := by
    intro t m hwb
    have hwd := hwb.2
    simp only [NoteRec.waitDone, Bool.or_eq_false_iff, decide_eq_false_iff_not] at hwd
    obtain ⟨hne, had⟩ := hwd
    have hsc : (m, none, none) ∈ (s.pc t).scans := by
      rcases hwb.1 with ⟨k, f, rest, top, hpc, rfl⟩ | ⟨k, par, c, nx, hpc⟩
      · rw [hpc]; simp [PC.scans, CPos.scan, headScan]
      · rw [hpc]; simp [PC.scans, FPos.scan, headScan]
    obtain ⟨c, hc⟩ := List.exists_mem_of_ne_nil _ hne
    obtain ⟨u, hu⟩ := hF.cnt_pos (hr.wait_children_disc hsc had c hc)
    have hmc : Lt s m c := ⟨hS.children m c hc, hL.children m c hc⟩
    obtain ⟨w, hw⟩ := waitBlocked_iff.mp (hall u (inNotify_of_cntOf hu))
    rcases counted_target hr hu (w := w) (Or.inr hw) with rfl | h | ⟨_, h⟩
    · exact ⟨u, w, hw, hmc⟩
    · exact ⟨u, w, hw, Lt.trans hL hmc h⟩
    · exact absurd hw h
  have none_blocked : ∀ t m, ¬ WaitBlockedOn s t m := by
    obtain ⟨B, hB⟩ := hr.alloc_bound
    classical
    let μ : NoteId → Nat := fun m => ((List.range B).filter (fun k => decide (Lt s m k))).length
    have hμ : ∀ m m', Lt s m m' → μ m' < μ m := by
      intro m m' hlt
      refine length_filter_lt (a := m') ?_ ?_ ?_ ?_
      · intro x hx
        simp only [decide_eq_true_eq] at hx ⊢
        exact Lt.trans hL hlt hx
      · exact List.mem_range.mpr (hB m' (hlt.alloc_right hS))
      · simpa using hlt
      · simp only [decide_eq_false_iff_not]; exact fun h => h.irrefl
    intro t m
    induction hn : μ m using Nat.strongRecOn generalizing t m with
    | _ n ih =>
      intro ht
      obtain ⟨t', m', ht', hlt⟩ := desc t m ht
      exact ih (μ m') (hn ▸ hμ m m' hlt) t' m' rfl ht'
  intro t
  cases h : InNotify (s.pc t) with
  | false => rfl
  | true =>
    obtain ⟨m, hm⟩ := waitBlocked_iff.mp (hall t h)
    exact absurd hm (none_blocked t m)

end Note
