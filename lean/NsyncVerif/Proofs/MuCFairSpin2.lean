import NsyncVerif.Proofs.MuCFairSpin
/-
  MuC, fair termination, step C: the owner of MU_SPINLOCK that faces a word nobody else changes leaves its spinlock
  region (outside the scan loop of unlock_slow) — weak fairness, no failing `remove_count` CAS.
-/
namespace NsyncVerif.MuC

variable {cfg : Cfg} {s0 : State}

/-- Weak fairness, with the interval in which the thread does not move. -/
theorem fair_rmove' (x : Exec cfg s0) (hf : WeakFair x) {t : Tid} {i : Nat}
    (h1 : (x.ρ i).pc t ≠ .idle) (h2 : ∀ c, (x.ρ i).pc t ≠ .lsPRet c) (h3 : ∀ c dl, (x.ρ i).pc t ≠ .mwPdRet c dl) :
    ∃ j, i ≤ j ∧ RMoves x t j ∧ ∀ j', i ≤ j' → j' < j → ¬ RMoves x t j' := by
  obtain ⟨j, hij, hm, _⟩ := fair_rmove x hf h1 h2 h3
  obtain ⟨d, rfl⟩ : ∃ d, j = i + d := ⟨j - i, by omega⟩
  exact first_rmove x d i hm

/-- `fair_exit` for a class of TIMES (the class may depend on the whole state) with a rank that steps of the others
    do not increase. -/
theorem fair_exit_t (x : Exec cfg s0) (hf : WeakFair x) (t : Tid) (R : Nat → Prop) (rk : Nat → Nat)
    (hR : ∀ j, R j → (x.ρ j).pc t ≠ .idle ∧ (∀ c, (x.ρ j).pc t ≠ .lsPRet c) ∧ (∀ c dl, (x.ρ j).pc t ≠ .mwPdRet c dl))
    (hstay : ∀ j, R j → ¬ RMoves x t j → R (j + 1) ∧ rk (j + 1) ≤ rk j)
    (hmove : ∀ j, R j → RMoves x t j → R (j + 1) → rk (j + 1) < rk j) :
    ∀ n i, rk i ≤ n → R i → ∃ j, i ≤ j ∧ R j ∧ RMoves x t j ∧ ¬ R (j + 1) := by
  have stay : ∀ i d, R i → (∀ j', i ≤ j' → j' < i + d → ¬ RMoves x t j') → R (i + d) ∧ rk (i + d) ≤ rk i := by
    intro i d
    induction d with
    | zero => intro h _; exact ⟨h, Nat.le_refl _⟩
    | succ d ih =>
      intro h hn
      obtain ⟨a, b⟩ := ih h (fun j' h1 h2 => hn j' h1 (by omega))
      obtain ⟨a', b'⟩ := hstay (i + d) a (hn (i + d) (by omega) (by omega))
      exact ⟨a', by rw [show i + (d + 1) = i + d + 1 by omega]; omega⟩
  intro n
  induction n with
  | zero =>
    intro i hn hc
    obtain ⟨a, b, c⟩ := hR _ hc
    obtain ⟨j, hij, hm, hno⟩ := fair_rmove' x hf a b c
    obtain ⟨d, rfl⟩ : ∃ d, j = i + d := ⟨j - i, by omega⟩
    obtain ⟨hcj, hrk⟩ := stay i d hc hno
    by_cases hc' : R (i + d + 1)
    · have := hmove _ hcj hm hc'; omega
    · exact ⟨i + d, hij, hcj, hm, hc'⟩
  | succ n ih =>
    intro i hn hc
    obtain ⟨a, b, c⟩ := hR _ hc
    obtain ⟨j, hij, hm, hno⟩ := fair_rmove' x hf a b c
    obtain ⟨d, rfl⟩ : ∃ d, j = i + d := ⟨j - i, by omega⟩
    obtain ⟨hcj, hrk⟩ := stay i d hc hno
    by_cases hc' : R (i + d + 1)
    · have := hmove _ hcj hm hc'
      obtain ⟨j2, h1, h2, h3, h4⟩ := ih (i + d + 1) (by omega) hc'
      exact ⟨j2, by omega, h2, h3, h4⟩
    · exact ⟨i + d, hij, hcj, hm, hc'⟩

variable {s s' : State} {e : Event} {t : Tid}

theorem own_usRelCas {r : Ret} {sc : Scan} {old : Word} (h3 : Inv3 s) (hs : step cfg s e = .ok s') (ht : e.tid = some t)
    (hd : e.isData = false) (hp : s.pc t = .usRelCas r sc old) :
    (s.word = old ∧ (s'.pc t).spin = false) ∨ (s.word ≠ old ∧ s'.pc t = .usRelLd r sc ∧ s'.word = s.word) := by
  have htc : sc.tc = true := by have := h3.ok3 t; rw [hp] at this; exact this
  cases e <;> simp only [Event.tid, Option.some.injEq, reduceCtorEq] at ht
  all_goals subst ht
  case cas t o loc exp new obs ok =>
    simp only [step, stepCas, hp] at hs
    rcases casWordE_ok hs with ⟨h, _, hs⟩ | ⟨h, _, rfl⟩
    · left; refine ⟨h, ?_⟩
      have := (scanRun_spin _ _ t r sc s' hs).1
      rw [this, htc]; rfl
    · right; exact ⟨h, by simp, by simp⟩
  all_goals first
    | (simp [Event.isData] at hd; done)
    | (simp [step, stepCall, stepRet, stepLd, stepSt, stepCond, hp] at hs)

/-- The rank of a program point of a spinlock region; `stale`: its `old_word` differs from the word. -/
def spinRk (p : PC) (stale : Bool) : Nat :=
  match p with
  | .lsSt _ => 6
  | .lsRelLd _ | .usRelLd _ _ | .usFinLd _ _ | .mwRelLd _ => 4
  | .lsRelCas _ _ | .usRelCas _ _ _ | .usFinCas _ _ _ | .mwRelCas _ _ _ => if stale then 5 else 3
  | .mtLdW _ _ => 9
  | .mtLdRc _ _ => 8
  | .mtRmLd _ _ => 6
  | .mtRmCas _ _ _ => 5
  | .mtStW _ _ => 4
  | .mtStRel _ _ _ => 3
  | _ => 0

def staleB (s : State) (p : PC) : Bool :=
  match p.casOld with
  | some old => decide (old ≠ s.word)
  | none => false

end NsyncVerif.MuC
