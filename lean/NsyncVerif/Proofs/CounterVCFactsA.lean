/- Proofs/CounterVCFactsA.lean — per-step facts for the vector-clock product, one lemma per program point (generated, uniform script). -/
import NsyncVerif.Proofs.CounterVC

namespace Counter

variable {s s' : State} {t : Tid} {e : Ev}

theorem vcfacts_idle  (hi : Inv s) (hpc : s.pc t = .idle) (h : stepThr s t e = .ok s') : VCFacts s t e s' := by
  vcfacts_open
  all_goals vcfacts_tac

theorem vcfacts_newMalloc {v} (hi : Inv s) (hpc : s.pc t = .newMalloc v) (h : stepThr s t e = .ok s') : VCFacts s t e s' := by
  vcfacts_open
  all_goals vcfacts_tac

theorem vcfacts_newStore {v} (hi : Inv s) (hpc : s.pc t = .newStore v) (h : stepThr s t e = .ok s') : VCFacts s t e s' := by
  vcfacts_open
  rename_i hc
  have hcr := hs.creating (Or.inl hc.2.2)
  all_goals vcfacts_tac

theorem vcfacts_newRet {ok} (hi : Inv s) (hpc : s.pc t = .newRet ok) (h : stepThr s t e = .ok s') : VCFacts s t e s' := by
  vcfacts_open
  all_goals vcfacts_tac

theorem vcfacts_fLockCall  (hi : Inv s) (hpc : s.pc t = .fLockCall) (h : stepThr s t e = .ok s') : VCFacts s t e s' := by
  vcfacts_open
  all_goals vcfacts_tac

theorem vcfacts_fLockWait  (hi : Inv s) (hpc : s.pc t = .fLockWait) (h : stepThr s t e = .ok s') : VCFacts s t e s' := by
  vcfacts_open
  all_goals vcfacts_tac

theorem vcfacts_fHeld  (hi : Inv s) (hpc : s.pc t = .fHeld) (h : stepThr s t e = .ok s') : VCFacts s t e s' := by
  vcfacts_open
  all_goals vcfacts_tac

theorem vcfacts_fUnlockWait  (hi : Inv s) (hpc : s.pc t = .fUnlockWait) (h : stepThr s t e = .ok s') : VCFacts s t e s' := by
  vcfacts_open
  all_goals vcfacts_tac

theorem vcfacts_fFree  (hi : Inv s) (hpc : s.pc t = .fFree) (h : stepThr s t e = .ok s') : VCFacts s t e s' := by
  vcfacts_open
  all_goals vcfacts_tac

theorem vcfacts_fRet  (hi : Inv s) (hpc : s.pc t = .fRet) (h : stepThr s t e = .ok s') : VCFacts s t e s' := by
  vcfacts_open
  all_goals vcfacts_tac

theorem vcfacts_valLoad  (hi : Inv s) (hpc : s.pc t = .valLoad) (h : stepThr s t e = .ok s') : VCFacts s t e s' := by
  vcfacts_open
  all_goals vcfacts_tac

theorem vcfacts_valRet {v} (hi : Inv s) (hpc : s.pc t = .valRet v) (h : stepThr s t e = .ok s') : VCFacts s t e s' := by
  vcfacts_open
  all_goals vcfacts_tac

theorem vcfacts_azLoad  (hi : Inv s) (hpc : s.pc t = .azLoad) (h : stepThr s t e = .ok s') : VCFacts s t e s' := by
  vcfacts_open
  all_goals vcfacts_tac

theorem vcfacts_azRet {v} (hi : Inv s) (hpc : s.pc t = .azRet v) (h : stepThr s t e = .ok s') : VCFacts s t e s' := by
  vcfacts_open
  all_goals vcfacts_tac

theorem vcfacts_aLockCall {d} (hi : Inv s) (hpc : s.pc t = .aLockCall d) (h : stepThr s t e = .ok s') : VCFacts s t e s' := by
  vcfacts_open
  all_goals vcfacts_tac

theorem vcfacts_aLockWait {d} (hi : Inv s) (hpc : s.pc t = .aLockWait d) (h : stepThr s t e = .ok s') : VCFacts s t e s' := by
  vcfacts_open
  all_goals vcfacts_tac

theorem vcfacts_aLoad {d} (hi : Inv s) (hpc : s.pc t = .aLoad d) (h : stepThr s t e = .ok s') : VCFacts s t e s' := by
  vcfacts_open
  all_goals vcfacts_tac

theorem vcfacts_aCas {d} {v} (hi : Inv s) (hpc : s.pc t = .aCas d v) (h : stepThr s t e = .ok s') : VCFacts s t e s' := by
  vcfacts_open
  all_goals vcfacts_tac

theorem vcfacts_aLoadWaited {d} {r} {idx} (hi : Inv s) (hpc : s.pc t = .aLoadWaited d r idx) (h : stepThr s t e = .ok s') : VCFacts s t e s' := by
  vcfacts_open
  all_goals vcfacts_tac

theorem vcfacts_aHeld {d} {r} {idx} {wake} (hi : Inv s) (hpc : s.pc t = .aHeld d r idx wake) (h : stepThr s t e = .ok s') : VCFacts s t e s' := by
  vcfacts_open
  all_goals vcfacts_tac

theorem vcfacts_aPost {d} {r} {idx} {k} (hi : Inv s) (hpc : s.pc t = .aPost d r idx k) (h : stepThr s t e = .ok s') : VCFacts s t e s' := by
  vcfacts_open
  all_goals vcfacts_tac

theorem vcfacts_aUnlockWait {d} {r} {idx} (hi : Inv s) (hpc : s.pc t = .aUnlockWait d r idx) (h : stepThr s t e = .ok s') : VCFacts s t e s' := by
  vcfacts_open
  all_goals vcfacts_tac

theorem vcfacts_aRet {d} {r} {idx} (hi : Inv s) (hpc : s.pc t = .aRet d r idx) (h : stepThr s t e = .ok s') : VCFacts s t e s' := by
  vcfacts_open
  all_goals vcfacts_tac

end Counter
