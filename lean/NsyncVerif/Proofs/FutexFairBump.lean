/-
  Futex layer (C12), fair termination: a lasso up to the ghost counters.

  The acceptor never reads `posts`, `takes`, `succRets`; adding `q` to each commutes with every
  step.  So a loop that takes a state `sf` to `bump 1 sf` can be repeated for ever.
-/
import NsyncVerif.Proofs.FutexFairTrace

namespace NsyncVerif.Futex

set_option linter.unusedSimpArgs false
set_option linter.unusedVariables false

/-- `q` more posts, takes and successful returns. -/
def bump (q : Nat) (s : State) : State :=
  { s with posts := s.posts + q, takes := s.takes + q, succRets := s.succRets + q }

theorem bump_zero (s : State) : bump 0 s = s := rfl

theorem bump_bump (a b : Nat) (s : State) : bump a (bump b s) = bump (b + a) s := by
  simp [bump, Nat.add_assoc]

def mapOk (f : State → State) : Except String State → Except String State
  | .ok s => .ok (f s)
  | .error m => .error m

theorem step_bump (q : Nat) (s : State) (e : Event) : step (bump q s) e = mapOk (bump q) (step s e) := by
  cases e
  case fwaitRet t r =>
    simp only [step, bump]
    split
    · cases r <;> rename_i k _ <;> cases k <;> simp only [apply_ite (mapOk _)] <;>
        simp only [mapOk, bump] <;> (try rfl)
    · rfl
  case tick ns => by_cases h : s.now ≤ ns <;> simp [step, bump, mapOk, h]
  all_goals
    simp only [step, bump] <;> (try split) <;>
    (try simp only [apply_ite (mapOk _)]) <;> (try simp only [mapOk, bump]) <;> (try rfl) <;>
    (try simp [Nat.add_assoc, Nat.add_comm, Nat.add_left_comm]) <;>
    (try (repeat' split)) <;> (try simp_all [Nat.add_assoc, Nat.add_comm, Nat.add_left_comm]) <;> (try omega)

theorem run_bump (q : Nat) : ∀ (evs : List Event) (s : State),
    run (bump q s) evs = mapOk (bump q) (run s evs) := by
  intro evs
  induction evs with
  | nil => intro s; rfl
  | cons e es ih =>
    intro s
    simp only [run, step_bump]
    cases step s e with
    | ok s1 => simp only [mapOk]; exact ih s1
    | error m => rfl

theorem div_mod_step {L m : Nat} (hL : 0 < L) (h : m % L + 1 < L) :
    (m + 1) / L = m / L ∧ (m + 1) % L = m % L + 1 := by
  have hm := Nat.div_add_mod m L
  have e : m + 1 = L * (m / L) + (m % L + 1) := by omega
  rw [e]
  exact ⟨by rw [Nat.mul_add_div hL, Nat.div_eq_of_lt h]; omega,
    by rw [Nat.mul_add_mod, Nat.mod_eq_of_lt h]⟩

theorem div_mod_wrap {L m : Nat} (hL : 0 < L) (h : m % L + 1 = L) :
    (m + 1) / L = m / L + 1 ∧ (m + 1) % L = 0 := by
  have hm := Nat.div_add_mod m L
  have e : m + 1 = L * (m / L + 1) + 0 := by rw [Nat.mul_succ]; omega
  rw [e]
  exact ⟨by rw [Nat.mul_add_div hL]; simp, by rw [Nat.mul_add_mod]; simp⟩

/-- `evs` from `s0`, then `loop` for ever, where `loop` takes the state `sf` reached by `evs` to
    `bump 1 sf`. -/
def bumpExec (s0 : State) (evs loop : List Event) (sf : State)
    (h : run s0 evs = .ok sf) (hl : run sf loop = .ok (bump 1 sf)) (hp : 0 < loop.length) : Exec s0 :=
  { ρ := fun i => if i < evs.length then stateFrom s0 (evs.take i)
                  else bump ((i - evs.length) / loop.length)
                    (stateFrom sf (loop.take ((i - evs.length) % loop.length)))
    σ := fun i => if i < evs.length then evs[i]? else loop[(i - evs.length) % loop.length]?
    start := by
      by_cases h0 : 0 < evs.length
      · simp [h0, stateFrom, run]
      · have : evs = [] := by cases evs <;> simp_all
        subst this; simp [run] at h; subst h
        simp [stateFrom, run, Nat.zero_div, bump_zero]
    next := by
      intro i
      have hsf0 : stateFrom sf (loop.take 0) = sf := by simp [stateFrom, run]
      by_cases hi : i < evs.length
      · have he : evs[i]? = some evs[i] := List.getElem?_eq_getElem hi
        simp only [hi, if_true, he]
        have hs := stateFrom_step h hi
        by_cases hi' : i + 1 < evs.length
        · simp only [hi', if_true]; exact hs
        · have : i + 1 - evs.length = 0 := by omega
          simp only [hi', if_false, this, Nat.zero_mod, Nat.zero_div, hsf0, bump_zero]
          rw [← stateFrom_all h (show evs.length ≤ i + 1 by omega)]; exact hs
      · have hi' : ¬ i + 1 < evs.length := by omega
        simp only [hi, hi', if_false]
        have hr : (i - evs.length) % loop.length < loop.length := Nat.mod_lt _ hp
        have he : loop[(i - evs.length) % loop.length]? = some loop[(i - evs.length) % loop.length] :=
          List.getElem?_eq_getElem hr
        simp only [he]
        have hs := stateFrom_step hl hr
        have hsucc : i + 1 - evs.length = (i - evs.length) + 1 := by omega
        rw [step_bump, hs, hsucc]
        simp only [mapOk]
        by_cases hwrap : (i - evs.length) % loop.length + 1 = loop.length
        · obtain ⟨a, b⟩ := div_mod_wrap (m := i - evs.length) hp hwrap
          rw [a, b, hsf0, hwrap, List.take_of_length_le (Nat.le_refl _)]
          have : stateFrom sf loop = bump 1 sf := by simp [stateFrom, hl]
          rw [this, bump_bump, Nat.add_comm]
        · obtain ⟨a, b⟩ := div_mod_step (m := i - evs.length) hp (by omega)
          rw [a, b] }

theorem bumpExec_tail {s0 : State} {evs loop : List Event} {sf : State}
    (h : run s0 evs = .ok sf) (hl : run sf loop = .ok (bump 1 sf)) (hp : 0 < loop.length) {j : Nat}
    (hj : evs.length ≤ j) :
    (bumpExec s0 evs loop sf h hl hp).ρ j =
      bump ((j - evs.length) / loop.length) (stateFrom sf (loop.take ((j - evs.length) % loop.length))) ∧
    (bumpExec s0 evs loop sf h hl hp).σ j = loop[(j - evs.length) % loop.length]? := by
  have : ¬ j < evs.length := by omega
  simp [bumpExec, this]

/-! ### helpers for concrete executions -/

theorem all_range {n : Nat} {p : Nat → Bool} (h : (List.range n).all p = true) {r : Nat} (hr : r < n) :
    p r = true := by
  simp only [List.all_eq_true, List.mem_range] at h
  exact h r hr

/-- In the final state of an accepted trace from `init` every thread `≥ b` is idle. -/
theorem final_idle_above {evs : List Event} {b : Nat} (hb : tidsBelow b evs = true)
    (hacc : acceptsFrom init evs = true) {t : Nat} (ht : b ≤ t) : (stateFrom init evs).pc t = .idle := by
  rw [untouched_of_tidsBelow hb (run_of_accepts hacc) ht]; rfl

theorem tidsBelow_take {b : Nat} {evs : List Event} (h : tidsBelow b evs = true) (r : Nat) :
    tidsBelow b (evs.take r) = true := by
  simp only [tidsBelow, List.all_eq_true] at h ⊢
  exact fun e he => h e (List.mem_of_mem_take he)

theorem setPc_apply (f : Tid → PC) (t u : Tid) (v : PC) : setPc f t v u = if u = t then v else f u := rfl

theorem pc3_ext {f g : Tid → PC} (h0 : f 0 = g 0) (h1 : f 1 = g 1) (h2 : f 2 = g 2)
    (h : ∀ t : Nat, 3 ≤ t → f t = g t) : f = g := by
  funext t
  by_cases a : t = 0
  · subst a; exact h0
  by_cases b : t = 1
  · subst b; exact h1
  by_cases c : t = 2
  · subst c; exact h2
  exact h t (by
    cases t with
    | zero => exact absurd rfl a
    | succ t => cases t with
      | zero => exact absurd rfl b
      | succ t => cases t with
        | zero => exact absurd rfl c
        | succ t => exact Nat.le_add_left 3 t)

theorem kernelDue_none {s : State} {t : Tid} (h : s.sleeper = none) : kernelDue s t = false := by
  unfold kernelDue; rw [h]; cases s.pc t <;> rfl

end NsyncVerif.Futex
