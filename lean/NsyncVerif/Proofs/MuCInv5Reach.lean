import NsyncVerif.Proofs.MuCInv5Api
/-
  MuC, MU_CONDITION hint in every reachable state.
-/
namespace NsyncVerif.MuC

theorem inv5_stepCas {s s' : State} {t : Tid} {o : Ord} {loc : Loc} {exp new obs : Nat} {ok : Bool}
    (h1 : Inv1 s) (h3 : Inv3 s) (h4 : Inv4 s) (h4' : Inv4 s') (h : Inv5 s)
    (hs : stepCas s t o loc exp new obs ok = .ok s') : Inv5 s' := by
  cases hpc : s.pc t <;>
    first
    | exact inv5_stepCasA h1 h3 h4 h4' h (by rw [hpc]; trivial) hs
    | exact inv5_stepCasB h (by rw [hpc]; trivial) hs
    | exact inv5_stepCasC h3 h4 h (by rw [hpc]; trivial) hs
    | (simp [stepCas, hpc] at hs)

theorem inv5_stepCall {s s' : State} {t : Tid} {a : Api} (h : Inv5 s)
    (hs : stepCall s t a = .ok s') : Inv5 s' := by
  unfold stepCall at hs
  split at hs
  · rename_i heq
    cases a <;> dsimp only at hs
    all_goals (repeat' split at hs)
    all_goals first
      | (cases hs; done)
      | (cases hs; inv5_local t h heq)
  · cases hs

theorem inv5_stepRet {s s' : State} {t : Tid} {a : Api} {res : Res} (h : Inv5 s)
    (hs : stepRet s t a res = .ok s') : Inv5 s' := by
  unfold stepRet at hs
  split at hs
  all_goals first
    | (cases hs; done)
    | (rename_i heq
       repeat' split at hs
       all_goals first
         | (cases hs; done)
         | (cases hs; inv5_local t h heq))
    | skip
  rename_i c cit cnd dl note o' heq
  repeat' split at hs
  all_goals first
    | (cases hs; done)
    | skip
  all_goals
    (cases hs
     cases hcw : c.w <;> simp only [dropW, setHeld] <;> inv5_local t h heq)

theorem inv5_stepCond {s s' : State} {t : Tid} {fn : CFn} {k : Nat} {res : Bool} (h1 : Inv1 s) (h4 : Inv4 s) (h4' : Inv4 s') (h : Inv5 s)
    (hs : stepCond s t fn k res = .ok s') : Inv5 s' := by
  unfold stepCond at hs
  dsimp only at hs
  split at hs
  · rename_i c heq
    repeat' split at hs
    all_goals first
      | (cases hs; done)
      | (cases hs; rw [mwLoop_eq]; simp only [loopPc]; split <;> inv5_local t h heq)
  · rename_i r sc heq
    have hok1 := h1.pcok t; rw [heq] at hok1
    repeat' split at hs
    all_goals first
      | (cases hs; done)
      | skip
    obtain ⟨hf, p, hpc, hsc⟩ := afterEval_frame hs hok1.2.1
    obtain ⟨hlo, hperm⟩ := afterEval_lists hs
    have hwk := afterEval_wake hs
    have hpt : ScanPc r sc.late (s'.pc t) := by rw [hpc]; simpa using hsc
    refine Inv5.scan_step t h h4' (fun x => (hlo x).2.2.2.2.1) (by rw [hf.word]; simp)
      (by intro u hu; rw [hpc]; simp [setFn, hu]) ?_ ?_ (by intro x hx; rw [heq] at hx; exact hwk x hx) (scanPc_mtOld hpt) (scanPc_limboC hpt)
    · refine hperm.trans ?_
      simp [allOf, heq, PC.priv, PC.scan?, PC.wakeL]
    · intro u hu
      cases e : (s.pc u).unl with
      | false => rfl
      | true => exact absurd (h4.uniq u t e (by rw [heq]; rfl)) hu
  · cases hs

theorem inv5_step {cfg : Cfg} {s s' : State} {e : Event} (h1 : Inv1 s) (h3 : Inv3 s) (h4 : Inv4 s) (h4' : Inv4 s') (h : Inv5 s)
    (hs : step cfg s e = .ok s') : Inv5 s' := by
  cases e with
  | call t a => exact inv5_stepCall h hs
  | ret t a res => exact inv5_stepRet h hs
  | ld t o loc obs => exact inv5_stepLd h hs
  | st t o loc new obs => exact inv5_stepSt h4 h hs
  | cas t o loc exp new obs ok => exact inv5_stepCas h1 h3 h4 h4' h hs
  | cond t fn k res => exact inv5_stepCond h1 h4 h4' h hs
  | semPEnter t k =>
    simp only [step] at hs
    split at hs
    · rename_i heq; ld_case5 t h heq hs
    · cases hs
  | semPRet t k =>
    simp only [step] at hs
    split at hs
    · rename_i heq; ld_case5 t h heq hs
    · cases hs
  | semPdEnter t k dl =>
    simp only [step] at hs
    split at hs
    · rename_i heq; ld_case5 t h heq hs
    · cases hs
  | semPdRet t k timedout =>
    simp only [step] at hs
    split at hs
    · rename_i heq; ld_case5 t h heq hs
    · cases hs
  | semV t k =>
    simp only [step] at hs
    split at hs
    · rename_i r k' rest heq
      split at hs
      · cases hs
      · cases hs
        rw [afterFin_eq]
        have hsc : ∀ x, (finPc r x).scan? = none := by intro x; cases x <;> cases r <;> rfl
        have hmto : ∀ x, (finPc r x).mtOld = none := by intro x; cases x <;> cases r <;> rfl
        have hlco : ∀ x, (finPc r x).limboC = none := by intro x; cases x <;> cases r <;> rfl
        refine Inv5.local t h ?_ (by intro x; simp [semPost, setFn]; split <;> simp_all) (by simp) (by intro u hu; simp [setFn, hu]) ?_ ?_
        · intro x hx
          refine (queued_same (t := t) (by simp) (by intro u hu; simp [setFn, hu]) ?_ x).1 hx
          simp only [semPost_pc, setPc_pc, setFn_same, heq]; rw [hsc]; rfl
        · intro o' ho; simp [hmto] at ho
        · intro x c hl; simp [hlco] at hl
    · cases hs
  | envV k =>
    simp only [step] at hs; cases hs
    exact h.env (by simp) (by intro x; simp [semPost, setFn]; split <;> simp_all) (by simp) (by simp)
  | envSem k n =>
    simp only [step] at hs
    split at hs
    · cases hs; exact h.env rfl (by intro x; simp [setFn]; split <;> simp_all) rfl rfl
    · cases hs
  | dataW t x v =>
    simp only [step] at hs
    split at hs
    · cases hs; exact h.env rfl (fun _ => rfl) rfl rfl
    · cases hs
  | dataR t x v =>
    simp only [step] at hs
    split at hs
    · cases hs; exact h
    · cases hs
  | tick n =>
    simp only [step] at hs
    split at hs
    · cases hs; exact h.env rfl (fun _ => rfl) rfl rfl
    · cases hs
  | noteSeen t =>
    simp only [step] at hs
    split at hs
    · rename_i heq; ld_case5 t h heq hs
    · cases hs
  | noteNotify t =>
    simp only [step] at hs
    split at hs
    · rename_i heq; ld_case5 t h heq hs
    · rename_i heq; ld_case5 t h heq hs
    · cases hs

theorem inv5_init : Inv5 init := by
  refine ⟨?_, ?_, ?_⟩
  · intro k hk; simp [Queued, init, PC.scan?] at hk
  · intro t o ho; simp [init, PC.mtOld] at ho
  · intro t k c hl; simp [init, PC.limboC] at hl

theorem reachable_inv1345 {cfg : Cfg} {s : State} (h : Reachable cfg s) : Inv1 s ∧ Inv3 s ∧ Inv4 s ∧ Inv5 s :=
  reachable_induction (P := fun s => Inv1 s ∧ Inv3 s ∧ Inv4 s ∧ Inv5 s) ⟨inv1_init, inv3_init, inv4_init, inv5_init⟩
    (fun _ _ _ _ hp hs =>
      have h4' := inv4_step hp.1 hp.2.1 hp.2.2.1 hs
      ⟨inv1_step hp.1 hs, inv3_step hp.1 hp.2.1 hs, h4', inv5_step hp.1 hp.2.1 hp.2.2.1 h4' hp.2.2.2 hs⟩) s h

theorem reachable_inv5 {cfg : Cfg} {s : State} (h : Reachable cfg s) : Inv5 s := (reachable_inv1345 h).2.2.2

end NsyncVerif.MuC
