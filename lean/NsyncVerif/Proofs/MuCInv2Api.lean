import NsyncVerif.Proofs.MuCInv2Cas
namespace NsyncVerif.MuC

theorem inv2_stepCas {s s' : State} {t : Tid} {o : Ord} {loc : Loc} {exp new obs : Nat} {ok : Bool} (h1 : Inv1 s) (h : Inv2 s)
    (hs : stepCas s t o loc exp new obs ok = .ok s') : Inv2 s' := by
  cases hpc : s.pc t <;>
    first
    | exact inv2_stepCasA h1 h (by rw [hpc]; trivial) hs
    | exact inv2_stepCasB h (by rw [hpc]; trivial) hs
    | exact inv2_stepCasC h (by rw [hpc]; trivial) hs
    | (simp [stepCas, hpc] at hs)

theorem inv2_stepCall {s s' : State} {t : Tid} {a : Api} (h : Inv2 s)
    (hs : stepCall s t a = .ok s') : Inv2 s' := by
  unfold stepCall at hs
  split at hs
  · rename_i heq
    cases a <;> dsimp only at hs
    all_goals (repeat' split at hs)
    all_goals first
      | (cases hs; done)
      | (cases hs; inv2_local t h heq)
  · cases hs

theorem inv2_stepRet {s s' : State} {t : Tid} {a : Api} {res : Res} (h : Inv2 s)
    (hs : stepRet s t a res = .ok s') : Inv2 s' := by
  unfold stepRet at hs
  split at hs
  all_goals first
    | (cases hs; done)
    | (rename_i heq
       repeat' split at hs
       all_goals first
         | (cases hs; done)
         | (cases hs; inv2_local t h heq))

theorem inv2_stepCond {s s' : State} {t : Tid} {fn : CFn} {k : Nat} {res : Bool} (h1 : Inv1 s) (h : Inv2 s)
    (hs : stepCond s t fn k res = .ok s') : Inv2 s' := by
  unfold stepCond at hs
  dsimp only at hs
  split at hs
  · rename_i c heq
    repeat' split at hs
    all_goals first
      | (cases hs; done)
      | (cases hs; inv2_local t h heq)
  · rename_i r sc heq
    have hok0 := h1.pcok t; rw [heq] at hok0
    repeat' split at hs
    all_goals first
      | (cases hs; done)
      | skip
    obtain ⟨hf, p, hpc, hsc⟩ := afterEval_frame hs hok0.2.1
    exact Inv2.scan (late := sc.late) t h hf.data hf.now (by intro u hu; rw [hpc]; simp [setFn, hu])
      (by rw [heq]; rfl) (by rw [hpc]; simpa using hsc)
  · cases hs

theorem TimeOk.mono {now n : Int} {c : MW} (h : TimeOk now c) (hn : now ≤ n) : TimeOk n c := by
  obtain ⟨h1, h2⟩ := h
  refine ⟨fun e => ?_, fun e => ?_⟩
  · obtain ⟨d, hd, hle⟩ := h1 e; exact ⟨d, hd, Int.le_trans hle hn⟩
  · obtain ⟨d, hd, hle⟩ := h2 e; exact ⟨d, hd, Int.le_trans hle hn⟩

theorem inv2_step {cfg : Cfg} {s s' : State} {e : Event} (h1 : Inv1 s) (h : Inv2 s)
    (hs : step cfg s e = .ok s') : Inv2 s' := by
  cases e with
  | call t a => exact inv2_stepCall h hs
  | ret t a res => exact inv2_stepRet h hs
  | ld t o loc obs => exact inv2_stepLd h hs
  | st t o loc new obs => exact inv2_stepSt h hs
  | cas t o loc exp new obs ok => exact inv2_stepCas h1 h hs
  | cond t fn k res => exact inv2_stepCond h1 h hs
  | semPEnter t k =>
    simp only [step] at hs
    split at hs
    · rename_i heq; ld_case2 t h heq hs
    · cases hs
  | semPRet t k =>
    simp only [step] at hs
    split at hs
    · rename_i heq; ld_case2 t h heq hs
    · cases hs
  | semPdEnter t k dl =>
    simp only [step] at hs
    split at hs
    · rename_i heq; ld_case2 t h heq hs
    · cases hs
  | semPdRet t k timedout =>
    simp only [step] at hs
    split at hs
    · rename_i heq; ld_case2 t h heq hs
    · cases hs
  | semV t k =>
    simp only [step] at hs
    split at hs
    · rename_i r k' rest heq
      split at hs
      · cases hs
      · cases hs
        rw [afterFin_eq]
        have hok := h t; rw [heq] at hok
        refine Inv2.local t h (by simp) (by simp) (by intro u hu; simp [setFn, hu]) ?_
        simp only [semPost_pc, setPc_pc, setFn_same]
        cases rest <;> cases r <;> simp_all [finPc, Ret.pc, PC.ok2, PC.mw, Ret.mw?]
    · cases hs
  | envV k =>
    simp only [step] at hs; cases hs
    exact h
  | envSem k n =>
    simp only [step] at hs
    split at hs
    · cases hs; exact h
    · cases hs
  | dataW t x v =>
    simp only [step] at hs
    split at hs
    · rename_i hheld
      cases hs
      intro u
      refine ⟨(h u).1, ?_⟩
      intro c cit hpc
      -- `u` is about to return holding its share, so `t ≠ u` cannot hold the mutex in write mode
      have hshu : shareOf s u ≠ none := by
        rw [h1.share_eq (by rw [show s.pc u = PC.mwRet c cit from hpc]; simp), show s.pc u = PC.mwRet c cit from hpc]
        simp [pcShare]
      have hsht : shareOf s t = some .W := by simp [shareOf, tshare, hheld]
      have hut := h1.lock.writer_alone hsht hshu
      subst hut
      have := h1.hidle u (by rw [hheld]; simp)
      rw [show s.pc u = PC.mwRet c cit from hpc] at this; cases this
    · cases hs
  | dataR t x v =>
    simp only [step] at hs
    split at hs
    · cases hs; exact h
    · cases hs
  | tick n =>
    simp only [step] at hs
    split at hs
    · rename_i hle
      cases hs
      intro u
      exact ⟨fun c hc => ((h u).1 c hc).mono hle, (h u).2⟩
    · cases hs
  | noteSeen t =>
    simp only [step] at hs
    split at hs
    · rename_i heq; ld_case2 t h heq hs
    · cases hs
  | noteNotify t =>
    simp only [step] at hs
    split at hs
    · rename_i heq; ld_case2 t h heq hs
    · rename_i heq; ld_case2 t h heq hs
    · cases hs

theorem inv2_init : Inv2 init := by
  intro t; simp [init, PC.ok2, PC.mw]

theorem reachable_inv12 {cfg : Cfg} {s : State} (h : Reachable cfg s) : Inv1 s ∧ Inv2 s :=
  reachable_induction (P := fun s => Inv1 s ∧ Inv2 s) ⟨inv1_init, inv2_init⟩
    (fun _ _ _ _ hp hs => ⟨inv1_step hp.1 hs, inv2_step hp.1 hp.2 hs⟩) s h

theorem reachable_inv2 {cfg : Cfg} {s : State} (h : Reachable cfg s) : Inv2 s := (reachable_inv12 h).2

end NsyncVerif.MuC
