/-
  Layer `Once`: invariant preservation for the loads of the once word, part 2
  (reload after a failed CAS once.c:70, wait-loop load once.c:87).
-/
import NsyncVerif.Proofs.OnceInv

namespace Once

theorem inv_ld_reload {cfg s t f obs} (hi : Inv cfg s) (hp : s.pc t = .casReload f)
    (hobs : obs = s.word f.o) : Inv cfg (s.setPc t (afterLoc f obs)) := by
  inv_finish

theorem inv_ld_wait {cfg s t f obs} (hi : Inv cfg s) (hp : s.pc t = .waitLd f)
    (hobs : obs = s.word f.o) :
    Inv cfg (s.setPc t
      (if obs = 2 then (if f.blocking then .fUnlockCall f else .readyRet f)
       else (if f.blocking then .cvWaitCall f else .waitLd f))) := by
  inv_finish

end Once
