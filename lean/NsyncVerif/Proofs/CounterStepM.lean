/-
  Proofs/CounterStepM.lean — invariant preservation for nsync_counter_new's store and the add CAS
  (the two steps that extend the value history).
-/
import NsyncVerif.Proofs.CounterStepBase
namespace Counter
variable {s s' : State} {t : Tid} {e : Ev}

theorem sums_ne_nil (a : Int) (ds : List Int) : sums a ds ≠ [] := by
  cases ds <;> simp [sums]

theorem sums_append (a : Int) (ds : List Int) (d x : Int) (h : (sums a ds).getLast? = some x) :
    sums a (ds ++ [d]) = sums a ds ++ [x + d] := by
  induction ds generalizing a with
  | nil => simp [sums] at h ⊢; omega
  | cons c cs ih =>
    simp only [sums, List.cons_append] at h ⊢
    rw [List.getLast?_cons_of_ne_nil (sums_ne_nil _ _)] at h
    rw [ih _ h]

theorem wrapAdd_eq {v : Nat} {d : Int} (h1 : ¬ ((v : Int) + d < 0)) (h2 : ¬ ((two32 : Int) ≤ (v : Int) + d)) :
    ((wrapAdd v d : Nat) : Int) = (v : Int) + d := by
  unfold wrapAdd
  have : ((v : Int) + d) % (two32 : Int) = (v : Int) + d := Int.emod_eq_of_lt (by omega) (by omega)
  rw [this]; omega

theorem inv_newStore {v} (hi : Inv s) (hpc : s.pc t = .newStore v) (h : stepThr s t e = .ok s') : Inv s' := by
  step_open
  all_goals first | (show ShInv _; shinv_tac) | (show pcInv _ _ _; pcinv_tac) | (show ∀ u, _; rely_tac)
  rename_i hc
  intro _
  have := q10 (q11 (Or.inl hc.2.2))
  simp [this, sums]

theorem hsum_append {hist : List Nat} {init : Nat} {deltas : List Int} {value new : Nat} {d : Int}
    (hl : hist.getLast? = some value) (hs : hist.map (fun (n : Nat) => (n : Int)) = sums init deltas)
    (hn : (new : Int) = (value : Int) + d) :
    (hist ++ [new]).map (fun (n : Nat) => (n : Int)) = sums init (deltas ++ [d]) := by
  have h1 : (sums (init : Int) deltas).getLast? = some (value : Int) := by
    rw [← hs, List.getLast?_map, hl]; rfl
  rw [sums_append _ _ _ _ h1, List.map_append, hs]; simp [hn]

theorem addGhost_append {hist : List Nat} {value new : Nat} {d : Int}
    (hl : hist.getLast? = some value) (hn : (new : Int) = (value : Int) + d) :
    addGhost (hist ++ [new]) d new hist.length := by
  refine ⟨by simp, ?_⟩
  cases hist with
  | nil => simp at hl
  | cons x xs =>
    refine ⟨xs.length, value, by simp, ?_, hn⟩
    rw [List.getLast?_eq_getElem?] at hl
    simp only [List.length_cons, Nat.add_sub_cancel] at hl
    exact getElem?_append_some hl

theorem inv_aCas {d v} (hi : Inv s) (hpc : s.pc t = .aCas d v) (h : stepThr s t e = .ok s') : Inv s' := by
  step_open
  all_goals first | (show ShInv _; shinv_tac) | (show pcInv _ _ _; pcinv_tac) | (show ∀ u, _; rely_tac)
  all_goals rename_i h5 h4 h3 h2 h1 h0
  all_goals obtain ⟨c1, c2, c3, c4⟩ := h5
  all_goals subst c4
  all_goals have hv : v = s.sh.value := by simp at h4; omega
  all_goals have hn := wrapAdd_eq h3 h2
  all_goals rw [← c2, hv] at hn
  all_goals first
    | (intro _; exact hsum_append (q8 hp.2.1) (q9 hp.2.1) hn)
    | (refine ⟨hp.1, addGhost_append (q8 hp.2.1) hn, ?_⟩; simp [hp.2.2.2])
    | (intro hw hz; dsimp only; rw [hz] at hn hv; subst hv
       have : d = 0 := by
         rcases Int.lt_trichotomy d 0 with h | h | h
         · omega
         · exact h
         · exact absurd ⟨rfl, h, hw⟩ h1
       omega)
    | skip

end Counter
