/-
  Layer `Note`, fair termination: every own step of a thread inside a leaf call decreases its
  rank (`own_step`), with one exception: the load that finds the flag unset in the wait loop of
  `nsync_wait_n`.
-/
import NsyncVerif.Proofs.NoteFairRank

set_option linter.unusedSimpArgs false

namespace Note

/-- What an own step does to the rank. -/
def Good (s s' : State) (t : Tid) : Prop :=
  s'.pc t = .idle ∨ LexLt (rank s' t) (rank s t) ∨
    ∃ n nt r wdl, s.pc t = .dl .ld1 n nt (.ready2 r wdl) ∧ (s.notes n).notified = false

theorem freeLoopStartPc_leaf {cs : List NoteId} {n : NoteId} {par : Option NoteId}
    (h : (freeLoopStartPc cs n par).inChildLoop = false) :
    freeLoopStartPc cs n par = .fr .waitCall n par 0 none := by
  cases cs with
  | nil => rfl
  | cons c cs => simp [freeLoopStartPc, PC.inChildLoop] at h

theorem childLoopStartPc_leaf {cs : List NoteId} {f : Frame} {rest : List Frame} {top : Top}
    (h : (childLoopStartPc cs f rest top).inChildLoop = false) :
    childLoopStartPc cs f rest top = .chd .waitCall (f :: rest) top := by
  cases cs with
  | nil => rfl
  | cons c cs => simp [childLoopStartPc, PC.inChildLoop] at h

theorem chd_leaf_rest {p : CPos} {f : Frame} {rest : List Frame} {top : Top}
    (h : (PC.chd p (f :: rest) top).inChildLoop = false) : rest = [] := by
  cases rest with
  | nil => rfl
  | cons g r => simp [PC.inChildLoop] at h

theorem childLoopStartPc_nil {cs : List NoteId} {f : Frame} {rest : List Frame} {top : Top}
    (h : (childLoopStartPc cs f rest top).inChildLoop = false) : cs = [] := by
  cases cs with
  | nil => rfl
  | cons c cs => simp [childLoopStartPc, PC.inChildLoop] at h

theorem freeLoopStartPc_nil {cs : List NoteId} {n : NoteId} {par : Option NoteId}
    (h : (freeLoopStartPc cs n par).inChildLoop = false) : cs = [] := by
  cases cs with
  | nil => rfl
  | cons c cs => simp [freeLoopStartPc, PC.inChildLoop] at h

theorem lex_fst {a b x y : Nat} (h : a < b) : LexLt (a, x) (b, y) := Or.inl h

/-- The next position of the wake loop. -/
theorem wakeNext_rank (s1 : State) (t : Tid) (f : Frame) (top : Top)
    (hl' : (childWakeNextPc s1 f [] top).inChildLoop = false) :
    mj (childWakeNextPc s1 f [] top) < 7 + top.k.after ∨
    (mj (childWakeNextPc s1 f [] top) = 7 + top.k.after ∧
      mn (childWakeNext s1 t f [] top) (childWakeNextPc s1 f [] top) + 1 =
        2 * (s1.notes f.note).waiters.length) := by
  unfold childWakeNextPc at hl' ⊢
  cases hw : (s1.notes f.note).waiters with
  | nil =>
    left
    simp only [hw] at hl' ⊢
    rw [childLoopStartPc_leaf hl']
    simp [mj, CPos.rk]
  | cons r ws =>
    right
    simp only [hw]
    refine ⟨by simp [mj, CPos.rk], ?_⟩
    simp [mn, hw]
    omega

macro "rk_simp" : tactic => `(tactic| (
  simp only [Good, rank, setPc_pc, upd_same, afterDeadline_pc, afterNotify_pc, childReturn_pc,
    childWakeNext_pc, childScanStart_pc, freeLoopStart_pc, enterChild_pc, leave_pc, addUser_pc,
    markCalled_pc, markFreeing_pc, setAfter_pc, pushObs_pc, publish_pc, delUser_pc, modRec_pc,
    modNote_pc, markBorn_pc, setNow_pc, allocNote_pc, acquire_pc, release_pc, incDisc_pc,
    decDisc_pc, setWaiters_pc, setAdopted_pc, setExpiry_pc, setNotified_pc, markFreed_pc,
    eraseChild_pc, clearParent_pc, link_pc, unlink_pc, newExpiry_pc] at *))

macro "rk_dec" : tactic => `(tactic| (
  right; left; left
  simp [*, mj, mn, DPos.rk, NPos.rk, CPos.rk, NewPos.rk, FPos.rk, W0Pos.rk, WPos.rk, DK.after,
    NK.after]))

macro "rk_loop" : tactic => `(tactic| (
  exfalso; simp_all [PC.inChildLoop]))

theorem own_lockRet {s s' : State} {t : Tid}  (hs : step s (.lockRet t) = .ok s')
    (hp : s.pc t ≠ .idle)
    (hl : (s.pc t).inChildLoop = false) (hl' : (s'.pc t).inChildLoop = false) :
    Good s s' t := by
  step_cases hs
  all_goals rk_simp
  all_goals (try (rk_dec; done))
  all_goals (try (rk_loop; done))
  all_goals (try (rw [freeLoopStartPc_leaf hl']; rk_dec; done))
  all_goals (try (rw [childLoopStartPc_leaf hl']; rk_dec; done))

theorem own_lockCall {s s' : State} {t : Tid} {k : NoteId} (hs : step s (.lockCall t k) = .ok s')
    (hp : s.pc t ≠ .idle)
    (hl : (s.pc t).inChildLoop = false) (hl' : (s'.pc t).inChildLoop = false) :
    Good s s' t := by
  step_cases hs
  all_goals rk_simp
  all_goals (try (rk_dec; done))
  all_goals (try (rk_loop; done))
  all_goals (try (rw [freeLoopStartPc_leaf hl']; rk_dec; done))
  all_goals (try (rw [childLoopStartPc_leaf hl']; rk_dec; done))

theorem own_unlockCall {s s' : State} {t : Tid} {k : NoteId} (hs : step s (.unlockCall t k) = .ok s')
    (hp : s.pc t ≠ .idle)
    (hl : (s.pc t).inChildLoop = false) (hl' : (s'.pc t).inChildLoop = false) :
    Good s s' t := by
  step_cases hs
  all_goals rk_simp
  all_goals (try (rk_dec; done))
  all_goals (try (rk_loop; done))
  all_goals (try (rw [freeLoopStartPc_leaf hl']; rk_dec; done))
  all_goals (try (rw [childLoopStartPc_leaf hl']; rk_dec; done))

theorem own_unlockRet {s s' : State} {t : Tid}  (hs : step s (.unlockRet t) = .ok s')
    (hp : s.pc t ≠ .idle)
    (hl : (s.pc t).inChildLoop = false) (hl' : (s'.pc t).inChildLoop = false) :
    Good s s' t := by
  step_cases hs
  all_goals rk_simp
  all_goals (try (rk_dec; done))
  all_goals (try (rk_loop; done))
  all_goals (try (rw [freeLoopStartPc_leaf hl']; rk_dec; done))
  all_goals (try (rw [childLoopStartPc_leaf hl']; rk_dec; done))
  · right; left; rw [‹s.pc t = _›]
    simp only [mn_afterDeadlinePc]
    exact lex_fst (mj_after_lt_dl _ _ _ _ _ (by decide))
  · right; left; rw [‹s.pc t = _›]
    exact lex_fst (mj_afterNotify_lt _ _ _)

theorem own_tryCall {s s' : State} {t : Tid} {k : NoteId} (hs : step s (.tryCall t k) = .ok s')
    (hp : s.pc t ≠ .idle)
    (hl : (s.pc t).inChildLoop = false) (hl' : (s'.pc t).inChildLoop = false) :
    Good s s' t := by
  step_cases hs
  all_goals rk_simp
  all_goals (try (rk_dec; done))
  all_goals (try (rk_loop; done))
  all_goals (try (rw [freeLoopStartPc_leaf hl']; rk_dec; done))
  all_goals (try (rw [childLoopStartPc_leaf hl']; rk_dec; done))

theorem own_tryRet {s s' : State} {t : Tid} {ok : Bool} (hs : step s (.tryRet t ok) = .ok s')
    (hp : s.pc t ≠ .idle)
    (hl : (s.pc t).inChildLoop = false) (hl' : (s'.pc t).inChildLoop = false) :
    Good s s' t := by
  step_cases hs
  all_goals rk_simp
  all_goals (try (rk_dec; done))
  all_goals (try (rk_loop; done))
  all_goals (try (rw [freeLoopStartPc_leaf hl']; rk_dec; done))
  all_goals (try (rw [childLoopStartPc_leaf hl']; rk_dec; done))

theorem own_waitCall {s s' : State} {t : Tid} {k : NoteId} (hs : step s (.waitCall t k) = .ok s')
    (hp : s.pc t ≠ .idle)
    (hl : (s.pc t).inChildLoop = false) (hl' : (s'.pc t).inChildLoop = false) :
    Good s s' t := by
  step_cases hs
  all_goals rk_simp
  all_goals (try (rk_dec; done))
  all_goals (try (rk_loop; done))
  all_goals (try (rw [freeLoopStartPc_leaf hl']; rk_dec; done))
  all_goals (try (rw [childLoopStartPc_leaf hl']; rk_dec; done))
  all_goals (simp only [‹(s.notes k).waitDone = true›] at *; rk_dec)

theorem own_waitRet {s s' : State} {t : Tid}  (hs : step s (.waitRet t) = .ok s')
    (hp : s.pc t ≠ .idle)
    (hl : (s.pc t).inChildLoop = false) (hl' : (s'.pc t).inChildLoop = false) :
    Good s s' t := by
  step_cases hs
  all_goals rk_simp
  all_goals (try (rk_dec; done))
  all_goals (try (rk_loop; done))
  all_goals (try (rw [freeLoopStartPc_leaf hl']; rk_dec; done))
  all_goals (try (rw [childLoopStartPc_leaf hl']; rk_dec; done))
  · obtain rfl := chd_leaf_rest (by rw [‹s.pc t = _›] at hl; exact hl)
    right; left; rw [‹s.pc t = _›]
    simp only [mn_childReturnPc]
    refine lex_fst (Nat.lt_of_le_of_lt (mj_childReturnPc _ _) ?_)
    subst_vars; simp [mj, CPos.rk]
  · have := childLoopStartPc_nil hl'
    simp only [acquire_f_children] at this
    exact absurd this ‹_›
  · have := freeLoopStartPc_nil hl'
    simp only [acquire_f_children] at this
    exact absurd this ‹_›

theorem own_ld {s s' : State} {t : Tid} {site : Site} {ord : Ord} {k : NoteId} {obs : Nat} (hs : step s (.ld t site ord k obs) = .ok s')
    (hp : s.pc t ≠ .idle)
    (hl : (s.pc t).inChildLoop = false) (hl' : (s'.pc t).inChildLoop = false) :
    Good s s' t := by
  step_cases hs
  all_goals rk_simp
  all_goals (try (rk_dec; done))
  all_goals (try (rk_loop; done))
  all_goals (try (rw [freeLoopStartPc_leaf hl']; rk_dec; done))
  all_goals (try (rw [childLoopStartPc_leaf hl']; rk_dec; done))
  · right; left; rw [‹s.pc t = _›]
    simp only [mn_afterDeadlinePc]
    exact lex_fst (mj_ld1_flag _ _ _)
  · rename_i n nt dk _ _ _ _ _ _
    cases dk with
    | ready2 r wdl => right; right; exact ⟨_, _, _, _, ‹s.pc t = _›, by simpa using ‹¬ (s.notes n).notified = true›⟩
    | _ => rk_dec
  · obtain rfl := chd_leaf_rest (by rw [‹s.pc t = _›] at hl; exact hl)
    right; left; rw [‹s.pc t = _›]
    simp only [mn_childReturnPc]
    refine lex_fst (Nat.lt_of_le_of_lt (mj_childReturnPc _ _) ?_)
    simp [mj, CPos.rk]

theorem own_stNote {s s' : State} {t : Tid} {site : Site} {ord : Ord} {k : NoteId} {new obs : Nat} (hs : step s (.stNote t site ord k new obs) = .ok s')
    (hp : s.pc t ≠ .idle)
    (hl : (s.pc t).inChildLoop = false) (hl' : (s'.pc t).inChildLoop = false) :
    Good s s' t := by
  step_cases hs
  all_goals rk_simp
  all_goals (try (rk_dec; done))
  all_goals (try (rk_loop; done))
  all_goals (try (rw [freeLoopStartPc_leaf hl']; rk_dec; done))
  all_goals (try (rw [childLoopStartPc_leaf hl']; rk_dec; done))
  · obtain rfl := chd_leaf_rest (by rw [‹s.pc t = _›] at hl; exact hl)
    right; left; rw [‹s.pc t = _›]
    rcases wakeNext_rank (s.setNotified k) t _ _ hl' with h | ⟨h, _⟩
    · exact lex_fst (Nat.lt_trans h (by simp [mj, CPos.rk]))
    · exact lex_fst (by rw [h]; simp [mj, CPos.rk])

theorem own_stW {s s' : State} {t : Tid} {site : Site} {ord : Ord} {r : Rid} {new obs : Nat} (hs : step s (.stW t site ord r new obs) = .ok s')
    (hp : s.pc t ≠ .idle)
    (hl : (s.pc t).inChildLoop = false) (hl' : (s'.pc t).inChildLoop = false) :
    Good s s' t := by
  step_cases hs
  all_goals rk_simp
  all_goals (try (rk_dec; done))
  all_goals (try (rk_loop; done))
  all_goals (try (rw [freeLoopStartPc_leaf hl']; rk_dec; done))
  all_goals (try (rw [childLoopStartPc_leaf hl']; rk_dec; done))
  · right; left; rw [‹s.pc t = _›]
    right
    exact ⟨by simp [mj, CPos.rk], by simp [mn]⟩

theorem own_ret {s s' : State} {t : Tid} {r : ApiRet} (hs : step s (.ret t r) = .ok s')
    (hp : s.pc t ≠ .idle)
    (hl : (s.pc t).inChildLoop = false) (hl' : (s'.pc t).inChildLoop = false) :
    Good s s' t := by
  step_cases hs
  all_goals rk_simp
  all_goals (try (rk_dec; done))
  all_goals (try (rk_loop; done))
  all_goals (try (rw [freeLoopStartPc_leaf hl']; rk_dec; done))
  all_goals (try (rw [childLoopStartPc_leaf hl']; rk_dec; done))

theorem own_waitnCall {s s' : State} {t : Tid} {d : Dl} (hs : step s (.waitnCall t d) = .ok s')
    (hp : s.pc t ≠ .idle)
    (hl : (s.pc t).inChildLoop = false) (hl' : (s'.pc t).inChildLoop = false) :
    Good s s' t := by
  step_cases hs
  all_goals rk_simp
  all_goals (try (rk_dec; done))
  all_goals (try (rk_loop; done))
  all_goals (try (rw [freeLoopStartPc_leaf hl']; rk_dec; done))
  all_goals (try (rw [childLoopStartPc_leaf hl']; rk_dec; done))

theorem own_waitnRet {s s' : State} {t : Tid} {rd : Nat} (hs : step s (.waitnRet t rd) = .ok s')
    (hp : s.pc t ≠ .idle)
    (hl : (s.pc t).inChildLoop = false) (hl' : (s'.pc t).inChildLoop = false) :
    Good s s' t := by
  step_cases hs
  all_goals rk_simp
  all_goals (try (rk_dec; done))
  all_goals (try (rk_loop; done))
  all_goals (try (rw [freeLoopStartPc_leaf hl']; rk_dec; done))
  all_goals (try (rw [childLoopStartPc_leaf hl']; rk_dec; done))

theorem own_now {s s' : State} {t : Tid} {v : Nat} (hs : step s (.now t v) = .ok s')
    (hp : s.pc t ≠ .idle)
    (hl : (s.pc t).inChildLoop = false) (hl' : (s'.pc t).inChildLoop = false) :
    Good s s' t := by
  step_cases hs
  all_goals rk_simp
  all_goals (try (rk_dec; done))
  all_goals (try (rk_loop; done))
  all_goals (try (rw [freeLoopStartPc_leaf hl']; rk_dec; done))
  all_goals (try (rw [childLoopStartPc_leaf hl']; rk_dec; done))
  · right; left; rw [‹s.pc t = _›]
    simp only [mn_afterDeadlinePc]
    exact lex_fst (mj_after_lt_dl _ _ _ _ _ (by decide))

theorem own_semV {s s' : State} {t : Tid} {sem : Nat} (hs : step s (.semV t sem) = .ok s')
    (hp : s.pc t ≠ .idle)
    (hl : (s.pc t).inChildLoop = false) (hl' : (s'.pc t).inChildLoop = false) :
    Good s s' t := by
  step_cases hs
  all_goals rk_simp
  all_goals (try (rk_dec; done))
  all_goals (try (rk_loop; done))
  all_goals (try (rw [freeLoopStartPc_leaf hl']; rk_dec; done))
  all_goals (try (rw [childLoopStartPc_leaf hl']; rk_dec; done))
  · obtain rfl := chd_leaf_rest (by rw [‹s.pc t = _›] at hl; exact hl)
    right; left; rw [‹s.pc t = _›]
    rcases wakeNext_rank _ t _ _ hl' with h | ⟨h, h2⟩
    · exact lex_fst (Nat.lt_of_lt_of_le h (by simp [mj, CPos.rk]))
    · right
      refine ⟨by rw [h]; simp [mj, CPos.rk], ?_⟩
      simp only [modRec_notes] at h2
      show _ < 2 * (s.notes _).waiters.length
      omega

theorem own_pdEnter {s s' : State} {t : Tid} {sem : Nat} {d : Dl} (hs : step s (.pdEnter t sem d) = .ok s')
    (hp : s.pc t ≠ .idle)
    (hl : (s.pc t).inChildLoop = false) (hl' : (s'.pc t).inChildLoop = false) :
    Good s s' t := by
  step_cases hs
  all_goals rk_simp
  all_goals (try (rk_dec; done))
  all_goals (try (rk_loop; done))
  all_goals (try (rw [freeLoopStartPc_leaf hl']; rk_dec; done))
  all_goals (try (rw [childLoopStartPc_leaf hl']; rk_dec; done))

theorem own_pdRet {s s' : State} {t : Tid} {sem : Nat} {b : Bool} (hs : step s (.pdRet t sem b) = .ok s')
    (hp : s.pc t ≠ .idle)
    (hl : (s.pc t).inChildLoop = false) (hl' : (s'.pc t).inChildLoop = false) :
    Good s s' t := by
  step_cases hs
  all_goals rk_simp
  all_goals (try (rk_dec; done))
  all_goals (try (rk_loop; done))
  all_goals (try (rw [freeLoopStartPc_leaf hl']; rk_dec; done))
  all_goals (try (rw [childLoopStartPc_leaf hl']; rk_dec; done))

theorem own_malloc {s s' : State} {t : Tid} {res : Option NoteId} (hs : step s (.malloc t res) = .ok s')
    (hp : s.pc t ≠ .idle)
    (hl : (s.pc t).inChildLoop = false) (hl' : (s'.pc t).inChildLoop = false) :
    Good s s' t := by
  step_cases hs
  all_goals rk_simp
  all_goals (try (rk_dec; done))
  all_goals (try (rk_loop; done))
  all_goals (try (rw [freeLoopStartPc_leaf hl']; rk_dec; done))
  all_goals (try (rw [childLoopStartPc_leaf hl']; rk_dec; done))

theorem own_free {s s' : State} {t : Tid} {k : NoteId} (hs : step s (.free t k) = .ok s')
    (hp : s.pc t ≠ .idle)
    (hl : (s.pc t).inChildLoop = false) (hl' : (s'.pc t).inChildLoop = false) :
    Good s s' t := by
  step_cases hs
  all_goals rk_simp
  all_goals (try (rk_dec; done))
  all_goals (try (rk_loop; done))
  all_goals (try (rw [freeLoopStartPc_leaf hl']; rk_dec; done))
  all_goals (try (rw [childLoopStartPc_leaf hl']; rk_dec; done))

/-- Every own step of a thread inside a leaf call decreases its rank, or is the return, or is the
    load of the wait loop that finds the flag unset. -/
theorem own_step {s s' : State} {e : Event} {t : Tid} (hs : step s e = .ok s')
    (ha : e.actor = some t) (hp : s.pc t ≠ .idle)
    (hl : (s.pc t).inChildLoop = false) (hl' : (s'.pc t).inChildLoop = false) : Good s s' t := by
  cases e <;> simp only [Event.actor, Option.some.injEq, reduceCtorEq] at ha <;> subst ha
  · exfalso
    cases hpc : s.pc _ with
    | idle => exact hp hpc
    | _ => simp [step, hpc] at hs
  · exact own_ret hs hp hl hl'
  · exact own_ld hs hp hl hl'
  · exact own_stNote hs hp hl hl'
  · exact own_stW hs hp hl hl'
  · exact own_lockCall hs hp hl hl'
  · exact own_lockRet hs hp hl hl'
  · exact own_unlockCall hs hp hl hl'
  · exact own_unlockRet hs hp hl hl'
  · exact own_tryCall hs hp hl hl'
  · exact own_tryRet hs hp hl hl'
  · exact own_waitCall hs hp hl hl'
  · exact own_waitRet hs hp hl hl'
  · exact own_waitnCall hs hp hl hl'
  · exact own_waitnRet hs hp hl hl'
  · exact own_now hs hp hl hl'
  · exact own_semV hs hp hl hl'
  · exact own_pdEnter hs hp hl hl'
  · exact own_pdRet hs hp hl hl'
  · exact own_malloc hs hp hl hl'
  · exact own_free hs hp hl hl'

end Note
