/-
  Layer `CvFix` (cv.c with the repair of F3; adapted from the `Cv` file of the same name): protocol invariant — generic preservation lemmas for the non-local transitions.
-/
import NsyncVerif.Proofs.CvFixInvBLoc4

namespace NsyncVerif.CvFix

/-- A thread that does not act keeps its facts if the self-removed records are the same (with the
    same `waiting`) and the remove_count handshake for its own record is re-established. -/
theorem tinvB_other2 {s s' : State} {u : Tid} (h : TInvB s u) (ht : s'.thr u = s.thr u)
    (hst : (s'.recs (s.thr u).r).stat = (s.recs (s.thr u).r).stat)
    (hso : ∀ q, (s'.recs q).stat = .selfOut ↔ (s.recs q).stat = .selfOut)
    (hsw : ∀ q, (s.recs q).stat = .selfOut → (s'.recs q).waiting = (s.recs q).waiting)
    (hsv : savedLoc (s.thr u) = true →
      ((s'.recs (s.thr u).r).stat = .queued → (s'.recs (s.thr u).r).rc = (s.thr u).saved) ∧
      ((s'.recs (s.thr u).r).stat = .xfer ∨ (s'.recs (s.thr u).r).stat = .woken →
        (s.thr u).saved < (s'.recs (s.thr u).r).rc) ∧
      (∀ v, (s'.recs (s.thr u).r).stat = .listed v →
        ((s.thr u).r ∈ (s'.thr v).todo → (s'.recs (s.thr u).r).rc = (s.thr u).saved) ∧
        ((s.thr u).r ∉ (s'.thr v).todo → (s.thr u).saved < (s'.recs (s.thr u).r).rc))) :
    TInvB s' u := by
  obtain ⟨b1, b2, b3, b4, b5, b6, b7, b8, b9, b10, b11, b12, b13, b14⟩ := h
  constructor <;> rw [ht]
  · intro h1; exact (hsv h1).1
  · intro h1; exact (hsv h1).2.1
  · intro h1; exact (hsv h1).2.2
  · intro h1 h2; exact b4 h1 ((hso _).mp h2)
  · intro h1 h2 h3; rw [hsw _ ((hso _).mp h2)]; exact b5 h1 ((hso _).mp h2) h3
  · exact b6
  · intro h1 h2; obtain ⟨c1, c2⟩ := b7 h1 h2; exact ⟨(hso _).mpr c1, c2⟩
  · exact b8
  · intro q hq h2; exact b9 q hq ((hso _).mp h2)
  · exact b10
  · exact b11
  · exact b12
  · exact b13
  · intro h1; exact (hso _).mpr (b14 h1)

/-- Transitions that change no record field the protocol invariant looks at: only the acting
    thread's frame matters. -/
theorem invB_frame {s s' : State} {t : Tid} (hi : InvB s) (ha : InvA s)
    (hthr : ∀ u, u ≠ t → s'.thr u = s.thr u)
    (hrec : ∀ q, (s'.recs q).stat = (s.recs q).stat ∧ (s'.recs q).rc = (s.recs q).rc ∧
                 (s'.recs q).waiting = (s.recs q).waiting ∧ (s'.recs q).unl = (s.recs q).unl)
    (hbad : s'.bad = s.bad) (htodo : (s'.thr t).todo = (s.thr t).todo)
    (ht : TInvB s' t) : InvB s' := by
  obtain ⟨b1, b2, b3, b4, b5, b6, b7, b8⟩ := hi
  constructor
  · intro r u; rw [(hrec r).1, (hrec r).2.2.1]; exact b1 r u
  · intro r; rw [(hrec r).1, (hrec r).2.2.1]; exact b2 r
  · intro r; rw [(hrec r).1]; exact b3 r
  · intro r; rw [(hrec r).1, (hrec r).2.2.2]; exact b4 r
  · intro r; rw [(hrec r).1, (hrec r).2.2.2]; exact b5 r
  · intro r; rw [(hrec r).2.2.2]; exact b6 r
  · intro u
    by_cases hu : u = t
    · subst hu; exact ht
    · refine tinvB_other (b7 u) (ha.thr u) (hthr u hu) ?_ (fun q _ _ => ⟨(hrec q).1, (hrec q).2.1, (hrec q).2.2.1⟩)
      intro v
      by_cases hv : v = t
      · subst hv; exact htodo
      · rw [hthr v hv]
  · rw [hbad]; exact b8

end NsyncVerif.CvFix
