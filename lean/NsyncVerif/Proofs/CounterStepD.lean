/- Proofs/CounterStepD.lean — invariant preservation, one lemma per program point (generated, uniform script). -/
import NsyncVerif.Proofs.CounterStepBase

namespace Counter

variable {s s' : State} {t : Tid} {e : Ev}

theorem inv_wLoopStore {dl} {k} (hi : Inv s) (hpc : s.pc t = .wLoopStore dl k) (h : stepThr s t e = .ok s') : Inv s' := by
  step_open
  all_goals first | (show ShInv _; shinv_tac) | (show pcInv _ _ _; pcinv_tac) | (show ∀ u, _; rely_tac)

theorem inv_wLoopLoad {dl} {k} (hi : Inv s) (hpc : s.pc t = .wLoopLoad dl k) (h : stepThr s t e = .ok s') : Inv s' := by
  step_open
  all_goals first | (show ShInv _; shinv_tac) | (show pcInv _ _ _; pcinv_tac) | (show ∀ u, _; rely_tac)

theorem inv_wPdWait {dl} {k} {j} (hi : Inv s) (hpc : s.pc t = .wPdWait dl k j) (h : stepThr s t e = .ok s') : Inv s' := by
  step_open
  all_goals first | (show ShInv _; shinv_tac) | (show pcInv _ _ _; pcinv_tac) | (show ∀ u, _; rely_tac)

end Counter
