/-
  Proofs/WaitNFairCount1.lean — WaitN layer, liveness, token counting: what a thread's own step does to the semaphore
  counts (`SemUp`: a count goes up only by `sem v` on that semaphore) and to its pending post (`PostEff`: it keeps
  it, posts it, or pops the head of a wake list / of the queue of a ready object), for the helper functions and the
  protocol-driven steps.
-/
import NsyncVerif.Proofs.WaitNFairMain3

set_option linter.unusedSimpArgs false
set_option linter.unusedVariables false

namespace WaitN

/-- a semaphore count goes up only by a `sem v` on that semaphore -/
def SemUp (s s' : State) (e : Ev) : Prop := ∀ k, s.sem k < s'.sem k → e = .semV k

/-- the pending post of the stepping thread: kept, posted, or a record is popped -/
def PostEff (s s' : State) (u : Tid) : Prop :=
  s'.post u = s.post u ∨ s'.post u = none
  ∨ ∃ r, s'.post u = some r ∧ s.post u = none ∧ (s'.rcd r).waiting = false
      ∧ ((∃ c bc l, s.pc u = .sg c bc (.wake l) ∧ l.head? = some r)
         ∨ (∃ tl, (s.obj (s.rcd r).obj).queue = r :: tl))

def Eff (s s' : State) (u : Tid) (e : Ev) : Prop := SemUp s s' e ∧ PostEff s s' u

theorem Eff.of_keep {s s' : State} {u : Tid} {e : Ev} (hs : s'.sem = s.sem) (hp : s'.post = s.post) : Eff s s' u e :=
  ⟨fun k hk => by rw [hs] at hk; exact absurd hk (Nat.lt_irrefl _), .inl (by rw [hp])⟩

theorem eff_dflt {s s' : State} {u : Tid} {e : Ev} (h : dflt s u e = .ok s') : Eff s s' u e := by
  refine ⟨?_, .inl (by rw [(dflt_keeps h).2.2])⟩
  unfold dflt at h
  split_ok h
  all_goals first
    | (cases h; intro k hk; exact absurd hk (Nat.lt_irrefl _))
    | (cases h; intro k hk; simp at hk; split at hk <;> first | (subst_vars; first | rfl | omega) | omega)

theorem keep_unbindSem (s : State) (t : Tid) : (unbindSem s t).sem = s.sem ∧ (unbindSem s t).post = s.post := by
  unfold unbindSem; split <;> exact ⟨rfl, rfl⟩

theorem keep_bindSem {s s' : State} {owner : Tid} {j : SemId} (h : bindSem s owner j = some s') :
    s'.sem = s.sem ∧ s'.post = s.post := by
  unfold bindSem at h
  split at h
  · split at h <;> cases h; exact ⟨rfl, rfl⟩
  · split at h <;> cases h; exact ⟨rfl, rfl⟩

theorem keep_postSem {s s' : State} {r : Rid} {j : SemId} (h : postSem s r j = some s') :
    s'.sem = s.sem ∧ s'.post = s.post := by
  unfold postSem at h
  split at h
  · exact keep_bindSem h
  · cases h; exact ⟨rfl, rfl⟩

theorem keep_rtDone {s s' : State} {t : Tid} {u : Use} {i : Nat} {time : Deadline}
    (h : rtDone s t u i time = .ok s') : s'.sem = s.sem ∧ s'.post = s.post := by
  unfold rtDone at h
  split_ok h <;> (cases h; exact ⟨rfl, rfl⟩)

theorem keep_deqDone {s s' : State} {t : Tid} {j : Nat} {res : Bool}
    (h : deqDone s t j res = .ok s') : s'.sem = s.sem ∧ s'.post = s.post := by
  unfold deqDone at h
  dsimp only at h
  split at h <;> cases h
  · exact ⟨rfl, rfl⟩
  · exact ⟨(keep_unbindSem _ _).1, (keep_unbindSem _ _).2⟩

theorem keep_afterEnq {s s' : State} {t : Tid} {i : Nat} {res : Bool}
    (h : afterEnq s t i res = .ok s') : s'.sem = s.sem ∧ s'.post = s.post := by
  unfold afterEnq at h
  cases h; exact ⟨rfl, rfl⟩

theorem eff_spinAcq {s s' : State} {t : Tid} {c : Nat} {st : SpinSt} {mk : SpinSt → PC} {done : PC} {e : Ev}
    (h : spinAcq s t c st mk done e = .ok s') : Eff s s' t e := by
  unfold spinAcq at h
  split_ok h
  all_goals first
    | exact eff_dflt h
    | (cases h; exact Eff.of_keep rfl rfl)

theorem eff_proto {s s' : State} {t : Tid} {e : Ev} (h : proto s t e = .ok s') : Eff s s' t e := by
  unfold proto at h
  split_ok h
  all_goals first
    | exact eff_dflt h
    | (cases h; exact Eff.of_keep rfl rfl)
    | (cases h
       have hk := keep_postSem ‹postSem _ _ _ = some _›
       refine ⟨fun k hk' => ?_, .inr (.inl (by simp))⟩
       simp only [setPost_sem, setSem_sem, hk.1] at hk'
       split at hk'
       · subst_vars; rfl
       · exact absurd hk' (Nat.lt_irrefl _))
    | (cases h
       rename_i _ r _ _ _ _ hd tl heq hc
       obtain ⟨rfl, _, _, _, hpn, _, _⟩ := hc
       exact ⟨fun k hk => absurd hk (Nat.lt_irrefl _), .inr (.inr ⟨hd, by simp, hpn, by simp, .inr ⟨tl, heq⟩⟩)⟩)

theorem eff_stepOpen {s s' : State} {t : Tid} {e : Ev} (h : stepOpen s t e = .ok s') : Eff s s' t e := by
  unfold stepOpen at h
  split_ok h
  all_goals first
    | exact eff_proto h
    | exact eff_dflt h
    | (cases h; exact Eff.of_keep rfl rfl)

end WaitN
