import NsyncVerif.Proofs.MuCInv9
/-
  MuC (I_wait): tactics for local steps; load steps.
-/
namespace NsyncVerif.MuC

macro "pc9" heq:ident : tactic => `(tactic|
  (try rw [$heq:ident]
   (simp_all [PC.waitRec, PC.wmode, PC.pwait, PC.wakeL, PC.enqPend, PC.mtOld, PC.scan?, PC.limboL, PC.hlRec, Ret.w?, Ret.wmode, Ret.mw?, setFn, loopPc, finPc,
      Ret.pc, SL.entry, SL.fromWait, SL.woken]) <;> grind))

/-- `s.word.waiting → s'.word.waiting` for the word updates that keep or set MU_WAITING -/
macro "word_waiting" : tactic => `(tactic|
  first
  | (simp; done)
  | (simp_all [acqWord, addWord, relUncWord, relNwWord, subWord, enqWord, mwEnqWord, mtAcqWord, grabWord]; done)
  | (simp_all [acqWord, addWord, relUncWord, relNwWord, subWord, enqWord, mwEnqWord, mtAcqWord, grabWord] <;>
      (repeat' split) <;> simp_all))

macro "inv9_local" t:ident h4:ident h:ident heq:ident : tactic => `(tactic|
  (refine Inv9.local $t $h4 $h ?_ ?_ ?_ ?_ ?_ ?_ ?_ ?_ ?_ ?_ ?_ ?_
   · intro k
     exact queued_same (t := $t) (by simp) (by intro u hu; simp [setFn, hu])
        (by rw [$heq:ident]; simp [setFn, PC.scan?, loopPc, finPc, Ret.pc] <;> (repeat' split) <;> simp [PC.scan?]) k
   · intro x; (simp [setFn]) <;> (try split) <;> simp_all
   · word_waiting
   · intro u hu; simp [setFn, hu]
   · pc9 $heq
   · intro r k rest hv; rw [$heq:ident] at hv; pc9 $heq
   · first
     | (pc9 $heq)
     | (intro _; right; simp_all [enqWord]; done)
   · intro old ho
     first
     | (left; revert ho; pc9 $heq)
     | (right; revert ho; pc9 $heq)
   · first
     | (left; refine ⟨?_, ?_⟩ <;> pc9 $heq)
     | (right; refine ⟨?_, ?_⟩ <;> pc9 $heq)
   · intro k hk
     first
     | (left; revert hk; pc9 $heq)
     | (right; revert hk; pc9 $heq)
   · intro k l hk
     first
     | (left; revert hk; pc9 $heq)
     | (right; revert hk; pc9 $heq)
   · intro k hk
     first
     | (left; revert hk; pc9 $heq)
     | (right; revert hk; pc9 $heq)))

macro "ld_case9" t:ident h4:ident h:ident heq:ident hs:ident : tactic => `(tactic|
  (try dsimp only at $hs:ident
   try simp only [ldWord, ldWaiting] at $hs:ident
   repeat' split at $hs:ident
   all_goals first
     | (cases $hs:ident; done)
     | (cases $hs:ident; inv9_local $t $h4 $h $heq)
     | (cases $hs:ident; split <;> inv9_local $t $h4 $h $heq)))

theorem inv9_stepLd {s s' : State} {t : Tid} {o : Ord} {loc : Loc} {obs : Nat} (h4 : Inv4 s) (h : Inv9 s)
    (hs : stepLd s t o loc obs = .ok s') : Inv9 s' := by
  unfold stepLd at hs
  split at hs
  all_goals first
    | (rename_i heq; ld_case9 t h4 h heq hs)
    | skip
  -- mtLdRc: the waiter removes itself
  rename_i c old heq
  dsimp only at hs
  repeat' split at hs
  all_goals first
    | (cases hs; done)
    | (cases hs; inv9_local t h4 h heq)
    | skip
  rename_i k hk _ _ _ _ hmem
  cases hs
  have hlo : LnkOnly s (setPc (dequeue s k) t (PC.mtRmLd c old)) := lnkOnly_removeLinks _ _ _ _
  have hqnd : s.queue.Nodup := by
    have := h4.nd t; simp only [allOf, List.append_assoc] at this; exact (List.nodup_append.mp this).1
  have hsc : ∀ u, ((setPc (dequeue s k) t (PC.mtRmLd c old)).pc u).scan? = (s.pc u).scan? := by
    intro u; by_cases hu : u = t
    · subst hu; simp [heq, PC.scan?]
    · simp [dequeue, setFn, hu]
  have hwkL : ∀ u, ((setPc (dequeue s k) t (PC.mtRmLd c old)).pc u).wakeL = (s.pc u).wakeL := by
    intro u; by_cases hu : u = t
    · subst hu; simp [heq, PC.wakeL]
    · simp [dequeue, setFn, hu]
  have hQsub : ∀ x, Queued (setPc (dequeue s k) t (PC.mtRmLd c old)) x → Queued s x := by
    intro x hx
    refine queued_mono (s := s) ?_ hsc hx
    intro y hy; simp [dequeue] at hy; exact List.mem_of_mem_erase hy
  have hwrec : (s.pc t).waitRec = some k := by rw [heq]; simp [PC.waitRec, hk]
  refine Inv9.step t h4 h ?_ hQsub ?_ (fun x => ⟨(hlo x).2.1, (hlo x).2.2.1, by rw [(hlo x).2.2.2.1]; exact id⟩)
    (by simp [dequeue]) (by intro u hu; simp [dequeue, setFn, hu]) (by intro r k' rest hv; rw [heq] at hv; cases hv)
    (by simp [PC.enqPend]) (by intro o' ho; left; simpa [heq, PC.mtOld] using ho) (Or.inr (Or.inr ⟨by simp [PC.waitRec], ?_⟩))
    (by intro k' hk'; simp [PC.pwait] at hk')
    (by intro k' l hk'; right; rw [heq]; simp only [setPc_pc, setFn_same, PC.limboL, hk, Option.map_some, Option.some.injEq, Prod.mk.injEq] at hk'; simp [PC.waitRec, PC.wmode, hk, hk'.1, hk'.2])
    (by intro k' hk'; simp [PC.hlRec] at hk')
  · rintro x (hx | ⟨u, hu⟩)
    · exact Or.inl (hQsub x hx)
    · rw [hwkL] at hu; exact Or.inr ⟨u, hu⟩
  · rintro x (hx | ⟨u, hu⟩) hne
    · left
      rcases hx with hx | ⟨u, sc, h1, h2⟩
      · left
        have hxk : x ≠ k := fun e => hne (by rw [e]; exact hwrec)
        simp only [setPc_queue, dequeue]
        exact (List.mem_erase_of_ne hxk).2 hx
      · right; exact ⟨u, sc, by rw [hsc]; exact h1, h2⟩
    · right; exact ⟨u, by rw [hwkL]; exact hu⟩
  · intro k' hk'
    rw [hwrec] at hk'; cases hk'
    rintro (hx | ⟨u, hu⟩)
    · rcases hx with hx | ⟨u, sc, h1, h2⟩
      · simp only [setPc_queue, dequeue] at hx
        exact (List.Nodup.not_mem_erase hqnd) hx
      · rw [hsc] at h1
        exact h4.not_in_priv hmem u (mem_priv_iff.2 ⟨sc, h1, h2⟩)
    · rw [hwkL] at hu
      exact (h4.wk u k hu).2 (Or.inl hmem)

end NsyncVerif.MuC
