/-
  Futex layer (C12), fair termination: vocabulary.

  Infinite executions of the acceptor `Futex.step` (`Exec`), weak fairness for the threads
  (`WeakFair`), fairness of the kernel in the sense the futex(2) contract of Model/Futex.lean allows
  (`KernelFair`), the two finiteness hypotheses that turn out to be needed (`FiniteSpurious` for the
  time-out branch of P_with_deadline, `BoundedPosts` for V), and "a matching post exists"
  (`PostPending`).  The theorems are in Props/C12Fair.lean.
-/
import NsyncVerif.Props.C12

namespace NsyncVerif.Futex

/-- The thread that performs an event (`none` for the environment's clock tick). -/
def Event.tid : Event → Option Tid
  | .callP t => some t
  | .callPD t _ => some t
  | .callV t => some t
  | .retP t => some t
  | .retPD t _ => some t
  | .retV t => some t
  | .ld t _ _ _ => some t
  | .st t _ _ _ _ => some t
  | .cas t _ _ _ _ _ _ => some t
  | .fwait t _ _ => some t
  | .fwaitRet t _ => some t
  | .fwake t _ _ => some t
  | .now t _ => some t
  | .tick _ => none

/-- An infinite execution from `s0`; `σ i = none` means that nobody moves at time `i`. -/
structure Exec (s0 : State) where
  ρ : Nat → State
  σ : Nat → Option Event
  start : ρ 0 = s0
  next : ∀ i, match σ i with
    | none => ρ (i + 1) = ρ i
    | some e => step (ρ i) e = .ok (ρ (i + 1))

/-- Thread `t` is inside the futex WAIT system call and queued in the kernel (it went to sleep: the
    compare succeeded).  Whether and when it returns is the kernel's business.  A thread inside the
    call whose compare FAILED (`sleeper = none`: EAGAIN pending) is not in the kernel's hands in this
    sense: the call returns at once, that is a step of the thread. -/
def inKernel (s : State) (t : Tid) : Bool :=
  match s.pc t with
  | .wSleep _ => s.sleeper.isSome
  | _ => false

/-- Thread `t` is queued in the kernel and the kernel OWES it a return: a FUTEX_WAKE has been
    addressed to it, or the absolute timeout it handed to the kernel has been reached by the clock. -/
def kernelDue (s : State) (t : Tid) : Bool :=
  match s.pc t, s.sleeper with
  | .wSleep _, some si => si.woken || expired si.deadline s.now
  | _, _ => false

/-- Weak fairness for the threads: a thread that from time `i` on is inside P / P_with_deadline / V
    and not queued in the kernel moves at some time `j ≥ i`.  (Such a thread always has an accepted
    next event except at `vCas old` with `old + 1 = 2^32`, the count overflow the model rejects as a
    contract violation: an execution that gets there is not weakly fair in this sense, i.e. it is
    outside the scope of the theorems, like the overflow itself.) -/
def WeakFair {s0 : State} (x : Exec s0) : Prop :=
  ∀ t i, (∀ j, i ≤ j → (x.ρ j).pc t ≠ .idle ∧ inKernel (x.ρ j) t = false) →
    ∃ j e, i ≤ j ∧ x.σ j = some e ∧ e.tid = some t

/-- Fairness of the kernel, as far as the contract in the header of Model/Futex.lean lets one state
    it: a thread that from time `i` on is asleep in FUTEX_WAIT and has been the target of a FUTEX_WAKE
    or has a timeout that has passed, returns from the system call (with whatever result the contract
    permits: 0, EINTR, ETIMEDOUT) at some time `j ≥ i`.  Nothing is promised to a sleeper that has
    neither been woken nor timed out. -/
def KernelFair {s0 : State} (x : Exec s0) : Prop :=
  ∀ t i, (∀ j, i ≤ j → kernelDue (x.ρ j) t = true) →
    ∃ j e, i ≤ j ∧ x.σ j = some e ∧ e.tid = some t

/-- Only finitely many spurious wake-ups and EINTRs: from some time on every return of futex WAIT
    with 0 or EINTR is the return of a sleeper that had been marked woken by a FUTEX_WAKE (so it is
    0, and not spurious).  Needed ONLY for the time-out branch of P_with_deadline. -/
def FiniteSpurious {s0 : State} (x : Exec s0) : Prop :=
  ∃ n, ∀ j t r, n ≤ j → x.σ j = some (.fwaitRet t r) → (r = .ok ∨ r = .eintr) → ¬ (x.ρ j).asleep

/-- Only finitely many posts are ever made (the model's own counter `posts` = successful CASes of V
    is bounded along the execution).  Needed ONLY for "V returns": V's CAS loop is lock-free, not
    wait-free. -/
def BoundedPosts {s0 : State} (x : Exec s0) : Prop :=
  ∃ B, ∀ j, (x.ρ j).posts ≤ B

/-- The pc is inside V before its successful CAS (the post is still to be made). -/
def PC.vPre : PC → Bool
  | .vLoad | .vCas _ => true
  | _ => false

/-- The pc is inside V. -/
def PC.isPoster : PC → Bool
  | .vLoad | .vCas _ | .vWake | .vRet => true
  | _ => false

/-- A matching post exists, in the model's own counters: more posts have been made than taken
    (`takes < posts`, equivalently `0 < word` by `C12_conservation`), or a call of V has started and
    has not yet performed its CAS. -/
def PostPending (s : State) : Prop :=
  s.takes < s.posts ∨ ∃ p, (s.pc p).vPre = true

/-! ### generic facts about executions -/

variable {s0 : State}

theorem Exec.next_none (x : Exec s0) {i : Nat} (h : x.σ i = none) : x.ρ (i + 1) = x.ρ i := by
  have := x.next i; rw [h] at this; exact this

theorem Exec.next_some (x : Exec s0) {i : Nat} {e : Event} (h : x.σ i = some e) :
    step (x.ρ i) e = .ok (x.ρ (i + 1)) := by
  have := x.next i; rw [h] at this; exact this

theorem Exec.reach (x : Exec s0) (hr : Reachable s0) : ∀ i, Reachable (x.ρ i) := by
  intro i
  induction i with
  | zero => rw [x.start]; exact hr
  | succ i ih =>
    cases h : x.σ i with
    | none => rw [x.next_none h]; exact ih
    | some e => exact ih.step (x.next_some h)

/-- Thread `t` takes a step at time `j`. -/
def Moves (x : Exec s0) (t : Tid) (j : Nat) : Prop := ∃ e, x.σ j = some e ∧ e.tid = some t

/-- The first move of `t` at or after time `i`. -/
theorem first_move (x : Exec s0) {t : Tid} : ∀ d i, Moves x t (i + d) →
    ∃ j, i ≤ j ∧ Moves x t j ∧ ∀ j', i ≤ j' → j' < j → ¬ Moves x t j' := by
  intro d
  induction d with
  | zero => intro i h; exact ⟨i, Nat.le_refl _, h, fun j' h1 h2 => by omega⟩
  | succ d ih =>
    intro i h
    by_cases hi : Moves x t i
    · exact ⟨i, Nat.le_refl _, hi, fun j' h1 h2 => by omega⟩
    · obtain ⟨j, h1, h2, h3⟩ := ih (i + 1) (by rw [show i + 1 + d = i + (d + 1) by omega]; exact h)
      refine ⟨j, by omega, h2, fun j' h4 h5 => ?_⟩
      by_cases hj : j' = i
      · subst hj; exact hi
      · exact h3 j' (by omega) h5

theorem first_move' (x : Exec s0) {t : Tid} {i : Nat} (h : ∃ j, i ≤ j ∧ Moves x t j) :
    ∃ j, i ≤ j ∧ Moves x t j ∧ ∀ j', i ≤ j' → j' < j → ¬ Moves x t j' := by
  obtain ⟨j, hij, hm⟩ := h
  obtain ⟨d, rfl⟩ : ∃ d, j = i + d := ⟨j - i, by omega⟩
  exact first_move x d i hm

/-- A property of the state at time `j` that survives every step at which `t` does not move holds
    until `t` moves. -/
theorem stable_until (x : Exec s0) {t : Tid} {P : State → Prop} {n : Nat}
    (hst : ∀ j, n ≤ j → P (x.ρ j) → ¬ Moves x t j → P (x.ρ (j + 1))) {i : Nat} (hi : n ≤ i) :
    ∀ d, (∀ j, i ≤ j → j < i + d → ¬ Moves x t j) → P (x.ρ i) → P (x.ρ (i + d)) := by
  intro d
  induction d with
  | zero => intro _ h; exact h
  | succ d ih =>
    intro h hP
    exact hst (i + d) (by omega) (ih (fun j h1 h2 => h j h1 (by omega)) hP) (h (i + d) (by omega) (by omega))

theorem stable_between (x : Exec s0) {t : Tid} {P : State → Prop} {n : Nat}
    (hst : ∀ j, n ≤ j → P (x.ρ j) → ¬ Moves x t j → P (x.ρ (j + 1))) {i j : Nat} (hi : n ≤ i) (hij : i ≤ j)
    (h : ∀ j', i ≤ j' → j' < j → ¬ Moves x t j') (hP : P (x.ρ i)) : P (x.ρ j) := by
  obtain ⟨d, rfl⟩ : ∃ d, j = i + d := ⟨j - i, by omega⟩
  exact stable_until x hst hi d h hP

/-- A property that survives EVERY step holds for ever. -/
theorem invariant_from (x : Exec s0) {P : State → Prop} {n : Nat}
    (hst : ∀ j, n ≤ j → P (x.ρ j) → P (x.ρ (j + 1))) (hP : P (x.ρ n)) : ∀ j, n ≤ j → P (x.ρ j) := by
  intro j hj
  obtain ⟨d, rfl⟩ : ∃ d, j = n + d := ⟨j - n, by omega⟩
  induction d with
  | zero => exact hP
  | succ d ih => exact hst (n + d) (by omega) (ih (by omega))

/-! ### the chain argument -/

theorem stay_until (x : Exec s0) {t : Tid} {n : Nat} {R : Nat → Prop} {rk : Nat → Nat}
    (hstay : ∀ j, n ≤ j → R j → ¬ Moves x t j → R (j + 1) ∧ rk (j + 1) ≤ rk j) {i : Nat} (hi : n ≤ i) :
    ∀ d, (∀ j, i ≤ j → j < i + d → ¬ Moves x t j) → R i → R (i + d) ∧ rk (i + d) ≤ rk i := by
  intro d
  induction d with
  | zero => intro _ h; exact ⟨h, Nat.le_refl _⟩
  | succ d ih =>
    intro h hR
    obtain ⟨a, b⟩ := ih (fun j h1 h2 => h j h1 (by omega)) hR
    obtain ⟨a', b'⟩ := hstay (i + d) (by omega) a (h (i + d) (by omega) (by omega))
    exact ⟨a', by rw [show i + (d + 1) = i + d + 1 by omega]; omega⟩

/-- A class of states `R` (indexed by time) with a rank that steps of the others do not increase
    and every step of `t` decreases, and in which `t` always moves again, is empty. -/
theorem chain (x : Exec s0) (t : Tid) (n : Nat) (R : Nat → Prop) (rk : Nat → Nat)
    (hstay : ∀ j, n ≤ j → R j → ¬ Moves x t j → R (j + 1) ∧ rk (j + 1) ≤ rk j)
    (hmove : ∀ j, n ≤ j → R j → Moves x t j → R (j + 1) ∧ rk (j + 1) < rk j)
    (hlive : ∀ j, n ≤ j → R j → ∃ j', j ≤ j' ∧ Moves x t j') :
    ∀ j, n ≤ j → ¬ R j := by
  have key : ∀ m j, rk j ≤ m → n ≤ j → R j → False := by
    intro m
    induction m with
    | zero =>
      intro j hm hj hR
      obtain ⟨j', h1, h2, h3⟩ := first_move' x (hlive j hj hR)
      obtain ⟨d, rfl⟩ : ∃ d, j' = j + d := ⟨j' - j, by omega⟩
      obtain ⟨a, b⟩ := stay_until x hstay hj d h3 hR
      obtain ⟨_, c⟩ := hmove (j + d) (by omega) a h2
      omega
    | succ m ih =>
      intro j hm hj hR
      obtain ⟨j', h1, h2, h3⟩ := first_move' x (hlive j hj hR)
      obtain ⟨d, rfl⟩ : ∃ d, j' = j + d := ⟨j' - j, by omega⟩
      obtain ⟨a, b⟩ := stay_until x hstay hj d h3 hR
      obtain ⟨a', c⟩ := hmove (j + d) (by omega) a h2
      exact ih (j + d + 1) (by omega) (by omega) a'
  intro j hj hR
  exact key (rk j) j (Nat.le_refl _) hj hR

end NsyncVerif.Futex
