/-
  Futex layer (C12): the inductive invariant `Inv` of the acceptor `Futex.step`, its
  preservation by every event (one lemma per event constructor), and `Reachable → Inv`.
-/
import NsyncVerif.Model.Futex

namespace NsyncVerif.Futex

/-- The inductive invariant.
  cons      word = posts − takes
  rets      successful returns = takes − (take in flight)
  nonOwner  only the owner is ever inside P / P_with_deadline
  sleepPc   the kernel's sleeper record belongs to the owner, which is at its futex wait
  casPos    the decrementing CAS is only attempted with i > 0 (the count never goes negative)
  noLost    asleep → word = 0 ∨ some poster is between its CAS and its futex wake
  toReal    result = ETIMEDOUT → the call has a finite deadline ≤ now
  fits      word < 2^32 -/
structure Inv (s : State) : Prop where
  cons : s.word + s.takes = s.posts
  rets : s.succRets + inFlight s = s.takes
  nonOwner : ∀ t, s.owner ≠ some t → (s.pc t).isWaiter = false
  sleepPc : ∀ si, s.sleeper = some si →
    ∃ o k, s.owner = some o ∧ s.pc o = .wSleep k ∧ si.deadline = k.timeout
  casPos : ∀ t k i, s.pc t = .wCas k i → 0 < i
  noLost : s.asleep → s.word = 0 ∨ ∃ p, s.pc p = .vWake
  toReal : ∀ t k, s.pc t = .wRet k true → ∃ d, k = .pd (some d) ∧ d ≤ s.now
  fits : s.word < limit

theorem expired_eq_true {dl : Option Nat} {n : Nat} :
    expired dl n = true ↔ ∃ d, dl = some d ∧ d ≤ n := by
  cases dl <;> simp [expired]

theorem asleepInfo_markWoken (sl : Option SleepInfo) : asleepInfo (markWoken sl) = false := by
  cases sl <;> simp [asleepInfo, markWoken]

theorem markWoken_eq_some {sl : Option SleepInfo} {si : SleepInfo} :
    markWoken sl = some si ↔ ∃ s0, sl = some s0 ∧ si = { s0 with woken := true } := by
  cases sl <;> simp [markWoken, eq_comm]

macro "inv_step" : tactic => `(tactic|
  (simp only [step] at *
   repeat' split at *
   all_goals (try simp [expired_eq_true, asleepInfo_markWoken, markWoken_eq_some] at *)
   all_goals (try subst_vars)
   all_goals (constructor <;> simp only [inFlight, State.asleep, setPc, asleepInfo_markWoken, markWoken_eq_some] at *)
   all_goals grind [PC.isWaiter, asleepInfo, markWoken, waitRetAllowed, expired, WKind.timeout]))

theorem Inv.step_tick (h : Inv s) (hs : step s (.tick ns) = .ok s') : Inv s' := by
  obtain ⟨h1, h2, h3, h4, h5, h6, h7, h8⟩ := h
  inv_step

theorem Inv.step_callP (h : Inv s) (hs : step s (.callP t) = .ok s') : Inv s' := by
  obtain ⟨h1, h2, h3, h4, h5, h6, h7, h8⟩ := h
  inv_step

theorem Inv.step_callPD (h : Inv s) (hs : step s (.callPD t dl) = .ok s') : Inv s' := by
  obtain ⟨h1, h2, h3, h4, h5, h6, h7, h8⟩ := h
  inv_step

theorem Inv.step_callV (h : Inv s) (hs : step s (.callV t) = .ok s') : Inv s' := by
  obtain ⟨h1, h2, h3, h4, h5, h6, h7, h8⟩ := h
  inv_step

theorem Inv.step_retP (h : Inv s) (hs : step s (.retP t) = .ok s') : Inv s' := by
  obtain ⟨h1, h2, h3, h4, h5, h6, h7, h8⟩ := h
  inv_step

theorem Inv.step_retPD (h : Inv s) (hs : step s (.retPD t b) = .ok s') : Inv s' := by
  obtain ⟨h1, h2, h3, h4, h5, h6, h7, h8⟩ := h
  inv_step

theorem Inv.step_retV (h : Inv s) (hs : step s (.retV t) = .ok s') : Inv s' := by
  obtain ⟨h1, h2, h3, h4, h5, h6, h7, h8⟩ := h
  inv_step

theorem Inv.step_ld (h : Inv s) (hs : step s (.ld t site ord obs) = .ok s') : Inv s' := by
  obtain ⟨h1, h2, h3, h4, h5, h6, h7, h8⟩ := h
  inv_step

theorem Inv.step_st (h : Inv s) (hs : step s (.st t site ord new obs) = .ok s') : Inv s' := by
  obtain ⟨h1, h2, h3, h4, h5, h6, h7, h8⟩ := h
  inv_step

theorem Inv.step_cas (h : Inv s) (hs : step s (.cas t site ord exp new obs ok) = .ok s') : Inv s' := by
  obtain ⟨h1, h2, h3, h4, h5, h6, h7, h8⟩ := h
  inv_step

theorem Inv.step_fwait (h : Inv s) (hs : step s (.fwait t val dl) = .ok s') : Inv s' := by
  obtain ⟨h1, h2, h3, h4, h5, h6, h7, h8⟩ := h
  inv_step

theorem Inv.step_fwaitRet (h : Inv s) (hs : step s (.fwaitRet t r) = .ok s') : Inv s' := by
  obtain ⟨h1, h2, h3, h4, h5, h6, h7, h8⟩ := h
  inv_step

theorem Inv.step_fwake (h : Inv s) (hs : step s (.fwake t n woken) = .ok s') : Inv s' := by
  obtain ⟨h1, h2, h3, h4, h5, h6, h7, h8⟩ := h
  inv_step

theorem Inv.step_now (h : Inv s) (hs : step s (.now t ns) = .ok s') : Inv s' := by
  obtain ⟨h1, h2, h3, h4, h5, h6, h7, h8⟩ := h
  inv_step

theorem Inv.step (h : Inv s) (hs : step s e = .ok s') : Inv s' := by
  cases e
  case tick => exact h.step_tick hs
  case callP => exact h.step_callP hs
  case callPD => exact h.step_callPD hs
  case callV => exact h.step_callV hs
  case retP => exact h.step_retP hs
  case retPD => exact h.step_retPD hs
  case retV => exact h.step_retV hs
  case ld => exact h.step_ld hs
  case st => exact h.step_st hs
  case cas => exact h.step_cas hs
  case fwait => exact h.step_fwait hs
  case fwaitRet => exact h.step_fwaitRet hs
  case fwake => exact h.step_fwake hs
  case now => exact h.step_now hs

theorem Inv.init : Inv init := by
  constructor <;> simp [Futex.init, inFlight, State.asleep, asleepInfo, PC.isWaiter, limit]

theorem run_append (s : State) (es fs : List Event) :
    run s (es ++ fs) = (match run s es with | .ok s' => run s' fs | .error m => .error m) := by
  induction es generalizing s with
  | nil => simp [run]
  | cons e es ih =>
    simp only [List.cons_append, run]
    cases step s e with
    | error m => simp
    | ok s1 => simp [ih]

theorem Inv.run (h : Inv s) (hr : run s evs = .ok s') : Inv s' := by
  induction evs generalizing s with
  | nil => simp [Futex.run] at hr; exact hr ▸ h
  | cons e es ih =>
    simp only [Futex.run] at hr
    split at hr
    · next s1 h1 => exact ih (h.step h1) hr
    · simp at hr

theorem Reachable.inv (h : Reachable s) : Inv s := by
  obtain ⟨evs, hr⟩ := h
  exact Inv.init.run hr

theorem Reachable.init : Reachable Futex.init := ⟨[], rfl⟩

theorem Reachable.step (h : Reachable s) (hs : step s e = .ok s') : Reachable s' := by
  obtain ⟨evs, hr⟩ := h
  refine ⟨evs ++ [e], ?_⟩
  rw [run_append, hr]
  simp [run, hs]

theorem Reachable.run (h : Reachable s) (hr : run s es = .ok s') : Reachable s' := by
  obtain ⟨evs, hr0⟩ := h
  refine ⟨evs ++ es, ?_⟩
  rw [run_append, hr0]
  exact hr

end NsyncVerif.Futex
