/-
  Layer `Note`, invariant family R (waiter records): a record whose `waiting` word is set is on the
  `waiters` list of its note, or has just been unlinked by the wake loop of `note_notify_child`
  (or by its owner's `note_dequeue`); a notified note with a non-empty `waiters` list has a thread
  inside that wake loop; a thread that goes to sleep on a record has a record that was really
  queued, and such a record has `waiting` set, or the V is owed by a thread at
  `nsync_mu_semaphore_v`, or the V has been performed.
-/
import NsyncVerif.Proofs.NoteRelW2b

set_option linter.unusedSimpArgs false

namespace Note

/-- The wake-up of record `r` is not lost: `waiting` is still set (the record is on the list or
    in the hands of the wake loop), or a thread is at the `nsync_mu_semaphore_v` for it, or a V
    has been performed. -/
def TQ (s : State) (r : Rid) : Prop :=
  (s.recs r).waiting = true ∨ (∃ t f rest top, s.pc t = .chd (.semV r) (f :: rest) top) ∨
    1 ≤ (s.recs r).posted

structure InvR (s : State) : Prop where
  /-- the record of a wait call in progress belongs to the calling thread and to the note -/
  own : ∀ t r n, (s.pc t).rid = some (r, n) →
    (s.recs r).used = true ∧ (s.recs r).owner = t ∧ (s.recs r).note = n
  mem : ∀ d r, r ∈ (s.notes d).waiters → (s.recs r).used = true ∧ (s.recs r).note = d
  /-- the users of a note (threads inside a call on it) got it from `nsync_note_new` -/
  pub : ∀ t n, t ∈ s.users n → s.published n = true
  wpub : ∀ d, (s.notes d).waiters ≠ [] → s.published d = true
  /-- a notified note with waiters has a thread in the wake loop -/
  wake : ∀ d, (s.notes d).notified = true → (s.notes d).waiters ≠ [] → ∃ t, WakeLoop (s.pc t) d
  /-- where a record with `waiting = 1` is -/
  waiting : ∀ r, (s.recs r).waiting = true →
    r ∈ (s.notes (s.recs r).note).waiters ∨
    (∃ t f rest top, s.pc t = .chd (.wake r) (f :: rest) top ∧ f.note = (s.recs r).note) ∨
    (∃ wdl, s.pc (s.recs r).owner = .wt .qSt (s.recs r).note wdl r)
  qst : ∀ t d wdl r, s.pc t = .wt .qSt d wdl r → (s.notes d).notified = false
  est : ∀ t d wdl r, s.pc t = .wt (.eSt true) d wdl r → r ∈ (s.notes d).waiters
  estF : ∀ t d wdl r, s.pc t = .wt (.eSt false) d wdl r → s.Notified d
  /-- the record the wake loop has unlinked belongs to the note -/
  unl : ∀ t pos f rest top r, s.pc t = .chd pos (f :: rest) top → (pos = .wake r ∨ pos = .semV r) →
    (s.recs r).used = true ∧ (s.recs r).note = f.note
  loop : ∀ t r, (s.pc t).loopRid = some r → TQ s r ∨ s.Notified (s.recs r).note
  must : ∀ t r, (s.pc t).mustQ = some r → TQ s r

theorem InvR.init : InvR Note.init := by
  refine ⟨?_, ?_, ?_, ?_, ?_, ?_, ?_, ?_, ?_, ?_, ?_, ?_⟩ <;>
    simp [Note.init, NoteRec.blank, WRec.blank]

/-! ### Helpers -/

theorem held_excl {s : State} (hK : LockInv s) {k : NoteId} {a b : Tid}
    (ha : k ∈ (s.pc a).held) (hb : k ∈ (s.pc b).held) : a = b := by
  have h1 := (hK.iff k a).mpr ha
  have h2 := (hK.iff k b).mpr hb
  rw [h1] at h2
  exact Option.some.inj h2

/-- A record in use keeps its owner and its note. -/
theorem recs_keep {s s' : State} {e : Event} (hs : step s e = .ok s') {r : Rid}
    (hu : (s.recs r).used = true) :
    (s'.recs r).used = true ∧ (s'.recs r).owner = (s.recs r).owner ∧
      (s'.recs r).note = (s.recs r).note := by
  rcases step_recs hs r with ⟨h, _⟩ | ⟨_, _, _, _, _, _, h, _⟩ | ⟨_, _, _, _, _, _, _, h⟩ |
    ⟨_, _, _, _, _, h0, _⟩ | ⟨_, _, _, _, _, _, h, _⟩ | ⟨_, _, _, _, _, h, _⟩ |
    ⟨_, _, _, _, _, _, _, h, _⟩
  all_goals (try (rw [h]; exact ⟨hu, rfl, rfl⟩))
  rw [hu] at h0; cases h0

/-- The note a wait call waits for is allocated. -/
theorem rid_alloc {s : State} (hN : InvN s) {t : Tid} {r : Rid} {n : NoteId}
    (h : (s.pc t).rid = some (r, n)) : (s.notes n).allocated = true := by
  have hc := hN.claim t
  cases hpc : s.pc t with
  | dl pos m nt k =>
    rw [hpc] at h hc
    simp only [rid_dl, Option.map_eq_some_iff, Prod.mk.injEq] at h
    obtain ⟨_, _, _, rfl⟩ := h
    exact hc.1
  | nfy pos m par k =>
    rw [hpc] at h hc
    simp only [rid_nfy, Option.map_eq_some_iff, Prod.mk.injEq] at h
    obtain ⟨_, _, _, rfl⟩ := h
    exact hc.1
  | chd pos stk top =>
    rw [hpc] at h hc
    simp only [rid_chd, Option.map_eq_some_iff, Prod.mk.injEq] at h
    obtain ⟨_, _, _, rfl⟩ := h
    exact hc.1
  | wt pos m wdl r' =>
    rw [hpc] at h hc
    simp only [rid_wt, Option.some.injEq, Prod.mk.injEq] at h
    obtain ⟨_, rfl⟩ := h
    exact hc.1
  | _ => rw [hpc] at h; simp at h

theorem notified_step {s s' : State} {e : Event} (hA : InvA s) (hN : InvN s)
    (hs : step s e = .ok s') {n : NoteId} (ha : (s.notes n).allocated = true)
    (hn : s.Notified n) : s'.Notified n :=
  (NA.step hA hN hs ⟨hn, ha⟩).1

/-- `TQ` survives every step that is not a store of the owner (`note_enqueue` / `note_dequeue`)
    to the record. -/
theorem TQ.stable {s s' : State} {e : Event} (hs : step s e = .ok s') {r : Rid}
    (hu : (s.recs r).used = true)
    (hno : ∀ a, e.actor = some a → (∀ v n wdl, s.pc a ≠ .wt (.eSt v) n wdl r) ∧
      (∀ n wdl, s.pc a ≠ .wt .qSt n wdl r))
    (h : TQ s r) : TQ s' r := by
  have other : ∀ t a pc, e.actor = some a → s.pc a = pc →
      (∀ f rest top, pc ≠ .chd (.semV r) (f :: rest) top) →
      (∃ f rest top, s.pc t = .chd (.semV r) (f :: rest) top) →
      ∃ f rest top, s'.pc t = .chd (.semV r) (f :: rest) top := by
    intro t a pc ha hpc hne ⟨f, rest, top, ht⟩
    have : e.actor ≠ some t := by
      intro h'
      rw [ha] at h'
      cases h'
      rw [ht] at hpc
      exact hne f rest top hpc.symm
    exact ⟨f, rest, top, by rw [step_pc_other hs t this]; exact ht⟩
  rcases step_recs hs r with ⟨hrec, hnt⟩ | ⟨a, f, rest, top, _, _, _, hpc'⟩ |
    ⟨a, f, rest, top, sem, _, _, hrec⟩ | ⟨_, _, _, _, _, h0, _⟩ | ⟨a, v, n, wdl, ha, hpc, _⟩ |
    ⟨a, n, wdl, ha, hpc, _⟩ | ⟨a, m, n, wdl, sem, ha, hpc, hrec, _⟩
  · rcases h with h | ⟨t, f, rest, top, ht⟩ | h
    · left; rw [hrec]; exact h
    · right; left
      refine ⟨t, f, rest, top, ?_⟩
      have : e.actor ≠ some t := by
        intro h'
        have := hnt t h'
        rw [ht] at this
        simp [PC.touch] at this
      rw [step_pc_other hs t this]; exact ht
    · right; right; rw [hrec]; exact h
  · right; left; exact ⟨a, f, rest, top, hpc'⟩
  · right; right; rw [hrec]; simp
  · rw [hu] at h0; cases h0
  · exact absurd hpc ((hno a ha).1 v n wdl)
  · exact absurd hpc ((hno a ha).2 n wdl)
  · rcases h with h | ⟨t, ht⟩ | h
    · left; rw [hrec]; exact h
    · right; left
      exact ⟨t, other t a _ ha hpc (fun _ _ _ h' => by cases h') ht⟩
    · right; right; rw [hrec]; exact h

/-! ### Preservation, field by field -/

theorem InvR.step_own {s s' : State} {e : Event} (hR : InvR s) (hs : step s e = .ok s')
    (t : Tid) (r : Rid) (n : NoteId) (h : (s'.pc t).rid = some (r, n)) :
    (s'.recs r).used = true ∧ (s'.recs r).owner = t ∧ (s'.recs r).note = n := by
  have old : (s.pc t).rid = some (r, n) →
      (s'.recs r).used = true ∧ (s'.recs r).owner = t ∧ (s'.recs r).note = n := by
    intro h0
    obtain ⟨h1, h2, h3⟩ := hR.own t r n h0
    obtain ⟨k1, k2, k3⟩ := recs_keep hs h1
    exact ⟨k1, k2.trans h2, k3.trans h3⟩
  by_cases ha : e.actor = some t
  · rcases step_rid hs t ha h with h0 | ⟨wdl, _, _, hrec⟩
    · exact old h0
    · rw [hrec]; exact ⟨rfl, rfl, rfl⟩
  · rw [step_pc_other hs t ha] at h
    exact old h

theorem InvR.step_mem {s s' : State} {e : Event} (hR : InvR s) (hs : step s e = .ok s')
    (d : NoteId) (r : Rid) (hm : r ∈ (s'.notes d).waiters) :
    (s'.recs r).used = true ∧ (s'.recs r).note = d := by
  have key : r ∈ (s.notes d).waiters → (s'.recs r).used = true ∧ (s'.recs r).note = d := by
    intro h0
    obtain ⟨h1, h2⟩ := hR.mem d r h0
    obtain ⟨k1, _, k3⟩ := recs_keep hs h1
    exact ⟨k1, k3.trans h2⟩
  rcases step_waiters hs d with ⟨h, _⟩ | ⟨a, wdl, r0, _, hpc, _, hw, _⟩ |
    ⟨a, wdl, r0, _, _, _, hw, _⟩ | ⟨a, pos, f, rest, top, _, _, _, _, hw, _⟩ | ⟨a, _, _, hw⟩
  · rw [h] at hm; exact key hm
  · rw [hw] at hm
    rcases List.mem_append.mp hm with h | h
    · exact key h
    · simp only [List.mem_singleton] at h
      subst h
      obtain ⟨h1, _, h3⟩ := hR.own a r d (by rw [hpc]; simp)
      obtain ⟨k1, _, k3⟩ := recs_keep hs h1
      exact ⟨k1, k3.trans h3⟩
  · rw [hw] at hm; exact key (List.mem_of_mem_erase hm)
  · rw [hw] at hm; exact key (List.mem_of_mem_tail hm)
  · rw [hw] at hm; cases hm

theorem InvR.step_pub {s s' : State} {e : Event} (hR : InvR s) (hs : step s e = .ok s')
    (t : Tid) (n : NoteId) (h : t ∈ s'.users n) : s'.published n = true := by
  rcases step_users_mem hs t n h with h | h
  · exact (step_stable hs).published n (hR.pub t n h)
  · exact (step_stable hs).published n h

theorem InvR.step_wpub {s s' : State} {e : Event} (hU : InvU s) (hR : InvR s)
    (hs : step s e = .ok s') (d : NoteId) (hne : (s'.notes d).waiters ≠ []) :
    s'.published d = true := by
  have hst := step_stable hs
  rcases step_waiters hs d with ⟨h, _⟩ | ⟨a, wdl, r0, _, hpc, _, _, _⟩ |
    ⟨a, wdl, r0, _, _, _, hw, _⟩ | ⟨a, pos, f, rest, top, _, _, _, _, hw, _⟩ | ⟨a, _, _, hw⟩
  · rw [h] at hne; exact hst.published d (hR.wpub d hne)
  · exact hst.published d (hR.pub a d ((hU.users a d).mpr (by rw [hpc]; rfl)))
  · refine hst.published d (hR.wpub d ?_)
    intro h0; rw [hw, h0] at hne; exact hne rfl
  · refine hst.published d (hR.wpub d ?_)
    intro h0; rw [hw, h0] at hne; exact hne rfl
  · exact absurd hw hne

theorem InvR.step_wake {s s' : State} {e : Event} (hA : InvA s) (hR : InvR s)
    (hs : step s e = .ok s')
    (d : NoteId) (hf : (s'.notes d).notified = true) (hne : (s'.notes d).waiters ≠ []) :
    ∃ t, WakeLoop (s'.pc t) d := by
  rcases step_waiters hs d with ⟨hw, hnp⟩ | ⟨a, wdl, r0, ha, hpc, hnf, _, _⟩ |
    ⟨a, wdl, r0, ha, hpc, hnf, _, _⟩ | ⟨a, pos, f, rest, top, ha, hpc, hfd, hpos, hw, hnext⟩ |
    ⟨a, ha, hal, hw⟩
  · -- the list is unchanged and nobody popped it
    rw [hw] at hne
    have hf0 : (s.notes d).notified = true := by
      rcases step_flag_new hs d hf with h | ⟨a, f, rest, top, ha, hpc, hfd⟩ | ⟨a, p, dl, ha, hpc⟩
      · exact h
      · exact absurd (by rw [hpc]; simp [PC.pops, hfd]) (hnp a ha)
      · -- the note is being created: nobody can have queued on it
        have := (hA.creating a d (by rw [hpc]; simp)).2
        rw [hR.wpub d hne] at this; cases this
    obtain ⟨t, pos, f, rest, top, r, hpc, hfd, hpos⟩ := hR.wake d hf0 hne
    by_cases ha : e.actor = some t
    · rcases hpos with rfl | rfl
      · exact ⟨t, _, f, rest, top, r, step_from_wake hs t ha hpc, hfd, Or.inr rfl⟩
      · exact absurd (by rw [hpc]; simp [PC.pops, hfd]) (hnp t ha)
    · exact ⟨t, pos, f, rest, top, r, by rw [step_pc_other hs t ha]; exact hpc, hfd, hpos⟩
  · -- note_enqueue ran with the flag clear, and does not set it
    rcases step_flag_new hs d hf with h | ⟨a', f, rest, top, ha', hpc', _⟩ | ⟨a', p, dl, ha', hpc'⟩
    · rw [hnf] at h; cases h
    · obtain rfl := Option.some.inj (ha'.symm.trans ha); rw [hpc] at hpc'; cases hpc'
    · obtain rfl := Option.some.inj (ha'.symm.trans ha); rw [hpc] at hpc'; cases hpc'
  · rcases step_flag_new hs d hf with h | ⟨a', f, rest, top, ha', hpc', _⟩ | ⟨a', p, dl, ha', hpc'⟩
    · rw [hnf] at h; cases h
    · obtain rfl := Option.some.inj (ha'.symm.trans ha); rw [hpc] at hpc'; cases hpc'
    · obtain rfl := Option.some.inj (ha'.symm.trans ha); rw [hpc] at hpc'; cases hpc'
  · -- the wake loop pops the next record
    cases hwl : (s.notes d).waiters with
    | nil => rw [hw, hwl] at hne; exact absurd rfl hne
    | cons r ws => exact ⟨a, _, f, rest, top, r, hnext r ws hwl, hfd, Or.inl rfl⟩
  · exact absurd hw hne

theorem InvR.step_waiting {s s' : State} {e : Event} (hA : InvA s) (hR : InvR s)
    (hs : step s e = .ok s') (r : Rid) (hw' : (s'.recs r).waiting = true) :
    r ∈ (s'.notes (s'.recs r).note).waiters ∨
    (∃ t f rest top, s'.pc t = .chd (.wake r) (f :: rest) top ∧ f.note = (s'.recs r).note) ∨
    (∃ wdl, s'.pc (s'.recs r).owner = .wt .qSt (s'.recs r).note wdl r) := by
  -- the generic case: `waiting`, the note and the owner are unchanged, and the acting thread is
  -- neither at the store of the wake loop nor at the store of `note_dequeue` for this record
  have generic : (s.recs r).waiting = true → (s'.recs r).note = (s.recs r).note →
      (s'.recs r).owner = (s.recs r).owner →
      (∀ a, e.actor = some a → (∀ stk top, s.pc a ≠ .chd (.wake r) stk top) ∧
        (∀ n wdl, s.pc a ≠ .wt .qSt n wdl r)) →
      r ∈ (s'.notes (s'.recs r).note).waiters ∨
      (∃ t f rest top, s'.pc t = .chd (.wake r) (f :: rest) top ∧ f.note = (s'.recs r).note) ∨
      (∃ wdl, s'.pc (s'.recs r).owner = .wt .qSt (s'.recs r).note wdl r) := by
    intro hw hnote hown hact
    rw [hnote, hown]
    generalize hd : (s.recs r).note = d
    rcases hR.waiting r hw with hm | ⟨t, f, rest, top, ht, hfd⟩ | ⟨wdl, ho⟩
    · -- on the list
      rw [hd] at hm
      rcases step_waiters hs d with ⟨h, _⟩ | ⟨a, wdl, r0, _, _, _, h, _⟩ |
        ⟨a, wdl, r0, _, hpc, _, h, hpc'⟩ | ⟨a, pos, f, rest, top, _, _, hfd, _, h, hnext⟩ |
        ⟨a, _, hal, _⟩
      · left; rw [h]; exact hm
      · left; rw [h]; exact List.mem_append_left _ hm
      · by_cases hr0 : r = r0
        · subst hr0
          right; right
          obtain ⟨_, ho, _⟩ := hR.own a r d (by rw [hpc]; simp)
          rw [ho]; exact ⟨wdl, hpc'⟩
        · left; rw [h]; exact (List.mem_erase_of_ne hr0).mpr hm
      · cases hwl : (s.notes d).waiters with
        | nil => rw [hwl] at hm; cases hm
        | cons r1 ws =>
          rw [hwl] at hm h
          by_cases hr1 : r = r1
          · subst hr1
            right; left
            exact ⟨a, f, rest, top, hnext r ws hwl, hfd⟩
          · left; rw [h]
            rcases List.mem_cons.mp hm with h1 | h1
            · exact absurd h1 hr1
            · exact h1
      · -- malloc of a note that has waiters
        have hp := hR.wpub d (fun h0 => by rw [h0] at hm; cases hm)
        rw [hA.published d hp] at hal; cases hal
    · -- in the hands of the wake loop
      right; left
      have : e.actor ≠ some t := fun h' => (hact t h').1 _ _ ht
      exact ⟨t, f, rest, top, by rw [step_pc_other hs t this]; exact ht, by rw [hfd, hd]⟩
    · -- in the hands of its owner's note_dequeue
      right; right
      have : e.actor ≠ some (s.recs r).owner := fun h' => (hact _ h').2 _ _ ho
      exact ⟨wdl, by rw [step_pc_other hs _ this, ← hd]; exact ho⟩
  rcases step_recs hs r with ⟨hrec, hnt⟩ | ⟨a, f, rest, top, _, _, hrec, _⟩ |
    ⟨a, f, rest, top, sem, ha, hpc, hrec⟩ | ⟨a, n, wdl, _, _, _, hrec, _⟩ |
    ⟨a, v, n, wdl, ha, hpc, hrec, hpc'⟩ | ⟨a, n, wdl, _, _, hrec, _⟩ |
    ⟨a, m, n, wdl, sem, ha, hpc, hrec, _⟩
  · refine generic (by rw [← hrec]; exact hw') (by rw [hrec]) (by rw [hrec]) ?_
    intro a ha
    refine ⟨fun stk top h => ?_, fun n wdl h => ?_⟩ <;>
      (have := hnt a ha; rw [h] at this; simp [PC.touch] at this)
  · rw [hrec] at hw'; cases hw'
  · refine generic (by rw [hrec] at hw'; exact hw') (by rw [hrec]) (by rw [hrec]) ?_
    intro a' ha'
    obtain rfl := Option.some.inj (ha'.symm.trans ha)
    rw [hpc]
    exact ⟨fun _ _ h => (by cases h), fun _ _ h => (by cases h)⟩
  · rw [hrec] at hw'; cases hw'
  · -- note_enqueue stores 1: the record is on the list
    rw [hrec] at hw'
    simp only at hw'
    subst hw'
    left
    obtain ⟨_, _, hn⟩ := hR.own a r n (by rw [hpc]; simp)
    have hm := hR.est a n wdl r hpc
    rw [hrec]
    simp only
    rw [hn]
    rcases step_waiters hs n with ⟨h, _⟩ | ⟨a', _, _, ha', hpc2, _⟩ | ⟨a', _, _, ha', hpc2, _⟩ |
      ⟨a', _, _, _, _, ha', hpc2, _⟩ | ⟨a', _, hal, _⟩
    · rw [h]; exact hm
    · obtain rfl := Option.some.inj (ha'.symm.trans ha); rw [hpc] at hpc2; cases hpc2
    · obtain rfl := Option.some.inj (ha'.symm.trans ha); rw [hpc] at hpc2; cases hpc2
    · obtain rfl := Option.some.inj (ha'.symm.trans ha); rw [hpc] at hpc2; cases hpc2
    · have hp := hR.wpub n (fun h0 => by rw [h0] at hm; cases hm)
      rw [hA.published n hp] at hal; cases hal
  · rw [hrec] at hw'; cases hw'
  · refine generic (by rw [hrec] at hw'; exact hw') (by rw [hrec]) (by rw [hrec]) ?_
    intro a' ha'
    obtain rfl := Option.some.inj (ha'.symm.trans ha)
    rw [hpc]
    exact ⟨fun _ _ h => (by cases h), fun _ _ h => (by cases h)⟩

/-- The note of a wait call has been returned by `nsync_note_new`. -/
theorem InvR.wt_published {s : State} (hU : InvU s) (hR : InvR s) {t : Tid} {p : WPos}
    {d : NoteId} {wdl : Dl} {r : Rid} (h : s.pc t = .wt p d wdl r) : s.published d = true :=
  hR.pub t d ((hU.users t d).mpr (by rw [h]; rfl))

theorem InvR.step_qst {s s' : State} {e : Event} (hA : InvA s) (hU : InvU s) (hK : LockInv s)
    (hR : InvR s)
    (hs : step s e = .ok s') (t : Tid) (d : NoteId) (wdl : Dl) (r : Rid)
    (h : s'.pc t = .wt .qSt d wdl r) : (s'.notes d).notified = false := by
  cases hf : (s'.notes d).notified with
  | false => rfl
  | true =>
    exfalso
    by_cases ha : e.actor = some t
    · obtain ⟨hpc, hpos⟩ := step_to_qSt hs t ha h
      rcases step_flag_new hs d hf with h0 | ⟨a, f, rest, top, ha', hpc', _⟩ | ⟨a, p, dl, ha', hpc'⟩
      · simp [NoteRec.ntime, h0, Dl.pos] at hpos
      · obtain rfl := Option.some.inj (ha'.symm.trans ha); rw [hpc] at hpc'; cases hpc'
      · obtain rfl := Option.some.inj (ha'.symm.trans ha); rw [hpc] at hpc'; cases hpc'
    · rw [step_pc_other hs t ha] at h
      have h0 := hR.qst t d wdl r h
      rcases step_flag_new hs d hf with h1 | ⟨a, f, rest, top, ha', hpc', hfd⟩ |
        ⟨a, p, dl, ha', hpc'⟩
      · rw [h0] at h1; cases h1
      · -- both hold the note's mutex
        have : a = t := held_excl hK (k := d) (by rw [hpc']; simp [PC.held, hfd])
          (by rw [h]; simp [PC.held])
        subst this
        exact ha ha'
      · -- the note is being created by `a`, and `t` is inside a wait on it
        have := (hA.creating a d (by rw [hpc']; simp)).2
        rw [hR.wt_published hU h] at this; cases this

theorem InvR.step_est {s s' : State} {e : Event} (hA : InvA s) (hU : InvU s) (hK : LockInv s)
    (hR : InvR s) (hs : step s e = .ok s') (t : Tid) (d : NoteId) (wdl : Dl) (r : Rid)
    (h : s'.pc t = .wt (.eSt true) d wdl r) : r ∈ (s'.notes d).waiters := by
  by_cases ha : e.actor = some t
  · obtain ⟨_, hw, _⟩ := step_to_eSt hs t ha h
    rw [hw rfl]; simp
  · rw [step_pc_other hs t ha] at h
    have hm := hR.est t d wdl r h
    have hheld : d ∈ (s.pc t).held := by rw [h]; simp [PC.held]
    rcases step_waiters hs d with ⟨hw, _⟩ | ⟨a, _, _, _, _, _, hw, _⟩ |
      ⟨a, _, _, ha', hpc', _⟩ | ⟨a, pos, f, rest, top, ha', hpc', hfd, hpos, _⟩ | ⟨a, _, hal, _⟩
    · rw [hw]; exact hm
    · rw [hw]; exact List.mem_append_left _ hm
    · have : a = t := held_excl hK (k := d) (by rw [hpc']; simp [PC.held]) hheld
      subst this; exact absurd ha' ha
    · have : a = t := by
        refine held_excl hK (k := d) ?_ hheld
        rw [hpc']
        rcases hpos with rfl | ⟨r0, rfl⟩ <;> simp [PC.held, hfd]
      subst this; exact absurd ha' ha
    · rw [hA.published d (hR.wt_published hU h)] at hal; cases hal

theorem InvR.step_estF {s s' : State} {e : Event} (hA : InvA s) (hN : InvN s) (hR : InvR s)
    (hs : step s e = .ok s') (t : Tid) (d : NoteId) (wdl : Dl) (r : Rid)
    (h : s'.pc t = .wt (.eSt false) d wdl r) : s'.Notified d := by
  by_cases ha : e.actor = some t
  · obtain ⟨hpc, _, hn⟩ := step_to_eSt hs t ha h
    have hc := hN.claim t
    rw [hpc] at hc
    exact notified_step hA hN hs hc.1 (notified_of_ntime (hn rfl))
  · rw [step_pc_other hs t ha] at h
    have hc := hN.claim t
    rw [h] at hc
    exact notified_step hA hN hs hc.1 (hR.estF t d wdl r h)

theorem InvR.step_unl {s s' : State} {e : Event} (hR : InvR s) (hs : step s e = .ok s')
    (t : Tid) (pos : CPos) (f : Frame) (rest : List Frame) (top : Top) (r : Rid)
    (h : s'.pc t = .chd pos (f :: rest) top) (hp : pos = .wake r ∨ pos = .semV r) :
    (s'.recs r).used = true ∧ (s'.recs r).note = f.note := by
  have old : (s.recs r).used = true ∧ (s.recs r).note = f.note →
      (s'.recs r).used = true ∧ (s'.recs r).note = f.note := by
    intro ⟨h1, h2⟩
    obtain ⟨k1, _, k3⟩ := recs_keep hs h1
    exact ⟨k1, k3.trans h2⟩
  by_cases ha : e.actor = some t
  · rcases hp with rfl | rfl
    · obtain ⟨f', rest', pos', ws, hstk, hpc, _, hw⟩ := step_to_wake hs t ha h
      cases hstk
      exact old (hR.mem f.note r (by rw [hw]; simp))
    · exact old (hR.unl t _ f rest top r (step_to_semV hs t ha h) (Or.inl rfl))
  · rw [step_pc_other hs t ha] at h
    exact old (hR.unl t pos f rest top r h hp)

/-- The acting thread, if it is the owner of `r` inside the wait loop, is not at a store of
    `note_enqueue` / `note_dequeue`; another thread is not either, because it does not own `r`. -/
theorem InvR.no_owner_store {s : State} (hR : InvR s) {t : Tid} {r : Rid} {n : NoteId}
    (ht : (s.pc t).rid = some (r, n)) (hl : ∀ v m wdl, s.pc t ≠ .wt (.eSt v) m wdl r)
    (hq : ∀ m wdl, s.pc t ≠ .wt .qSt m wdl r) (a : Tid) :
    (∀ v m wdl, s.pc a ≠ .wt (.eSt v) m wdl r) ∧ (∀ m wdl, s.pc a ≠ .wt .qSt m wdl r) := by
  have hown := (hR.own t r n ht).2.1
  refine ⟨fun v m wdl h => ?_, fun m wdl h => ?_⟩
  · have := (hR.own a r m (by rw [h]; simp)).2.1
    rw [hown] at this; subst this
    exact hl v m wdl h
  · have := (hR.own a r m (by rw [h]; simp)).2.1
    rw [hown] at this; subst this
    exact hq m wdl h

theorem loopRid_not_store {pc : PC} {r : Rid} (h : pc.loopRid = some r) :
    (∀ v m wdl, pc ≠ .wt (.eSt v) m wdl r) ∧ (∀ m wdl, pc ≠ .wt .qSt m wdl r) := by
  refine ⟨fun v m wdl e => ?_, fun m wdl e => ?_⟩ <;> (subst e; simp [WPos.inLoop] at h)

theorem InvR.step_loop {s s' : State} {e : Event} (hA : InvA s) (hN : InvN s) (hR : InvR s)
    (hs : step s e = .ok s') (t : Tid) (r : Rid) (h : (s'.pc t).loopRid = some r) :
    TQ s' r ∨ s'.Notified (s'.recs r).note := by
  -- the thread was in the loop already
  have old : (s.pc t).loopRid = some r → TQ s' r ∨ s'.Notified (s'.recs r).note := by
    intro h0
    obtain ⟨n, hrid⟩ := loopRid_rid h0
    obtain ⟨hu, _, hn⟩ := hR.own t r n hrid
    obtain ⟨_, _, hn'⟩ := recs_keep hs hu
    rcases hR.loop t r h0 with htq | hnt
    · left
      refine TQ.stable hs hu (fun a _ => ?_) htq
      exact hR.no_owner_store hrid (loopRid_not_store h0).1 (loopRid_not_store h0).2 a
    · right
      rw [hn', hn]
      rw [hn] at hnt
      exact notified_step hA hN hs (rid_alloc hN hrid) hnt
  by_cases ha : e.actor = some t
  · rcases step_loopRid hs t ha h with h0 | ⟨v, n, wdl, hpc⟩
    · exact old h0
    · -- out of note_enqueue
      obtain ⟨hu, _, hn⟩ := hR.own t r n (by rw [hpc]; simp)
      obtain ⟨_, _, hn'⟩ := recs_keep hs hu
      cases v with
      | true =>
        left; left
        rcases step_recs hs r with ⟨_, hnt⟩ | ⟨a, _, _, _, ha', hpc', _⟩ |
          ⟨a, _, _, _, _, ha', hpc', _⟩ | ⟨a, _, _, ha', hpc', _⟩ |
          ⟨a, v, n', wdl', ha', hpc', hrec, _⟩ | ⟨a, _, _, ha', hpc', _⟩ |
          ⟨a, _, _, _, _, ha', hpc', _⟩
        · have := hnt t ha; rw [hpc] at this; simp [PC.touch] at this
        · obtain rfl := Option.some.inj (ha'.symm.trans ha); rw [hpc] at hpc'; cases hpc'
        · obtain rfl := Option.some.inj (ha'.symm.trans ha); rw [hpc] at hpc'; cases hpc'
        · obtain rfl := Option.some.inj (ha'.symm.trans ha); rw [hpc] at hpc'; cases hpc'
        · obtain rfl := Option.some.inj (ha'.symm.trans ha); rw [hpc] at hpc'; cases hpc'
          rw [hrec]
        · obtain rfl := Option.some.inj (ha'.symm.trans ha); rw [hpc] at hpc'; cases hpc'
        · obtain rfl := Option.some.inj (ha'.symm.trans ha); rw [hpc] at hpc'; cases hpc'
      | false =>
        right
        rw [hn', hn]
        have hc := hN.claim t
        rw [hpc] at hc
        exact notified_step hA hN hs hc.1 (hR.estF t n wdl r hpc)
  · rw [step_pc_other hs t ha] at h
    exact old h

theorem InvR.step_must {s s' : State} {e : Event} (hR : InvR s)
    (hs : step s e = .ok s') (t : Tid) (r : Rid) (h : (s'.pc t).mustQ = some r) : TQ s' r := by
  have stable : (s.pc t).loopRid = some r → TQ s r → TQ s' r := by
    intro h0 htq
    obtain ⟨n, hrid⟩ := loopRid_rid h0
    obtain ⟨hu, _, _⟩ := hR.own t r n hrid
    refine TQ.stable hs hu (fun a _ => ?_) htq
    exact hR.no_owner_store hrid (loopRid_not_store h0).1 (loopRid_not_store h0).2 a
  by_cases ha : e.actor = some t
  · rcases step_mustQ hs t ha h with h0 | ⟨n, nt, wdl, hpc, hpos⟩
    · exact stable (mustQ_loopRid h0) (hR.must t r h0)
    · have hl : (s.pc t).loopRid = some r := by rw [hpc]; rfl
      obtain ⟨_, _, hn⟩ := hR.own t r n (by rw [hpc]; simp)
      rcases hR.loop t r hl with htq | hnt
      · exact stable hl htq
      · rw [hn] at hnt
        exact absurd hpos (ntime_of_notified hnt)
  · rw [step_pc_other hs t ha] at h
    exact stable (mustQ_loopRid h) (hR.must t r h)

/-! ### The invariant -/

theorem step_invR {s s' : State} {e : Event} (hr : Reachable s) (hR : InvR s)
    (hs : step s e = .ok s') : InvR s' := by
  obtain ⟨hA, hN, _, _, _, hK⟩ := hr.inv6
  have hU := hr.invU
  exact
    { own := hR.step_own hs
      mem := hR.step_mem hs
      pub := hR.step_pub hs
      wpub := hR.step_wpub hU hs
      wake := hR.step_wake hA hs
      waiting := hR.step_waiting hA hs
      qst := hR.step_qst hA hU hK hs
      est := hR.step_est hA hU hK hs
      estF := hR.step_estF hA hN hs
      unl := hR.step_unl hs
      loop := hR.step_loop hA hN hs
      must := hR.step_must hs }

theorem Reachable.invR {s : State} (h : Reachable s) : InvR s :=
  Reachable.induction (P := InvR) InvR.init (fun _ _ _ hr hi hs => step_invR hr hi hs) s h

end Note
