import NsyncVerif.Proofs.MuCTLScan
/-
  MuC, facts about one step: tactics that walk through the step function and hand every reachable
  leaf (an explicit successor state) to a closing tactic.
-/
namespace NsyncVerif.MuC

theorem addShare_wOwner (s : State) (t : Tid) (l : Mode) : (addShare s t l).wOwner = if l = .W then some t else s.wOwner := by
  cases l <;> rfl

theorem subShare_wOwner (s : State) (t : Tid) (l : Mode) : (subShare s t l).wOwner = if l = .W then none else s.wOwner := by
  cases l <;> rfl

/-! record fields other than `lnk` through the ring fix-ups -/

theorem wr_mergeLinks (s : State) (p n : Option Wid) (x : Wid) :
    ((mergeLinks s p n).wr x).waiting = (s.wr x).waiting ∧ ((mergeLinks s p n).wr x).lType = (s.wr x).lType ∧
    ((mergeLinks s p n).wr x).cond = (s.wr x).cond ∧ ((mergeLinks s p n).wr x).owner = (s.wr x).owner :=
  have h := lnkOnly_mergeLinks s p n x
  ⟨h.2.1, h.2.2.1, h.2.2.2.2.1, h.1⟩

theorem wr_removeLinks (s : State) (p : Option Wid) (k : Wid) (n : Option Wid) (x : Wid) :
    ((removeLinks s p k n).wr x).waiting = (s.wr x).waiting ∧ ((removeLinks s p k n).wr x).lType = (s.wr x).lType ∧
    ((removeLinks s p k n).wr x).cond = (s.wr x).cond ∧ ((removeLinks s p k n).wr x).owner = (s.wr x).owner :=
  have h := lnkOnly_removeLinks s p k n x
  ⟨h.2.1, h.2.2.1, h.2.2.2.2.1, h.1⟩

@[simp] theorem mergeLinks_wr_waiting (s : State) (p n : Option Wid) (x : Wid) : ((mergeLinks s p n).wr x).waiting = (s.wr x).waiting :=
  (wr_mergeLinks s p n x).1
@[simp] theorem mergeLinks_wr_lType (s : State) (p n : Option Wid) (x : Wid) : ((mergeLinks s p n).wr x).lType = (s.wr x).lType :=
  (wr_mergeLinks s p n x).2.1
@[simp] theorem mergeLinks_wr_cond (s : State) (p n : Option Wid) (x : Wid) : ((mergeLinks s p n).wr x).cond = (s.wr x).cond :=
  (wr_mergeLinks s p n x).2.2.1
@[simp] theorem mergeLinks_wr_owner (s : State) (p n : Option Wid) (x : Wid) : ((mergeLinks s p n).wr x).owner = (s.wr x).owner :=
  (wr_mergeLinks s p n x).2.2.2
@[simp] theorem removeLinks_wr_waiting (s : State) (p : Option Wid) (k : Wid) (n : Option Wid) (x : Wid) :
    ((removeLinks s p k n).wr x).waiting = (s.wr x).waiting := (wr_removeLinks s p k n x).1
@[simp] theorem removeLinks_wr_lType (s : State) (p : Option Wid) (k : Wid) (n : Option Wid) (x : Wid) :
    ((removeLinks s p k n).wr x).lType = (s.wr x).lType := (wr_removeLinks s p k n x).2.1
@[simp] theorem removeLinks_wr_cond (s : State) (p : Option Wid) (k : Wid) (n : Option Wid) (x : Wid) :
    ((removeLinks s p k n).wr x).cond = (s.wr x).cond := (wr_removeLinks s p k n x).2.2.1
@[simp] theorem removeLinks_wr_owner (s : State) (p : Option Wid) (k : Wid) (n : Option Wid) (x : Wid) :
    ((removeLinks s p k n).wr x).owner = (s.wr x).owner := (wr_removeLinks s p k n x).2.2.2

@[simp] theorem dequeue_wr_waiting (s : State) (k x : Wid) : ((dequeue s k).wr x).waiting = (s.wr x).waiting := by simp [dequeue]
@[simp] theorem dequeue_wr_lType (s : State) (k x : Wid) : ((dequeue s k).wr x).lType = (s.wr x).lType := by simp [dequeue]
@[simp] theorem dequeue_wr_cond (s : State) (k x : Wid) : ((dequeue s k).wr x).cond = (s.wr x).cond := by simp [dequeue]
@[simp] theorem dequeue_wr_owner (s : State) (k x : Wid) : ((dequeue s k).wr x).owner = (s.wr x).owner := by simp [dequeue]
@[simp] theorem enqLast_wr_waiting (s : State) (k x : Wid) : ((enqLast s k).wr x).waiting = (s.wr x).waiting := by simp [enqLast]
@[simp] theorem enqLast_wr_lType (s : State) (k x : Wid) : ((enqLast s k).wr x).lType = (s.wr x).lType := by simp [enqLast]
@[simp] theorem enqLast_wr_cond (s : State) (k x : Wid) : ((enqLast s k).wr x).cond = (s.wr x).cond := by simp [enqLast]
@[simp] theorem enqLast_wr_owner (s : State) (k x : Wid) : ((enqLast s k).wr x).owner = (s.wr x).owner := by simp [enqLast]
@[simp] theorem enqFirst_wr_waiting (s : State) (k x : Wid) : ((enqFirst s k).wr x).waiting = (s.wr x).waiting := by simp [enqFirst]
@[simp] theorem enqFirst_wr_lType (s : State) (k x : Wid) : ((enqFirst s k).wr x).lType = (s.wr x).lType := by simp [enqFirst]
@[simp] theorem enqFirst_wr_cond (s : State) (k x : Wid) : ((enqFirst s k).wr x).cond = (s.wr x).cond := by simp [enqFirst]
@[simp] theorem enqFirst_wr_owner (s : State) (k x : Wid) : ((enqFirst s k).wr x).owner = (s.wr x).owner := by simp [enqFirst]
@[simp] theorem dropW_wr_waiting (s : State) (o : Option Wid) (x : Wid) : ((dropW s o).wr x).waiting = (s.wr x).waiting := by
  cases o <;> simp [dropW, setFn]; split <;> simp_all
@[simp] theorem dropW_wr_lType (s : State) (o : Option Wid) (x : Wid) : ((dropW s o).wr x).lType = (s.wr x).lType := by
  cases o <;> simp [dropW, setFn]; split <;> simp_all
@[simp] theorem dropW_wr_cond (s : State) (o : Option Wid) (x : Wid) : ((dropW s o).wr x).cond = (s.wr x).cond := by
  cases o <;> simp [dropW, setFn]; split <;> simp_all
@[simp] theorem semPost_wr_waiting (cfg : Cfg) (s : State) (k x : Wid) : ((semPost cfg s k).wr x).waiting = (s.wr x).waiting := by
  simp [semPost, setFn]; split <;> simp_all
@[simp] theorem semPost_wr_lType (cfg : Cfg) (s : State) (k x : Wid) : ((semPost cfg s k).wr x).lType = (s.wr x).lType := by
  simp [semPost, setFn]; split <;> simp_all
@[simp] theorem semPost_wr_cond (cfg : Cfg) (s : State) (k x : Wid) : ((semPost cfg s k).wr x).cond = (s.wr x).cond := by
  simp [semPost, setFn]; split <;> simp_all

/-- a leaf of the walk: the equation `h : .ok <state> = .ok s'` (or an error) -/
syntax "tl_leaf " ident " => " tacticSeq : tactic
macro_rules
  | `(tactic| tl_leaf $h => $tac) => `(tactic| first | (cases $h:ident; done) | (cases $h:ident; ($tac)))

/-- First half of the program points at which a load is prescribed. -/
def PC.ldA : PC → Bool
  | .lkLd _ | .tryLd _ | .lsLd _ | .lsRelLd _ | .lsWaitLd _ | .ulLd _ _ | .usLd _ | .usRelLd _ _ | .usReLd _ _ | .usRcLd _ _ _
  | .usFinLd _ _ => true
  | _ => false

/-- loads; a hypothesis `hp : (s.pc t).ldA = true/false` in the context restricts the walk -/
syntax "walk_ld " ident " => " tacticSeq : tactic
set_option hygiene false in
macro_rules
  | `(tactic| walk_ld $h => $tac) => `(tactic|
    (unfold stepLd at $h:ident
     split at $h:ident
     all_goals (try (rename_i heq; rw [heq] at hp; simp [PC.ldA] at hp; done))
     all_goals (try dsimp only at $h:ident)
     all_goals (try simp only [ldWord, ldWaiting] at $h:ident)
     all_goals (repeat' split at $h:ident)
     all_goals (tl_leaf $h => $tac)))

syntax "walk_st " ident " => " tacticSeq : tactic
macro_rules
  | `(tactic| walk_st $h => $tac) => `(tactic|
    (unfold stepSt at $h:ident
     split at $h:ident
     all_goals (try dsimp only at $h:ident)
     all_goals (repeat' split at $h:ident)
     all_goals (tl_leaf $h => $tac)))

syntax "walk_call " ident ident " => " tacticSeq : tactic
macro_rules
  | `(tactic| walk_call $h $a => $tac) => `(tactic|
    (unfold stepCall at $h:ident
     split at $h:ident
     · (cases $a:ident <;> dsimp only at $h:ident
        all_goals (repeat' split at $h:ident)
        all_goals (tl_leaf $h => $tac))
     · cases $h:ident))

syntax "walk_ret " ident " => " tacticSeq : tactic
macro_rules
  | `(tactic| walk_ret $h => $tac) => `(tactic|
    (unfold stepRet at $h:ident
     split at $h:ident
     all_goals (try dsimp only at $h:ident)
     all_goals (repeat' split at $h:ident)
     all_goals (tl_leaf $h => $tac)))

/-- the semaphore / note events (`h : step cfg s e = .ok s'` with `e` a constructor application) -/
syntax "walk_sem " ident " => " tacticSeq : tactic
macro_rules
  | `(tactic| walk_sem $h => $tac) => `(tactic|
    (simp only [step] at $h:ident
     repeat' split at $h:ident
     all_goals (tl_leaf $h => $tac)))

/-- First half of the CAS program points (the walk over all of them exceeds the default heartbeat budget). -/
def PC.casA : PC → Bool
  | .lkCas0 _ | .lkCas1 _ _ | .tryCas0 _ | .tryCas1 _ _ | .lsCasAcq _ _ | .lsCasEnq _ _ | .lsRelCas _ _ | .ulCas0 _ _ | .ulCas1 _ _ _
  | .usCasUnc _ _ | .usCasGrab _ _ => true
  | _ => false

/-- CAS steps.  A hypothesis `hp : (s.pc t).casA = true/false` in the context restricts the walk.  `h1 : Inv1 s` and `hoth : SameOther s s' t` must be in the context under these names; `proj` projects
    the wanted component out of `StepTL` (for the leaves that continue with the scan). -/
syntax "walk_cas " ident term " => " tacticSeq : tactic
set_option hygiene false in
macro_rules
  | `(tactic| walk_cas $h $proj => $tac) => `(tactic|
    (unfold stepCas at $h:ident
     split at $h:ident
     all_goals first
       | (cases $h:ident; done)
       | (rename_i heq; rw [heq] at hp; simp [PC.casA] at hp; done)
       | (rename_i heq
          rcases casWord_ok $h with ⟨hw, -, hs'⟩ | ⟨hw, -, hs'⟩ <;> subst hs' <;> clear $h hoth <;> (repeat' split) <;> ($tac))
       | (rename_i heq
          rcases casWordE_ok $h with ⟨hw, -, hs'⟩ | ⟨hw, -, hs'⟩
          · first
            | exact $proj (ScanStep.tl (scanStep_grab heq hw hs') hoth)
            | exact $proj (ScanStep.tl (scanStep_rel h1 heq hs' hw) hoth)
            | exact $proj (ScanStep.tl (scanStep_re h1 heq hs' hw) hoth)
          · subst hs'; clear $h hoth; ($tac))
       | (rename_i heq
          split at $h:ident <;> first
            | (cases $h:ident; done)
            | (rcases casWord_ok $h with ⟨hw, -, hs'⟩ | ⟨hw, -, hs'⟩ <;> subst hs' <;> clear $h hoth <;> (repeat' split) <;> ($tac)))
       | (rename_i heq
          repeat' split at $h:ident
          all_goals first
            | (cases $h:ident; done)
            | exact $proj (ScanStep.tl (scanStep_rc h1 heq $h) hoth)
            | (cases $h:ident; clear hoth; ($tac)))))

/-- condition evaluations; same context conventions as `walk_cas` -/
syntax "walk_cond " ident term " => " tacticSeq : tactic
set_option hygiene false in
macro_rules
  | `(tactic| walk_cond $h $proj => $tac) => `(tactic|
    (unfold stepCond at $h:ident
     dsimp only at $h:ident
     split at $h:ident
     · (rename_i heq
        repeat' split at $h:ident
        all_goals (tl_leaf $h => $tac))
     · (rename_i heq
        repeat' split at $h:ident
        all_goals first
          | (cases $h:ident; done)
          | exact $proj (ScanStep.tl (scanStep_eval h1 heq $h) hoth))
     · cases $h:ident))

end NsyncVerif.MuC
