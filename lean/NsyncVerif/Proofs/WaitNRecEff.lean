/-
  Proofs/WaitNRecEff.lean — what one step can do to the fields `waiting`, `unl`, `deqd` of a waiter record
  (`RecEff`): `waiting` is cleared only by a cv signaller on the head of its wake list, by a note / counter
  waker that pops the record (and marks it `unl = waker`), or by the owner's own dequeue; `unl` changes only
  to `waker`, or to `owner` in the owner's dequeue of a record that is still queued, or at (re-)initialisation
  of a dead record; `deqd` is only reset by re-initialisation.
-/
import NsyncVerif.Proofs.WaitNQInv

set_option linter.unusedSimpArgs false
set_option linter.unusedVariables false

namespace WaitN

structure RecEff (s s' : State) (u : Tid) : Prop where
  wfalse : ∀ r, (s.rcd r).waiting = true → (s'.rcd r).waiting = false →
      (∃ c l, wk (s.pc u) = some (c, l) ∧ s.post u = none ∧ l.head? = some r ∧ (s'.rcd r).unl = (s.rcd r).unl)
      ∨ (s'.rcd r).unl = .waker
      ∨ (∃ j, s.pc u = .wDeqCv j .store ∧ (s.fr u).recs[j]? = some r ∧ (s'.rcd r).unl = .owner)
      ∨ (∃ j, ((∃ st, s.pc u = .wDeq j st) ∨ (∃ st, s.pc u = .wEnq j st)) ∧ (s.fr u).recs[j]? = some r)
      ∨ (s.rcd r).live = false
  unl : ∀ r, (s'.rcd r).unl ≠ (s.rcd r).unl →
      (s'.rcd r).unl = .waker ∨ (s.rcd r).live = false
      ∨ ((s'.rcd r).unl = .owner ∧ (∃ o, r ∈ (s.obj o).queue)
          ∧ ∃ j, (s.pc u = .wDeqCv j .store ∨ ∃ st, s.pc u = .wDeq j st) ∧ (s.fr u).recs[j]? = some r)
  deqd : ∀ r, (s.rcd r).deqd = true → (s'.rcd r).deqd = true ∨ (s.rcd r).live = false

theorem RecEff.of_eq {s s' : State} {u : Tid} (hr : s'.rcd = s.rcd) : RecEff s s' u := by
  constructor
  · intro r h1 h2; rw [hr, h1] at h2; cases h2
  · intro r h; rw [hr] at h; exact absurd rfl h
  · intro r h; rw [hr]; exact .inl h

theorem RecEff.refl (s : State) (u : Tid) : RecEff s s u := RecEff.of_eq rfl

theorem RecEff.trans_eq {s s1 s2 : State} {u : Tid} (a : RecEff s s1 u) (hr : s2.rcd = s1.rcd) :
    RecEff s s2 u := by
  constructor
  · intro r h1 h2; rw [hr] at h2; rw [hr]; exact a.wfalse r h1 h2
  · intro r h; rw [hr] at h; rw [hr]; exact a.unl r h
  · intro r h; rw [hr]; exact a.deqd r h

macro "receff_eq" : tactic => `(tactic| (apply RecEff.of_eq; (first | rfl | (simp; done))))

theorem rcd_bindSem {s s' : State} {owner : Tid} {j : SemId} (h : bindSem s owner j = some s') :
    s'.rcd = s.rcd := by
  unfold bindSem at h
  split at h
  · split at h
    · cases h; rfl
    · cases h
  · split at h
    · cases h
    · cases h; rfl

theorem rcd_postSem {s s' : State} {r : Rid} {j : SemId} (h : postSem s r j = some s') :
    s'.rcd = s.rcd := by
  unfold postSem at h
  split at h
  · exact rcd_bindSem h
  · cases h; rfl

theorem receff_dflt {s s' : State} {u : Tid} {e : Ev} (h : dflt s u e = .ok s') : RecEff s s' u :=
  RecEff.of_eq (shared_dflt h).2.1

theorem receff_rtDone {s s' : State} {t : Tid} {u : Use} {i : Nat} {time : Deadline}
    (h : rtDone s t u i time = .ok s') : RecEff s s' t := RecEff.of_eq (shared_rtDone h).2.1

theorem receff_deqDone {s s' : State} {t : Tid} {j : Nat} {res : Bool}
    (h : deqDone s t j res = .ok s') : RecEff s s' t := RecEff.of_eq (shared_deqDone h).2.1

theorem receff_afterEnq {s s' : State} {t : Tid} {i : Nat} {res : Bool}
    (h : afterEnq s t i res = .ok s') : RecEff s s' t := RecEff.of_eq (shared_afterEnq h).2.1

theorem receff_spinAcq {s s' : State} {t : Tid} {c : Nat} {st : SpinSt} {mk : SpinSt → PC} {done : PC} {e : Ev}
    (h : spinAcq s t c st mk done e = .ok s') : RecEff s s' t := by
  unfold spinAcq at h
  split_ok h
  all_goals first
    | exact receff_dflt h
    | (cases h; receff_eq)

macro "receff_leaf" h:ident : tactic =>
  `(tactic| first
    | exact receff_dflt $h
    | exact receff_rtDone $h
    | exact receff_deqDone $h
    | exact receff_afterEnq $h
    | exact receff_spinAcq $h
    | (cases $h:ident; first
        | exact RecEff.refl _ _
        | receff_eq
        | (apply RecEff.of_eq; unfold startScan; rfl)
        | (apply RecEff.of_eq; simp only [setPc_rcd, setPost_rcd, setSem_rcd, setFr_rcd, setMc_rcd, setObj_rcd]
           first
             | exact rcd_postSem ‹postSem _ _ _ = some _›
             | exact rcd_bindSem ‹bindSem _ _ _ = some _›)))

end WaitN
