import NsyncVerif.Proofs.MuCInv2Api
/-
  MuC: the spinlock invariant (I_spin): MU_SPINLOCK is owned by exactly the thread whose program
  point lies in a region that holds it.
-/
namespace NsyncVerif.MuC

/-- The program points at which the thread holds MU_SPINLOCK. -/
def PC.spin : PC → Bool
  | .lsSt _ | .lsRelLd _ | .lsRelCas _ _ => true
  | .usRelLd _ _ | .usRelCas _ _ _ => true
  | .usRcLd _ sc _ | .usRcCas _ sc _ _ => !sc.tc
  | .usFinLd _ _ | .usFinCas _ _ _ => true
  | .mwRelLd _ | .mwRelCas _ _ _ => true
  | .mtLdW _ _ | .mtLdRc _ _ | .mtRmLd _ _ | .mtRmCas _ _ _ | .mtStW _ _ | .mtStRel _ _ _ => true
  | _ => false

/-- Local facts needed for (I_spin): a CAS that takes the spinlock expects a word without it; the
    spinlock is released (mu.c:354) only while testing conditions. -/
def PC.ok3 : PC → Prop
  | .usReCas _ sc old => old.spin = false ∧ sc.tc = true
  | .lsCasEnq _ old | .usCasGrab _ old | .mwEnqCas _ old | .mtCasAcq _ old | .mtCasWW _ old
  | .mtLdW _ old | .mtLdRc _ old | .mtRmLd _ old | .mtRmCas _ old _ | .mtStW _ old | .mtStRel _ old _ => old.spin = false
  | .usRelLd _ sc | .usRelCas _ sc _ | .usEval _ sc | .usReLd _ sc => sc.tc = true
  | _ => True

structure Inv3 (s : State) : Prop where
  own : ∀ t, s.sp = some t ↔ (s.pc t).spin = true
  bit : s.word.spin = s.sp.isSome
  ok3 : ∀ t, (s.pc t).ok3

/-- A step of `t` that leaves the spinlock alone. -/
theorem Inv3.local {s s' : State} (t : Tid) (h : Inv3 s) (hw : s'.word.spin = s.word.spin) (hsp : s'.sp = s.sp)
    (hpc : ∀ u, u ≠ t → s'.pc u = s.pc u) (hspin : (s'.pc t).spin = (s.pc t).spin) (hok : (s'.pc t).ok3) : Inv3 s' := by
  refine ⟨fun u => ?_, by rw [hw, hsp]; exact h.bit, fun u => ?_⟩
  · by_cases hu : u = t
    · subst hu; rw [hsp, hspin]; exact h.own u
    · rw [hsp, hpc u hu]; exact h.own u
  · by_cases hu : u = t
    · subst hu; exact hok
    · rw [hpc u hu]; exact h.ok3 u

/-- `t` takes the free spinlock. -/
theorem Inv3.take {s s' : State} (t : Tid) (h : Inv3 s) (hfree : s.word.spin = false)
    (hw : s'.word.spin = true) (hsp : s'.sp = some t)
    (hpc : ∀ u, u ≠ t → s'.pc u = s.pc u) (hspin : (s'.pc t).spin = true) (hok : (s'.pc t).ok3) : Inv3 s' := by
  have hnone : s.sp = none := by
    have := h.bit; rw [hfree] at this
    cases hs : s.sp with
    | none => rfl
    | some x => rw [hs] at this; cases this
  refine ⟨fun u => ?_, by rw [hw, hsp]; rfl, fun u => ?_⟩
  · by_cases hu : u = t
    · subst hu; rw [hsp, hspin]; simp
    · rw [hsp, hpc u hu]
      constructor
      · intro e; cases e; exact absurd rfl hu
      · intro e; have := (h.own u).2 e; rw [hnone] at this; cases this
  · by_cases hu : u = t
    · subst hu; exact hok
    · rw [hpc u hu]; exact h.ok3 u

/-- `t`, the owner, gives the spinlock up. -/
theorem Inv3.give {s s' : State} (t : Tid) (h : Inv3 s) (ht : (s.pc t).spin = true)
    (hw : s'.word.spin = false) (hsp : s'.sp = none)
    (hpc : ∀ u, u ≠ t → s'.pc u = s.pc u) (hspin : (s'.pc t).spin = false) (hok : (s'.pc t).ok3) : Inv3 s' := by
  have hown := (h.own t).2 ht
  refine ⟨fun u => ?_, by rw [hw, hsp]; rfl, fun u => ?_⟩
  · by_cases hu : u = t
    · subst hu; rw [hsp, hspin]; simp
    · rw [hsp, hpc u hu]
      constructor
      · intro e; cases e
      · intro e; have := (h.own u).2 e; rw [hown] at this; cases this; exact absurd rfl hu
  · by_cases hu : u = t
    · subst hu; exact hok
    · rw [hpc u hu]; exact h.ok3 u

/-- The plain code of the scan stops at a program point that holds the spinlock iff it is not
    testing conditions. -/
theorem scanRun_spin : ∀ (n : Nat) (s : State) (t : Tid) (r : Ret) (sc : Scan) (s' : State),
    scanRun n s t r sc = .ok s' → (s'.pc t).spin = !sc.tc ∧ (s'.pc t).ok3 := by
  intro n
  induction n with
  | zero => intro s t r sc s' h; simp [scanRun] at h
  | succ n ih =>
    intro s t r sc s' h
    unfold scanRun at h
    have hsp := scanGo_spec s.wr sc.todo sc
    split at h
    · cases h
    · rename_i k sc' heq
      rw [heq] at hsp
      simp only [Except.ok.injEq] at h; subst h
      simp [PC.spin, PC.ok3, hsp.2.2.1, hsp.2.1 ▸ hsp.2.2.1]
    · rename_i k sc' heq
      rw [heq] at hsp
      simp only [Except.ok.injEq] at h; subst h
      simp [PC.spin, PC.ok3, hsp.2]
    · rename_i sc' heq
      rw [heq] at hsp
      split at h
      · rename_i htc
        simp only [Except.ok.injEq] at h; subst h
        simp [PC.spin, PC.ok3, htc, ← hsp.2]
      · rename_i htc
        have htc0 : sc.tc = false := by rw [← hsp.2]; simpa using htc
        split at h
        · simp only [Except.ok.injEq] at h; subst h
          simp [toFin, PC.spin, PC.ok3, htc0]
        · rename_i s1 sc2 hp
          have e2 : (pickup s sc').2 = some sc2 := by rw [hp]
          obtain ⟨hl, htc2⟩ := pickup_some e2
          split at h
          · rename_i h2; exact absurd (htc2 h2) htc
          · rename_i h2
            have := ih _ t r sc2 s' h
            simp only [Bool.not_eq_true] at h2
            rw [h2] at this; rw [htc0]; exact this

theorem afterPickup_spin {s : State} {sc0 : Scan} {t : Tid} {r : Ret} {s' : State}
    (h : afterPickup (pickup s sc0) t r sc0 = .ok s') : (s'.pc t).spin = true ∧ (s'.pc t).ok3 := by
  unfold afterPickup at h
  split at h
  · simp only [Except.ok.injEq] at h; subst h
    simp [toFin, PC.spin, PC.ok3]
  · rename_i s1 sc2 hp
    split at h
    · rename_i h2
      simp only [Except.ok.injEq] at h; subst h
      simp [PC.spin, PC.ok3, h2]
    · rename_i h2
      have := scanRun_spin _ _ t r sc2 s' h
      simp only [Bool.not_eq_true] at h2
      rw [h2] at this; exact this

theorem afterEval_spin {s : State} {sc : Scan} {t : Tid} {r : Ret} {res : Bool} {s' : State}
    (h : afterEval s t r sc res = .ok s') (htc : sc.tc = true) : (s'.pc t).spin = false ∧ (s'.pc t).ok3 := by
  unfold afterEval at h
  split at h
  · cases h
  · rename_i k rest hk
    split at h
    · have := scanRun_spin 3 s t r { sc with passed := (skipPast s.wr sc.passed k rest).1, todo := (skipPast s.wr sc.passed k rest).2 } s' h
      simpa [htc] using this
    · split at h
      · rename_i k' sc' hw
        obtain ⟨sc'', he, h1, h2⟩ := wakeOrPass_inl hw
        simp only [ScanRes.remove.injEq] at he
        obtain ⟨rfl, rfl⟩ := he
        simp only [Except.ok.injEq] at h; subst h
        simp [PC.spin, PC.ok3, h2, htc]
      · cases h
      · rename_i sc' hw
        obtain ⟨h1, h2, _⟩ := wakeOrPass_inr hw
        have := scanRun_spin _ _ t r sc' s' h
        simpa [h2, htc] using this

end NsyncVerif.MuC
