/-
  Layer `Note`, invariant family P, second part: who may change a children list, a `disconnecting`
  counter, a `children_adopted` flag.
-/
import NsyncVerif.Proofs.NoteFixP1

set_option linter.unusedSimpArgs false

namespace Note

/-- A children list is changed only by a thread that holds the list owner's mutex. -/
theorem forest_change_lock {s s' : State} {e : Event} (hS : InvS s) (hL : InvL s)
    (hs : step s e = .ok s') {m : NoteId}
    (h : (s'.notes m).children ≠ (s.notes m).children) :
    ∃ a, e.actor = some a ∧ m ∈ (s.pc a).held := by
  rcases step_forest hS hL hs with hf | ⟨a, c0, p0, dl, ha, hpc, _, _, hf⟩ |
    ⟨a, n0, p0, c0, nx, ha, hpc, _, hf⟩ | ⟨a, n0, c0, nx, ha, hpc, _, hf⟩ |
    ⟨a, c0, p0, ha, hun, _, hf⟩
  · exact absurd (hf m).1 h
  · rw [(hf m).1] at h
    split at h
    · next hm => subst hm; exact ⟨a, ha, by rw [hpc]; simp [PC.held]⟩
    · exact absurd rfl h
  · rw [(hf m).1] at h
    split at h
    · next hm => subst hm; exact ⟨a, ha, by rw [hpc]; simp [PC.held]⟩
    · split at h
      · next hm => subst hm; exact ⟨a, ha, by rw [hpc]; simp [PC.held]⟩
      · exact absurd rfl h
  · rw [(hf m).1] at h
    split at h
    · next hm => subst hm; exact ⟨a, ha, by rw [hpc]; simp [PC.held]⟩
    · exact absurd rfl h
  · rw [(hf m).1] at h
    split at h
    · next hm => subst hm; exact ⟨a, ha, held_unlinks hun⟩
    · exact absurd rfl h

/-- Nobody is counted on a note that is not allocated. -/
theorem disc_unalloc {s : State} (hr : Reachable s) {k : NoteId}
    (hk : (s.notes k).allocated = false) : (s.notes k).disconnecting = 0 := by
  obtain ⟨_, hN, hS, _, hL, _⟩ := hr.inv6
  cases hd : (s.notes k).disconnecting with
  | zero => rfl
  | succ j =>
    obtain ⟨t, ht⟩ := hr.invForest.cnt_pos (n := k) (by omega)
    have := cntOf_alloc hN hS hL ht
    rw [hk] at this; cases this

/-- `x->disconnecting` is decremented only by a thread that holds `x->note_mu`, or acquires it at
    that very step. -/
theorem dec_needs_lock {s s' : State} {e : Event} (hr : Reachable s) (hs : step s e = .ok s')
    {x : NoteId} (h : (s'.notes x).disconnecting < (s.notes x).disconnecting) :
    ∃ a, e.actor = some a ∧ (x ∈ (s.pc a).held ∨ (s.notes x).lockHolder = none) := by
  have hL := hr.inv6.2.2.2.2.1
  -- the end of an activation of note_notify_child
  have key : ∀ (s1 : State) (t : Tid) (pos : CPos) (f : Frame) (rest : List Frame) (top : Top),
      s.pc t = .chd pos (f :: rest) top →
      (∀ n, (s1.notes n).disconnecting = (s.notes n).disconnecting) →
      ((childReturn s1 t f rest top).notes x).disconnecting < (s.notes x).disconnecting →
      x = f.note := by
    intro s1 t pos f rest top hpc hd hlt
    simp only [childReturn_f_disconnecting, childUnlink_f_disconnecting, hd] at hlt
    split at hlt
    · next hdec =>
      cases rest with
      | cons g gs => simpa [childReturnDec] using hdec.symm
      | nil =>
        have hft : f.note = top.n := by simpa using (hL.claim_of hpc).2.2.1
        cases hp : top.par <;> simp [childReturnDec, hp] at hdec
        rw [hft]; exact hdec.symm
    · exact absurd hlt (Nat.lt_irrefl _)
  cases e
  all_goals step_cases hs
  all_goals (try (exact absurd h (Nat.lt_irrefl _)))
  all_goals (try (simp at h; done))
  all_goals (repeat' split at h)
  all_goals (try (simp at h; done))
  -- increments
  all_goals (try (
    exfalso
    simp only [setPc_notes, enterChild_notes, freeLoopStart_f_disconnecting,
      incDisc_f_disconnecting, acquire_f_disconnecting] at h
    split at h <;> omega))
  -- the end of an activation (from `ld`: all mutexes of the stack are held)
  all_goals (try (
    have hpc := ‹s.pc _ = PC.chd CPos.ld _ _›
    have hx := key _ _ _ _ _ _ hpc (fun _ => rfl) h
    subst hx
    exact ⟨_, rfl, Or.inl (by rw [hpc]; simp_all [PC.held])⟩))
  -- the end of an activation (from WAIT_FOR_NO_CHILDREN)
  all_goals (try (
    have hpc := ‹s.pc _ = PC.chd (CPos.waitRet _) _ _›
    have hx := key _ _ _ _ _ _ hpc (fun _ => by simp) h
    subst hx
    first
      | exact ⟨_, rfl, Or.inr ‹(s.notes _).lockHolder = none›⟩
      | exact ⟨_, rfl, Or.inl (by rw [hpc]; simp_all [PC.held])⟩))
  -- `n->disconnecting--`
  all_goals (try (
    have hpc := ‹s.pc _ = _›
    simp only [setPc_notes, decDisc_f_disconnecting, acquire_f_disconnecting] at h
    split at h
    · next hx =>
      subst hx
      first
        | exact ⟨_, rfl, Or.inr ‹(s.notes _).lockHolder = none›⟩
        | exact ⟨_, rfl, Or.inl (by rw [hpc]; simp_all [PC.held])⟩
    · exact absurd h (Nat.lt_irrefl _)))
  -- malloc
  all_goals (
    exfalso
    have hfresh := ‹(s.notes _).allocated = false›
    simp only [setPc_notes, allocNote_f] at h
    split at h
    · next hx => subst hx; rw [disc_unalloc hr hfresh] at h; simp [NoteRec.blank] at h
    · exact absurd h (Nat.lt_irrefl _))

/-- The `disconnecting` counter of a note that stays linked under its parent does not return to
    zero: a disconnector that leaves without disconnecting the note has seen another one. -/
theorem dec_safe {s s' : State} {e : Event} (hr : Reachable s) (hP : InvScan s)
    (hs : step s e = .ok s') {x m : NoteId} (hp : (s.notes x).parent = some m)
    (hp' : (s'.notes x).parent = some m) (hd : (s.notes x).disconnecting ≠ 0) :
    (s'.notes x).disconnecting ≠ 0 := by
  obtain ⟨_, _, hS, _, hL, _⟩ := hr.inv6
  have hF := hr.invForest
  cases hact : e.actor with
  | none =>
    obtain ⟨_, _, _, h4⟩ := step_noactor hs hact
    rw [h4]; exact hd
  | some a =>
    rcases step_sec hs a hact (hL.chd_ne_nil a) with ⟨_, _, hdd⟩ |
      ⟨m1, par1, _, _, _, _, _, _, _, hdd⟩ | ⟨m1, par1, h1, _, _, _, _, hpos, hdd⟩ |
      ⟨k, hk, _, _, _, hdd, _⟩ | ⟨c, _, _, _, _, _, hdd⟩ | ⟨c, _, _, _, hun, hdd⟩
    · rw [hdd x]; exact hd
    · rw [hdd x]; split <;> omega
    · rw [hdd x]
      split
      · next hx =>
        subst hx
        have hst := hF.stale a x par1 h1
        rcases hpos with rfl | ⟨nk, hpc⟩ | ⟨c, nx, hpc⟩
        · rcases hst with h | h <;> (rw [hp] at h; cases h)
        · cases par1 with
          | none => rcases hst with h | h <;> (rw [hp] at h; cases h)
          | some p =>
            rcases hP.tail a _ x p nk hpc rfl with h | h
            · rw [hp] at h; cases h
            · omega
        · have := (hr.invLive.done a _ x par1 c nx hpc rfl).1
          rw [hp] at this; cases this
      · exact hd
    · have hxa : (s.notes x).allocated = true := hS.alloc_of_anc (hS.parent m x hp).1
      have hne : x ≠ k := fun e' => by subst e'; rw [hk] at hxa; cases hxa
      rw [hdd x hne]; exact hd
    · rw [hdd x]; split <;> omega
    · rw [hdd x]
      split
      · next hx =>
        subst hx
        by_cases h1 : (s.notes x).disconnecting = 1
        · have := hun h1
          rw [hp'] at this; cases this
        · omega
      · exact hd

end Note
