/-
  Layer `CvFix`, liveness, the waiter's side: a wait whose record has been unlinked by a waker
  ("covered by a wake-up") leaves its loop (`covered_exits`) and returns 0 (`covered_returns`).
-/
import NsyncVerif.Proofs.CvFixFairWaitCov

namespace NsyncVerif.CvFix

variable {cfg : Config} {s0 : State}

/-- Distance to the loop exit once `waiting = 0`. -/
def rkD (x : Thr) : Nat :=
  match x.loc with
  | .wEnq => 22 | .wRel => 21 | .wUnlock => 20 | .wUnlocking => 19 | .wSemEnter => 18 | .cPre => 18
  | .wSemRet => 17 | .cWait => 17 | .cPost => 16 | .wChk => 15 | .spLd0 | .spLd2 | .spCas => 14
  | .wChk2 => 13 | .wCmp => 12 | .wRmLd => 11 | .wRmCas => 10 | .wClr => 9 | .wRel2 => 8
  | .wTail => 7 | .wHead => 6 | _ => 0

theorem rkD_loc {a b : Thr} (h : b.loc = a.loc) : rkD b = rkD a := by unfold rkD; rw [h]

/-- With `waiting = 0` every edge from a program point of the loop (outside the test-and-set loop and
    the self-removal) leads to the exit or closer to it. -/
theorem succ_rank {x y : Thr} {e : Bool} {u : List Unl} (hl : waitLive x = true)
    (hs : WSucc x y false e u) (hns : x.loc.spinLoop = false)
    (h1 : x.loc ≠ .wRmLd) (h2 : x.loc ≠ .wRmCas) (h3 : x.loc ≠ .wClr) :
    (y.loc = .wExit ∧ y.exitUnl = u) ∨ (waitLive y = true ∧ rkD y < rkD x) := by
  unfold WSucc at hs
  unfold waitLive at hl
  cases hx : x.loc <;> simp only [hx] at hs hl hns h1 h2 h3 <;>
    first
      | (cases hl; done)
      | (exact absurd rfl h1)
      | (exact absurd rfl h2)
      | (exact absurd rfl h3)
      | (cases hns; done)
      | (right; simp_all [waitLive, rkD]; done)
      | (rcases hs with hs | hs | hs <;> simp_all [waitLive, rkD])
      | (rcases hs with hs | hs <;> simp_all [waitLive, rkD] <;>
          (rcases hs with ⟨_, hs | hs⟩ <;> simp_all [waitLive, rkD]))

/-- Any edge from a program point of the loop stays in the loop or is the exit. -/
theorem waitLive_succ {x y : Thr} {w e : Bool} {u : List Unl} (hl : waitLive x = true)
    (hs : WSucc x y w e u) : (y.loc = .wExit ∧ y.exitUnl = u) ∨ waitLive y = true := by
  unfold WSucc at hs
  have hl' := hl
  unfold waitLive at hl'
  cases hx : x.loc <;> simp only [hx] at hs hl' <;>
    first
      | (cases hl'; done)
      | (right; simp_all [waitLive]; done)
      | (rcases hs with hs | hs | hs <;> simp_all [waitLive, Loc.spinLoop]; done)
      | (rcases hs with ⟨_, h1, h2⟩ | ⟨_, _, h | h⟩ | ⟨_, _, h⟩ <;> simp_all [waitLive]; done)
      | (rcases hs with hs | hs <;> simp_all [waitLive] <;>
          (rcases hs with ⟨_, hs | hs⟩ <;> simp_all [waitLive]); done)
      | (right
         have hc : x.cont = .waitChk := by simpa using hl'
         rcases hs with ⟨h, hcc⟩ | ⟨h, _⟩ | ⟨_, h⟩
         · unfold waitLive; cases hy : y.loc <;> simp_all [Loc.spinLoop]
         · rw [hc] at h; cases h
         · simp [waitLive, h])

theorem waitLive_inWait {x : Thr} (h : waitLive x = true) : inWait x = true := by
  simp [inWait, h]

theorem waitLive_same {a b : Thr} (hl : waitLive a = true) (h1 : b.loc = a.loc) (h2 : b.cont = a.cont) :
    waitLive b = true := by
  unfold waitLive at *; rw [h1, h2]; exact hl

/-- The run invariant of a covered wait. -/
def CovAt (x : Exec cfg s0) (t : Tid) (r : Rid) (U : List Unl) (j : Nat) : Prop :=
  waitLive ((x.ρ j).thr t) = true ∧ ((x.ρ j).thr t).r = r ∧ Cov ((x.ρ j).recs r).stat ∧
  ((x.ρ j).recs r).unl = U ∧ ((x.ρ j).recs r).owner = t

theorem cov_exec_step (x : Exec cfg s0) (hr : Reachable cfg s0) {t : Tid} {r : Rid} {U : List Unl}
    {j : Nat} (h : CovAt x t r U j) :
    (((x.ρ (j + 1)).thr t).loc = .wExit ∧ ((x.ρ (j + 1)).thr t).exitUnl = U) ∨ CovAt x t r U (j + 1) := by
  obtain ⟨q1, q2, q3, q4, q5⟩ := h
  have hi := x.inv hr j
  obtain ⟨a, k, _⟩ := exec_wait_step x (waitLive_inWait q1)
  -- the thread's side
  have hthr : (((x.ρ (j + 1)).thr t).loc = .wExit ∧ ((x.ρ (j + 1)).thr t).exitUnl = U) ∨
      (waitLive ((x.ρ (j + 1)).thr t) = true ∧ ((x.ρ (j + 1)).thr t).r = r) := by
    have hrr : waitLive ((x.ρ (j + 1)).thr t) = true → ((x.ρ (j + 1)).thr t).r = r := by
      intro hw
      have hn := (inWait_not_misc (waitLive_inWait hw)).1
      have hnw : ((x.ρ j).thr t).loc ≠ .wNew := by
        intro h; unfold waitLive at q1; rw [h] at q1; cases q1
      rw [k.1 hnw hn]; exact q2
    rcases a with ⟨a1, a2⟩ | a
    · have := waitLive_same q1 a1 a2
      exact .inr ⟨this, hrr this⟩
    · rcases waitLive_succ q1 a with h | h
      · rw [q2, q4] at h; exact .inl h
      · exact .inr ⟨h, hrr h⟩
  rcases hthr with h | ⟨h1, h2⟩
  · exact .inl h
  · right
    -- the record's side
    cases hs : x.σ j with
    | none =>
      have := x.next_none hs
      refine ⟨h1, h2, ?_, ?_, ?_⟩ <;> rw [this]
      · exact q3
      · exact q4
      · exact q5
    | some e =>
      rcases cov_stable (x.next_some hs) hi q1 (by rw [q2]; exact q3) with h | ⟨c1, c2, c3⟩
      · exfalso; unfold waitLive at h1; rw [h] at h1; cases h1
      · rw [q2] at c1 c2 c3
        exact ⟨h1, h2, c1, c2.trans q4, c3.trans q5⟩

/-- `CovAt` holds until the exit. -/
theorem cov_until (x : Exec cfg s0) (hr : Reachable cfg s0) {t : Tid} {r : Rid} {U : List Unl}
    {i : Nat} (h : CovAt x t r U i) : ∀ d,
    (∃ j, i ≤ j ∧ ((x.ρ j).thr t).loc = .wExit ∧ ((x.ρ j).thr t).exitUnl = U) ∨ CovAt x t r U (i + d) := by
  intro d
  induction d with
  | zero => exact .inr h
  | succ d ih =>
    rcases ih with h' | h'
    · exact .inl h'
    · rcases cov_exec_step x hr h' with h'' | h''
      · exact .inl ⟨i + d + 1, by omega, h''⟩
      · exact .inr h''

/-- A strictly decreasing chain of natural numbers is finite. -/
theorem no_descent {f : Nat → Nat} {j0 : Nat} (h : ∀ j, j0 ≤ j → ∃ j', j ≤ j' ∧ f j' < f j) : False := by
  have key : ∀ n j, j0 ≤ j → f j ≤ n → False := by
    intro n
    induction n with
    | zero => intro j hj hn; obtain ⟨j', _, h2⟩ := h j hj; omega
    | succ n ih =>
      intro j hj hn
      obtain ⟨j', h1, h2⟩ := h j hj
      exact ih j' (by omega) (by omega)
  exact key (f j0) j0 (Nat.le_refl _) (Nat.le_refl _)

/-- The V of a waker for the current instance of a woken record sets `posted`. -/
theorem semV_posts {cfg : Config} {s s' : State} {u : Tid} {k : SemId} {r : Rid} {q : Nat}
    (hs : step cfg s (.semV u k) = .ok s') (hl : (s.thr u).loc = .wwV)
    (hc : (s.thr u).cur = some (r, q)) (hq : (s.recs r).enqSeq = q) (hw : (s.recs r).stat = .woken) :
    (s'.recs r).posted = true := by
  simp only [step, stepSemV, hl, hc, need_ok] at hs
  obtain ⟨_, hs⟩ := hs
  cases hs
  simp [hq, hw]

/-- A wait that has left its loop returns (the caller's mutex is re-acquired: `MutexFair`). -/
theorem exit_returns (x : Exec cfg s0) (hy : WaitHyps x) {t : Tid} : ∀ (n j : Nat),
    ((x.ρ j).thr t).loc.afterLoop = true →
    (match ((x.ρ j).thr t).loc with | .wExit => 3 | .wLocking => 2 | _ => 1) ≤ n →
    ∃ j' res, j ≤ j' ∧ x.σ j' = some (.retWait t res) ∧
      ((x.ρ j').thr t).exitUnl = ((x.ρ j).thr t).exitUnl := by
  intro n
  induction n with
  | zero =>
    intro j _ hn
    exfalso; revert hn; split <;> simp
  | succ n ih =>
    intro j hl hn
    have hw : inWait ((x.ρ j).thr t) = true := by
      unfold inWait; cases hx : ((x.ρ j).thr t).loc <;> simp_all [Loc.afterLoop]
    have hns : ((x.ρ j).thr t).loc.spinLoop = false := by
      cases hx : ((x.ρ j).thr t).loc <;> simp_all [Loc.afterLoop, Loc.spinLoop]
    have hna : ((x.ρ j).thr t).loc.asleep = false := by
      cases hx : ((x.ρ j).thr t).loc <;> simp_all [Loc.afterLoop, Loc.asleep]
    obtain ⟨j1, h1, ⟨f1, _, _, _, f5⟩, hw1, hs, hk, hret⟩ :=
      hop x hy hw hns (fun h => by rw [hna] at h; cases h)
    have hnh : ((x.ρ j).thr t).loc ≠ .wHead := by
      intro h; rw [h] at hl; cases hl
    have hex := f5 hnh
    have hnh1 : ((x.ρ j1).thr t).loc ≠ .wHead := by rw [f1]; exact hnh
    unfold WSucc at hs
    rw [f1] at hs
    cases hx : ((x.ρ j).thr t).loc <;> simp only [hx] at hs hl hn <;>
      first
        | (cases hl; done)
        | (-- wExit
           have hni : ((x.ρ (j1 + 1)).thr t).loc ≠ .idle := by
             rcases hs with h | h <;> rw [h] <;> simp
           have hal : ((x.ρ (j1 + 1)).thr t).loc.afterLoop = true := by
             rcases hs with h | h <;> rw [h] <;> rfl
           obtain ⟨j', res, h2, h3, h4⟩ := ih (j1 + 1) hal (by
             rcases hs with h | h <;> rw [h] <;> simp <;> omega)
           exact ⟨j', res, by omega, h3, by rw [h4, hk.2.2.1 hnh1 hni, hex]⟩)
        | (-- wLocking
           have hni : ((x.ρ (j1 + 1)).thr t).loc ≠ .idle := by rw [hs]; simp
           obtain ⟨j', res, h2, h3, h4⟩ := ih (j1 + 1) (by rw [hs]; rfl) (by rw [hs]; simp; omega)
           exact ⟨j', res, by omega, h3, by rw [h4, hk.2.2.1 hnh1 hni, hex]⟩)
        | (-- wRelocking, wRet
           obtain ⟨res, hres⟩ := hret hs
           exact ⟨j1, res, h1, hres, hex⟩)

theorem mucv_w {r : Rid} (h : r.isMucv = true) : ∃ k, r = .w k := by
  cases r with
  | w k => exact ⟨k, rfl⟩
  | nw k => cases h
  | nwa a b => cases h

/-- A covered wait leaves its loop. -/
theorem covered_exits (x : Exec cfg s0) (hy : WaitHyps x) {t : Tid} {r : Rid} {U : List Unl} {i : Nat}
    (h : CovAt x t r U i) :
    ∃ j, i ≤ j ∧ ((x.ρ j).thr t).loc = .wExit ∧ ((x.ρ j).thr t).exitUnl = U := by
  apply Classical.byContradiction
  intro hE
  have hr := hy.reach
  have hall : ∀ j, i ≤ j → CovAt x t r U j := by
    intro j hj
    obtain ⟨d, rfl⟩ : ∃ d, j = i + d := ⟨j - i, by omega⟩
    rcases cov_until x hr h d with h' | h'
    · exact absurd h' hE
    · exact h'
  have hinv := x.inv hr
  obtain ⟨k, rfl⟩ := mucv_w (((hinv i).a.thr t).live (hall i (Nat.le_refl _)).1).2.1 |>.imp
    (fun k hk => by rw [(hall i (Nat.le_refl _)).2.1] at hk; exact hk)
  -- (a) eventually woken or transferred
  have hA : ∃ js, i ≤ js ∧ (((x.ρ js).recs (.w k)).stat = .woken ∨ ((x.ρ js).recs (.w k)).stat = .xfer) := by
    obtain ⟨_, _, c, d, _⟩ := hall i (Nat.le_refl _)
    rcases c with c | c | ⟨u, c⟩
    · exact ⟨i, Nat.le_refl _, .inl c⟩
    · exact ⟨i, Nat.le_refl _, .inr c⟩
    · have hU : U = [Unl.waker u] := by rw [← d]; exact (invF_reachable (x.reach hr i)).unlL _ u c
      have hm := ((hinv i).a.lMem u _).mpr c
      have hwp : ((x.ρ i).thr u).loc.wakePhase = true := by
        cases hp : ((x.ρ i).thr u).loc.wakePhase
        · rw [((hinv i).a.thr u).list0 hp] at hm; cases hm
        · rfl
      obtain ⟨jr, hjr, hret⟩ := waker_returns x hy.toHyps (wakePhase_inWake hwp)
      have hk : ((x.ρ jr).thr u).loc = .kRet := by
        rcases hret with h | h
        · exact (retSignal_accepted (x.next_some h)).1
        · exact (retBroadcast_accepted (x.next_some h)).1
      have hl0 := ((hinv jr).a.thr u).list0 (by simp [hk, Loc.wakePhase])
      obtain ⟨_, _, c', d', _⟩ := hall jr hjr
      rcases c' with c' | c' | ⟨u', c'⟩
      · exact ⟨jr, hjr, .inl c'⟩
      · exact ⟨jr, hjr, .inr c'⟩
      · exfalso
        have := (invF_reachable (x.reach hr jr)).unlL _ u' c'
        rw [d', hU] at this
        simp at this
        subst this
        have hm' := ((hinv jr).a.lMem u _).mpr c'
        rw [hl0] at hm'; cases hm'
  obtain ⟨js, hjs, hst⟩ := hA
  -- (b) the status is stable
  have hstep : ∀ j, js ≤ j → (((x.ρ j).recs (.w k)).stat = .woken ∨ ((x.ρ j).recs (.w k)).stat = .xfer) →
      RecKept (x.ρ j) (x.ρ (j + 1)) (.w k) := by
    intro j hj hs
    obtain ⟨q1, q2, _⟩ := hall j (by omega)
    cases he : x.σ j with
    | none => rw [x.next_none he]; exact recKept_refl _ _
    | some e =>
      rcases rec_stable (step_tr (x.next_some he)) (hinv j) q1 (by rw [q2]; exact hs) with h' | h'
      · exfalso
        have := (hall (j + 1) (by omega)).1
        unfold waitLive at this; rw [h'] at this; cases this
      · rw [q2] at h'; exact h'
  have hstat : ∀ d, ((x.ρ (js + d)).recs (.w k)).stat = ((x.ρ js).recs (.w k)).stat ∧
      ((x.ρ (js + d)).recs (.w k)).enqSeq = ((x.ρ js).recs (.w k)).enqSeq := by
    intro d
    induction d with
    | zero => exact ⟨rfl, rfl⟩
    | succ d ih =>
      obtain ⟨a, b, _⟩ := hstep (js + d) (by omega) (by rw [ih.1]; exact hst)
      exact ⟨a.trans ih.1, b.trans ih.2⟩
  have hstat' : ∀ j, js ≤ j → ((x.ρ j).recs (.w k)).stat = ((x.ρ js).recs (.w k)).stat ∧
      ((x.ρ j).recs (.w k)).enqSeq = ((x.ρ js).recs (.w k)).enqSeq := by
    intro j hj
    obtain ⟨d, rfl⟩ : ∃ d, j = js + d := ⟨j - js, by omega⟩
    exact hstat d
  -- (c) from some time on `waiting = 0` and the semaphore wait can return
  have hC : ∃ j0, js ≤ j0 ∧ ∀ j, j0 ≤ j → ((x.ρ j).recs (.w k)).waiting = false ∧
      (((x.ρ j).thr t).loc.asleep = true → CanWake (x.ρ j) t) := by
    rcases hst with hw | hx
    · -- woken: posted eventually, for ever
      have hwk : ∀ j, js ≤ j → ((x.ρ j).recs (.w k)).stat = .woken := fun j hj => by
        rw [(hstat' j hj).1]; exact hw
      have hpost : ∃ jp, js ≤ jp ∧ ((x.ρ jp).recs (.w k)).posted = true := by
        rcases (invE_reachable (x.reach hr js)).woken _ hw with hp | ⟨u, hc, hl⟩
        · exact ⟨js, Nat.le_refl _, hp⟩
        · have hrd : Ready (x.ρ js) u := by
            refine ⟨?_, ?_, ?_⟩ <;> simp [hl, Loc.foreign, Loc.asleep]
          obtain ⟨j1, hj1, ⟨e, he, ht, hne⟩, hthr⟩ := next_move x hy.weak hrd
          obtain ⟨k', hk'⟩ := wwV_own (x.next_some he) ht hne (by rw [hthr]; exact hl)
          subst hk'
          refine ⟨j1 + 1, by omega, ?_⟩
          exact semV_posts (x.next_some he) (by rw [hthr]; exact hl) (by rw [hthr]; exact hc)
            (hstat' j1 hj1).2 (hwk j1 hj1)
      obtain ⟨jp, hjp, hp⟩ := hpost
      have hpall : ∀ d, ((x.ρ (jp + d)).recs (.w k)).posted = true := by
        intro d
        induction d with
        | zero => exact hp
        | succ d ih => exact (hstep (jp + d) (by omega) (.inl (hwk _ (by omega)))).2.2.2.2 ih
      refine ⟨jp, hjp, fun j hj => ⟨(hinv j).b.wokenW _ (hwk j (by omega)), fun hsl => ?_⟩⟩
      obtain ⟨d, rfl⟩ : ∃ d, j = jp + d := ⟨j - jp, by omega⟩
      obtain ⟨_, q2, _, _, q5⟩ := hall (jp + d) (by omega)
      have := hy.kept (jp + d) k (hwk _ (by omega)) (hpall d) (by rw [q5]; exact hsl) (by rw [q5]; exact q2)
      exact .inl ⟨k, q2, this⟩
    · -- transferred: the mutex layer's job
      obtain ⟨j0, hj0, hT⟩ := hy.transfer k js hx
      refine ⟨j0, hj0, fun j hj => ?_⟩
      have hxj : ((x.ρ j).recs (.w k)).stat = .xfer := by rw [(hstat' j (by omega)).1]; exact hx
      obtain ⟨a, b⟩ := hT j hj hxj
      obtain ⟨_, q2, _, _, q5⟩ := hall j (by omega)
      exact ⟨a, fun hsl => .inl ⟨k, q2, b (by rw [q5]; exact hsl)⟩⟩
  obtain ⟨j0, hj0, hC⟩ := hC
  -- (d) descent
  apply no_descent (f := fun j => rkD ((x.ρ j).thr t)) (j0 := j0)
  intro j hj
  obtain ⟨q1, q2, _, _, _⟩ := hall j (by omega)
  have hw := waitLive_inWait q1
  cases hsp : ((x.ρ j).thr t).loc.spinLoop with
  | true =>
    obtain ⟨j2, h2, _, _, _, _, _, hc⟩ := hop_spin x hy.toHyps hw hsp
    have hcc : ((x.ρ j).thr t).cont = .waitChk := by
      have := q1; unfold waitLive at this
      cases hx : ((x.ρ j).thr t).loc <;> simp_all [Loc.spinLoop]
    refine ⟨j2, h2, ?_⟩
    rcases hc with ⟨h, _⟩ | ⟨_, h⟩
    · rw [hcc] at h; cases h
    · show rkD _ < rkD _
      unfold rkD; rw [h]
      cases hx : ((x.ρ j).thr t).loc <;> simp_all [Loc.spinLoop]
  | false =>
    have hsl : ((x.ρ j).thr t).loc.asleep = true →
        ∃ j', j ≤ j' ∧ ((x.ρ j').thr t).loc.asleep = false := by
      intro _
      apply Classical.byContradiction
      intro hn
      apply hy.sem t j
      intro j' hj'
      have ha : ((x.ρ j').thr t).loc.asleep = true := by
        cases h : ((x.ρ j').thr t).loc.asleep
        · exact absurd ⟨j', hj', h⟩ hn
        · rfl
      exact ⟨ha, (hC j' (by omega)).2 ha⟩
    obtain ⟨j1, h1, ⟨f1, _⟩, hw1, hs, hk, _⟩ := hop x hy hw hsp hsl
    obtain ⟨p1, p2, _, _, _⟩ := hall j1 (by omega)
    have hwf : ((x.ρ j1).recs ((x.ρ j1).thr t).r).waiting = false := by
      rw [p2]; exact (hC j1 (by omega)).1
    rw [hwf] at hs
    have hstj : ((x.ρ j1).recs ((x.ρ j1).thr t).r).stat = .woken ∨
        ((x.ρ j1).recs ((x.ρ j1).thr t).r).stat = .xfer := by
      rw [p2, (hstat' j1 (by omega)).1]; exact hst
    have hnself : ∀ l, ((x.ρ j1).thr t).loc = l → l = .wRmLd ∨ l = .wRmCas ∨ l = .wClr → False := by
      intro l hl hor
      have := ((hinv j1).a.thr t).selfO (by rw [hl]; exact hor)
      rcases hstj with h | h <;> rw [h] at this <;> cases this
    rcases succ_rank p1 hs (by rw [f1]; exact hsp) (fun h => hnself _ h (.inl rfl))
        (fun h => hnself _ h (.inr (.inl rfl))) (fun h => hnself _ h (.inr (.inr rfl))) with ⟨h, _⟩ | ⟨_, h⟩
    · exfalso
      have := (hall (j1 + 1) (by omega)).1
      unfold waitLive at this; rw [h] at this; cases this
    · exact ⟨j1 + 1, by omega, by show rkD _ < rkD _; rw [← rkD_loc f1]; exact h⟩

/-- The run invariant holds when the wait is covered. -/
theorem covAt_of_covered (x : Exec cfg s0) (hr : Reachable cfg s0) {t : Tid} {i : Nat}
    (h : Covered (x.ρ i) t) :
    CovAt x t ((x.ρ i).thr t).r ((x.ρ i).recs ((x.ρ i).thr t).r).unl i ∧
    ∃ u, ((x.ρ i).recs ((x.ρ i).thr t).r).unl = [Unl.waker u] := by
  obtain ⟨hl, hc⟩ := h
  have hi := x.inv hr i
  have hf := invF_reachable (x.reach hr i)
  refine ⟨⟨hl, rfl, ?_, rfl, ((hi.a.thr t).live hl).1⟩, ?_⟩
  · rcases hc with ⟨u, h⟩ | h | h
    · exact .inr (.inr ⟨u, h⟩)
    · exact .inl h
    · exact .inr (.inl h)
  · rcases hc with ⟨u, h⟩ | h | h
    · exact ⟨u, hf.unlL _ u h⟩
    · exact hf.unlW _ (.inl h)
    · exact hf.unlW _ (.inr h)

/-- A wait that is covered by a wake-up returns 0. -/
theorem covered_returns (x : Exec cfg s0) (hy : WaitHyps x) {t : Tid} {i : Nat}
    (h : Covered (x.ρ i) t) : ∃ j, i ≤ j ∧ x.σ j = some (.retWait t .ok) := by
  obtain ⟨hc, u, hu⟩ := covAt_of_covered x hy.reach h
  obtain ⟨j, hj, hl, he⟩ := covered_exits x hy hc
  obtain ⟨j', res, hj', hres, hex⟩ := exit_returns x hy 3 j (by rw [hl]; rfl) (by rw [hl]; simp)
  have := (C04_outcome_partial (x.reach hy.reach j') (x.next_some hres)).2 u (by rw [hex, he, hu]; simp)
  subst this
  exact ⟨j', by omega, hres⟩

end NsyncVerif.CvFix
