import NsyncVerif.Proofs.MuCInv11Reach
/-
  MuC: the hints MU_WRITER_WAITING and MU_LONG_WAIT are never stale, and somebody is responsible for
  every queued waiter WITHOUT a condition (`Inv12`) — definitions.

  The induction is organised differently from Inv1 … Inv11: the facts about ONE step that the argument
  needs (`StepTL`: which record fields, word bits and program-point attributes a step of thread `t` can
  change) are proved by case analysis on the step function (files MuCTL*.lean); the induction step itself
  (`MuCInv12Step*.lean`) uses only those facts and the invariants Inv1 … Inv11 of BOTH states.
-/
namespace NsyncVerif.MuC

/-- The locals of nsync_mu_lock_slow_. -/
def PC.sl? : PC → Option SL
  | .lsLd c | .lsCasAcq c _ | .lsCasEnq c _ | .lsSt c | .lsRelLd c | .lsRelCas c _ | .lsWaitLd c | .lsPEnter c | .lsPRet c => some c
  | _ => none

/-- A thread whose next acquisition clears MU_WRITER_WAITING (or that sets the bit again when it re-queues):
    a writer inside lock_slow that has done its enqueue CAS at least once or comes from a wake-up
    (`clear`), or a timed-out waiter spinning in mu_try_acquire_after_timeout_or_cancel (any mode: it
    acquires in write mode first). -/
def PC.wwA : PC → Bool
  | .lsSt c | .lsRelLd c | .lsRelCas c _ | .lsWaitLd c | .lsPEnter c | .lsPRet c => c.l == .W
  | .lsLd c | .lsCasAcq c _ | .lsCasEnq c _ => c.l == .W && c.clear
  | .mtLd _ | .mtCasAcq _ _ | .mtCasWW _ _ | .mtLdWk _ _ => true
  | _ => false

/-- The record of a thread waiting inside lock_slow (it has no condition). -/
def PC.lsRec : PC → Option Wid
  | .lsRelLd c | .lsRelCas c _ | .lsWaitLd c | .lsPEnter c | .lsPRet c => c.w
  | _ => none

/-- (Before the repair of F9 `old_word` of mu_try_acquire_after_timeout_or_cancel had passed a test that included
    MU_LONG_WAIT, and this said `old.lw = false`.  A woken thread now acquires with MU_LONG_WAIT set in `old_word`;
    what makes its release store harmless is `Inv12.mtlw`: the bit is then still set in the word.) -/
def PC.ok12 : PC → Prop
  | _ => True

/-- A write-mode waiter whose record has been taken off the queue (by an unlocker) and that has not yet
    re-contended: it will enter lock_slow in write mode. -/
def WaitW (s : State) (t : Tid) : Prop :=
  ∃ k, (s.pc t).waitRec = some k ∧ (s.pc t).hlRec = none ∧ (s.pc t).wmode = .W ∧ ¬ Queued s k

/-- Thread `t` justifies MU_WRITER_WAITING. -/
def WJ (s : State) (t : Tid) : Prop := (s.pc t).wwA = true ∨ WaitW s t

/-- A queued write-mode waiter that could run: no condition, or its condition is true. -/
def WB (s : State) : Prop := ∃ k, Queued s k ∧ (s.wr k).lType = .W ∧ evalOpt s.data (s.wr k).cond = true

def WB0 (s : State) : Prop := ∃ k, Queued s k ∧ (s.wr k).lType = .W ∧ (s.wr k).cond = none

/-- The writer bit is owned by a thread that is not an unlocker between grab CAS and final CAS (a client
    write section, or a call on its way in or out): the protected data may change. -/
def ClientW (s : State) : Prop := ∃ t, s.wOwner = some t ∧ (s.pc t).unl = false

/-- Some queued waiter has no condition, or a thread is between its enqueue CAS and the queue insertion. -/
def NeedN (s : State) : Prop := (∃ k, Queued s k ∧ (s.wr k).cond = none) ∨ ∃ t, (s.pc t).enqPend = true

structure Inv12 (s : State) : Prop where
  ww : s.word.ww = true → (∃ t, WJ s t) ∨ WB s
  wws : s.word.ww = true → ClientW s → (∃ t, WJ s t) ∨ WB0 s
  lw : s.word.lw = true → ∃ t c, (s.pc t).sl? = some c ∧ c.lwl = true
  mtw : ∀ t old, (s.pc t).mtOld = some old → s.word.ww = false
  mtlw : ∀ t old, (s.pc t).mtOld = some old → old.lw = true → s.word.lw = true
  ok : ∀ t, (s.pc t).ok12
  rcn : ∀ t k, (s.pc t).lsRec = some k → (s.wr k).cond = none
  nm : s.nwViol = false → NeedN s → ∃ t, RespT s t

/-! ### facts about one step of thread `t` -/

/-- The steps on which a thread can stop being responsible, with what the step knows about the word. -/
def GaveUp (s s' : State) (t : Tid) : Prop :=
  (∃ l nw, s.pc t = .ulCas0 l nw ∧ s.word = addWord l) ∨
  (∃ l nw old, s.pc t = .ulCas1 l nw old ∧ s.word = old) ∨
  (∃ r old, s.pc t = .usCasUnc r old ∧ s.word = old) ∨
  (∃ c old, s.pc t = .mwRelCas c old false ∧ s.word = old) ∨
  (∃ r f old, s.pc t = .usFinCas r f old ∧ s.word = old ∧ s'.pc t = finPc r f.wake) ∨
  (∃ c old, s.pc t = .lsCasEnq c old ∧ s.word = old ∧ s'.pc t = .lsSt c)

/-- What a step of `t` keeps of `t`'s being responsible. -/
structure RKeep (s s' : State) (t : Tid) : Prop where
  share : shareOf s t ≠ none → shareOf s' t ≠ none ∨ (s'.pc t).unl = true ∨ (s'.pc t).timedOut = true ∨ GaveUp s s' t
  unl : (s.pc t).unl = true → (s'.pc t).unl = true ∨ GaveUp s s' t
  woken : (s.pc t).woken = true → (s'.pc t).woken = true ∨ shareOf s' t ≠ none ∨ GaveUp s s' t
  wrec : ∀ k, (s.pc t).waitRec = some k → (s.pc t).hlRec = none →
    ((s'.pc t).waitRec = some k ∧ (s'.pc t).hlRec = none) ∨ (s'.pc t).woken = true ∨ (s'.pc t).timedOut = true ∨ shareOf s' t ≠ none
  tout : (s.pc t).timedOut = true → (s'.pc t).timedOut = true ∨ (s'.pc t).woken = true ∨ shareOf s' t ≠ none

/-- Records: `waiting`, `l_type`, the condition. -/
structure RecTL (s s' : State) (t : Tid) : Prop where
  r1 : ∀ k, (s.wr k).waiting = true → (s'.wr k).waiting = false → k ∈ (s.pc t).wakeL ∨ (s.pc t).limbo = some k
  r2 : ∀ k, (s.wr k).waiting = false → (s'.wr k).waiting = true →
    ((s.pc t).enqPend = true ∨ (s'.pc t).limbo = some k) ∧ (k ∈ (s.pc t).ws ∨ (s.wr k).owner = none) ∧ (s.pc t).waitRec = none
  r3 : ∀ k, ((s'.wr k).lType = (s.wr k).lType ∧ (s'.wr k).cond = (s.wr k).cond) ∨
    ((s.wr k).waiting = false ∧ (s'.wr k).waiting = true)
  r4 : ∀ k, (s'.pc t).lsRec = some k → (s.pc t).lsRec = some k ∨ (s'.wr k).cond = none

/-- Program points of `t`: the record it waits on, wake lists. -/
structure WaitTL (s s' : State) (t : Tid) : Prop where
  p1 : ∀ k, (s.pc t).waitRec = some k → (s.wr k).waiting = true → (s'.pc t).waitRec = some k ∨ (s.pc t).mtOld ≠ none
  p1' : ∀ k, (s'.pc t).waitRec = some k → (s.pc t).waitRec = some k ∨ (s.pc t).enqPend = true ∨ (∃ c, (s'.pc t).mwRel = some c) ∨ (s'.pc t).hlRec = some k
  p2 : ∀ k, k ∈ (s.pc t).wakeL → k ∈ (s'.pc t).wakeL ∨ (s'.wr k).waiting = false
  p5 : ∀ k, (s.pc t).waitRec = some k → (s.pc t).hlRec = none → (s.pc t).wmode = .W →
    ((s'.pc t).waitRec = some k ∧ (s'.pc t).hlRec = none) ∨ (s'.pc t).wwA = true ∨ s'.word.ww = false ∨ (s.pc t).mtOld ≠ none
  p11 : (s'.pc t).enqPend = true → (s.pc t).enqPend = true ∨ ∃ c old, s.pc t = .lsCasEnq c old ∧ s.word = old ∧ s'.pc t = .lsSt c

/-- The hint bits of the word. -/
structure WordTL (s s' : State) (t : Tid) : Prop where
  p3 : s'.word.ww = true → s.word.ww = true ∨ ((s'.pc t).wwA = true ∧ s.word.spin = false) ∨
    ∃ f, (s.pc t).finOf = some f ∧ f.sww = true
  p4 : (s.pc t).wwA = true → (s'.pc t).wwA = true ∨ s'.word.ww = false
  p6 : s'.word.lw = true → s.word.lw = true ∨ (∃ c, (s'.pc t).sl? = some c ∧ c.lwl = true) ∨
    ∃ old, (s.pc t).mtOld = some old ∧ old.lw = true
  p7 : ∀ c, (s.pc t).sl? = some c → c.lwl = true → (∃ c', (s'.pc t).sl? = some c' ∧ c'.lwl = true) ∨ s'.word.lw = false
  p8 : ∀ old, (s'.pc t).mtOld = some old → (s.pc t).mtOld = some old ∨ s'.word.ww = false
  p9 : (s.pc t).ok12 → (s'.pc t).ok12
  p10 : ∀ v, s'.wOwner = some v → (v = t → (s'.pc t).unl = false) → s'.word.ww = true →
    s.wOwner = some v ∧ (v = t → (s.pc t).unl = false)

/-- MU_LONG_WAIT against the `old_word` of mu_try_acquire_after_timeout_or_cancel (repair of F9): the bit is cleared only by
    an acquisition (the writer bit is clear) or by the release store of that function. -/
structure LwTL (s s' : State) (t : Tid) : Prop where
  p12 : ∀ old, (s'.pc t).mtOld = some old → old.lw = true → ((s.pc t).mtOld = some old → s.word.lw = true) → s'.word.lw = true
  p13 : s.word.lw = true → s'.word.lw = true ∨ s.word.wlock = false ∨ (s.pc t).mtOld ≠ none

/-- Everything the induction step of `Inv12` needs to know about a step of thread `t` that is not a
    client data access. -/
structure StepTL (s s' : State) (t : Tid) : Prop where
  oth : ∀ u, u ≠ t → s'.pc u = s.pc u ∧ s'.held u = s.held u
  data : s'.data = s.data
  nv : s'.nwViol = false → s.nwViol = false
  rc : RecTL s s' t
  wt : WaitTL s s' t
  wd : WordTL s s' t
  rk : RKeep s s' t
  lw : LwTL s s' t

end NsyncVerif.MuC
