/-
  Layer `Note`, fair termination: what the steps of the OTHER threads leave alone: the `waiters`
  list of a note whose mutex a thread holds (so its rank), the `posted` counter of a record in use.
-/
import NsyncVerif.Proofs.NoteFairStep

set_option linter.unusedSimpArgs false

namespace Note

theorem held_ne {s : State} (hK : LockInv s) {t a : Tid} {k n : NoteId}
    (hh : (s.notes k).lockHolder = some t) (hmem : n ∈ (s.pc a).held) (hne : ¬ a = t) : ¬ k = n := by
  intro h
  subst h
  have := (hK.iff k a).mpr hmem
  rw [hh] at this
  exact hne (Option.some.inj this).symm

theorem step_waiters_other {s s' : State} {e : Event} (hK : LockInv s) (hs : step s e = .ok s')
    {t : Tid} (ha : e.actor ≠ some t) {k : NoteId} (hh : (s.notes k).lockHolder = some t) :
    (s'.notes k).waiters = (s.notes k).waiters := by
  have hal := hK.alloc k t hh
  have h1 : ∀ a n wdl r, s.pc a = .wt .eLd n wdl r → ¬ a = t → ¬ k = n :=
    fun a n wdl r h hne => held_ne hK hh (by rw [h]; simp [PC.held]) hne
  have h2 : ∀ a n wdl r, s.pc a = .wt .qLd n wdl r → ¬ a = t → ¬ k = n :=
    fun a n wdl r h hne => held_ne hK hh (by rw [h]; simp [PC.held]) hne
  have h3 : ∀ a f rest top, s.pc a = .chd .st (f :: rest) top → ¬ a = t → ¬ k = f.note :=
    fun a f rest top h hne => held_ne hK hh (by rw [h]; simp [PC.held]) hne
  have h4 : ∀ a r f rest top, s.pc a = .chd (.semV r) (f :: rest) top → ¬ a = t → ¬ k = f.note :=
    fun a r f rest top h hne => held_ne hK hh (by rw [h]; simp [PC.held]) hne
  cases e
  all_goals step_cases hs
  all_goals simp only [Event.actor, ne_eq, Option.some.injEq] at ha
  all_goals (try rfl)
  all_goals (try (simp; done))
  · simp [h1 _ _ _ _ (by assumption) ha]
  · simp [h2 _ _ _ _ (by assumption) ha]
  · simp [h3 _ _ _ _ (by assumption) ha]
  · simp [h4 _ _ _ _ _ (by assumption) ha]
  · rename_i p hf
    have hne : ¬ k = p := by
      intro h; subst h; rw [hal] at hf; cases hf
    simp [hne]

/-- A step of another thread leaves the rank of a thread alone. -/
theorem other_step_rank {s s' : State} {e : Event} (hK : LockInv s) (hs : step s e = .ok s')
    {t : Tid} (ha : e.actor ≠ some t) : rank s' t = rank s t := by
  have hpc := step_pc_other hs t ha
  unfold rank
  rw [hpc]
  congr 1
  cases h : s.pc t with
  | chd pos stk top =>
    cases stk with
    | nil => cases pos <;> rfl
    | cons f rest =>
      have hh : (s.notes f.note).lockHolder = some t ∨ mn s' (.chd pos (f :: rest) top) = 0 ∧
          mn s (.chd pos (f :: rest) top) = 0 := by
        cases pos with
        | wake r => left; exact (hK.iff _ _).mpr (by rw [h]; simp [PC.held])
        | semV r => left; exact (hK.iff _ _).mpr (by rw [h]; simp [PC.held])
        | _ => right; exact ⟨rfl, rfl⟩
      rcases hh with hh | ⟨h1, h2⟩
      · have hw := step_waiters_other hK hs ha hh
        cases pos <;> simp [mn, hw]
      · rw [h1, h2]
  | _ => rfl

/-- The `posted` counter of a record in use never decreases. -/
theorem step_posted {s s' : State} {e : Event} (hs : step s e = .ok s') {r : Rid}
    (hu : (s.recs r).used = true) : (s.recs r).posted ≤ (s'.recs r).posted := by
  rcases step_recs hs r with ⟨h, _⟩ | ⟨_, _, _, _, _, _, h, _⟩ | ⟨_, _, _, _, _, _, _, h⟩ |
    ⟨_, _, _, _, _, h0, _⟩ | ⟨_, _, _, _, _, _, h, _⟩ | ⟨_, _, _, _, _, h, _⟩ |
    ⟨_, _, _, _, _, _, _, h, _⟩
  all_goals (first | (rw [h0] at hu; cases hu) | (rw [h]; simp))

/-- After a step of thread `u` a mutex that `u` held is still held by `u`, or free. -/
theorem step_lock_actor {s s' : State} {e : Event} (hK : LockInv s) (hs : step s e = .ok s')
    {u : Tid} {m : NoteId} (hh : (s.notes m).lockHolder = some u) :
    (s'.notes m).lockHolder = some u ∨ (s'.notes m).lockHolder = none := by
  cases h : (s'.notes m).lockHolder with
  | none => right; rfl
  | some v =>
    left
    by_cases hv : v = u
    · rw [hv]
    · exfalso
      by_cases ha : e.actor = some v
      · -- `v` acted: then `u` did not, and `u` still holds `m`
        have hu : e.actor ≠ some u := by rw [ha]; intro h'; exact hv (Option.some.inj h')
        have := (step_lock_other hK hs u hu m).mpr hh
        rw [h] at this
        exact hv (Option.some.inj this)
      · have := (step_lock_other hK hs v ha m).mp h
        rw [hh] at this
        exact hv (Option.some.inj this).symm

end Note
