import NsyncVerif.Proofs.MuQStepFacts
/-
  MuQ: more single-step facts: shapes of the successor state, who clears MU_LONG_WAIT, who changes
  the queue, the enqueue step.
-/
namespace NsyncVerif.MuQ

@[simp] theorem scanAdvance_word (s : State) (t : Tid) (l : Mode) (sc : Scan) : (scanAdvance s t l sc).word = s.word := by
  simp only [scanAdvance]; split <;> rfl
@[simp] theorem scanAdvance_sp (s : State) (t : Tid) (l : Mode) (sc : Scan) : (scanAdvance s t l sc).sp = s.sp := by
  simp only [scanAdvance]; split <;> rfl
@[simp] theorem afterFin_word (s : State) (t : Tid) (l : Mode) (w : List Wid) : (afterFin s t l w).word = s.word := by
  cases w <;> rfl
@[simp] theorem afterFin_queue (s : State) (t : Tid) (l : Mode) (w : List Wid) : (afterFin s t l w).queue = s.queue := by
  cases w <;> rfl
@[simp] theorem afterFin_sp (s : State) (t : Tid) (l : Mode) (w : List Wid) : (afterFin s t l w).sp = s.sp := by
  cases w <;> rfl
@[simp] theorem afterFin_wr (s : State) (t : Tid) (l : Mode) (w : List Wid) : (afterFin s t l w).wr = s.wr := by
  cases w <;> rfl

theorem scanAdvance_spin (s : State) (t : Tid) (l : Mode) (sc : Scan) :
    (role ((scanAdvance s t l sc).pc t)).spin = true := by
  simp only [scanAdvance]; split <;> simp [setPc, role, Role.spin]

/-- A load changes nothing but the program point of the loading thread. -/
theorem stepLd_shape {s s' : State} {t : Tid} {o : Ord} {loc : Loc} {obs : Nat}
    (h : stepLd s t o loc obs = .ok s') : ∃ p, s' = setPc s t p := by
  unfold stepLd at h
  cases hp : s.pc t <;> simp only [hp] at h <;> try (cases h; done)
  all_goals repeat' split at h
  all_goals first
    | (cases h; done)
    | (cases h; exact ⟨_, rfl⟩)
    | (have h' := ldWord_ok h; subst h'; repeat' split
       all_goals exact ⟨_, rfl⟩)

theorem stepCall_shape {s s' : State} {t : Tid} {a : Api}
    (h : stepCall s t a = .ok s') : ∃ p hd, s' = { setPc s t p with held := hd } := by
  unfold stepCall at h
  cases hp : s.pc t <;> simp only [hp] at h <;> try (cases h; done)
  cases a <;> simp only at h <;> split at h <;> try (cases h; done)
  all_goals (cases h; first | exact ⟨_, _, rfl⟩ | exact ⟨_, s.held, rfl⟩)

theorem stepRet_shape {s s' : State} {t : Tid} {a : Api} {res : Option Bool}
    (h : stepRet s t a res = .ok s') : ∃ hd, s' = { setPc s t .idle with held := hd } := by
  unfold stepRet at h
  split at h <;> try (cases h; done)
  all_goals try (split at h <;> try (cases h; done))
  all_goals (cases h; first | exact ⟨_, rfl⟩ | exact ⟨s.held, rfl⟩)

end NsyncVerif.MuQ

namespace NsyncVerif.MuQ

/-- Semaphore and environment events, and stores, leave the word alone. -/
theorem step_word_other {cfg : Cfg} {s s' : State} {e : Event} (h : step cfg s e = .ok s')
    (hne : ∀ t o loc exp new obs ok, e ≠ .cas t o loc exp new obs ok) : s'.word = s.word := by
  cases e
  case call t a => obtain ⟨p, hd, rfl⟩ := stepCall_shape h; rfl
  case ret t a res => obtain ⟨hd, rfl⟩ := stepRet_shape h; rfl
  case ld t o loc obs => obtain ⟨p, rfl⟩ := stepLd_shape h; rfl
  case st t o loc new obs =>
    simp only [step, stepSt] at h
    cases hp : s.pc t <;> simp only [hp] at h <;> try (cases h; done)
    all_goals repeat' split at h
    all_goals first | (cases h; done) | (cases h; rfl)
  case cas t o loc exp new obs ok => exact absurd rfl (hne t o loc exp new obs ok)
  case semPEnter t k =>
    simp only [step] at h
    cases hp : s.pc t <;> simp only [hp] at h <;> try (cases h; done)
    split at h <;> try (cases h; done)
    cases h; rfl
  case semPRet t k =>
    simp only [step] at h
    cases hp : s.pc t <;> simp only [hp] at h <;> try (cases h; done)
    repeat' split at h
    all_goals first | (cases h; done) | (cases h; rfl)
  case semV t k =>
    simp only [step] at h
    cases hp : s.pc t <;> simp only [hp] at h <;> try (cases h; done)
    split at h <;> try (cases h; done)
    cases h; simp [semPost]
  case envV k => simp only [step] at h; cases h; rfl
  case envSem k n =>
    simp only [step] at h
    split at h <;> try (cases h; done)
    cases h; rfl

/-- MU_LONG_WAIT is cleared only by the acquiring CAS of lock_slow of a thread whose `long_wait`
    local is set (clear_on_release of unlock_slow never contains MU_LONG_WAIT). -/
theorem lw_cleared_only_by {cfg : Cfg} {s s' : State} {e : Event}
    (h : step cfg s e = .ok s') (h1 : s.word.lw = true) (h2 : s'.word.lw = false) :
    ∃ t c old o exp new obs, e = .cas t o .word exp new obs true ∧ s.pc t = .lsCasAcq c old ∧ c.lwl = true ∧
      s'.pc t = .lkRet c.l := by
  cases e
  case cas t o loc exp new obs ok =>
    simp only [step, stepCas] at h
    cases hp : s.pc t <;> simp only [hp] at h <;> try (cases h; done)
    case usRcCas l sc k old =>
      repeat' split at h
      all_goals first | (cases h; done) | skip
      all_goals (cases h; simp [setPc, h1] at h2)
    case lsCasAcq c old =>
      have hloc := (casWord_loc h).1
      rcases casWord_ok h with ⟨hw, hok, rfl⟩ | ⟨_, _, rfl⟩
      · subst hw hok hloc
        have hl : c.lwl = true := by
          cases hx : c.lwl with
          | true => rfl
          | false => cases hcl : c.l <;> simp [setPc, acqWord, hx, hcl, h1] at h2
        exact ⟨t, c, s.word, o, exp, new, obs, rfl, hp, hl, by simp [setPc]⟩
      · simp [setPc, h1] at h2
    case lkCas0 l =>
      rcases casWord_ok h with ⟨hw, _, rfl⟩ | ⟨_, _, rfl⟩
      · rw [hw] at h1; simp [Word.zero] at h1
      · simp [setPc, h1] at h2
    case tryCas0 l =>
      rcases casWord_ok h with ⟨hw, _, rfl⟩ | ⟨_, _, rfl⟩
      · rw [hw] at h1; simp [Word.zero] at h1
      · simp [setPc, h1] at h2
    case ulCas0 l =>
      rcases casWord_ok h with ⟨hw, _, rfl⟩ | ⟨_, _, rfl⟩
      · rw [hw] at h1; cases l <;> simp [addWord, Word.zero] at h1
      · simp [setPc, h1] at h2
    case lkCas1 l old =>
      rcases casWord_ok h with ⟨hw, _, rfl⟩ | ⟨_, _, rfl⟩
      · subst hw; cases l <;> simp [setPc, acqWord, h1] at h2
      · simp [setPc, h1] at h2
    case tryCas1 l old =>
      rcases casWord_ok h with ⟨hw, _, rfl⟩ | ⟨_, _, rfl⟩
      · subst hw; cases l <;> simp [setPc, acqWord, h1] at h2
      · simp [setPc, h1] at h2
    case lsCasEnq c old =>
      rcases casWord_ok h with ⟨hw, _, rfl⟩ | ⟨_, _, rfl⟩
      · subst hw; simp [setPc, enqWord, h1] at h2
      · simp [setPc, h1] at h2
    case lsRelCas c old =>
      rcases casWord_ok h with ⟨hw, _, rfl⟩ | ⟨_, _, rfl⟩
      · subst hw; simp [setPc, h1] at h2
      · simp [setPc, h1] at h2
    case ulCas1 l old =>
      rcases casWord_ok h with ⟨hw, _, rfl⟩ | ⟨_, _, rfl⟩
      · subst hw; cases l <;> simp [setPc, relUncWord, h1] at h2
      · simp [setPc, h1] at h2
    case usCasUnc l old =>
      rcases casWord_ok h with ⟨hw, _, rfl⟩ | ⟨_, _, rfl⟩
      · subst hw; cases l <;> simp [setPc, relUncWord, h1] at h2
      · simp [setPc, h1] at h2
    case usCasGrab l old =>
      rcases casWord_ok h with ⟨hw, _, rfl⟩ | ⟨_, _, rfl⟩
      · subst hw; cases l <;> simp [setPc, grabWord, subWord, h1] at h2
      · simp [setPc, h1] at h2
    case usFinCas l f old =>
      rcases casWord_ok h with ⟨hw, _, rfl⟩ | ⟨_, _, rfl⟩
      · subst hw; simp [setPc, finWord, h1] at h2
      · simp [setPc, h1] at h2
  all_goals (have := step_word_other h (by intro _ _ _ _ _ _ _ hc; cases hc); rw [this, h1] at h2; cases h2)

end NsyncVerif.MuQ
