/-
  Proofs/SemWaitInv.lean — the inductive invariant of the SemWait acceptor (statement).
-/
import NsyncVerif.Proofs.SemWaitEff2

namespace SemWait

/-- the thread holds the mutex of its cancel note (program points of the waiter's own code) -/
def holdsPc : PC → Bool
  | .nd _ .ld1 | .nd _ (.ulk _) | .nf _ .ld | .nf _ .ulk | .ld49 | .ulk1 _ | .ld68 | .ulk2 => true
  | _ => false

/-- `nw` has been on the note's list -/
def afterEnq : PC → Bool
  | .ulk1 true | .pdEnter | .pdWait _ | .nd .l65 _ | .nf .l65 _ | .lk2 | .ld68 | .ulk2 | .ret => true
  | _ => false

theorem proto_not_holds {p : PC} (h : protoMode p = true) : holdsPc p = false := by
  pc_full p <;> first | rfl | exact absurd h (by decide)

theorem enq_afterEnq {p : PC} (h : enq p = true) : afterEnq p = true := by
  pc_full p <;> first | rfl | exact absurd h (by decide)

theorem enq_cases {p : PC} (h : enq p = true) : enqNL p = true ∨ holdsPc p = true := by
  pc_full p <;> first | exact .inl rfl | exact .inr rfl | exact absurd h (by decide)

theorem expiredB_mono {d : Deadline} {a b : Nat} (h : expiredB d a = true) (hab : a ≤ b) : expiredB d b = true := by
  cases d with
  | none => exact h
  | some x => simp only [expiredB, decide_eq_true_eq] at *; omega

/-- inside the nsync_note_notify of sem_wait.c:65 -/
def inL65 : PC → Bool
  | .nd .l65 _ | .nf .l65 _ => true
  | _ => false

theorem asleep_inCall {p : PC} (h : asleep p = true) : inCall p = true := by
  pc_full p <;> first | rfl | exact absurd h (by decide)

theorem late_inCall {p : PC} (h : late p = true) : inCall p = true := by
  pc_full p <;> first | rfl | exact absurd h (by decide)

/-- frames, records, semaphores -/
structure InvA (s : State) : Prop where
  i1 : ∀ t r, (s.fr t).nw = some r →
        (s.rcd r).live = true ∧ (s.rcd r).owner = t ∧ (s.rcd r).note = (s.fr t).note ∧ inCall (s.pc t) = true
  i2 : ∀ t, hasNw (s.pc t) = true → (s.fr t).nw ≠ none
  i3 : ∀ t, preNw (s.pc t) = true → (s.fr t).nw = none
  i4 : ∀ r, (s.rcd r).live = true → (s.fr (s.rcd r).owner).nw = some r
  i5 : ∀ t, inCall (s.pc t) = true → (s.note (s.fr t).note).known = true ∧ (s.note (s.fr t).note).fresh = false
  i6 : ∀ t j, (s.fr t).sem = some j ↔ s.semUser j = some t
  i7 : ∀ t, s.pc t = .idle → (s.fr t).sem = none
  i8 : ∀ t j, s.pc t = .pdWait j → (s.fr t).sem = some j
  h1 : ∀ t, holdsPc (s.pc t) = true → (s.note (s.fr t).note).lock = some t

/-- the list of a note, the records on it and the records in the hands of a notifier -/
structure InvQ (s : State) : Prop where
  q1 : ∀ k r, r ∈ (s.note k).queue →
        (s.rcd r).live = true ∧ (s.rcd r).note = k ∧ enq (s.pc (s.rcd r).owner) = true
  q2 : ∀ k, (s.note k).queue.Nodup
  q3 : ∀ u r, s.post u = some r →
        (s.rcd r).live = true ∧ (s.rcd r).unl = .waker ∧ (s.rcd r).popper = u ∧ (s.rcd r).posted = false
        ∧ (s.note (s.rcd r).note).lock = some u ∧ enqNL (s.pc (s.rcd r).owner) = true ∧ protoMode (s.pc u) = true
  q4 : ∀ r, (s.rcd r).live = true → (s.rcd r).unl = .waker →
        (s.note (s.rcd r).note).flag = true ∧ afterEnq (s.pc (s.rcd r).owner) = true
        ∧ ((s.rcd r).posted = false → s.post (s.rcd r).popper = some r)
  q5 : ∀ r, (s.rcd r).live = true → enq (s.pc (s.rcd r).owner) = true →
        r ∈ (s.note (s.rcd r).note).queue ∨ (s.rcd r).unl = .waker
  l3 : ∀ t r, asleep (s.pc t) = true → (s.fr t).nw = some r → (s.rcd r).unl = .waker → (s.rcd r).posted = true →
        (s.fr t).sem ≠ none ∧ ∀ j, (s.fr t).sem = some j → 0 < s.sem j
  k1 : ∀ k, (s.note k).flag = true → (s.note k).queue ≠ [] →
        (s.note k).lock ≠ none ∧ ∀ u, (s.note k).lock = some u → protoMode (s.pc u) = true ∨ (s.fr u).note ≠ k
  e1 : ∀ t, enq (s.pc t) = true → dlePast (s.note (s.fr t).note).expiry = false

/-- the result and the local deadline -/
structure InvO (s : State) : Prop where
  p1 : ∀ t, asleep (s.pc t) = true →
        (s.fr t).locald = dmin (s.fr t).dl (s.note (s.fr t).note).expiry
        ∧ (s.fr t).nearer = dlt (s.fr t).dl (s.note (s.fr t).note).expiry
  o0 : ∀ t, early (s.pc t) = true → (s.fr t).out = .cancelled
  o1 : ∀ t u, s.pc t = .nf u .ulk →
        (s.note (s.fr t).note).flag = true ∨ dlePast (s.note (s.fr t).note).expiry = true
  o2 : ∀ t, late (s.pc t) = true → (s.fr t).out = .cancelled →
        (s.note (s.fr t).note).flag = true ∨ dlePast (s.note (s.fr t).note).expiry = true
  o3 : ∀ t, late (s.pc t) = true → (s.fr t).out = .timedOut → expiredB (s.fr t).dl s.now = true
  o4 : ∀ t, late (s.pc t) = true → (s.fr t).out = .ok → (s.fr t).consumed = true
  o5 : ∀ t u, s.pc t = .nd u (.ulk true) → (s.note (s.fr t).note).flag = true
  o6 : ∀ t, inL65 (s.pc t) = true → (s.fr t).out = .cancelled

end SemWait
