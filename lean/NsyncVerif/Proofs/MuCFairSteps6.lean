import NsyncVerif.Proofs.MuCFairSteps5
/-
  MuC, fair termination: first consequences of closedness (nobody ever returns again): nobody is at a point of no
  return; every condition evaluated inside nsync_mu_wait is false; no fast-path acquisition or release succeeds.
-/
namespace NsyncVerif.MuC

variable {cfg : Cfg} {s0 : State}

/-- In the closed system nobody is at a return point, inside a try-lock, or in the wake-up loop of a release. -/
theorem closed_prunes (x : Exec cfg s0) (hr : Reachable cfg s0) (hf : WeakFair x) (hh : HoldersRelease x) {n0 n : Nat}
    (hna : NoArrivals x n0) (hn : n0 ≤ n) (hc : ClosedFrom x n) (t : Tid) (j : Nat) (hj : n ≤ j) :
    ¬ retPc ((x.ρ j).pc t) ∧ ¬ tryPc ((x.ρ j).pc t) ∧ ∀ l nw, ¬ wakePc (.ul l nw) ((x.ρ j).pc t) :=
  frozen_no_return_point x hr hf hh hna t hn (fun j hj => hc.frozen t j hj) j hj

theorem own_mwEval {s s' : State} {e : Event} {t : Tid} {c : MW} (hs : step cfg s e = .ok s') (ht : e.tid = some t)
    (hd : e.isData = false) (hp : s.pc t = .mwEval c) :
    ∃ fn k res, e = .cond t fn k res ∧ s'.pc t = loopPc c res := by
  cases e <;> simp only [Event.tid, Option.some.injEq, reduceCtorEq] at ht
  all_goals subst ht
  case cond t fn k res =>
    refine ⟨fn, k, res, rfl, ?_⟩
    simp only [step, stepCond, hp] at hs
    repeat' split at hs
    all_goals first
      | (cases hs; done)
      | (cases hs; simp [mwLoop_eq])
  all_goals first
    | (simp [Event.isData] at hd; done)
    | (simp [step, stepCall, stepRet, stepLd, stepSt, stepCas, hp] at hs)

/-- In the closed system every evaluation of a condition inside nsync_mu_wait (mu_wait.c:170, 265) yields false, and
    the call goes on waiting (it has neither timed out nor been cancelled). -/
theorem closed_eval_false (x : Exec cfg s0) (hr : Reachable cfg s0) (hf : WeakFair x) (hh : HoldersRelease x) {n0 n : Nat}
    (hna : NoArrivals x n0) (hn : n0 ≤ n) (hc : ClosedFrom x n) {t : Tid} {j : Nat} (hj : n ≤ j) {c : MW}
    (hp : (x.ρ j).pc t = .mwEval c) {e : Event} (he : x.σ j = some e) (ht : e.tid = some t) (hd : e.isData = false) :
    ∃ fn k, e = .cond t fn k false ∧ (x.ρ (j + 1)).pc t = .mwStW c := by
  obtain ⟨fn, k, res, rfl, hp'⟩ := own_mwEval (x.next_some he) ht hd hp
  have hnr := (closed_prunes x hr hf hh hna hn hc t (j + 1) (by omega)).1
  rw [hp'] at hnr
  unfold loopPc at hnr hp'
  split at hnr
  · rename_i h
    rw [if_pos h] at hp'
    exact ⟨fn, k, by rw [h.2], hp'⟩
  · exact absurd trivial hnr

end NsyncVerif.MuC
