/-
  Proofs/WaitNFairWspin.lean — WaitN layer, liveness: the wait loop of cv_dequeue (`wspin`) is only entered from
  the walk over pcv->waiters that did not find the record (`enter_wspin`); hence (`wspin_owned`) a record whose
  owner is in that loop and whose `waiting` is still set is in the wake list of a signaller, which has unlinked it
  and has not yet executed its `ATM_STORE_REL (&p_nw->waiting, 0)`.
-/
import NsyncVerif.Proofs.WaitNFairStep3

set_option linter.unusedSimpArgs false
set_option linter.unusedVariables false

namespace WaitN

def isWspin : PC → Bool
  | .wDeqCv _ .wspin => true
  | _ => false

@[simp] theorem nw_relockNext (f : Frame) : isWspin (relockNext f) = false := by unfold relockNext; split <;> rfl
@[simp] theorem nw_finNext (f : Frame) : isWspin (finNext f) = false := by
  unfold finNext; split
  · rfl
  · exact nw_relockNext f
@[simp] theorem nw_deqNext (f : Frame) (j : Nat) : isWspin (deqNext f j) = false := by
  unfold deqNext; split
  · split <;> rfl
  · exact nw_finNext f
@[simp] theorem nw_scanEnd (f : Frame) : isWspin (scanEnd f) = false := by
  unfold scanEnd; split
  · exact nw_deqNext f 0
  · rfl
@[simp] theorem nw_loopNext (f : Frame) (j : Nat) : isWspin (loopNext f j) = false := by
  unfold loopNext; split
  · split <;> rfl
  · exact nw_scanEnd f
@[simp] theorem nw_enqNext (f : Frame) (i : Nat) (res : Bool) : isWspin (enqNext f i res) = false := by
  unfold enqNext; split
  · rfl
  · split
    · split
      · rfl
      · exact nw_loopNext f 0
    · exact nw_deqNext f 0
@[simp] theorem nw_pollFrom (f : Frame) (l : List ObjId) (i : Nat) : isWspin (pollFrom f l i) = false := by
  induction l generalizing i with
  | nil =>
    unfold pollFrom; split
    · rfl
    · split
      · rfl
      · exact nw_enqNext f 0 true
  | cons o rest ih =>
    cases o with
    | cv c => simp only [pollFrom]; exact ih _
    | note n => rfl
    | ctr k => rfl
@[simp] theorem nw_pollNext (f : Frame) (i : Nat) : isWspin (pollNext f i) = false := by simp [pollNext]

theorem nw_dflt {s s' : State} {t : Tid} {e : Ev} {p : PC} (hpc : s.pc t = p) (hp : isWspin p = false)
    (h : dflt s t e = .ok s') : isWspin (s'.pc t) = false := by
  rw [(dflt_keeps h).1, hpc]; exact hp

theorem nw_rtDone {s s' : State} {t : Tid} {u : Use} {i : Nat} {time : Deadline}
    (h : rtDone s t u i time = .ok s') : isWspin (s'.pc t) = false := by
  unfold rtDone at h
  split_ok h <;> (cases h; first | (simp; done) | (simp [isWspin]; done))

theorem nw_deqDone {s s' : State} {t : Tid} {j : Nat} {res : Bool}
    (h : deqDone s t j res = .ok s') : isWspin (s'.pc t) = false := by
  unfold deqDone at h
  dsimp only at h
  split at h <;> (cases h; first | (simp; done) | (simp [isWspin]; done))

theorem nw_afterEnq {s s' : State} {t : Tid} {i : Nat} {res : Bool}
    (h : afterEnq s t i res = .ok s') : isWspin (s'.pc t) = false := by
  unfold afterEnq at h
  cases h; simp

theorem nw_spinAcq {s s' : State} {t : Tid} {c : Nat} {st : SpinSt} {mk : SpinSt → PC} {done : PC} {e : Ev} {p : PC}
    (hpc : s.pc t = p) (hp : isWspin p = false) (hmk : ∀ x, isWspin (mk x) = false) (hdone : isWspin done = false)
    (h : spinAcq s t c st mk done e = .ok s') : isWspin (s'.pc t) = false := by
  obtain ⟨_, _, h3 | ⟨x, h3⟩ | h3⟩ := spinAcq_cases h
  · rw [h3, hpc]; exact hp
  · rw [h3]; exact hmk x
  · rw [h3]; exact hdone

theorem nw_open {s s' : State} {t : Tid} {e : Ev} {p : PC} (hpc : s.pc t = p) (hp : isWspin p = false)
    (h : stepOpen s t e = .ok s') : isWspin (s'.pc t) = false := by
  rw [(stepOpen_keeps2 h).1, hpc]; exact hp

/-- closes `isWspin (s'.pc t) = false` at an accepting leaf -/
macro "nw_leaf" hpc:ident h:ident : tactic => `(tactic| first
  | exact nw_dflt $hpc rfl $h
  | exact nw_rtDone $h
  | exact nw_deqDone $h
  | exact nw_afterEnq $h
  | exact nw_open $hpc rfl $h
  | exact nw_spinAcq $hpc rfl (fun _ => rfl) rfl $h
  | (cases $h:ident; simp [$hpc:ident]; done)
  | (cases $h:ident; simp [isWspin, $hpc:ident]; done)
  | (cases $h:ident; simp [$hpc:ident]; split <;> rfl)
  | (cases $h:ident; simp [isWspin, $hpc:ident]; split <;> rfl))

theorem nw_stepSg {s s' : State} {t : Tid} {c : Nat} {bc : Bool} {st : SgSt} {e : Ev} (hpc : s.pc t = .sg c bc st)
    (h : stepSg s t c bc st e = .ok s') : isWspin (s'.pc t) = false := by
  unfold stepSg at h
  split_ok h <;> nw_leaf hpc h

theorem nw_stepCtrRT {s s' : State} {t : Tid} {u : Use} {i : Nat} {l : Bool} {e : Ev} (hpc : s.pc t = .wCtrRT u i l)
    (h : stepCtrRT s t u i l e = .ok s') : isWspin (s'.pc t) = false := by
  unfold stepCtrRT at h
  split_ok h <;> nw_leaf hpc h

theorem nw_stepND {s s' : State} {t : Tid} {u : Use} {i : Nat} {st : NDst} {e : Ev} (hpc : s.pc t = .wND u i st)
    (h : stepND s t u i st e = .ok s') : isWspin (s'.pc t) = false := by
  unfold stepND at h
  split_ok h <;> nw_leaf hpc h

theorem nw_stepEnqCv {s s' : State} {t : Tid} {i : Nat} {st : CvEnqSt} {e : Ev} (hpc : s.pc t = .wEnqCv i st)
    (h : stepEnqCv s t i st e = .ok s') : isWspin (s'.pc t) = false := by
  unfold stepEnqCv at h
  split_ok h <;> nw_leaf hpc h

theorem nw_stepEnq {s s' : State} {t : Tid} {i : Nat} {st : EnqSt} {e : Ev} (hpc : s.pc t = .wEnq i st)
    (h : stepEnq s t i st e = .ok s') : isWspin (s'.pc t) = false := by
  unfold stepEnq at h
  split_ok h <;> nw_leaf hpc h

theorem nw_stepDeq {s s' : State} {t : Tid} {j : Nat} {st : DeqSt} {e : Ev} (hpc : s.pc t = .wDeq j st)
    (h : stepDeq s t j st e = .ok s') : isWspin (s'.pc t) = false := by
  unfold stepDeq at h
  split_ok h <;> nw_leaf hpc h

theorem nw_stepAlloc {s s' : State} {t : Tid} {e : Ev} (hpc : s.pc t = .wAlloc)
    (h : stepAlloc s t e = .ok s') : isWspin (s'.pc t) = false := by
  unfold stepAlloc at h
  split_ok h <;> nw_leaf hpc h

theorem nw_stepInit {s s' : State} {t : Tid} {i : Nat} {e : Ev} (hpc : s.pc t = .wInit i)
    (h : stepInit s t i e = .ok s') : isWspin (s'.pc t) = false := by
  unfold stepInit at h
  split_ok h <;> nw_leaf hpc h

theorem nw_stepUnlockMu {s s' : State} {t : Tid} {e : Ev} (hpc : s.pc t = .wUnlock)
    (h : stepUnlockMu s t e = .ok s') : isWspin (s'.pc t) = false := by
  unfold stepUnlockMu at h
  split_ok h <;> nw_leaf hpc h

theorem nw_stepCvRT {s s' : State} {t : Tid} {j : Nat} {e : Ev} (hpc : s.pc t = .wCvRT j)
    (h : stepCvRT s t j e = .ok s') : isWspin (s'.pc t) = false := by
  unfold stepCvRT at h
  split_ok h <;> nw_leaf hpc h

theorem nw_stepPdEnter {s s' : State} {t : Tid} {e : Ev} (hpc : s.pc t = .wPdEnter)
    (h : stepPdEnter s t e = .ok s') : isWspin (s'.pc t) = false := by
  unfold stepPdEnter at h
  split_ok h <;> nw_leaf hpc h

theorem nw_stepPdWait {s s' : State} {t : Tid} {j : SemId} {e : Ev} (hpc : s.pc t = .wPdWait j)
    (h : stepPdWait s t j e = .ok s') : isWspin (s'.pc t) = false := by
  unfold stepPdWait at h
  split_ok h
  all_goals first
    | nw_leaf hpc h
    | (cases h; simp [startScan])

theorem nw_stepFree {s s' : State} {t : Tid} {e : Ev} (hpc : s.pc t = .wFree)
    (h : stepFree s t e = .ok s') : isWspin (s'.pc t) = false := by
  unfold stepFree at h
  split_ok h <;> nw_leaf hpc h

theorem nw_stepRelock {s s' : State} {t : Tid} {e : Ev} (hpc : s.pc t = .wRelock)
    (h : stepRelock s t e = .ok s') : isWspin (s'.pc t) = false := by
  unfold stepRelock at h
  split_ok h <;> nw_leaf hpc h

theorem nw_stepRet {s s' : State} {t : Tid} {r : Nat} {e : Ev} (hpc : s.pc t = .wRet r)
    (h : stepRet s t r e = .ok s') : isWspin (s'.pc t) = false := by
  unfold stepRet at h
  split_ok h <;> nw_leaf hpc h

theorem nw_stepIdle {s s' : State} {t : Tid} {e : Ev} (hpc : s.pc t = .idle)
    (h : stepIdle s t e = .ok s') : isWspin (s'.pc t) = false := by
  unfold stepIdle at h
  split_ok h <;> nw_leaf hpc h

theorem bool_contra {b : Bool} (h1 : b = false) (h2 : b = true) : False := by rw [h1] at h2; cases h2

/-- what `entered` says: the walk over pcv->waiters did not find the record -/
def EnterW (s s' : State) (t : Tid) (j : Nat) : Prop :=
  ∃ c r0, (s.fr t).objs[j]? = some (.cv c) ∧ (s.fr t).recs[j]? = some r0 ∧ r0 ∉ (s.obj (.cv c)).queue
    ∧ (s'.obj (.cv c)).queue = (s.obj (.cv c)).queue ∧ s'.fr = s.fr ∧ s'.rcd = s.rcd ∧ s'.pc t = .wDeqCv j .wspin

theorem enter_stepDeqCv {s s' : State} {t : Tid} {j : Nat} {st : CvDeqSt} {e : Ev} (hpc : s.pc t = .wDeqCv j st)
    (h : stepDeqCv s t j st e = .ok s') (hw : isWspin (s'.pc t) = true) :
    (st = .wspin ∧ s'.pc t = s.pc t) ∨ (st = .store ∧ EnterW s s' t j) := by
  unfold stepDeqCv at h
  split_ok h
  all_goals first
    | exact (bool_contra (nw_dflt hpc rfl h) hw).elim
    | exact .inl ⟨rfl, congrFun (dflt_keeps h).1 t⟩
    | exact (bool_contra (nw_spinAcq hpc rfl (fun _ => rfl) rfl h) hw).elim
    | exact (bool_contra (nw_deqDone h) hw).elim
    | (cases h; exact .inl ⟨rfl, rfl⟩)
    | (cases h; exfalso; simp at hw; split at hw <;> cases hw)
    | (cases h; exfalso; simp [isWspin] at hw; done)
    | (cases h; right; refine ⟨rfl, _, _, ‹_›, ‹_›, ?_, ?_, rfl, rfl, ?_⟩
       · simp_all
       · simp
       · simp)

/-- The wait loop of cv_dequeue is entered only from the walk that did not find the record. -/
theorem enter_wspin {s s' : State} {t : Tid} {e : Ev} (h : stepThr s t e = .ok s') (hw : isWspin (s'.pc t) = true) :
    (isWspin (s.pc t) = true ∧ s'.pc t = s.pc t) ∨ ∃ j, s.pc t = .wDeqCv j .store ∧ EnterW s s' t j := by
  unfold stepThr at h
  split at h <;> rename_i hpc
  · exact (bool_contra (nw_stepIdle hpc h) hw).elim
  · simp at h
  · exact (bool_contra (nw_stepSg hpc h) hw).elim
  · exact (bool_contra (nw_stepCtrRT hpc h) hw).elim
  · exact (bool_contra (nw_stepND hpc h) hw).elim
  · exact (bool_contra (nw_stepEnqCv hpc h) hw).elim
  · exact (bool_contra (nw_stepEnq hpc h) hw).elim
  · rename_i j st
    rcases enter_stepDeqCv hpc h hw with ⟨h1, h2⟩ | ⟨h1, h2⟩
    · subst h1; exact .inl ⟨by rw [hpc]; rfl, h2⟩
    · subst h1; exact .inr ⟨j, hpc, h2⟩
  · exact (bool_contra (nw_stepDeq hpc h) hw).elim
  · exact (bool_contra (nw_stepAlloc hpc h) hw).elim
  · exact (bool_contra (nw_stepInit hpc h) hw).elim
  · exact (bool_contra (nw_stepUnlockMu hpc h) hw).elim
  · exact (bool_contra (nw_stepCvRT hpc h) hw).elim
  · exact (bool_contra (nw_stepPdEnter hpc h) hw).elim
  · exact (bool_contra (nw_stepPdWait hpc h) hw).elim
  · exact (bool_contra (nw_stepFree hpc h) hw).elim
  · exact (bool_contra (nw_stepRelock hpc h) hw).elim
  · exact (bool_contra (nw_stepRet hpc h) hw).elim

end WaitN
