import NsyncVerif.Proofs.MuCInv6Cas2
/-
  MuC, ring invariant: remaining steps; the invariant in every reachable state.
-/
namespace NsyncVerif.MuC

theorem inv6_stepCall {s s' : State} {t : Tid} {a : Api} (h : Inv6 s)
    (hs : stepCall s t a = .ok s') : Inv6 s' := by
  unfold stepCall at hs
  split at hs
  · rename_i heq
    cases a <;> dsimp only at hs
    all_goals (repeat' split at hs)
    all_goals first
      | (cases hs; done)
      | (cases hs; inv6_local t h heq)
      | skip
    · -- nsync_mu_wait without a condition
      cases hs
      refine Inv6.local' t h rfl (fun x => ⟨rfl, rfl⟩) (fun j v e => e) (by intro u hu; simp [setFn, hu]) (by simp [heq, PC.scan?]) ?_
      intro c hc
      simp only [setPc_pc, setFn_same, PC.mw, Option.some.injEq] at hc
      subst hc
      intro cd' hcd'
      simp at hcd'
    · -- nsync_mu_wait with a condition: the argument object gets / keeps its meaning
      rename_i cd hca
      cases hs
      simp only [ne_eq, not_and, Decidable.not_not] at hca
      have hmono : ∀ j v, s.cargs j = some v → setFn s.cargs cd.k (some (cd.var, cd.val, cd.hasEq)) j = some v := by
        intro j v hj
        simp only [setFn]
        split
        · rename_i e; subst e
          by_cases hn : s.cargs cd.k = none
          · rw [hn] at hj; cases hj
          · rw [← hj]; exact (hca hn).symm
        · exact hj
      refine Inv6.local' t h rfl (fun x => ⟨rfl, rfl⟩) hmono (by intro u hu; simp [setFn, hu]) (by simp [heq, PC.scan?]) ?_
      intro c hc
      simp only [setPc_pc, setFn_same, PC.mw, Option.some.injEq] at hc
      subst hc
      intro cd' hcd'
      simp only [Option.some.injEq] at hcd'
      subst hcd'
      simp [setFn]
  · cases hs

theorem inv6_stepRet {s s' : State} {t : Tid} {a : Api} {res : Res} (h : Inv6 s)
    (hs : stepRet s t a res = .ok s') : Inv6 s' := by
  unfold stepRet at hs
  split at hs
  all_goals first
    | (cases hs; done)
    | (rename_i heq
       repeat' split at hs
       all_goals first
         | (cases hs; done)
         | (cases hs; inv6_local t h heq))
    | skip
  rename_i c cit cnd dl note o' heq
  repeat' split at hs
  all_goals first
    | (cases hs; done)
    | skip
  all_goals
    (cases hs
     cases hcw : c.w <;> simp only [dropW, setHeld] <;> (try split) <;> inv6_local t h heq)

theorem inv6_stepCond {s s' : State} {t : Tid} {fn : CFn} {k : Nat} {res : Bool} (h1 : Inv1 s) (h4 : Inv4 s) (h : Inv6 s)
    (hs : stepCond s t fn k res = .ok s') : Inv6 s' := by
  unfold stepCond at hs
  dsimp only at hs
  split at hs
  · rename_i c heq
    repeat' split at hs
    all_goals first
      | (cases hs; done)
      | (cases hs; rw [mwLoop_eq]; simp only [loopPc]; split <;> inv6_local t h heq)
  · rename_i r sc heq
    have hok1 := h1.pcok t; rw [heq] at hok1
    repeat' split at hs
    all_goals first
      | (cases hs; done)
      | skip
    obtain ⟨hf, p, hpc, hsc⟩ := afterEval_frame hs hok1.2.1
    obtain ⟨hlo, _⟩ := afterEval_lists hs
    have hpt : ScanPc r sc.late (s'.pc t) := by rw [hpc]; simpa using hsc
    have hc0 := Inv6.chainsS h h4 (t := t) (sc := sc) (by rw [heq]; rfl)
    have hat := afterEval_chains hs hc0
    refine Inv6.of_chainsAt t h hat (fun x => (hlo x).2.2.2.2.1) (by rw [hf.cargs])
      (by intro u hu; rw [hpc]; simp [setFn, hu]) ?_ ?_
    · intro u hu
      cases e : (s.pc u).unl with
      | false => rfl
      | true => exact absurd (h4.uniq u t e (by rw [heq]; rfl)) hu
    · rw [hpt.mw, heq]; rfl
  · cases hs

theorem inv6_step {cfg : Cfg} {s s' : State} {e : Event} (h1 : Inv1 s) (h3 : Inv3 s) (h4 : Inv4 s) (h : Inv6 s)
    (hs : step cfg s e = .ok s') : Inv6 s' := by
  cases e with
  | call t a => exact inv6_stepCall h hs
  | ret t a res => exact inv6_stepRet h hs
  | ld t o loc obs => exact inv6_stepLd h4 h hs
  | st t o loc new obs => exact inv6_stepSt h4 h hs
  | cas t o loc exp new obs ok => exact inv6_stepCas h1 h3 h4 h hs
  | cond t fn k res => exact inv6_stepCond h1 h4 h hs
  | semPEnter t k =>
    simp only [step] at hs
    split at hs
    · rename_i heq; ld_case6 t h heq hs
    · cases hs
  | semPRet t k =>
    simp only [step] at hs
    split at hs
    · rename_i heq; ld_case6 t h heq hs
    · cases hs
  | semPdEnter t k dl =>
    simp only [step] at hs
    split at hs
    · rename_i heq; ld_case6 t h heq hs
    · cases hs
  | semPdRet t k timedout =>
    simp only [step] at hs
    split at hs
    · rename_i heq; ld_case6 t h heq hs
    · cases hs
  | semV t k =>
    simp only [step] at hs
    split at hs
    · rename_i r k' rest heq
      split at hs
      · cases hs
      · cases hs
        rw [afterFin_eq]
        refine Inv6.local t h (by simp) (by intro x; simp [semPost, setFn]; split <;> simp_all) (by simp)
          (by intro u hu; simp [setFn, hu]) ?_ ?_
        · simp only [semPost_pc, setPc_pc, setFn_same, heq, finPc_scan]; rfl
        · intro c hc
          simp only [semPost_pc, setPc_pc, setFn_same, finPc_mw] at hc
          exact ⟨c, by rw [heq]; exact hc, rfl⟩
    · cases hs
  | envV k =>
    simp only [step] at hs; cases hs
    exact h.env (by simp) (by intro x; simp [semPost, setFn]; split <;> simp_all) (by simp) (by simp)
  | envSem k n =>
    simp only [step] at hs
    split at hs
    · cases hs; exact h.env rfl (by intro x; simp [setFn]; split <;> simp_all) rfl rfl
    · cases hs
  | dataW t x v =>
    simp only [step] at hs
    split at hs
    · cases hs; exact h.env rfl (fun _ => ⟨rfl, rfl⟩) rfl rfl
    · cases hs
  | dataR t x v =>
    simp only [step] at hs
    split at hs
    · cases hs; exact h
    · cases hs
  | tick n =>
    simp only [step] at hs
    split at hs
    · cases hs; exact h.env rfl (fun _ => ⟨rfl, rfl⟩) rfl rfl
    · cases hs
  | noteSeen t =>
    simp only [step] at hs
    split at hs
    · rename_i heq; ld_case6 t h heq hs
    · cases hs
  | noteNotify t =>
    simp only [step] at hs
    split at hs
    · rename_i heq; ld_case6 t h heq hs
    · rename_i heq; ld_case6 t h heq hs
    · cases hs

theorem reachable_inv13456 {cfg : Cfg} {s : State} (h : Reachable cfg s) : Inv1 s ∧ Inv3 s ∧ Inv4 s ∧ Inv5 s ∧ Inv6 s :=
  reachable_induction (P := fun s => Inv1 s ∧ Inv3 s ∧ Inv4 s ∧ Inv5 s ∧ Inv6 s) ⟨inv1_init, inv3_init, inv4_init, inv5_init, inv6_init⟩
    (fun _ _ _ _ hp hs =>
      have h4' := inv4_step hp.1 hp.2.1 hp.2.2.1 hs
      ⟨inv1_step hp.1 hs, inv3_step hp.1 hp.2.1 hs, h4', inv5_step hp.1 hp.2.1 hp.2.2.1 h4' hp.2.2.2.1 hs,
       inv6_step hp.1 hp.2.1 hp.2.2.1 hp.2.2.2.2 hs⟩) s h

theorem reachable_inv6 {cfg : Cfg} {s : State} (h : Reachable cfg s) : Inv6 s := (reachable_inv13456 h).2.2.2.2

end NsyncVerif.MuC
