/-
  Proofs/SemWaitBasic.lean — projection lemmas for the state-update functions of Model/SemWait.lean,
  classes of program points, and `run` / `Reachable` plumbing.
-/
import NsyncVerif.Model.SemWait

namespace SemWait

section proj
variable (s : State)

@[simp] theorem setNote_note (k : NoteId) (v : Note) (i : NoteId) : (s.setNote k v).note i = if i = k then v else s.note i := rfl
@[simp] theorem setNote_rcd (k : NoteId) (v : Note) : (s.setNote k v).rcd = s.rcd := rfl
@[simp] theorem setNote_sem (k : NoteId) (v : Note) : (s.setNote k v).sem = s.sem := rfl
@[simp] theorem setNote_semUser (k : NoteId) (v : Note) : (s.setNote k v).semUser = s.semUser := rfl
@[simp] theorem setNote_pc (k : NoteId) (v : Note) : (s.setNote k v).pc = s.pc := rfl
@[simp] theorem setNote_fr (k : NoteId) (v : Note) : (s.setNote k v).fr = s.fr := rfl
@[simp] theorem setNote_post (k : NoteId) (v : Note) : (s.setNote k v).post = s.post := rfl
@[simp] theorem setNote_now (k : NoteId) (v : Note) : (s.setNote k v).now = s.now := rfl

@[simp] theorem setRec_rcd (r : Rid) (v : Rec) (i : Rid) : (s.setRec r v).rcd i = if i = r then v else s.rcd i := rfl
@[simp] theorem setRec_note (r : Rid) (v : Rec) : (s.setRec r v).note = s.note := rfl
@[simp] theorem setRec_sem (r : Rid) (v : Rec) : (s.setRec r v).sem = s.sem := rfl
@[simp] theorem setRec_semUser (r : Rid) (v : Rec) : (s.setRec r v).semUser = s.semUser := rfl
@[simp] theorem setRec_pc (r : Rid) (v : Rec) : (s.setRec r v).pc = s.pc := rfl
@[simp] theorem setRec_fr (r : Rid) (v : Rec) : (s.setRec r v).fr = s.fr := rfl
@[simp] theorem setRec_post (r : Rid) (v : Rec) : (s.setRec r v).post = s.post := rfl
@[simp] theorem setRec_now (r : Rid) (v : Rec) : (s.setRec r v).now = s.now := rfl

@[simp] theorem setSem_sem (j n : Nat) (i : Nat) : (s.setSem j n).sem i = if i = j then n else s.sem i := rfl
@[simp] theorem setSem_note (j n : Nat) : (s.setSem j n).note = s.note := rfl
@[simp] theorem setSem_rcd (j n : Nat) : (s.setSem j n).rcd = s.rcd := rfl
@[simp] theorem setSem_semUser (j n : Nat) : (s.setSem j n).semUser = s.semUser := rfl
@[simp] theorem setSem_pc (j n : Nat) : (s.setSem j n).pc = s.pc := rfl
@[simp] theorem setSem_fr (j n : Nat) : (s.setSem j n).fr = s.fr := rfl
@[simp] theorem setSem_post (j n : Nat) : (s.setSem j n).post = s.post := rfl
@[simp] theorem setSem_now (j n : Nat) : (s.setSem j n).now = s.now := rfl

@[simp] theorem setSemUser_semUser (j : Nat) (u : Option Tid) (i : Nat) : (s.setSemUser j u).semUser i = if i = j then u else s.semUser i := rfl
@[simp] theorem setSemUser_note (j : Nat) (u : Option Tid) : (s.setSemUser j u).note = s.note := rfl
@[simp] theorem setSemUser_rcd (j : Nat) (u : Option Tid) : (s.setSemUser j u).rcd = s.rcd := rfl
@[simp] theorem setSemUser_sem (j : Nat) (u : Option Tid) : (s.setSemUser j u).sem = s.sem := rfl
@[simp] theorem setSemUser_pc (j : Nat) (u : Option Tid) : (s.setSemUser j u).pc = s.pc := rfl
@[simp] theorem setSemUser_fr (j : Nat) (u : Option Tid) : (s.setSemUser j u).fr = s.fr := rfl
@[simp] theorem setSemUser_post (j : Nat) (u : Option Tid) : (s.setSemUser j u).post = s.post := rfl
@[simp] theorem setSemUser_now (j : Nat) (u : Option Tid) : (s.setSemUser j u).now = s.now := rfl

@[simp] theorem setPc_pc (t : Tid) (p : PC) (u : Tid) : (s.setPc t p).pc u = if u = t then p else s.pc u := rfl
@[simp] theorem setPc_note (t : Tid) (p : PC) : (s.setPc t p).note = s.note := rfl
@[simp] theorem setPc_rcd (t : Tid) (p : PC) : (s.setPc t p).rcd = s.rcd := rfl
@[simp] theorem setPc_sem (t : Tid) (p : PC) : (s.setPc t p).sem = s.sem := rfl
@[simp] theorem setPc_semUser (t : Tid) (p : PC) : (s.setPc t p).semUser = s.semUser := rfl
@[simp] theorem setPc_fr (t : Tid) (p : PC) : (s.setPc t p).fr = s.fr := rfl
@[simp] theorem setPc_post (t : Tid) (p : PC) : (s.setPc t p).post = s.post := rfl
@[simp] theorem setPc_now (t : Tid) (p : PC) : (s.setPc t p).now = s.now := rfl

@[simp] theorem setFr_fr (t : Tid) (f : Frame) (u : Tid) : (s.setFr t f).fr u = if u = t then f else s.fr u := rfl
@[simp] theorem setFr_note (t : Tid) (f : Frame) : (s.setFr t f).note = s.note := rfl
@[simp] theorem setFr_rcd (t : Tid) (f : Frame) : (s.setFr t f).rcd = s.rcd := rfl
@[simp] theorem setFr_sem (t : Tid) (f : Frame) : (s.setFr t f).sem = s.sem := rfl
@[simp] theorem setFr_semUser (t : Tid) (f : Frame) : (s.setFr t f).semUser = s.semUser := rfl
@[simp] theorem setFr_pc (t : Tid) (f : Frame) : (s.setFr t f).pc = s.pc := rfl
@[simp] theorem setFr_post (t : Tid) (f : Frame) : (s.setFr t f).post = s.post := rfl
@[simp] theorem setFr_now (t : Tid) (f : Frame) : (s.setFr t f).now = s.now := rfl

@[simp] theorem setPost_post (t : Tid) (p : Option Rid) (u : Tid) : (s.setPost t p).post u = if u = t then p else s.post u := rfl
@[simp] theorem setPost_note (t : Tid) (p : Option Rid) : (s.setPost t p).note = s.note := rfl
@[simp] theorem setPost_rcd (t : Tid) (p : Option Rid) : (s.setPost t p).rcd = s.rcd := rfl
@[simp] theorem setPost_sem (t : Tid) (p : Option Rid) : (s.setPost t p).sem = s.sem := rfl
@[simp] theorem setPost_semUser (t : Tid) (p : Option Rid) : (s.setPost t p).semUser = s.semUser := rfl
@[simp] theorem setPost_pc (t : Tid) (p : Option Rid) : (s.setPost t p).pc = s.pc := rfl
@[simp] theorem setPost_fr (t : Tid) (p : Option Rid) : (s.setPost t p).fr = s.fr := rfl
@[simp] theorem setPost_now (t : Tid) (p : Option Rid) : (s.setPost t p).now = s.now := rfl
@[simp] theorem kill_rcd (o : Option Rid) (i : Rid) : (s.kill o).rcd i = if o = some i then { s.rcd i with live := false } else s.rcd i := rfl
@[simp] theorem kill_note (o : Option Rid) : (s.kill o).note = s.note := rfl
@[simp] theorem kill_sem (o : Option Rid) : (s.kill o).sem = s.sem := rfl
@[simp] theorem kill_semUser (o : Option Rid) : (s.kill o).semUser = s.semUser := rfl
@[simp] theorem kill_pc (o : Option Rid) : (s.kill o).pc = s.pc := rfl
@[simp] theorem kill_fr (o : Option Rid) : (s.kill o).fr = s.fr := rfl
@[simp] theorem kill_post (o : Option Rid) : (s.kill o).post = s.post := rfl
@[simp] theorem kill_now (o : Option Rid) : (s.kill o).now = s.now := rfl
@[simp] theorem unbind_semUser (o : Option SemId) (i : SemId) : (s.unbind o).semUser i = if o = some i then none else s.semUser i := rfl
@[simp] theorem unbind_note (o : Option SemId) : (s.unbind o).note = s.note := rfl
@[simp] theorem unbind_rcd (o : Option SemId) : (s.unbind o).rcd = s.rcd := rfl
@[simp] theorem unbind_sem (o : Option SemId) : (s.unbind o).sem = s.sem := rfl
@[simp] theorem unbind_pc (o : Option SemId) : (s.unbind o).pc = s.pc := rfl
@[simp] theorem unbind_fr (o : Option SemId) : (s.unbind o).fr = s.fr := rfl
@[simp] theorem unbind_post (o : Option SemId) : (s.unbind o).post = s.post := rfl
@[simp] theorem unbind_now (o : Option SemId) : (s.unbind o).now = s.now := rfl

end proj

@[simp] theorem ite_rec_live {c : Prop} [Decidable c] (a b : Rec) : (if c then a else b).live = if c then a.live else b.live := by split <;> rfl
@[simp] theorem ite_rec_waiting {c : Prop} [Decidable c] (a b : Rec) : (if c then a else b).waiting = if c then a.waiting else b.waiting := by split <;> rfl
@[simp] theorem ite_rec_owner {c : Prop} [Decidable c] (a b : Rec) : (if c then a else b).owner = if c then a.owner else b.owner := by split <;> rfl
@[simp] theorem ite_rec_note {c : Prop} [Decidable c] (a b : Rec) : (if c then a else b).note = if c then a.note else b.note := by split <;> rfl
@[simp] theorem ite_rec_unl {c : Prop} [Decidable c] (a b : Rec) : (if c then a else b).unl = if c then a.unl else b.unl := by split <;> rfl
@[simp] theorem ite_rec_popper {c : Prop} [Decidable c] (a b : Rec) : (if c then a else b).popper = if c then a.popper else b.popper := by split <;> rfl
@[simp] theorem ite_rec_posted {c : Prop} [Decidable c] (a b : Rec) : (if c then a else b).posted = if c then a.posted else b.posted := by split <;> rfl
@[simp] theorem ite_note_known {c : Prop} [Decidable c] (a b : Note) : (if c then a else b).known = if c then a.known else b.known := by split <;> rfl
@[simp] theorem ite_note_lock {c : Prop} [Decidable c] (a b : Note) : (if c then a else b).lock = if c then a.lock else b.lock := by split <;> rfl
@[simp] theorem ite_note_flag {c : Prop} [Decidable c] (a b : Note) : (if c then a else b).flag = if c then a.flag else b.flag := by split <;> rfl
@[simp] theorem ite_note_expiry {c : Prop} [Decidable c] (a b : Note) : (if c then a else b).expiry = if c then a.expiry else b.expiry := by split <;> rfl
@[simp] theorem ite_note_queue {c : Prop} [Decidable c] (a b : Note) : (if c then a else b).queue = if c then a.queue else b.queue := by split <;> rfl
@[simp] theorem ite_note_fresh {c : Prop} [Decidable c] (a b : Note) : (if c then a else b).fresh = if c then a.fresh else b.fresh := by split <;> rfl
@[simp] theorem ite_fr_note {c : Prop} [Decidable c] (a b : Frame) : (if c then a else b).note = if c then a.note else b.note := by split <;> rfl
@[simp] theorem ite_fr_dl {c : Prop} [Decidable c] (a b : Frame) : (if c then a else b).dl = if c then a.dl else b.dl := by split <;> rfl
@[simp] theorem ite_fr_nw {c : Prop} [Decidable c] (a b : Frame) : (if c then a else b).nw = if c then a.nw else b.nw := by split <;> rfl
@[simp] theorem ite_fr_sem {c : Prop} [Decidable c] (a b : Frame) : (if c then a else b).sem = if c then a.sem else b.sem := by split <;> rfl
@[simp] theorem ite_fr_locald {c : Prop} [Decidable c] (a b : Frame) : (if c then a else b).locald = if c then a.locald else b.locald := by split <;> rfl
@[simp] theorem ite_fr_nearer {c : Prop} [Decidable c] (a b : Frame) : (if c then a else b).nearer = if c then a.nearer else b.nearer := by split <;> rfl
@[simp] theorem ite_fr_out {c : Prop} [Decidable c] (a b : Frame) : (if c then a else b).out = if c then a.out else b.out := by split <;> rfl
@[simp] theorem ite_fr_consumed {c : Prop} [Decidable c] (a b : Frame) : (if c then a else b).consumed = if c then a.consumed else b.consumed := by split <;> rfl

@[simp] theorem b2n_eq_zero (b : Bool) : (b2n b = 0) = (b = false) := by cases b <;> simp [b2n]
@[simp] theorem b2n_true : b2n true = 1 := rfl
@[simp] theorem b2n_false : b2n false = 0 := rfl

@[simp] theorem reject_eq_ok (m : String) (s' : State) : (reject m = .ok s') = False := by
  simp [reject]

@[simp] theorem error_eq_ok (m : String) (s' : State) : ((Except.error m : R) = .ok s') = False := by
  simp

/-- split a hypothesis `h : <step function> = .ok s'` into its accepting branches -/
macro "split_ok" h:ident : tactic =>
  `(tactic| (repeat' (first | (split at $h:ident) | (dsimp only at $h:ident))) <;> (try (simp only [reject_eq_ok, error_eq_ok] at $h:ident)))

theorem vCount_pos (cfg : Config) (n : Nat) : 0 < vCount cfg n := by
  unfold vCount; split <;> omega

/-! ### classes of program points -/

/-- the thread runs protocol-driven code: outside nsync_sem_wait_with_cancel_, or inside the open part of a
    notify () it calls -/
def protoMode : PC → Bool
  | .idle | .nf _ .open => true
  | _ => false

/-- `nw` is not initialised yet -/
def preNw : PC → Bool
  | .idle | .nd .first _ | .nf .first _ | .init => true
  | _ => false

/-- `nw` is initialised -/
def hasNw : PC → Bool
  | .lk1 | .ld49 | .ulk1 _ | .pdEnter | .pdWait _ | .nd .l65 _ | .nf .l65 _ | .lk2 | .ld68 | .ulk2 => true
  | _ => false

/-- `nw` has been put on the note's list and the owner has not yet passed its dequeue -/
def enq : PC → Bool
  | .ulk1 true | .pdEnter | .pdWait _ | .nd .l65 _ | .nf .l65 _ | .lk2 | .ld68 => true
  | _ => false

/-- … and has not yet re-acquired note_mu for the dequeue -/
def enqNL : PC → Bool
  | .ulk1 true | .pdEnter | .pdWait _ | .nd .l65 _ | .nf .l65 _ | .lk2 => true
  | _ => false

/-- enqueued and about to sleep, or asleep, in the P -/
def asleep : PC → Bool
  | .ulk1 true | .pdEnter | .pdWait _ => true
  | _ => false

/-- `sem_outcome` is still its initial ECANCELED -/
def early : PC → Bool
  | .nd .first _ | .nf .first _ | .init | .lk1 | .ld49 | .ulk1 false => true
  | _ => false

/-- `sem_outcome` is final -/
def late : PC → Bool
  | .ulk1 false | .lk2 | .ld68 | .ulk2 | .ret => true
  | _ => false

/-- case split on a program point, including the `Use` of `nd` / `nf` and the flag of `ulk1` -/
macro "pc_cases" p:ident : tactic =>
  `(tactic| rcases $p:ident with _ | ⟨(_|_), st⟩ | ⟨(_|_), st⟩ | _ | _ | _ | (_|_) | _ | j | _ | _ | _ | _)

/-- full case split on a program point -/
macro "pc_full" p:ident : tactic =>
  `(tactic| rcases $p:ident with _ | ⟨(_|_), (_|_|_|⟨_|_⟩|_)⟩ | ⟨(_|_), (_|_|_|_)⟩ | _ | _ | _ | (_|_) | _ | j | _ | _ | _ | _)

theorem enqNL_enq {p : PC} (h : enqNL p = true) : enq p = true := by
  pc_cases p <;> simp_all [enqNL, enq]

theorem asleep_enqNL {p : PC} (h : asleep p = true) : enqNL p = true := by
  pc_cases p <;> simp_all [enqNL, asleep]

theorem enq_hasNw {p : PC} (h : enq p = true) : hasNw p = true := by
  pc_cases p <;> simp_all [hasNw, enq]

theorem hasNw_inCall {p : PC} (h : hasNw p = true) : inCall p = true := by
  pc_cases p <;> simp_all [hasNw, inCall]

/-! ### run / Reachable -/

theorem reachable_init (cfg : Config) : Reachable cfg init := ⟨[], rfl⟩

theorem run_append {cfg : Config} {s : State} {es fs : List Event} {s' : State} (h : run cfg s es = .ok s') :
    run cfg s (es ++ fs) = run cfg s' fs := by
  induction es generalizing s with
  | nil => simp only [run] at h; cases h; rfl
  | cons e es ih =>
    simp only [run, List.cons_append] at *
    split at h
    · rename_i s1 hs1
      exact ih h
    · cases h

theorem reachable_step {cfg : Config} {s s' : State} {e : Event} (h : Reachable cfg s) (hs : step cfg s e = .ok s') :
    Reachable cfg s' := by
  obtain ⟨evs, hr⟩ := h
  refine ⟨evs ++ [e], ?_⟩
  rw [run_append hr]
  simp [run, hs]

/-- induction principle over reachable states -/
theorem reachable_induction {cfg : Config} {P : State → Prop} (h0 : P init)
    (hstep : ∀ s s' e, Reachable cfg s → P s → step cfg s e = .ok s' → P s') {s : State} (h : Reachable cfg s) : P s := by
  obtain ⟨evs, hr⟩ := h
  suffices ∀ (evs : List Event) (s0 : State), Reachable cfg s0 → P s0 → run cfg s0 evs = .ok s → P s from
    this evs init (reachable_init cfg) h0 hr
  intro evs
  induction evs with
  | nil => intro s0 _ p0 hr; simp only [run] at hr; cases hr; exact p0
  | cons e es ih =>
    intro s0 r0 p0 hr
    simp only [run] at hr
    split at hr
    · rename_i s1 hs1
      exact ih s1 (reachable_step r0 hs1) (hstep s0 s1 e r0 p0 hs1) hr
    · cases hr

end SemWait
