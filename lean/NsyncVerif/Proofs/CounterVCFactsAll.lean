/- Proofs/CounterVCFactsAll.lean — VCFacts for every accepted thread step. -/
import NsyncVerif.Proofs.CounterVCFactsA
import NsyncVerif.Proofs.CounterVCFactsB

namespace Counter

theorem vcfacts_stepThr {s s' : State} {t : Tid} {e : Ev} (hi : Inv s) (h : stepThr s t e = .ok s') :
    VCFacts s t e s' := by
  cases hpc : s.pc t with
  | idle  => exact vcfacts_idle hi hpc h
  | newMalloc a0 => exact vcfacts_newMalloc hi hpc h
  | newStore a0 => exact vcfacts_newStore hi hpc h
  | newRet a0 => exact vcfacts_newRet hi hpc h
  | fLockCall  => exact vcfacts_fLockCall hi hpc h
  | fLockWait  => exact vcfacts_fLockWait hi hpc h
  | fHeld  => exact vcfacts_fHeld hi hpc h
  | fUnlockWait  => exact vcfacts_fUnlockWait hi hpc h
  | fFree  => exact vcfacts_fFree hi hpc h
  | fRet  => exact vcfacts_fRet hi hpc h
  | valLoad  => exact vcfacts_valLoad hi hpc h
  | valRet a0 => exact vcfacts_valRet hi hpc h
  | azLoad  => exact vcfacts_azLoad hi hpc h
  | azRet a0 => exact vcfacts_azRet hi hpc h
  | aLockCall a0 => exact vcfacts_aLockCall hi hpc h
  | aLockWait a0 => exact vcfacts_aLockWait hi hpc h
  | aLoad a0 => exact vcfacts_aLoad hi hpc h
  | aCas a0 a1 => exact vcfacts_aCas hi hpc h
  | aLoadWaited a0 a1 a2 => exact vcfacts_aLoadWaited hi hpc h
  | aHeld a0 a1 a2 a3 => exact vcfacts_aHeld hi hpc h
  | aPost a0 a1 a2 a3 => exact vcfacts_aPost hi hpc h
  | aUnlockWait a0 a1 a2 => exact vcfacts_aUnlockWait hi hpc h
  | aRet a0 a1 a2 => exact vcfacts_aRet hi hpc h
  | w0Store a0 => exact vcfacts_w0Store hi hpc h
  | w0Load a0 => exact vcfacts_w0Load hi hpc h
  | wInit a0 => exact vcfacts_wInit hi hpc h
  | wEnqLockCall a0 a1 => exact vcfacts_wEnqLockCall hi hpc h
  | wEnqLockWait a0 a1 => exact vcfacts_wEnqLockWait hi hpc h
  | wEnqLoad a0 a1 => exact vcfacts_wEnqLoad hi hpc h
  | wEnqStore a0 a1 a2 => exact vcfacts_wEnqStore hi hpc h
  | wEnqUnlockCall a0 a1 a2 => exact vcfacts_wEnqUnlockCall hi hpc h
  | wEnqUnlockWait a0 a1 a2 => exact vcfacts_wEnqUnlockWait hi hpc h
  | wLoopStore a0 a1 => exact vcfacts_wLoopStore hi hpc h
  | wLoopLoad a0 a1 => exact vcfacts_wLoopLoad hi hpc h
  | wPdEnter a0 a1 => exact vcfacts_wPdEnter hi hpc h
  | wPdWait a0 a1 a2 => exact vcfacts_wPdWait hi hpc h
  | wDeqLockCall a0 a1 a2 => exact vcfacts_wDeqLockCall hi hpc h
  | wDeqLockWait a0 a1 a2 => exact vcfacts_wDeqLockWait hi hpc h
  | wDeqLoadV a0 a1 a2 => exact vcfacts_wDeqLoadV hi hpc h
  | wDeqLoadW a0 a1 a2 a3 => exact vcfacts_wDeqLoadW hi hpc h
  | wDeqStore a0 a1 a2 a3 => exact vcfacts_wDeqStore hi hpc h
  | wDeqUnlockCall a0 a1 a2 a3 => exact vcfacts_wDeqUnlockCall hi hpc h
  | wDeqUnlockWait a0 a1 a2 a3 => exact vcfacts_wDeqUnlockWait hi hpc h
  | wFinalLoad a0 => exact vcfacts_wFinalLoad hi hpc h
  | wRet a0 a1 => exact vcfacts_wRet hi hpc h

end Counter
