/-
  Layer `Once` × vector clocks: the edge invariant along runs, stability of the ghost `ec`
  (the once-function of an once object ends at most once), and the shape of the two events the
  C03 theorem talks about (`cb … end`, `ret`).
-/
import NsyncVerif.Proofs.OnceVCStep2

namespace Once
open NsyncVerif

theorem pstep_inv {cfg : Config} {p p' : PState} {e : Event} (hi : Inv cfg p.s)
    (h : pstep cfg p e = .ok p') : Inv cfg p'.s := by
  simp only [pstep] at h
  split at h
  · rename_i s' hs
    simp only [Except.ok.injEq] at h
    subst h
    exact inv_step hi hs
  · contradiction

theorem vinv_prun {cfg : Config} {evs : List Event} {p p' : PState} (hi : Inv cfg p.s)
    (hv : VInv p) (h : prun cfg p evs = .ok p') : Inv cfg p'.s ∧ VInv p' := by
  induction evs generalizing p with
  | nil => simp only [prun, Except.ok.injEq] at h; subst h; exact ⟨hi, hv⟩
  | cons e es ih =>
    simp only [prun] at h
    split at h
    · rename_i p1 hp
      exact ih (pstep_inv hi hp) (vinv_step hi hv hp) h
    · contradiction

theorem preachable_inv {cfg : Config} {p : PState} (h : PReachable cfg p) :
    Inv cfg p.s ∧ VInv p := by
  obtain ⟨evs, h⟩ := h
  exact vinv_prun (inv_init cfg) vinv_init h

/-- Once the function of `o` has ended, no further event touches `ec o` (a second `cb … end` on
    `o` is impossible), and `fEnds o` stays non-empty. -/
theorem ec_step_stable {cfg : Config} {p p' : PState} {e : Event} {o : OnceId}
    (hi : Inv cfg p.s) (hne : p.s.fEnds o ≠ []) (h : pstep cfg p e = .ok p') :
    p'.ec o = p.ec o ∧ p'.s.fEnds o ≠ [] := by
  obtain ⟨s, c, ec⟩ := p
  simp only [pstep] at h
  split at h
  case h_2 => contradiction
  rename_i s' hs
  simp only [Except.ok.injEq] at h
  subst h
  simp only at hi hs hne
  step_cases e hs
  all_goals simp only [endUpd, State.setPc, State.acquire, State.release]
  all_goals try simp only [*]
  all_goals grind [upd, PC.InW, PC.endsOf, Inv]

theorem ec_run_stable {cfg : Config} {evs : List Event} {p p' : PState} {o : OnceId}
    (hi : Inv cfg p.s) (hne : p.s.fEnds o ≠ []) (h : prun cfg p evs = .ok p') :
    p'.ec o = p.ec o := by
  induction evs generalizing p with
  | nil => simp only [prun, Except.ok.injEq] at h; subst h; rfl
  | cons e es ih =>
    simp only [prun] at h
    split at h
    · rename_i p1 hp
      have h1 := ec_step_stable hi hne hp
      rw [ih (pstep_inv hi hp) h1.2 h, h1.1]
    · contradiction

/-- An accepted `cb … end` of thread `w`: `w` is inside the once-function of some once object
    `g.o`; the event records `w`'s current clock as `ec g.o` and leaves the clocks unchanged. -/
theorem pstep_cbEnd {cfg : Config} {p p' : PState} {w : Tid} {a : Bool}
    (h : pstep cfg p (.cbEnd w a) = .ok p') :
    ∃ g, p.s.pc w = .wCbEnd g ∧ p'.ec g.o = p.c.vc w ∧ p'.s.fEnds g.o ≠ [] ∧ p'.c = p.c := by
  obtain ⟨s, c, ec⟩ := p
  simp only [pstep] at h
  split at h
  case h_2 => contradiction
  rename_i s' hs
  simp only [Except.ok.injEq] at h
  subst h
  simp only [step] at hs
  split at hs <;> step_norm hs <;> try contradiction
  rename_i g hpc
  obtain ⟨_, rfl⟩ := hs
  exact ⟨g, hpc, by simp [endUpd, hpc], by simp, by simp [cstep, toVC]⟩

/-- An accepted `ret` of thread `t`: `t` is at `readyRet f` (the return of its call on `f.o`);
    the clocks are unchanged. -/
theorem pstep_ret {cfg : Config} {p p' : PState} {t : Tid} {b a : Bool}
    (h : pstep cfg p (.ret t b a) = .ok p') :
    ∃ f, p.s.pc t = .readyRet f ∧ f.blocking = b ∧ f.arg = a ∧ p'.c = p.c := by
  obtain ⟨s, c, ec⟩ := p
  simp only [pstep] at h
  split at h
  case h_2 => contradiction
  rename_i s' hs
  simp only [Except.ok.injEq] at h
  subst h
  simp only [step] at hs
  split at hs <;> step_norm hs <;> try contradiction
  rename_i f hpc
  obtain ⟨⟨hb, ha⟩, rfl⟩ := hs
  exact ⟨f, hpc, hb, ha, by simp [cstep, toVC]⟩

theorem prun_single {cfg : Config} {p p' : PState} {e : Event} :
    prun cfg p [e] = .ok p' ↔ pstep cfg p e = .ok p' := by
  simp only [prun]
  cases pstep cfg p e <;> simp

end Once
