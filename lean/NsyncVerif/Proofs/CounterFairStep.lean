/-
  Proofs/CounterFairStep.lean — Counter layer, fair release (C10, liveness form): ranks and the
  per-step progress facts (`Prog`) read off the acceptor, one program point at a time.

  * `wrank`  position of a thread inside nsync_counter_wait on its way to the return WHEN THE VALUE IS 0
             (at zero every ready_time says "ready", so the path has no loop)
  * `hm`     what the holder of counter_mu still has to do before it releases it
  * `lrank`  how many more times the call in progress can acquire counter_mu
-/
import NsyncVerif.Proofs.CounterRet

namespace Counter

/-- the event is the `call` of an API function -/
def Ev.isCall : Ev → Bool
  | .callNew _ | .callFree | .callAdd _ | .callValue | .callWait _ => true
  | _ => false

/-- position inside nsync_counter_wait; 0 outside -/
def wrank : PC → Nat
  | .wInit _ => 22 | .wEnqLockCall _ _ => 21 | .wEnqLockWait _ _ => 20 | .wEnqLoad _ _ => 19
  | .wEnqStore _ _ _ => 18 | .wEnqUnlockCall _ _ _ => 17 | .wEnqUnlockWait _ _ _ => 16
  | .wPdEnter _ _ => 15 | .wPdWait _ _ _ => 14 | .wLoopStore _ _ => 13 | .wLoopLoad _ _ => 12
  | .wDeqLockCall _ _ _ => 11 | .wDeqLockWait _ _ _ => 10 | .wDeqLoadV _ _ _ => 9
  | .wDeqLoadW _ _ _ _ => 8 | .wDeqStore _ _ _ _ => 7 | .wDeqUnlockCall _ _ _ _ => 6
  | .wDeqUnlockWait _ _ _ _ => 5 | .wFinalLoad _ => 4 | .w0Store _ => 3 | .w0Load _ => 2
  | .wRet _ _ => 1
  | _ => 0

/-- work left for the holder of counter_mu -/
def hm (sh : Shared) : PC → Nat
  | .fHeld => 1
  | .aLoad _ => 2 * sh.waiters.length + 6
  | .aCas _ _ => 2 * sh.waiters.length + 5
  | .aLoadWaited _ _ _ => 2 * sh.waiters.length + 4
  | .aHeld _ _ _ _ => 2 * sh.waiters.length + 3
  | .aPost _ _ _ _ => 2 * sh.waiters.length + 4
  | .wEnqLoad _ _ => 3 | .wEnqStore _ _ _ => 2 | .wEnqUnlockCall _ _ _ => 1
  | .wDeqLoadV _ _ _ => 4 | .wDeqLoadW _ _ _ _ => 3 | .wDeqStore _ _ _ _ => 2
  | .wDeqUnlockCall _ _ _ _ => 1
  | _ => 0

/-- acquisitions of counter_mu the call in progress can still make -/
def lrank : PC → Nat
  | .fLockCall | .fLockWait | .aLockCall _ | .aLockWait _ => 1
  | .w0Store _ | .w0Load _ | .wInit _ | .wEnqLockCall _ _ | .wEnqLockWait _ _ => 2
  | .wEnqLoad _ _ | .wEnqStore _ _ _ | .wEnqUnlockCall _ _ _ | .wEnqUnlockWait _ _ _
  | .wLoopStore _ _ | .wLoopLoad _ _ | .wPdEnter _ _ | .wPdWait _ _ _
  | .wDeqLockCall _ _ _ | .wDeqLockWait _ _ _ => 1
  | _ => 0

/-- program points at which a thread waits for counter_mu -/
def lockWaitPc : PC → Bool
  | .fLockWait | .aLockWait _ | .wEnqLockWait _ _ | .wDeqLockWait _ _ _ => true
  | _ => false

/-- What one accepted event of thread `t` does, as far as the fairness argument needs it. -/
structure Prog (s : State) (t : Tid) (e : Ev) (s' : State) : Prop where
  now : s'.sh.now = s.sh.now
  zrank : s.sh.value = 0 → 0 < wrank (s.pc t) → s'.pc t = s.pc t ∨
      (wrank (s'.pc t) < wrank (s.pc t) ∧ (s'.pc t = .idle ∨ 0 < wrank (s'.pc t)))
  zret : s.sh.value = 0 → ∀ dl r, s'.pc t = .wRet dl r → s.pc t = .wRet dl r ∨ r = 0
  semdec : ∀ j, s'.sh.sem j < s.sh.sem j → s.sh.semUser j = none ∨ ∃ dl k, s.pc t = .wPdWait dl k j ∧ s'.pc t = .wLoopStore dl k
  hrank : (∀ d v, s.pc t = .aCas d v → v = s.sh.value) → holds (s.pc t) = true →
      (s'.pc t = s.pc t ∧ s'.sh.waiters = s.sh.waiters) ∨ holds (s'.pc t) = false
        ∨ hm s'.sh (s'.pc t) < hm s.sh (s.pc t)
  jpres : (∀ d v, s.pc t = .aCas d v → v = s.sh.value) → ∀ d v, s'.pc t = .aCas d v → v = s'.sh.value
  wrel : wakeLoop (s.pc t) → holds (s'.pc t) = false →
      s.sh.waiters = [] ∧ ∀ d r i k, s.pc t ≠ .aPost d r i k
  call : s.pc t = .idle → s'.pc t ≠ .idle → e.isCall = true
  lrk : e.isCall = false → lrank (s'.pc t) ≤ lrank (s.pc t)
  acq : holds (s.pc t) = false → holds (s'.pc t) = true →
      lrank (s'.pc t) < lrank (s.pc t) ∧ lockWaitPc (s.pc t) = true ∧ s.sh.lockHolder = none
  unblock : lockWaitPc (s.pc t) = true → s'.pc t ≠ s.pc t → holds (s'.pc t) = true

theorem wakeLoop_holds {p : PC} (h : wakeLoop p) : holds p = true := by
  cases p <;> simp_all [wakeLoop, holds]

theorem dflt_prog {s s' : State} {idle : Bool} {e : Ev} (t : Tid)
    (h : dflt s idle e = .ok s') : Prog s t e s' := by
  have hwl := @wakeLoop_holds (s.pc t)
  unfold dflt at h
  repeat' (split at h)
  all_goals first
    | (cases h; done)
    | (cases h; constructor <;> simp_all [Shared.setSem] <;> grind)

set_option hygiene false in
macro "prog_open" : tactic => `(tactic| (
  simp only [stepThr, hpc] at h
  repeat' (split at h)
  all_goals first | (cases h; done) | exact dflt_prog t h | skip
  all_goals (cases h; (try simp only [setPc_eq]))
  all_goals try (have hm := useMu_eq (by assumption); subst hm)
  all_goals try (rcases bind_eq (by assumption) with ⟨hb1, hb2⟩ | ⟨hb1, hb2, hb3⟩ <;> first | subst hb1 | subst hb3)))

set_option hygiene false in
macro "prog_tac" : tactic => `(tactic| (
  constructor <;>
    (simp only [State.mk', Shared.setSem, Shared.setRec, Shared.setSemUser, Shared.release, wrank, hm, lrank,
      lockWaitPc, holds, wakeLoop, Ev.isCall, hpc, if_pos, List.length_cons, List.length_append] <;>
     first | (intros; trivial) | grind | (intros; simp_all <;> grind))))


variable {s s' : State} {t : Tid} {e : Ev}

theorem prog_idle (hpc : s.pc t = .idle) (h : stepThr s t e = .ok s') : Prog s t e s' := by
  prog_open
  all_goals prog_tac

theorem prog_newMalloc {v} (hpc : s.pc t = .newMalloc v) (h : stepThr s t e = .ok s') : Prog s t e s' := by
  prog_open
  all_goals prog_tac

theorem prog_newStore {v} (hpc : s.pc t = .newStore v) (h : stepThr s t e = .ok s') : Prog s t e s' := by
  prog_open
  all_goals prog_tac

theorem prog_newRet {ok} (hpc : s.pc t = .newRet ok) (h : stepThr s t e = .ok s') : Prog s t e s' := by
  prog_open
  all_goals prog_tac

theorem prog_fLockCall (hpc : s.pc t = .fLockCall) (h : stepThr s t e = .ok s') : Prog s t e s' := by
  prog_open
  all_goals prog_tac

theorem prog_fLockWait (hpc : s.pc t = .fLockWait) (h : stepThr s t e = .ok s') : Prog s t e s' := by
  prog_open
  all_goals prog_tac

theorem prog_fHeld (hpc : s.pc t = .fHeld) (h : stepThr s t e = .ok s') : Prog s t e s' := by
  prog_open
  all_goals prog_tac

theorem prog_fUnlockWait (hpc : s.pc t = .fUnlockWait) (h : stepThr s t e = .ok s') : Prog s t e s' := by
  prog_open
  all_goals prog_tac

theorem prog_fFree (hpc : s.pc t = .fFree) (h : stepThr s t e = .ok s') : Prog s t e s' := by
  prog_open
  all_goals prog_tac

theorem prog_fRet (hpc : s.pc t = .fRet) (h : stepThr s t e = .ok s') : Prog s t e s' := by
  prog_open
  all_goals prog_tac

theorem prog_valLoad (hpc : s.pc t = .valLoad) (h : stepThr s t e = .ok s') : Prog s t e s' := by
  prog_open
  all_goals prog_tac

theorem prog_valRet {v} (hpc : s.pc t = .valRet v) (h : stepThr s t e = .ok s') : Prog s t e s' := by
  prog_open
  all_goals prog_tac

theorem prog_azLoad (hpc : s.pc t = .azLoad) (h : stepThr s t e = .ok s') : Prog s t e s' := by
  prog_open
  all_goals prog_tac

theorem prog_azRet {v} (hpc : s.pc t = .azRet v) (h : stepThr s t e = .ok s') : Prog s t e s' := by
  prog_open
  all_goals prog_tac

theorem prog_aLockCall {d} (hpc : s.pc t = .aLockCall d) (h : stepThr s t e = .ok s') : Prog s t e s' := by
  prog_open
  all_goals prog_tac

theorem prog_aLockWait {d} (hpc : s.pc t = .aLockWait d) (h : stepThr s t e = .ok s') : Prog s t e s' := by
  prog_open
  all_goals prog_tac

theorem prog_aLoad {d} (hpc : s.pc t = .aLoad d) (h : stepThr s t e = .ok s') : Prog s t e s' := by
  prog_open
  all_goals prog_tac

theorem prog_aCas {d v} (hpc : s.pc t = .aCas d v) (h : stepThr s t e = .ok s') : Prog s t e s' := by
  prog_open
  all_goals prog_tac

theorem prog_aLoadWaited {d r idx} (hpc : s.pc t = .aLoadWaited d r idx) (h : stepThr s t e = .ok s') : Prog s t e s' := by
  prog_open
  all_goals prog_tac

theorem prog_aHeld {d r idx wake} (hpc : s.pc t = .aHeld d r idx wake) (h : stepThr s t e = .ok s') : Prog s t e s' := by
  prog_open
  all_goals prog_tac

theorem prog_aPost {d r idx k} (hpc : s.pc t = .aPost d r idx k) (h : stepThr s t e = .ok s') : Prog s t e s' := by
  prog_open
  all_goals prog_tac

theorem prog_aUnlockWait {d r idx} (hpc : s.pc t = .aUnlockWait d r idx) (h : stepThr s t e = .ok s') : Prog s t e s' := by
  prog_open
  all_goals prog_tac

theorem prog_aRet {d r idx} (hpc : s.pc t = .aRet d r idx) (h : stepThr s t e = .ok s') : Prog s t e s' := by
  prog_open
  all_goals prog_tac

theorem prog_w0Store {dl} (hpc : s.pc t = .w0Store dl) (h : stepThr s t e = .ok s') : Prog s t e s' := by
  prog_open
  all_goals prog_tac

theorem prog_w0Load {dl} (hpc : s.pc t = .w0Load dl) (h : stepThr s t e = .ok s') : Prog s t e s' := by
  prog_open
  all_goals prog_tac

theorem prog_wInit {dl} (hpc : s.pc t = .wInit dl) (h : stepThr s t e = .ok s') : Prog s t e s' := by
  prog_open
  all_goals prog_tac

theorem prog_wEnqLockCall {dl k} (hpc : s.pc t = .wEnqLockCall dl k) (h : stepThr s t e = .ok s') : Prog s t e s' := by
  prog_open
  all_goals prog_tac

theorem prog_wEnqLockWait {dl k} (hpc : s.pc t = .wEnqLockWait dl k) (h : stepThr s t e = .ok s') : Prog s t e s' := by
  prog_open
  all_goals prog_tac

theorem prog_wEnqLoad {dl k} (hpc : s.pc t = .wEnqLoad dl k) (h : stepThr s t e = .ok s') : Prog s t e s' := by
  prog_open
  all_goals prog_tac

theorem prog_wEnqStore {dl k v} (hpc : s.pc t = .wEnqStore dl k v) (h : stepThr s t e = .ok s') : Prog s t e s' := by
  prog_open
  all_goals prog_tac

theorem prog_wEnqUnlockCall {dl k enq} (hpc : s.pc t = .wEnqUnlockCall dl k enq) (h : stepThr s t e = .ok s') : Prog s t e s' := by
  prog_open
  all_goals prog_tac

theorem prog_wEnqUnlockWait {dl k enq} (hpc : s.pc t = .wEnqUnlockWait dl k enq) (h : stepThr s t e = .ok s') : Prog s t e s' := by
  prog_open
  all_goals prog_tac

theorem prog_wLoopStore {dl k} (hpc : s.pc t = .wLoopStore dl k) (h : stepThr s t e = .ok s') : Prog s t e s' := by
  prog_open
  all_goals prog_tac

theorem prog_wLoopLoad {dl k} (hpc : s.pc t = .wLoopLoad dl k) (h : stepThr s t e = .ok s') : Prog s t e s' := by
  prog_open
  all_goals prog_tac

theorem prog_wPdEnter {dl k} (hpc : s.pc t = .wPdEnter dl k) (h : stepThr s t e = .ok s') : Prog s t e s' := by
  prog_open
  all_goals prog_tac

theorem prog_wPdWait {dl k j} (hpc : s.pc t = .wPdWait dl k j) (h : stepThr s t e = .ok s') : Prog s t e s' := by
  prog_open
  all_goals prog_tac

theorem prog_wDeqLockCall {dl k tmo} (hpc : s.pc t = .wDeqLockCall dl k tmo) (h : stepThr s t e = .ok s') : Prog s t e s' := by
  prog_open
  all_goals prog_tac

theorem prog_wDeqLockWait {dl k tmo} (hpc : s.pc t = .wDeqLockWait dl k tmo) (h : stepThr s t e = .ok s') : Prog s t e s' := by
  prog_open
  all_goals prog_tac

theorem prog_wDeqLoadV {dl k tmo} (hpc : s.pc t = .wDeqLoadV dl k tmo) (h : stepThr s t e = .ok s') : Prog s t e s' := by
  prog_open
  all_goals prog_tac

theorem prog_wDeqLoadW {dl k tmo v} (hpc : s.pc t = .wDeqLoadW dl k tmo v) (h : stepThr s t e = .ok s') : Prog s t e s' := by
  prog_open
  all_goals prog_tac

theorem prog_wDeqStore {dl k tmo v} (hpc : s.pc t = .wDeqStore dl k tmo v) (h : stepThr s t e = .ok s') : Prog s t e s' := by
  prog_open
  all_goals prog_tac

theorem prog_wDeqUnlockCall {dl k tmo v} (hpc : s.pc t = .wDeqUnlockCall dl k tmo v) (h : stepThr s t e = .ok s') : Prog s t e s' := by
  prog_open
  all_goals prog_tac

theorem prog_wDeqUnlockWait {dl k tmo v} (hpc : s.pc t = .wDeqUnlockWait dl k tmo v) (h : stepThr s t e = .ok s') : Prog s t e s' := by
  prog_open
  all_goals prog_tac

theorem prog_wFinalLoad {dl} (hpc : s.pc t = .wFinalLoad dl) (h : stepThr s t e = .ok s') : Prog s t e s' := by
  prog_open
  all_goals prog_tac

theorem prog_wRet {dl r} (hpc : s.pc t = .wRet dl r) (h : stepThr s t e = .ok s') : Prog s t e s' := by
  prog_open
  all_goals prog_tac

theorem prog_stepThr (h : stepThr s t e = .ok s') : Prog s t e s' := by
  cases hpc : s.pc t with
  | idle  => exact prog_idle hpc h
  | newMalloc v => exact prog_newMalloc hpc h
  | newStore v => exact prog_newStore hpc h
  | newRet ok => exact prog_newRet hpc h
  | fLockCall  => exact prog_fLockCall hpc h
  | fLockWait  => exact prog_fLockWait hpc h
  | fHeld  => exact prog_fHeld hpc h
  | fUnlockWait  => exact prog_fUnlockWait hpc h
  | fFree  => exact prog_fFree hpc h
  | fRet  => exact prog_fRet hpc h
  | valLoad  => exact prog_valLoad hpc h
  | valRet v => exact prog_valRet hpc h
  | azLoad  => exact prog_azLoad hpc h
  | azRet v => exact prog_azRet hpc h
  | aLockCall d => exact prog_aLockCall hpc h
  | aLockWait d => exact prog_aLockWait hpc h
  | aLoad d => exact prog_aLoad hpc h
  | aCas d v => exact prog_aCas hpc h
  | aLoadWaited d r idx => exact prog_aLoadWaited hpc h
  | aHeld d r idx wake => exact prog_aHeld hpc h
  | aPost d r idx k => exact prog_aPost hpc h
  | aUnlockWait d r idx => exact prog_aUnlockWait hpc h
  | aRet d r idx => exact prog_aRet hpc h
  | w0Store dl => exact prog_w0Store hpc h
  | w0Load dl => exact prog_w0Load hpc h
  | wInit dl => exact prog_wInit hpc h
  | wEnqLockCall dl k => exact prog_wEnqLockCall hpc h
  | wEnqLockWait dl k => exact prog_wEnqLockWait hpc h
  | wEnqLoad dl k => exact prog_wEnqLoad hpc h
  | wEnqStore dl k v => exact prog_wEnqStore hpc h
  | wEnqUnlockCall dl k enq => exact prog_wEnqUnlockCall hpc h
  | wEnqUnlockWait dl k enq => exact prog_wEnqUnlockWait hpc h
  | wLoopStore dl k => exact prog_wLoopStore hpc h
  | wLoopLoad dl k => exact prog_wLoopLoad hpc h
  | wPdEnter dl k => exact prog_wPdEnter hpc h
  | wPdWait dl k j => exact prog_wPdWait hpc h
  | wDeqLockCall dl k tmo => exact prog_wDeqLockCall hpc h
  | wDeqLockWait dl k tmo => exact prog_wDeqLockWait hpc h
  | wDeqLoadV dl k tmo => exact prog_wDeqLoadV hpc h
  | wDeqLoadW dl k tmo v => exact prog_wDeqLoadW hpc h
  | wDeqStore dl k tmo v => exact prog_wDeqStore hpc h
  | wDeqUnlockCall dl k tmo v => exact prog_wDeqUnlockCall hpc h
  | wDeqUnlockWait dl k tmo v => exact prog_wDeqUnlockWait hpc h
  | wFinalLoad dl => exact prog_wFinalLoad hpc h
  | wRet dl r => exact prog_wRet hpc h

end Counter
