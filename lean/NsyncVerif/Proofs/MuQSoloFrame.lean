import NsyncVerif.Proofs.MuQSoloEnabled
/-
  MuQ: what a step of one thread leaves alone (the client ghost `held` of the others, the
  semaphores of the others) and which program points of an acquiring thread are "not fresh".
-/
namespace NsyncVerif.MuQ

@[simp] theorem scanAdvance_held (s : State) (t : Tid) (l : Mode) (sc : Scan) :
    (scanAdvance s t l sc).held = s.held := by
  simp only [scanAdvance]; split <;> rfl

@[simp] theorem afterFin_held (s : State) (t : Tid) (l : Mode) (w : List Wid) :
    (afterFin s t l w).held = s.held := by
  cases w <;> rfl

@[simp] theorem scanAdvance_wr (s : State) (t : Tid) (l : Mode) (sc : Scan) :
    (scanAdvance s t l sc).wr = s.wr := by
  simp only [scanAdvance]; split <;> rfl

/-- `held` changes only at `call` / `ret`, and then only for the calling thread. -/
theorem step_held_other {cfg : Cfg} {s s' : State} {e : Event} {t : Tid}
    (h : step cfg s e = .ok s') (hne : e.tid ≠ some t) : s'.held t = s.held t := by
  cases e
  case call u a =>
    have hut : t ≠ u := fun e => hne (by rw [e]; rfl)
    simp only [step, stepCall] at h
    cases hp : s.pc u <;> simp only [hp] at h <;> try (cases h; done)
    cases a <;> simp only at h <;> split at h <;> try (cases h; done)
    all_goals (cases h; simp [setPc, setFn, hut])
  case ret u a res =>
    have hut : t ≠ u := fun e => hne (by rw [e]; rfl)
    simp only [step, stepRet] at h
    split at h <;> try (cases h; done)
    all_goals try (split at h <;> try (cases h; done))
    all_goals (cases h; simp [setPc, setFn, hut])
  case ld u o loc obs => obtain ⟨p, rfl⟩ := stepLd_shape h; rfl
  case st u o loc new obs =>
    simp only [step, stepSt] at h
    cases hp : s.pc u <;> simp only [hp] at h <;> try (cases h; done)
    all_goals repeat' split at h
    all_goals first | (cases h; done) | (cases h; rfl)
  case cas u o loc exp new obs ok =>
    simp only [step, stepCas] at h
    cases hp : s.pc u <;> simp only [hp] at h <;> try (cases h; done)
    case usRcCas l sc k old =>
      repeat' split at h
      all_goals first | (cases h; done) | skip
      · cases h; simp
      · cases h; rfl
    all_goals
      rcases casWord_ok h with ⟨hw, _, rfl⟩ | ⟨_, _, rfl⟩ <;> simp [setPc]
  case semPEnter u k =>
    simp only [step] at h
    cases hp : s.pc u <;> simp only [hp] at h <;> try (cases h; done)
    split at h <;> try (cases h; done)
    cases h; rfl
  case semPRet u k =>
    simp only [step] at h
    cases hp : s.pc u <;> simp only [hp] at h <;> try (cases h; done)
    repeat' split at h
    all_goals first | (cases h; done) | (cases h; rfl)
  case semV u k =>
    simp only [step] at h
    cases hp : s.pc u <;> simp only [hp] at h <;> try (cases h; done)
    split at h <;> try (cases h; done)
    cases h; simp [semPost]
  case envV k => simp only [step] at h; cases h; rfl
  case envSem k n =>
    simp only [step] at h
    split at h <;> try (cases h; done)
    cases h; rfl

/-- Inside a releasing call nothing changes `held`. -/
theorem rel_step_held {cfg : Cfg} {s s' : State} {e : Event} {t : Tid}
    (hpc : relPc (s.pc t) = true) (he : e.tid = some t)
    (h : step cfg s e = .ok s') : s'.held = s.held := by
  cases e <;> simp only [Event.tid, Option.some.injEq, reduceCtorEq] at he <;> try subst he
  case call t a =>
    simp only [step, stepCall] at h
    cases hp : s.pc t <;> simp [hp, relPc] at hpc h
  case ret t a res =>
    simp only [step, stepRet] at h
    split at h <;> try (cases h; done)
    all_goals rename_i hp
    all_goals try (simp [hp, relPc] at hpc; done)
    all_goals (cases h; rfl)
  case ld t o loc obs => obtain ⟨p, rfl⟩ := stepLd_shape h; rfl
  case st t o loc new obs =>
    simp only [step, stepSt] at h
    cases hp : s.pc t <;> simp only [hp] at h <;> try (cases h; done)
    all_goals repeat' split at h
    all_goals first | (cases h; done) | (cases h; rfl)
  case cas t o loc exp new obs ok =>
    simp only [step, stepCas] at h
    cases hp : s.pc t <;> simp only [hp] at h <;> try (cases h; done)
    case usRcCas l sc k old =>
      repeat' split at h
      all_goals first | (cases h; done) | skip
      · cases h; simp
      · cases h; rfl
    all_goals
      rcases casWord_ok h with ⟨hw, _, rfl⟩ | ⟨_, _, rfl⟩ <;> simp [setPc]
  case semPEnter t k =>
    simp only [step] at h
    cases hp : s.pc t <;> simp only [hp] at h <;> try (cases h; done)
    split at h <;> try (cases h; done)
    cases h; rfl
  case semPRet t k =>
    simp only [step] at h
    cases hp : s.pc t <;> simp only [hp] at h <;> try (cases h; done)
    repeat' split at h
    all_goals first | (cases h; done) | (cases h; rfl)
  case semV t k =>
    simp only [step] at h
    cases hp : s.pc t <;> simp only [hp] at h <;> try (cases h; done)
    split at h <;> try (cases h; done)
    cases h; simp [semPost]

/-- Bool version of `AsleepOnSem`. -/
def asleepB (s : State) (t : Tid) : Bool :=
  match s.pc t with
  | .lsPRet c =>
    match c.w with
    | some k => (s.wr k).sem == 0
    | none => false
  | _ => false

theorem asleepB_iff (s : State) (t : Tid) : asleepB s t = true ↔ AsleepOnSem s t := by
  constructor
  · intro h
    simp only [asleepB] at h
    split at h <;> try (cases h; done)
    rename_i c hp
    split at h <;> try (cases h; done)
    rename_i k hw
    exact ⟨c, k, hp, hw, by simpa using h⟩
  · rintro ⟨c, k, hp, hw, hs⟩
    simp [asleepB, hp, hw, hs]

/-- Program points of an acquiring thread that is NOT a fresh contender: it owns the spinlock
    (enqueue store, mu_release_spinlock), is in its wait loop, has been woken (`clear` set), or is
    at a return point. -/
def wokenPc : PC → Bool
  | .lsLd c | .lsCasAcq c _ | .lsCasEnq c _ => c.clear
  | .lsSt _ | .lsRelLd _ | .lsRelCas _ _ | .lsWaitLd _ | .lsPEnter _ | .lsPRet _ => true
  | .lkRet _ | .tryRet _ _ => true
  | _ => false

theorem wokenPc_acq {p : PC} (h : wokenPc p = true) : acqPc p = true := by
  cases p <;> simp [wokenPc] at h <;> rfl

theorem wokenPc_not_fresh {p : PC} (h : wokenPc p = true) : ¬ freshPc p := by
  cases p <;> simp [wokenPc] at h <;> simp [freshPc, h]

/-- A thread that is not a fresh contender stays so until it returns. -/
theorem woken_step {cfg : Cfg} {s s' : State} {e : Event} {t : Tid}
    (hpc : wokenPc (s.pc t) = true) (he : e.tid = some t)
    (h : step cfg s e = .ok s') : wokenPc (s'.pc t) = true ∨ s'.pc t = .idle := by
  cases e <;> simp only [Event.tid, Option.some.injEq, reduceCtorEq] at he <;> try subst he
  case call t a =>
    simp only [step, stepCall] at h
    cases hp : s.pc t <;> simp [hp, wokenPc] at hpc h
  case ret t a res =>
    obtain ⟨hd, rfl⟩ := stepRet_shape h
    right; simp [setPc]
  case ld t o loc obs =>
    left
    simp only [step, stepLd] at h
    cases hp : s.pc t <;> simp only [hp, wokenPc] at hpc h <;> try (cases hpc; done)
    all_goals try (cases h; done)
    case lsLd c =>
      have h := ldWord_ok h; subst h
      repeat' split
      all_goals simp [setPc, wokenPc, hpc]
    case lsRelLd c =>
      have h := ldWord_ok h; subst h
      simp [setPc, wokenPc]
    case lsWaitLd c =>
      repeat' split at h
      all_goals first | (cases h; done) | skip
      all_goals (cases h; simp [setPc, wokenPc, SL.woken])
  case st t o loc new obs =>
    left
    simp only [step, stepSt] at h
    cases hp : s.pc t <;> simp only [hp, wokenPc] at hpc h <;> try (cases hpc; done)
    all_goals try (cases h; done)
    all_goals repeat' split at h
    all_goals first | (cases h; done) | (cases h; simp [setPc, wokenPc])
  case cas t o loc exp new obs ok =>
    left
    simp only [step, stepCas] at h
    cases hp : s.pc t <;> simp only [hp, wokenPc] at hpc h <;> try (cases hpc; done)
    all_goals try (cases h; done)
    all_goals
      rcases casWord_ok h with ⟨hw, _, rfl⟩ | ⟨_, _, rfl⟩ <;> simp [setPc, wokenPc, hpc]
  case semPEnter t k =>
    left
    simp only [step] at h
    cases hp : s.pc t <;> simp only [hp, wokenPc] at hpc h <;> try (cases hpc; done)
    all_goals try (cases h; done)
    split at h <;> try (cases h; done)
    cases h; simp [setPc, wokenPc]
  case semPRet t k =>
    left
    simp only [step] at h
    cases hp : s.pc t <;> simp only [hp, wokenPc] at hpc h <;> try (cases hpc; done)
    all_goals try (cases h; done)
    repeat' split at h
    all_goals first | (cases h; done) | (cases h; simp [setPc, wokenPc])
  case semV t k =>
    simp only [step] at h
    cases hp : s.pc t <;> simp only [hp, wokenPc] at hpc h <;> try (cases hpc; done)
    all_goals try (cases h; done)

/-- A step of an acquiring thread changes no semaphore count, except `P` returning on the
    thread's own record. -/
theorem acq_step_sem {cfg : Cfg} {s s' : State} {e : Event} {t : Tid}
    (hpc : acqPc (s.pc t) = true) (he : e.tid = some t)
    (h : step cfg s e = .ok s') (k : Wid) :
    (s'.wr k).sem = (s.wr k).sem ∨ ∃ c, s.pc t = .lsPRet c ∧ c.w = some k := by
  cases e <;> simp only [Event.tid, Option.some.injEq, reduceCtorEq] at he <;> try subst he
  case call t a => obtain ⟨p, hd, rfl⟩ := stepCall_shape h; exact Or.inl rfl
  case ret t a res => obtain ⟨hd, rfl⟩ := stepRet_shape h; exact Or.inl rfl
  case ld t o loc obs => obtain ⟨p, rfl⟩ := stepLd_shape h; exact Or.inl rfl
  case st t o loc new obs =>
    left
    simp only [step, stepSt] at h
    cases hp : s.pc t <;> simp only [hp] at h <;> try (cases h; done)
    all_goals repeat' split at h
    all_goals first
      | (cases h; done)
      | (cases h; simp only [setPc, setFn]; split
         · rename_i e; subst e; rfl
         · rfl)
  case cas t o loc exp new obs ok =>
    left
    simp only [step, stepCas] at h
    cases hp : s.pc t <;> simp only [hp, acqPc] at hpc h <;> try (cases hpc; done)
    all_goals try (cases h; done)
    all_goals
      rcases casWord_ok h with ⟨hw, _, rfl⟩ | ⟨_, _, rfl⟩ <;> simp [setPc, dropW_sem]
  case semPEnter t k' =>
    left
    simp only [step] at h
    cases hp : s.pc t <;> simp only [hp] at h <;> try (cases h; done)
    split at h <;> try (cases h; done)
    cases h; rfl
  case semPRet t k' =>
    simp only [step] at h
    cases hp : s.pc t <;> simp only [hp] at h <;> try (cases h; done)
    rename_i c
    by_cases hw : c.w = some k'
    case neg => simp [hw] at h
    by_cases hsem : (s.wr k').sem = 0
    case pos => simp [hw, hsem] at h
    simp only [hw, ne_eq, not_true_eq_false, if_false, hsem, Except.ok.injEq] at h
    subst h
    by_cases hk : k = k'
    · subst hk; exact Or.inr ⟨c, rfl, hw⟩
    · left; simp [setPc, setFn, hk]
  case semV t k' =>
    simp only [step] at h
    cases hp : s.pc t <;> simp only [hp, acqPc] at hpc h <;> try (cases hpc; done)
    all_goals try (cases h; done)

/-- A step of an acquiring thread does not change who else is asleep. -/
theorem acq_step_asleep_other {cfg : Cfg} {s s' : State} {e : Event} {t u : Tid}
    (hr : Reachable cfg s) (hpc : acqPc (s.pc t) = true) (he : e.tid = some t)
    (h : step cfg s e = .ok s') (hu : u ≠ t) : asleepB s' u = asleepB s u := by
  have hpcu : s'.pc u = s.pc u := step_pc_other h (by rw [he]; intro e'; exact hu (Option.some.inj e').symm)
  simp only [asleepB, hpcu]
  split <;> try rfl
  rename_i c hp
  split <;> try rfl
  rename_i k hw
  rcases acq_step_sem hpc he h k with h1 | ⟨c', hp', hw'⟩
  · rw [h1]
  · exfalso
    have inv := reachable_inv hr
    have o1 := (inv.queue.own k t).2 ⟨c', .loopP, by simp [abs, hp', role], hw'⟩
    have o2 := (inv.queue.own k u).2 ⟨c, .loopP, by simp [abs, hp, role], hw⟩
    rw [o1] at o2
    exact hu (Option.some.inj o2).symm

end NsyncVerif.MuQ
