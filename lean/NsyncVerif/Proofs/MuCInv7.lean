import NsyncVerif.Proofs.MuCInv6Reach
/-
  MuC: meaning of MU_ALL_FALSE — definitions.

  `SecOpen s`: some client write section is open (the client holds the mutex in write mode, or is in
  the first iteration of nsync_mu_wait_with_deadline before it has queued itself): the data may differ
  from the snapshot `secStart`, and the hint speaks about the snapshot.  Otherwise it speaks about the
  data.  While a writer is inside nsync_mu_unlock before its release, or an unlocker that tests
  conditions is between its grab CAS and its final CAS (`PC.susp`), the hint says nothing.
-/
namespace NsyncVerif.MuC

/-- Record `k` has a condition, and it is false on `d`. -/
def CondFalse (s : State) (d : Nat → Int) (k : Wid) : Prop := ∃ c, (s.wr k).cond = some c ∧ evalCond d c = false

theorem CondFalse.has {s : State} {d : Nat → Int} {k : Wid} (h : CondFalse s d k) : (s.wr k).cond ≠ none := by
  obtain ⟨c, hc, _⟩ := h; rw [hc]; simp

theorem CondFalse.congr {s s' : State} {d : Nat → Int} {k : Wid} (hc : (s'.wr k).cond = (s.wr k).cond) (h : CondFalse s d k) :
    CondFalse s' d k := by
  obtain ⟨c, h1, h2⟩ := h; exact ⟨c, by rw [hc]; exact h1, h2⟩

/-- First iteration of nsync_mu_wait_with_deadline, called with the mutex held in write mode, before
    the enqueue CAS (or returning at once): the caller's write section is still open. -/
def PC.firstW : PC → Bool
  | .mwLd0 c | .mwEval c | .mwStW c | .mwRcLd c | .mwEnqLd c | .mwEnqCas c _ | .mwRet c _ => c.first && (c.hm == .W)
  | _ => false

def SecOpen (s : State) : Prop := ∃ t, s.held t = some .W ∨ (s.pc t).firstW = true

/-- The data MU_ALL_FALSE speaks about. -/
def RefData (s : State) (d : Nat → Int) : Prop := (SecOpen s ∧ d = s.secStart) ∨ (¬ SecOpen s ∧ d = s.data)

def Ret.dirty : Ret → Bool
  | .ul .W false => true
  | _ => false

/-- The hint says nothing: a writer inside nsync_mu_unlock before its release (the section it ends may
    have made conditions true), an unlocker that holds the writer bit while it scans. -/
def PC.susp : PC → Bool
  | .ulCas0 l nw | .ulLd l nw | .ulCas1 l nw _ => (l == .W) && !nw
  | .usLd r | .usCasUnc r _ | .usCasGrab r _ => r.dirty
  | .usRelLd _ sc | .usRelCas _ sc _ | .usEval _ sc | .usRcLd _ sc _ | .usRcCas _ sc _ _ | .usReLd _ sc | .usReCas _ sc _ => sc.late
  | .usFinLd _ f | .usFinCas _ f _ => f.late
  | _ => false

/-- The locals of nsync_mu_wait_with_deadline at the program points after the enqueue CAS. -/
def PC.mwPost : PC → Option MW
  | .lsLd c | .lsCasAcq c _ | .lsCasEnq c _ | .lsSt c | .lsRelLd c | .lsRelCas c _ | .lsWaitLd c | .lsPEnter c | .lsPRet c => c.mw
  | .usLd r | .usCasUnc r _ | .usCasGrab r _ | .usRelLd r _ | .usRelCas r _ _ | .usEval r _ | .usRcLd r _ _ | .usRcCas r _ _ _
  | .usReLd r _ | .usReCas r _ _ | .usFinLd r _ | .usFinCas r _ _ | .usWakeSt r _ _ | .usWakeV r _ _ => r.mw?
  | .mwRelLd c | .mwRelCas c _ _ | .mwWaitLd c
  | .mwSem c | .mwPdRet c _ | .mwNotify c | .mwLd244 c | .mwLd255 c
  | .mtLd c | .mtCasAcq c _ | .mtCasWW c _ | .mtLdWk c _ | .mtLdW c _ | .mtLdRc c _ | .mtRmLd c _ | .mtRmCas c _ _ | .mtStW c _ | .mtStRel c _ _ => some c
  | _ => none

/-- The scan locals at mu.c:399 (spinlock being re-acquired after an inner loop). -/
def PC.reScan : PC → Option Scan
  | .usReLd _ sc | .usReCas _ sc _ => some sc
  | _ => none

/-- The spinlock is held and the queue insertion of lock_slow is still to come. -/
def PC.enqPend : PC → Bool
  | .lsSt _ => true
  | _ => false

/-- An unlocker between grab CAS and final CAS that has given up the caller's share at once (it found
    MU_CONDITION clear): it holds the spinlock throughout. -/
def PC.nonLate : PC → Bool
  | .usRelLd _ sc | .usRelCas _ sc _ | .usEval _ sc | .usRcLd _ sc _ | .usRcCas _ sc _ _ | .usReLd _ sc | .usReCas _ sc _ => !sc.late
  | .usFinLd _ f | .usFinCas _ f _ => !f.late
  | _ => false

structure Inv7 (s : State) : Prop where
  nl : ∀ t, (s.pc t).nonLate = true → s.word.cond = false
  fst : ∀ t c, (s.pc t).mwPost = some c → c.first = false
  enq : ∀ t, (s.pc t).enqPend = true → s.word.af = false
  a1 : s.word.af = true → ∀ k, Queued s k → (s.wr k).cond ≠ none ∧
        (s.nwViol = false → (∀ u, (s.pc u).susp = false) → ∀ d, RefData s d → CondFalse s d k)
  a2 : ∀ t old, (s.pc t).mtOld = some old → old.af = true → ∀ k, Queued s k → (s.wr k).cond ≠ none ∧
        (s.nwViol = false → CondFalse s s.data k)
  sc : ∀ t sc, (s.pc t).scan? = some sc → sc.saf = true → ∀ k, k ∈ sc.done ++ sc.passed → sc.late = true ∧ CondFalse s s.data k
  re : ∀ t sc, (s.pc t).reScan = some sc → sc.saf = true → sc.todo = []
  fin : ∀ t f, (s.pc t).finOf = some f → f.cAf = !f.saf ∧
        (f.saf = true → ∀ k, k ∈ s.queue → f.late = true ∧ CondFalse s s.data k)

/-! ### who can have a write section open / be suspended -/

theorem firstW_share {p : PC} (hok : p.ok) (h : p.firstW = true) : pcShare p = some .W := by
  cases p <;> simp [PC.firstW] at h <;> simp_all [pcShare, PC.ok, MW.ok]

theorem dirty_mode {r : Ret} (h : r.dirty = true) : r.mode = .W := by
  cases r with
  | mw c => simp [Ret.dirty] at h
  | ul l nw => cases l <;> cases nw <;> simp_all [Ret.dirty, Ret.mode]

theorem susp_share {p : PC} (h : p.susp = true) : pcShare p = some .W := by
  cases p <;> simp [PC.susp] at h <;> simp_all [pcShare, dirty_mode]

theorem opener_owner {s : State} (h1 : Inv1 s) {t : Tid} (ht : s.held t = some .W ∨ (s.pc t).firstW = true) : s.wOwner = some t := by
  refine (h1.lock.wown t).2 ?_
  rcases ht with e | e
  · simp [shareOf, tshare, e]
  · have hne : s.pc t ≠ .idle := by intro e'; rw [e'] at e; simp [PC.firstW] at e
    rw [h1.share_eq hne]
    exact firstW_share (h1.pcok t) e

theorem secOpen_owner {s : State} (h1 : Inv1 s) (h : SecOpen s) : ∃ t, s.wOwner = some t ∧ (s.held t = some .W ∨ (s.pc t).firstW = true) := by
  obtain ⟨t, ht⟩ := h
  exact ⟨t, opener_owner h1 ht, ht⟩

/-- The owner of the writer bit stops being a client with an open section: nobody has one. -/
theorem not_secOpen_release {s s' : State} (h1 : Inv1 s) {t : Tid} (hown : s.wOwner = some t) (hh' : s'.held t = none)
    (hf' : (s'.pc t).firstW = false) (hoth : ∀ u, u ≠ t → s'.held u = s.held u ∧ s'.pc u = s.pc u) : ¬ SecOpen s' := by
  rintro ⟨u, hu⟩
  by_cases e : u = t
  · subst e; rw [hh', hf'] at hu; simp at hu
  · rw [(hoth u e).1, (hoth u e).2] at hu
    have := opener_owner h1 hu
    rw [hown] at this; cases this; exact e rfl

theorem nonLate_of_scan_not_susp {p : PC} {sc : Scan} (h : p.scan? = some sc) (hs : p.susp = false) : p.nonLate = true := by
  cases p <;> simp [PC.scan?] at h <;> simp_all [PC.susp, PC.nonLate]

/-- The owner of the writer bit is not the client: no write section is open. -/
theorem not_secOpen_of_owner {s : State} (h1 : Inv1 s) {t : Tid} (ho : s.wOwner = some t) (hh : s.held t ≠ some .W)
    (hf : (s.pc t).firstW = false) : ¬ SecOpen s := by
  intro h
  obtain ⟨u, hu, e⟩ := secOpen_owner h1 h
  rw [ho] at hu; cases hu
  rcases e with e | e
  · exact hh e
  · rw [hf] at e; cases e

theorem not_secOpen_of_free {s : State} (h1 : Inv1 s) (ho : s.wOwner = none) : ¬ SecOpen s := by
  intro h
  obtain ⟨u, hu, _⟩ := secOpen_owner h1 h
  rw [ho] at hu; cases hu

theorem susp_owner {s : State} (h1 : Inv1 s) {u : Tid} (h : (s.pc u).susp = true) : s.wOwner = some u := by
  have hne : s.pc u ≠ .idle := by intro e'; rw [e'] at h; simp [PC.susp] at h
  refine (h1.lock.wown u).2 ?_
  rw [h1.share_eq hne]
  exact susp_share h

theorem no_susp_of_free {s : State} (h1 : Inv1 s) (ho : s.wOwner = none) (u : Tid) : (s.pc u).susp = false := by
  cases e : (s.pc u).susp with
  | false => rfl
  | true => have := susp_owner h1 e; rw [ho] at this; cases this

/-- Nobody but the owner of the writer bit can be suspended. -/
theorem no_susp_of_owner {s : State} (h1 : Inv1 s) {t : Tid} (ho : s.wOwner = some t) (ht : (s.pc t).susp = false) (u : Tid) :
    (s.pc u).susp = false := by
  cases e : (s.pc u).susp with
  | false => rfl
  | true =>
    have := susp_owner h1 e
    rw [ho] at this; cases this
    rw [ht] at e; cases e

theorem secOpen_congr {s s' : State} (hh : s'.held = s.held) (hf : ∀ u, (s'.pc u).firstW = (s.pc u).firstW) : SecOpen s' ↔ SecOpen s := by
  simp only [SecOpen, hh, hf]

theorem secOpen_iff {s s' : State} (h : ∀ u, (s'.held u = some .W ∨ (s'.pc u).firstW = true) ↔ (s.held u = some .W ∨ (s.pc u).firstW = true)) :
    SecOpen s' ↔ SecOpen s := by
  simp only [SecOpen, h]

theorem refData_congr {s s' : State} (ho : SecOpen s' ↔ SecOpen s) (hd : s'.data = s.data) (hs : s'.secStart = s.secStart)
    {d : Nat → Int} (h : RefData s' d) : RefData s d := by
  simp only [RefData, ho, hd, hs] at h
  exact h

theorem refData_closed {s : State} (h : ¬ SecOpen s) {d : Nat → Int} (hd : RefData s d) : d = s.data := by
  rcases hd with ⟨a, _⟩ | ⟨_, b⟩
  · exact absurd a h
  · exact b

theorem refData_of_closed {s : State} (h : ¬ SecOpen s) : RefData s s.data := Or.inr ⟨h, rfl⟩

theorem refData_of_open {s : State} (h : SecOpen s) : RefData s s.secStart := Or.inl ⟨h, rfl⟩

theorem refData_open {s : State} (h : SecOpen s) {d : Nat → Int} (hd : RefData s d) : d = s.secStart := by
  rcases hd with ⟨_, b⟩ | ⟨a, _⟩
  · exact b
  · exact absurd h a

/-! ### steps that touch nothing the invariant speaks about -/

theorem Inv7.local {s s' : State} (t : Tid) (h : Inv7 s)
    (hQ : ∀ k, Queued s' k → Queued s k)
    (hq : ∀ k, k ∈ s'.queue → k ∈ s.queue)
    (hcnd : ∀ x, Queued s x → (s'.wr x).cond = (s.wr x).cond)
    (hd : s'.data = s.data) (hnv : s'.nwViol = false → s.nwViol = false)
    (ha1 : (((s.pc t).susp = true → (s'.pc t).susp = true) ∧ (∀ d, RefData s' d → RefData s d)) ∨ s'.word.af = false ∨
      (s'.pc t).susp = true ∨
      (∀ k d, Queued s k → s.word.af = true → s'.nwViol = false → (∀ u, (s'.pc u).susp = false) → RefData s' d → CondFalse s d k))
    (haf : s'.word.af = true → s.word.af = true ∨
      ∃ old, (s.pc t).mtOld = some old ∧ old.af = true ∧ ¬ SecOpen s' ∧ ∀ u, u ≠ t → (s.pc u).enqPend = false)
    (hpc : ∀ u, u ≠ t → s'.pc u = s.pc u)
    (hsc : ∀ sc, (s'.pc t).scan? = some sc → (s.pc t).scan? = some sc)
    (hre : ∀ sc, (s'.pc t).reScan = some sc → (s.pc t).reScan = some sc)
    (hfin : ∀ f, (s'.pc t).finOf = some f → (s.pc t).finOf = some f)
    (hmt : ∀ old, (s'.pc t).mtOld = some old →
      (s.pc t).mtOld = some old ∨ (s.word = old ∧ (∀ u, (s.pc u).susp = false) ∧ ¬ SecOpen s))
    (hfst : ∀ c, (s'.pc t).mwPost = some c → c.first = false)
    (henq : (s'.pc t).enqPend = true → s'.word.af = false)
    (hnl : (s'.pc t).nonLate = true → (s.pc t).nonLate = true)
    (hcb : s'.word.cond = true → s.word.cond = true ∨ ((∀ u, u ≠ t → (s.pc u).nonLate = false) ∧ (s'.pc t).nonLate = false)) :
    Inv7 s' := by
  have hcf : ∀ d k, Queued s k → CondFalse s d k → CondFalse s' d k := fun d k hk hc => hc.congr (hcnd k hk)
  refine ⟨?_, ?_, ?_, ?_, ?_, ?_, ?_, ?_⟩
  · intro u hu
    cases hc : s'.word.cond with
    | false => rfl
    | true =>
      rcases hcb hc with e1 | e1
      · have : (s.pc u).nonLate = true := by
          by_cases e : u = t
          · subst e; exact hnl hu
          · rw [← hpc u e]; exact hu
        have := h.nl u this; rw [e1] at this; cases this
      · by_cases e : u = t
        · subst e; rw [e1.2] at hu; cases hu
        · rw [hpc u e, e1.1 u e] at hu; cases hu
  · intro u c hc
    by_cases hu : u = t
    · subst hu; exact hfst c hc
    · rw [hpc u hu] at hc; exact h.fst u c hc
  · intro u hu
    by_cases e : u = t
    · subst e; exact henq hu
    · rw [hpc u e] at hu
      cases haf' : s'.word.af with
      | false => rfl
      | true =>
        rcases haf haf' with e1 | ⟨old, _, _, _, e1⟩
        · have := h.enq u hu; rw [e1] at this; cases this
        · rw [e1 u e] at hu; cases hu
  · intro haf' k hk
    have hk' := hQ k hk
    rcases haf haf' with e1 | ⟨old, ho, hoaf, hclosed, _⟩
    · obtain ⟨a, b⟩ := h.a1 e1 k hk'
      refine ⟨by rw [hcnd k hk']; exact a, ?_⟩
      intro hnv' hns d hd'
      rcases ha1 with ⟨hsusp, href⟩ | hz | hz | hz
      · refine hcf d k hk' (b (hnv hnv') ?_ d (href d hd'))
        intro u
        by_cases e : u = t
        · subst e
          cases hsu : (s.pc u).susp with
          | false => rfl
          | true => have := hsusp hsu; rw [hns u] at this; cases this
        · rw [← hpc u e]; exact hns u
      · rw [hz] at haf'; cases haf'
      · rw [hns t] at hz; cases hz
      · exact hcf d k hk' (hz k d hk' e1 hnv' hns hd')
    · obtain ⟨a, b⟩ := h.a2 t old ho hoaf k hk'
      refine ⟨by rw [hcnd k hk']; exact a, ?_⟩
      intro hnv' _ d hd'
      rw [refData_closed hclosed hd', hd]
      exact hcf _ k hk' (b (hnv hnv'))
  · intro u old ho hoaf k hk
    have hk' := hQ k hk
    have key : (s.pc u).mtOld = some old ∨ (s.word = old ∧ (∀ v, (s.pc v).susp = false) ∧ ¬ SecOpen s) := by
      by_cases e : u = t
      · subst e; exact hmt old ho
      · left; rw [← hpc u e]; exact ho
    rcases key with ho' | ⟨hw, hns, hcl⟩
    · obtain ⟨a, b⟩ := h.a2 u old ho' hoaf k hk'
      exact ⟨by rw [hcnd k hk']; exact a, fun hnv' => by rw [hd]; exact hcf _ k hk' (b (hnv hnv'))⟩
    · obtain ⟨a, b⟩ := h.a1 (by rw [hw]; exact hoaf) k hk'
      exact ⟨by rw [hcnd k hk']; exact a, fun hnv' => by
        rw [hd]; exact hcf _ k hk' (b (hnv hnv') hns s.data (refData_of_closed hcl))⟩
  · intro u sc hu hsaf k hk
    have hu' : (s.pc u).scan? = some sc := by
      by_cases e : u = t
      · subst e; exact hsc sc hu
      · rw [← hpc u e]; exact hu
    obtain ⟨a, b⟩ := h.sc u sc hu' hsaf k hk
    have hkq : Queued s k := Or.inr ⟨u, sc, hu', by
      simp only [Scan.lists, List.mem_append] at hk ⊢
      rcases hk with e | e
      · exact Or.inl (Or.inl e)
      · exact Or.inl (Or.inr e)⟩
    exact ⟨a, by rw [hd]; exact hcf _ k hkq b⟩
  · intro u sc hu
    have hu' : (s.pc u).reScan = some sc := by
      by_cases e : u = t
      · subst e; exact hre sc hu
      · rw [← hpc u e]; exact hu
    exact h.re u sc hu'
  · intro u f hu
    have hu' : (s.pc u).finOf = some f := by
      by_cases e : u = t
      · subst e; exact hfin f hu
      · rw [← hpc u e]; exact hu
    obtain ⟨a, b⟩ := h.fin u f hu'
    refine ⟨a, fun hsaf k hk => ?_⟩
    obtain ⟨c, d⟩ := b hsaf k (hq k hk)
    exact ⟨c, by rw [hd]; exact hcf _ k (Or.inl (hq k hk)) d⟩

theorem inv7_init : Inv7 init := by
  refine ⟨?_, ?_, ?_, ?_, ?_, ?_, ?_, ?_⟩
  · intro t ht; simp [init, PC.nonLate] at ht
  · intro t c hc; simp [init, PC.mwPost] at hc
  · intro t ht; simp [init, PC.enqPend] at ht
  · intro h; simp [init, Word.zero] at h
  · intro t old ho; simp [init, PC.mtOld] at ho
  · intro t sc hs; simp [init, PC.scan?] at hs
  · intro t sc hs; simp [init, PC.reScan] at hs
  · intro t f hf; simp [init, PC.finOf] at hf

end NsyncVerif.MuC
