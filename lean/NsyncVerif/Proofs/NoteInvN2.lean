/-
  Layer `Note`, invariant family N: the claim of the acting thread after its step.
-/
import NsyncVerif.Proofs.NoteInvN

set_option linter.unusedSimpArgs false

namespace Note

/-- Prove `SameN s s' t` for an `s'` built from primitives that touch neither `allocated`,
    `notified`, `expiry` nor `after`. -/
macro "same_tac" : tactic => `(tactic| (
  refine ⟨fun _ => ?_, fun _ => ?_, fun _ => ?_, ?_⟩ <;> simp))

theorem NClaim.actor {s s' : State} {e : Event} (hA : InvA s) (hN : InvN s)
    (hs : step s e = .ok s') (a : Tid) (ha : e.actor = some a) : NClaim s' a (s'.pc a) := by
  have hc := hN.claim a
  cases e
  all_goals step_cases hs
  all_goals simp only [Event.actor, Option.some.injEq, reduceCtorEq] at ha
  all_goals (try subst ha)
  all_goals (try (rw [‹s.pc _ = _›] at hc))
  all_goals (try (simp only [setPc_pc, upd_same, afterDeadline_pc, afterNotify_pc, childReturn_pc,
    childWakeNext_pc, childScanStart_pc, freeLoopStart_pc, enterChild_pc, leave_pc, addUser_pc, markCalled_pc,
    markFreeing_pc, setAfter_pc, pushObs_pc, publish_pc, delUser_pc]))
  all_goals (try (simp [NClaim]; done))
  all_goals (try (refine (NClaim.same (s := s) ?_ _).mpr ?_; (· same_tac)))
  all_goals (try (simp_all [NClaim, NKN, StkN, CPos.pending]; done))
  all_goals (try (exact NClaim.freeLoopStartPc _ _ _ _ _))
  all_goals (try (exact NClaim.afterNotifyPc hc.1 hc.2.1 (hc.2.2 rfl)))
  all_goals (try (exact NClaim.afterNotify hc.1 hc.2.1 (hc.2.2 rfl)))
  all_goals (try (exact NClaim.afterDeadline_zero hc.1 hc.2.1 (Or.inl (by assumption))))
  all_goals (try (
    obtain ⟨h1, h2, h3⟩ := hc
    obtain ⟨h4, h5, h6⟩ := h3 rfl
    exact NClaim.afterDeadline h1 h2 h4 h5 h6))
  all_goals (try (exact NClaim.childReturnPc hc (notified_of_ntime ‹_›)))
  all_goals (try (exact NClaim.childReturnPc hc (hc.2.2.2.2.2.1 rfl)))
  all_goals (try (exact NClaim.childWakeNextPc hc (hc.2.2.2.2.2.1 rfl)))
  all_goals (try (exact NClaim.childLoopStartPc _ hc (hc.2.2.2.2.2.1 rfl)))
  all_goals (try (exact NClaim.chdStored hc (hc.2.2.2.2.2.1 rfl) rfl rfl))
  all_goals (try (exact NClaim.afterDeadlinePc_zero hc.1 hc.2.1 (Or.inl (by assumption))))
  all_goals (try (
    obtain ⟨h1, h2, h3⟩ := hc
    obtain ⟨h4, h5, h6⟩ := h3 rfl
    exact NClaim.afterDeadlinePc h1 h2 h4 h5 h6))
  all_goals (try (exact ⟨hc.1, ⟨fun ha _ => ⟨hc.2.1 ha, hc.1⟩, fun _ _ e => by cases e⟩, by simp⟩))
  all_goals (try (exact NClaim.push hc))
  all_goals (try (exact NClaim.skip hc))
  all_goals (try (exact NClaim.malloc _ _ _ _ _))
  all_goals (try (exact ⟨hc.1, fun _ => hc.2 rfl⟩))
  -- nsync_note_new finds the parent notified
  all_goals (try (
    obtain ⟨_, hkp⟩ := (by assumption : _ = Site.newLd ∧ _)
    subst hkp
    exact ⟨hc.1, fun _ => ⟨notified_of_ntime (by assumption), by assumption⟩⟩))
  -- the store of the flag
  all_goals (try (
    obtain ⟨_, _, hkf, _⟩ := (by assumption : _ = Site.childSt ∧ _ ∧ _ ∧ _)
    subst hkf
    exact NClaim.store hc))
  -- call nsync_note_notify
  all_goals (try (
    show NClaim s _ (PC.dl DPos.ld1 _ none DK.notifyApi)
    exact ⟨(by assumption : s.Live _).1,
      ⟨fun _ hb => absurd hb (by simp), fun _ _ e => by cases e⟩, by simp⟩))
  -- call nsync_note_is_notified
  all_goals (try (
    refine ⟨by simpa using (by assumption : s.Live _).1, ⟨?_, fun _ _ e => by cases e⟩, by simp⟩
    intro ha _
    simp only [setPc_after, setAfter_after, upd_same] at ha
    have := hN.seenPos ha
    exact ⟨by simpa [State.Notified] using this.1, by simpa using this.2⟩))
  -- call nsync_note_wait
  all_goals (try (
    refine ⟨by simpa using (by assumption : s.Live _).1, ?_, trivial⟩
    intro ha
    simp only [setPc_after, setAfter_after, upd_same] at ha
    have := hN.seenPos ha
    simpa [State.Notified] using this.1))
  -- the load under the lock in nsync_note_notified_deadline_
  all_goals (try (
    obtain ⟨h1, h2, _⟩ := hc
    refine ⟨h1, h2, fun _ => ⟨notified_of_ntime, ?_, fun ha hb => ntime_of_notified (h2.1 ha hb).1⟩⟩
    intro hp _ he
    apply hp
    unfold NoteRec.ntime
    split <;> simp [he]))
  -- notify: already notified
  all_goals (try (exact ⟨hc.1, hc.2.1, fun _ => notified_of_ntime (by assumption)⟩))
  -- note_dequeue: notified
  all_goals (try (exact ⟨hc.1, hc.2.1, fun _ => notified_of_ntime (by assumption), fun _ => rfl⟩))
  -- note_dequeue: still queued
  all_goals (try (
    refine ⟨hc.1, hc.2.1, ?_⟩
    show s.after _ = false
    cases ha : s.after _ with
    | false => rfl
    | true => exact absurd (by assumption : (s.notes _).ntime.pos) (ntime_of_notified (hc.2.1 ha))))

end Note
