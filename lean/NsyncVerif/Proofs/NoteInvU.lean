/-
  Layer `Note`, invariant family U (users of a note): the bookkeeping behind the API contract
  "a note is freed only when no other thread uses that same note", and its consequence: the
  argument of a call in progress is never a freed note (except for the freeing call itself, after
  its own `free`).
-/
import NsyncVerif.Proofs.NoteLock

set_option linter.unusedSimpArgs false

namespace Note

def DK.arg (n : NoteId) : DK → Option NoteId
  | .newSelf par _ => par
  | _ => some n

def NK.arg (n : NoteId) : NK → Option NoteId
  | .ofApi => some n
  | .ofDeadline dk => dk.arg n

/-- The note passed to the API call the thread is in (for `nsync_note_new`: the parent). -/
def PC.arg : PC → Option NoteId
  | .idle => none
  | .newMalloc par _ | .newRetNull par => par
  | .dl _ n _ dk => dk.arg n
  | .nfy _ n _ nk => nk.arg n
  | .chd _ _ top => top.k.arg top.n
  | .newP _ _ p _ => some p
  | .retNew _ par => par
  | .retIs n _ | .retNotify n | .retExpiry n => some n
  | .fr _ n _ _ _ => some n
  | .wt0 _ n _ | .wt _ n _ _ => some n

/-- The thread is inside `nsync_note_free`. -/
def PC.freer : PC → Option NoteId
  | .fr _ n _ _ _ => some n
  | _ => none

/-- … and has already performed `free (n)`. -/
def PC.freedIt : PC → Bool
  | .fr .ret _ _ _ _ => true
  | _ => false

structure InvU (s : State) : Prop where
  users : ∀ t n, t ∈ s.users n ↔ (s.pc t).arg = some n
  nodup : ∀ n, (s.users n).Nodup
  freerOk : ∀ t n, (s.pc t).freer = some n → s.freeing n = true
  /-- the freeing thread is the only user of the note -/
  sole : ∀ t n, (s.pc t).freer = some n → s.users n = [t]
  freedA : ∀ n, (s.notes n).freed = true → s.freeing n = true
  /-- a freed note is used at most by the call that freed it, which can only return -/
  freedK : ∀ t n, (s.notes n).freed = true → t ∈ s.users n → (s.pc t).freedIt = true

theorem InvU.init : InvU Note.init := by
  refine ⟨?_, ?_, ?_, ?_, ?_, ?_⟩ <;> simp [Note.init, PC.arg, PC.freer, NoteRec.blank]

theorem freer_arg {pc : PC} {n : NoteId} (h : pc.freer = some n) : pc.arg = some n := by
  cases pc <;> simp [PC.freer] at h
  subst h; rfl

@[simp] theorem arg_afterDeadlinePc (n : NoteId) (nt : Dl) (dk : DK) :
    (Note.afterDeadlinePc n nt dk).arg = dk.arg n := by
  cases dk <;> simp only [Note.afterDeadlinePc] <;> (try split) <;> (try split) <;> rfl

@[simp] theorem arg_afterNotifyPc (n : NoteId) (nk : NK) :
    (Note.afterNotifyPc n nk).arg = nk.arg n := by
  cases nk with
  | ofApi => rfl
  | ofDeadline dk => exact arg_afterDeadlinePc n (some 0) dk

@[simp] theorem arg_childReturnPc (f : Frame) (rest : List Frame) (top : Top) :
    (Note.childReturnPc f rest top).arg = top.k.arg top.n := by
  unfold Note.childReturnPc
  cases rest with
  | cons g gs => rfl
  | nil => cases top.par <;> rfl

@[simp] theorem arg_childLoopStartPc (cs : List NoteId) (f : Frame) (rest : List Frame)
    (top : Top) : (Note.childLoopStartPc cs f rest top).arg = top.k.arg top.n := by
  cases cs <;> rfl

@[simp] theorem arg_childWakeNextPc (s : State) (f : Frame) (rest : List Frame) (top : Top) :
    (Note.childWakeNextPc s f rest top).arg = top.k.arg top.n := by
  unfold Note.childWakeNextPc
  split
  · rfl
  · exact arg_childLoopStartPc _ f rest top

@[simp] theorem freer_afterDeadlinePc (n : NoteId) (nt : Dl) (dk : DK) :
    (Note.afterDeadlinePc n nt dk).freer = none := by
  cases dk <;> simp only [Note.afterDeadlinePc] <;> (try split) <;> (try split) <;> rfl

@[simp] theorem freer_afterNotifyPc (n : NoteId) (nk : NK) :
    (Note.afterNotifyPc n nk).freer = none := by
  cases nk with
  | ofApi => rfl
  | ofDeadline dk => exact freer_afterDeadlinePc n (some 0) dk

@[simp] theorem freer_childReturnPc (f : Frame) (rest : List Frame) (top : Top) :
    (Note.childReturnPc f rest top).freer = none := by
  unfold Note.childReturnPc
  cases rest with
  | cons g gs => rfl
  | nil => cases top.par <;> rfl

@[simp] theorem freer_childWakeNextPc (s : State) (f : Frame) (rest : List Frame) (top : Top) :
    (Note.childWakeNextPc s f rest top).freer = none := by
  unfold Note.childWakeNextPc
  split
  · rfl
  · unfold childLoopStartPc; split <;> rfl

@[simp] theorem freer_childLoopStartPc (cs : List NoteId) (f : Frame) (rest : List Frame)
    (top : Top) : (Note.childLoopStartPc cs f rest top).freer = none := by
  cases cs <;> rfl

@[simp] theorem freer_freeLoopStartPc (cs : List NoteId) (n : NoteId) (par : Option NoteId) :
    (Note.freeLoopStartPc cs n par).freer = some n := by
  cases cs <;> rfl

@[simp] theorem arg_freeLoopStartPc (cs : List NoteId) (n : NoteId) (par : Option NoteId) :
    (Note.freeLoopStartPc cs n par).arg = some n := by
  cases cs <;> rfl

/-- The argument of the call in progress changes only at `call` and `ret`. -/
theorem step_arg {s s' : State} {e : Event} (hs : step s e = .ok s') (a : Tid)
    (ha : e.actor = some a) :
    ((s'.pc a).arg = (s.pc a).arg ∧ s'.users = s.users ∧ (s'.pc a).freer = (s.pc a).freer) ∨
    (∃ n, s.pc a = .idle ∧ (s'.pc a).arg = some n ∧ s'.users = upd s.users n (a :: s.users n) ∧
      (s.freeing n = false) ∧ ((s'.pc a).freer = some n → s.users n = [])) ∨
    (∃ n, (s.pc a).arg = some n ∧ s'.pc a = .idle ∧
      s'.users = upd s.users n ((s.users n).erase a)) ∨
    (s.pc a = .idle ∧ (s'.pc a).arg = none ∧ s'.users = s.users) ∨
    ((s.pc a).arg = none ∧ s'.pc a = .idle ∧ s'.users = s.users) := by
  cases e
  all_goals step_cases hs
  all_goals simp only [Event.actor, Option.some.injEq, reduceCtorEq] at ha
  all_goals (try subst ha)
  all_goals (try (left; exact ⟨rfl, rfl, rfl⟩))
  all_goals (try (simp only [setPc_pc, upd_same, afterDeadline_pc, afterNotify_pc, childReturn_pc,
    childWakeNext_pc, childScanStart_pc, freeLoopStart_pc, enterChild_pc, leave_pc, addUser_pc, markCalled_pc,
    markFreeing_pc, setAfter_pc, pushObs_pc, publish_pc, delUser_pc, arg_afterDeadlinePc,
    arg_afterNotifyPc, arg_childReturnPc, arg_childWakeNextPc, arg_childLoopStartPc,
    freer_childLoopStartPc, arg_freeLoopStartPc,
    freer_afterDeadlinePc, freer_afterNotifyPc, freer_childReturnPc, freer_childWakeNextPc,
    freer_freeLoopStartPc]))
  all_goals (try (left; simp [*, PC.arg, DK.arg, NK.arg, PC.freer]; done))
  -- calls
  all_goals (try (
    right; left
    refine ⟨_, by assumption, rfl, rfl, (by assumption : s.Live _).2.2.2, fun h => ?_⟩
    first | assumption | (simp [PC.freer] at h)))
  -- returns
  all_goals (try (right; right; left; exact ⟨_, by rw [‹s.pc _ = _›]; rfl, trivial, rfl⟩))
  all_goals (try (right; right; right; left; exact ⟨by assumption, rfl, rfl⟩))
  all_goals (try (right; right; right; right; exact ⟨by rw [‹s.pc _ = _›]; rfl, trivial, rfl⟩))
  all_goals (repeat' split)
  all_goals (try (left; simp [*, PC.arg, DK.arg, NK.arg, PC.freer]; done))

/-- `freeing` is set by the call of `nsync_note_free` only. -/
theorem step_freeing {s s' : State} {e : Event} (hs : step s e = .ok s') :
    s'.freeing = s.freeing ∨
    ∃ a n, e.actor = some a ∧ s.pc a = .idle ∧ (s'.pc a).freer = some n ∧
      s'.freeing = upd s.freeing n true := by
  cases e
  all_goals step_cases hs
  all_goals (try (left; rfl))
  all_goals (try (left; simp; done))
  all_goals (repeat' split)
  all_goals (try (left; simp; done))
  all_goals (right; refine ⟨_, _, rfl, by assumption, ?_, rfl⟩; simp [PC.freer])

/-- A note is freed by the thread inside `nsync_note_free` on it, at note.c:235. -/
theorem step_freed {s s' : State} {e : Event} (hs : step s e = .ok s') (n : NoteId)
    (hn : (s'.notes n).freed = true) :
    (s.notes n).freed = true ∨
    ∃ a par c nx, e.actor = some a ∧ s.pc a = .fr .free n par c nx ∧
      s'.pc a = .fr .ret n par c nx := by
  cases e
  all_goals step_cases hs
  all_goals (try (left; exact hn))
  all_goals (try (left; simpa using hn))
  all_goals (repeat' split at hn)
  all_goals (try (left; simpa using hn))
  · simp only [setPc_notes, allocNote_f] at hn
    split at hn
    · simp [NoteRec.blank] at hn
    · left; exact hn
  · simp only [setPc_notes, markFreed_f_freed] at hn
    split at hn
    · next h => subst h; right; exact ⟨_, _, _, _, rfl, by assumption, by simp⟩
    · left; exact hn

/-- How the "inside nsync_note_free" status of the acting thread evolves. -/
theorem step_freer {s s' : State} {e : Event} (hs : step s e = .ok s') (a : Tid)
    (ha : e.actor = some a) :
    (s'.pc a).freer = (s.pc a).freer ∨ (s'.pc a).freer = none ∨
    ∃ n, s.pc a = .idle ∧ (s'.pc a).freer = some n ∧ s'.freeing = upd s.freeing n true ∧
      s.users n = [] ∧ s'.users = upd s.users n (a :: s.users n) := by
  cases e
  all_goals step_cases hs
  all_goals simp only [Event.actor, Option.some.injEq, reduceCtorEq] at ha
  all_goals (try subst ha)
  all_goals (try (left; rfl))
  all_goals (try (simp only [setPc_pc, upd_same, afterDeadline_pc, afterNotify_pc, childReturn_pc,
    childWakeNext_pc, childScanStart_pc, freeLoopStart_pc, enterChild_pc, leave_pc, addUser_pc, markCalled_pc,
    markFreeing_pc, setAfter_pc, pushObs_pc, publish_pc, delUser_pc,
    freer_afterDeadlinePc, freer_afterNotifyPc, freer_childReturnPc, freer_childWakeNextPc,
    freer_freeLoopStartPc, freer_childLoopStartPc]))
  all_goals (try (left; simp [*, PC.freer]; done))
  all_goals (try (right; left; simp [PC.freer]; done))
  all_goals (try (right; left; rfl))
  all_goals (try (
    right; right
    exact ⟨_, by assumption, rfl, rfl, by assumption, rfl⟩))
  all_goals (repeat' split)
  all_goals (try (left; simp [*, PC.freer]; done))
  all_goals (try (right; left; simp [PC.freer]; done))

/-- After its `free` the freeing thread can only return. -/
theorem step_freedIt {s s' : State} {e : Event} (hs : step s e = .ok s') (a : Tid)
    (ha : e.actor = some a) (hf : (s.pc a).freedIt = true) : s'.pc a = .idle := by
  cases e
  all_goals step_cases hs
  all_goals simp only [Event.actor, Option.some.injEq, reduceCtorEq] at ha
  all_goals (try subst ha)
  all_goals (try (simp [*, PC.freedIt] at hf; done))
  all_goals (try (simp; done))

/-- Events without an actor leave everything this family looks at alone. -/
theorem step_noactor {s s' : State} {e : Event} (hs : step s e = .ok s') (ha : e.actor = none) :
    s'.pc = s.pc ∧ s'.users = s.users ∧ s'.freeing = s.freeing ∧ s'.notes = s.notes := by
  cases e <;> simp [Event.actor] at ha
  · simp only [step, need_ok, Except.ok.injEq] at hs
    obtain ⟨_, hs⟩ := hs
    subst hs
    exact ⟨rfl, rfl, rfl, rfl⟩
  · simp only [step, Except.ok.injEq] at hs
    subst hs
    exact ⟨rfl, rfl, rfl, rfl⟩

theorem step_invU {s s' : State} {e : Event} (hU : InvU s) (hs : step s e = .ok s') :
    InvU s' := by
  cases hact : e.actor with
  | none =>
    obtain ⟨h1, h2, h3, h4⟩ := step_noactor hs hact
    exact ⟨by rw [h1, h2]; exact hU.users, by rw [h2]; exact hU.nodup,
      by rw [h1, h3]; exact hU.freerOk, by rw [h1, h2]; exact hU.sole,
      by rw [h3, h4]; exact hU.freedA, by rw [h1, h2, h4]; exact hU.freedK⟩
  | some a =>
    have hpo : ∀ t, t ≠ a → s'.pc t = s.pc t :=
      fun t ht => step_pc_other hs t (by rw [hact]; exact fun h => ht (Option.some.inj h).symm)
    have harg := step_arg hs a hact
    -- users and nodup
    have husers : (∀ t n, t ∈ s'.users n ↔ (s'.pc t).arg = some n) ∧ (∀ n, (s'.users n).Nodup) := by
      rcases harg with ⟨h1, h2, _⟩ | ⟨n, h1, h2, h3, _, _⟩ | ⟨n, h1, h2, h3⟩ | ⟨h1, h2, h3⟩ |
        ⟨h1, h2, h3⟩
      · refine ⟨fun t m => ?_, by rw [h2]; exact hU.nodup⟩
        rw [h2]
        by_cases ht : t = a
        · subst ht; rw [h1]; exact hU.users t m
        · rw [hpo t ht]; exact hU.users t m
      · have hna : ∀ m, a ∉ s.users m := fun m hm => by
          have := (hU.users a m).mp hm; rw [h1] at this; simp [PC.arg] at this
        refine ⟨fun t m => ?_, fun m => ?_⟩
        · rw [h3, upd_apply]
          by_cases ht : t = a
          · subst ht
            rw [h2]
            split
            · next hm => subst hm; simp
            · next hm =>
              constructor
              · intro h; exact absurd h (hna m)
              · intro h; exact absurd (Option.some.inj h).symm hm
          · rw [hpo t ht]
            split
            · next hm => subst hm; simp [ht, hU.users t m]
            · exact hU.users t m
        · rw [h3, upd_apply]
          split
          · next hm => subst hm; exact List.nodup_cons.mpr ⟨hna m, hU.nodup m⟩
          · exact hU.nodup m
      · refine ⟨fun t m => ?_, fun m => ?_⟩
        · rw [h3, upd_apply]
          by_cases ht : t = a
          · subst ht
            rw [h2]
            simp only [PC.arg, reduceCtorEq, iff_false]
            split
            · next hm => subst hm; exact fun h => (List.Nodup.mem_erase_iff (hU.nodup m)).mp h |>.1 rfl
            · next hm =>
              intro h
              have := (hU.users t m).mp h
              rw [h1] at this
              exact hm (Option.some.inj this).symm
          · rw [hpo t ht]
            split
            · next hm =>
              subst hm
              rw [List.mem_erase_of_ne ht]; exact hU.users t m
            · exact hU.users t m
        · rw [h3, upd_apply]
          split
          · next hm => subst hm; exact (hU.nodup m).erase a
          · exact hU.nodup m
      · refine ⟨fun t m => ?_, by rw [h3]; exact hU.nodup⟩
        rw [h3]
        by_cases ht : t = a
        · subst ht; rw [h2]
          have := hU.users t m
          rw [h1] at this
          simpa [PC.arg] using this
        · rw [hpo t ht]; exact hU.users t m
      · refine ⟨fun t m => ?_, by rw [h3]; exact hU.nodup⟩
        rw [h3]
        by_cases ht : t = a
        · subst ht; rw [h2]
          have := hU.users t m
          rw [h1] at this
          simpa [PC.arg] using this
        · rw [hpo t ht]; exact hU.users t m
    have hst := step_stable hs
    have hst := step_stable hs
    have hfr := step_freer hs a hact
    -- users of a note other than the one the acting thread calls / returns from are unchanged
    have husers_n : ∀ n, (s.pc a).arg ≠ some n → (s'.pc a).arg ≠ some n →
        s'.users n = s.users n := by
      intro n h0 h1
      rcases harg with ⟨_, h2, _⟩ | ⟨m, _, h2, h3, _, _⟩ | ⟨m, h2, _, h3⟩ | ⟨_, _, h3⟩ | ⟨_, _, h3⟩
      · rw [h2]
      · rw [h3, upd_apply]
        split
        · next hm => subst hm; exact absurd h2 h1
        · rfl
      · rw [h3, upd_apply]
        split
        · next hm => subst hm; exact absurd h2 h0
        · rfl
      · rw [h3]
      · rw [h3]
    refine ⟨husers.1, husers.2, ?_, ?_, ?_, ?_⟩
    · -- freerOk
      intro t n hf
      by_cases ht : t = a
      · subst ht
        rcases hfr with h | h | ⟨m, _, h1, h2, _, _⟩
        · rw [h] at hf; exact hst.freeing n (hU.freerOk t n hf)
        · rw [h] at hf; cases hf
        · rw [h1] at hf; cases hf; rw [h2]; simp
      · rw [hpo t ht] at hf; exact hst.freeing n (hU.freerOk t n hf)
    · -- sole
      intro t n hf
      by_cases ht : t = a
      · subst ht
        rcases hfr with h | h | ⟨m, _, h1, _, h3, h4⟩
        · rw [h] at hf
          have harg0 := freer_arg hf
          rcases harg with ⟨_, h2, _⟩ | ⟨_, hi, _⟩ | ⟨_, _, hi, _⟩ | ⟨hi, _⟩ | ⟨_, hi, _⟩
          · rw [h2]; exact hU.sole t n hf
          · rw [hi] at hf; cases hf
          · rw [hi] at h; rw [← h] at hf; cases hf
          · rw [hi] at hf; cases hf
          · rw [hi] at h; rw [← h] at hf; cases hf
        · rw [h] at hf; cases hf
        · rw [h1] at hf; cases hf; rw [h4, upd_same, h3]
      · rw [hpo t ht] at hf
        have h0 := hU.sole t n hf
        have hfree := hU.freerOk t n hf
        rw [husers_n n ?_ ?_]
        · exact h0
        · -- the acting thread was not using `n`
          intro ha
          have := (hU.users a n).mpr ha
          rw [h0] at this
          exact ht (List.mem_singleton.mp this).symm
        · -- and does not start using it: calls on `n` are rejected
          intro ha
          rcases harg with ⟨h1, _, _⟩ | ⟨m, _, h2, _, h4, _⟩ | ⟨_, _, hi, _⟩ | ⟨_, h2, _⟩ | ⟨_, hi, _⟩
          · rw [h1] at ha
            have := (hU.users a n).mpr ha
            rw [h0] at this
            exact ht (List.mem_singleton.mp this).symm
          · rw [h2] at ha; cases ha; rw [hfree] at h4; cases h4
          · rw [hi] at ha; cases ha
          · rw [h2] at ha; cases ha
          · rw [hi] at ha; cases ha
    · -- freedA
      intro n hn
      rcases step_freed hs n hn with h | ⟨a', par, c, nx, _, hpc, _⟩
      · exact hst.freeing n (hU.freedA n h)
      · exact hst.freeing n (hU.freerOk a' n (by rw [hpc]; rfl))
    · -- freedK
      intro t n hn ht
      rcases step_freed hs n hn with h | ⟨a', par, c, nx, ha', hpc, hpc'⟩
      · -- already freed
        by_cases hta : t = a
        · subst hta
          have harg' := (husers.1 t n).mp ht
          rcases harg with ⟨h1, h2, _⟩ | ⟨m, _, h2, _, h4, _⟩ | ⟨_, _, hi, _⟩ | ⟨_, h2, _⟩ | ⟨_, hi, _⟩
          · -- same argument: but a thread past its `free` can only return
            have harg0 : (s.pc t).arg = some n := h1 ▸ harg'
            have hin := (hU.users t n).mpr harg0
            have hidle := step_freedIt hs t hact (hU.freedK t n h hin)
            rw [hidle] at harg'; cases harg'
          · rw [h2] at harg'; cases harg'
            rw [hU.freedA n h] at h4; cases h4
          · rw [hi] at harg'; cases harg'
          · rw [h2] at harg'; cases harg'
          · rw [hi] at harg'; cases harg'
        · rw [hpo t hta]
          have harg' := (husers.1 t n).mp ht
          rw [hpo t hta] at harg'
          exact hU.freedK t n h ((hU.users t n).mpr harg')
      · -- freed by this very step
        rw [hact] at ha'; cases ha'
        have hsole := hU.sole a n (by rw [hpc]; rfl)
        have hun : s'.users n = s.users n := by
          rcases harg with ⟨_, h2, _⟩ | ⟨_, hi, _⟩ | ⟨_, _, hi, _⟩ | ⟨hi, _⟩ | ⟨_, hi, _⟩
          · rw [h2]
          · rw [hpc] at hi; cases hi
          · rw [hpc'] at hi; cases hi
          · rw [hpc] at hi; cases hi
          · rw [hpc'] at hi; cases hi
        rw [hun, hsole] at ht
        rw [List.mem_singleton.mp ht, hpc']; rfl

theorem Reachable.invU {s : State} (h : Reachable s) : InvU s :=
  Reachable.induction InvU.init (fun _ _ _ _ hi hs => step_invU hi hs) s h

end Note
