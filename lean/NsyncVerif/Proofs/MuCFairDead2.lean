import NsyncVerif.Proofs.MuCFairDead
/-
  MuC: `deadExec` satisfies every hypothesis of `C06_fair_termination_full`; the dead state has nobody responsible.
-/
namespace NsyncVerif.MuC

set_option linter.unusedSimpArgs false

set_option maxRecDepth 4096

theorem dead_T : tidsBelow 5 traceDead = true := by decide
theorem dead_T2 : tidsBelow 5 deadLoop = true := by decide
theorem dead_hp : 0 < deadLoop.length := by decide

theorem dead_step : step ⟨false⟩ deadA (.ld 4 .rlx .word 116) = .ok deadA := by
  have h := dead_loop
  simp only [deadLoop, run] at h
  split at h
  · rename_i s1 hs1
    simp only [Except.ok.injEq] at h
    rw [hs1, h]
  · cases h

/-- A check along the loop is a check of the dead state. -/
theorem dead_loop_all (f : State → Bool) (hf : f deadA = true) : allStates ⟨false⟩ f deadA deadLoop = true := by
  simp [deadLoop, allStates, dead_step, hf]

theorem range5 (P : Nat → Bool) (h0 : P 0 = true) (h1 : P 1 = true) (h2 : P 2 = true) (h3 : P 3 = true) (h4 : P 4 = true) :
    (List.range 5).all P = true := by
  simp only [List.all_eq_true, List.mem_range]
  intro t ht
  match t, ht with
  | 0, _ => exact h0
  | 1, _ => exact h1
  | 2, _ => exact h2
  | 3, _ => exact h3
  | 4, _ => exact h4

/-- Thread 2 has been idle since time 47 (its program point is buried under 850 updates: not for `decide`). -/
theorem dead_thread2 : deadA.pc 2 = .idle ∧ deadA.held 2 = none := by
  have hall : (traceDead.drop 47).all (fun e => decide (e.tid ≠ some 2)) = true := by decide
  have hne : ∀ e ∈ traceDead.drop 47, e.tid ≠ some 2 := fun e he => by
    simpa using (List.all_eq_true.mp hall) e he
  have hrun : run ⟨false⟩ init (traceDead.take 47 ++ traceDead.drop 47) = .ok deadA := by
    rw [List.take_append_drop]; exact dead_run
  obtain ⟨s1, a, b⟩ := run_append_ok _ _ _ _ hrun
  have hs1 : s1 = stateAt ⟨false⟩ traceDead 47 := by
    have := stateAt_ok dead_run 47; rw [a] at this; exact Except.ok.inj this
  obtain ⟨c, d⟩ := run_untouched _ _ _ hne b
  have h1 : (stateAt ⟨false⟩ traceDead 47).pc 2 = .idle := by decide
  have h2 : (stateAt ⟨false⟩ traceDead 47).held 2 = none := by decide
  rw [hs1] at c d
  exact ⟨c.trans h1, d.trans h2⟩

def notTimedB (s : State) (t : Tid) : Bool :=
  match s.pc t with
  | .mwPdRet _ (some _) => false
  | _ => true

theorem dead_contract_all (i : Nat) : (fun s : State => !s.nwViol) (stateAt ⟨false⟩ traceDead i) = true :=
  allStates_split (f := fun s : State => !s.nwViol) dead_run 450 (by decide) (by decide) i

theorem dead_note_all (i : Nat) : (fun s : State => (List.range 5).all (noteB s)) (stateAt ⟨false⟩ traceDead i) = true :=
  allStates_split (f := fun s : State => (List.range 5).all (noteB s)) dead_run 450 (by decide) (by decide) i

theorem dead_thr (g : State → Tid → Bool) (hidle : ∀ s t, s.pc t = .idle → g s t = true)
    (h1 : ∀ i, (List.range 5).all (g (stateAt ⟨false⟩ traceDead i)) = true)
    (h2 : allStates ⟨false⟩ (fun s => (List.range 5).all (g s)) deadA deadLoop = true) (j : Nat) (t : Tid) :
    g (deadExec.ρ j) t = true := by
  by_cases ht : t < 5
  · have := lasso_all' dead_run dead_loop dead_hp (fun s => (List.range 5).all (g s)) h1 h2 j
    simp only [List.all_eq_true, List.mem_range] at this
    exact this t ht
  · exact hidle _ _ (lasso_untouched dead_run dead_loop dead_hp dead_T dead_T2 ht j).1

theorem dead_hyps : FairHyps deadExec := by
  refine ⟨reachable_init _,
    lasso_weakFair dead_run dead_loop dead_hp dead_T dead_T2 4 (r0 := 0) rfl rfl rfl
      (dead_loop_all _ (range5 _ (by decide) (by decide) (by simp [dead_thread2, noteB, notTimedB, heldNoneB]) (by decide) (by decide))),
    lasso_release dead_run dead_loop dead_hp dead_T dead_T2
      (dead_loop_all _ (range5 _ (by decide) (by decide) (by simp [dead_thread2, noteB, notTimedB, heldNoneB]) (by decide) (by decide))),
    ⟨traceDead.length, fun j e hj he => by
      simpa using lasso_events dead_run dead_loop dead_hp (fun e => !e.isArrival) (by decide) hj he⟩,
    ⟨traceDead.length, fun j e hj he => by
      simpa using lasso_events dead_run dead_loop dead_hp (fun e => !e.rcFail) (by decide) hj he⟩,
    ⟨traceDead.length, fun j e hj he => by
      simpa using lasso_events dead_run dead_loop dead_hp (fun e => !e.isEnvV) (by decide) hj he⟩,
    ⟨?_, ?_⟩, ?_, ?_⟩
  · -- NoteHonoured, 1st clause
    intro j t c dl hpc
    have := dead_thr noteB noteB_idle dead_note_all
      (dead_loop_all _ (range5 _ (by decide) (by decide) (by simp [dead_thread2, noteB, notTimedB, heldNoneB]) (by decide) (by decide))) j t
    simpa [noteB, hpc] using this
  · -- 2nd clause: there is no `noteSeen` at all
    intro j t c _ _ hσ
    have hns : (traceDead ++ deadLoop).all (fun e => !e.isNoteSeen) = true := by decide
    have hmem : Event.noteSeen t ∈ traceDead ++ deadLoop := by
      by_cases hj : j < traceDead.length
      · have h2 := (lasso_head dead_run dead_loop dead_hp hj).2
        have : traceDead[j]? = some (.noteSeen t) := h2 ▸ hσ
        exact List.mem_append_left _ (List.mem_of_getElem? this)
      · have h2 := (lassoExec_tail dead_run dead_loop dead_hp (show traceDead.length ≤ j by omega)).2
        have : deadLoop[(j - traceDead.length) % deadLoop.length]? = some (.noteSeen t) := h2 ▸ hσ
        exact List.mem_append_right _ (List.mem_of_getElem? this)
    have := (List.all_eq_true.mp hns) _ hmem
    simp [Event.isNoteSeen] at this
  · -- ContractKept
    intro j
    have := lasso_all' dead_run dead_loop dead_hp (fun s => !s.nwViol) dead_contract_all (dead_loop_all _ (by decide)) j
    show ((lassoExec ⟨false⟩ traceDead deadLoop deadA dead_run dead_loop dead_hp).ρ j).nwViol = false
    simpa using this
  · -- ClockAdvances: the only timed P (thread 4, deadline 5) times out at time 864
    intro t i c d hpc
    have hafter : ∀ j, 865 ≤ j → ∀ t, notTimedB (deadExec.ρ j) t = true := by
      intro j hj t
      by_cases ht : t < 5
      · have := lasso_from dead_run dead_loop dead_hp (fun s => (List.range 5).all (notTimedB s)) 865 (by decide)
          (dead_loop_all _ (range5 _ (by decide) (by decide) (by simp [dead_thread2, noteB, notTimedB, heldNoneB]) (by decide) (by decide))) j hj
        simp only [List.all_eq_true, List.mem_range] at this
        exact this t ht
      · have := (lasso_untouched dead_run dead_loop dead_hp dead_T dead_T2 ht j).1
        show notTimedB ((lassoExec ⟨false⟩ traceDead deadLoop deadA dead_run dead_loop dead_hp).ρ j) t = true
        simp [notTimedB, this]
    refine ⟨max i 865, by omega, Or.inr ?_⟩
    intro hp'
    have := hafter (max i 865) (by omega) t
    simp [notTimedB, hp'] at this

end NsyncVerif.MuC
