/-
  Proofs/WaitNRecEff2.lean — `RecEff` for every step function.
-/
import NsyncVerif.Proofs.WaitNRecEff

set_option linter.unusedSimpArgs false
set_option linter.unusedVariables false

namespace WaitN

/-- explicit `s'` that differs from `s` in one record -/
macro "receff_tac" : tactic =>
  `(tactic| (constructor <;> intro x <;> simp <;> (try split) <;> (try simp_all)))

theorem receff_proto {s s' : State} {t : Tid} {e : Ev} (h : proto s t e = .ok s') : RecEff s s' t := by
  unfold proto at h
  split_ok h
  all_goals try receff_leaf h
  · cases h; receff_tac

theorem receff_stepOpen {s s' : State} {t : Tid} {e : Ev} (h : stepOpen s t e = .ok s') : RecEff s s' t := by
  unfold stepOpen at h
  split_ok h <;> first | exact receff_proto h | receff_leaf h

macro "receff_leaf2" h:ident : tactic =>
  `(tactic| first
    | receff_leaf $h
    | exact receff_stepOpen $h
    | exact receff_proto $h
    | (cases $h:ident; receff_tac; done)
    | (have hsh := shared_deqDone $h; refine RecEff.trans_eq (s1 := _) ?_ hsh.2.1; receff_tac; done)
    | (have hsh := shared_afterEnq $h; refine RecEff.trans_eq (s1 := _) ?_ hsh.2.1; receff_tac; done))

theorem receff_stepSg {s s' : State} {t : Tid} {c : Nat} {bc : Bool} {st : SgSt} {e : Ev}
    (hpc : s.pc t = .sg c bc st) (h : stepSg s t c bc st e = .ok s') : RecEff s s' t := by
  unfold stepSg at h
  split_ok h
  all_goals try receff_leaf2 h
  all_goals (cases h; constructor <;> intro x <;> simp <;> (try split) <;> (try simp_all))
  · intro _; exact .inl ⟨c, _, rfl, rfl⟩

theorem receff_stepCtrRT {s s' : State} {t : Tid} {u : Use} {i : Nat} {l : Bool} {e : Ev}
    (hpc : s.pc t = .wCtrRT u i l) (h : stepCtrRT s t u i l e = .ok s') : RecEff s s' t := by
  unfold stepCtrRT at h
  split_ok h <;> receff_leaf2 h

theorem receff_stepND {s s' : State} {t : Tid} {u : Use} {i : Nat} {st : NDst} {e : Ev}
    (hpc : s.pc t = .wND u i st) (h : stepND s t u i st e = .ok s') : RecEff s s' t := by
  unfold stepND at h
  split_ok h <;> receff_leaf2 h

theorem receff_stepEnqCv {s s' : State} {t : Tid} {i : Nat} {st : CvEnqSt} {e : Ev}
    (hpc : s.pc t = .wEnqCv i st) (h : stepEnqCv s t i st e = .ok s') : RecEff s s' t := by
  unfold stepEnqCv at h
  split_ok h
  all_goals try receff_leaf2 h
  all_goals (cases h; constructor <;> intro x <;> simp <;> (try split) <;> (try simp_all))

theorem receff_stepEnq {s s' : State} {t : Tid} {i : Nat} {st : EnqSt} {e : Ev}
    (hpc : s.pc t = .wEnq i st) (h : stepEnq s t i st e = .ok s') : RecEff s s' t := by
  unfold stepEnq at h
  split_ok h
  all_goals try receff_leaf2 h
  all_goals (cases h; constructor <;> intro x <;> simp <;> (try split) <;> (try simp_all))

theorem receff_stepDeqCv {s s' : State} {t : Tid} {j : Nat} {st : CvDeqSt} {e : Ev}
    (hpc : s.pc t = .wDeqCv j st) (h : stepDeqCv s t j st e = .ok s') : RecEff s s' t := by
  unfold stepDeqCv at h
  split_ok h
  all_goals try receff_leaf2 h
  all_goals (cases h; constructor <;> intro x <;> simp <;> (try split) <;> (try simp_all))
  · intro _ _; exact .inr ⟨_, ‹_ ∈ _›⟩

theorem receff_stepDeq {s s' : State} {t : Tid} {j : Nat} {st : DeqSt} {e : Ev}
    (hpc : s.pc t = .wDeq j st) (h : stepDeq s t j st e = .ok s') : RecEff s s' t := by
  unfold stepDeq at h
  split_ok h
  all_goals try receff_leaf2 h
  all_goals (cases h; constructor <;> intro x <;> simp <;> (try split) <;> (try simp_all))
  all_goals (intro _ _; exact .inr ⟨_, ‹_ ∈ _›⟩)

theorem receff_stepAlloc {s s' : State} {t : Tid}  {e : Ev}
    (hpc : s.pc t = .wAlloc) (h : stepAlloc s t  e = .ok s') : RecEff s s' t := by
  unfold stepAlloc at h
  split_ok h <;> receff_leaf2 h

theorem receff_stepInit {s s' : State} {t : Tid} {i : Nat} {e : Ev}
    (hpc : s.pc t = .wInit i) (h : stepInit s t i e = .ok s') : RecEff s s' t := by
  unfold stepInit at h
  split_ok h
  all_goals try receff_leaf2 h
  all_goals (cases h; constructor <;> intro x <;> simp <;> (try split) <;> (try simp_all))
  all_goals (intro _; by_cases hx : (s.rcd x).live = false; exact .inr hx; left; intro he; subst he; simp_all)

theorem receff_stepUnlockMu {s s' : State} {t : Tid}  {e : Ev}
    (hpc : s.pc t = .wUnlock) (h : stepUnlockMu s t  e = .ok s') : RecEff s s' t := by
  unfold stepUnlockMu at h
  split_ok h <;> receff_leaf2 h

theorem receff_stepCvRT {s s' : State} {t : Tid} {j : Nat} {e : Ev}
    (hpc : s.pc t = .wCvRT j) (h : stepCvRT s t j e = .ok s') : RecEff s s' t := by
  unfold stepCvRT at h
  split_ok h <;> receff_leaf2 h

theorem receff_stepPdEnter {s s' : State} {t : Tid}  {e : Ev}
    (hpc : s.pc t = .wPdEnter) (h : stepPdEnter s t  e = .ok s') : RecEff s s' t := by
  unfold stepPdEnter at h
  split_ok h <;> receff_leaf2 h

theorem receff_stepPdWait {s s' : State} {t : Tid} {j : SemId} {e : Ev}
    (hpc : s.pc t = .wPdWait j) (h : stepPdWait s t j e = .ok s') : RecEff s s' t := by
  unfold stepPdWait at h
  split_ok h <;> receff_leaf2 h

theorem receff_stepFree {s s' : State} {t : Tid}  {e : Ev}
    (hpc : s.pc t = .wFree) (h : stepFree s t  e = .ok s') : RecEff s s' t := by
  unfold stepFree at h
  split_ok h <;> receff_leaf2 h

theorem receff_stepRelock {s s' : State} {t : Tid}  {e : Ev}
    (hpc : s.pc t = .wRelock) (h : stepRelock s t  e = .ok s') : RecEff s s' t := by
  unfold stepRelock at h
  split_ok h <;> receff_leaf2 h

theorem receff_stepRet {s s' : State} {t : Tid} {r : Nat} {e : Ev}
    (hpc : s.pc t = .wRet r) (h : stepRet s t r e = .ok s') : RecEff s s' t := by
  unfold stepRet at h
  split_ok h <;> receff_leaf2 h

theorem receff_stepIdle {s s' : State} {t : Tid}  {e : Ev}
    (hpc : s.pc t = .idle) (h : stepIdle s t  e = .ok s') : RecEff s s' t := by
  unfold stepIdle at h
  split_ok h <;> receff_leaf2 h

theorem receff_stepThr {s s' : State} {t : Tid} {e : Ev} (h : stepThr s t e = .ok s') : RecEff s s' t := by
  unfold stepThr at h
  split at h <;> rename_i hpc
  · exact receff_stepIdle hpc h
  · simp at h
  · exact receff_stepSg hpc h
  · exact receff_stepCtrRT hpc h
  · exact receff_stepND hpc h
  · exact receff_stepEnqCv hpc h
  · exact receff_stepEnq hpc h
  · exact receff_stepDeqCv hpc h
  · exact receff_stepDeq hpc h
  · exact receff_stepAlloc hpc h
  · exact receff_stepInit hpc h
  · exact receff_stepUnlockMu hpc h
  · exact receff_stepCvRT hpc h
  · exact receff_stepPdEnter hpc h
  · exact receff_stepPdWait hpc h
  · exact receff_stepFree hpc h
  · exact receff_stepRelock hpc h
  · exact receff_stepRet hpc h

end WaitN
