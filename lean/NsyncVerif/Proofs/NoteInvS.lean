/-
  Layer `Note`, invariant family S (soundness of notification): every notification has a cause —
  `nsync_note_notify` was called on the note or on a note that was on its path to the root, or
  the deadline of such a note has passed.
-/
import NsyncVerif.Proofs.NoteInvN3

set_option linter.unusedSimpArgs false

namespace Note

/-- `p` was on the path from `c` to the root when `c` was created, together with its own path. -/
def Above (s : State) (p c : NoteId) : Prop :=
  p ∈ s.ancEver c ∧ ∀ a, a ∈ s.ancEver p → a ∈ s.ancEver c

theorem Caused.up {s : State} {p c : NoteId} (h : Above s p c) (hc : Caused s p) : Caused s c := by
  obtain ⟨a, ha, hh⟩ := hc
  exact ⟨a, h.2 a ha, hh⟩

theorem Above.trans {s : State} {a b c : NoteId} (h1 : Above s a b) (h2 : Above s b c) :
    Above s a c :=
  ⟨h2.2 a h1.1, fun x hx => h2.2 x (h1.2 x hx)⟩

/-- The deadline `e` read from a note is the own deadline of a note on its path. -/
def DlFrom (s : State) (n : NoteId) (e : Nat) : Prop :=
  ∃ a, a ∈ s.ancEver n ∧ s.ownDl a = some e

def DKS (s : State) (n : NoteId) : DK → Prop
  | .notifyApi => s.notifyCalled n = true ∧ (s.notes n).allocated = true
  | .newSelf par dl =>
    ∀ p, par = some p → (s.notes n).allocated = true ∧ (s.notes p).allocated = true ∧
      s.ancEver n = n :: s.ancEver p ∧ s.ownDl n = dl
  | _ => True

def NKS (s : State) (n : NoteId) : NK → Prop
  | .ofApi => True
  | .ofDeadline dk => DKS s n dk

/-- The child of the head note that the loop has selected. -/
@[simp] def CPos.child : CPos → Option NoteId
  | .lockChild c | .lockChildRet c => some c
  | _ => none

@[simp] def FPos.inLoop : FPos → Bool
  | .lockChild | .lockChildRet => true
  | _ => false

/-- What a program counter knows (family S). -/
def SClaim (s : State) : PC → Prop
  | .newMalloc par _ => ∀ p, par = some p → (s.notes p).allocated = true
  | .dl pos n nt dk =>
    DKS s n dk ∧ (pos.late = true → ∀ e, nt = some e → e ≠ 0 → DlFrom s n e) ∧
    (pos = .now → nt.pos)
  | .nfy _ n _ nk => NKS s n nk ∧ Caused s n
  | .chd pos stk top =>
    NKS s top.n top.k ∧ Caused s top.n ∧ (∀ g ∈ stk, Caused s g.note) ∧
    (∀ c, pos.child = some c → Caused s c)
  | .newP pos n p _ =>
    (s.notes n).allocated = true ∧ (s.notes p).allocated = true ∧
    s.ancEver n = n :: s.ancEver p ∧ (pos = .st → Caused s p)
  | .fr pos n par c _ =>
    (∀ p, par = some p → Above s p n) ∧ (pos.inLoop = true → Above s n c)
  | _ => True

structure InvS (s : State) : Prop where
  claim : ∀ t, SClaim s (s.pc t)
  flag : ∀ n, (s.notes n).notified = true → Caused s n
  expiry : ∀ n e, (s.notes n).allocated = true → (s.notes n).expiry = some e →
    DlFrom s n e ∨ (e = 0 ∧ Caused s n)
  children : ∀ p c, c ∈ (s.notes p).children → Above s p c
  parent : ∀ p c, (s.notes c).parent = some p → Above s p c
  self : ∀ n, (s.notes n).allocated = true → n ∈ s.ancEver n
  unalloc : ∀ n, (s.notes n).allocated = false → s.ancEver n = []
  anc : ∀ n a, a ∈ s.ancEver n → (s.notes a).allocated = true

theorem InvS.init : InvS Note.init := by
  refine ⟨?_, ?_, ?_, ?_, ?_, ?_, ?_, ?_⟩ <;> simp [Note.init, SClaim, NoteRec.blank]

/-- A notified note has a cause. -/
theorem InvS.caused_of_notified {s : State} (hS : InvS s) {n : NoteId}
    (ha : (s.notes n).allocated = true) (hn : s.Notified n) : Caused s n := by
  rcases hn with hf | he
  · exact hS.flag n hf
  · rcases hS.expiry n 0 ha he with ⟨a, h1, h2⟩ | ⟨_, h⟩
    · exact ⟨a, h1, Or.inr ⟨0, h2, Nat.zero_le _⟩⟩
    · exact h

theorem InvS.alloc_of_anc {s : State} (h : InvS s) {n a : NoteId} (ha : a ∈ s.ancEver n) :
    (s.notes n).allocated = true := by
  cases hn : (s.notes n).allocated with
  | true => rfl
  | false => rw [h.unalloc n hn] at ha; simp at ha

/-! ### Stability -/

theorem ancEver_step {s s' : State} {e : Event} (hS : InvS s) (hs : step s e = .ok s')
    {n a : NoteId} (ha : a ∈ s.ancEver n) : s'.ancEver n = s.ancEver n :=
  ((step_stable hs).ghost n (hS.alloc_of_anc ha)).2.1

theorem Caused.stable {s s' : State} {e : Event} (hS : InvS s) (hs : step s e = .ok s')
    {n : NoteId} (h : Caused s n) : Caused s' n := by
  have hst := step_stable hs
  obtain ⟨a, ha, hh⟩ := h
  refine ⟨a, by rw [ancEver_step hS hs ha]; exact ha, ?_⟩
  rcases hh with hh | ⟨e, he, hle⟩
  · left; exact hst.called a hh
  · right
    refine ⟨e, ?_, Nat.le_trans hle hst.now⟩
    rw [(hst.ghost a (hS.anc n a ha)).1]; exact he

theorem Above.stable {s s' : State} {e : Event} (hS : InvS s) (hs : step s e = .ok s')
    {p c : NoteId} (h : Above s p c) : Above s' p c := by
  have hc := ancEver_step hS hs h.1
  have hp := ancEver_step hS hs (hS.self p (hS.anc c p h.1))
  unfold Above
  rw [hc, hp]
  exact h

theorem DlFrom.stable {s s' : State} {e : Event} (hS : InvS s) (hs : step s e = .ok s')
    {n : NoteId} {v : Nat} (h : DlFrom s n v) : DlFrom s' n v := by
  obtain ⟨a, ha, hd⟩ := h
  refine ⟨a, by rw [ancEver_step hS hs ha]; exact ha, ?_⟩
  rw [((step_stable hs).ghost a (hS.anc n a ha)).1]; exact hd

theorem DKS.stable {s s' : State} {e : Event} (hs : step s e = .ok s')
    {n : NoteId} {dk : DK} (h : DKS s n dk) : DKS s' n dk := by
  have hst := step_stable hs
  cases dk with
  | notifyApi => exact ⟨hst.called n h.1, hst.alloc n h.2⟩
  | newSelf par dl =>
    intro p hp
    obtain ⟨h0, h1, h2, h3⟩ := h p hp
    exact ⟨hst.alloc n h0, hst.alloc p h1,
      by rw [(hst.ghost n h0).2.1, (hst.ghost p h1).2.1]; exact h2,
      by rw [(hst.ghost n h0).1]; exact h3⟩
  | _ => trivial

theorem NKS.stable {s s' : State} {e : Event} (hs : step s e = .ok s')
    {n : NoteId} {nk : NK} (h : NKS s n nk) : NKS s' n nk := by
  cases nk with
  | ofApi => trivial
  | ofDeadline dk => exact DKS.stable hs h

/-- The claims of every thread survive any step (they only mention monotone facts). -/
theorem SClaim.stable {s s' : State} {e : Event} (hS : InvS s) (hs : step s e = .ok s') {pc : PC}
    (hc : SClaim s pc) : SClaim s' pc := by
  have hst := step_stable hs
  cases pc with
  | newMalloc par dl => exact fun p hp => hst.alloc p (hc p hp)
  | dl pos n nt dk =>
    obtain ⟨h2, h3, h4⟩ := hc
    exact ⟨DKS.stable hs h2, fun hl e he h0 => DlFrom.stable hS hs (h3 hl e he h0), h4⟩
  | nfy pos n par nk =>
    exact ⟨NKS.stable hs hc.1, Caused.stable hS hs hc.2⟩
  | chd pos stk top =>
    obtain ⟨h2, h3, h4, h5⟩ := hc
    exact ⟨NKS.stable hs h2, Caused.stable hS hs h3,
      fun g hg => Caused.stable hS hs (h4 g hg), fun c hc' => Caused.stable hS hs (h5 c hc')⟩
  | newP pos n p dl =>
    obtain ⟨h1, h2, h3, h4⟩ := hc
    exact ⟨hst.alloc n h1, hst.alloc p h2,
      by rw [(hst.ghost n h1).2.1, (hst.ghost p h2).2.1]; exact h3,
      fun hp => Caused.stable hS hs (h4 hp)⟩
  | fr pos n par c nx =>
    exact ⟨fun p hp => Above.stable hS hs (hc.1 p hp), fun hl => Above.stable hS hs (hc.2 hl)⟩
  | _ => trivial

/-! ### Claims of the control transfers -/

theorem SClaim.afterDeadlinePc {s : State} (hS : InvS s) {n : NoteId} {nt : Dl} {dk : DK}
    (h : DKS s n dk) : SClaim s (Note.afterDeadlinePc n nt dk) := by
  cases dk with
  | isNotified => trivial
  | notifyApi =>
    simp only [Note.afterDeadlinePc]
    split
    · exact ⟨trivial, n, hS.self n h.2, Or.inl h.1⟩
    · trivial
  | newSelf par dl =>
    simp only [Note.afterDeadlinePc]
    split
    · cases par with
      | none => trivial
      | some p =>
        obtain ⟨h0, h1, h2, _⟩ := h p rfl
        exact ⟨h0, h1, h2, fun hp => by cases hp⟩
    · trivial
  | ready1 wdl => simp only [Note.afterDeadlinePc]; split <;> trivial
  | ready2 r wdl =>
    simp only [Note.afterDeadlinePc]
    split
    · trivial
    · exact ⟨trivial, by simp, by simp⟩
  | dequeue r wdl => trivial

theorem SClaim.afterNotifyPc {s : State} (hS : InvS s) {n : NoteId} {nk : NK}
    (h : NKS s n nk) : SClaim s (Note.afterNotifyPc n nk) := by
  cases nk with
  | ofApi => trivial
  | ofDeadline dk => exact SClaim.afterDeadlinePc hS h

theorem SClaim.childReturnPc {s : State} {pos : CPos} {f : Frame} {rest : List Frame} {top : Top}
    (hc : SClaim s (.chd pos (f :: rest) top)) : SClaim s (Note.childReturnPc f rest top) := by
  obtain ⟨h1, h2, h3, _⟩ := hc
  unfold Note.childReturnPc
  cases rest with
  | cons g gs => exact ⟨h1, h2, fun x hx => h3 x (List.mem_cons_of_mem _ hx), by simp⟩
  | nil => cases hp : top.par <;> exact ⟨h1, h2⟩

/-- The innermost activation moves on with the same stack, possibly selecting the child `c`. -/
theorem SClaim.chdMove {s : State} (hS : InvS s) {pos pos' : CPos} {f f' : Frame}
    {rest : List Frame} {top : Top} (hc : SClaim s (.chd pos (f :: rest) top))
    (hf : f'.note = f.note) (hch : ∀ c, pos'.child = some c → c ∈ (s.notes f.note).children) :
    SClaim s (.chd pos' (f' :: rest) top) := by
  obtain ⟨h1, h2, h3, _⟩ := hc
  refine ⟨h1, h2, ?_, ?_⟩
  · intro g hg
    rcases List.mem_cons.mp hg with hg | hg
    · subst hg; rw [hf]; exact h3 f (by simp)
    · exact h3 g (List.mem_cons_of_mem _ hg)
  · intro c hc'
    exact Caused.up (hS.children _ _ (hch c hc')) (h3 f (by simp))

theorem SClaim.childLoopStartPc {s : State} (hS : InvS s) {pos : CPos} {f : Frame}
    {rest : List Frame} {top : Top} (hc : SClaim s (.chd pos (f :: rest) top)) :
    SClaim s (Note.childLoopStartPc (s.notes f.note).children f rest top) := by
  unfold Note.childLoopStartPc
  split
  · exact SClaim.chdMove hS hc rfl (by simp)
  · next c cs hcs =>
    refine SClaim.chdMove hS hc rfl ?_
    intro c' hc'
    simp only [CPos.child, Option.some.injEq] at hc'
    subst hc'; rw [hcs]; simp

theorem SClaim.childWakeNextPc {s s1 : State} (hS : InvS s) {pos : CPos} {f : Frame}
    {rest : List Frame} {top : Top} (hc : SClaim s (.chd pos (f :: rest) top))
    (h1 : (s1.notes f.note).children = (s.notes f.note).children) :
    SClaim s (Note.childWakeNextPc s1 f rest top) := by
  unfold Note.childWakeNextPc
  split
  · exact SClaim.chdMove hS hc rfl (by simp)
  · rw [h1]; exact SClaim.childLoopStartPc hS hc

theorem SClaim.freeLoopStartPc {s : State} (hS : InvS s) {n : NoteId} {par : Option NoteId}
    (hp : ∀ p, par = some p → Above s p n) :
    SClaim s (Note.freeLoopStartPc (s.notes n).children n par) := by
  unfold Note.freeLoopStartPc
  split
  · exact ⟨hp, by simp⟩
  · next c cs hcs => exact ⟨hp, fun _ => hS.children n c (by rw [hcs]; simp)⟩

theorem SClaim.freeLoopStartPc' {s : State} (hS : InvS s) {n : NoteId} {par : Option NoteId}
    {cs : List NoteId} (hcs : cs = (s.notes n).children) (hp : ∀ p, par = some p → Above s p n) :
    SClaim s (Note.freeLoopStartPc cs n par) := hcs ▸ SClaim.freeLoopStartPc hS hp

end Note
