import NsyncVerif.Proofs.MuQInvHint
/-
  MuQ: (I_hint) first part is preserved by every abstract step.
-/
namespace NsyncVerif.MuQ

theorem uncontended_false_waiting {w : Word} (h : uncontended w = false) : w.waiting = true := by
  simp only [uncontended, Bool.or_eq_false_iff] at h
  have := h.1.1.1; cases hx : w.waiting <;> simp_all

theorem ahint_step {cfg : Cfg} {a a' : AState} (hs : ASpin a) (hq : AQueue a) (h : AHint a)
    (st : AStep cfg a a') : AHint a' := by
  cases st with
  | acqFresh t l hro hts hb =>
    refine ahint_frame h ?_ ?_ (by simp) (by simp) (fun u hu => by simpa using hu)
      (fun u sc hr => by simpa using hr) (fun u f hr => by simpa using hr) (fun k => by simp)
    · cases l <;> simp [acqWord]
    · cases l <;> simp [acqWord, h.af]
  | enterSlow t l hro hts =>
    exact ahint_frame h rfl h.af rfl rfl (frame_spin rfl) (frame_scan rfl) (frame_fin rfl) (fun _ => rfl)
  | acqSlow t c hro hts hb =>
    refine ahint_frame h ?_ ?_ (by simp) (by simp) (fun u hu => frame_spin (r := .quiet) rfl u (by simpa using hu))
      (fun u sc hr => frame_scan (r := .quiet) rfl u sc (by simpa using hr))
      (fun u f hr => frame_fin (r := .quiet) rfl u f (by simpa using hr)) ?_
    · cases c.l <;> simp [acqWord]
    · cases c.l <;> simp [acqWord, h.af]
    · intro k; cases hcw : c.w with
      | none => simp [AState.dropW]
      | some k0 =>
        simp only [AState.addShare_wr, AState.dropW, setFn]; split
        · rename_i e; subst e; rfl
        · rfl
  | enq t c hro hsp hb =>
    have hfree := hs.no_spin_of_free hsp
    refine ⟨(fun hn => by cases hn), fun _ _ => rfl, rfl, ?_, ?_⟩
    · intro u sc hr
      have : a.ro u = .scan sc := by
        simp only [setFn] at hr; split at hr
        · cases hr
        · exact hr
      have := hfree u; rw [‹a.ro u = .scan sc›] at this; cases this
    · intro u f hr
      have : a.ro u = .fin f := by
        simp only [setFn] at hr; split at hr
        · cases hr
        · exact hr
      have := hfree u; rw [‹a.ro u = .fin f›] at this; cases this
  | adopt t c k hro hw hkq ho hwt =>
    have hsp : (a.ro t).spin = true := by rw [hro]; rfl
    have hspt : a.sp = some t := (hs.own t).2 hsp
    refine ⟨(fun hn => by have h0 : a.sp = none := hn; rw [hspt] at h0; cases h0),
      fun _ _ => h.wsp t hsp, h.af, ?_, ?_⟩
    · intro u sc hr
      simp only [setFn] at hr; split at hr
      · cases hr
      · have hu : (a.ro u).spin = true := by rw [hr]; rfl
        have := hs.unique hsp hu; subst this; rw [hro] at hr; cases hr
    · intro u f hr
      simp only [setFn] at hr; split at hr
      · cases hr
      · have hu : (a.ro u).spin = true := by rw [hr]; rfl
        have := hs.unique hsp hu; subst this; rw [hro] at hr; cases hr
  | requeue t c k hro hw hkq =>
    have hsp : (a.ro t).spin = true := by rw [hro]; rfl
    have hspt : a.sp = some t := (hs.own t).2 hsp
    refine ⟨(fun hn => by have h0 : a.sp = none := hn; rw [hspt] at h0; cases h0),
      fun _ _ => h.wsp t hsp, h.af, ?_, ?_⟩
    · intro u sc hr
      simp only [setFn] at hr; split at hr
      · cases hr
      · have hu : (a.ro u).spin = true := by rw [hr]; rfl
        have := hs.unique hsp hu; subst this; rw [hro] at hr; cases hr
    · intro u f hr
      simp only [setFn] at hr; split at hr
      · cases hr
      · have hu : (a.ro u).spin = true := by rw [hr]; rfl
        have := hs.unique hsp hu; subst this; rw [hro] at hr; cases hr
  | relSpin t c hro =>
    have hsp : (a.ro t).spin = true := by rw [hro]; rfl
    have hnone : ∀ u, (setFn a.ro t (.slow c .loopLd) u).spin = false := by
      intro u; simp only [setFn]; split
      · rfl
      · rename_i hu
        cases hx : (a.ro u).spin with
        | false => rfl
        | true => exact absurd (hs.unique hsp hx) hu
    obtain ⟨k, _, hk⟩ := hq.relq t c hro
    refine ⟨fun _ => ?_, (fun u hu => by rw [hnone u] at hu; cases hu), h.af, ?_, ?_⟩
    · show a.word.waiting = true ↔ a.queue ≠ []
      exact ⟨fun _ => List.ne_nil_of_mem hk, fun _ => h.wsp t hsp⟩
    · intro u sc hr; have := hnone u; rw [show setFn a.ro t _ u = _ from hr] at this; cases this
    · intro u f hr; have := hnone u; rw [show setFn a.ro t _ u = _ from hr] at this; cases this
  | loopWait t c k hro hw hwt =>
    exact ahint_frame h rfl h.af rfl rfl (frame_spin rfl) (frame_scan rfl) (frame_fin rfl) (fun _ => rfl)
  | loopWoken t c k hro hw hwt =>
    exact ahint_frame h rfl h.af rfl rfl (frame_spin rfl) (frame_scan rfl) (frame_fin rfl) (fun _ => rfl)
  | pRet t c k hro hw hsem =>
    refine ahint_frame h rfl h.af rfl rfl (frame_spin rfl) (frame_scan rfl) (frame_fin rfl) (fun k' => ?_)
    show (setFn a.wr k _ k').lType = _
    simp only [setFn]; split
    · rename_i e; subst e; rfl
    · rfl
  | release t l hro hts hsh hc =>
    refine ahint_frame h ?_ ?_ (by simp) (by simp) (fun u hu => by simpa using hu)
      (fun u sc hr => by simpa using hr) (fun u f hr => by simpa using hr) (fun k => by simp)
    · cases l <;> simp [relUncWord]
    · cases l <;> simp [relUncWord, h.af]
  | grab t l hro hts hsh hu hsp =>
    have hwt := uncontended_false_waiting hu
    have hspn : a.sp = none := by
      cases hx : a.sp with
      | none => rfl
      | some u => have := hs.bit; rw [hx, hsp] at this; cases this
    have hne : a.queue ≠ [] := (h.wq hspn).1 hwt
    have hX : AHint (({ a with word := grabWord l a.word, sp := some t } : AState).subShare t l) := by
      refine ⟨(fun hn => by simp at hn), fun _ _ => ?_, ?_, ?_, ?_⟩
      · simp [grabWord]; cases l <;> simpa [subWord] using hwt
      · simp [grabWord]; cases l <;> simpa [subWord] using h.af
      · intro u sc hr
        have := hs.no_spin_of_free hsp u; simp only [AState.subShare_ro] at hr; rw [hr] at this; cases this
      · intro u f hr
        have := hs.no_spin_of_free hsp u; simp only [AState.subShare_ro] at hr; rw [hr] at this; cases this
    have hXq : AQueue (({ a with word := grabWord l a.word, sp := some t } : AState).subShare t l) :=
      hq.of_eq (by simp) (by simp) (by simp)
    refine ahint_advance hXq hX (by simp) ?_ (fun u _ => by simp only [AState.subShare_ro]; exact hs.no_spin_of_free hsp u)
      (Or.inr ⟨rfl, by simpa [scan0] using hne⟩) (fun hw => absurd rfl hw) ⟨[], by simp [scan0], fun _ => rfl, fun hs => by cases hs⟩
    simp [grabWord]; cases l <;> simpa [subWord] using hwt
  | rcDone t sc hro =>
    have hsp : (a.ro t).spin = true := by rw [hro]; rfl
    obtain ⟨e1, e2, pre, e3, e4, e5⟩ := h.scanq t sc hro
    refine ahint_advance hq h ((hs.own t).2 hsp) (h.wsp t hsp) ?_ (Or.inl e1) (fun _ => e2) ⟨pre, e3, e4, e5⟩
    intro u hu
    cases hx : (a.ro u).spin with
    | false => rfl
    | true => exact absurd (hs.unique hsp hx) hu
  | finish t f hro =>
    have hsp : (a.ro t).spin = true := by rw [hro]; rfl
    have hnone : ∀ u, (setFn a.ro t (roleAfter f.wake) u).spin = false := by
      intro u; simp only [setFn]; split
      · exact roleAfter_spin _
      · rename_i hu
        cases hx : (a.ro u).spin with
        | false => rfl
        | true => exact absurd (hs.unique hsp hx) hu
    obtain ⟨e1, e2, e3, e4, e5⟩ := h.finq t f hro
    refine ⟨fun _ => ?_, (fun u hu => by rw [hnone u] at hu; cases hu), ?_, ?_, ?_⟩
    · show (finWord f a.word).waiting = true ↔ a.queue ≠ []
      simp only [finWord, h.wsp t hsp, e3, Bool.true_and, Bool.not_eq_true', ne_eq]
      cases hx : a.queue <;> simp
    · show (finWord f a.word).af = false
      simp only [finWord, h.af, Bool.false_or]
      cases hsaf : f.saf with
      | false => simp
      | true => simp [e4 hsaf]
    · intro u sc hr; have := hnone u; rw [show setFn a.ro t _ u = _ from hr] at this; cases this
    · intro u f' hr; have := hnone u; rw [show setFn a.ro t _ u = _ from hr] at this; cases this
  | wakeStore t k r hro =>
    refine ahint_frame h rfl h.af rfl rfl (frame_spin rfl) (frame_scan rfl) (frame_fin rfl) (fun k' => ?_)
    show (setFn a.wr k _ k').lType = _
    simp only [setFn]; split
    · rename_i e; subst e; rfl
    · rfl
  | post t k r hro =>
    exact ahint_frame h rfl h.af rfl rfl (frame_spin (roleAfter_spin r)) (frame_scan (roleAfter_spin r))
      (frame_fin (roleAfter_spin r)) (fun k' => (semPost_fields cfg _ k k').2.2)
  | envV k =>
    exact ahint_frame h rfl h.af rfl rfl (fun _ hu => hu) (fun _ _ hr => hr) (fun _ _ hr => hr)
      (fun k' => (semPost_fields cfg _ k k').2.2)
  | envSem k n ho =>
    refine ahint_frame h rfl h.af rfl rfl (fun _ hu => hu) (fun _ _ hr => hr) (fun _ _ hr => hr) (fun k' => ?_)
    show (setFn a.wr k _ k').lType = _
    simp only [setFn]; split
    · rename_i e; subst e; rfl
    · rfl

theorem ahint_init : AHint (abs init) := by
  refine ⟨?_, ?_, ?_, ?_, ?_⟩ <;> simp [abs, init, role, Role.spin, Word.zero]

end NsyncVerif.MuQ
