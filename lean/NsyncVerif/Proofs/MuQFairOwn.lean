import NsyncVerif.Proofs.MuQSolo
/-
  MuQ, fair termination (C02): the transition table.

  `Own cfg s t b s'`: thread `t` can take `s` to `s'` by one event of its own; `b` = the event is a
  FAILED CAS on `remove_count`.  One constructor per (program point, outcome); the successor state
  is given explicitly, so that every single-step fact needed by the fairness argument is a
  `cases` on this table followed by `simp`.
  `step_own`: every accepted event of thread `t` is one row of the table.
  `step_env`: the two environment events.
-/
namespace NsyncVerif.MuQ

inductive Own (cfg : Cfg) (s : State) (t : Tid) : Bool → State → Prop
  -- API boundary
  | callAcq (l : Mode) : s.pc t = .idle → s.held t = none → Own cfg s t false (setPc s t (.lkCas0 l))
  | callTry (l : Mode) : s.pc t = .idle → s.held t = none → Own cfg s t false (setPc s t (.tryCas0 l))
  | callRel (l : Mode) : s.pc t = .idle → s.held t = some l →
      Own cfg s t false { setPc s t (.ulCas0 l) with held := setFn s.held t none }
  | retAcq (l : Mode) : s.pc t = .lkRet l →
      Own cfg s t false { setPc s t .idle with held := setFn s.held t (some l) }
  | retTryT (l : Mode) : s.pc t = .tryRet l true →
      Own cfg s t false { setPc s t .idle with held := setFn s.held t (some l) }
  | retTryF (l : Mode) : s.pc t = .tryRet l false →
      Own cfg s t false { setPc s t .idle with held := setFn s.held t none }
  | retRel (l : Mode) : s.pc t = .ulRet l → Own cfg s t false (setPc s t .idle)
  -- loads
  | lkLdB (l : Mode) : s.pc t = .lkLd l → blocked l false s.word = true →
      Own cfg s t false (setPc s t (.lsLd (SL.entry l)))
  | lkLdF (l : Mode) : s.pc t = .lkLd l → blocked l false s.word = false →
      Own cfg s t false (setPc s t (.lkCas1 l s.word))
  | tryLdB (l : Mode) : s.pc t = .tryLd l → blocked l false s.word = true →
      Own cfg s t false (setPc s t (.tryRet l false))
  | tryLdF (l : Mode) : s.pc t = .tryLd l → blocked l false s.word = false →
      Own cfg s t false (setPc s t (.tryCas1 l s.word))
  | lsLdAcq (c : SL) : s.pc t = .lsLd c → blocked c.l c.ign s.word = false →
      Own cfg s t false (setPc s t (.lsCasAcq c s.word))
  | lsLdEnq (c : SL) : s.pc t = .lsLd c → blocked c.l c.ign s.word = true → s.word.spin = false →
      Own cfg s t false (setPc s t (.lsCasEnq c s.word))
  | lsLdSpin (c : SL) : s.pc t = .lsLd c → blocked c.l c.ign s.word = true → s.word.spin = true →
      Own cfg s t false (setPc s t (.lsLd c))
  | lsRelLd (c : SL) : s.pc t = .lsRelLd c → Own cfg s t false (setPc s t (.lsRelCas c s.word))
  | lsWaitLdT (c : SL) (k : Wid) : s.pc t = .lsWaitLd c → c.w = some k → (s.wr k).waiting = true →
      Own cfg s t false (setPc s t (.lsPEnter c))
  | lsWaitLdF (c : SL) (k : Wid) : s.pc t = .lsWaitLd c → c.w = some k → (s.wr k).waiting = false →
      Own cfg s t false (setPc s t (.lsLd c.woken))
  | ulLdSlow (l : Mode) : s.pc t = .ulLd l → Own cfg s t false (setPc s t (.usLd l))
  | ulLdFast (l : Mode) : s.pc t = .ulLd l → Own cfg s t false (setPc s t (.ulCas1 l s.word))
  | usLdUnc (l : Mode) : s.pc t = .usLd l → uncontended s.word = true →
      Own cfg s t false (setPc s t (.usCasUnc l s.word))
  | usLdGrab (l : Mode) : s.pc t = .usLd l → uncontended s.word = false → s.word.spin = false →
      Own cfg s t false (setPc s t (.usCasGrab l s.word))
  | usLdSpin (l : Mode) : s.pc t = .usLd l → uncontended s.word = false → s.word.spin = true →
      Own cfg s t false (setPc s t (.usLd l))
  | usRcLd (l : Mode) (sc : Scan) (k : Wid) (obs : Nat) : s.pc t = .usRcLd l sc k →
      Own cfg s t false (setPc s t (.usRcCas l sc k obs))
  | usFinLd (l : Mode) (f : Fin) : s.pc t = .usFinLd l f →
      Own cfg s t false (setPc s t (.usFinCas l f s.word))
  -- stores
  | lsStAdopt (c : SL) (k : Wid) : s.pc t = .lsSt c → c.w = none →
      Own cfg s t false
        { setPc s t (.lsRelLd { c with w := some k }) with
          queue := (if c.wc = 0 then s.queue ++ [k] else k :: s.queue),
          wr := setFn s.wr k { s.wr k with owner := some t, waiting := true, lType := c.l } }
  | lsStRequeue (c : SL) (k : Wid) : s.pc t = .lsSt c → c.w = some k →
      Own cfg s t false
        { setPc s t (.lsRelLd c) with
          queue := (if c.wc = 0 then s.queue ++ [k] else k :: s.queue),
          wr := setFn s.wr k { s.wr k with waiting := true } }
  | usWakeSt (l : Mode) (k : Wid) (r : List Wid) : s.pc t = .usWakeSt l k r →
      Own cfg s t false
        { setPc s t (.usWakeV l k r) with wr := setFn s.wr k { s.wr k with waiting := false } }
  -- CASes on the word
  | lkCas0Ok (l : Mode) : s.pc t = .lkCas0 l → s.word = Word.zero →
      Own cfg s t false (addShare { setPc s t (.lkRet l) with word := addWord l } t l)
  | lkCas0Fail (l : Mode) : s.pc t = .lkCas0 l → s.word ≠ Word.zero →
      Own cfg s t false (setPc s t (.lkLd l))
  | lkCas1Ok (l : Mode) (old : Word) : s.pc t = .lkCas1 l old → s.word = old →
      Own cfg s t false (addShare { setPc s t (.lkRet l) with word := acqWord l false false old } t l)
  | lkCas1Fail (l : Mode) (old : Word) : s.pc t = .lkCas1 l old → s.word ≠ old →
      Own cfg s t false (setPc s t (.lsLd (SL.entry l)))
  | tryCas0Ok (l : Mode) : s.pc t = .tryCas0 l → s.word = Word.zero →
      Own cfg s t false (addShare { setPc s t (.tryRet l true) with word := addWord l } t l)
  | tryCas0Fail (l : Mode) : s.pc t = .tryCas0 l → s.word ≠ Word.zero →
      Own cfg s t false (setPc s t (.tryLd l))
  | tryCas1Ok (l : Mode) (old : Word) : s.pc t = .tryCas1 l old → s.word = old →
      Own cfg s t false (addShare { setPc s t (.tryRet l true) with word := acqWord l false false old } t l)
  | tryCas1Fail (l : Mode) (old : Word) : s.pc t = .tryCas1 l old → s.word ≠ old →
      Own cfg s t false (setPc s t (.tryRet l false))
  | lsCasAcqOk (c : SL) (old : Word) : s.pc t = .lsCasAcq c old → s.word = old →
      Own cfg s t false
        (addShare (dropW { setPc s t (.lkRet c.l) with word := acqWord c.l c.clear c.lwl old } c.w) t c.l)
  | lsCasAcqFail (c : SL) (old : Word) : s.pc t = .lsCasAcq c old → s.word ≠ old →
      Own cfg s t false (setPc s t (.lsLd c))
  | lsCasEnqOk (c : SL) (old : Word) : s.pc t = .lsCasEnq c old → s.word = old →
      Own cfg s t false { setPc s t (.lsSt c) with word := enqWord c.l c.clear c.lwl old, sp := some t }
  | lsCasEnqFail (c : SL) (old : Word) : s.pc t = .lsCasEnq c old → s.word ≠ old →
      Own cfg s t false (setPc s t (.lsLd c))
  | lsRelCasOk (c : SL) (old : Word) : s.pc t = .lsRelCas c old → s.word = old →
      Own cfg s t false { setPc s t (.lsWaitLd c) with word := { old with spin := false }, sp := none }
  | lsRelCasFail (c : SL) (old : Word) : s.pc t = .lsRelCas c old → s.word ≠ old →
      Own cfg s t false (setPc s t (.lsRelLd c))
  | ulCas0Ok (l : Mode) : s.pc t = .ulCas0 l → s.word = addWord l →
      Own cfg s t false (subShare { setPc s t (.ulRet l) with word := Word.zero } t l)
  | ulCas0Fail (l : Mode) : s.pc t = .ulCas0 l → s.word ≠ addWord l →
      Own cfg s t false (setPc s t (.ulLd l))
  | ulCas1Ok (l : Mode) (old : Word) : s.pc t = .ulCas1 l old → s.word = old →
      Own cfg s t false (subShare { setPc s t (.ulRet l) with word := relUncWord l old } t l)
  | ulCas1Fail (l : Mode) (old : Word) : s.pc t = .ulCas1 l old → s.word ≠ old →
      Own cfg s t false (setPc s t (.usLd l))
  | usCasUncOk (l : Mode) (old : Word) : s.pc t = .usCasUnc l old → s.word = old →
      Own cfg s t false (subShare { setPc s t (.ulRet l) with word := relUncWord l old } t l)
  | usCasUncFail (l : Mode) (old : Word) : s.pc t = .usCasUnc l old → s.word ≠ old →
      Own cfg s t false (setPc s t (.usLd l))
  | usCasGrabOk (l : Mode) (old : Word) : s.pc t = .usCasGrab l old → s.word = old →
      Own cfg s t false
        (scanAdvance (subShare { s with word := grabWord l old, sp := some t } t l) t l
          { wake := [], todo := s.queue, wt := none, sww := false, saf := true })
  | usCasGrabFail (l : Mode) (old : Word) : s.pc t = .usCasGrab l old → s.word ≠ old →
      Own cfg s t false (setPc s t (.usLd l))
  | usFinCasOk (l : Mode) (f : Fin) (old : Word) : s.pc t = .usFinCas l f old → s.word = old →
      Own cfg s t false (afterFin { s with word := finWord f old, sp := none } t l f.wake)
  | usFinCasFail (l : Mode) (f : Fin) (old : Word) : s.pc t = .usFinCas l f old → s.word ≠ old →
      Own cfg s t false (setPc s t (.usFinLd l f))
  -- CAS on remove_count
  | usRcCasOk (l : Mode) (sc : Scan) (k : Wid) (old : Nat) : s.pc t = .usRcCas l sc k old →
      Own cfg s t false (scanAdvance s t l sc)
  | usRcCasFail (l : Mode) (sc : Scan) (k : Wid) (old : Nat) : s.pc t = .usRcCas l sc k old →
      Own cfg s t true (setPc s t (.usRcLd l sc k))
  -- semaphore
  | pEnter (c : SL) : s.pc t = .lsPEnter c → Own cfg s t false (setPc s t (.lsPRet c))
  | pRet (c : SL) (k : Wid) : s.pc t = .lsPRet c → c.w = some k → (s.wr k).sem ≠ 0 →
      Own cfg s t false
        { setPc s t (.lsWaitLd c) with
          wr := setFn s.wr k { s.wr k with sem := if cfg.binary then 0 else (s.wr k).sem - 1 } }
  | semV (l : Mode) (k : Wid) (r : List Wid) : s.pc t = .usWakeV l k r →
      Own cfg s t false (semPost cfg (afterFin s t l r) k)

theorem step_own_call {cfg : Cfg} {s s' : State} {t : Tid} {a : Api}
    (h : stepCall s t a = .ok s') : Own cfg s t false s' := by
  unfold stepCall at h
  cases hp : s.pc t <;> simp only [hp] at h <;> try (cases h; done)
  cases a <;> simp only at h <;> split at h <;> try (cases h; done)
  all_goals rename_i hh
  all_goals cases h
  · exact .callAcq .W hp hh
  · exact .callAcq .R hp hh
  · exact .callTry .W hp hh
  · exact .callTry .R hp hh
  · exact .callRel .W hp hh
  · exact .callRel .R hp hh

theorem step_own_ret {cfg : Cfg} {s s' : State} {t : Tid} {a : Api} {res : Option Bool}
    (h : stepRet s t a res = .ok s') : Own cfg s t false s' := by
  unfold stepRet at h
  split at h <;> try (cases h; done)
  all_goals rename_i hp
  all_goals try (split at h <;> try (cases h; done))
  all_goals cases h
  · exact .retAcq .W hp
  · exact .retAcq .R hp
  · rename_i r _ _; cases r
    · exact .retTryF .W hp
    · exact .retTryT .W hp
  · rename_i r _ _; cases r
    · exact .retTryF .R hp
    · exact .retTryT .R hp
  · exact .retRel .W hp
  · exact .retRel .R hp

theorem step_own_ld {cfg : Cfg} {s s' : State} {t : Tid} {o : Ord} {loc : Loc} {obs : Nat}
    (h : stepLd s t o loc obs = .ok s') : Own cfg s t false s' := by
  unfold stepLd at h
  cases hp : s.pc t <;> simp only [hp] at h <;> try (cases h; done)
  case lkLd l =>
    have := ldWord_ok h; subst this
    split
    · rename_i hb; exact .lkLdB l hp hb
    · rename_i hb; exact .lkLdF l hp (by simpa using hb)
  case tryLd l =>
    have := ldWord_ok h; subst this
    split
    · rename_i hb; exact .tryLdB l hp hb
    · rename_i hb; exact .tryLdF l hp (by simpa using hb)
  case lsLd c =>
    have := ldWord_ok h; subst this
    split
    · rename_i hb; exact .lsLdAcq c hp (by simpa using hb)
    · rename_i hb
      split
      · rename_i hs; exact .lsLdEnq c hp (by simpa using hb) (by simpa using hs)
      · rename_i hs; exact .lsLdSpin c hp (by simpa using hb) (by simpa using hs)
  case lsRelLd c =>
    have := ldWord_ok h; subst this
    exact .lsRelLd c hp
  case lsWaitLd c =>
    split at h <;> try (cases h; done)
    rename_i k hw
    repeat' split at h
    all_goals first | (cases h; done) | skip
    · rename_i hwt; cases h; exact .lsWaitLdT c k hp hw hwt
    · rename_i hwt; cases h; exact .lsWaitLdF c k hp hw (by simpa using hwt)
  case ulLd l =>
    cases l <;> simp only at h <;> split at h <;> try (cases h; done)
    all_goals (have := ldWord_ok h; subst this; split)
    · exact .ulLdSlow .W hp
    · exact .ulLdFast .W hp
    · exact .ulLdSlow .R hp
    · exact .ulLdFast .R hp
  case usLd l =>
    split at h <;> try (cases h; done)
    have := ldWord_ok h; subst this
    split
    · rename_i hb; exact .usLdUnc l hp hb
    · rename_i hb
      split
      · rename_i hs; exact .usLdGrab l hp (by simpa using hb) (by simpa using hs)
      · rename_i hs; exact .usLdSpin l hp (by simpa using hb) (by simpa using hs)
  case usRcLd l sc k =>
    repeat' split at h
    all_goals first | (cases h; done) | skip
    cases h; exact .usRcLd l sc k obs hp
  case usFinLd l f =>
    have := ldWord_ok h; subst this
    exact .usFinLd l f hp

theorem step_own_st {cfg : Cfg} {s s' : State} {t : Tid} {o : Ord} {loc : Loc} {new obs : Nat}
    (h : stepSt s t o loc new obs = .ok s') : Own cfg s t false s' := by
  unfold stepSt at h
  cases hp : s.pc t <;> simp only [hp] at h <;> try (cases h; done)
  case lsSt c =>
    cases loc <;> simp only at h <;> try (cases h; done)
    rename_i k
    split at h; · cases h
    split at h; · cases h
    split at h; · cases h
    split at h; · cases h
    cases hw : c.w with
    | none =>
      simp only [hw] at h
      split at h; · cases h
      split at h; · cases h
      cases h; exact .lsStAdopt c k hp hw
    | some k' =>
      simp only [hw] at h
      split at h; · cases h
      rename_i hk; simp only [ne_eq, Decidable.not_not] at hk; subst hk
      cases h; exact .lsStRequeue c k hp hw
  case usWakeSt l k r =>
    repeat' split at h
    all_goals first | (cases h; done) | skip
    cases h; exact .usWakeSt l k r hp

theorem rcFail_word (t : Tid) (o : Ord) (exp new obs : Nat) (ok : Bool) :
    (Event.cas t o .word exp new obs ok).rcFail = false := by cases ok <;> rfl

theorem step_own_cas {cfg : Cfg} {s s' : State} {t : Tid} {o : Ord} {loc : Loc} {exp new obs : Nat} {ok : Bool}
    (h : stepCas s t o loc exp new obs ok = .ok s') :
    Own cfg s t (Event.cas t o loc exp new obs ok).rcFail s' := by
  unfold stepCas at h
  cases hp : s.pc t <;> simp only [hp] at h <;> try (cases h; done)
  case usRcCas l sc k old =>
    repeat' split at h
    all_goals first | (cases h; done) | skip
    · rename_i hl _ _ _ hok; cases h
      simp only [ne_eq, Decidable.not_not] at hl; subst hl
      subst hok
      exact .usRcCasOk l sc k old hp
    · rename_i hl _ _ _ hok; cases h
      simp only [ne_eq, Decidable.not_not] at hl; subst hl
      have : ok = false := by cases ok <;> simp_all
      subst this
      exact .usRcCasFail l sc k old hp
  all_goals
    have hloc := (casWord_loc h).1; subst hloc
    rw [rcFail_word]
    rcases casWord_ok h with ⟨hw, _, rfl⟩ | ⟨hw, _, rfl⟩
  · exact .lkCas0Ok _ hp hw
  · exact .lkCas0Fail _ hp hw
  · exact .lkCas1Ok _ _ hp hw
  · exact .lkCas1Fail _ _ hp hw
  · exact .tryCas0Ok _ hp hw
  · exact .tryCas0Fail _ hp hw
  · exact .tryCas1Ok _ _ hp hw
  · exact .tryCas1Fail _ _ hp hw
  · exact .lsCasAcqOk _ _ hp hw
  · exact .lsCasAcqFail _ _ hp hw
  · exact .lsCasEnqOk _ _ hp hw
  · exact .lsCasEnqFail _ _ hp hw
  · exact .lsRelCasOk _ _ hp hw
  · exact .lsRelCasFail _ _ hp hw
  · exact .ulCas0Ok _ hp hw
  · exact .ulCas0Fail _ hp hw
  · exact .ulCas1Ok _ _ hp hw
  · exact .ulCas1Fail _ _ hp hw
  · exact .usCasUncOk _ _ hp hw
  · exact .usCasUncFail _ _ hp hw
  · exact .usCasGrabOk _ _ hp hw
  · exact .usCasGrabFail _ _ hp hw
  · exact .usFinCasOk _ _ _ hp hw
  · exact .usFinCasFail _ _ _ hp hw

/-- Every accepted event of thread `t` is one row of the table. -/
theorem step_own {cfg : Cfg} {s s' : State} {e : Event} {t : Tid}
    (h : step cfg s e = .ok s') (he : e.tid = some t) : Own cfg s t e.rcFail s' := by
  cases e <;> simp only [Event.tid, Option.some.injEq, reduceCtorEq] at he
  all_goals subst he
  case call t a => exact step_own_call h
  case ret t a res => exact step_own_ret h
  case ld t o loc obs => exact step_own_ld h
  case st t o loc new obs => exact step_own_st h
  case cas t o loc exp new obs ok => exact step_own_cas h
  case semPEnter t k =>
    simp only [step] at h
    cases hp : s.pc t <;> simp only [hp] at h <;> try (cases h; done)
    split at h <;> try (cases h; done)
    cases h; exact .pEnter _ hp
  case semPRet t k =>
    simp only [step] at h
    cases hp : s.pc t <;> simp only [hp] at h <;> try (cases h; done)
    split at h; · cases h
    split at h; · cases h
    rename_i c hw hs
    cases h
    exact .pRet c k hp (by simpa using hw) hs
  case semV t k =>
    simp only [step] at h
    cases hp : s.pc t <;> simp only [hp] at h <;> try (cases h; done)
    split at h <;> try (cases h; done)
    rename_i l k' r hk
    simp only [ne_eq, Decidable.not_not] at hk; subst hk
    cases h; exact .semV l k r hp

/-- The environment events. -/
theorem step_env {cfg : Cfg} {s s' : State} {e : Event}
    (h : step cfg s e = .ok s') (he : e.tid = none) :
    (∃ k, s' = semPost cfg s k) ∨
      (∃ k n, (s.wr k).owner = none ∧ s' = { s with wr := setFn s.wr k { s.wr k with sem := n } }) := by
  cases e <;> simp only [Event.tid, reduceCtorEq] at he
  case envV k => simp only [step] at h; cases h; exact Or.inl ⟨k, rfl⟩
  case envSem k n =>
    simp only [step] at h
    split at h <;> try (cases h; done)
    rename_i ho
    cases h; exact Or.inr ⟨k, n, ho, rfl⟩

end NsyncVerif.MuQ
