/-
  Layer `CvFix`, liveness: concrete executions.
  * `traceExec`  a finite accepted trace, then nothing for ever; criteria for the hypotheses for an
                 execution that ends quiescent;
  * `loopExec`   a lasso: a list of events that takes a state `s` back to `s`, for ever.
-/
import NsyncVerif.Proofs.CvFixFairList

namespace NsyncVerif.CvFix

theorem run_app_ok {cfg : Config} : ∀ (a b : List Event) (s s' : State),
    run cfg s (a ++ b) = .ok s' → ∃ s1, run cfg s a = .ok s1 ∧ run cfg s1 b = .ok s' := by
  intro a
  induction a with
  | nil => intro b s s' h; exact ⟨s, rfl, h⟩
  | cons e es ih =>
    intro b s s' h
    simp only [List.cons_append, run] at h ⊢
    cases hs : step cfg s e with
    | ok s1 => rw [hs] at h; exact ih b s1 s' h
    | error m => rw [hs] at h; cases h

theorem run_app {cfg : Config} : ∀ (a b : List Event) (s s1 : State),
    run cfg s a = .ok s1 → run cfg s (a ++ b) = run cfg s1 b := by
  intro a
  induction a with
  | nil => intro b s s1 h; simp only [run, Except.ok.injEq] at h; subst h; rfl
  | cons e es ih =>
    intro b s s1 h
    simp only [List.cons_append, run] at h ⊢
    cases hs : step cfg s e with
    | ok s2 => rw [hs] at h; exact ih b s2 s1 h
    | error m => rw [hs] at h; cases h

/-- The state after `evs` from `s` (`s` itself if the events are not accepted). -/
def stateFrom (cfg : Config) (s : State) (evs : List Event) : State :=
  match run cfg s evs with
  | .ok s' => s'
  | .error _ => s

theorem stateFrom_ok {cfg : Config} {s sf : State} {evs : List Event}
    (h : run cfg s evs = .ok sf) (i : Nat) :
    run cfg s (evs.take i) = .ok (stateFrom cfg s (evs.take i)) := by
  have : run cfg s (evs.take i ++ evs.drop i) = .ok sf := by rw [List.take_append_drop]; exact h
  obtain ⟨s1, h1, _⟩ := run_app_ok _ _ _ _ this
  simp only [stateFrom, h1]

theorem stateFrom_all {cfg : Config} {s sf : State} {evs : List Event}
    (h : run cfg s evs = .ok sf) {i : Nat} (hi : evs.length ≤ i) :
    stateFrom cfg s (evs.take i) = sf := by
  simp only [stateFrom, List.take_of_length_le hi, h]

theorem stateFrom_step {cfg : Config} {s sf : State} {evs : List Event}
    (h : run cfg s evs = .ok sf) {i : Nat} (hi : i < evs.length) :
    step cfg (stateFrom cfg s (evs.take i)) evs[i] =
      .ok (stateFrom cfg s (evs.take (i + 1))) := by
  have he : evs[i]? = some evs[i] := List.getElem?_eq_getElem hi
  have e : evs.take (i + 1) = evs.take i ++ [evs[i]] := by rw [List.take_add_one, he]; rfl
  have h1 := stateFrom_ok h (i + 1)
  rw [e, run_app _ _ _ _ (stateFrom_ok h i)] at h1
  simp only [run] at h1
  rw [e]
  cases hs : step cfg (stateFrom cfg s (evs.take i)) evs[i] with
  | ok s2 => rw [hs] at h1; simp only [Except.ok.injEq] at h1; rw [h1]
  | error m => rw [hs] at h1; cases h1

/-- A finite accepted trace from `s`, then nothing for ever. -/
def traceExec (cfg : Config) (s : State) (evs : List Event) (sf : State)
    (h : run cfg s evs = .ok sf) : Exec cfg s :=
  { ρ := fun i => stateFrom cfg s (evs.take i)
    σ := fun i => evs[i]?
    start := by simp [stateFrom, run]
    next := by
      intro i
      cases he : evs[i]? with
      | none =>
        have hi : evs.length ≤ i := by simpa using he
        show stateFrom cfg s (evs.take (i + 1)) = stateFrom cfg s (evs.take i)
        rw [stateFrom_all h hi, stateFrom_all h (by omega)]
      | some e =>
        have hi : i < evs.length := by
          apply Classical.byContradiction; intro hn
          have : evs[i]? = none := by simp; omega
          rw [this] at he; cases he
        have : e = evs[i] := by
          rw [List.getElem?_eq_getElem hi] at he; exact (Option.some.inj he).symm
        subst this
        exact stateFrom_step h hi }

theorem traceExec_tail {cfg : Config} {s : State} {evs : List Event} {sf : State}
    (h : run cfg s evs = .ok sf) {j : Nat} (hj : evs.length ≤ j) :
    (traceExec cfg s evs sf h).ρ j = sf ∧ (traceExec cfg s evs sf h).σ j = none :=
  ⟨stateFrom_all h hj, by show evs[j]? = none; simpa using hj⟩

/-- Threads that do not occur in a trace are where they were. -/
theorem run_untouched {cfg : Config} {t : Tid} : ∀ (evs : List Event) (s s' : State),
    (∀ e ∈ evs, e.tid ≠ some t) → run cfg s evs = .ok s' → s'.thr t = s.thr t := by
  intro evs
  induction evs with
  | nil => intro s s' _ h; simp only [run, Except.ok.injEq] at h; subst h; rfl
  | cons e es ih =>
    intro s s' hne h
    simp only [run] at h
    cases hs : step cfg s e with
    | error m => rw [hs] at h; cases h
    | ok s1 =>
      rw [hs] at h
      have a := ih s1 s' (fun e' he' => hne e' (by simp [he'])) h
      rw [a, tr_other (step_tr hs) (hne e (by simp))]

/-- All events of the list are events of threads `< n`. -/
def tidsBelow (n : Nat) (evs : List Event) : Bool :=
  evs.all fun e => match e.tid with | some t => decide (t < n) | none => true

theorem tidsBelow_ne {n : Nat} {evs : List Event} (h : tidsBelow n evs = true) {t : Tid}
    (ht : n ≤ t) : ∀ e ∈ evs, e.tid ≠ some t := by
  intro e he hte
  have := List.all_eq_true.1 h e he
  have h2 : decide (t < n) = true := by simpa [hte] using this
  have h3 : t < n := of_decide_eq_true h2
  exact absurd h3 (Nat.not_lt.2 ht)

variable {cfg : Config} {s0 : State}

/-- An execution that is quiescent from time `N` on (every thread outside every call) satisfies
    `WeakFair`, `SpinFair`, `MuRelFair`. -/
theorem hyps_of_quiescent (x : Exec cfg s0) (hr : Reachable cfg s0) (N : Nat)
    (hN : ∀ j, N ≤ j → ∀ t, ((x.ρ j).thr t).loc = .idle) : Hyps x := by
  refine ⟨hr, ?_, ?_, ?_⟩
  · intro t i h
    exact absurd (hN (max i N) (by omega) t) (h (max i N) (by omega)).1
  · intro t i h _
    have := h (max i N) (by omega)
    rw [hN (max i N) (by omega) t] at this; cases this
  · intro t i h
    have := h (max i N) (by omega)
    rw [hN (max i N) (by omega) t] at this; cases this

/-! ### a lasso without a stem -/

/-- `loop` takes `s` back to `s`: repeat it for ever. -/
def loopExec (cfg : Config) (s : State) (loop : List Event)
    (hl : run cfg s loop = .ok s) (hp : 0 < loop.length) : Exec cfg s :=
  { ρ := fun i => stateFrom cfg s (loop.take (i % loop.length))
    σ := fun i => loop[i % loop.length]?
    start := by simp [stateFrom, run]
    next := by
      intro i
      have hsf0 : stateFrom cfg s (loop.take 0) = s := by simp [stateFrom, run]
      have hr : i % loop.length < loop.length := Nat.mod_lt _ hp
      have he : loop[i % loop.length]? = some loop[i % loop.length] :=
        List.getElem?_eq_getElem hr
      simp only [he]
      have hs := stateFrom_step hl hr
      by_cases hwrap : i % loop.length + 1 = loop.length
      · have : (i + 1) % loop.length = 0 := by
          rw [Nat.add_mod]
          have : i % loop.length = loop.length - 1 := by omega
          rw [this]
          by_cases h1 : loop.length = 1
          · rw [h1]
          · rw [Nat.mod_eq_of_lt (show 1 < loop.length by omega)]
            rw [show loop.length - 1 + 1 = loop.length by omega, Nat.mod_self]
        rw [this, hsf0]
        rw [hwrap, stateFrom_all hl (Nat.le_refl _)] at hs
        exact hs
      · have : (i + 1) % loop.length = i % loop.length + 1 := by
          rw [Nat.add_mod]
          by_cases h1 : loop.length = 1
          · omega
          · rw [Nat.mod_eq_of_lt (show 1 < loop.length by omega)]
            exact Nat.mod_eq_of_lt (by omega)
        rw [this]; exact hs }

theorem loopExec_at {cfg : Config} {s : State} {loop : List Event}
    (hl : run cfg s loop = .ok s) (hp : 0 < loop.length) (j : Nat) :
    (loopExec cfg s loop hl hp).ρ j = stateFrom cfg s (loop.take (j % loop.length)) ∧
    (loopExec cfg s loop hl hp).σ j = loop[j % loop.length]? := ⟨rfl, rfl⟩

/-- Threads that do not occur in the loop are where they were, at all times. -/
theorem loopExec_untouched {cfg : Config} {s : State} {loop : List Event}
    (hl : run cfg s loop = .ok s) (hp : 0 < loop.length) {t : Tid}
    (hne : ∀ e ∈ loop, e.tid ≠ some t) (j : Nat) :
    ((loopExec cfg s loop hl hp).ρ j).thr t = s.thr t := by
  show (stateFrom cfg s (loop.take (j % loop.length))).thr t = s.thr t
  exact run_untouched _ _ _ (fun e he => hne e (List.mem_of_mem_take he)) (stateFrom_ok hl _)

theorem State.ext' {a b : State} (h1 : a.word = b.word) (h2 : a.holder = b.holder)
    (h3 : a.queue = b.queue) (h4 : a.recs = b.recs) (h5 : a.thr = b.thr) (h6 : a.sem = b.sem)
    (h7 : a.now = b.now) (h8 : a.seq = b.seq) (h9 : a.bad = b.bad) : a = b := by
  cases a; cases b; simp_all

end NsyncVerif.CvFix
