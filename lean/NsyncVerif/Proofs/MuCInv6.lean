import NsyncVerif.Proofs.MuCInv5Reach
import NsyncVerif.Proofs.MuCChain2
/-
  MuC: the same_condition ring invariant (`Chain` on mu->waiters and on the private lists of an
  unlocker), together with what makes it inductive: every stored condition agrees with what its
  argument object denotes (`cargs`), and a record that is on no list is not linked.
-/
namespace NsyncVerif.MuC

structure Inv6 (s : State) : Prop where
  cq : Chain s.wr s.queue
  cs : ∀ u sc, (s.pc u).scan? = some sc → Chain s.wr sc.done ∧ Chain s.wr (sc.passed ++ sc.todo)
  off : ∀ k, (s.wr k).lnk = true → Queued s k
  cwr : ∀ k, CondOk s.cargs (s.wr k).cond
  cmw : ∀ t c, (s.pc t).mw = some c → CondOk s.cargs c.cond

theorem CeSound.of_cond {wr wr' : Wid → WRec} (hc : ∀ x, (wr' x).cond = (wr x).cond) (h : CeSound wr) : CeSound wr' := by
  intro a b e
  rw [hc a, hc b] at e ⊢
  exact h a b e

theorem ceSound_of_cwr {s : State} (h : ∀ k, CondOk s.cargs (s.wr k).cond) : CeSound s.wr :=
  fun a b e => condEq_sameSem (h a) (h b) e

theorem Inv6.ce {s : State} (h : Inv6 s) : CeSound s.wr := ceSound_of_cwr h.cwr

theorem CondOk.mono {cargs cargs' : Nat → Option (Nat × Int × Bool)} {c : Option Cond}
    (hm : ∀ j v, cargs j = some v → cargs' j = some v) (h : CondOk cargs c) : CondOk cargs' c :=
  fun cd hc => hm _ _ (h cd hc)

/-- A step of `t` that changes neither lists, links nor conditions; `cargs` may grow. -/
theorem Inv6.local' {s s' : State} (t : Tid) (h : Inv6 s) (hq : s'.queue = s.queue)
    (hwr : ∀ x, (s'.wr x).lnk = (s.wr x).lnk ∧ (s'.wr x).cond = (s.wr x).cond)
    (hca : ∀ j v, s.cargs j = some v → s'.cargs j = some v)
    (hpc : ∀ u, u ≠ t → s'.pc u = s.pc u)
    (hsc : (s'.pc t).scan? = (s.pc t).scan?)
    (hmw : ∀ c, (s'.pc t).mw = some c → CondOk s'.cargs c.cond) : Inv6 s' := by
  have hsc' : ∀ u, (s'.pc u).scan? = (s.pc u).scan? := by
    intro u; by_cases hu : u = t
    · subst hu; exact hsc
    · rw [hpc u hu]
  have hQ := queued_congr hq hsc'
  have hcg : ∀ l, Chain s.wr l → Chain s'.wr l := fun l hl => chain_congr (fun x _ => (hwr x).2) (fun x _ => (hwr x).1) hl
  refine ⟨?_, ?_, ?_, ?_, ?_⟩
  · rw [hq]; exact hcg _ h.cq
  · intro u sc hu
    rw [hsc'] at hu
    exact ⟨hcg _ (h.cs u sc hu).1, hcg _ (h.cs u sc hu).2⟩
  · intro k hk
    rw [(hwr k).1] at hk
    exact (hQ k).2 (h.off k hk)
  · intro k; rw [(hwr k).2]; exact (h.cwr k).mono hca
  · intro u c hc
    by_cases hu : u = t
    · subst hu; exact hmw c hc
    · rw [hpc u hu] at hc; exact (h.cmw u c hc).mono hca

/-- A step of `t` that changes neither lists, links, conditions nor `cargs`. -/
theorem Inv6.local {s s' : State} (t : Tid) (h : Inv6 s) (hq : s'.queue = s.queue)
    (hwr : ∀ x, (s'.wr x).lnk = (s.wr x).lnk ∧ (s'.wr x).cond = (s.wr x).cond)
    (hca : s'.cargs = s.cargs)
    (hpc : ∀ u, u ≠ t → s'.pc u = s.pc u)
    (hsc : (s'.pc t).scan? = (s.pc t).scan?)
    (hmw : ∀ c, (s'.pc t).mw = some c → ∃ c0, (s.pc t).mw = some c0 ∧ c.cond = c0.cond) : Inv6 s' := by
  refine Inv6.local' t h hq hwr (fun j v e => by rw [hca]; exact e) hpc hsc ?_
  intro c hc
  obtain ⟨c0, h0, e⟩ := hmw c hc
  rw [e, hca]; exact h.cmw t c0 h0

/-- A step that changes only semaphores / data / clock / the word. -/
theorem Inv6.env {s s' : State} (h : Inv6 s) (hq : s'.queue = s.queue)
    (hwr : ∀ x, (s'.wr x).lnk = (s.wr x).lnk ∧ (s'.wr x).cond = (s.wr x).cond)
    (hca : s'.cargs = s.cargs) (hpc : s'.pc = s.pc) : Inv6 s' := by
  have hQ : ∀ k, Queued s' k ↔ Queued s k := fun k => by simp only [Queued, hq, hpc]
  have hcg : ∀ l, Chain s.wr l → Chain s'.wr l := fun l hl => chain_congr (fun x _ => (hwr x).2) (fun x _ => (hwr x).1) hl
  refine ⟨?_, ?_, ?_, ?_, ?_⟩
  · rw [hq]; exact hcg _ h.cq
  · intro u sc hu
    rw [hpc] at hu
    exact ⟨hcg _ (h.cs u sc hu).1, hcg _ (h.cs u sc hu).2⟩
  · intro k hk
    rw [(hwr k).1] at hk
    exact (hQ k).2 (h.off k hk)
  · intro k; rw [(hwr k).2, hca]; exact h.cwr k
  · intro u c hc
    rw [hca]; rw [hpc] at hc; exact h.cmw u c hc

/-- steps that change neither the lists nor any link / condition -/
macro "inv6_local" t:ident h:ident heq:ident : tactic => `(tactic|
  (refine Inv6.local $t $h (by simp) ?_ (by simp) ?_ ?_ ?_
   · intro x; (simp [setFn]) <;> (try split) <;> simp_all
   · intro u hu; simp [setFn, hu]
   · rw [$heq:ident]; simp [setFn, PC.scan?, loopPc, finPc, Ret.pc] <;> (repeat' split) <;> simp [PC.scan?]
   · rw [$heq:ident]
     (simp_all [PC.mw, Ret.mw?, setFn, loopPc, finPc, Ret.pc, SL.entry, SL.fromWait, SL.woken]) <;> grind))

macro "ld_case6" t:ident h:ident heq:ident hs:ident : tactic => `(tactic|
  (try dsimp only at $hs:ident
   try simp only [ldWord, ldWaiting] at $hs:ident
   repeat' split at $hs:ident
   all_goals first
     | (cases $hs:ident; done)
     | (cases $hs:ident; inv6_local $t $h $heq)
     | (cases $hs:ident; split <;> inv6_local $t $h $heq)))

/-! ### removal of one record from one of the lists -/

theorem chain_removeLinks_other {s : State} {pred : Option Wid} {k : Wid} {next : Option Wid} {l : List Wid}
    (hk : k ∉ l) (hp : ∀ p, pred = some p → p ∉ l) (h : Chain s.wr l) : Chain (removeLinks s pred k next).wr l := by
  refine chain_congr (fun x _ => removeLinks_cond _ _ _ _ x) (fun x hx => ?_) h
  rw [removeLinks_wr_other _ _ _ _ x (fun e => hk (by rw [← e]; exact hx)) (fun e => hp x e hx)]

theorem chain_mergeLinks_other {s : State} {p n : Option Wid} {l : List Wid}
    (hp : ∀ a, p = some a → a ∉ l) (h : Chain s.wr l) : Chain (mergeLinks s p n).wr l := by
  refine chain_congr (fun x _ => mergeLinks_cond _ _ _ x) (fun x hx => ?_) h
  rw [mergeLinks_wr_other _ _ _ x (fun e => hp x e hx)]

/-- Remove `k` from the list `l1 ++ k :: l2`; `q` and `d` are the other lists. -/
theorem chains_remove {s : State} {q d l1 l2 : List Wid} {k : Wid} (hq : Chain s.wr q) (hd : Chain s.wr d)
    (hc : Chain s.wr (l1 ++ k :: l2)) (hnd : (q ++ (d ++ (l1 ++ k :: l2))).Nodup)
    (hoff : ∀ x, (s.wr x).lnk = true → x ∈ q ++ (d ++ (l1 ++ k :: l2))) (hce : CeSound s.wr) :
    Chain (removeLinks s l1.getLast? k l2.head?).wr q ∧ Chain (removeLinks s l1.getLast? k l2.head?).wr d ∧
    Chain (removeLinks s l1.getLast? k l2.head?).wr (l1 ++ l2) ∧
    (∀ x, ((removeLinks s l1.getLast? k l2.head?).wr x).lnk = true → x ∈ q ++ (d ++ (l1 ++ l2))) ∧
    ((removeLinks s l1.getLast? k l2.head?).wr k).lnk = false := by
  have h1 := List.nodup_append.mp hnd
  have h2 := List.nodup_append.mp h1.2.1
  have hl : (l1 ++ k :: l2).Nodup := h2.2.1
  have hkm : k ∈ l1 ++ k :: l2 := by simp
  have hpm : ∀ p, l1.getLast? = some p → p ∈ l1 ++ k :: l2 := fun p hp => List.mem_append_left _ (List.mem_of_getLast? hp)
  obtain ⟨c1, c2⟩ := chain_remove hl hc hce
  refine ⟨chain_removeLinks_other ?_ ?_ hq, chain_removeLinks_other ?_ ?_ hd, c1, ?_, c2⟩
  · intro e; exact h1.2.2 k e k (List.mem_append_right _ hkm) rfl
  · intro p hp e; exact h1.2.2 p e p (List.mem_append_right _ (hpm p hp)) rfl
  · intro e; exact h2.2.2 k e k hkm rfl
  · intro p hp e; exact h2.2.2 p e p (hpm p hp) rfl
  · intro x hx
    by_cases hxk : x = k
    · subst hxk; rw [c2] at hx; cases hx
    · by_cases hxp : l1.getLast? = some x
      · simp only [List.mem_append]; exact Or.inr (Or.inr (Or.inl (List.mem_of_getLast? hxp)))
      · rw [removeLinks_wr_other _ _ _ _ x hxk hxp] at hx
        have := hoff x hx
        simp only [List.mem_append, List.mem_cons] at this ⊢
        rcases this with a | a | a | a | a
        · exact Or.inl a
        · exact Or.inr (Or.inl a)
        · exact Or.inr (Or.inr (Or.inl a))
        · exact absurd a hxk
        · exact Or.inr (Or.inr (Or.inr a))

theorem inv6_init : Inv6 init := by
  refine ⟨?_, ?_, ?_, ?_, ?_⟩
  · simp [init, Chain]
  · intro u sc hu; simp [init, PC.scan?] at hu
  · intro k hk; simp [init] at hk
  · intro k cd hc; simp [init] at hc
  · intro t c hc; simp [init, PC.mw] at hc

end NsyncVerif.MuC
