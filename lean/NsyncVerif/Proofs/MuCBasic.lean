import NsyncVerif.Model.MuC
/-
  MuC: basic facts — encode/decode, inversion of the CAS/load helpers, function updates.
-/
namespace NsyncVerif.MuC

theorem b2n_le (b : Bool) : b2n b ≤ 1 := by cases b <;> simp [b2n]

theorem b2n_eq_one (b : Bool) : (b2n b == 1) = b := by cases b <;> simp [b2n]

theorem bit_of (n : Nat) (b : Bool) (h : n = b2n b) : (n == 1) = b := by
  subst h; exact b2n_eq_one b

theorem decode_encode (w : Word) : decode (encode w) = w := by
  obtain ⟨a, b, c, d, e, f, g, h, r⟩ := w
  have ha := b2n_le a; have hb := b2n_le b; have hc := b2n_le c; have hd := b2n_le d
  have he := b2n_le e; have hf := b2n_le f; have hg := b2n_le g; have hh := b2n_le h
  simp only [encode, decode, Word.mk.injEq]
  refine ⟨?_, ?_, ?_, ?_, ?_, ?_, ?_, ?_, ?_⟩
  · exact bit_of _ a (by omega)
  · exact bit_of _ b (by omega)
  · exact bit_of _ c (by omega)
  · exact bit_of _ d (by omega)
  · exact bit_of _ e (by omega)
  · exact bit_of _ f (by omega)
  · exact bit_of _ g (by omega)
  · exact bit_of _ h (by omega)
  · omega

theorem encode_inj {a b : Word} (h : encode a = encode b) : a = b := by
  rw [← decode_encode a, ← decode_encode b, h]

theorem encode_zero : encode Word.zero = 0 := by decide

end NsyncVerif.MuC

namespace NsyncVerif.MuC

@[simp] theorem setFn_same {α : Type} (f : Nat → α) (t : Nat) (v : α) : setFn f t v t = v := by simp [setFn]

theorem setFn_other {α : Type} (f : Nat → α) (t u : Nat) (v : α) (h : u ≠ t) : setFn f t v u = f u := by
  simp [setFn, h]

theorem setFn_apply {α : Type} (f : Nat → α) (t u : Nat) (v : α) : setFn f t v u = if u = t then v else f u := rfl

theorem setFn_self {α : Type} (f : Nat → α) (t : Nat) : setFn f t (f t) = f := by
  funext u; simp [setFn]; intro h; rw [h]

theorem casWord_ok {s : State} {o want : Ord} {loc : Loc} {exp new obs : Nat} {ok : Bool}
    {old nw : Word} {succ fail s' : State}
    (h : casWord s o want loc exp new obs ok old nw succ fail = .ok s') :
    (s.word = old ∧ ok = true ∧ s' = succ) ∨ (s.word ≠ old ∧ ok = false ∧ s' = fail) := by
  unfold casWord at h
  split at h; · cases h
  split at h; · cases h
  split at h; · cases h
  split at h; · cases h
  split at h; · cases h
  split at h; · cases h
  rename_i h1 h2 h3 h4 h5 h6
  simp only [Decidable.not_not] at h3 h5 h6
  simp only [Except.ok.injEq] at h
  subst h3 h5
  by_cases hw : s.word = old
  · left; subst hw; simp_all
  · right
    have : encode s.word ≠ encode old := fun e => hw (encode_inj e)
    simp_all

theorem casWord_loc {s : State} {o want : Ord} {loc : Loc} {exp new obs : Nat} {ok : Bool}
    {old nw : Word} {succ fail s' : State}
    (h : casWord s o want loc exp new obs ok old nw succ fail = .ok s') : loc = .word ∧ o = want := by
  unfold casWord at h
  split at h; · cases h
  split at h; · cases h
  rename_i h1 h2
  simp only [Decidable.not_not] at h1 h2
  exact ⟨h2, h1⟩

theorem ldWord_ok {s : State} {o : Ord} {loc : Loc} {obs : Nat} {next s' : State}
    (h : ldWord s o loc obs next = .ok s') : s' = next := by
  unfold ldWord at h
  split at h; · cases h
  split at h; · cases h
  split at h; · cases h
  simp_all

/-- `run` over an appended event. -/
theorem run_append (cfg : Cfg) (s : State) (evs : List Event) (e : Event) :
    run cfg s (evs ++ [e]) = (match run cfg s evs with | .ok s1 => step cfg s1 e | .error m => .error m) := by
  induction evs generalizing s with
  | nil => simp [run]; cases step cfg s e <;> rfl
  | cons x xs ih =>
    simp only [List.cons_append, run]
    cases step cfg s x with
    | ok s1 => exact ih s1
    | error m => rfl

theorem run_induction {cfg : Cfg} {P : State → Prop}
    (hstep : ∀ s e s', P s → step cfg s e = .ok s' → P s') :
    ∀ (evs : List Event) (s s' : State), P s → run cfg s evs = .ok s' → P s' := by
  intro evs
  induction evs with
  | nil => intro s s' hp h; simp [run] at h; cases h; exact hp
  | cons e es ih =>
    intro s s' hp h
    simp only [run] at h
    split at h
    · rename_i s1 hs1; exact ih s1 s' (hstep s e s1 hp hs1) h
    · cases h

theorem reachable_init (cfg : Cfg) : Reachable cfg init := ⟨[], rfl⟩

theorem reachable_step {cfg : Cfg} {s s' : State} {e : Event} (h : Reachable cfg s)
    (hs : step cfg s e = .ok s') : Reachable cfg s' := by
  obtain ⟨evs, h⟩ := h
  refine ⟨evs ++ [e], ?_⟩
  rw [run_append, h]; exact hs

/-- Induction principle for reachable states. -/
theorem reachable_induction {cfg : Cfg} {P : State → Prop} (h0 : P init)
    (hstep : ∀ s e s', Reachable cfg s → P s → step cfg s e = .ok s' → P s') :
    ∀ s, Reachable cfg s → P s := by
  intro s ⟨evs, h⟩
  have := run_induction (cfg := cfg) (P := fun s => Reachable cfg s ∧ P s)
    (fun s e s' hp hs => ⟨reachable_step hp.1 hs, hstep s e s' hp.1 hp.2 hs⟩) evs init s ⟨reachable_init cfg, h0⟩ h
  exact this.2

end NsyncVerif.MuC

namespace NsyncVerif.MuC

theorem casWordE_ok {s : State} {o want : Ord} {loc : Loc} {exp new obs : Nat} {ok : Bool}
    {old nw : Word} {succ : Except String State} {fail s' : State}
    (h : casWordE s o want loc exp new obs ok old nw succ fail = .ok s') :
    (s.word = old ∧ ok = true ∧ succ = .ok s') ∨ (s.word ≠ old ∧ ok = false ∧ s' = fail) := by
  unfold casWordE at h
  split at h; · cases h
  split at h; · cases h
  split at h; · cases h
  split at h; · cases h
  split at h; · cases h
  split at h; · cases h
  rename_i h1 h2 h3 h4 h5 h6
  simp only [Decidable.not_not] at h3 h5 h6
  subst h3 h5
  by_cases hw : s.word = old
  · left; subst hw; simp_all
  · right
    have : encode s.word ≠ encode old := fun e => hw (encode_inj e)
    simp_all

theorem ldWaiting_ok {s : State} {want : Ord} {k : Wid} {o : Ord} {loc : Loc} {obs : Nat} {next s' : State}
    (h : ldWaiting s want k o loc obs next = .ok s') : s' = next ∧ loc = .waiting k ∧ o = want := by
  unfold ldWaiting at h
  split at h; · cases h
  split at h; · cases h
  split at h; · cases h
  rename_i h1 h2 h3
  simp only [Decidable.not_not] at h1 h2
  simp_all

end NsyncVerif.MuC
