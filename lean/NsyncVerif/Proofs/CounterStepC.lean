/- Proofs/CounterStepC.lean — invariant preservation, one lemma per program point (generated, uniform script). -/
import NsyncVerif.Proofs.CounterStepBase

namespace Counter

variable {s s' : State} {t : Tid} {e : Ev}

theorem inv_w0Store {dl} (hi : Inv s) (hpc : s.pc t = .w0Store dl) (h : stepThr s t e = .ok s') : Inv s' := by
  step_open
  all_goals first | (show ShInv _; shinv_tac) | (show pcInv _ _ _; pcinv_tac) | (show ∀ u, _; rely_tac)

theorem inv_w0Load {dl} (hi : Inv s) (hpc : s.pc t = .w0Load dl) (h : stepThr s t e = .ok s') : Inv s' := by
  step_open
  all_goals first | (show ShInv _; shinv_tac) | (show pcInv _ _ _; pcinv_tac) | (show ∀ u, _; rely_tac)

theorem inv_wInit {dl} (hi : Inv s) (hpc : s.pc t = .wInit dl) (h : stepThr s t e = .ok s') : Inv s' := by
  step_open
  all_goals first | (show ShInv _; shinv_tac) | (show pcInv _ _ _; pcinv_tac) | (show ∀ u, _; rely_tac)

theorem inv_wEnqLockCall {dl} {k} (hi : Inv s) (hpc : s.pc t = .wEnqLockCall dl k) (h : stepThr s t e = .ok s') : Inv s' := by
  step_open
  all_goals first | (show ShInv _; shinv_tac) | (show pcInv _ _ _; pcinv_tac) | (show ∀ u, _; rely_tac)

theorem inv_wEnqLockWait {dl} {k} (hi : Inv s) (hpc : s.pc t = .wEnqLockWait dl k) (h : stepThr s t e = .ok s') : Inv s' := by
  step_open
  all_goals first | (show ShInv _; shinv_tac) | (show pcInv _ _ _; pcinv_tac) | (show ∀ u, _; rely_tac)

theorem inv_wEnqLoad {dl} {k} (hi : Inv s) (hpc : s.pc t = .wEnqLoad dl k) (h : stepThr s t e = .ok s') : Inv s' := by
  step_open
  all_goals first | (show ShInv _; shinv_tac) | (show pcInv _ _ _; pcinv_tac) | (show ∀ u, _; rely_tac)

theorem inv_wEnqStore {dl} {k} {v} (hi : Inv s) (hpc : s.pc t = .wEnqStore dl k v) (h : stepThr s t e = .ok s') : Inv s' := by
  step_open
  all_goals first | (show ShInv _; shinv_tac) | (show pcInv _ _ _; pcinv_tac) | (show ∀ u, _; rely_tac)

theorem inv_wEnqUnlockCall {dl} {k} {enq} (hi : Inv s) (hpc : s.pc t = .wEnqUnlockCall dl k enq) (h : stepThr s t e = .ok s') : Inv s' := by
  step_open
  all_goals first | (show ShInv _; shinv_tac) | (show pcInv _ _ _; pcinv_tac) | (show ∀ u, _; rely_tac)

theorem inv_wEnqUnlockWait {dl} {k} {enq} (hi : Inv s) (hpc : s.pc t = .wEnqUnlockWait dl k enq) (h : stepThr s t e = .ok s') : Inv s' := by
  step_open
  all_goals first | (show ShInv _; shinv_tac) | (show pcInv _ _ _; pcinv_tac) | (show ∀ u, _; rely_tac)

end Counter
