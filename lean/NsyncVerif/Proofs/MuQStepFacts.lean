import NsyncVerif.Proofs.MuQReach
/-
  MuQ: facts about single steps (case analyses over the step function) used by C02 (try-locks,
  queue ownership), C13 (release point) and C14 (starvation avoidance).
-/
namespace NsyncVerif.MuQ

@[simp] theorem addShare_queue (s : State) (t : Tid) (l : Mode) : (addShare s t l).queue = s.queue := by cases l <;> rfl
@[simp] theorem addShare_wr (s : State) (t : Tid) (l : Mode) : (addShare s t l).wr = s.wr := by cases l <;> rfl
@[simp] theorem addShare_word (s : State) (t : Tid) (l : Mode) : (addShare s t l).word = s.word := by cases l <;> rfl
@[simp] theorem addShare_sp (s : State) (t : Tid) (l : Mode) : (addShare s t l).sp = s.sp := by cases l <;> rfl
@[simp] theorem subShare_queue (s : State) (t : Tid) (l : Mode) : (subShare s t l).queue = s.queue := by cases l <;> rfl
@[simp] theorem subShare_wr (s : State) (t : Tid) (l : Mode) : (subShare s t l).wr = s.wr := by cases l <;> rfl
@[simp] theorem subShare_word (s : State) (t : Tid) (l : Mode) : (subShare s t l).word = s.word := by cases l <;> rfl
@[simp] theorem subShare_sp (s : State) (t : Tid) (l : Mode) : (subShare s t l).sp = s.sp := by cases l <;> rfl
@[simp] theorem dropW_queue (s : State) (w : Option Wid) : (dropW s w).queue = s.queue := by cases w <;> rfl
@[simp] theorem dropW_word (s : State) (w : Option Wid) : (dropW s w).word = s.word := by cases w <;> rfl
@[simp] theorem dropW_sp (s : State) (w : Option Wid) : (dropW s w).sp = s.sp := by cases w <;> rfl

/-- Number of steps a try-lock still has to take (including its `ret`). -/
def tryRank : PC → Nat
  | .tryCas0 _ => 4
  | .tryLd _ => 3
  | .tryCas1 _ _ => 2
  | .tryRet _ _ => 1
  | _ => 0

def inTry (s : State) (t : Tid) : Prop := 0 < tryRank (s.pc t)

theorem tryRank_le (p : PC) : tryRank p ≤ 4 := by cases p <;> simp [tryRank]

theorem try_wait_free {cfg : Cfg} {s s' : State} {e : Event} {t : Tid}
    (hin : inTry s t) (h : step cfg s e = .ok s') (he : e.tid = some t) :
    e.isSem = false ∧ tryRank (s'.pc t) < tryRank (s.pc t) ∧ s'.queue = s.queue ∧ s'.wr = s.wr := by
  unfold inTry at hin
  cases e <;> simp only [Event.tid, Option.some.injEq, reduceCtorEq] at he <;> subst he
  case call t a =>
    simp only [step, stepCall] at h
    cases hp : s.pc t <;> simp [hp, tryRank] at hin h
  case ret t a res =>
    simp only [step, stepRet] at h
    split at h <;> try (cases h; done)
    all_goals rename_i hp
    all_goals try (simp [hp, tryRank] at hin; done)
    all_goals (split at h <;> try (cases h; done))
    all_goals (cases h; simp [hp, tryRank, setPc, Event.isSem])
  case ld t o loc obs =>
    simp only [step, stepLd] at h
    cases hp : s.pc t <;> simp only [hp, tryRank] at hin h <;> try (exact absurd hin (by decide))
    all_goals try (cases h; done)
    have h := ldWord_ok h; subst h
    split <;> simp [setPc, tryRank, Event.isSem]
  case st t o loc new obs =>
    simp only [step, stepSt] at h
    cases hp : s.pc t <;> simp only [hp, tryRank] at hin h <;> try (exact absurd hin (by decide))
    all_goals cases h
  case cas t o loc exp new obs ok =>
    simp only [step, stepCas] at h
    cases hp : s.pc t <;> simp only [hp, tryRank] at hin h <;> try (exact absurd hin (by decide))
    all_goals try (cases h; done)
    all_goals
      rcases casWord_ok h with ⟨_, _, rfl⟩ | ⟨_, _, rfl⟩ <;> simp [setPc, tryRank, Event.isSem]
  case semPEnter t k =>
    simp only [step] at h
    cases hp : s.pc t <;> simp [hp, tryRank] at hin h
  case semPRet t k =>
    simp only [step] at h
    cases hp : s.pc t <;> simp [hp, tryRank] at hin h
  case semV t k =>
    simp only [step] at h
    cases hp : s.pc t <;> simp [hp, tryRank] at hin h

end NsyncVerif.MuQ

namespace NsyncVerif.MuQ

/-! ### C14: starvation avoidance -/

/-- The thread has not slept in this call: fast paths, try-locks, lock_slow with `clear = 0`. -/
def freshPc : PC → Prop
  | .lkCas0 _ | .lkLd _ | .lkCas1 _ _ | .tryCas0 _ | .tryLd _ | .tryCas1 _ _ => True
  | .lsLd c | .lsCasAcq c _ | .lsCasEnq c _ => c.clear = false
  | _ => False

/-- The lock mode of an acquiring operation in progress. -/
def acqMode : PC → Option Mode
  | .lkCas0 l | .lkLd l | .lkCas1 l _ | .tryCas0 l | .tryLd l | .tryCas1 l _ => some l
  | .lsLd c | .lsCasAcq c _ | .lsCasEnq c _ => some c.l
  | _ => none

theorem blocked_of_hint {l : Mode} {w : Word} (h : w.lw = true ∨ (l = .R ∧ w.ww = true)) :
    blocked l false w = true := by
  rcases h with h | ⟨rfl, h⟩
  · cases l <;> simp [blocked, h]
  · simp [blocked, h]

theorem fresh_blocked {cfg : Cfg} {s s' : State} {e : Event} {t : Tid} (hk : PcOk s)
    (hf : freshPc (s.pc t)) (hh : s.word.lw = true ∨ (acqMode (s.pc t) = some .R ∧ s.word.ww = true))
    (h : step cfg s e = .ok s') (he : e.tid = some t) :
    pcShare (s'.pc t) = none ∧ s'.wOwner = s.wOwner ∧ s'.rOwners = s.rOwners ∧ s'.word.wlock = s.word.wlock ∧
      s'.word.readers = s.word.readers ∧ (freshPc (s'.pc t) ∨ s'.pc t = .tryRet .W false ∨ s'.pc t = .tryRet .R false ∨
        ∃ c, s'.pc t = .lsSt c) := by
  have hkt := hk t
  cases e <;> simp only [Event.tid, Option.some.injEq, reduceCtorEq] at he <;> subst he
  case call t a =>
    simp only [step, stepCall] at h
    cases hp : s.pc t <;> simp [hp, freshPc] at hf h
  case ret t a res =>
    simp only [step, stepRet] at h
    split at h <;> try (cases h; done)
    all_goals rename_i hp
    all_goals simp [hp, freshPc] at hf
  case ld t o loc obs =>
    simp only [step, stepLd] at h
    cases hp : s.pc t <;> simp only [hp, freshPc, acqMode, PC.ok] at hf h hh hkt <;> try (exact absurd hf id)
    all_goals try (cases h; done)
    all_goals have h := ldWord_ok h; subst h
    · rename_i l
      have hb : blocked l false s.word = true := blocked_of_hint (by
        rcases hh with hh | ⟨hh1, hh2⟩
        · exact Or.inl hh
        · exact Or.inr ⟨Option.some.inj hh1, hh2⟩)
      simp [hb, setPc, pcShare, freshPc, SL.entry]
    · rename_i l
      have hb : blocked l false s.word = true := blocked_of_hint (by
        rcases hh with hh | ⟨hh1, hh2⟩
        · exact Or.inl hh
        · exact Or.inr ⟨Option.some.inj hh1, hh2⟩)
      cases l <;> simp [hb, setPc, pcShare, freshPc]
    · rename_i c
      have hign : c.ign = false := by rw [hkt.1.1]; exact hf
      have hb : blocked c.l c.ign s.word = true := by
        rw [hign]; exact blocked_of_hint (by
          rcases hh with hh | ⟨hh1, hh2⟩
          · exact Or.inl hh
          · exact Or.inr ⟨Option.some.inj hh1, hh2⟩)
      simp only [hb, Bool.not_true, Bool.false_eq_true, if_false]
      split <;> simp [setPc, pcShare, freshPc, hf]
  case st t o loc new obs =>
    simp only [step, stepSt] at h
    cases hp : s.pc t <;> simp only [hp, freshPc] at hf h <;> try (exact absurd hf id)
    all_goals cases h
  case cas t o loc exp new obs ok =>
    simp only [step, stepCas] at h
    cases hp : s.pc t <;> simp only [hp, freshPc, acqMode, PC.ok] at hf h hh hkt <;> try (exact absurd hf id)
    all_goals try (cases h; done)
    · -- lkCas0
      rcases casWord_ok h with ⟨hw, _, rfl⟩ | ⟨_, _, rfl⟩
      · rw [hw] at hh; simp [Word.zero] at hh
      · simp [setPc, pcShare, freshPc]
    · -- lkCas1
      rename_i l old
      rcases casWord_ok h with ⟨hw, _, rfl⟩ | ⟨_, _, rfl⟩
      · have hb : blocked l false s.word = true := blocked_of_hint (by
          rcases hh with hh | ⟨hh1, hh2⟩
          · exact Or.inl hh
          · exact Or.inr ⟨Option.some.inj hh1, hh2⟩)
        rw [hw, hkt] at hb; cases hb
      · simp [setPc, pcShare, freshPc, SL.entry]
    · -- tryCas0
      rcases casWord_ok h with ⟨hw, _, rfl⟩ | ⟨_, _, rfl⟩
      · rw [hw] at hh; simp [Word.zero] at hh
      · simp [setPc, pcShare, freshPc]
    · -- tryCas1
      rename_i l old
      rcases casWord_ok h with ⟨hw, _, rfl⟩ | ⟨_, _, rfl⟩
      · have hb : blocked l false s.word = true := blocked_of_hint (by
          rcases hh with hh | ⟨hh1, hh2⟩
          · exact Or.inl hh
          · exact Or.inr ⟨Option.some.inj hh1, hh2⟩)
        rw [hw, hkt] at hb; cases hb
      · cases l <;> simp [setPc, pcShare, freshPc]
    · -- lsCasAcq
      rename_i c old
      rcases casWord_ok h with ⟨hw, _, rfl⟩ | ⟨_, _, rfl⟩
      · have hign : c.ign = false := by rw [hkt.1.1]; exact hf
        have hb : blocked c.l c.ign s.word = true := by
          rw [hign]; exact blocked_of_hint (by
            rcases hh with hh | ⟨hh1, hh2⟩
            · exact Or.inl hh
            · exact Or.inr ⟨Option.some.inj hh1, hh2⟩)
        rw [hw, hkt.2.2] at hb; cases hb
      · simp [setPc, pcShare, freshPc, hf]
    · -- lsCasEnq
      rename_i c old
      rcases casWord_ok h with ⟨hw, _, rfl⟩ | ⟨_, _, rfl⟩
      · simp [setPc, pcShare, enqWord, hw]
      · simp [setPc, pcShare, freshPc, hf]
  case semPEnter t k =>
    simp only [step] at h
    cases hp : s.pc t <;> simp [hp, freshPc] at hf h
  case semPRet t k =>
    simp only [step] at h
    cases hp : s.pc t <;> simp [hp, freshPc] at hf h
  case semV t k =>
    simp only [step] at h
    cases hp : s.pc t <;> simp [hp, freshPc] at hf h

end NsyncVerif.MuQ
