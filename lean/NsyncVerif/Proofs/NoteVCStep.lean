/-
  Layer `Note` × vector clocks: what one accepted step does to the `notified` flags and which
  orders the acceptor insists on (facts about the acceptor alone).
-/
import NsyncVerif.Proofs.NoteVC
import NsyncVerif.Proofs.NoteInvS3

set_option linter.unusedSimpArgs false

namespace Note
open NsyncVerif

/-- A flag becomes set only by an accepted store event on that very note. -/
theorem step_flag_event {s s' : State} {e : Event} (hs : step s e = .ok s') (k : NoteId)
    (hk : (s'.notes k).notified = true) :
    (s.notes k).notified = true ∨ ∃ t site o n ob, e = .stNote t site o k n ob := by
  cases e
  all_goals step_cases hs
  all_goals (try (left; exact hk))
  all_goals (try (left; simpa using hk))
  all_goals (repeat' split at hk)
  all_goals (try (left; simpa using hk))
  all_goals (first
    | (simp only [childWakeNext_f_notified, setNotified_f_notified] at hk
       split at hk
       · next h => subst h; right; exact ⟨_, _, _, _, _, rfl⟩
       · left; exact hk)
    | (simp only [setPc_notes, markBorn_notes, setNotified_f_notified] at hk
       split at hk
       · next h =>
         subst h; right
         have := (by assumption : _ = Site.newSt ∧ _ ∧ _ ∧ _).2.2.1
         subst this
         exact ⟨_, _, _, _, _, rfl⟩
       · left; exact hk)
    | (simp only [setPc_notes, allocNote_f] at hk
       split at hk
       · simp [NoteRec.blank] at hk
       · left; exact hk))

/-- … so every other event leaves every flag as it is. -/
theorem flag_frame {s s' : State} {e : Event} (hr : Reachable s) (hs : step s e = .ok s')
    (k : NoteId) (hne : ∀ t site o n ob, e ≠ .stNote t site o k n ob) :
    (s'.notes k).notified = (s.notes k).notified := by
  cases h' : (s'.notes k).notified with
  | true =>
    rcases step_flag_event hs k h' with h | ⟨t, site, o, n, ob, h⟩
    · exact h.symm
    · exact absurd h (hne t site o n ob)
  | false =>
    cases h0 : (s.notes k).notified with
    | false => rfl
    | true =>
      have := (step_stable hs).flag k (hr.inv6.1.flag k h0) h0
      rw [h'] at this; cases this

/-- An accepted store to a `notified` word: it is one of the two release stores of 1, by a thread at
    the corresponding program point, and it sets the flag. -/
theorem stNote_ok {s s' : State} {t : Tid} {site : Site} {o : Ord} {k : NoteId} {n ob : Nat}
    (hs : step s (.stNote t site o k n ob) = .ok s') :
    o = .rel ∧ n = 1 ∧ (s'.notes k).notified = true ∧ ob = flagVal (s.notes k).notified ∧
    ((site = .childSt ∧ ∃ f rest top, s.pc t = .chd .st (f :: rest) top ∧ f.note = k ∧
        s'.pc t = childWakeNextPc (s.setNotified k) f rest top) ∨
     (site = .newSt ∧ ∃ p dl, s.pc t = .newP .st k p dl ∧ s'.pc t = .newP .unlockCall k p dl)) := by
  step_cases hs
  · rename_i hpc _ h1 h2
    obtain ⟨h3, h4, h5, h6⟩ := h1
    subst h3 h4 h6
    refine ⟨rfl, rfl, ?_, h2, Or.inl ⟨rfl, _, _, _, hpc, h5.symm, by simp⟩⟩
    simp only [childWakeNext_f_notified, setNotified_f_notified, if_true]
  · rename_i hpc _ h1 h2
    obtain ⟨h3, h4, h5, h6⟩ := h1
    subst h3 h4 h5 h6
    refine ⟨rfl, rfl, ?_, h2, Or.inr ⟨rfl, _, _, hpc, by simp⟩⟩
    simp

/-- An accepted load of a `notified` word is an acquire load at one of the load sites and reads
    the flag. -/
theorem ld_ok {s s' : State} {t : Tid} {site : Site} {o : Ord} {k : NoteId} {obs : Nat}
    (hs : step s (.ld t site o k obs) = .ok s') :
    o = .acq ∧ obs = flagVal (s.notes k).notified := by
  simp only [step, stepLd, need_ok] at hs
  exact ⟨hs.1, hs.2.2.1⟩

/-- THE ORDERS: every accepted atomic event carries, at its site, exactly the order `noteSiteOrd`
    declares (and its site is one of the 14 sites of the table). -/
theorem step_orders {s s' : State} {e : Event} (hs : step s e = .ok s') :
    match e with
    | .ld _ site o _ _ => site ≠ .other ∧ site.op = "ld" ∧ o = noteSiteOrd site
    | .stNote _ site o _ _ _ => site ≠ .other ∧ site.op = "st" ∧ o = noteSiteOrd site
    | .stW _ site o _ _ _ => site ≠ .other ∧ site.op = "st" ∧ o = noteSiteOrd site
    | _ => True := by
  cases e
  all_goals (try trivial)
  all_goals step_cases hs
  all_goals (try (simp_all [noteSiteOrd, Site.op]; done))
  all_goals (repeat' split)
  all_goals (try (simp_all [noteSiteOrd, Site.op]; done))

end Note
