/-
  Proofs/WaitNFairTrace.lean — WaitN layer, liveness form of C11: concrete executions.

  * `traceExec`  a finite accepted trace from `init`, then nothing for ever;
  * `lassoExec`  a finite accepted trace from `init`, then a list of events that takes the state reached
                 back to itself, repeated for ever;
  * criteria for the hypotheses of the fair-termination theorem (`WeakFair`, `LockFair`, `ForeignRelease`,
    `ClockAdvances`, `FiniteWakeups`, `FiniteStrayPosts`) for such executions;
  * `checkAll`   a linear-time check of a decidable state predicate at every time of a trace.
-/
import NsyncVerif.Proofs.WaitNFairDefs

namespace WaitN

/-! ### run plumbing -/

theorem run_split : ∀ (a b : List Event) (s s' : State), run s (a ++ b) = .ok s' →
    ∃ s1, run s a = .ok s1 ∧ run s1 b = .ok s' := by
  intro a
  induction a with
  | nil => intro b s s' h; exact ⟨s, rfl, h⟩
  | cons e es ih =>
    intro b s s' h
    simp only [List.cons_append, run] at h ⊢
    cases hs : step s e with
    | ok s1 => rw [hs] at h; exact ih b s1 s' h
    | error m => rw [hs] at h; cases h

/-- The state after `evs` from `s` (`s` itself if the events are not accepted). -/
def stateFrom (s : State) (evs : List Event) : State :=
  match run s evs with
  | .ok s' => s'
  | .error _ => s

def okRun (s : State) (evs : List Event) : Bool :=
  match run s evs with
  | .ok _ => true
  | .error _ => false

theorem run_of_okRun {s : State} {evs : List Event} (h : okRun s evs = true) :
    run s evs = .ok (stateFrom s evs) := by
  unfold okRun at h
  unfold stateFrom
  split at h
  · rename_i s' hs; rw [hs]
  · cases h

theorem run_of_accepts {evs : List Event} (h : accepts evs = true) : run init evs = .ok (stateFrom init evs) := by
  apply run_of_okRun
  simp only [accepts, final] at h
  unfold okRun
  split
  · rfl
  · rename_i m hm; rw [hm] at h; cases h

theorem stateFrom_eq {s sf : State} {evs : List Event} (h : run s evs = .ok sf) : stateFrom s evs = sf := by
  simp only [stateFrom, h]

theorem stateFrom_nil (s : State) : stateFrom s [] = s := rfl

theorem stateFrom_ok {s sf : State} {evs : List Event} (h : run s evs = .ok sf) (i : Nat) :
    run s (evs.take i) = .ok (stateFrom s (evs.take i)) := by
  have : run s (evs.take i ++ evs.drop i) = .ok sf := by rw [List.take_append_drop]; exact h
  obtain ⟨s1, h1, _⟩ := run_split _ _ _ _ this
  simp only [stateFrom, h1]

theorem stateFrom_all {s sf : State} {evs : List Event} (h : run s evs = .ok sf) {i : Nat}
    (hi : evs.length ≤ i) : stateFrom s (evs.take i) = sf := by
  simp only [stateFrom, List.take_of_length_le hi, h]

theorem stateFrom_step {s sf : State} {evs : List Event} (h : run s evs = .ok sf) {i : Nat}
    (hi : i < evs.length) :
    step (stateFrom s (evs.take i)) evs[i] = .ok (stateFrom s (evs.take (i + 1))) := by
  have he : evs[i]? = some evs[i] := List.getElem?_eq_getElem hi
  have e : evs.take (i + 1) = evs.take i ++ [evs[i]] := by rw [List.take_add_one, he]; rfl
  have h1 := stateFrom_ok h (i + 1)
  rw [e, run_append (stateFrom_ok h i)] at h1
  simp only [run] at h1
  rw [e]
  cases hs : step (stateFrom s (evs.take i)) evs[i] with
  | ok s2 =>
    rw [hs] at h1; simp only [Except.ok.injEq] at h1
    rw [← h1]
  | error m => rw [hs] at h1; cases h1

/-! ### a finite accepted trace, then nothing for ever -/

/-- The state after the first `i` events of `evs` from `init`. -/
def stateAt (evs : List Event) (i : Nat) : State := stateFrom init (evs.take i)

/-- A finite accepted trace, then nothing for ever. -/
def traceExec (evs : List Event) (sf : State) (h : run init evs = .ok sf) : Exec init :=
  { ρ := stateAt evs
    σ := fun i => evs[i]?
    start := by simp [stateAt, stateFrom, run]
    next := by
      intro i
      cases he : evs[i]? with
      | none =>
        have hi : evs.length ≤ i := by simpa using he
        show stateAt evs (i + 1) = stateAt evs i
        simp only [stateAt]
        rw [stateFrom_all h hi, stateFrom_all h (by omega)]
      | some e =>
        have hi : i < evs.length := by
          apply Classical.byContradiction; intro hn
          have : evs[i]? = none := by simp; omega
          rw [this] at he; cases he
        have : e = evs[i] := by
          rw [List.getElem?_eq_getElem hi] at he; exact (Option.some.inj he).symm
        subst this
        exact stateFrom_step h hi }

theorem traceExec_tail {evs : List Event} {sf : State} (h : run init evs = .ok sf) {j : Nat}
    (hj : evs.length ≤ j) : (traceExec evs sf h).ρ j = sf ∧ (traceExec evs sf h).σ j = none :=
  ⟨stateFrom_all h hj, by show evs[j]? = none; simpa using hj⟩

theorem traceExec_at {evs : List Event} {sf : State} (h : run init evs = .ok sf) (j : Nat) :
    (traceExec evs sf h).ρ j = stateAt evs j ∧ (traceExec evs sf h).σ j = evs[j]? := ⟨rfl, rfl⟩

/-! ### a lasso: a finite accepted trace, then a state-restoring loop for ever -/

/-- A lasso: `evs`, then `loop` repeated for ever, where `loop` takes the state `sf` reached by `evs`
    back to `sf`. -/
def lassoExec (evs loop : List Event) (sf : State)
    (h : run init evs = .ok sf) (hl : run sf loop = .ok sf) (hp : 0 < loop.length) : Exec init :=
  { ρ := fun i => if i < evs.length then stateAt evs i
                  else stateFrom sf (loop.take ((i - evs.length) % loop.length))
    σ := fun i => if i < evs.length then evs[i]? else loop[(i - evs.length) % loop.length]?
    start := by
      by_cases h0 : 0 < evs.length
      · simp [h0, stateAt, stateFrom, run]
      · have : evs = [] := by cases evs <;> simp_all
        subst this; simp [run] at h; subst h; simp [stateFrom, run]
    next := by
      intro i
      have hsf0 : stateFrom sf (loop.take 0) = sf := by simp [stateFrom, run]
      by_cases hi : i < evs.length
      · have he : evs[i]? = some evs[i] := List.getElem?_eq_getElem hi
        simp only [hi, if_true, he]
        have hs : step (stateAt evs i) evs[i] = .ok (stateAt evs (i + 1)) := stateFrom_step h hi
        by_cases hi' : i + 1 < evs.length
        · simp only [hi', if_true]; exact hs
        · have : i + 1 - evs.length = 0 := by omega
          simp only [hi', if_false, this, Nat.zero_mod, hsf0]
          have h2 : stateAt evs (i + 1) = sf := stateFrom_all h (by omega)
          rw [← h2]; exact hs
      · have hi' : ¬ i + 1 < evs.length := by omega
        simp only [hi, hi', if_false]
        have hr : (i - evs.length) % loop.length < loop.length := Nat.mod_lt _ hp
        have he : loop[(i - evs.length) % loop.length]? = some loop[(i - evs.length) % loop.length] :=
          List.getElem?_eq_getElem hr
        simp only [he]
        have hs := stateFrom_step hl hr
        have hsucc : i + 1 - evs.length = (i - evs.length) + 1 := by omega
        by_cases hwrap : (i - evs.length) % loop.length + 1 = loop.length
        · have : (i + 1 - evs.length) % loop.length = 0 := by
            rw [hsucc, Nat.add_mod]
            have : (i - evs.length) % loop.length = loop.length - 1 := by omega
            rw [this]
            by_cases h1 : loop.length = 1
            · rw [h1]
            · rw [Nat.mod_eq_of_lt (show 1 < loop.length by omega)]
              rw [show loop.length - 1 + 1 = loop.length by omega, Nat.mod_self]
          rw [this, hsf0]
          rw [hwrap, stateFrom_all hl (Nat.le_refl _)] at hs
          exact hs
        · have : (i + 1 - evs.length) % loop.length = (i - evs.length) % loop.length + 1 := by
            rw [hsucc, Nat.add_mod]
            by_cases h1 : loop.length = 1
            · omega
            · rw [Nat.mod_eq_of_lt (show 1 < loop.length by omega)]
              exact Nat.mod_eq_of_lt (by omega)
          rw [this]; exact hs }

theorem lassoExec_head {evs loop : List Event} {sf : State}
    (h : run init evs = .ok sf) (hl : run sf loop = .ok sf) (hp : 0 < loop.length) {j : Nat}
    (hj : j < evs.length) :
    (lassoExec evs loop sf h hl hp).ρ j = stateAt evs j ∧ (lassoExec evs loop sf h hl hp).σ j = evs[j]? := by
  simp [lassoExec, hj]

/-- time `evs.length + k`: the state after the first `k % loop.length` events of the loop, and that event -/
theorem lassoExec_loop {evs loop : List Event} {sf : State}
    (h : run init evs = .ok sf) (hl : run sf loop = .ok sf) (hp : 0 < loop.length) (k : Nat) :
    (lassoExec evs loop sf h hl hp).ρ (evs.length + k) = stateFrom sf (loop.take (k % loop.length)) ∧
    (lassoExec evs loop sf h hl hp).σ (evs.length + k) = loop[k % loop.length]? := by
  have h1 : ¬ evs.length + k < evs.length := by omega
  have h2 : evs.length + k - evs.length = k := by omega
  simp [lassoExec, h1, h2]

theorem lassoExec_tail {evs loop : List Event} {sf : State}
    (h : run init evs = .ok sf) (hl : run sf loop = .ok sf) (hp : 0 < loop.length) {j : Nat}
    (hj : evs.length ≤ j) :
    (lassoExec evs loop sf h hl hp).ρ j = stateFrom sf (loop.take ((j - evs.length) % loop.length)) ∧
    (lassoExec evs loop sf h hl hp).σ j = loop[(j - evs.length) % loop.length]? := by
  have := lassoExec_loop h hl hp (j - evs.length)
  rwa [show evs.length + (j - evs.length) = j by omega] at this

/-- the loop is entered again and again in the state `sf` -/
theorem lassoExec_recur {evs loop : List Event} {sf : State}
    (h : run init evs = .ok sf) (hl : run sf loop = .ok sf) (hp : 0 < loop.length) (i : Nat) :
    ∃ j, i ≤ j ∧ (lassoExec evs loop sf h hl hp).ρ j = sf := by
  refine ⟨evs.length + loop.length * i, ?_, ?_⟩
  · have : i ≤ loop.length * i := Nat.le_mul_of_pos_left i hp
    omega
  · rw [(lassoExec_loop h hl hp _).1, Nat.mul_mod_right]; rfl

/-! ### a decidable predicate at every time of a trace, in one pass -/

def checkAll (P : State → Bool) : State → List Event → Bool
  | s, [] => P s
  | s, e :: es => P s && match step s e with
    | .ok s' => checkAll P s' es
    | .error _ => false

theorem checkAll_take {P : State → Bool} : ∀ (evs : List Event) (s : State), checkAll P s evs = true →
    ∀ i, P (stateFrom s (evs.take i)) = true := by
  intro evs
  induction evs with
  | nil => intro s h i; simpa [checkAll, stateFrom, run] using h
  | cons e es ih =>
    intro s h i
    simp only [checkAll, Bool.and_eq_true] at h
    cases i with
    | zero => simpa [stateFrom, run] using h.1
    | succ i =>
      cases hs : step s e with
      | error m => rw [hs] at h; cases h.2
      | ok s1 =>
        rw [hs] at h
        have h1 := ih s1 h.2 i
        have h2 : stateFrom s ((e :: es).take (i + 1)) = stateFrom s1 (es.take i) := by
          obtain ⟨r, hr⟩ : ∃ r, run s1 (es.take i) = .ok r := by
            clear h1
            have : ∀ (es : List Event) (s1 : State), checkAll P s1 es = true → ∃ r, run s1 (es.take i) = .ok r := by
              intro es
              induction es generalizing i with
              | nil => intro s1 _; exact ⟨s1, by simp [run]⟩
              | cons e' es' ih' =>
                intro s1 hc
                cases i with
                | zero => exact ⟨s1, by simp [run]⟩
                | succ i =>
                  simp only [checkAll, Bool.and_eq_true] at hc
                  cases hs' : step s1 e' with
                  | error m => rw [hs'] at hc; cases hc.2
                  | ok s2 =>
                    rw [hs'] at hc
                    obtain ⟨r, hr⟩ := ih' i s2 hc.2
                    exact ⟨r, by simp only [List.take_succ_cons, run, hs']; exact hr⟩
            exact this es s1 h.2
          simp only [stateFrom, List.take_succ_cons, run, hs, hr]
        rw [h2]; exact h1

theorem traceExec_all {evs : List Event} {sf : State} (h : run init evs = .ok sf) {P : State → Bool}
    (hc : checkAll P init evs = true) (j : Nat) : P ((traceExec evs sf h).ρ j) = true :=
  checkAll_take evs init hc j

theorem lassoExec_all {evs loop : List Event} {sf : State}
    (h : run init evs = .ok sf) (hl : run sf loop = .ok sf) (hp : 0 < loop.length) {P : State → Bool}
    (hc : checkAll P init evs = true) (hc2 : checkAll P sf loop = true) (j : Nat) :
    P ((lassoExec evs loop sf h hl hp).ρ j) = true := by
  by_cases hj : j < evs.length
  · rw [(lassoExec_head h hl hp hj).1]; exact checkAll_take evs init hc j
  · rw [(lassoExec_tail h hl hp (by omega)).1]; exact checkAll_take loop sf hc2 _

/-! ### threads that do not occur in a trace -/

def evTid : Event → Option Tid
  | .thr t _ => some t
  | .tick _ => none

/-- All events of the list are events of threads `< n` (or ticks). -/
def tidsBelow (n : Nat) (evs : List Event) : Bool :=
  evs.all fun e => match evTid e with | some t => decide (t < n) | none => true

theorem tidsBelow_ne {n : Nat} {evs : List Event} (h : tidsBelow n evs = true) {t : Tid}
    (ht : n ≤ t) : ∀ e ∈ evs, evTid e ≠ some t := by
  intro e he hte
  have := List.all_eq_true.1 h e he
  have h2 : decide (t < n) = true := by simpa [hte] using this
  have h3 : t < n := of_decide_eq_true h2
  exact absurd h3 (Nat.not_lt.2 ht)

theorem step_tick_thr {s s' : State} {ns : Nat} (h : step s (.tick ns) = .ok s') :
    s'.pc = s.pc ∧ s'.post = s.post ∧ s'.mc = s.mc ∧ s'.fr = s.fr ∧ s'.obj = s.obj := by
  simp only [step] at h
  split at h
  · cases h; exact ⟨rfl, rfl, rfl, rfl, rfl⟩
  · cases h

/-- Threads that do not occur in a trace are where they were. -/
theorem run_untouched {t : Tid} : ∀ (evs : List Event) (s s' : State),
    (∀ e ∈ evs, evTid e ≠ some t) → run s evs = .ok s' →
    s'.pc t = s.pc t ∧ s'.post t = s.post t ∧ s'.mc t = s.mc t := by
  intro evs
  induction evs with
  | nil => intro s s' _ h; simp only [run, Except.ok.injEq] at h; subst h; exact ⟨rfl, rfl, rfl⟩
  | cons e es ih =>
    intro s s' hne h
    simp only [run] at h
    cases hs : step s e with
    | error m => rw [hs] at h; cases h
    | ok s1 =>
      rw [hs] at h
      obtain ⟨a, b, c⟩ := ih s1 s' (fun e' he' => hne e' (by simp [he'])) h
      have hn := hne e (by simp)
      cases e with
      | tick ns =>
        obtain ⟨t1, t2, t3, _⟩ := step_tick_thr hs
        exact ⟨by rw [a, t1], by rw [b, t2], by rw [c, t3]⟩
      | thr u ev =>
        have hu : t ≠ u := fun hh => hn (by simp [evTid, hh])
        obtain ⟨o1, o2, o3, _⟩ := others_stepThr (show stepThr s u ev = .ok s1 from hs) t hu
        exact ⟨by rw [a, o1], by rw [b, o3], by rw [c, o2]⟩

theorem traceExec_untouched {evs : List Event} {sf : State} (h : run init evs = .ok sf) {n : Nat}
    (hb : tidsBelow n evs = true) {t : Tid} (ht : n ≤ t) (j : Nat) :
    ((traceExec evs sf h).ρ j).pc t = .idle ∧ ((traceExec evs sf h).ρ j).post t = none := by
  have := run_untouched (t := t) _ _ _ (fun e he => tidsBelow_ne hb ht e (List.mem_of_mem_take he)) (stateFrom_ok h j)
  exact ⟨this.1, this.2.1⟩

theorem lassoExec_untouched {evs loop : List Event} {sf : State}
    (h : run init evs = .ok sf) (hl : run sf loop = .ok sf) (hp : 0 < loop.length) {n : Nat}
    (hb : tidsBelow n evs = true) (hb2 : tidsBelow n loop = true) {t : Tid} (ht : n ≤ t) (j : Nat) :
    ((lassoExec evs loop sf h hl hp).ρ j).pc t = .idle ∧ ((lassoExec evs loop sf h hl hp).ρ j).post t = none := by
  have hsf := run_untouched (t := t) _ _ _ (fun e he => tidsBelow_ne hb ht e he) h
  by_cases hj : j < evs.length
  · rw [(lassoExec_head h hl hp hj).1]
    have := run_untouched (t := t) _ _ _ (fun e he => tidsBelow_ne hb ht e (List.mem_of_mem_take he)) (stateFrom_ok h j)
    exact ⟨this.1, this.2.1⟩
  · rw [(lassoExec_tail h hl hp (by omega)).1]
    have := run_untouched (t := t) _ _ _ (fun e he => tidsBelow_ne hb2 ht e (List.mem_of_mem_take he))
      (stateFrom_ok hl ((j - evs.length) % loop.length))
    exact ⟨by rw [this.1, hsf.1]; rfl, by rw [this.2.1, hsf.2.1]; rfl⟩

/-! ### quantification over all objects / threads / records of a concrete state -/

theorem all_tid {P : Nat → Prop} (n : Nat) (h1 : ∀ k, k < n → P k) (h2 : ∀ k, P (k + n)) : ∀ t : Nat, P t := by
  intro t
  by_cases ht : t < n
  · exact h1 t ht
  · have := h2 (t - n); rwa [show t - n + n = t by omega] at this

theorem all_obj {P : ObjId → Prop} (n : Nat)
    (h1 : ∀ k, k < n → P (.cv k) ∧ P (.note k) ∧ P (.ctr k))
    (h2 : ∀ k, P (.cv (k + n)) ∧ P (.note (k + n)) ∧ P (.ctr (k + n))) : ∀ o, P o := by
  intro o
  cases o with
  | cv k => exact all_tid (P := fun k => P (.cv k)) n (fun k hk => (h1 k hk).1) (fun k => (h2 k).1) k
  | note k => exact all_tid (P := fun k => P (.note k)) n (fun k hk => (h1 k hk).2.1) (fun k => (h2 k).2.1) k
  | ctr k => exact all_tid (P := fun k => P (.ctr k)) n (fun k hk => (h1 k hk).2.2) (fun k => (h2 k).2.2) k

theorem State.ext' {a b : State} (h1 : a.obj = b.obj) (h2 : a.rcd = b.rcd) (h3 : a.sem = b.sem)
    (h4 : a.semUser = b.semUser) (h5 : a.pc = b.pc) (h6 : a.fr = b.fr) (h7 : a.mc = b.mc) (h8 : a.post = b.post)
    (h9 : a.now = b.now) : a = b := by
  cases a; cases b; simp_all

/-! ### criteria for the hypotheses -/

variable {s0 : State}

/-- an execution that ends with every thread idle (nothing owed) or blocked for ever is weakly fair -/
theorem weakFair_of_final (x : Exec s0) (N : Nat)
    (hN : ∀ j, N ≤ j → ∀ t, ((x.ρ j).pc t = .idle ∧ (x.ρ j).post t = none) ∨ Blocked (x.ρ j) t) : WeakFair x := by
  intro t i h
  rcases hN (max i N) (by omega) t with h1 | h1
  · rcases (h (max i N) (by omega)).1 with h2 | h2
    · exact absurd h1.1 h2
    · exact absurd h1.2 h2
  · exact absurd h1 (h (max i N) (by omega)).2

/-- an execution in which every thread that is not idle / blocked moves again and again is weakly fair -/
theorem weakFair_of_recurrent (x : Exec s0)
    (hN : ∀ t, (∀ i, ∃ j, i ≤ j ∧ Moves x t j) ∨ (∀ i, ∃ j, i ≤ j ∧ ¬ Ready (x.ρ j) t)) : WeakFair x := by
  intro t i h
  rcases hN t with h1 | h1
  · exact h1 i
  · obtain ⟨j, hj, hr⟩ := h1 i
    exact absurd (h j hj) hr

theorem finiteWakeups_of_tail (x : Exec s0) (N : Nat) (hN : ∀ j, N ≤ j → x.σ j = none) (t : Tid) :
    FiniteWakeups x t :=
  ⟨N, fun j k hj _ he => by rw [hN j hj] at he; cases he⟩

theorem finiteStrayPosts_of_tail (x : Exec s0) (N : Nat) (hN : ∀ j, N ≤ j → x.σ j = none) :
    FiniteStrayPosts x :=
  ⟨N, fun j u k hj he => by rw [hN j hj] at he; cases he⟩

/-- nobody is acquiring a lock again and again -/
theorem lockFair_of_recurrent (x : Exec s0)
    (hN : ∀ i t, ∃ j, i ≤ j ∧ lockWaitOf ((x.ρ j).pc t) ((x.ρ j).fr t) = none) : LockFair x := by
  intro t o i h _
  obtain ⟨j, hj, hn⟩ := hN i t
  rw [h j hj] at hn; cases hn

theorem lockFair_of_tail (x : Exec s0) (N : Nat)
    (hN : ∀ j, N ≤ j → ∀ t, lockWaitOf ((x.ρ j).pc t) ((x.ρ j).fr t) = none) : LockFair x :=
  lockFair_of_recurrent x (fun i t => ⟨max i N, by omega, hN _ (by omega) t⟩)

/-- every lock is free again and again -/
theorem foreignRelease_of_recurrent (x : Exec s0)
    (hN : ∀ i, ∃ j, i ≤ j ∧ ∀ o, ((x.ρ j).obj o).lock = none) : ForeignRelease x := by
  intro i o u _ _
  obtain ⟨j, hj, hn⟩ := hN i
  exact ⟨j, hj, by rw [hn o]; simp⟩

theorem foreignRelease_of_tail (x : Exec s0) (N : Nat)
    (hN : ∀ j, N ≤ j → ∀ o, ((x.ρ j).obj o).lock = none) : ForeignRelease x :=
  foreignRelease_of_recurrent x (fun i => ⟨max i N, by omega, hN _ (by omega)⟩)

/-- the clock ends at `T`, and every finite deadline a sleeper ever waits for is at most `T` -/
theorem clockAdvances_of_final (x : Exec s0) (N T : Nat) (hT : ∀ j, N ≤ j → (x.ρ j).now = T)
    (h : ∀ i t k d, (x.ρ i).pc t = .wPdWait k → ((x.ρ i).fr t).min = some d → d ≤ (T : Int)) :
    ClockAdvances x := by
  intro i t k d hp hd
  exact ⟨max i N, by omega, by rw [hT _ (by omega)]; exact h i t k d hp hd⟩

/-- the sleepers among the threads `< n` have no deadline or a deadline `≤ T` -/
def sleepOk (n T : Nat) (s : State) : Bool :=
  (List.range n).all fun t =>
    match s.pc t with
    | .wPdWait _ => match (s.fr t).min with
      | none => true
      | some d => decide (d ≤ (T : Int))
    | _ => true

theorem sleepOk_spec {n T : Nat} {s : State} (h : sleepOk n T s = true) {t : Tid} (ht : t < n) {k : SemId} {d : Int}
    (hp : s.pc t = .wPdWait k) (hd : (s.fr t).min = some d) : d ≤ (T : Int) := by
  have := List.all_eq_true.1 h t (List.mem_range.2 ht)
  simp only [hp, hd, decide_eq_true_eq] at this
  exact this

theorem traceExec_clock {evs : List Event} {sf : State} (h : run init evs = .ok sf) (n T : Nat)
    (hb : tidsBelow n evs = true) (hT : sf.now = T) (hc : checkAll (sleepOk n T) init evs = true) :
    ClockAdvances (traceExec evs sf h) := by
  refine clockAdvances_of_final _ evs.length T (fun j hj => by rw [(traceExec_tail h hj).1]; exact hT) ?_
  intro i t k d hp hd
  by_cases ht : t < n
  · exact sleepOk_spec (traceExec_all h hc i) ht hp hd
  · have := (traceExec_untouched h hb (Nat.le_of_not_lt ht) i).1
    rw [this] at hp; cases hp

theorem lassoExec_clock {evs loop : List Event} {sf : State}
    (h : run init evs = .ok sf) (hl : run sf loop = .ok sf) (hp : 0 < loop.length) (n T : Nat)
    (hb : tidsBelow n evs = true) (hb2 : tidsBelow n loop = true)
    (hT : checkAll (fun s => decide (s.now = T)) sf loop = true)
    (hc : checkAll (sleepOk n T) init evs = true) (hc2 : checkAll (sleepOk n T) sf loop = true) :
    ClockAdvances (lassoExec evs loop sf h hl hp) := by
  refine clockAdvances_of_final _ evs.length T (fun j hj => ?_) ?_
  · rw [(lassoExec_tail h hl hp hj).1]
    exact of_decide_eq_true (checkAll_take loop sf hT _)
  · intro i t k d hq hd
    by_cases ht : t < n
    · exact sleepOk_spec (lassoExec_all h hl hp hc hc2 i) ht hq hd
    · have := (lassoExec_untouched h hl hp hb hb2 (Nat.le_of_not_lt ht) i).1
      rw [this] at hq; cases hq

/-- the events of the periodic part are events of the loop -/
theorem lassoExec_sigma_mem {evs loop : List Event} {sf : State}
    (h : run init evs = .ok sf) (hl : run sf loop = .ok sf) (hp : 0 < loop.length) {j : Nat}
    (hj : evs.length ≤ j) {e : Event} (he : (lassoExec evs loop sf h hl hp).σ j = some e) : e ∈ loop := by
  rw [(lassoExec_tail h hl hp hj).2] at he
  exact List.mem_of_getElem? he

/-! ### decidable forms of "not required to move" -/

/-- asleep in the P on a semaphore whose count is 0, before the deadline -/
def sleepB (s : State) (t : Tid) : Bool :=
  match s.pc t with
  | .wPdWait j => decide (s.sem j = 0) && !expiredB (s.fr t).min s.now
  | _ => false

theorem blocked_of_sleepB {s : State} {t : Tid} (h : sleepB s t = true) : Blocked s t := by
  unfold sleepB at h
  split at h
  · rename_i j hj
    simp only [Bool.and_eq_true, decide_eq_true_eq, Bool.not_eq_true'] at h
    exact .inl ⟨j, hj, h.1, h.2⟩
  · cases h

/-- waiting for a lock that is held -/
def lockB (s : State) (t : Tid) : Bool :=
  match lockBlockOf (s.pc t) (s.fr t) with
  | some o => ((s.obj o).lock).isSome
  | none => false

theorem blocked_of_lockB {s : State} {t : Tid} (h : lockB s t = true) : Blocked s t := by
  unfold lockB at h
  split at h
  · rename_i o ho
    refine .inr (.inl ⟨o, ho, ?_⟩)
    intro hn; rw [hn] at h; cases h
  · cases h

/-- idle with nothing owed, or asleep, or waiting for a held lock -/
def quietB (s : State) (t : Tid) : Bool :=
  (decide (s.pc t = .idle) && decide (s.post t = none)) || sleepB s t || lockB s t

theorem quietB_spec {s : State} {t : Tid} (h : quietB s t = true) :
    (s.pc t = .idle ∧ s.post t = none) ∨ Blocked s t := by
  simp only [quietB, Bool.or_eq_true, Bool.and_eq_true, decide_eq_true_eq] at h
  rcases h with (h | h) | h
  · exact .inl h
  · exact .inr (blocked_of_sleepB h)
  · exact .inr (blocked_of_lockB h)

theorem not_ready_of_quietB {s : State} {t : Tid} (h : quietB s t = true) : ¬ Ready s t := by
  rintro ⟨h1, h2⟩
  rcases quietB_spec h with h3 | h3
  · rcases h1 with h1 | h1
    · exact h1 h3.1
    · exact h1 h3.2
  · exact h2 h3

/-- An execution whose tail is constant (`sf`, nobody moves), in which every thread is idle or blocked, nobody is
    acquiring a lock and no lock is held, satisfies all hypotheses except (possibly) `ClockAdvances`. -/
theorem tail_hyps (x : Exec s0) (N : Nat) (sf : State) (htail : ∀ j, N ≤ j → x.ρ j = sf ∧ x.σ j = none)
    (hlock : ∀ o, (sf.obj o).lock = none) (hlw : ∀ t, lockWaitOf (sf.pc t) (sf.fr t) = none) :
    LockFair x ∧ ForeignRelease x ∧ (∀ t, FiniteWakeups x t) ∧ FiniteStrayPosts x :=
  ⟨lockFair_of_tail x N (fun j hj t => by rw [(htail j hj).1]; exact hlw t),
   foreignRelease_of_tail x N (fun j hj o => by rw [(htail j hj).1]; exact hlock o),
   finiteWakeups_of_tail x N (fun j hj => (htail j hj).2),
   finiteStrayPosts_of_tail x N (fun j hj => (htail j hj).2)⟩

theorem tail_weakFair (x : Exec s0) (N : Nat) (sf : State) (htail : ∀ j, N ≤ j → x.ρ j = sf ∧ x.σ j = none)
    (hq : ∀ t, quietB sf t = true) : WeakFair x :=
  weakFair_of_final x N (fun j hj t => by rw [(htail j hj).1]; exact quietB_spec (hq t))

end WaitN
