/-
  Proofs/SemWaitInvAux.lean — the cases of the preservation proofs of `q3` / `q4` done by hand: a notifier unlinks
  the head of a list (`popped`) and posts (`posted`).
-/
import NsyncVerif.Proofs.SemWaitTac

namespace SemWait
set_option maxHeartbeats 400000

/-- the record at the head of a note's list whose mutex a protocol-driven thread holds -/
theorem pop_facts {s : State} {t : Tid} {r : Rid} {tl : List Rid} (ha : InvA s) (hq : InvQ s)
    (hp : protoMode (s.pc t) = true) (hqu : (s.note (s.rcd r).note).queue = r :: tl)
    (hl : (s.note (s.rcd r).note).lock = some t) :
    enqNL (s.pc (s.rcd r).owner) = true ∧ (s.rcd r).live = true := by
  have hm : r ∈ (s.note (s.rcd r).note).queue := by rw [hqu]; exact List.mem_cons_self
  obtain ⟨hlive, -, henq⟩ := hq.q1 _ _ hm
  refine ⟨?_, hlive⟩
  rcases enq_cases henq with h | h
  · exact h
  · have h1 := ha.h1 _ h
    have h2 := (ha.i1 _ _ (ha.i4 _ hlive)).2.2.1
    rw [← h2, hl] at h1
    cases h1
    rw [proto_not_holds hp] at h
    cases h

/-- nobody waits on a note that no nsync_sem_wait_with_cancel_ has been called with -/
theorem fresh_queue_nil {s : State} {k : NoteId} (ha : InvA s) (hq : InvQ s) (hf : (s.note k).fresh = true) :
    (s.note k).queue = [] := by
  cases hqu : (s.note k).queue with
  | nil => rfl
  | cons r tl =>
    have hm : r ∈ (s.note k).queue := by rw [hqu]; exact List.mem_cons_self
    obtain ⟨hl, hn, -⟩ := hq.q1 k r hm
    obtain ⟨-, -, hn', hin⟩ := ha.i1 _ _ (ha.i4 r hl)
    have := (ha.i5 _ hin).2
    rw [← hn', hn, hf] at this
    cases this

theorem q3_pop {s : State} {t : Tid} {r : Rid} {tl : List Rid} (ha : InvA s) (hq : InvQ s)
    (hp : protoMode (s.pc t) = true) (hqu : (s.note (s.rcd r).note).queue = r :: tl)
    (hl : (s.note (s.rcd r).note).lock = some t) :
    ∀ u r', (s.popped t r tl).post u = some r' →
        ((s.popped t r tl).rcd r').live = true ∧ ((s.popped t r tl).rcd r').unl = .waker
        ∧ ((s.popped t r tl).rcd r').popper = u ∧ ((s.popped t r tl).rcd r').posted = false
        ∧ ((s.popped t r tl).note ((s.popped t r tl).rcd r').note).lock = some u
        ∧ enqNL ((s.popped t r tl).pc ((s.popped t r tl).rcd r').owner) = true
        ∧ protoMode ((s.popped t r tl).pc u) = true := by
  obtain ⟨h1, h2⟩ := pop_facts ha hq hp hqu hl
  have q3 := hq.q3
  proj_simp
  intro u r' h
  by_cases hu : u = t
  · subst hu
    simp only [if_true, Option.some.injEq] at h
    subst h
    simp [h1, h2, hp, hl]
  · simp only [if_neg hu] at h
    have hr : r' ≠ r := by
      intro e; subst e
      have := (q3 u _ h).2.2.2.2.1
      rw [hl] at this; cases this; exact hu rfl
    simp only [if_neg hr]
    obtain ⟨a, b, c, d, e, f, g⟩ := q3 u r' h
    refine ⟨a, b, c, d, ?_, f, g⟩
    split <;> simp_all

theorem q3_posted {cfg : Config} {s : State} {t : Tid} {r : Rid} {j : SemId} (hq : InvQ s) (hpost : s.post t = some r) :
    ∀ u r', (s.posted cfg t r j).post u = some r' →
        ((s.posted cfg t r j).rcd r').live = true ∧ ((s.posted cfg t r j).rcd r').unl = .waker
        ∧ ((s.posted cfg t r j).rcd r').popper = u ∧ ((s.posted cfg t r j).rcd r').posted = false
        ∧ ((s.posted cfg t r j).note ((s.posted cfg t r j).rcd r').note).lock = some u
        ∧ enqNL ((s.posted cfg t r j).pc ((s.posted cfg t r j).rcd r').owner) = true
        ∧ protoMode ((s.posted cfg t r j).pc u) = true := by
  have q3 := hq.q3
  proj_simp
  intro u r' h
  by_cases hu : u = t
  · subst hu; simp at h
  · simp only [if_neg hu] at h
    have hr : r' ≠ r := by
      intro e; subst e
      have h1 := (q3 u _ h).2.2.1
      have h2 := (q3 t _ hpost).2.2.1
      exact hu (h1.symm.trans h2)
    simp only [if_neg hr]
    exact q3 u r' h

theorem q4_pop {s : State} {t : Tid} {r : Rid} {tl : List Rid} (ha : InvA s) (hq : InvQ s)
    (hp : protoMode (s.pc t) = true) (hqu : (s.note (s.rcd r).note).queue = r :: tl)
    (hl : (s.note (s.rcd r).note).lock = some t) (hf : (s.note (s.rcd r).note).flag = true) (hpost : s.post t = none) :
    ∀ r', ((s.popped t r tl).rcd r').live = true → ((s.popped t r tl).rcd r').unl = .waker →
        ((s.popped t r tl).note ((s.popped t r tl).rcd r').note).flag = true
        ∧ afterEnq ((s.popped t r tl).pc ((s.popped t r tl).rcd r').owner) = true
        ∧ (((s.popped t r tl).rcd r').posted = false →
            (s.popped t r tl).post ((s.popped t r tl).rcd r').popper = some r') := by
  obtain ⟨h1, h2⟩ := pop_facts ha hq hp hqu hl
  have q4 := hq.q4
  proj_simp
  intro r' hl' hu'
  by_cases hr : r' = r
  · subst hr
    simp [hf, enq_afterEnq (enqNL_enq h1)]
  · simp only [if_neg hr] at hl' hu' ⊢
    obtain ⟨a, b, c⟩ := q4 r' hl' hu'
    refine ⟨?_, b, ?_⟩
    · split <;> simp_all
    · intro hp'
      have := c hp'
      split
      · rename_i e; rw [e, hpost] at this; cases this
      · exact this

theorem q4_posted {cfg : Config} {s : State} {t : Tid} {r : Rid} {j : SemId} (hq : InvQ s) (hpost : s.post t = some r) :
    ∀ r', ((s.posted cfg t r j).rcd r').live = true → ((s.posted cfg t r j).rcd r').unl = .waker →
        ((s.posted cfg t r j).note ((s.posted cfg t r j).rcd r').note).flag = true
        ∧ afterEnq ((s.posted cfg t r j).pc ((s.posted cfg t r j).rcd r').owner) = true
        ∧ (((s.posted cfg t r j).rcd r').posted = false →
            (s.posted cfg t r j).post ((s.posted cfg t r j).rcd r').popper = some r') := by
  have q4 := hq.q4
  proj_simp
  intro r' hl' hu'
  by_cases hr : r' = r
  · subst hr
    simp only [if_true] at hl' hu' ⊢
    obtain ⟨a, b, -⟩ := q4 r' hl' hu'
    exact ⟨a, b, by simp⟩
  · simp only [if_neg hr] at hl' hu' ⊢
    obtain ⟨a, b, c⟩ := q4 r' hl' hu'
    refine ⟨a, b, ?_⟩
    intro hp'
    have := c hp'
    split
    · rename_i e; rw [e, hpost] at this; cases this; exact absurd rfl hr
    · exact this

/-- binding the semaphore of a call changes neither records, notes, posts nor program counters -/
theorem q4_bind_posted {cfg : Config} {s : State} {t o : Tid} {r : Rid} {j : SemId} (hq : InvQ s) (hpost : s.post t = some r) :
    ∀ r', (((s.bind o j).posted cfg t r j).rcd r').live = true → (((s.bind o j).posted cfg t r j).rcd r').unl = .waker →
        (((s.bind o j).posted cfg t r j).note (((s.bind o j).posted cfg t r j).rcd r').note).flag = true
        ∧ afterEnq (((s.bind o j).posted cfg t r j).pc (((s.bind o j).posted cfg t r j).rcd r').owner) = true
        ∧ ((((s.bind o j).posted cfg t r j).rcd r').posted = false →
            ((s.bind o j).posted cfg t r j).post (((s.bind o j).posted cfg t r j).rcd r').popper = some r') := by
  have := @q4_posted cfg s t r j hq hpost
  revert this
  proj_simp
  exact id

end SemWait
