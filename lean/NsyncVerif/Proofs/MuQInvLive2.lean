import NsyncVerif.Proofs.MuQInvLive
/-
  MuQ: preservation of ALive, part 2: steps of lock/rlock/lock_slow.
-/
namespace NsyncVerif.MuQ

theorem alive_simple {a a' : AState} (hq : AQueue a) (h : ALive a)
    (hk : (∃ t l, a' = { a with ro := setFn a.ro t (.slow (SL.entry l) .pre) } ∧ a.ro t = .quiet) ∨
          (∃ t c, a' = { a with word := { a.word with spin := false }, sp := none, ro := setFn a.ro t (.slow c .loopLd) } ∧ a.ro t = .slow c .rel) ∨
          (∃ t c k, a' = { a with ro := setFn a.ro t (.slow c .loopP) } ∧ a.ro t = .slow c .loopLd ∧ c.w = some k ∧ (a.wr k).waiting = true) ∨
          (∃ t c k, a' = { a with ro := setFn a.ro t (.slow c.woken .pre) } ∧ a.ro t = .slow c .loopLd ∧ c.w = some k ∧ (a.wr k).waiting = false)) :
    ALive a' := by
  rcases hk with ⟨t, l, rfl, hro⟩ | ⟨t, c, rfl, hro⟩ | ⟨t, c, k, rfl, hro, hw, hwt⟩ | ⟨t, c, k, rfl, hro, hw, hwt⟩
  · refine alive_role (t := t) h rfl rfl rfl rfl id id id ?_ ?_ ?_ ?_ ?_ ?_ ?_
    · rintro ⟨c, ph, hr, _⟩; rw [hro] at hr; cases hr
    · rintro (⟨sc, hr⟩ | ⟨f, hr⟩) <;> rw [hro] at hr <;> cases hr
    · intro c ph hr; rw [hro] at hr; cases hr
    · intro c ph hr; rw [hro] at hr; cases hr
    · intro c hr; cases hr
    · intro c k hr; cases hr
    · intro k r hr; rw [hro] at hr; cases hr
  · obtain ⟨k, hk1, hk2⟩ := hq.relq t c hro
    refine alive_role (t := t) h rfl rfl rfl rfl id id id ?_ ?_ ?_ ?_ ?_ ?_ ?_
    · rintro ⟨c1, ph, hr, h1⟩; rw [hro] at hr; cases hr
      rcases h1 with ⟨h1, _⟩ | ⟨h1, _⟩ <;> cases h1
    · rintro (⟨sc, hr⟩ | ⟨f, hr⟩) <;> rw [hro] at hr <;> cases hr
    · intro c1 ph hr hl; rw [hro] at hr; cases hr; exact ⟨_, _, rfl, hl⟩
    · intro c1 ph hr hl hp; rw [hro] at hr; cases hr
      exact ⟨_, _, rfl, hl, Or.inr (by rw [hk1]; rfl)⟩
    · intro c1 hr; cases hr
    · intro c1 k1 hr; cases hr
    · intro k1 r hr; rw [hro] at hr; cases hr
  · refine alive_role (t := t) h rfl rfl rfl rfl id id id ?_ ?_ ?_ ?_ ?_ ?_ ?_
    · rintro ⟨c1, ph, hr, h1⟩; rw [hro] at hr; cases hr
      rcases h1 with ⟨h1, _⟩ | ⟨_, k1, h2, h3⟩
      · cases h1
      · exact ⟨c, .loopP, by simp [setFn], Or.inr ⟨rfl, k1, h2, h3⟩⟩
    · rintro (⟨sc, hr⟩ | ⟨f, hr⟩) <;> rw [hro] at hr <;> cases hr
    · intro c1 ph hr hl; rw [hro] at hr; cases hr; exact ⟨_, _, rfl, hl⟩
    · intro c1 ph hr hl hp; rw [hro] at hr; cases hr
      exact ⟨_, _, rfl, hl, Or.inr (by rw [hw]; rfl)⟩
    · intro c1 hr; cases hr
    · intro c1 k1 hr hcw hwf; cases hr; rw [hw] at hcw; cases hcw; rw [hwt] at hwf; cases hwf
    · intro k1 r hr; rw [hro] at hr; cases hr
  · have hknq : k ∉ a.queue := fun hm => by have := (hq.inq k hm).1; rw [hwt] at this; cases this
    refine alive_role (t := t) h rfl rfl rfl rfl id id id ?_ ?_ ?_ ?_ ?_ ?_ ?_
    · intro _; exact ⟨c.woken, .pre, by simp [setFn], Or.inl ⟨rfl, rfl⟩⟩
    · rintro (⟨sc, hr⟩ | ⟨f, hr⟩) <;> rw [hro] at hr <;> cases hr
    · intro c1 ph hr hl; rw [hro] at hr; cases hr
      refine ⟨_, _, rfl, ?_⟩
      simp only [SL.woken]; split <;> simp [hl]
    · intro c1 ph hr hl hp; rw [hro] at hr; cases hr
      exact ⟨_, _, rfl, hl, Or.inr (by show c.w.isSome = true; rw [hw]; rfl)⟩
    · intro c1 hr; cases hr
    · intro c1 k1 hr; cases hr
    · intro k1 r hr; rw [hro] at hr; cases hr

end NsyncVerif.MuQ

namespace NsyncVerif.MuQ

/-- A thread acquires (fast path from a quiet role, or lock_slow from the `pre` phase). -/
theorem alive_acquire {a X : AState} {t : Tid} (h : ALive a)
    (hrt : a.ro t = .quiet ∨ ∃ c, a.ro t = .slow c .pre)
    (hro : X.ro = setFn a.ro t .quiet) (hq : X.queue = a.queue) (hts : X.ts t ≠ none)
    (hwr : ∀ k, (X.wr k).waiting = (a.wr k).waiting ∧ (X.wr k).sem = (a.wr k).sem)
    (hd : X.word.desig = true → a.word.desig = true ∧ ∀ c ph, a.ro t = .slow c ph → c.clear = false)
    (hl : X.word.lw = true → a.word.lw = true ∧ ∀ c ph, a.ro t = .slow c ph → c.lwl = false)
    (hw : X.word.ww = true → a.word.ww = true ∧ ∀ c ph, a.ro t = .slow c ph → c.l = .R) : ALive X := by
  have other : ∀ u, u ≠ t → X.ro u = a.ro u := fun u hu => by rw [hro]; simp [setFn, hu]
  have self : X.ro t = .quiet := by rw [hro]; simp [setFn]
  have hqs : ∀ k, k ∈ X.queue → k ∈ a.queue := fun k hk => by rw [hq] at hk; exact hk
  have notUn : ∀ u, Unlocking a u → u ≠ t := by
    rintro u (⟨sc, hr⟩ | ⟨f, hr⟩) e <;> subst e <;> rcases hrt with h0 | ⟨c, h0⟩ <;> rw [h0] at hr <;> cases hr
  refine ⟨?_, ?_, ?_, fun _ => Or.inl ⟨t, hts⟩, ?_⟩
  · intro hx
    obtain ⟨h1, h2⟩ := hd hx
    rcases h.desig h1 with ⟨u, hu⟩ | ⟨u, hu⟩
    · left; refine ⟨u, hu.mono (other u ?_) hqs⟩
      intro e; subst e
      obtain ⟨c, ph, hr, hc⟩ := hu
      rcases hrt with h0 | ⟨c0, h0⟩
      · rw [h0] at hr; cases hr
      · rw [h0] at hr; cases hr
        rcases hc with ⟨_, hc⟩ | ⟨hc, _⟩
        · rw [h2 c .pre h0] at hc; cases hc
        · cases hc
    · right; exact ⟨u, hu.mono (other u (notUn u hu))⟩
  · intro hx
    obtain ⟨h1, h2⟩ := hl hx
    obtain ⟨u, c, ph, hr, hc⟩ := h.lw h1
    refine ⟨u, c, ph, ?_, hc⟩
    rw [other u ?_]; exact hr
    intro e; subst e; rw [h2 c ph hr] at hc; cases hc
  · intro hx
    obtain ⟨h1, h2⟩ := hw hx
    obtain ⟨u, c, ph, hr, hc, hp⟩ := h.ww h1
    refine ⟨u, c, ph, ?_, hc, hp⟩
    rw [other u ?_]; exact hr
    intro e; subst e; rw [h2 c ph hr] at hc; cases hc
  · intro u c k hr hcw hwt
    have hu : u ≠ t := fun e => by subst e; rw [self] at hr; cases hr
    rw [other u hu] at hr; rw [(hwr k).1] at hwt; rw [(hwr k).2]
    rcases h.post u c k hr hcw hwt with h1 | ⟨v, r, hv⟩
    · exact Or.inl h1
    · right; refine ⟨v, r, ?_⟩
      rw [other v ?_]; exact hv
      intro e; subst e; rcases hrt with h0 | ⟨c0, h0⟩ <;> rw [h0] at hv <;> cases hv

/-- The enqueue CAS of lock_slow. -/
theorem alive_enq {a : AState} {t : Tid} {c : SL} (hl : ALock a) (hs : ASpin a) (hq : AQueue a) (h : ALive a)
    (hro : a.ro t = .slow c .pre) (hsp : a.word.spin = false) (hb : blocked c.l c.ign a.word = true) :
    ALive { a with word := enqWord c.l c.clear c.lwl a.word, sp := some t, ro := setFn a.ro t (.slow c .st) } := by
  have other : ∀ u, u ≠ t → setFn a.ro t (.slow c .st) u = a.ro u := fun u hu => by simp [setFn, hu]
  have self : setFn a.ro t (.slow c .st) t = .slow c .st := by simp [setFn]
  obtain ⟨⟨ok1, ok2, ok3⟩, ok4, _⟩ := hq.slok t c .pre hro
  have tIF : ∀ u, u ≠ t → InFlight a u →
      InFlight { a with word := enqWord c.l c.clear c.lwl a.word, sp := some t, ro := setFn a.ro t (.slow c .st) } u :=
    fun u hu hi => hi.mono (other u hu) (fun _ hk => hk)
  have tUn : ∀ u, Unlocking a u →
      Unlocking { a with word := enqWord c.l c.clear c.lwl a.word, sp := some t, ro := setFn a.ro t (.slow c .st) } u := by
    intro u hi
    refine hi.mono (other u ?_)
    intro e; subst e; rcases hi with ⟨sc, hr⟩ | ⟨f, hr⟩ <;> rw [hro] at hr <;> cases hr
  have tNotIF : c.clear = false → ∀ u, InFlight a u → u ≠ t := by
    intro hc u hi e; subst e
    obtain ⟨c1, ph, hr, hx⟩ := hi
    rw [hro] at hr; cases hr
    rcases hx with ⟨_, hx⟩ | ⟨hx, _⟩
    · rw [hc] at hx; cases hx
    · cases hx
  refine ⟨?_, ?_, ?_, ?_, ?_⟩
  · intro hx
    simp only [enqWord, Bool.and_eq_true, Bool.not_eq_true'] at hx
    rcases h.desig hx.1 with ⟨u, hu⟩ | ⟨u, hu⟩
    · exact Or.inl ⟨u, tIF u (tNotIF hx.2 u hu) hu⟩
    · exact Or.inr ⟨u, tUn u hu⟩
  · intro hx
    simp only [enqWord, Bool.or_eq_true] at hx
    rcases hx with hx | hx
    · obtain ⟨u, c1, ph, hr, hc⟩ := h.lw hx
      by_cases e : u = t
      · subst e; rw [hro] at hr; cases hr; exact ⟨u, c, .st, self, hc⟩
      · exact ⟨u, c1, ph, by show setFn a.ro t _ u = _; rw [other u e]; exact hr, hc⟩
    · exact ⟨t, c, .st, self, hx⟩
  · intro hx
    simp only [enqWord, Bool.or_eq_true, beq_iff_eq] at hx
    rcases hx with hx | hx
    · obtain ⟨u, c1, ph, hr, hc, hp⟩ := h.ww hx
      by_cases e : u = t
      · subst e; rw [hro] at hr; cases hr; exact ⟨u, c, .st, self, hc, Or.inl rfl⟩
      · exact ⟨u, c1, ph, by show setFn a.ro t _ u = _; rw [other u e]; exact hr, hc, hp⟩
    · exact ⟨t, c, .st, self, hx, Or.inl rfl⟩
  · intro _
    rcases blocked_cases hb with hconf | ⟨hign, hhint⟩
    · exact Or.inl (hl.holder_of_conflict hconf)
    · have hclear : c.clear = false := by rw [← ok1]; exact hign
      -- a supporting thread of the hint bit
      have key : ∃ u c1 ph1, u ≠ t ∧ a.ro u = .slow c1 ph1 ∧ c1.w.isSome = true := by
        rcases hhint with hlw | ⟨hlr, hww⟩
        · obtain ⟨u, c1, ph1, hr, hc⟩ := h.lw hlw
          obtain ⟨⟨o1, o2, o3⟩, o4, o5⟩ := hq.slok u c1 ph1 hr
          have hwc : 1 ≤ c1.wc := by have := o3.1 hc; simp only [longWaitThreshold] at this; omega
          have hcl : c1.clear = true := o2.2 hwc
          refine ⟨u, c1, ph1, ?_, hr, ?_⟩
          · intro e; subst e; rw [hro] at hr; cases hr; rw [hclear] at hcl; cases hcl
          · cases ph1 with
            | pre => rw [o4 (Or.inl rfl)]; exact hcl
            | st => rw [o4 (Or.inr rfl)]; exact hcl
            | rel => exact o5 rfl
            | loopLd => exact o5 rfl
            | loopP => exact o5 rfl
        · obtain ⟨u, c1, ph1, hr, hc, hp⟩ := h.ww hww
          have hne : u ≠ t := by
            intro e; subst e; rw [hro] at hr; cases hr; rw [hlr] at hc; cases hc
          refine ⟨u, c1, ph1, hne, hr, ?_⟩
          rcases hp with hp | hp
          · subst hp
            have := hs.no_spin_of_free hsp u; rw [hr] at this; cases this
          · exact hp
      obtain ⟨u, c1, ph1, hne, hr, hw⟩ := key
      rcases slow_inflight_or_queued hs hq hsp hr hw with hi | hne2
      · exact Or.inr (Or.inl ⟨u, tIF u hne hi⟩)
      · exact (h.resp (Or.inl hne2)).mono (fun _ hx => hx) (fun v hv => tIF v (tNotIF hclear v hv) hv) tUn
  · intro u c1 k hr hcw hwt
    have hu : u ≠ t := fun e => by
      subst e
      rw [show ({ a with word := enqWord c.l c.clear c.lwl a.word, sp := some u, ro := setFn a.ro u (.slow c .st) } : AState).ro u = setFn a.ro u (.slow c .st) u from rfl, self] at hr
      cases hr
    have hr' : a.ro u = .slow c1 .loopP := by rw [← other u hu]; exact hr
    rcases h.post u c1 k hr' hcw hwt with h1 | ⟨v, r, hv⟩
    · exact Or.inl h1
    · right; refine ⟨v, r, ?_⟩
      show setFn a.ro t _ v = _
      rw [other v ?_]; exact hv
      intro e; subst e; rw [hro] at hv; cases hv

end NsyncVerif.MuQ
