/-
  Proofs/WaitNQUpd.lean — `QI` is preserved by the elementary updates of the shared state
  (program counters unchanged): lock acquire / release, readiness changes, enqueue, pop, post,
  owner removal, dequeue mark, record birth and death, object creation, cv word changes.
-/
import NsyncVerif.Proofs.WaitNFrame2

set_option linter.unusedSimpArgs false
set_option linter.unusedVariables false

namespace WaitN

/-- changes of an object that leave its queue alone -/
theorem qi_objNoQueue {s : State} {o : ObjId} {ob : Obj} (h : QI s)
    (hq : ob.queue = (s.obj o).queue) (hk : ob.known = (s.obj o).known)
    (h5 : ∀ u r, s.post u = some r → (s.rcd r).obj = o → o.isCv = false → (s.obj o).lock = some u → ob.lock = some u)
    (h7 : o.isCv = false → wakeable o ob = true → ob.queue ≠ [] → ob.lock ≠ none)
    (h8 : ∀ n, o = .note n → dlePast ob.expiry = true → ob.queue = [])
    (h9 : ob.known = false → ob.lock = none) : QI (s.setObj o ob) := by
  constructor
  · intro o' r hr
    simp only [setObj_obj, setObj_rcd] at hr ⊢
    by_cases ho : o' = o
    · subst ho; simp only [if_true] at hr; rw [hq] at hr; exact h.q1 _ r hr
    · simp only [ho, if_false] at hr; exact h.q1 o' r hr
  · intro o'
    simp only [setObj_obj]
    by_cases ho : o' = o
    · subst ho; simp only [if_true]; rw [hq]; exact h.q2 _
    · simp only [ho, if_false]; exact h.q2 o'
  · intro r h1 h2
    simp only [setObj_rcd, setObj_obj, setObj_pc, setObj_post] at h1 h2 ⊢
    rcases h.q3 r h1 h2 with h3 | h3
    · left
      by_cases ho : (s.rcd r).obj = o
      · simp only [ho, if_true]; rw [hq, ← ho]; exact h3
      · simp only [ho, if_false]; exact h3
    · exact .inr h3
  · intro u c l hw
    simp only [setObj_pc, setObj_post, setObj_rcd, setObj_obj] at hw ⊢
    obtain ⟨h1, h2, h3⟩ := h.q4 u c l hw
    refine ⟨h1, h2, fun r hr => ?_⟩
    obtain ⟨a1, a2, a3, a4, a5⟩ := h3 r hr
    refine ⟨a1, a2, a3, a4, fun o' => ?_⟩
    by_cases ho : o' = o
    · subst ho; simp only [if_true]; rw [hq]; exact a5 _
    · simp only [ho, if_false]; exact a5 o'
  · intro u u' c l c' l' hne h1 h2; exact h.q4d u u' c l c' l' hne h1 h2
  · intro u r hpo
    simp only [setObj_post, setObj_pc, setObj_rcd, setObj_obj] at hpo ⊢
    rcases h.q5 u r hpo with h1 | ⟨a1, a2, a3, a4, a5⟩
    · exact .inl h1
    · right
      refine ⟨a1, a2, a3, ?_, a5⟩
      by_cases ho : (s.rcd r).obj = o
      · simp only [ho, if_true]; exact h5 u r hpo ho (ho ▸ a3) (ho ▸ a4)
      · simp only [ho, if_false]; exact a4
  · exact h.q6
  · intro o' hcv
    simp only [setObj_obj]
    by_cases ho : o' = o
    · subst ho; simp only [if_true]; exact h7 hcv
    · simp only [ho, if_false]; exact h.q7 o' hcv
  · intro n
    simp only [setObj_obj]
    by_cases ho : ObjId.note n = o
    · simp only [ho, if_true]; exact h8 n ho.symm
    · simp only [ho, if_false]; exact h.q8 n
  · intro o'
    simp only [setObj_obj]
    by_cases ho : o' = o
    · subst ho; simp only [if_true]; intro hkn; exact ⟨by rw [hq]; exact (h.q9 _ (hk ▸ hkn)).1, h9 hkn⟩
    · simp only [ho, if_false]; exact h.q9 o'
  · intro c
    simp only [setObj_obj]
    by_cases ho : ObjId.cv c = o
    · simp only [ho, if_true]; rw [hk, ← ho]; exact h.q10 c
    · simp only [ho, if_false]; exact h.q10 c
  · exact h.q11

/-- the lock of an object is acquired -/
theorem qi_lockAcq {s : State} {o : ObjId} {t : Tid} (h : QI s) (hn : (s.obj o).lock = none)
    (hk : (s.obj o).known = true) : QI (s.setObj o { s.obj o with lock := some t }) := by
  refine qi_objNoQueue h ?_ ?_ ?_ ?_ ?_ ?_
  · rfl
  · rfl
  · intro u r _ _ _ hl; rw [hn] at hl; cases hl
  · intro _ _ _; simp
  · intro n ho hd; subst ho; exact h.q8 n hd
  · intro hkn; simp only at hkn; rw [hk] at hkn; cases hkn

/-- the lock of an object is released -/
theorem qi_lockRel {s : State} {o : ObjId} {t : Tid} (h : QI s) (hl : (s.obj o).lock = some t)
    (hp : s.post t = none)
    (hw : o.isCv = false → wakeable o (s.obj o) = true → (s.obj o).queue = []) :
    QI (s.setObj o { s.obj o with lock := none }) := by
  refine qi_objNoQueue h ?_ ?_ ?_ ?_ ?_ ?_
  · rfl
  · rfl
  · intro u r hpo _ _ hlu; rw [hl] at hlu; cases hlu; rw [hp] at hpo; cases hpo
  · intro hcv hwk hq
    have : wakeable o (s.obj o) = true := by cases o <;> simpa [wakeable] using hwk
    exact absurd (hw hcv this) hq
  · intro n ho hd; subst ho; exact h.q8 n hd
  · intro _; rfl

/-- a note is notified (note_mu held) -/
theorem qi_setFlag {s : State} {n : Nat} {t : Tid} (h : QI s) (hl : (s.obj (.note n)).lock = some t) :
    QI (s.setObj (.note n) { s.obj (.note n) with flag := true }) := by
  refine qi_objNoQueue h ?_ ?_ ?_ ?_ ?_ ?_
  · rfl
  · rfl
  · intro u r _ _ _ hlu; exact hlu
  · intro _ _ _; simp [hl]
  · intro n' ho hd; cases ho; exact h.q8 n hd
  · intro hkn; exact (h.q9 _ hkn).2

/-- `waited` of a counter is set (no lock needed: readiness does not depend on it) -/
theorem qi_setWaited {s : State} {k : Nat} (h : QI s) :
    QI (s.setObj (.ctr k) { s.obj (.ctr k) with flag := true }) := by
  refine qi_objNoQueue h ?_ ?_ ?_ ?_ ?_ ?_
  · rfl
  · rfl
  · intro u r _ _ _ hlu; exact hlu
  · intro hcv hwk hq; exact h.q7 _ hcv (by simpa [wakeable] using hwk) hq
  · intro n' ho; cases ho
  · intro hkn; exact (h.q9 _ hkn).2

/-- the value of a counter changes (counter_mu held) -/
theorem qi_setValue {s : State} {k v : Nat} {t : Tid} (h : QI s) (hl : (s.obj (.ctr k)).lock = some t) :
    QI (s.setObj (.ctr k) { s.obj (.ctr k) with value := v }) := by
  refine qi_objNoQueue h ?_ ?_ ?_ ?_ ?_ ?_
  · rfl
  · rfl
  · intro u r _ _ _ hlu; exact hlu
  · intro _ _ _; simp [hl]
  · intro n' ho; cases ho
  · intro hkn; exact (h.q9 _ hkn).2

/-- a note / counter is created -/
theorem qi_newObj {s : State} {o : ObjId} {e : Deadline} {v : Nat} (h : QI s) (hk : (s.obj o).known = false) :
    QI (s.setObj o { s.obj o with known := true, expiry := e, value := v }) := by
  have h9 := h.q9 o hk
  constructor
  · intro o' r hr
    simp only [setObj_obj, setObj_rcd] at hr ⊢
    by_cases ho : o' = o
    · subst ho; simp only [if_true] at hr; exact h.q1 _ r hr
    · simp only [ho, if_false] at hr; exact h.q1 o' r hr
  · intro o'; simp only [setObj_obj]; split
    · rename_i ho; subst ho; exact h.q2 _
    · exact h.q2 o'
  · intro r h1 h2
    simp only [setObj_rcd, setObj_obj, setObj_pc, setObj_post] at h1 h2 ⊢
    rcases h.q3 r h1 h2 with h3 | h3
    · left; split
      · rename_i ho; rw [ho] at h3; exact h3
      · exact h3
    · exact .inr h3
  · intro u c l hw
    simp only [setObj_pc, setObj_post, setObj_rcd, setObj_obj] at hw ⊢
    obtain ⟨h1, h2, h3⟩ := h.q4 u c l hw
    refine ⟨h1, h2, fun r hr => ?_⟩
    obtain ⟨a1, a2, a3, a4, a5⟩ := h3 r hr
    refine ⟨a1, a2, a3, a4, fun o' => ?_⟩
    split
    · rename_i ho; subst ho; exact a5 _
    · exact a5 o'
  · intro u u' c l c' l' hne h1 h2; exact h.q4d u u' c l c' l' hne h1 h2
  · intro u r hpo
    simp only [setObj_post, setObj_pc, setObj_rcd, setObj_obj] at hpo ⊢
    rcases h.q5 u r hpo with h1 | ⟨a1, a2, a3, a4, a5⟩
    · exact .inl h1
    · right; refine ⟨a1, a2, a3, ?_, a5⟩
      split
      · rename_i ho; rw [ho] at a4; exact a4
      · exact a4
  · exact h.q6
  · intro o' hcv
    simp only [setObj_obj]
    split
    · rename_i ho; subst ho; intro _ hq; exact absurd h9.1 hq
    · exact h.q7 o' hcv
  · intro n
    simp only [setObj_obj]
    split
    · rename_i ho; intro _; exact h.q9 o hk |>.1
    · exact h.q8 n
  · intro o'
    simp only [setObj_obj]
    split
    · intro hkn; cases hkn
    · exact h.q9 o'
  · intro c
    simp only [setObj_obj]
    split
    · rfl
    · exact h.q10 c
  · exact h.q11

/-- a change of the word of a cv that keeps its queue (spinlock acquire / release, NON_EMPTY bit) -/
theorem qi_cvWord {s : State} {c : Nat} {ob : Obj} (h : QI s) (hq : ob.queue = (s.obj (.cv c)).queue)
    (hk : ob.known = (s.obj (.cv c)).known) : QI (s.setObj (.cv c) ob) := by
  refine qi_objNoQueue h hq hk ?_ ?_ ?_ ?_
  · intro u r _ _ hcv; cases hcv
  · intro hcv; cases hcv
  · intro n ho; cases ho
  · intro hkn; rw [hk, h.q10 c] at hkn; cases hkn

end WaitN
