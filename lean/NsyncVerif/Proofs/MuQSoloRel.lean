import NsyncVerif.Proofs.MuQSolo
/-
  MuQ, solo progress of the releasing operations: every accepted own step of a thread inside
  unlock / runlock / unlock_slow, taken in a state in which the spinlock is free or its own, returns
  or decreases `relRank` — except a FAILED CAS on `remove_count` (memory this mutex does not own:
  the acceptor accepts such a failure whenever the log reports one), which costs one extra load.
-/
namespace NsyncVerif.MuQ

/-- What one own step `e` of a releasing thread achieves. -/
def RelNext (s : State) (t : Tid) (e : Event) (s' : State) : Prop :=
  s'.pc t = .idle ∨
    (relPc (s'.pc t) = true ∧ (s'.sp = none ∨ s'.sp = some t) ∧
      (if e.rcFail = true then
        relRank s'.word s'.queue.length (s'.pc t) ≤ relRank s.word s.queue.length (s.pc t) + 1
       else relRank s'.word s'.queue.length (s'.pc t) < relRank s.word s.queue.length (s.pc t)))

theorem scanAdvance_rank (s : State) (t : Tid) (l : Mode) (sc : Scan) (w : Word) (q : Nat) :
    relPc ((scanAdvance s t l sc).pc t) = true ∧
      relRank w q ((scanAdvance s t l sc).pc t) + 1 ≤ scanRank sc + 5 := by
  obtain ⟨h1, h2⟩ := scanGo_rank (fun k => (s.wr k).lType) sc.todo sc
  simp only [scanAdvance]
  split
  · rename_i k sc' heq
    obtain ⟨a, b⟩ := h1 k sc' heq
    simp only [setPc, setFn_same, relPc, relRank, scanRank, true_and]
    omega
  · rename_i sc' heq
    have b := h2 sc' heq
    simp only [setPc, setFn_same, relPc, relRank, scanRank, mkFin, true_and]
    omega

theorem solo_rel_ld {s s' : State} {t : Tid} {o : Ord} {loc : Loc} {obs : Nat}
    (hpc : relPc (s.pc t) = true) (hsp : s.sp = none ∨ s.sp = some t)
    (hspin : (role (s.pc t)).spin = false → s.word.spin = false)
    (h : stepLd s t o loc obs = .ok s') : RelNext s t (.ld t o loc obs) s' := by
  unfold stepLd at h
  cases hp : s.pc t <;> simp only [hp, relPc] at hpc h hspin <;> try (cases hpc; done)
  all_goals try (cases h; done)
  case ulLd l =>
    right
    cases l <;> simp only at h <;> split at h <;> try (cases h; done)
    all_goals (have h := ldWord_ok h; subst h)
    all_goals split <;> simp [setPc, relRank, hp, hsp, relPc, Event.rcFail] <;> omega
  case usLd l =>
    right
    split at h <;> try (cases h; done)
    have h := ldWord_ok h; subst h
    have hs0 : s.word.spin = false := hspin rfl
    split
    · simp [setPc, relRank, hp, hsp, relPc, Event.rcFail]
    · simp [setPc, relRank, hp, hsp, relPc, Event.rcFail, hs0]
  case usRcLd l sc k =>
    right
    repeat' split at h
    all_goals first | (cases h; done) | skip
    cases h
    simp [setPc, relRank, hp, hsp, relPc, Event.rcFail]
  case usFinLd l f =>
    right
    have h := ldWord_ok h; subst h
    simp [setPc, relRank, hp, hsp, relPc, Event.rcFail]

theorem solo_rel_cas {s s' : State} {t : Tid} {o : Ord} {loc : Loc} {exp new obs : Nat} {ok : Bool}
    (hpc : relPc (s.pc t) = true) (hsp : s.sp = none ∨ s.sp = some t)
    (h : stepCas s t o loc exp new obs ok = .ok s') : RelNext s t (.cas t o loc exp new obs ok) s' := by
  unfold stepCas at h
  cases hp : s.pc t <;> simp only [hp, relPc] at hpc h <;> try (cases hpc; done)
  all_goals try (cases h; done)
  case ulCas0 l =>
    right
    have hloc := (casWord_loc h).1; subst hloc
    rcases casWord_ok h with ⟨hw, _, rfl⟩ | ⟨hw, _, rfl⟩
    · simp [setPc, relRank, hp, hsp, relPc, Event.rcFail]
    · simp [setPc, relRank, hp, hsp, relPc, Event.rcFail]
  case ulCas1 l old =>
    right
    have hloc := (casWord_loc h).1; subst hloc
    rcases casWord_ok h with ⟨hw, _, rfl⟩ | ⟨hw, _, rfl⟩
    · simp [setPc, relRank, hp, hsp, relPc, Event.rcFail, hw]
    · simp [setPc, relRank, hp, hsp, relPc, Event.rcFail, hw]
  case usCasUnc l old =>
    right
    have hloc := (casWord_loc h).1; subst hloc
    rcases casWord_ok h with ⟨hw, _, rfl⟩ | ⟨hw, _, rfl⟩
    · simp [setPc, relRank, hp, hsp, relPc, Event.rcFail, hw]
    · simp [setPc, relRank, hp, hsp, relPc, Event.rcFail, hw]
  case usCasGrab l old =>
    right
    have hloc := (casWord_loc h).1; subst hloc
    rcases casWord_ok h with ⟨hw, _, rfl⟩ | ⟨hw, _, rfl⟩
    · obtain ⟨a, b⟩ := scanAdvance_rank (subShare { s with word := grabWord l old, sp := some t } t l) t l
        { wake := [], todo := s.queue, wt := none, sww := false, saf := true }
        (scanAdvance (subShare { s with word := grabWord l old, sp := some t } t l) t l
          { wake := [], todo := s.queue, wt := none, sww := false, saf := true }).word
        (scanAdvance (subShare { s with word := grabWord l old, sp := some t } t l) t l
          { wake := [], todo := s.queue, wt := none, sww := false, saf := true }).queue.length
      refine ⟨a, by simp, ?_⟩
      have hrk : relRank s.word s.queue.length (s.pc t) = 4 * s.queue.length + 7 := by
        rw [hp]; simp [relRank, hw]
      simp only [Event.rcFail, Bool.false_eq_true, if_false]
      rw [hrk]
      simp only [scanRank, List.length_nil] at b
      omega
    · simp [setPc, relRank, hp, hsp, relPc, Event.rcFail, hw]
  case usRcCas l sc k old =>
    right
    have hrk : relRank s.word s.queue.length (s.pc t) = scanRank sc + 5 := by
      rw [hp]; simp [relRank]
    by_cases hloc : loc = .rc k
    case neg => (simp [hloc] at h; split at h <;> cases h)
    subst hloc
    cases ok
    · -- failure
      simp only [Bool.false_eq_true, if_false] at h
      repeat' split at h
      all_goals first | (cases h; done) | skip
      cases h
      refine ⟨by simp [setPc, relPc], by simpa [setPc] using hsp, ?_⟩
      simp only [Event.rcFail, if_true]
      rw [hrk]
      simp [setPc, relRank]
    · -- success
      simp only [if_true] at h
      repeat' split at h
      all_goals first | (cases h; done) | skip
      cases h
      obtain ⟨a, b⟩ := scanAdvance_rank s t l sc (scanAdvance s t l sc).word (scanAdvance s t l sc).queue.length
      refine ⟨a, by simpa using hsp, ?_⟩
      simp only [Event.rcFail, Bool.false_eq_true, if_false]
      rw [hrk]
      omega
  case usFinCas l f old =>
    right
    have hloc := (casWord_loc h).1; subst hloc
    rcases casWord_ok h with ⟨hw, _, rfl⟩ | ⟨hw, _, rfl⟩
    · cases hf : f.wake <;> simp [afterFin, setPc, relRank, hp, relPc, Event.rcFail, hw, hf]
      omega
    · simp [setPc, relRank, hp, hsp, relPc, Event.rcFail, hw]

/-- One own step of a releasing thread. -/
theorem solo_rel_step {cfg : Cfg} {s s' : State} {t : Tid} {e : Event}
    (hr : Reachable cfg s) (hpc : relPc (s.pc t) = true)
    (hsp : s.sp = none ∨ s.sp = some t) (he : e.tid = some t)
    (h : step cfg s e = .ok s') : RelNext s t e s' := by
  have inv := reachable_inv hr
  have hspin : (role (s.pc t)).spin = false → s.word.spin = false := by
    intro hf
    have hb : s.word.spin = s.sp.isSome := inv.spin.bit
    rcases hsp with h1 | h1
    · rw [hb, h1]; rfl
    · have := (inv.spin.own t).1 h1
      have h2 : (role (s.pc t)).spin = true := this
      rw [hf] at h2; cases h2
  cases e <;> simp only [Event.tid, Option.some.injEq, reduceCtorEq] at he <;> try subst he
  case call t a =>
    simp only [step, stepCall] at h
    cases hp : s.pc t <;> simp [hp, relPc] at hpc h
  case ret t a res =>
    obtain ⟨hd, rfl⟩ := stepRet_shape h
    left; simp [setPc]
  case ld t o loc obs => exact solo_rel_ld hpc hsp hspin h
  case st t o loc new obs =>
    simp only [step, stepSt] at h
    cases hp : s.pc t <;> simp only [hp, relPc] at hpc h <;> try (cases hpc; done)
    all_goals try (cases h; done)
    repeat' split at h
    all_goals first | (cases h; done) | skip
    cases h
    right
    simp [setPc, relRank, hp, hsp, relPc, Event.rcFail]
  case cas t o loc exp new obs ok => exact solo_rel_cas hpc hsp h
  case semPEnter t k =>
    simp only [step] at h
    cases hp : s.pc t <;> simp only [hp, relPc] at hpc h <;> try (cases hpc; done)
    all_goals try (cases h; done)
  case semPRet t k =>
    simp only [step] at h
    cases hp : s.pc t <;> simp only [hp, relPc] at hpc h <;> try (cases hpc; done)
    all_goals try (cases h; done)
  case semV t k =>
    simp only [step] at h
    cases hp : s.pc t <;> simp only [hp, relPc] at hpc h <;> try (cases hpc; done)
    all_goals try (cases h; done)
    split at h <;> try (cases h; done)
    cases h
    rename_i l k' r _
    right
    cases r <;> simp [afterFin, semPost, setPc, relRank, hp, hsp, relPc, Event.rcFail] <;> omega

def rcFails (evs : List Event) : Nat := (evs.filter Event.rcFail).length

/-- An accepted run of own events of a releasing thread that is longer than the rank plus twice
    the number of failed `remove_count` CASes in it passes through a state in which the thread has
    returned. -/
theorem solo_rel_run {cfg : Cfg} {t : Tid} : ∀ (evs : List Event) (s s' : State),
    Reachable cfg s → relPc (s.pc t) = true → (s.sp = none ∨ s.sp = some t) →
    (∀ e ∈ evs, e.tid = some t) → run cfg s evs = .ok s' →
    relRank s.word s.queue.length (s.pc t) + 2 * rcFails evs < evs.length →
    ∃ n, n ≤ evs.length ∧ ∃ s1, run cfg s (evs.take n) = .ok s1 ∧ s1.pc t = .idle := by
  intro evs
  induction evs with
  | nil => intro s s' _ _ _ _ _ hlt; simp at hlt
  | cons e es ih =>
    intro s s' hr hpc hsp hown hrun hlt
    simp only [run] at hrun
    split at hrun
    · rename_i s1 hs1
      rcases solo_rel_step hr hpc hsp (hown e (by simp)) hs1 with hidle | ⟨hpc', hsp', hrk⟩
      · exact ⟨1, by simp, s1, by simp [run, hs1], hidle⟩
      · have hlt' : relRank s1.word s1.queue.length (s1.pc t) + 2 * rcFails es < es.length := by
          simp only [rcFails, List.filter_cons, List.length_cons] at hlt ⊢
          cases hf : e.rcFail
          · simp [hf] at hlt hrk
            omega
          · simp [hf] at hlt hrk
            omega
        obtain ⟨n, hn, s2, hrun2, hid⟩ := ih s1 s' (reachable_step hr hs1) hpc' hsp'
          (fun e' he' => hown e' (by simp [he'])) hrun hlt'
        exact ⟨n + 1, by simp; omega, s2, by simp [run, hs1, hrun2], hid⟩
    · cases hrun

/-- The rank of a releasing thread is linear in the length of the queue and of its private wake list. -/
theorem relRank_le {cfg : Cfg} {s : State} (hr : Reachable cfg s) (t : Tid) :
    relRank s.word s.queue.length (s.pc t) ≤ 4 * s.queue.length + 2 * (role (s.pc t)).wake.length + 11 := by
  have inv := reachable_inv hr
  have htodo : ∀ sc, role (s.pc t) = .scan sc → sc.todo.length ≤ s.queue.length := by
    intro sc hsc
    obtain ⟨pre, hpre⟩ := inv.queue.scant t sc hsc
    have : s.queue = pre ++ sc.todo := hpre
    rw [this]; simp
  cases hp : s.pc t <;> simp only [relRank, role, Role.wake, scanRank, List.length_nil, List.length_cons] <;>
    (try split) <;> (try omega)
  · have := htodo _ (by rw [hp]; rfl); omega
  · have := htodo _ (by rw [hp]; rfl); omega

theorem relPc_of_inRelease {p : PC} (h : inRelease p) : relPc p = true := by
  cases p <;> simp [inRelease] at h <;> rfl

end NsyncVerif.MuQ
