/-
  Composition CvFix × MuX × vector clocks: preservation of the edge invariant `JI` by the events of
  the CvFix layer (among them cv.c's own accesses to a mutex word, which are also events of the
  mutex protocol), and the invariant over all reachable joint states.
-/
import NsyncVerif.Proofs.CvMuVCInv

namespace NsyncVerif.CvMu
open NsyncVerif NsyncVerif.CvFix

/-! ### the ghost updates, event by event -/

theorem ccE_le (cc : Tid → VC.Clock) (c : VC.St XLoc) (e : Event)
    (h : ∀ u, VC.Clock.le (cc u) (c.vc u)) (u : Tid) : VC.Clock.le (ccE cc c e u) (c.vc u) := by
  cases e <;> try exact h u
  case callSignal t =>
    simp only [ccE]
    by_cases hu : u = t
    · subst hu; rw [VC.upd_same]; exact VC.Clock.le_refl _
    · rw [VC.upd_other _ _ hu]; exact h u
  case callBroadcast t =>
    simp only [ccE]
    by_cases hu : u = t
    · subst hu; rw [VC.upd_same]; exact VC.Clock.le_refl _
    · rw [VC.upd_other _ _ hu]; exact h u

theorem xtE_other (p : JP) (e : Event) (t : Tid) (h : xwTid e ≠ some t) : xtE p e t = p.xt t := by
  cases e <;> try rfl
  case callWait t' gen dl note =>
    simp only [xwTid, ne_eq, Option.some.injEq] at h
    simp only [xtE]
    exact VC.upd_other _ _ (fun hh => h hh.symm)
  case recLd t' site r obs =>
    cases site <;> try rfl
    cases obs with
    | succ k => rfl
    | zero =>
      simp only [xwTid, ne_eq, Option.some.injEq] at h
      simp only [xtE]
      exact VC.upd_other _ _ (fun hh => h hh.symm)

theorem xtE_cases (p : JP) (e : Event) (t : Tid) :
    xtE p e t = p.xt t ∨ xtE p e t = none ∨
    ∃ r, e = .recLd t .wHead r 0 ∧
      xtE p e t = if (p.j.s.recs r).stat = .xfer then p.xf r else none := by
  by_cases h : xwTid e = some t
  · cases e <;> simp only [xwTid, reduceCtorEq] at h
    case callWait t' gen dl note =>
      cases h
      right; left; simp only [xtE]; exact VC.upd_same _ _ _
    case recLd t' site r obs =>
      cases site <;> try (simp at h; done)
      cases obs with
      | succ k => simp at h
      | zero =>
        simp only [Option.some.injEq] at h
        subst h
        right; right
        exact ⟨r, rfl, by simp only [xtE]; exact VC.upd_same _ _ _⟩
  · exact .inl (xtE_other p e t h)

theorem xfE_keep (p : JP) (s' : State) (e : Event) (r : Rid) (h : newly p.j.s s' r = false) :
    xfE p s' e r = p.xf r := by
  cases e <;> try rfl
  case muCas u site exp new obs ok =>
    cases site <;> try rfl
    cases ok <;> try rfl
    simp [xfE, h]

/-- cv.c's accesses to a mutex word as events of the mutex protocol. -/
theorem muxOf_some {e : Event} {x : MuX.Ev} (h : muxOf e = some x) :
    (∃ t site obs, e = .muLd t site obs ∧ x = .ld t obs) ∨
    (∃ t site exp new obs, e = .muCas t site exp new obs false ∧ x = .casFail t exp obs) ∨
    (∃ t site exp new obs, e = .muCas t site exp new obs true ∧ x = .cas t exp new (ordX (mOrd site))) := by
  cases e <;> simp only [muxOf, reduceCtorEq, Option.some.injEq] at h
  case muLd t site obs => exact .inl ⟨t, site, obs, rfl, h.symm⟩
  case muCas t site exp new obs ok =>
    cases ok
    · exact .inr (.inl ⟨t, site, exp, new, obs, rfl, by simpa using h.symm⟩)
    · exact .inr (.inr ⟨t, site, exp, new, obs, rfl, by simpa using h.symm⟩)

theorem reloc_fld {m : MuId} {l : VLoc} {r : Rid} {f : Fld} (h : reloc m l = .fld r f) : l = .fld r f := by
  cases l <;> simp [reloc] at h ⊢
  exact h

/-! ### preservation -/

theorem ji_step_cv {cfg : Config} {p : JP} {e : Event} {m : MuId} {o : VC.Ord} {j' : JState}
    (hr : Reachable cfg p.j.s) (hi : JI p) (h : jstep cfg p.j (.cv e m o) = .ok j') :
    JI (jpnext p (.cv e m o) j') := by
  obtain ⟨hs, hm, hg⟩ := jstep_cv h
  have G := ghost_cv hg
  have hI := inv_reachable hr
  have hf := invF_reachable hr
  have htr := step_tr hs
  have hmono := xc_mono p.c (.cv e m o)
  constructor
  · -- call
    intro u
    exact VC.Clock.le_trans (ccE_le p.cc p.c e hi.call u) (hmono u)
  · -- xfer
    intro r hw'
    have hw'' : (j'.s.recs r).stat = .xfer := hw'
    rcases xfer_entry hI.a htr r hw'' with ⟨hw, hu⟩ | ⟨u, exp, new, obs, rfl, hst, hu, hl⟩
    · -- transferred before
      have hn := newly_false_of_xfer (s' := j'.s) hw
      obtain ⟨w, hxf, R⟩ := hi.xfer r hw
      obtain ⟨gx, gg, gp⟩ := G.old r hn
      refine ⟨w, ?_, ?_⟩
      · show xfE p j'.s e r = some w
        rw [xfE_keep p j'.s e r hn]; exact hxf
      · constructor
        · show (j'.s.recs r).unl = _
          rw [hu]; exact R.unl
        · exact R.call
        · -- not published
          intro hp
          have hp' : j'.g.pub r = false := hp
          have hnp : ∀ exp new obs, e ≠ .muCas w.by_ .wwRelCas exp new obs true := by
            intro exp new obs he
            have := G.publ w.by_ exp new obs he r hw R.unl
            rw [this] at hp'; cases hp'
          have hpo : p.j.g.pub r = false := by
            rcases gp with h1 | ⟨_, _, _, _, _, _, _, _, h1⟩
            · rw [← h1]; exact hp'
            · rw [h1] at hp'; cases hp'
          obtain ⟨a1, a2, a3, a4⟩ := R.unpub hpo
          have hheld : (j'.s.thr w.by_).loc.muHeld = true := by
            rcases mu_leave htr w.by_ a1 with h6 | ⟨exp, new, obs, he⟩
            · exact h6
            · exact absurd he (hnp exp new obs)
          have htm : j'.g.tm w.by_ = p.j.g.tm w.by_ := by
            rcases G.tm w.by_ with h1 | ⟨exp, new, obs, he⟩
            · exact h1
            · subst he
              rcases muCas_accepted hs with ⟨_, hl⟩ | ⟨hc, _⟩
              · rw [hl] at a1; cases a1
              · cases hc
          show (j'.s.thr w.by_).loc.muHeld = true ∧ j'.g.tm w.by_ = j'.g.xm r ∧
            VC.Clock.le w.clk ((xcstep p.c (.cv e m o)).vc w.by_) ∧ (j'.mx (j'.g.xm r)).sp = some w.by_
          rw [gx, htm]
          refine ⟨hheld, a2, VC.Clock.le_trans a3 (hmono _), ?_⟩
          rcases muxStep_sp hm (p.j.g.xm r) with h1 | ⟨_, t, exp, new, ord, _, _, h3, _⟩ | ⟨_, x, hx, h2, _, h5⟩
          · rw [h1]; exact a4
          · rw [a4] at h3; cases h3
          · -- the holder gives the spinlock up: that is the waker's cv.c/3, which publishes
            exfalso
            rw [a4] at h2
            have htid : w.by_ = x.tid := Option.some.inj h2
            rcases muxOf_some hx with ⟨t, site, obs, rfl, rfl⟩ | ⟨t, site, exp, new, obs, rfl, rfl⟩ |
              ⟨t, site, exp, new, obs, rfl, rfl⟩
            · rcases h5 with ⟨_, _, _, _, h⟩ | ⟨_, _, _, h⟩ <;> cases h
            · rcases h5 with ⟨_, _, _, _, h⟩ | ⟨_, _, _, h⟩ <;> cases h
            · have htt : w.by_ = t := htid
              rcases muCas_accepted hs with ⟨_, hl⟩ | ⟨hc, _⟩
              · rw [htt, hl] at a1; cases a1
              · subst hc
                exact hnp exp new obs (by rw [htt])
        · -- published
          intro hp
          show VC.Clock.le w.clk ((xcstep p.c (.cv e m o)).relc (.mu (j'.g.xm r))) ∧
            ∀ v, (j'.mx (j'.g.xm r)).sp = some v → VC.Clock.le w.clk ((xcstep p.c (.cv e m o)).vc v)
          rw [gx]
          cases hpo : p.j.g.pub r with
          | true =>
            obtain ⟨b1, b2⟩ := R.pub hpo
            constructor
            · exact xc_keep_cv p.c e m o _ _ (fun l hl => reloc_ne_mu m _ e l hl) b1
            · intro v hv
              rcases muxStep_sp hm (p.j.g.xm r) with h1 | ⟨hk, t, exp, new, ord, hx, ha, _, h4⟩ | ⟨_, x, _, _, h3, _⟩
              · rw [h1] at hv; exact VC.Clock.le_trans (b2 v hv) (hmono v)
              · rw [h4] at hv
                have hvt : t = v := Option.some.inj hv
                subst hvt
                rcases muxOf_some hx with ⟨_, _, _, _, hxe⟩ | ⟨_, _, _, _, _, _, hxe⟩ |
                  ⟨t', site, exp', new', obs, rfl, hxe⟩
                · cases hxe
                · cases hxe
                · cases hxe
                  rw [hk] at b1
                  refine VC.Clock.le_trans b1 (xc_cvAcq p.c t site exp new obs m o ?_)
                  rw [← mOrd_siteOrd, ← ordX_isAcq]; exact ha
              · rw [h3] at hv; cases hv
          | false =>
            -- published by this very event: the waker's cv.c/3
            have hp' : j'.g.pub r = true := hp
            rcases gp with h1 | ⟨u, exp, new, obs, rfl, hmu, _, hunl, _⟩
            · rw [h1, hpo] at hp'; cases hp'
            · have hby : w.by_ = u := by
                have := R.unl; rw [hunl] at this
                simp only [List.cons.injEq, Unl.waker.injEq, and_true] at this
                exact this.symm
              subst hby
              obtain ⟨a1, a2, a3, a4⟩ := R.unpub hpo
              have hmx : m = p.j.g.xm r := by rw [hmu]; exact a2
              constructor
              · rw [← hmx]
                exact VC.Clock.le_trans a3 (xc_pub p.c w.by_ exp new obs m o)
              · intro v hv
                rcases muxStep_sp hm (p.j.g.xm r) with h1 | ⟨_, t, exp', new', ord, _, _, h3, _⟩ | ⟨_, x, _, _, h3, _⟩
                · rw [h1, a4] at hv
                  have : w.by_ = v := Option.some.inj hv
                  rw [← this]
                  exact VC.Clock.le_trans a3 (hmono _)
                · rw [a4] at h3; cases h3
                · rw [h3] at hv; cases hv
        · -- got
          intro v hv
          have hv' : p.j.g.got v r = true := by rw [← gg v]; exact hv
          exact VC.Clock.le_trans (R.got v hv') (hmono v)
        · -- woke
          intro hwt
          have hwt' : (j'.s.recs r).waiting = false := hwt
          by_cases hfs : ∃ v new, e = .fSt v r .waiting new
          · obtain ⟨v, new, rfl⟩ := hfs
            obtain ⟨hle, hwv⟩ := fSt_waiting hs
            rw [hwv] at hwt'
            have hn0 : new = 0 := by
              have : ¬ new = 1 := by simpa using hwt'
              omega
            subst hn0
            obtain ⟨k4, k5⟩ := G.wake v r rfl hw
            exact VC.Clock.le_trans (R.got v k5) (xc_fSt p.c v r 0 m o k4)
          · have hne : ∀ v new, e ≠ .fSt v r .waiting new := fun v new he => hfs ⟨v, new, he⟩
            have hfr := xfer_frame hI htr r hw'' hne
            have hwo : (p.j.s.recs r).waiting = false := by rw [← hfr]; exact hwt'
            refine xc_keep_cv p.c e m o _ _ ?_ (R.woke hwo)
            intro l hl hloc
            have := reloc_fld hloc
            subst this
            obtain ⟨v, new, he⟩ := xfer_no_store hI hs r hw hl
            exact hne v new he
    · -- transferred by this event: cv.c/1 of `u` succeeded
      have hne : (p.j.s.recs r).stat ≠ .xfer := by rw [hst]; simp
      have hn := newly_true hw'' hne
      obtain ⟨k1, ktm, kr⟩ := G.enter u exp new obs rfl
      obtain ⟨kx, kp, kg⟩ := kr r hn
      refine ⟨⟨u, p.c.vc u, p.cc u⟩, ?_, ?_⟩
      · show xfE p j'.s (.muCas u .wwCas exp new obs true) r = _
        simp [xfE, hn]
      · constructor
        · show (j'.s.recs r).unl = _
          rw [hu]; exact hf.unlL r u hst
        · exact hi.call u
        · intro _
          show (j'.s.thr u).loc.muHeld = true ∧ j'.g.tm u = j'.g.xm r ∧
            VC.Clock.le (p.c.vc u) ((xcstep p.c (.cv (.muCas u .wwCas exp new obs true) m o)).vc u) ∧
            (j'.mx (j'.g.xm r)).sp = some u
          rw [hl, ktm, kx]
          exact ⟨rfl, rfl, hmono u, k1⟩
        · intro hp
          have hp' : j'.g.pub r = true := hp
          rw [kp] at hp'; cases hp'
        · intro v hv
          have hv' : j'.g.got v r = true := hv
          rw [kg v] at hv'; cases hv'
        · intro hwt
          have hwt' : (j'.s.recs r).waiting = false := hwt
          exfalso
          have hfr := xfer_frame hI htr r hw'' (by intro v new he; cases he)
          have := hI.b.lWait r u hst
          rw [← hfr, hwt'] at this
          cases this
  · -- seen
    intro t w hx
    have hx' : xtE p e t = some w := hx
    rcases xtE_cases p e t with h1 | h1 | ⟨r, rfl, h1⟩
    · rw [h1] at hx'
      obtain ⟨a, b⟩ := hi.seen t w hx'
      exact ⟨VC.Clock.le_trans a (hmono t), b⟩
    · rw [h1] at hx'; cases hx'
    · rw [h1] at hx'
      split at hx'
      · rename_i hw
        obtain ⟨w', hxf, R⟩ := hi.xfer r hw
        rw [hxf] at hx'; cases hx'
        obtain ⟨hl, _, _, hl', _⟩ := wHead_exit_accepted hs
        have hwt : (p.j.s.recs r).waiting = false := by
          rcases (tfacts_tr hf htr t).exit (by rw [hl']; rfl) with ⟨h0, _⟩ | ⟨r', he, _, _, hwt, _⟩
          · rw [hl] at h0; cases h0
          · cases he; exact hwt
        exact ⟨VC.Clock.le_trans (R.woke hwt) (xc_wHead p.c t r 0 m o), R.call⟩
      · cases hx'
  · -- exit
    intro t hal hx u hu
    have hal' : (j'.s.thr t).loc.afterLoop = true := hal
    have hx' : (j'.s.thr t).xferd = true := hx
    have hu' : Unl.waker u ∈ (j'.s.thr t).exitUnl := hu
    rcases (tfacts_tr hf htr t).exit hal' with ⟨h0, h1, h2⟩ | ⟨r, rfl, hl, hr', hwt, h1, h2⟩
    · rw [h1] at hx'; rw [h2] at hu'
      obtain ⟨w, ha, hb⟩ := hi.exit t h0 hx' u hu'
      refine ⟨w, ?_, hb⟩
      show xtE p e t = some w
      rw [xtE_other p e t]
      · exact ha
      · intro hh
        have := xwTid_loc hs hh
        rw [h0] at this; cases this
    · rw [h1] at hx'; rw [h2] at hu'
      have hw : (p.j.s.recs r).stat = .xfer := by simpa using hx'
      obtain ⟨w, hxf, R⟩ := hi.xfer r hw
      rw [R.unl] at hu'
      simp only [List.mem_singleton, Unl.waker.injEq] at hu'
      refine ⟨w, ?_, hu'.symm⟩
      show xtE p (.recLd t .wHead r 0) t = some w
      simp only [xtE, hw, if_true]
      rw [VC.upd_same]; exact hxf

/-! ### over all reachable joint states -/

theorem jrun_cvfix {cfg : Config} {j j' : JState} {ev : XEv} (h : jstep cfg j ev = .ok j')
    (hr : Reachable cfg j.s) : Reachable cfg j'.s := by
  cases ev with
  | cv e m o => exact reachable_step hr (jstep_cv h).1
  | mu m x => rw [(jstep_mu h).1]; exact hr

theorem ji_prun {cfg : Config} {evs : List XEv} {p p' : JP} (hr : Reachable cfg p.j.s) (hi : JI p)
    (h : jprun cfg p evs = .ok p') : JI p' ∧ Reachable cfg p'.j.s := by
  induction evs generalizing p with
  | nil => simp only [jprun, Except.ok.injEq] at h; subst h; exact ⟨hi, hr⟩
  | cons ev evs ih =>
    simp only [jprun] at h
    split at h
    · rename_i p1 hp
      obtain ⟨j1, hj, rfl⟩ := jpstep_ok hp
      have hr1 : Reachable cfg (jpnext p ev j1).j.s := by
        have := jrun_cvfix hj hr
        cases ev <;> exact this
      refine ih hr1 ?_ h
      cases ev with
      | cv e m o => exact ji_step_cv hr hi hj
      | mu m x => exact ji_step_mu hi hj
    · cases h

theorem ji_reachable {cfg : Config} {p : JP} (h : JPReachable cfg p) : JI p ∧ Reachable cfg p.j.s := by
  obtain ⟨evs, h⟩ := h
  exact ji_prun ⟨[], rfl⟩ ji_init h

end NsyncVerif.CvMu
