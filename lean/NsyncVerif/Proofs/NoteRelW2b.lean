/-
  Layer `Note`, waiter records: how the acting thread enters the positions of `note_enqueue`,
  `note_dequeue` and of the wake loop of `note_notify_child`; users of a note.
-/
import NsyncVerif.Proofs.NoteRelW2

set_option linter.unusedSimpArgs false

namespace Note

/-- Unfold the targets of the control transfers in `h : s'.pc a = <a specific pc>` and discard
    the impossible ones. -/
macro "nrel_pc_cases" h:ident : tactic => `(tactic| (
  all_goals (try (nrel_pc_simp $h:ident))
  all_goals (try (cases $h:ident; done))
  all_goals (try (
    simp only [afterDeadlinePc, afterNotifyPc, childReturnPc, childWakeNextPc, childLoopStartPc,
      freeLoopStartPc] at $h:ident))
  all_goals (repeat' split at $h:ident)
  all_goals (try (cases $h:ident; done))
  all_goals (try (have hidle := ‹_ = PC.idle›; rw [hidle] at $h:ident; cases $h:ident; done))))

/-- `note_enqueue` reaches its store from its load (note.c/8), having appended the record if the
    note was not notified. -/
theorem step_to_eSt {s s' : State} {e : Event} (hs : step s e = .ok s') (a : Tid)
    (ha : e.actor = some a) {v : Bool} {d : NoteId} {wdl : Dl} {r : Rid}
    (h : s'.pc a = .wt (.eSt v) d wdl r) :
    s.pc a = .wt .eLd d wdl r ∧
    (v = true → (s'.notes d).waiters = (s.notes d).waiters ++ [r]) ∧
    (v = false → ¬ (s.notes d).ntime.pos) := by
  cases e
  all_goals step_cases hs
  all_goals simp only [Event.actor, Option.some.injEq, reduceCtorEq] at ha
  all_goals (try subst ha)
  nrel_pc_cases h
  all_goals (cases h; refine ⟨by assumption, ?_, ?_⟩ <;> simp [*])

/-- `note_dequeue` reaches its store from its load (note.c/11) with the note not notified. -/
theorem step_to_qSt {s s' : State} {e : Event} (hs : step s e = .ok s') (a : Tid)
    (ha : e.actor = some a) {d : NoteId} {wdl : Dl} {r : Rid}
    (h : s'.pc a = .wt .qSt d wdl r) :
    s.pc a = .wt .qLd d wdl r ∧ (s.notes d).ntime.pos := by
  cases e
  all_goals step_cases hs
  all_goals simp only [Event.actor, Option.some.injEq, reduceCtorEq] at ha
  all_goals (try subst ha)
  nrel_pc_cases h
  all_goals (cases h; exact ⟨by assumption, by assumption⟩)

/-- The `nsync_mu_semaphore_v` of the wake loop follows the store that clears `waiting`. -/
theorem step_to_semV {s s' : State} {e : Event} (hs : step s e = .ok s') (a : Tid)
    (ha : e.actor = some a) {r : Rid} {stk : List Frame} {top : Top}
    (h : s'.pc a = .chd (.semV r) stk top) : s.pc a = .chd (.wake r) stk top := by
  cases e
  all_goals step_cases hs
  all_goals simp only [Event.actor, Option.some.injEq, reduceCtorEq] at ha
  all_goals (try subst ha)
  nrel_pc_cases h
  all_goals (
    obtain ⟨_, _, hr, _⟩ := (by assumption : _ = _ ∧ _ = _ ∧ _ = _ ∧ _ = _)
    subst hr
    cases h
    assumption)

/-- The store that clears `waiting` (note.c/2) is followed by the V. -/
theorem step_from_wake {s s' : State} {e : Event} (hs : step s e = .ok s') (a : Tid)
    (ha : e.actor = some a) {r : Rid} {stk : List Frame} {top : Top}
    (h : s.pc a = .chd (.wake r) stk top) : s'.pc a = .chd (.semV r) stk top := by
  revert h
  cases e
  all_goals step_cases hs
  all_goals simp only [Event.actor, Option.some.injEq, reduceCtorEq] at ha
  all_goals (try subst ha)
  all_goals (try (have h2 := ‹s.pc _ = _›; intro h; rw [h] at h2; cases h2; done))
  all_goals (
    have h2 := ‹s.pc _ = _›
    intro h
    rw [h] at h2
    cases h2
    obtain ⟨_, _, hr, _⟩ := (by assumption : _ = _ ∧ _ = _ ∧ _ = _ ∧ _ = _)
    subst hr
    simp)

/-- A record is unlinked (note.c:91-92) from the head of the waiters list of the note of the
    innermost activation, after the store of the flag or after a V. -/
theorem step_to_wake {s s' : State} {e : Event} (hs : step s e = .ok s') (a : Tid)
    (ha : e.actor = some a) {r : Rid} {stk : List Frame} {top : Top}
    (h : s'.pc a = .chd (.wake r) stk top) :
    ∃ f rest pos ws, stk = f :: rest ∧ s.pc a = .chd pos stk top ∧
      (pos = .st ∨ ∃ r0, pos = .semV r0) ∧ (s.notes f.note).waiters = r :: ws := by
  cases e
  all_goals step_cases hs
  all_goals simp only [Event.actor, Option.some.injEq, reduceCtorEq] at ha
  all_goals (try subst ha)
  nrel_pc_cases h
  · rename_i hw
    cases h
    exact ⟨_, _, _, _, rfl, by assumption, Or.inl rfl, by simpa using hw⟩
  · rename_i hw
    cases h
    exact ⟨_, _, _, _, rfl, by assumption, Or.inr ⟨_, rfl⟩, by simpa using hw⟩

/-- A thread becomes a user of a note only by an API call on a published note. -/
theorem step_users_mem {s s' : State} {e : Event} (hs : step s e = .ok s') (t : Tid) (n : NoteId)
    (h : t ∈ s'.users n) : t ∈ s.users n ∨ s.published n = true := by
  cases e
  all_goals step_cases hs
  all_goals (try (left; exact h))
  all_goals (try (left; simpa using h; done))
  all_goals (repeat' split at h)
  all_goals (try (left; simpa using h; done))
  -- calls: the note is live
  all_goals (try (
    have hl := (by assumption : s.Live _)
    simp only [setPc_users, addUser_users, markCalled_users, setAfter_users, markFreeing_users,
      upd_apply] at h
    split at h
    · next hn => subst hn; right; exact hl.2.1
    · left; exact h))
  -- returns
  all_goals (
    simp only [leave_users, publish_users, pushObs_users, upd_apply] at h
    split at h
    · next hn => subst hn; left; exact List.mem_of_mem_erase h
    · left; exact h)

end Note
