import NsyncVerif.Proofs.MuCFairStraight
/-
  MuC, fair termination: what weak fairness alone gives — nsync_mu_trylock / nsync_mu_rtrylock return; a thread at a
  return point returns; the wake-up loop of unlock_slow (after the final CAS) finishes; nsync_mu_wait with a NULL
  condition returns at once.
-/
namespace NsyncVerif.MuC

variable {cfg : Cfg} {s0 : State}

/-- At a return point. -/
def retPc : PC → Prop
  | .lkRet _ | .tryRet _ _ | .ulRet _ _ | .mwRet _ _ => True
  | _ => False

theorem fair_ret (x : Exec cfg s0) (hf : WeakFair x) (t : Tid) (i : Nat) (h : retPc ((x.ρ i).pc t)) :
    ∃ j, i ≤ j ∧ (x.ρ j).pc t = .idle := by
  obtain ⟨j, hij, hc, ⟨e, he, ht, hd⟩, _⟩ := fair_exit x hf t retPc (fun _ => 0)
    (fun p hp => by cases p <;> simp [retPc] at hp <;> simp)
    (fun j ⟨e, he, ht, hd⟩ hc hc' => by
      exfalso
      have hs := x.next_some he
      cases hp : (x.ρ j).pc t <;> simp [retPc, hp] at hc
      · rw [own_lkRet hs ht hd hp] at hc'; exact hc'
      · rw [own_tryRet hs ht hd hp] at hc'; exact hc'
      · rw [own_ulRet hs ht hd hp] at hc'; exact hc'
      · rw [own_mwRet hs ht hd hp] at hc'; exact hc')
    0 i (Nat.le_refl _) h
  have hs := x.next_some he
  refine ⟨j + 1, by omega, ?_⟩
  cases hp : (x.ρ j).pc t <;> simp [retPc, hp] at hc
  · exact own_lkRet hs ht hd hp
  · exact own_tryRet hs ht hd hp
  · exact own_ulRet hs ht hd hp
  · exact own_mwRet hs ht hd hp

/-- Inside nsync_mu_trylock / nsync_mu_rtrylock. -/
def tryPc : PC → Prop
  | .tryCas0 _ | .tryLd _ | .tryCas1 _ _ | .tryRet _ _ => True
  | _ => False

def tryRk : PC → Nat
  | .tryCas0 _ => 3
  | .tryLd _ => 2
  | .tryCas1 _ _ => 1
  | _ => 0

/-- nsync_mu_trylock / nsync_mu_rtrylock are wait-free: under weak fairness alone the call returns. -/
theorem fair_trylock (x : Exec cfg s0) (hf : WeakFair x) (t : Tid) (i : Nat) (h : tryPc ((x.ρ i).pc t)) :
    ∃ j, i ≤ j ∧ (x.ρ j).pc t = .idle := by
  obtain ⟨j, hij, hc, ⟨e, he, ht, hd⟩, hnc⟩ := fair_exit x hf t tryPc tryRk
    (fun p hp => by cases p <;> simp [tryPc] at hp <;> simp)
    (fun j ⟨e, he, ht, hd⟩ hc hc' => by
      have hs := x.next_some he
      cases hp : (x.ρ j).pc t <;> simp [tryPc, hp] at hc
      · rcases own_tryCas0 hs ht hd hp with a | a <;> simp [a, tryRk]
      · rcases own_tryLd hs ht hd hp with a | ⟨o, a⟩ <;> simp [a, tryRk]
      · obtain ⟨b, a⟩ := own_tryCas1 hs ht hd hp; simp [a, tryRk]
      · rw [own_tryRet hs ht hd hp] at hc'; exact hc'.elim)
    3 i (by cases hp : (x.ρ i).pc t <;> simp [tryRk]) h
  have hs := x.next_some he
  refine ⟨j + 1, by omega, ?_⟩
  cases hp : (x.ρ j).pc t <;> simp [tryPc, hp] at hc
  · rcases own_tryCas0 hs ht hd hp with a | a <;> (rw [a] at hnc; exact (hnc trivial).elim)
  · rcases own_tryLd hs ht hd hp with a | ⟨o, a⟩ <;> (rw [a] at hnc; exact (hnc trivial).elim)
  · obtain ⟨b, a⟩ := own_tryCas1 hs ht hd hp; rw [a] at hnc; exact (hnc trivial).elim
  · exact own_tryRet hs ht hd hp

/-- In the wake-up loop of unlock_slow (mu.c:446-454) for the caller `r`. -/
def wakePc (r : Ret) : PC → Prop
  | .usWakeSt r' _ _ | .usWakeV r' _ _ => r' = r
  | _ => False

def wakeRk : PC → Nat
  | .usWakeSt _ _ rest => 2 * rest.length + 3
  | .usWakeV _ _ rest => 2 * rest.length + 2
  | _ => 0

/-- After the final CAS of unlock_slow the thread clears `waiting` of and posts every waiter on its wake list, and
    comes back to its caller (the return point of nsync_mu_unlock / runlock / unlock_without_wakeup, or the wait loop
    of nsync_mu_wait_with_deadline): under weak fairness alone. -/
theorem fair_wakes (x : Exec cfg s0) (hf : WeakFair x) (t : Tid) (r : Ret) (i : Nat) (h : wakePc r ((x.ρ i).pc t)) :
    ∃ j, i ≤ j ∧ (x.ρ j).pc t = r.pc := by
  obtain ⟨j, hij, hc, ⟨e, he, ht, hd⟩, hnc⟩ := fair_exit x hf t (wakePc r) wakeRk
    (fun p hp => by cases p <;> simp [wakePc] at hp <;> simp)
    (fun j ⟨e, he, ht, hd⟩ hc hc' => by
      have hs := x.next_some he
      cases hp : (x.ρ j).pc t <;> simp [wakePc, hp] at hc
      · rw [own_usWakeSt hs ht hd hp]; simp [wakeRk]
      · rename_i r' k rest
        have a := own_usWakeV hs ht hd hp
        rw [a] at hc' ⊢
        cases rest with
        | nil => cases r' <;> simp [finPc, Ret.pc, wakePc] at hc'
        | cons k' rest' => simp [finPc, wakeRk]; omega)
    (wakeRk ((x.ρ i).pc t)) i (Nat.le_refl _) h
  have hs := x.next_some he
  refine ⟨j + 1, by omega, ?_⟩
  cases hp : (x.ρ j).pc t <;> simp [wakePc, hp] at hc
  · rw [own_usWakeSt hs ht hd hp] at hnc; subst hc; exact (hnc rfl).elim
  · rename_i r' k rest
    subst hc
    have a := own_usWakeV hs ht hd hp
    rw [a] at hnc ⊢
    cases rest with
    | nil => rfl
    | cons k' rest' => exact (hnc (by simp [finPc, wakePc])).elim

/-- … in particular a thread inside nsync_mu_unlock / nsync_mu_runlock / nsync_mu_unlock_without_wakeup that is past
    the final CAS of unlock_slow returns. -/
theorem fair_past_release (x : Exec cfg s0) (hf : WeakFair x) (t : Tid) (l : Mode) (nw : Bool) (i : Nat)
    (h : wakePc (.ul l nw) ((x.ρ i).pc t)) : ∃ j, i ≤ j ∧ (x.ρ j).pc t = .idle := by
  obtain ⟨j, hij, hp⟩ := fair_wakes x hf t (.ul l nw) i h
  obtain ⟨j2, h2, hp2⟩ := fair_ret x hf t j (by rw [hp]; simp [Ret.pc, retPc])
  exact ⟨j2, by omega, hp2⟩

/-- nsync_mu_wait_with_deadline with a NULL condition returns at once (mu_wait.c:170): under weak fairness alone. -/
theorem fair_wait_null (x : Exec cfg s0) (hf : WeakFair x) (t : Tid) (c : MW) (i : Nat)
    (h : (x.ρ i).pc t = .mwLd0 c) (hc : c.cond = none) : ∃ j, i ≤ j ∧ (x.ρ j).pc t = .idle := by
  obtain ⟨j, hij, ⟨e, he, ht, hd⟩, hp⟩ := fair_rmove x hf (t := t) (i := i) (by rw [h]; simp) (by rw [h]; simp) (by rw [h]; simp)
  obtain ⟨c', hc'⟩ := own_mwLd0 (x.next_some he) ht hd (hp.trans h) hc
  obtain ⟨j2, h2, hp2⟩ := fair_ret x hf t (j + 1) (by rw [hc']; simp [retPc])
  exact ⟨j2, by omega, hp2⟩

end NsyncVerif.MuC
