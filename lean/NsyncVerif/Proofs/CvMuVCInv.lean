/-
  Composition CvFix × MuX × vector clocks: the inductive invariant that carries the cv-signal edge
  to a TRANSFERRED waiter, and its preservation by the events of other code on a mutex.
-/
import NsyncVerif.Proofs.CvMuVC

namespace NsyncVerif.CvMu
open NsyncVerif NsyncVerif.CvFix

/-- A transferred record `r` and its transfer `w` (waker `w.by_`, clock `w.clk` from just before its
    cv.c/1, clock `w.call` at its call).
    `unpub`  not yet published: the waker is between cv.c/1 and cv.c/3 on the mutex the record was
             transferred to, HOLDS THAT MUTEX' SPINLOCK, and its own clock covers `w.clk`;
    `pub`    published (the waker's `ATM_CAS_REL` [cv.c/3] has succeeded): `w.clk` is covered by the
             RELEASE CLOCK OF THE MUTEX WORD and by the clock of the holder of the spinlock;
    `got`    … and by the clock of every thread that has acquired the word since;
    `woke`   once `waiting` is 0: by the release clock of `r.waiting`. -/
structure XR (p : JP) (r : Rid) (w : Wake) : Prop where
  unl : (p.j.s.recs r).unl = [Unl.waker w.by_]
  call : VC.Clock.le w.call w.clk
  unpub : p.j.g.pub r = false → (p.j.s.thr w.by_).loc.muHeld = true ∧ p.j.g.tm w.by_ = p.j.g.xm r ∧
    VC.Clock.le w.clk (p.c.vc w.by_) ∧ (p.j.mx (p.j.g.xm r)).sp = some w.by_
  pub : p.j.g.pub r = true → VC.Clock.le w.clk (p.c.relc (.mu (p.j.g.xm r))) ∧
    ∀ v, (p.j.mx (p.j.g.xm r)).sp = some v → VC.Clock.le w.clk (p.c.vc v)
  got : ∀ v, p.j.g.got v r = true → VC.Clock.le w.clk (p.c.vc v)
  woke : (p.j.s.recs r).waiting = false → VC.Clock.le w.clk (p.c.relc (.fld r .waiting))

/-- The edge invariant.
    `call`  a thread's clock covers its clock at its latest signal/broadcast call;
    `xfer`  every record in status `xfer` has its transfer recorded (`XR`);
    `seen`  what a thread recorded when it left its wait loop is covered by its clock;
    `exit`  a cv wait past its loop whose record was transferred, and whose instance a waker `u`
            unlinked, has recorded a transfer by `u`. -/
structure JI (p : JP) : Prop where
  call : ∀ u, VC.Clock.le (p.cc u) (p.c.vc u)
  xfer : ∀ r, (p.j.s.recs r).stat = .xfer → ∃ w, p.xf r = some w ∧ XR p r w
  seen : ∀ t w, p.xt t = some w → VC.Clock.le w.clk (p.c.vc t) ∧ VC.Clock.le w.call w.clk
  exit : ∀ t, (p.j.s.thr t).loc.afterLoop = true → (p.j.s.thr t).xferd = true →
    ∀ u, Unl.waker u ∈ (p.j.s.thr t).exitUnl → ∃ w, p.xt t = some w ∧ w.by_ = u

theorem ji_init : JI jpinit := by
  constructor
  · intro u i; simp [jpinit, VC.Clock.bot]
  · intro r h; simp [jpinit, jinit, init] at h
  · intro t w h; simp [jpinit] at h
  · intro t h; simp [jpinit, jinit, init, Loc.afterLoop] at h

/-- Events of other code on a mutex: loads, CASes of any order and release stores by the holder of
    the spinlock keep the release sequence of the word; an acquire CAS imports it. -/
theorem ji_step_mu {cfg : Config} {p : JP} {m : MuId} {x : MuX.Ev} {j' : JState} (hi : JI p)
    (h : jstep cfg p.j (.mu m x) = .ok j') : JI (jpnext p (.mu m x) j') := by
  obtain ⟨hs, hm, hg⟩ := jstep_mu h
  obtain ⟨g1, g2, g3, g4, g5⟩ := ghost_mu hg
  have hmono := xc_mono p.c (.mu m x)
  constructor
  · intro u; exact VC.Clock.le_trans (hi.call u) (hmono u)
  · intro r hx
    have hx' : (p.j.s.recs r).stat = .xfer := by rw [← hs]; exact hx
    obtain ⟨w, hw, hr⟩ := hi.xfer r hx'
    refine ⟨w, hw, ?_⟩
    constructor
    · show (j'.s.recs r).unl = _
      rw [hs]; exact hr.unl
    · exact hr.call
    · intro hp
      have hp' : p.j.g.pub r = false := by rw [← g4]; exact hp
      obtain ⟨a1, a2, a3, a4⟩ := hr.unpub hp'
      show (j'.s.thr w.by_).loc.muHeld = true ∧ j'.g.tm w.by_ = j'.g.xm r ∧
        VC.Clock.le w.clk ((xcstep p.c (.mu m x)).vc w.by_) ∧ (j'.mx (j'.g.xm r)).sp = some w.by_
      rw [hs, g2, g3]
      refine ⟨a1, a2, VC.Clock.le_trans a3 (hmono _), ?_⟩
      rcases muxStep_sp hm (p.j.g.xm r) with h1 | ⟨_, t, exp, new, ord, _, _, h3, _⟩ | ⟨_, x', hx'', h2, _, _⟩
      · rw [h1]; exact a4
      · rw [a4] at h3; cases h3
      · cases hx''
        rw [a4] at h2
        have h2' : w.by_ = x.tid := Option.some.inj h2
        rw [inTransfer_muHeld, ← h2', a1] at g1
        cases g1
    · intro hp
      have hp' : p.j.g.pub r = true := by rw [← g4]; exact hp
      obtain ⟨b1, b2⟩ := hr.pub hp'
      show VC.Clock.le w.clk ((xcstep p.c (.mu m x)).relc (.mu (j'.g.xm r))) ∧
        ∀ v, (j'.mx (j'.g.xm r)).sp = some v → VC.Clock.le w.clk ((xcstep p.c (.mu m x)).vc v)
      rw [g3]
      constructor
      · refine xc_keep_mu p.c m x _ _ ?_ b1
        intro t new ord hxe hloc
        cases hloc
        subst hxe
        obtain ⟨mm, hmm, _⟩ := muxStep_some hm
        obtain ⟨c1, c2⟩ := mux_st hmm
        exact ⟨c2, b2 t c1⟩
      · intro v hv
        rcases muxStep_sp hm (p.j.g.xm r) with h1 | ⟨hk, t, exp, new, ord, hx'', ha, _, h4⟩ | ⟨_, x', _, _, h3, _⟩
        · rw [h1] at hv; exact VC.Clock.le_trans (b2 v hv) (hmono v)
        · cases hx''
          rw [h4] at hv; cases hv
          rw [hk] at b1
          exact VC.Clock.le_trans b1 (xc_muAcq p.c v exp new ord m ha)
        · rw [h3] at hv; cases hv
    · intro v hv
      rcases g5 v r hv with h1 | ⟨exp, new, ord, rfl, ha, hp, hxm⟩
      · exact VC.Clock.le_trans (hr.got v h1) (hmono v)
      · have := (hr.pub hp).1
        rw [hxm] at this
        exact VC.Clock.le_trans this (xc_muAcq p.c v exp new ord m ha)
    · intro hwt
      have hwt' : (p.j.s.recs r).waiting = false := by rw [← hs]; exact hwt
      refine xc_keep_mu p.c m x _ _ ?_ (hr.woke hwt')
      intro t new ord _ hloc
      cases hloc
  · intro t w hw
    obtain ⟨h1, h2⟩ := hi.seen t w hw
    exact ⟨VC.Clock.le_trans h1 (hmono t), h2⟩
  · intro t hal hxf u hu
    have e : (jpnext p (.mu m x) j').j.s = p.j.s := hs
    rw [e] at hal hxf hu
    exact hi.exit t hal hxf u hu

end NsyncVerif.CvMu
