/-
  Proofs/CounterFairEnabled.lean — Counter layer: the acceptor blocks a thread only on a semaphore
  whose count is 0 (before the deadline), on counter_mu while it is held, or at a failed ASSERT of
  counter.c: every other thread inside a call has an accepted next operation (`thread_enabled`).
  This is what makes `WeakFair` (Proofs/CounterFairDefs.lean) a fairness condition on ENABLED threads.
-/
import NsyncVerif.Proofs.CounterFairStep4
import NsyncVerif.Proofs.CounterFairDefs

namespace Counter

/-! ### invariants -/

/-- counter_mu's log name is bound while somebody is between `call nsync_mu_lock` and
    `call nsync_mu_unlock` -/
def MuInv (s : State) : Prop := ∀ u, pastLock (s.pc u) = true → s.sh.mu ≠ none

/-- the phase is `creating` while a thread is at the initialising store, and there is one such thread -/
def NewInv (s : State) : Prop :=
  (∀ u v, s.pc u = .newStore v → s.sh.phase = .creating) ∧
  (∀ u u' v v', s.pc u = .newStore v → s.pc u' = .newStore v' → u = u')

/-- only finitely many record ids are live / semaphore ids are bound -/
def FreeIds (s : State) : Prop :=
  (∃ B : Nat, ∀ k : Nat, B ≤ k → (s.sh.nw k).live = false) ∧
  (∃ B : Nat, ∀ j : Nat, B ≤ j → s.sh.semUser j = none)

theorem muInv_of_reachable {s : State} (h : Reachable s) : MuInv s := by
  refine Reachable.induct (P := MuInv) ?_ ?_ h
  · intro u hp; simp [init, pastLock, lockWaitPc, holds] at hp
  · intro s e s' hr hp hs
    cases e with
    | tick ns =>
      simp only [step] at hs
      split at hs
      · cases hs; exact hp
      · cases hs
    | thr t ev =>
      have f := facts_stepThr (inv_of_reachable hr) hs
      have g := prog4_stepThr hs
      intro u hu
      by_cases hut : u = t
      · subst hut
        rcases g.mub hu with a | a
        · exact g.muk (hp _ a)
        · exact a
      · rw [f.others u hut] at hu; exact g.muk (hp u hu)

theorem newInv_of_reachable {s : State} (h : Reachable s) : NewInv s := by
  refine Reachable.induct (P := NewInv) ?_ ?_ h
  · exact ⟨fun u v hp => by simp [init] at hp, fun u u' v v' hp => by simp [init] at hp⟩
  · intro s e s' hr hp hs
    cases e with
    | tick ns =>
      simp only [step] at hs
      split at hs
      · cases hs; exact hp
      · cases hs
    | thr t ev =>
      have f := facts_stepThr (inv_of_reachable hr) hs
      have g := prog4_stepThr hs
      obtain ⟨p1, p2⟩ := hp
      have key : ∀ u v, s'.pc u = .newStore v → u ≠ t → s.pc u = .newStore v := by
        intro u v hu hut; rw [f.others u hut] at hu; exact hu
      refine ⟨fun u v hu => ?_, fun u u' v v' hu hu' => ?_⟩
      · by_cases hut : u = t
        · subst hut
          rcases g.ph2 v hu with ⟨a, b⟩ | ⟨_, b⟩
          · rw [b]; exact p1 _ v a
          · exact b
        · have a := key u v hu hut
          rcases g.ph3 (p1 u v a) with b | ⟨w, b⟩
          · exact b
          · exact absurd (p2 u t v w a b) hut
      · by_cases hut : u = t
        · by_cases hut' : u' = t
          · rw [hut, hut']
          · subst hut
            have a' := key u' v' hu' hut'
            rcases g.ph2 v hu with ⟨a, _⟩ | ⟨a, _⟩
            · exact (p2 u' u v' v a' a).symm
            · rw [p1 u' v' a'] at a; cases a
        · by_cases hut' : u' = t
          · subst hut'
            have a := key u v hu hut
            rcases g.ph2 v' hu' with ⟨a', _⟩ | ⟨a', _⟩
            · exact p2 u u' v v' a a'
            · rw [p1 u v a] at a'; cases a'
          · exact p2 u u' v v' (key u v hu hut) (key u' v' hu' hut')

theorem freeIds_of_reachable {s : State} (h : Reachable s) : FreeIds s := by
  refine Reachable.induct (P := FreeIds) ?_ ?_ h
  · exact ⟨⟨0, fun k _ => rfl⟩, ⟨0, fun j _ => rfl⟩⟩
  · intro s e s' hr hp hs
    cases e with
    | tick ns =>
      simp only [step] at hs
      split at hs
      · cases hs; exact hp
      · cases hs
    | thr t ev =>
      have f := facts_stepThr (inv_of_reachable hr) hs
      have g := prog4_stepThr hs
      obtain ⟨⟨B1, h1⟩, ⟨B2, h2⟩⟩ := hp
      constructor
      · -- a record that becomes live is the one the acting thread's program point names
        cases hk : pcNw (s'.pc t) with
        | none =>
          refine ⟨B1, fun (k : Nat) hk' => ?_⟩
          cases hl : (s'.sh.nw k).live with
          | false => rfl
          | true =>
            rcases f.recs k hl with ⟨a, _⟩ | ⟨_, a⟩
            · rw [h1 k hk'] at a; cases a
            · rw [hk] at a; cases a
        | some k0 =>
          refine ⟨max B1 (k0 + 1), fun (k : Nat) hk' => ?_⟩
          have hk0 : (k0 : Nat) + 1 ≤ k := Nat.le_trans (Nat.le_max_right _ _) hk'
          have hk1 : B1 ≤ k := Nat.le_trans (Nat.le_max_left _ _) hk'
          cases hl : (s'.sh.nw k).live with
          | false => rfl
          | true =>
            rcases f.recs k hl with ⟨a, _⟩ | ⟨_, a⟩
            · rw [h1 k hk1] at a; cases a
            · rw [hk] at a; cases a; omega
      · -- a semaphore that becomes bound is named by the event / the new program point
        have hsem : ∃ j0 : Nat, ∀ j : Nat, s'.sh.semUser j ≠ none → s.sh.semUser j ≠ none ∨ j = j0 := by
          by_cases hpd : ∃ dl k j0, s'.pc t = .wPdWait dl k j0
          · obtain ⟨dl, k, j0, hpd⟩ := hpd
            refine ⟨j0, fun j hj => ?_⟩
            rcases g.su j hj with a | ⟨dl', k', a⟩ | ⟨_, d, r, idx, a⟩
            · exact Or.inl a
            · rw [hpd] at a; cases a; exact Or.inr rfl
            · rw [hpd] at a; cases a
          · by_cases hev : ∃ j1, ev = .semV j1
            · obtain ⟨j1, hev⟩ := hev
              refine ⟨j1, fun j hj => ?_⟩
              rcases g.su j hj with a | ⟨dl', k', a⟩ | ⟨a, _⟩
              · exact Or.inl a
              · exact absurd ⟨dl', k', j, a⟩ hpd
              · rw [hev] at a; cases a; exact Or.inr rfl
            · refine ⟨0, fun j hj => ?_⟩
              rcases g.su j hj with a | ⟨dl', k', a⟩ | ⟨a, _⟩
              · exact Or.inl a
              · exact absurd ⟨dl', k', j, a⟩ hpd
              · exact absurd ⟨j, a⟩ hev
        obtain ⟨j0, hj0⟩ := hsem
        refine ⟨max B2 (j0 + 1), fun (j : Nat) hj => ?_⟩
        have hj1 : j0 + 1 ≤ j := Nat.le_trans (Nat.le_max_right _ _) hj
        have hj2 : B2 ≤ j := Nat.le_trans (Nat.le_max_left _ _) hj
        cases hu : s'.sh.semUser j with
        | none => rfl
        | some k =>
          rcases hj0 j (by rw [hu]; simp) with a | a
          · exact absurd (h2 j hj2) a
          · omega

/-! ### enabledness -/

/-- the thread sits at a failed ASSERT of counter.c (a contract violation by the callers) -/
def AtAssert (s : State) (t : Tid) : Prop :=
  (s.pc t = .fHeld ∧ s.sh.waiters ≠ [])
  ∨ (s.pc t = .fFree ∧ s.sh.phase ≠ .live)
  ∨ (∃ d v, s.pc t = .aCas d v ∧ v = s.sh.value ∧
      ((v : Int) + d < 0 ∨ (two32 : Int) ≤ (v : Int) + d ∨ (v = 0 ∧ 0 < d ∧ s.sh.waited = true)))
  ∨ (∃ d r idx, s.pc t = .aLoadWaited d r idx ∧ s.sh.waited = true)

theorem ok_of_match {r : R} {P : State → Prop}
    (h : match r with | .ok s' => P s' | .error _ => False) : ∃ s', r = .ok s' ∧ P s' := by
  cases r with
  | ok s' => exact ⟨s', rfl, h⟩
  | error m => exact h.elim

/-- what `thread_enabled` asserts for one thread -/
def CanMove (s : State) (t : Tid) : Prop := ∃ e s', stepThr s t e = .ok s' ∧ s'.pc t ≠ s.pc t

set_option hygiene false in
macro "en_tac" : tactic => `(tactic| (
  refine ok_of_match ?_
  simp_all [stepThr, State.setPc, State.mk', reject, Shared.useMu, b2n]))

variable {s : State} {t : Tid}

theorem en_lockCall (p' : PC) (hp' : p' ≠ s.pc t)
    (h : ∀ m sh', s.sh.useMu m = some sh' → stepThr s t (.callLock m) = .ok (State.mk' sh' s t p')) :
    CanMove s t := by
  cases hmu : s.sh.mu with
  | none =>
    refine ⟨.callLock 0, _, h 0 { s.sh with mu := some 0 } (by simp [Shared.useMu, hmu]), ?_⟩
    simpa [State.mk'] using hp'
  | some m =>
    refine ⟨.callLock m, _, h m s.sh (by simp [Shared.useMu, hmu]), ?_⟩
    simpa [State.mk'] using hp'

theorem en_newMalloc {v} (hpc : s.pc t = .newMalloc v) : CanMove s t := by
  refine ⟨.malloc false, ?_⟩; en_tac
theorem en_newStore {v} (hpc : s.pc t = .newStore v) (hph : s.sh.phase = .creating) : CanMove s t := by
  refine ⟨.st .rlx .value v 0, ?_⟩; en_tac
theorem en_newRet {ok} (hpc : s.pc t = .newRet ok) : CanMove s t := by
  refine ⟨.retNew ok, ?_⟩; en_tac
theorem en_fLockCall (hpc : s.pc t = .fLockCall) : CanMove s t :=
  en_lockCall .fLockWait (by rw [hpc]; simp) (fun m sh' h => by simp [stepThr, hpc, h])
theorem en_fLockWait (hpc : s.pc t = .fLockWait) (hl : s.sh.lockHolder = none) : CanMove s t := by
  refine ⟨.retLock, ?_⟩; en_tac
theorem en_fHeld {m} (hpc : s.pc t = .fHeld) (hm : s.sh.mu = some m) (hw : s.sh.waiters = []) : CanMove s t := by
  refine ⟨.callUnlock m, ?_⟩; en_tac
theorem en_fUnlockWait (hpc : s.pc t = .fUnlockWait) : CanMove s t := by
  refine ⟨.retUnlock, ?_⟩; en_tac
theorem en_fFree (hpc : s.pc t = .fFree) (hph : s.sh.phase = .live) : CanMove s t := by
  refine ⟨.free, ?_⟩; en_tac
theorem en_fRet (hpc : s.pc t = .fRet) : CanMove s t := by
  refine ⟨.retFree, ?_⟩; en_tac
theorem en_valLoad (hpc : s.pc t = .valLoad) : CanMove s t := by
  refine ⟨.ld .acq .value s.sh.value, ?_⟩; en_tac
theorem en_valRet {v} (hpc : s.pc t = .valRet v) : CanMove s t := by
  refine ⟨.retValue v, ?_⟩; en_tac
theorem en_azLoad (hpc : s.pc t = .azLoad) : CanMove s t := by
  refine ⟨.ld .acq .value s.sh.value, ?_⟩; en_tac
theorem en_azRet {v} (hpc : s.pc t = .azRet v) : CanMove s t := by
  refine ⟨.retAdd v, ?_⟩; en_tac
theorem en_aLockCall {d} (hpc : s.pc t = .aLockCall d) : CanMove s t :=
  en_lockCall (.aLockWait d) (by rw [hpc]; simp) (fun m sh' h => by simp [stepThr, hpc, h])
theorem en_aLockWait {d} (hpc : s.pc t = .aLockWait d) (hl : s.sh.lockHolder = none) : CanMove s t := by
  refine ⟨.retLock, ?_⟩; en_tac
theorem en_aLoad {d} (hpc : s.pc t = .aLoad d) : CanMove s t := by
  refine ⟨.ld .rlx .value s.sh.value, ?_⟩; en_tac
theorem en_aLoadWaited {d r idx} (hpc : s.pc t = .aLoadWaited d r idx) (hw : s.sh.waited = false) :
    CanMove s t := by
  refine ⟨.ld .rlx .waited 0, ?_⟩; en_tac
theorem en_aUnlockWait {d r idx} (hpc : s.pc t = .aUnlockWait d r idx) : CanMove s t := by
  refine ⟨.retUnlock, ?_⟩; en_tac
theorem en_aRet {d r idx} (hpc : s.pc t = .aRet d r idx) : CanMove s t := by
  refine ⟨.retAdd r, ?_⟩; en_tac
theorem en_w0Store {dl} (hpc : s.pc t = .w0Store dl) : CanMove s t := by
  refine ⟨.st .rlx .waited 1 (b2n s.sh.waited), ?_⟩; en_tac
theorem en_wEnqLockCall {dl k} (hpc : s.pc t = .wEnqLockCall dl k) : CanMove s t :=
  en_lockCall (.wEnqLockWait dl k) (by rw [hpc]; simp) (fun m sh' h => by simp [stepThr, hpc, h])
theorem en_wEnqLockWait {dl k} (hpc : s.pc t = .wEnqLockWait dl k) (hl : s.sh.lockHolder = none) :
    CanMove s t := by
  refine ⟨.retLock, ?_⟩; en_tac
theorem en_wEnqLoad {dl k} (hpc : s.pc t = .wEnqLoad dl k) : CanMove s t := by
  refine ⟨.ld .acq .value s.sh.value, ?_⟩; en_tac
theorem en_wEnqUnlockCall {dl k enq m} (hpc : s.pc t = .wEnqUnlockCall dl k enq) (hm : s.sh.mu = some m) :
    CanMove s t := by
  refine ⟨.callUnlock m, ?_⟩; en_tac
theorem en_wEnqUnlockWait {dl k enq} (hpc : s.pc t = .wEnqUnlockWait dl k enq) : CanMove s t := by
  refine ⟨.retUnlock, ?_⟩; en_tac
theorem en_wLoopStore {dl k} (hpc : s.pc t = .wLoopStore dl k) : CanMove s t := by
  refine ⟨.st .rlx .waited 1 (b2n s.sh.waited), ?_⟩; en_tac
theorem en_wDeqLockCall {dl k tmo} (hpc : s.pc t = .wDeqLockCall dl k tmo) : CanMove s t :=
  en_lockCall (.wDeqLockWait dl k tmo) (by rw [hpc]; simp) (fun m sh' h => by simp [stepThr, hpc, h])
theorem en_wDeqLockWait {dl k tmo} (hpc : s.pc t = .wDeqLockWait dl k tmo) (hl : s.sh.lockHolder = none) :
    CanMove s t := by
  refine ⟨.retLock, ?_⟩; en_tac
theorem en_wDeqLoadV {dl k tmo} (hpc : s.pc t = .wDeqLoadV dl k tmo) : CanMove s t := by
  refine ⟨.ld .acq .value s.sh.value, ?_⟩; en_tac
theorem en_wDeqUnlockCall {dl k tmo v m} (hpc : s.pc t = .wDeqUnlockCall dl k tmo v) (hm : s.sh.mu = some m) :
    CanMove s t := by
  refine ⟨.callUnlock m, ?_⟩; en_tac
theorem en_wDeqUnlockWait {dl k tmo v} (hpc : s.pc t = .wDeqUnlockWait dl k tmo v) : CanMove s t := by
  refine ⟨.retUnlock, ?_⟩
  refine ok_of_match ?_
  by_cases hv : v = 0 <;> simp_all [stepThr, State.mk']
theorem en_wFinalLoad {dl} (hpc : s.pc t = .wFinalLoad dl) : CanMove s t := by
  refine ⟨.ld .acq .value s.sh.value, ?_⟩; en_tac
theorem en_wRet {dl r} (hpc : s.pc t = .wRet dl r) : CanMove s t := by
  refine ⟨.retWait r, ?_⟩; en_tac

theorem en_aCas {d v} (hpc : s.pc t = .aCas d v)
    (hna : ¬ (v = s.sh.value ∧ ((v : Int) + d < 0 ∨ (two32 : Int) ≤ (v : Int) + d
      ∨ (v = 0 ∧ 0 < d ∧ s.sh.waited = true)))) : CanMove s t := by
  refine ⟨.cas .ar .value v (wrapAdd v d) s.sh.value (decide (s.sh.value = v)), ?_⟩
  refine ok_of_match ?_
  by_cases hv : s.sh.value = v
  · subst hv
    have h1 : ¬ ((s.sh.value : Int) + d < 0) := fun h => hna ⟨rfl, Or.inl h⟩
    have h2 : ¬ ((two32 : Int) ≤ (s.sh.value : Int) + d) := fun h => hna ⟨rfl, Or.inr (Or.inl h)⟩
    have h3 : ¬ (s.sh.value = 0 ∧ 0 < d ∧ s.sh.waited = true) := fun h => hna ⟨rfl, Or.inr (Or.inr h)⟩
    by_cases hc : (0 < d ∧ wrapAdd s.sh.value d = u32 d)
    · have h3' : ¬ (s.sh.value = 0 ∧ s.sh.waited = true) := fun h => h3 ⟨h.1, hc.1, h.2⟩
      simp [stepThr, hpc, h1, h2, h3, hc, State.mk']
      rw [if_neg h3']
      simp
    · simp [stepThr, hpc, h1, h2, h3, hc, State.mk']
  · simp [stepThr, hpc, hv, State.setPc]

theorem en_aHeld {d r idx wake m} (hpc : s.pc t = .aHeld d r idx wake) (hm : s.sh.mu = some m) :
    CanMove s t := by
  by_cases hw : wake = true ∧ s.sh.waiters ≠ []
  · cases hq : s.sh.waiters with
    | nil => exact absurd hq hw.2
    | cons k tl =>
      refine ⟨.st .rel (.nwWaiting k) 0 (b2n (s.sh.nw k).waiting), ?_⟩
      refine ok_of_match ?_
      simp [stepThr, hpc, hq, hw.1, State.mk']
  · refine ⟨.callUnlock m, ?_⟩
    refine ok_of_match ?_
    have : wake = true → s.sh.waiters = [] := fun h => Classical.byContradiction (fun h' => hw ⟨h, h'⟩)
    simp only [stepThr, hpc, hm, true_and]
    rw [if_pos this]
    simp [State.mk']

theorem en_aPost {d r idx k} (hpc : s.pc t = .aPost d r idx k) (hfree : ∃ j, s.sh.semUser j = none) :
    CanMove s t := by
  cases hs : (s.sh.nw k).sem with
  | some j =>
    refine ⟨.semV j, ?_⟩
    refine ok_of_match ?_
    simp [stepThr, hpc, Shared.bind, hs, State.mk']
  | none =>
    obtain ⟨j, hj⟩ := hfree
    refine ⟨.semV j, ?_⟩
    refine ok_of_match ?_
    simp [stepThr, hpc, Shared.bind, hs, hj, State.mk']

theorem en_w0Load {dl} (hpc : s.pc t = .w0Load dl) : CanMove s t := by
  refine ⟨.ld .acq .value s.sh.value, ?_⟩
  refine ok_of_match ?_
  by_cases hv : s.sh.value = 0 <;> by_cases hd : dlePast dl = true <;>
    simp [stepThr, hpc, hv, hd, State.setPc]

theorem en_wInit {dl} (hpc : s.pc t = .wInit dl) (hfree : ∃ k, (s.sh.nw k).live = false) : CanMove s t := by
  obtain ⟨k, hk⟩ := hfree
  refine ⟨.st .rlx (.nwWaiting k) 0 0, ?_⟩
  refine ok_of_match ?_
  simp [stepThr, hpc, hk, State.mk']

theorem en_wEnqStore {dl k v} (hpc : s.pc t = .wEnqStore dl k v) : CanMove s t := by
  refine ⟨.st .rlx (.nwWaiting k) (b2n (decide (v ≠ 0))) (b2n (s.sh.nw k).waiting), ?_⟩
  refine ok_of_match ?_
  by_cases hv : v = 0 <;> simp [stepThr, hpc, hv, State.mk']

theorem en_wLoopLoad {dl k} (hpc : s.pc t = .wLoopLoad dl k) : CanMove s t := by
  refine ⟨.ld .acq .value s.sh.value, ?_⟩
  refine ok_of_match ?_
  by_cases hv : s.sh.value = 0 <;> simp [stepThr, hpc, hv, State.setPc]

theorem en_wPdEnter {dl k} (hpc : s.pc t = .wPdEnter dl k) (hfree : ∃ j, s.sh.semUser j = none) :
    CanMove s t := by
  cases hs : (s.sh.nw k).sem with
  | some j =>
    refine ⟨.pdEnter j dl, ?_⟩
    refine ok_of_match ?_
    simp [stepThr, hpc, Shared.bind, hs, State.mk']
  | none =>
    obtain ⟨j, hj⟩ := hfree
    refine ⟨.pdEnter j dl, ?_⟩
    refine ok_of_match ?_
    simp [stepThr, hpc, Shared.bind, hs, hj, State.mk']

theorem en_wPdWait {dl k j} (hpc : s.pc t = .wPdWait dl k j)
    (h : expired dl s.sh.now ∨ s.sh.sem j ≠ 0) : CanMove s t := by
  by_cases he : expired dl s.sh.now
  · refine ⟨.pdRet j true, ?_⟩
    refine ok_of_match ?_
    simp [stepThr, hpc, he, State.setPc]
  · have hs := h.resolve_left he
    refine ⟨.pdRet j false, ?_⟩
    refine ok_of_match ?_
    cases hn : s.sh.sem j with
    | zero => exact absurd hn hs
    | succ n => simp [stepThr, hpc, hn, State.mk']

theorem en_wDeqLoadW {dl k tmo v} (hpc : s.pc t = .wDeqLoadW dl k tmo v) : CanMove s t := by
  refine ⟨.ld .acq (.nwWaiting k) (b2n (s.sh.nw k).waiting), ?_⟩
  refine ok_of_match ?_
  cases hw : (s.sh.nw k).waiting <;> simp [stepThr, hpc, hw, State.setPc, b2n]

theorem en_wDeqStore {dl k tmo v} (hpc : s.pc t = .wDeqStore dl k tmo v) : CanMove s t := by
  refine ⟨.st .rlx (.nwWaiting k) 0 (b2n (s.sh.nw k).waiting), ?_⟩
  refine ok_of_match ?_
  simp [stepThr, hpc, State.mk']

/-- The acceptor blocks a thread only in P on a semaphore whose count is 0 (before its deadline), on
    counter_mu while it is held, or at a failed ASSERT: every other thread inside a call has an
    accepted next operation (an event that changes its program point). -/
theorem thread_enabled {s : State} (hr : Reachable s) {t : Tid} (hne : s.pc t ≠ .idle)
    (hnb : ¬ Blocked s t) (hna : ¬ AtAssert s t) :
    ∃ e s', step s (.thr t e) = .ok s' ∧ s'.pc t ≠ s.pc t := by
  show CanMove s t
  have hmu : pastLock (s.pc t) = true → ∃ m, s.sh.mu = some m := by
    intro h
    cases hm : s.sh.mu with
    | none => exact absurd hm (muInv_of_reachable hr t h)
    | some m => exact ⟨m, rfl⟩
  have hlk : lockWaitPc (s.pc t) = true → s.sh.lockHolder = none := by
    intro h
    cases hl : s.sh.lockHolder with
    | none => rfl
    | some u => exact absurd (Or.inr ⟨h, by rw [hl]; simp⟩) hnb
  obtain ⟨⟨B1, hB1⟩, ⟨B2, hB2⟩⟩ := freeIds_of_reachable hr
  have hk : ∃ k, (s.sh.nw k).live = false := ⟨B1, hB1 B1 (Nat.le_refl _)⟩
  have hj : ∃ j, s.sh.semUser j = none := ⟨B2, hB2 B2 (Nat.le_refl _)⟩
  cases hpc : s.pc t with
  | idle => exact absurd hpc hne
  | newMalloc v => exact en_newMalloc hpc
  | newStore v => exact en_newStore hpc ((newInv_of_reachable hr).1 t v hpc)
  | newRet ok => exact en_newRet hpc
  | fLockCall => exact en_fLockCall hpc
  | fLockWait => exact en_fLockWait hpc (hlk (by rw [hpc]; rfl))
  | fHeld =>
    obtain ⟨m, hm⟩ := hmu (by rw [hpc]; rfl)
    refine en_fHeld hpc hm ?_
    cases hw : s.sh.waiters with
    | nil => rfl
    | cons a l => exact absurd (Or.inl ⟨hpc, by rw [hw]; simp⟩) hna
  | fUnlockWait => exact en_fUnlockWait hpc
  | fFree =>
    refine en_fFree hpc ?_
    apply Classical.byContradiction
    intro h
    exact hna (Or.inr (Or.inl ⟨hpc, h⟩))
  | fRet => exact en_fRet hpc
  | valLoad => exact en_valLoad hpc
  | valRet v => exact en_valRet hpc
  | azLoad => exact en_azLoad hpc
  | azRet v => exact en_azRet hpc
  | aLockCall d => exact en_aLockCall hpc
  | aLockWait d => exact en_aLockWait hpc (hlk (by rw [hpc]; rfl))
  | aLoad d => exact en_aLoad hpc
  | aCas d v =>
    exact en_aCas hpc (fun h => hna (Or.inr (Or.inr (Or.inl ⟨d, v, hpc, h.1, h.2⟩))))
  | aLoadWaited d r idx =>
    refine en_aLoadWaited hpc ?_
    cases hw : s.sh.waited with
    | false => rfl
    | true => exact absurd (Or.inr (Or.inr (Or.inr ⟨d, r, idx, hpc, hw⟩))) hna
  | aHeld d r idx wake =>
    obtain ⟨m, hm⟩ := hmu (by rw [hpc]; rfl)
    exact en_aHeld hpc hm
  | aPost d r idx k => exact en_aPost hpc hj
  | aUnlockWait d r idx => exact en_aUnlockWait hpc
  | aRet d r idx => exact en_aRet hpc
  | w0Store dl => exact en_w0Store hpc
  | w0Load dl => exact en_w0Load hpc
  | wInit dl => exact en_wInit hpc hk
  | wEnqLockCall dl k => exact en_wEnqLockCall hpc
  | wEnqLockWait dl k => exact en_wEnqLockWait hpc (hlk (by rw [hpc]; rfl))
  | wEnqLoad dl k => exact en_wEnqLoad hpc
  | wEnqStore dl k v => exact en_wEnqStore hpc
  | wEnqUnlockCall dl k enq =>
    obtain ⟨m, hm⟩ := hmu (by rw [hpc]; rfl)
    exact en_wEnqUnlockCall hpc hm
  | wEnqUnlockWait dl k enq => exact en_wEnqUnlockWait hpc
  | wLoopStore dl k => exact en_wLoopStore hpc
  | wLoopLoad dl k => exact en_wLoopLoad hpc
  | wPdEnter dl k => exact en_wPdEnter hpc hj
  | wPdWait dl k j =>
    refine en_wPdWait hpc ?_
    apply Classical.byContradiction
    intro h
    refine hnb (Or.inl ⟨dl, k, j, hpc, ?_, fun he => h (Or.inl he)⟩)
    apply Classical.byContradiction
    intro h0
    exact h (Or.inr h0)
  | wDeqLockCall dl k tmo => exact en_wDeqLockCall hpc
  | wDeqLockWait dl k tmo => exact en_wDeqLockWait hpc (hlk (by rw [hpc]; rfl))
  | wDeqLoadV dl k tmo => exact en_wDeqLoadV hpc
  | wDeqLoadW dl k tmo v => exact en_wDeqLoadW hpc
  | wDeqStore dl k tmo v => exact en_wDeqStore hpc
  | wDeqUnlockCall dl k tmo v =>
    obtain ⟨m, hm⟩ := hmu (by rw [hpc]; rfl)
    exact en_wDeqUnlockCall hpc hm
  | wDeqUnlockWait dl k tmo v => exact en_wDeqUnlockWait hpc
  | wFinalLoad dl => exact en_wFinalLoad hpc
  | wRet dl r => exact en_wRet hpc

theorem dflt_pc {s s' : State} {idle : Bool} {e : Ev} (h : dflt s idle e = .ok s') : s'.pc = s.pc := by
  unfold dflt at h
  repeat' (split at h)
  all_goals first | (cases h; done) | (cases h; rfl)

/-- conversely, a blocked thread cannot execute its next operation -/
theorem blocked_cannot_move {s s' : State} {t : Tid} {e : Ev} (hb : Blocked s t)
    (h : step s (.thr t e) = .ok s') : s'.pc t = s.pc t := by
  have g := prog_stepThr h
  rcases hb with ⟨dl, k, j, hp, hs, he⟩ | ⟨hp, hl⟩
  · -- asleep, count 0, not expired: neither `pd_ret 0` nor `pd_ret ETIMEDOUT` is accepted
    have h' : stepThr s t e = .ok s' := h
    simp only [stepThr, hp] at h'
    split at h'
    · split at h'
      · split at h'
        · first | (cases h'; done) | (split at h' <;> first | (exact absurd (by assumption) he) | cases h')
        · rw [hs] at h'; cases h'
      · cases h'
    all_goals first
      | (cases h'; done)
      | (rw [dflt_pc h'])
  · apply Classical.byContradiction
    intro hne
    have a := g.unblock hp hne
    have b : holds (s.pc t) = false := by
      cases hpc : s.pc t <;> rw [hpc] at hp <;> simp [lockWaitPc] at hp <;> rfl
    exact hl (g.acq b a).2.2

end Counter
