import NsyncVerif.Proofs.MuQStepFacts3
/-
  MuQ: a step changes the program point (and the client ghost) of the stepping thread only.
-/
namespace NsyncVerif.MuQ

@[simp] theorem scanAdvance_pc (s : State) (t : Tid) (l : Mode) (sc : Scan) :
    ∃ p, (scanAdvance s t l sc).pc = setFn s.pc t p := by
  simp only [scanAdvance]; split <;> exact ⟨_, rfl⟩

theorem afterFin_pc (s : State) (t : Tid) (l : Mode) (w : List Wid) :
    ∃ p, (afterFin s t l w).pc = setFn s.pc t p := by
  cases w <;> exact ⟨_, rfl⟩

theorem step_pc_shape {cfg : Cfg} {s s' : State} {e : Event} (h : step cfg s e = .ok s') :
    (∀ t, e.tid = some t → ∃ p, s'.pc = setFn s.pc t p) ∧ (e.tid = none → s'.pc = s.pc) := by
  cases e
  case call t a =>
    obtain ⟨p, hd, rfl⟩ := stepCall_shape h
    exact ⟨fun t' ht => by cases ht; exact ⟨p, rfl⟩, fun hn => by cases hn⟩
  case ret t a res =>
    obtain ⟨hd, rfl⟩ := stepRet_shape h
    exact ⟨fun t' ht => by cases ht; exact ⟨_, rfl⟩, fun hn => by cases hn⟩
  case ld t o loc obs =>
    obtain ⟨p, rfl⟩ := stepLd_shape h
    exact ⟨fun t' ht => by cases ht; exact ⟨p, rfl⟩, fun hn => by cases hn⟩
  case st t o loc new obs =>
    refine ⟨fun t' ht => ?_, fun hn => by cases hn⟩
    cases ht
    simp only [step, stepSt] at h
    cases hp : s.pc t <;> simp only [hp] at h <;> try (cases h; done)
    all_goals repeat' split at h
    all_goals first | (cases h; done) | (cases h; exact ⟨_, rfl⟩)
  case cas t o loc exp new obs ok =>
    refine ⟨fun t' ht => ?_, fun hn => by cases hn⟩
    cases ht
    simp only [step, stepCas] at h
    cases hp : s.pc t <;> simp only [hp] at h <;> try (cases h; done)
    case usRcCas l sc k old =>
      repeat' split at h
      all_goals first | (cases h; done) | skip
      · cases h; exact scanAdvance_pc s t l sc
      · cases h; exact ⟨_, rfl⟩
    case usCasGrab l old =>
      rcases casWord_ok h with ⟨hw, _, rfl⟩ | ⟨_, _, rfl⟩
      · obtain ⟨p, hp'⟩ := scanAdvance_pc (subShare { s with word := grabWord l old, sp := some t } t l) t l
          { wake := [], todo := s.queue, wt := none, sww := false, saf := true }
        exact ⟨p, by rw [hp']; simp⟩
      · exact ⟨_, rfl⟩
    case usFinCas l f old =>
      rcases casWord_ok h with ⟨hw, _, rfl⟩ | ⟨_, _, rfl⟩
      · exact afterFin_pc _ t l f.wake
      · exact ⟨_, rfl⟩
    all_goals
      rcases casWord_ok h with ⟨hw, _, rfl⟩ | ⟨_, _, rfl⟩ <;> first | exact ⟨_, rfl⟩ | exact ⟨_, by simp [setPc]; rfl⟩
  case semPEnter t k =>
    refine ⟨fun t' ht => ?_, fun hn => by cases hn⟩
    cases ht
    simp only [step] at h
    cases hp : s.pc t <;> simp only [hp] at h <;> try (cases h; done)
    split at h <;> try (cases h; done)
    cases h; exact ⟨_, rfl⟩
  case semPRet t k =>
    refine ⟨fun t' ht => ?_, fun hn => by cases hn⟩
    cases ht
    simp only [step] at h
    cases hp : s.pc t <;> simp only [hp] at h <;> try (cases h; done)
    repeat' split at h
    all_goals first | (cases h; done) | (cases h; exact ⟨_, rfl⟩)
  case semV t k =>
    refine ⟨fun t' ht => ?_, fun hn => by cases hn⟩
    cases ht
    simp only [step] at h
    cases hp : s.pc t <;> simp only [hp] at h <;> try (cases h; done)
    split at h <;> try (cases h; done)
    cases h
    rename_i l k' r _
    exact afterFin_pc s t l r
  case envV k =>
    simp only [step] at h; cases h
    exact ⟨(fun t' ht => by cases ht), fun _ => rfl⟩
  case envSem k n =>
    simp only [step] at h
    split at h <;> try (cases h; done)
    cases h
    exact ⟨(fun t' ht => by cases ht), fun _ => rfl⟩

theorem step_pc_other {cfg : Cfg} {s s' : State} {e : Event} {t : Tid}
    (h : step cfg s e = .ok s') (hne : e.tid ≠ some t) : s'.pc t = s.pc t := by
  obtain ⟨h1, h2⟩ := step_pc_shape h
  cases he : e.tid with
  | none => rw [h2 he]
  | some u =>
    obtain ⟨p, hp⟩ := h1 u he
    rw [hp]; exact setFn_other _ _ _ _ (fun e' => hne (by rw [he, e']))

/-- In every continuation, each step of `t` up to and including its `ret` has `touchesMu = false`. -/
def QuietUntilRet (cfg : Cfg) (t : Tid) : State → List Event → Prop
  | _, [] => True
  | s, e :: es => ∀ s1, step cfg s e = .ok s1 →
      (e.tid = some t → stepTouchesMu s e = false ∧ s1.word = s.word ∧ s1.queue = s.queue ∧
        (s1.pc t = .idle ∨ QuietUntilRet cfg t s1 es)) ∧
      (e.tid ≠ some t → QuietUntilRet cfg t s1 es)

theorem quiet_of_relDone {cfg : Cfg} {t : Tid} : ∀ (evs : List Event) (s : State),
    relDone (s.pc t) → QuietUntilRet cfg t s evs := by
  intro evs
  induction evs with
  | nil => intro s _; trivial
  | cons e es ih =>
    intro s hd s1 hs
    constructor
    · intro he
      obtain ⟨h1, h2, h3, h4, _⟩ := relDone_step hd hs he
      refine ⟨h1, h3, h4, ?_⟩
      rcases h2 with h2 | h2
      · exact Or.inr (ih s1 h2)
      · exact Or.inl h2
    · intro hne
      apply ih s1
      rw [step_pc_other hs hne]; exact hd

end NsyncVerif.MuQ
