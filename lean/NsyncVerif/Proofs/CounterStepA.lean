/- Proofs/CounterStepA.lean — invariant preservation, one lemma per program point (generated, uniform script). -/
import NsyncVerif.Proofs.CounterStepBase

namespace Counter

variable {s s' : State} {t : Tid} {e : Ev}

theorem inv_idle  (hi : Inv s) (hpc : s.pc t = .idle) (h : stepThr s t e = .ok s') : Inv s' := by
  step_open
  all_goals first | (show ShInv _; shinv_tac) | (show pcInv _ _ _; pcinv_tac) | (show ∀ u, _; rely_tac)

theorem inv_newMalloc {v} (hi : Inv s) (hpc : s.pc t = .newMalloc v) (h : stepThr s t e = .ok s') : Inv s' := by
  step_open
  all_goals first | (show ShInv _; shinv_tac) | (show pcInv _ _ _; pcinv_tac) | (show ∀ u, _; rely_tac)

theorem inv_newRet {ok} (hi : Inv s) (hpc : s.pc t = .newRet ok) (h : stepThr s t e = .ok s') : Inv s' := by
  step_open
  all_goals first | (show ShInv _; shinv_tac) | (show pcInv _ _ _; pcinv_tac) | (show ∀ u, _; rely_tac)

theorem inv_fLockCall  (hi : Inv s) (hpc : s.pc t = .fLockCall) (h : stepThr s t e = .ok s') : Inv s' := by
  step_open
  all_goals first | (show ShInv _; shinv_tac) | (show pcInv _ _ _; pcinv_tac) | (show ∀ u, _; rely_tac)

theorem inv_fLockWait  (hi : Inv s) (hpc : s.pc t = .fLockWait) (h : stepThr s t e = .ok s') : Inv s' := by
  step_open
  all_goals first | (show ShInv _; shinv_tac) | (show pcInv _ _ _; pcinv_tac) | (show ∀ u, _; rely_tac)

theorem inv_fHeld  (hi : Inv s) (hpc : s.pc t = .fHeld) (h : stepThr s t e = .ok s') : Inv s' := by
  step_open
  all_goals first | (show ShInv _; shinv_tac) | (show pcInv _ _ _; pcinv_tac) | (show ∀ u, _; rely_tac)

theorem inv_fUnlockWait  (hi : Inv s) (hpc : s.pc t = .fUnlockWait) (h : stepThr s t e = .ok s') : Inv s' := by
  step_open
  all_goals first | (show ShInv _; shinv_tac) | (show pcInv _ _ _; pcinv_tac) | (show ∀ u, _; rely_tac)

theorem inv_fFree  (hi : Inv s) (hpc : s.pc t = .fFree) (h : stepThr s t e = .ok s') : Inv s' := by
  step_open
  all_goals first | (show ShInv _; shinv_tac) | (show pcInv _ _ _; pcinv_tac) | (show ∀ u, _; rely_tac)

theorem inv_fRet  (hi : Inv s) (hpc : s.pc t = .fRet) (h : stepThr s t e = .ok s') : Inv s' := by
  step_open
  all_goals first | (show ShInv _; shinv_tac) | (show pcInv _ _ _; pcinv_tac) | (show ∀ u, _; rely_tac)

theorem inv_valLoad  (hi : Inv s) (hpc : s.pc t = .valLoad) (h : stepThr s t e = .ok s') : Inv s' := by
  step_open
  all_goals first | (show ShInv _; shinv_tac) | (show pcInv _ _ _; pcinv_tac) | (show ∀ u, _; rely_tac)

theorem inv_valRet {v} (hi : Inv s) (hpc : s.pc t = .valRet v) (h : stepThr s t e = .ok s') : Inv s' := by
  step_open
  all_goals first | (show ShInv _; shinv_tac) | (show pcInv _ _ _; pcinv_tac) | (show ∀ u, _; rely_tac)

theorem inv_azLoad  (hi : Inv s) (hpc : s.pc t = .azLoad) (h : stepThr s t e = .ok s') : Inv s' := by
  step_open
  all_goals first | (show ShInv _; shinv_tac) | (show pcInv _ _ _; pcinv_tac) | (show ∀ u, _; rely_tac)

theorem inv_azRet {v} (hi : Inv s) (hpc : s.pc t = .azRet v) (h : stepThr s t e = .ok s') : Inv s' := by
  step_open
  all_goals first | (show ShInv _; shinv_tac) | (show pcInv _ _ _; pcinv_tac) | (show ∀ u, _; rely_tac)

end Counter
