import NsyncVerif.Proofs.MuCTLWait2
/-
  MuC, facts about one step: what a step keeps of the stepping thread's being responsible (`RKeep`).
-/
namespace NsyncVerif.MuC

macro "rk_simp" : tactic => `(tactic|
  simp_all [GaveUp, shareOf, tshare, pcShare, PC.unl, PC.woken, PC.timedOut, PC.waitRec, PC.hlRec, Ret.w?, Ret.mode, PC.ok, MW.ok, MW.inner, Ret.ok, SL.okL,
      setFn, loopPc, finPc, Ret.pc, mwLoop_eq, afterFin_eq, afterWakes_eq, SL.entry, SL.fromWait, SL.woken, setHeld])

macro "rk_fld" : tactic => `(tactic|
  first
  | (rk_simp <;> grind)
  | ((repeat' split) <;> rk_simp <;> grind))

macro "rk_tl" : tactic => `(tactic| (refine ⟨?_, ?_, ?_, ?_, ?_⟩ <;> rk_fld))

theorem rkeep_ldA {s s' : State} {t : Tid} {o : Ord} {loc : Loc} {obs : Nat} (h1 : Inv1 s) (hp : (s.pc t).ldA = true)
    (h : stepLd s t o loc obs = .ok s') : RKeep s s' t := by
  have hok := h1.pcok t
  have hheld : s.pc t ≠ .idle → s.held t = none := fun a => h1.held_none a
  walk_ld h => rk_tl

theorem rkeep_ldB {s s' : State} {t : Tid} {o : Ord} {loc : Loc} {obs : Nat} (h1 : Inv1 s) (hp : (s.pc t).ldA = false)
    (h : stepLd s t o loc obs = .ok s') : RKeep s s' t := by
  have hok := h1.pcok t
  have hheld : s.pc t ≠ .idle → s.held t = none := fun a => h1.held_none a
  walk_ld h => rk_tl

theorem rkeep_ld {s s' : State} {t : Tid} {o : Ord} {loc : Loc} {obs : Nat} (h1 : Inv1 s)
    (h : stepLd s t o loc obs = .ok s') : RKeep s s' t := by
  cases hp : (s.pc t).ldA
  · exact rkeep_ldB h1 hp h
  · exact rkeep_ldA h1 hp h

theorem rkeep_st {s s' : State} {t : Tid} {o : Ord} {loc : Loc} {new obs : Nat} (h1 : Inv1 s)
    (h : stepSt s t o loc new obs = .ok s') : RKeep s s' t := by
  have hok := h1.pcok t
  have hheld : s.pc t ≠ .idle → s.held t = none := fun a => h1.held_none a
  walk_st h => rk_tl

end NsyncVerif.MuC
