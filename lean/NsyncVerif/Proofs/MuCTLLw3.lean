import NsyncVerif.Proofs.MuCTLLw2
/-
  MuC, `LwTL`: CAS steps and condition evaluations.
-/
namespace NsyncVerif.MuC

theorem lwTL_casA {s s' : State} {t : Tid} {o : Ord} {loc : Loc} {exp new obs : Nat} {ok : Bool} (h1 : Inv1 s) (h3 : Inv3 s)
    (hp : (s.pc t).casA = true) (h : stepCas s t o loc exp new obs ok = .ok s') : LwTL s s' t := by
  have hoth := stepCas_other h
  have hok := h1.pcok t
  have hok3 := h3.ok3 t
  have hsh : s.wOwner = some t → s.pc t ≠ .idle → pcShare (s.pc t) = some .W := fun a b => by
    rw [← h1.share_eq b]; exact (h1.lock.wown t).1 a
  walk_cas h StepTL.lw => lw_tl

theorem lwTL_casB {s s' : State} {t : Tid} {o : Ord} {loc : Loc} {exp new obs : Nat} {ok : Bool} (h1 : Inv1 s) (h3 : Inv3 s)
    (hp : (s.pc t).casA = false) (h : stepCas s t o loc exp new obs ok = .ok s') : LwTL s s' t := by
  have hoth := stepCas_other h
  have hok := h1.pcok t
  have hok3 := h3.ok3 t
  have hsh : s.wOwner = some t → s.pc t ≠ .idle → pcShare (s.pc t) = some .W := fun a b => by
    rw [← h1.share_eq b]; exact (h1.lock.wown t).1 a
  walk_cas h StepTL.lw => lw_tl

theorem lwTL_cas {s s' : State} {t : Tid} {o : Ord} {loc : Loc} {exp new obs : Nat} {ok : Bool} (h1 : Inv1 s) (h3 : Inv3 s)
    (h : stepCas s t o loc exp new obs ok = .ok s') : LwTL s s' t := by
  cases hp : (s.pc t).casA
  · exact lwTL_casB h1 h3 hp h
  · exact lwTL_casA h1 h3 hp h

theorem lwTL_cond {s s' : State} {t : Tid} {fn : CFn} {k : Nat} {res : Bool} (h1 : Inv1 s)
    (h : stepCond s t fn k res = .ok s') : LwTL s s' t := by
  have hoth := stepCond_other h
  walk_cond h StepTL.lw => lw_tl

end NsyncVerif.MuC
