import NsyncVerif.Proofs.MuCRing
/-
  MuC: the ring invariant `Chain` split into its adjacency part (`Links`), the junction between two
  lists and the "last record is not linked" part; what nsync_maybe_merge_conditions_ (`mergeLinks`)
  and the ring fix-up of nsync_remove_from_mu_queue_ (`removeLinks`) do to it.  Pure list facts.
-/
namespace NsyncVerif.MuC

/-- A record linked to its list successor has a condition denoting the same predicate. -/
def Links (wr : Wid → WRec) : List Wid → Prop
  | [] => True
  | [_] => True
  | a :: b :: rest => ((wr a).lnk = true → SameSem (wr a).cond (wr b).cond) ∧ Links wr (b :: rest)

def Junction (wr : Wid → WRec) (p n : Option Wid) : Prop :=
  ∀ a b, p = some a → n = some b → (wr a).lnk = true → SameSem (wr a).cond (wr b).cond

def LastOff (wr : Wid → WRec) (l : List Wid) : Prop := ∀ p, l.getLast? = some p → (wr p).lnk = false

theorem chain_iff {wr : Wid → WRec} (l : List Wid) : Chain wr l ↔ Links wr l ∧ LastOff wr l := by
  induction l with
  | nil => simp [Chain, Links, LastOff]
  | cons a l ih =>
    cases l with
    | nil => simp [Chain, Links, LastOff]
    | cons b rest =>
      simp only [Chain, Links]
      rw [ih]
      simp only [LastOff, List.getLast?_cons_cons]
      exact and_assoc.symm

theorem links_tail {wr : Wid → WRec} {a : Wid} {l : List Wid} (h : Links wr (a :: l)) : Links wr l := by
  cases l with
  | nil => trivial
  | cons b rest => exact h.2

theorem links_cons {wr : Wid → WRec} (a : Wid) (l : List Wid) :
    Links wr (a :: l) ↔ Junction wr (some a) l.head? ∧ Links wr l := by
  cases l with
  | nil => simp [Links, Junction]
  | cons b rest =>
    simp only [Links, Junction, List.head?_cons]
    constructor
    · rintro ⟨h1, h2⟩
      exact ⟨fun x y hx hy => by cases hx; cases hy; exact h1, h2⟩
    · rintro ⟨h1, h2⟩
      exact ⟨h1 a b rfl rfl, h2⟩

theorem links_append {wr : Wid → WRec} (l1 l2 : List Wid) :
    Links wr (l1 ++ l2) ↔ Links wr l1 ∧ Links wr l2 ∧ Junction wr l1.getLast? l2.head? := by
  induction l1 with
  | nil => simp [Links, Junction]
  | cons a l1 ih =>
    cases l1 with
    | nil =>
      simp only [List.singleton_append, List.getLast?_singleton]
      rw [links_cons]
      simp [Links, and_comm]
    | cons b rest =>
      simp only [List.cons_append, Links, List.getLast?_cons_cons]
      simp only [List.cons_append] at ih
      rw [ih]
      simp only [Links, and_assoc]

/-- `Links` looks at `lnk` only of the records that have a successor. -/
theorem links_congr {wr wr' : Wid → WRec} {l : List Wid} (hc : ∀ x, x ∈ l → (wr' x).cond = (wr x).cond)
    (hl : ∀ x, x ∈ l.dropLast → (wr' x).lnk = (wr x).lnk) (h : Links wr l) : Links wr' l := by
  induction l with
  | nil => trivial
  | cons a l ih =>
    cases l with
    | nil => trivial
    | cons b rest =>
      simp only [Links] at h ⊢
      simp only [List.dropLast_cons_cons] at hl
      refine ⟨?_, ih (fun x hx => hc x (List.mem_cons_of_mem _ hx)) (fun x hx => hl x (List.mem_cons_of_mem _ hx)) h.2⟩
      rw [hl a (List.mem_cons_self), hc a (List.mem_cons_self), hc b (List.mem_cons_of_mem _ List.mem_cons_self)]
      exact h.1

theorem mem_dropLast_ne_last : ∀ {l : List Wid} {p x : Wid}, l.Nodup → l.getLast? = some p → x ∈ l.dropLast → x ≠ p
  | [], _, _, _, h, _ => by simp at h
  | [_], _, _, _, _, hx => by simp at hx
  | a :: b :: rest, p, x, hnd, hlast, hx => by
    simp only [List.getLast?_cons_cons] at hlast
    simp only [List.dropLast_cons_cons, List.mem_cons] at hx
    rcases hx with rfl | hx
    · intro e; subst e
      have := List.mem_of_getLast? hlast
      exact (List.nodup_cons.mp hnd).1 this
    · exact mem_dropLast_ne_last (List.nodup_cons.mp hnd).2 hlast hx

theorem mem_of_mem_dropLast {l : List Wid} {x : Wid} (hx : x ∈ l.dropLast) : x ∈ l :=
  (List.dropLast_sublist l).subset hx

/-- Only the last record of the list changes its `lnk`. -/
theorem links_congr_last {wr wr' : Wid → WRec} {l : List Wid} {p : Wid} (hnd : l.Nodup) (hlast : l.getLast? = some p)
    (hc : ∀ x, (wr' x).cond = (wr x).cond) (hl : ∀ x, x ≠ p → (wr' x).lnk = (wr x).lnk) (h : Links wr l) : Links wr' l :=
  links_congr (fun x _ => hc x) (fun x hx => hl x (mem_dropLast_ne_last hnd hlast hx)) h

theorem links_congr_all {wr wr' : Wid → WRec} {l : List Wid} (hc : ∀ x, x ∈ l → (wr' x).cond = (wr x).cond)
    (hl : ∀ x, x ∈ l → (wr' x).lnk = (wr x).lnk) (h : Links wr l) : Links wr' l :=
  links_congr hc (fun x hx => hl x (mem_of_mem_dropLast hx)) h

theorem chain_congr {wr wr' : Wid → WRec} {l : List Wid} (hc : ∀ x, x ∈ l → (wr' x).cond = (wr x).cond)
    (hl : ∀ x, x ∈ l → (wr' x).lnk = (wr x).lnk) (h : Chain wr l) : Chain wr' l := by
  rw [chain_iff] at h ⊢
  refine ⟨links_congr_all hc hl h.1, ?_⟩
  intro p hp
  rw [hl p (List.mem_of_getLast? hp)]
  exact h.2 p hp

theorem getLast?_mem' {l : List Wid} {p : Wid} (h : l.getLast? = some p) : p ∈ l := List.mem_of_getLast? h

theorem head?_mem' {l : List Wid} {p : Wid} (h : l.head? = some p) : p ∈ l := List.mem_of_head? h

/-! ### what WAIT_CONDITION_EQ guarantees -/

/-- The condition's argument object denotes what the condition says. -/
def CondOk (cargs : Nat → Option (Nat × Int × Bool)) (c : Option Cond) : Prop :=
  ∀ cd, c = some cd → cargs cd.k = some (cd.var, cd.val, cd.hasEq)

theorem condEq_sameSem {cargs : Nat → Option (Nat × Int × Bool)} {a b : Option Cond} (ha : CondOk cargs a) (hb : CondOk cargs b)
    (h : condEq a b = true) : SameSem a b := by
  cases a with
  | none => simp [condEq] at h
  | some x =>
    cases b with
    | none => simp [condEq] at h
    | some y =>
      refine ⟨x, y, rfl, rfl, ?_⟩
      simp only [condEq, Bool.and_eq_true, Bool.or_eq_true, beq_iff_eq] at h
      obtain ⟨h1, h2⟩ := h
      have hx := ha x rfl
      have hy := hb y rfl
      rcases h2 with h2 | ⟨⟨_, h3⟩, h4⟩
      · rw [h2, hy] at hx
        simp only [Option.some.injEq, Prod.mk.injEq] at hx
        simp [Cond.sem, h1, hx.1, hx.2.1]
      · simp [Cond.sem, h1, h3, h4]

/-! ### mergeLinks / removeLinks on records -/

theorem mergeLinks_wr_other (s : State) (p n : Option Wid) (x : Wid) (h : p ≠ some x) : (mergeLinks s p n).wr x = s.wr x := by
  unfold mergeLinks
  split
  · rename_i a b
    split
    · simp only [setLnk, setFn]
      split
      · rename_i e; subst e; exact absurd rfl h
      · rfl
    · rfl
  · rfl

theorem mergeLinks_lnk_self (s : State) (a : Wid) (n : Option Wid) (h : ((mergeLinks s (some a) n).wr a).lnk = true) :
    (s.wr a).lnk = true ∨ ∃ b, n = some b ∧ condEq (s.wr a).cond (s.wr b).cond = true := by
  unfold mergeLinks at h
  split at h
  · rename_i a' b heq
    simp only [Option.some.injEq] at heq
    obtain ⟨rfl, rfl⟩ := heq
    split at h
    · rename_i hce; exact Or.inr ⟨b, rfl, hce⟩
    · exact Or.inl h
  · exact Or.inl h

theorem mergeLinks_cond (s : State) (p n : Option Wid) (x : Wid) : ((mergeLinks s p n).wr x).cond = (s.wr x).cond :=
  (lnkOnly_mergeLinks s p n x).2.2.2.2.1

theorem removeLinks_cond (s : State) (p : Option Wid) (k : Wid) (n : Option Wid) (x : Wid) :
    ((removeLinks s p k n).wr x).cond = (s.wr x).cond :=
  (lnkOnly_removeLinks s p k n x).2.2.2.2.1

theorem setLnk_wr_other (s : State) (k x : Wid) (b : Bool) (h : x ≠ k) : (setLnk s k b).wr x = s.wr x := by
  simp [setLnk, setFn, h]

theorem setLnk_wr_self (s : State) (k : Wid) (b : Bool) : ((setLnk s k b).wr k).lnk = b := by
  simp [setLnk, setFn]

theorem removeLinks_wr_other (s : State) (p : Option Wid) (k : Wid) (n : Option Wid) (x : Wid) (hk : x ≠ k) (hp : p ≠ some x) :
    (removeLinks s p k n).wr x = s.wr x := by
  cases p with
  | none =>
    simp only [removeLinks]
    split
    · exact setLnk_wr_other _ _ _ _ hk
    · rfl
  | some q =>
    have hq : x ≠ q := fun e => hp (by rw [e])
    simp only [removeLinks]
    split
    · rw [setLnk_wr_other _ _ _ _ hk]
      split
      · exact setLnk_wr_other _ _ _ _ hq
      · rfl
    · cases n with
      | none => rfl
      | some m => exact mergeLinks_wr_other _ _ _ _ hp

end NsyncVerif.MuC
