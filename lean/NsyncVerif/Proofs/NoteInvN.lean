/-
  Layer `Note`, invariant family N: what the program counters know about notes being notified
  (results of `nsync_note_notified_deadline_`, postcondition of `notify`, observations).
-/
import NsyncVerif.Proofs.NoteInvA

set_option linter.unusedSimpArgs false

namespace Note

/-- Notified (flag or zero expiry) and allocated. -/
def NA (s : State) (n : NoteId) : Prop := s.Notified n ∧ (s.notes n).allocated = true

/-- The minimum with a zero deadline is zero. -/
theorem Dl.min_zero_left (b : Dl) : Dl.min (some 0) b = some 0 := by
  cases b <;> simp [Dl.min, Dl.lt]

/-- `NOTIFIED_TIME` of a notified note is zero. -/
theorem ntime_of_notified {s : State} {n : NoteId} (h : s.Notified n) :
    ¬ (s.notes n).ntime.pos := by
  unfold State.Notified at h
  unfold NoteRec.ntime Dl.pos
  rcases h with h | h
  · simp [h]
  · split <;> simp [h]

theorem notified_of_ntime {s : State} {n : NoteId} (h : ¬ (s.notes n).ntime.pos) :
    s.Notified n := by
  unfold NoteRec.ntime Dl.pos at h
  unfold State.Notified
  by_cases hf : (s.notes n).notified = true
  · left; exact hf
  · right; simpa [hf] using h

/-- Claim of a continuation of `nsync_note_notified_deadline_ (n)`: an observation that started
    after a positive observation of `n` works on a notified note. -/
def DKN (s : State) (t : Tid) (n : NoteId) (dk : DK) : Prop :=
  (s.after t = true → dk.isObs = true → NA s n) ∧
  (∀ par dl, dk = .newSelf par dl → (s.notes n).expiry = dl)

def NKN (s : State) (t : Tid) (n : NoteId) : NK → Prop
  | .ofApi => True
  | .ofDeadline dk => DKN s t n dk

@[simp] def DPos.late : DPos → Bool
  | .unlockCall | .unlockRet | .now => true
  | _ => false

@[simp] def NPos.done : NPos → Bool
  | .unlockPCall | .unlockPRet | .unlockCall | .unlockRet => true
  | _ => false

@[simp] def CPos.stored : CPos → Bool
  | .ld | .st => false
  | _ => true

@[simp] def NewPos.early : NewPos → Bool
  | .lockCall | .lockRet | .ld => true
  | _ => false

/-- The child a position of `note_notify_child` is about to lock. -/
def CPos.pending : CPos → Option NoteId
  | .lockChildRet c => some c
  | _ => none

/-- The activations of `note_notify_child`: the outermost one is for `n`; every activation but the
    innermost has stored its flag, the innermost has if its position says so. -/
def StkN (s : State) (pos : CPos) (stk : List Frame) (n : NoteId) : Prop :=
  match stk with
  | [] => False
  | f :: rest =>
    (f :: rest).getLast?.map Frame.note = some n ∧ (∀ g ∈ rest, NA s g.note) ∧
    (s.notes f.note).allocated = true ∧ (pos.stored = true → s.Notified f.note) ∧
    (∀ c, pos.pending = some c → (s.notes c).allocated = true)

/-- What a program counter knows (family N). -/
def NClaim (s : State) (t : Tid) : PC → Prop
  | .dl pos n nt dk =>
    (s.notes n).allocated = true ∧ DKN s t n dk ∧
    (pos.late = true → (¬ nt.pos → s.Notified n) ∧
      (nt.pos → dk.isNew = true → (s.notes n).expiry ≠ some 0) ∧
      (s.after t = true → dk.isObs = true → ¬ nt.pos))
  | .nfy pos n _ nk =>
    (s.notes n).allocated = true ∧ NKN s t n nk ∧ (pos.done = true → s.Notified n)
  | .chd pos stk top =>
    (s.notes top.n).allocated = true ∧ NKN s t top.n top.k ∧ StkN s pos stk top.n
  | .newP pos n p _ => (s.notes n).allocated = true ∧ (pos = .st → NA s p)
  | .retIs n b => (b = true → NA s n) ∧ (s.after t = true → b = true)
  | .retNotify n => NA s n
  | .wt0 p n _ =>
    (s.notes n).allocated = true ∧ (s.after t = true → s.Notified n) ∧
    (match p with
     | .nret rd | .ret rd => (rd = 0 → s.Notified n) ∧ (s.after t = true → rd = 0)
     | _ => True)
  | .wt p n _ _ =>
    (s.notes n).allocated = true ∧ (s.after t = true → s.Notified n) ∧
    (match p with
     | .qSt => s.after t = false
     | .qUnlockCall q | .qUnlockRet q => (q = false → s.Notified n) ∧ (s.after t = true → q = false)
     | _ => True)
  | _ => True

/-- Two states agree on everything `NClaim` looks at. -/
structure SameN (s s' : State) (t : Tid) : Prop where
  alloc : ∀ n, (s'.notes n).allocated = (s.notes n).allocated
  flag : ∀ n, (s'.notes n).notified = (s.notes n).notified
  expiry : ∀ n, (s'.notes n).expiry = (s.notes n).expiry
  after : s'.after t = s.after t

theorem SameN.notified {s s' : State} {t : Tid} (h : SameN s s' t) (n : NoteId) :
    s'.Notified n ↔ s.Notified n := by
  unfold State.Notified; rw [h.flag, h.expiry]

theorem SameN.na {s s' : State} {t : Tid} (h : SameN s s' t) (n : NoteId) : NA s' n ↔ NA s n := by
  unfold NA; rw [h.notified, h.alloc]

theorem NClaim.same {s s' : State} {t : Tid} (h : SameN s s' t) (pc : PC) :
    NClaim s' t pc ↔ NClaim s t pc := by
  cases pc with
  | dl pos n nt dk => simp only [NClaim, DKN, h.alloc, h.notified, h.expiry, h.after, h.na]
  | nfy pos n par nk =>
    cases nk <;> simp only [NClaim, NKN, DKN, h.alloc, h.notified, h.expiry, h.after, h.na]
  | chd pos stk top =>
    cases stk <;> cases hk : top.k <;>
      simp only [NClaim, StkN, NKN, DKN, hk, h.alloc, h.notified, h.expiry, h.after, h.na]
  | newP pos n p dl => simp only [NClaim, h.alloc, h.na]
  | retIs n b => simp only [NClaim, h.na, h.after]
  | retNotify n => simp only [NClaim, h.na]
  | wt0 p n wdl => cases p <;> simp only [NClaim, h.alloc, h.notified, h.after]
  | wt p n wdl r => cases p <;> simp only [NClaim, h.alloc, h.notified, h.after]
  | _ => simp only [NClaim]

/-- `s'` differs from `s` (as far as `NClaim` is concerned) only by flags that got set. -/
structure LeN (s s' : State) (t : Tid) : Prop where
  alloc : ∀ n, (s'.notes n).allocated = (s.notes n).allocated
  flag : ∀ n, (s.notes n).notified = true → (s'.notes n).notified = true
  expiry : ∀ n, (s'.notes n).expiry = (s.notes n).expiry
  after : s'.after t = s.after t

theorem LeN.notified {s s' : State} {t : Tid} (h : LeN s s' t) {n : NoteId}
    (hn : s.Notified n) : s'.Notified n := by
  unfold State.Notified at *
  rcases hn with hn | hn
  · left; exact h.flag n hn
  · right; rw [h.expiry]; exact hn

theorem LeN.na {s s' : State} {t : Tid} (h : LeN s s' t) {n : NoteId} (hn : NA s n) : NA s' n :=
  ⟨h.notified hn.1, by rw [h.alloc]; exact hn.2⟩

theorem NClaim.mono {s s' : State} {t : Tid} (h : LeN s s' t) {pc : PC} (hc : NClaim s t pc) :
    NClaim s' t pc := by
  cases pc with
  | dl pos n nt dk =>
    obtain ⟨h1, h2, h3⟩ := hc
    refine ⟨by rw [h.alloc]; exact h1, ⟨fun ha hb => h.na (h2.1 (h.after ▸ ha) hb),
      fun par dl e => by rw [h.expiry]; exact h2.2 par dl e⟩, fun hl => ?_⟩
    obtain ⟨h4, h5, h6⟩ := h3 hl
    exact ⟨fun hp => h.notified (h4 hp), fun hp hn => by rw [h.expiry]; exact h5 hp hn,
      fun ha hb => h6 (h.after ▸ ha) hb⟩
  | nfy pos n par nk =>
    obtain ⟨h1, h2, h3⟩ := hc
    refine ⟨by rw [h.alloc]; exact h1, ?_, fun hd => h.notified (h3 hd)⟩
    cases nk with
    | ofApi => trivial
    | ofDeadline dk =>
      exact ⟨fun ha hb => h.na (h2.1 (h.after ▸ ha) hb),
        fun par dl e => by rw [h.expiry]; exact h2.2 par dl e⟩
  | chd pos stk top =>
    obtain ⟨h1, h2, h3⟩ := hc
    refine ⟨by rw [h.alloc]; exact h1, ?_, ?_⟩
    · cases hk : top.k with
      | ofApi => trivial
      | ofDeadline dk =>
        rw [hk] at h2
        exact ⟨fun ha hb => h.na (h2.1 (h.after ▸ ha) hb),
          fun par dl e => by rw [h.expiry]; exact h2.2 par dl e⟩
    · cases stk with
      | nil => exact h3
      | cons f rest =>
        obtain ⟨h4, h5, h6, h7, h8⟩ := h3
        exact ⟨h4, fun g hg => h.na (h5 g hg), by rw [h.alloc]; exact h6,
          fun hp => h.notified (h7 hp), fun c hc' => by rw [h.alloc]; exact h8 c hc'⟩
  | newP pos n p dl => exact ⟨by rw [h.alloc]; exact hc.1, fun hp => h.na (hc.2 hp)⟩
  | retIs n b => exact ⟨fun hb => h.na (hc.1 hb), fun ha => hc.2 (h.after ▸ ha)⟩
  | retNotify n => exact h.na hc
  | wt0 p n wdl =>
    obtain ⟨h1, h2, h3⟩ := hc
    refine ⟨by rw [h.alloc]; exact h1, fun ha => h.notified (h2 (h.after ▸ ha)), ?_⟩
    cases p with
    | nret rd => exact ⟨fun h0 => h.notified (h3.1 h0), fun ha => h3.2 (h.after ▸ ha)⟩
    | ret rd => exact ⟨fun h0 => h.notified (h3.1 h0), fun ha => h3.2 (h.after ▸ ha)⟩
    | _ => trivial
  | wt p n wdl r =>
    obtain ⟨h1, h2, h3⟩ := hc
    refine ⟨by rw [h.alloc]; exact h1, fun ha => h.notified (h2 (h.after ▸ ha)), ?_⟩
    cases p with
    | qSt => simpa [NClaim, h.after] using h3
    | qUnlockCall q => exact ⟨fun h0 => h.notified (h3.1 h0), fun ha => h3.2 (h.after ▸ ha)⟩
    | qUnlockRet q => exact ⟨fun h0 => h.notified (h3.1 h0), fun ha => h3.2 (h.after ▸ ha)⟩
    | _ => trivial
  | _ => trivial

/-- The claim at the return of `nsync_note_notified_deadline_`. -/
theorem NClaim.afterDeadlinePc {s : State} {t : Tid} {n : NoteId} {nt : Dl} {dk : DK}
    (h1 : (s.notes n).allocated = true) (h2 : DKN s t n dk) (h4 : ¬ nt.pos → s.Notified n)
    (h5 : nt.pos → dk.isNew = true → (s.notes n).expiry ≠ some 0)
    (h6 : s.after t = true → dk.isObs = true → ¬ nt.pos) :
    NClaim s t (afterDeadlinePc n nt dk) := by
  cases dk with
  | isNotified =>
    simp only [Note.afterDeadlinePc, NClaim]
    exact ⟨fun hb => ⟨h4 (by simpa using hb), h1⟩, fun ha => by simpa using h6 ha rfl⟩
  | notifyApi =>
    simp only [Note.afterDeadlinePc]
    split
    · exact ⟨h1, trivial, by simp⟩
    · next hp => exact ⟨h4 hp, h1⟩
  | newSelf par dl =>
    simp only [Note.afterDeadlinePc]
    split
    · next hp =>
      cases par with
      | none => trivial
      | some p => exact ⟨h1, fun hp => by cases hp⟩
    · trivial
  | ready1 wdl =>
    simp only [Note.afterDeadlinePc]
    split
    · exact ⟨h1, fun ha => (h2.1 ha rfl).1, trivial⟩
    · refine ⟨h1, fun ha => (h2.1 ha rfl).1, ?_, ?_⟩
      · intro h0; apply h4; intro hp; simp [hp] at h0
      · intro ha; have := h6 ha rfl; simp [this]
  | ready2 r wdl =>
    simp only [Note.afterDeadlinePc]
    split
    · exact ⟨h1, fun ha => (h2.1 ha rfl).1, trivial⟩
    · exact ⟨h1, ⟨fun ha _ => h2.1 ha rfl, fun _ _ e => by cases e⟩, by simp⟩
  | dequeue r wdl => exact ⟨h1, fun ha => (h2.1 ha rfl).1, trivial⟩

/-- The same claim in the state after `afterDeadline` (which settles the expiry time of a note
    being created under a parent). -/
theorem NClaim.afterDeadline {s : State} {t : Tid} {n : NoteId} {nt : Dl} {dk : DK}
    (h1 : (s.notes n).allocated = true) (h2 : DKN s t n dk) (h4 : ¬ nt.pos → s.Notified n)
    (h5 : nt.pos → dk.isNew = true → (s.notes n).expiry ≠ some 0)
    (h6 : s.after t = true → dk.isObs = true → ¬ nt.pos) :
    NClaim (Note.afterDeadline s t n nt dk) t (Note.afterDeadlinePc n nt dk) := by
  by_cases hk : ∃ p dl, dk = .newSelf (some p) dl
  · obtain ⟨p, dl, rfl⟩ := hk
    simp only [Note.afterDeadlinePc]
    split
    · exact ⟨by simpa using h1, fun hp => by cases hp⟩
    · trivial
  · have hn : (Note.afterDeadline s t n nt dk).notes = s.notes :=
      afterDeadline_notes_of s t n nt (fun p dl e => hk ⟨p, dl, e⟩)
    refine (NClaim.same (s := s) ⟨fun _ => by rw [hn], fun _ => by rw [hn], fun _ => by rw [hn],
      by simp⟩ _).mpr ?_
    exact NClaim.afterDeadlinePc h1 h2 h4 h5 h6

theorem NClaim.afterDeadline_zero {s : State} {t : Tid} {n : NoteId} {dk : DK}
    (h1 : (s.notes n).allocated = true) (h2 : DKN s t n dk) (h3 : s.Notified n) :
    NClaim (Note.afterDeadline s t n (some 0) dk) t (Note.afterDeadlinePc n (some 0) dk) :=
  NClaim.afterDeadline h1 h2 (fun _ => h3) (fun hp => absurd rfl hp) (fun _ _ hp => absurd rfl hp)

/-- The claim at the return of `notify`, in the state after `afterNotify`. -/
theorem NClaim.afterNotify {s : State} {t : Tid} {n : NoteId} {nk : NK}
    (h1 : (s.notes n).allocated = true) (h2 : NKN s t n nk) (h3 : s.Notified n) :
    NClaim (Note.afterNotify s t n nk) t (Note.afterNotifyPc n nk) := by
  cases nk with
  | ofApi =>
    refine (NClaim.same (s := s) ⟨fun _ => ?_, fun _ => ?_, fun _ => ?_, ?_⟩ _).mpr ⟨h3, h1⟩ <;>
      simp [Note.afterNotify]
  | ofDeadline dk => exact NClaim.afterDeadline_zero h1 h2 h3

/-- … when the first load saw the flag set. -/
theorem NClaim.afterDeadlinePc_zero {s : State} {t : Tid} {n : NoteId} {dk : DK}
    (h1 : (s.notes n).allocated = true) (h2 : DKN s t n dk) (h3 : s.Notified n) :
    NClaim s t (Note.afterDeadlinePc n (some 0) dk) :=
  NClaim.afterDeadlinePc h1 h2 (fun _ => h3) (fun hp => absurd rfl hp) (fun _ _ hp => absurd rfl hp)

/-- The claim at the return of `notify`. -/
theorem NClaim.afterNotifyPc {s : State} {t : Tid} {n : NoteId} {nk : NK}
    (h1 : (s.notes n).allocated = true) (h2 : NKN s t n nk) (h3 : s.Notified n) :
    NClaim s t (afterNotifyPc n nk) := by
  cases nk with
  | ofApi => exact ⟨h3, h1⟩
  | ofDeadline dk =>
    exact NClaim.afterDeadlinePc h1 h2 (fun _ => h3) (fun hp => absurd rfl hp)
      (fun _ _ hp => absurd rfl hp)

/-- The claim at the return of an activation of `note_notify_child` whose note is notified. -/
theorem NClaim.childReturnPc {s : State} {t : Tid} {pos : CPos} {f : Frame} {rest : List Frame}
    {top : Top} (hc : NClaim s t (.chd pos (f :: rest) top)) (hn : s.Notified f.note) :
    NClaim s t (childReturnPc f rest top) := by
  obtain ⟨h1, h2, h4, h5, h6, _, _⟩ := hc
  unfold Note.childReturnPc
  cases rest with
  | cons g gs =>
    refine ⟨h1, h2, ?_, fun x hx => h5 x (List.mem_cons_of_mem _ hx), (h5 g (by simp)).2,
      fun _ => (h5 g (by simp)).1, by simp [CPos.pending]⟩
    simpa [List.getLast?_cons_cons] using h4
  | nil =>
    have hf : f.note = top.n := by simpa using h4
    cases hp : top.par with
    | some p => exact ⟨h1, h2, fun _ => hf ▸ hn⟩
    | none => exact ⟨h1, h2, fun _ => hf ▸ hn⟩

/-- After the flag is stored the innermost activation only moves between positions that keep the
    stack and have no pending child. -/
theorem NClaim.chdStored {s : State} {t : Tid} {pos pos' : CPos} {f f' : Frame} {rest : List Frame}
    {top : Top} (hc : NClaim s t (.chd pos (f :: rest) top)) (hn : s.Notified f.note)
    (hf : f'.note = f.note) (hp : pos'.pending = none) :
    NClaim s t (.chd pos' (f' :: rest) top) := by
  obtain ⟨h1, h2, h4, h5, h6, _, _⟩ := hc
  refine ⟨h1, h2, ?_, h5, hf ▸ h6, fun _ => hf ▸ hn, by simp [hp]⟩
  cases rest with
  | nil => simpa [hf] using h4
  | cons g gs => simpa [List.getLast?_cons_cons] using h4

theorem NClaim.childWakeNextPc {s s1 : State} {t : Tid} {pos : CPos} {f : Frame}
    {rest : List Frame} {top : Top} (hc : NClaim s t (.chd pos (f :: rest) top))
    (hn : s.Notified f.note) : NClaim s t (childWakeNextPc s1 f rest top) := by
  unfold Note.childWakeNextPc
  split
  · exact NClaim.chdStored hc hn rfl rfl
  · unfold childLoopStartPc
    split
    · exact NClaim.chdStored hc hn rfl rfl
    · exact NClaim.chdStored hc hn rfl rfl

/-- Another scan of the children (children were adopted during WAIT_FOR_NO_CHILDREN). -/
theorem NClaim.childLoopStartPc {s : State} {t : Tid} {pos : CPos} {f : Frame}
    {rest : List Frame} {top : Top} (cs : List NoteId)
    (hc : NClaim s t (.chd pos (f :: rest) top))
    (hn : s.Notified f.note) : NClaim s t (childLoopStartPc cs f rest top) := by
  unfold Note.childLoopStartPc
  split
  · exact NClaim.chdStored hc hn rfl rfl
  · exact NClaim.chdStored hc hn rfl rfl

/-- A child has been locked and is not disconnecting: a new activation. -/
theorem NClaim.push {s : State} {t : Tid} {c : NoteId} {stk : List Frame} {top : Top}
    (hc : NClaim s t (.chd (.lockChildRet c) stk top)) :
    NClaim s t (.chd .ld (⟨c, none⟩ :: stk) top) := by
  cases stk with
  | nil => exact absurd hc.2.2 (by simp [StkN])
  | cons f rest =>
    obtain ⟨h1, h2, h4, h5, h6, h7, h8⟩ := hc
    refine ⟨h1, h2, ?_, ?_, h8 _ rfl, by simp, by simp [CPos.pending]⟩
    · simpa [List.getLast?_cons_cons] using h4
    · intro g hg
      rcases List.mem_cons.mp hg with hg | hg
      · subst hg; exact ⟨h7 rfl, h6⟩
      · exact h5 g hg

/-- A child has been locked but is disconnecting: skip it. -/
theorem NClaim.skip {s : State} {t : Tid} {c : NoteId} {stk : List Frame} {top : Top}
    (hc : NClaim s t (.chd (.lockChildRet c) stk top)) :
    NClaim s t (.chd (.unlockChild c) stk top) := by
  cases stk with
  | nil => exact absurd hc.2.2 (by simp [StkN])
  | cons f rest => exact NClaim.chdStored hc (hc.2.2.2.2.2.1 rfl) rfl rfl

/-- The store of the flag. -/
theorem NClaim.store {s : State} {t : Tid} {f : Frame} {rest : List Frame} {top : Top}
    (hc : NClaim s t (.chd .st (f :: rest) top)) :
    NClaim (childWakeNext (s.setNotified f.note) t f rest top) t
      (Note.childWakeNextPc (s.setNotified f.note) f rest top) := by
  have hle : LeN s (s.setNotified f.note) t := ⟨by simp, by
    intro n hn; simp only [setNotified_f_notified]; split <;> simp [hn], by simp, by simp⟩
  have hc1 := NClaim.mono hle hc
  have hn1 : (s.setNotified f.note).Notified f.note := Or.inl (by simp)
  refine (NClaim.same (s := s.setNotified f.note) ?_ _).mpr (NClaim.childWakeNextPc hc1 hn1)
  refine ⟨fun _ => ?_, fun _ => ?_, fun _ => ?_, ?_⟩ <;> simp

/-- `malloc` returned the note. -/
theorem NClaim.malloc (s : State) (t : Tid) (k : NoteId) (par : Option NoteId) (dl : Dl) :
    NClaim ((s.allocNote k par dl).setPc t (.dl .ld1 k none (.newSelf par dl))) t
      (.dl .ld1 k none (.newSelf par dl)) := by
  refine ⟨by simp, ⟨fun _ hb => absurd hb (by simp), ?_⟩, by simp⟩
  intro par' dl' e
  cases e
  simp

theorem NClaim.freeLoopStartPc (s : State) (t : Tid) (cs : List NoteId) (n : NoteId)
    (par : Option NoteId) : NClaim s t (freeLoopStartPc cs n par) := by
  cases cs <;> simp [Note.freeLoopStartPc, NClaim]

structure InvN (s : State) : Prop where
  claim : ∀ t, NClaim s t (s.pc t)
  /-- a positive observation was of a notified note -/
  obs : ∀ o ∈ s.observed, o.res = true → NA s o.n
  /-- an observation that started after a positive one is positive -/
  mono : ∀ o ∈ s.observed, o.after = true → o.res = true
  born : ∀ n, s.bornNotified n = true → NA s n

theorem InvN.seenPos {s : State} (h : InvN s) {n : NoteId} (hp : s.seenPos n = true) : NA s n := by
  unfold State.seenPos at hp
  rw [List.any_eq_true] at hp
  obtain ⟨o, ho, hd⟩ := hp
  simp only [decide_eq_true_eq] at hd
  exact hd.1 ▸ h.obs o ho hd.2

theorem InvN.init : InvN Note.init := by
  refine ⟨?_, ?_, ?_, ?_⟩ <;> simp [Note.init, NClaim]

/-- `after` is a thread-local ghost. -/
theorem step_after_other {s s' : State} {e : Event} (hs : step s e = .ok s') (u : Tid)
    (hu : e.actor ≠ some u) : s'.after u = s.after u := by
  cases e
  all_goals step_cases hs
  all_goals simp only [Event.actor, ne_eq, Option.some.injEq] at hu
  all_goals (try rfl)
  all_goals (try (simp [upd_apply, Ne.symm hu]; done))
  all_goals (repeat' split)
  all_goals (try (simp [upd_apply, Ne.symm hu]; done))

/-- Being notified (and allocated) is stable. -/
theorem NA.step {s s' : State} {e : Event} (hA : InvA s) (hN : InvN s) (hs : step s e = .ok s')
    {n : NoteId} (h : NA s n) : NA s' n := by
  have hst := step_stable hs
  refine ⟨?_, hst.alloc n h.2⟩
  rcases h.1 with hf | he
  · left; exact hst.flag n h.2 hf
  · rcases step_expiry hs n h.2 with h1 | ⟨a, p, dl, _, _, hpc, hexp⟩
    · right; rw [h1]; exact he
    · right
      have hc := hN.claim a
      have hdl : (s.notes n).expiry = dl := by
        rcases hpc with ⟨pos, nt, hpc⟩ | ⟨pos, par, hpc⟩
        · rw [hpc] at hc; exact hc.2.1.2 _ _ rfl
        · rw [hpc] at hc; exact hc.2.1.2 _ _ rfl
      rw [hexp, ← hdl, he]
      exact Dl.min_zero_left _

/-- The expiry time of the note a thread is creating is not changed by other threads. -/
theorem expiry_other {s s' : State} {e : Event} (hA : InvA s) (hs : step s e = .ok s')
    {t : Tid} {n : NoteId} (hc : (s.pc t).creating = some n) (ht : e.actor ≠ some t) :
    (s'.notes n).expiry = (s.notes n).expiry := by
  rcases step_expiry hs n (hA.creating t n hc).1 with h1 | ⟨a, p, dl, ha, hcr, _, _⟩
  · exact h1
  · have := hA.unique t a n hc hcr
    subst this
    exact absurd ha ht

theorem NClaim.other {s s' : State} {e : Event} (hA : InvA s) (hN : InvN s)
    (hs : step s e = .ok s') (t : Tid) (ht : e.actor ≠ some t) : NClaim s' t (s.pc t) := by
  have hst := step_stable hs
  have haf := step_after_other hs t ht
  have hna : ∀ n, NA s n → NA s' n := fun n h => NA.step hA hN hs h
  have hnt : ∀ n, (s.notes n).allocated = true → s.Notified n → s'.Notified n :=
    fun n h1 h2 => (hna n ⟨h2, h1⟩).1
  have hc := hN.claim t
  cases hpc : s.pc t with
  | dl pos n nt dk =>
    rw [hpc] at hc
    obtain ⟨h1, h2, h3⟩ := hc
    refine ⟨hst.alloc n h1, ?_, ?_⟩
    · refine ⟨fun ha hb => ?_, fun par dl e => ?_⟩
      · rw [haf] at ha; exact hna n (h2.1 ha hb)
      · have hcr : (s.pc t).creating = some n := by rw [hpc, e]; simp
        rw [expiry_other hA hs hcr ht]; exact h2.2 par dl e
    · intro hl
      obtain ⟨h4, h5, h6⟩ := h3 hl
      refine ⟨fun hp => hnt n h1 (h4 hp), ?_, ?_⟩
      · intro hp hnew
        have hcr : (s.pc t).creating = some n := by rw [hpc]; simp [hnew]
        rw [expiry_other hA hs hcr ht]; exact h5 hp hnew
      · intro ha hb; rw [haf] at ha; exact h6 ha hb
  | nfy pos n par nk =>
    rw [hpc] at hc
    obtain ⟨h1, h2, h3⟩ := hc
    refine ⟨hst.alloc n h1, ?_, fun hd => hnt n h1 (h3 hd)⟩
    cases nk with
    | ofApi => trivial
    | ofDeadline dk =>
      refine ⟨fun ha hb => ?_, fun par dl e => ?_⟩
      · rw [haf] at ha; exact hna n (h2.1 ha hb)
      · have hcr : (s.pc t).creating = some n := by rw [hpc, e]; simp
        rw [expiry_other hA hs hcr ht]; exact h2.2 par dl e
  | chd pos stk top =>
    rw [hpc] at hc
    obtain ⟨h1, h2, h3⟩ := hc
    refine ⟨hst.alloc _ h1, ?_, ?_⟩
    · cases hk : top.k with
      | ofApi => trivial
      | ofDeadline dk =>
        rw [hk] at h2
        refine ⟨fun ha hb => ?_, fun par dl e => ?_⟩
        · rw [haf] at ha; exact hna _ (h2.1 ha hb)
        · have hcr : (s.pc t).creating = some top.n := by rw [hpc]; simp [hk, e]
          rw [expiry_other hA hs hcr ht]; exact h2.2 par dl e
    · cases stk with
      | nil => exact h3
      | cons f rest =>
        obtain ⟨h4, h5, h6, h7, h8⟩ := h3
        exact ⟨h4, fun g hg => hna _ (h5 g hg), hst.alloc _ h6, fun hp => hnt _ h6 (h7 hp),
          fun c hc' => hst.alloc _ (h8 c hc')⟩
  | newP pos n p dl =>
    rw [hpc] at hc
    exact ⟨hst.alloc n hc.1, fun hp => hna p (hc.2 hp)⟩
  | retIs n b =>
    rw [hpc] at hc
    exact ⟨fun hb => hna n (hc.1 hb), fun ha => hc.2 (haf ▸ ha)⟩
  | retNotify n => rw [hpc] at hc; exact hna n hc
  | wt0 p n wdl =>
    rw [hpc] at hc
    obtain ⟨h1, h2, h3⟩ := hc
    refine ⟨hst.alloc n h1, fun ha => hnt n h1 (h2 (haf ▸ ha)), ?_⟩
    cases p with
    | nret rd => exact ⟨fun h0 => hnt n h1 (h3.1 h0), fun ha => h3.2 (haf ▸ ha)⟩
    | ret rd => exact ⟨fun h0 => hnt n h1 (h3.1 h0), fun ha => h3.2 (haf ▸ ha)⟩
    | _ => trivial
  | wt p n wdl r =>
    rw [hpc] at hc
    obtain ⟨h1, h2, h3⟩ := hc
    refine ⟨hst.alloc n h1, fun ha => hnt n h1 (h2 (haf ▸ ha)), ?_⟩
    cases p with
    | qSt => simpa [NClaim, haf] using h3
    | qUnlockCall q => exact ⟨fun h0 => hnt n h1 (h3.1 h0), fun ha => h3.2 (haf ▸ ha)⟩
    | qUnlockRet q => exact ⟨fun h0 => hnt n h1 (h3.1 h0), fun ha => h3.2 (haf ▸ ha)⟩
    | _ => trivial
  | _ => trivial

end Note
