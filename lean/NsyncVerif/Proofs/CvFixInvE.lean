/-
  Layer `CvFix` (cv.c with the repair of F3; adapted from the `Cv` file of the same name): the invariant behind `C04_no_lost_wake` — a woken record has been posted, or its
  waker is at the V.
-/
import NsyncVerif.Proofs.CvFixInvDAll

namespace NsyncVerif.CvFix

structure InvE (s : State) : Prop where
  /-- `cur` is set exactly between the store `waiting := 0` and the V -/
  curLoc : ∀ u, (s.thr u).cur ≠ none ↔ (s.thr u).loc = .wwV
  /-- a woken record is posted, or its waker is at the V for this very instance -/
  woken : ∀ r, (s.recs r).stat = .woken →
    (s.recs r).posted = true ∨ ∃ u, (s.thr u).cur = some (r, (s.recs r).enqSeq) ∧ (s.thr u).loc = .wwV

theorem invE_init : InvE init := by
  constructor <;> simp [init]

/-- Frame: no thread changes `cur` or enters / leaves the V; no record becomes woken; woken records
    keep `enqSeq` and do not lose `posted`. -/
theorem invE_frame {s s' : State} (hi : InvE s)
    (hthr : ∀ u, (s'.thr u).cur = (s.thr u).cur ∧ ((s'.thr u).loc = .wwV ↔ (s.thr u).loc = .wwV))
    (hrec : ∀ r, (s'.recs r).stat = .woken → (s.recs r).stat = .woken ∧ (s'.recs r).enqSeq = (s.recs r).enqSeq ∧
      ((s.recs r).posted = true → (s'.recs r).posted = true)) : InvE s' := by
  obtain ⟨e1, e2⟩ := hi
  constructor
  · intro u; rw [(hthr u).1, (hthr u).2]; exact e1 u
  · intro r hw
    obtain ⟨h1, h2, h3⟩ := hrec r hw
    rcases e2 r h1 with hp | ⟨u, hc, hl⟩
    · exact .inl (h3 hp)
    · exact .inr ⟨u, by rw [(hthr u).1, h2]; exact hc, (hthr u).2.mpr hl⟩

/-- Frame condition of a local transition. -/
theorem ltr_cur {s : State} {t : Tid} {e : Event} {x' : Thr} (hi : InvE s) (h : LTr s t e x') :
    x'.cur = (s.thr t).cur ∧ (x'.loc = .wwV ↔ (s.thr t).loc = .wwV) := by
  have hnone : (s.thr t).loc ≠ .wwV → (s.thr t).cur = none := by
    intro hl
    cases hc : (s.thr t).cur with
    | none => rfl
    | some v => exact absurd ((hi.curLoc t).mp (by rw [hc]; simp)) hl
  cases h with
  | spinLd site obs hl ho =>
    rcases hl with ⟨_, hl⟩ | ⟨_, hl⟩ <;> split <;> simp [hl]
  | spinLdN obs hl ho => split <;> simp [hl]
  | sigLd site obs hl hs ho => split <;> simp [hl]
  | wHeadStay r obs hl hr ho hz =>
    split
    · by_cases hn : (s.thr t).note = true <;> simp only [hn, if_true, if_false] <;> simp [hl]
    · simp [hl]
  | wChk y r obs hy hl hr ho hso => split <;> cases hy <;> simp_all
  | wTail y r obs hy hl hr ho => cases hy <;> simp_all
  | wChk2 r obs hl hr ho => by_cases hz : obs = 0 <;> simp only [hz, if_true, if_false] <;> simp [hl]
  | retWait res hl hr => rcases hl with hl | hl <;> simp [hl, Thr.fresh, hnone]
  | wwLd obs f rest hl hlist =>
    by_cases hc : wantTransfer (s.recs f).lt obs (s.thr t).list.length (s.thr t).allReaders = true <;>
      simp only [hc, if_true, if_false] <;> simp [hl]
  | wwRelLd site obs hl => rcases hl with ⟨_, hl⟩ | ⟨_, hl⟩ <;> simp [hl]
  | wwRelCasOk exp new obs hl =>
    by_cases hz : (s.thr t).list.isEmpty = true <;> simp only [hz, if_true, if_false] <;> simp [hl]
  | noteSeen hl => rcases hl with hl | hl | hl <;> simp [hl]
  | callWait gen dl note hl => simp [hl, Thr.fresh, hnone]
  | callSignal hl => simp [hl, Thr.fresh, hnone]
  | callBroadcast hl => simp [hl, Thr.fresh, hnone]
  | retSignal hl hb => simp [hl, Thr.fresh, hnone]
  | retBroadcast hl hb => simp [hl, Thr.fresh, hnone]
  | callWaitN hl => simp [hl, Thr.fresh, hnone]
  | retWaitN hl hm => simp [hl, Thr.fresh, hnone]
  | callDebug k hl => simp [hl, Thr.fresh, hnone]
  | retDebug k hl hk => simp [hl, Thr.fresh, hnone]
  | dbgLd obs hl ho => split <;> simp [hl]
  | _ => simp_all

end NsyncVerif.CvFix
