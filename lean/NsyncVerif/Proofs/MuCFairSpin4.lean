import NsyncVerif.Proofs.MuCFairSpin3
import NsyncVerif.Proofs.MuCFairQueue2
set_option linter.unusedSimpArgs false
/-
  MuC, fair termination, step C, the scan loop: with `testing_conditions` off the scan of unlock_slow keeps the
  spinlock; it is left after at most 2·(|mu->waiters| + |new_waiters|) + 1 own steps (each successful CAS on a
  `remove_count` takes one waiter off the lists) — no failing `remove_count` CAS.
-/
namespace NsyncVerif.MuC

variable {cfg : Cfg} {s0 : State}

/-- What the scan has still to look at. -/
def scanMu (s : State) (sc : Scan) : Nat := s.queue.length + sc.passed.length + sc.todo.length

/-- With `testing_conditions` off the plain code of the scan stops at the final load, or at the next removal — and
    then there is less to look at. -/
theorem scanRun_mu : ∀ (n : Nat) (s : State) (t : Tid) (r : Ret) (sc : Scan) (s' : State),
    scanRun n s t r sc = .ok s' → sc.tc = false →
    (∃ f, s'.pc t = .usFinLd r f) ∨
    (∃ sc' k, s'.pc t = .usRcLd r sc' k ∧ sc'.tc = false ∧ scanMu s' sc' + 1 ≤ scanMu s sc) := by
  intro n
  induction n with
  | zero => intro s t r sc s' h; simp [scanRun] at h
  | succ n ih =>
    intro s t r sc s' h htc
    unfold scanRun at h
    have hl := scanGo_lists s.wr sc.todo sc
    have hsp := scanGo_spec s.wr sc.todo sc
    split at h
    · cases h
    · rename_i k sc' heq
      rw [heq] at hsp
      exact absurd hsp.2.2.1 (by simp [htc])
    · rename_i k sc' heq
      rw [heq] at hsp hl
      simp only [Except.ok.injEq] at h; subst h
      right
      refine ⟨sc', k, by simp, by rw [hsp.2]; exact htc, ?_⟩
      have := congrArg List.length hl.2.1
      simp only [List.length_append, List.length_cons] at this
      simp only [scanMu, setPc_queue, removeLinks_queue]
      omega
    · rename_i sc' heq
      rw [heq] at hsp hl
      have htc' : sc'.tc = false := by rw [hsp.2]; exact htc
      have hlen := congrArg List.length hl.2.2
      simp only [List.length_append] at hlen
      split at h
      · rename_i h'; rw [htc'] at h'; cases h'
      · split at h
        · rename_i s1 _
          simp only [Except.ok.injEq] at h; subst h
          left; exact ⟨mkFin sc' s1.queue.isEmpty, by simp only [toFin, setPc_pc, setFn_same]⟩
        · rename_i s1 sc2 hp
          have e1 : s1 = (pickup s sc').1 := by rw [hp]
          have e2 : (pickup s sc').2 = some sc2 := by rw [hp]
          obtain ⟨hq1, _, hpa, htd, _, _⟩ := pickup_some' e2
          obtain ⟨_, htc2⟩ := pickup_some e2
          have htc2' : sc2.tc = false := by
            cases h2 : sc2.tc with
            | false => rfl
            | true => rw [htc2 h2] at htc'; cases htc'
          subst e1
          split at h
          · rename_i h'; rw [htc2'] at h'; cases h'
          · rcases ih _ t r sc2 s' h htc2' with a | ⟨sc3, k, a, b, c⟩
            · exact Or.inl a
            · right
              refine ⟨sc3, k, a, b, ?_⟩
              have : scanMu (pickup s sc').1 sc2 ≤ scanMu s sc := by
                simp only [scanMu, hq1, hpa, htd, List.length_nil]; omega
              omega

variable {s s' : State} {e : Event} {t : Tid}

theorem own_usRcLd {r : Ret} {sc : Scan} {k : Wid} (hs : step cfg s e = .ok s') (ht : e.tid = some t)
    (hd : e.isData = false) (hp : s.pc t = .usRcLd r sc k) :
    (∃ old, s'.pc t = .usRcCas r sc k old) ∧ s'.queue = s.queue := by
  own_cases e ht hd hs hp

theorem own_usRcCas {r : Ret} {sc : Scan} {k : Wid} {old : Nat} (hs : step cfg s e = .ok s') (ht : e.tid = some t)
    (hd : e.isData = false) (hp : s.pc t = .usRcCas r sc k old) (htc : sc.tc = false) :
    (∃ f, s'.pc t = .usFinLd r f) ∨
    (∃ sc' k', s'.pc t = .usRcLd r sc' k' ∧ sc'.tc = false ∧ scanMu s' sc' + 1 ≤ scanMu s sc) ∨
    e.rcFail = true := by
  cases e <;> simp only [Event.tid, Option.some.injEq, reduceCtorEq] at ht
  all_goals subst ht
  case cas t o loc exp new obs ok =>
    simp only [step, stepCas, hp] at hs
    repeat' split at hs
    all_goals first
      | (cases hs; done)
      | skip
    · rcases scanRun_mu _ _ t r sc s' hs htc with a | ⟨sc', k', a, b, c⟩
      · exact Or.inl a
      · exact Or.inr (Or.inl ⟨sc', k', a, b, by simpa [scanMu] using c⟩)
    · right; right
      simp_all [Event.rcFail]
  all_goals first
    | (simp [Event.isData] at hd; done)
    | (simp [step, stepCall, stepRet, stepLd, stepSt, stepCond, hp] at hs)

end NsyncVerif.MuC
